(* SerdeProofs.v — C17: the serialized form is the base-2^32 digit sequence with an exact
   declared length and no trailing zero word; deserialization of any u32 sequence yields the
   canonical value it denotes; round trips; sign validation; size hints are irrelevant. *)
From BigNum Require Import Base BaseLemmas SpecBytes BytesLemmas BitDigits BitDigitsProofs
  Iter IterProofs Bytes BytesProofs Serde.
Open Scope Z_scope.

(** ** serialization *)
Lemma ser_words_abs x : snd (ser_biguint x) = abs (it_new iter_std x).
Proof.
  unfold ser_biguint, abs, it_new. ip_red. cbn [it_data it_next_is_lo it_last_hi_is_zero negb drop_first].
  destruct (snoc_cases x) as [->|(r & t & ->)]; [reflexivity|].
  rewrite last_opt_snoc, removelast_snoc, flat32_snoc. cbn [snd].
  destruct (hi32 t =? 0); cbn [drop_last].
  - change [lo32 t; hi32 t] with ([lo32 t] ++ [hi32 t]). rewrite app_assoc, removelast_snoc. reflexivity.
  - reflexivity.
Qed.
Lemma ser_len_exact x : fst (ser_biguint x) = Z.of_nat (length (snd (ser_biguint x))).
Proof.
  unfold ser_biguint. destruct (snoc_cases x) as [->|(r & t & ->)]; [reflexivity|].
  rewrite last_opt_snoc, removelast_snoc. cbn [fst snd].
  fold (flat32 r). rewrite app_length, (flat32_length r).
  destruct (hi32 t =? 0); cbn [length]; lia.
Qed.

Theorem ser_biguint_spec x : canon x -> ser_biguint x = spec_ser (val x).
Proof.
  intros Hx. unfold spec_ser. cbv zeta. change (2 ^ 32) with W32.
  rewrite <- (abs_new iter_std x eq_refl Hx), <- ser_words_abs, <- ser_len_exact.
  destruct (ser_biguint x); reflexivity.
Qed.

(** the three clauses separately: digits, declared length, no trailing zero word *)
Corollary ser_biguint_digits x : canon x -> snd (ser_biguint x) = le_digits (2 ^ 32) (val x).
Proof. intros Hx. rewrite ser_biguint_spec by auto. reflexivity. Qed.
Corollary ser_biguint_declared_len x : fst (ser_biguint x) = Z.of_nat (length (snd (ser_biguint x))).
Proof. apply ser_len_exact. Qed.
Corollary ser_biguint_no_trailing_zero x : canon x ->
  snd (ser_biguint x) = [] \/ last (snd (ser_biguint x)) 0 <> 0.
Proof.
  intros Hx. rewrite ser_biguint_digits by auto.
  destruct (le_digits_spec (2 ^ 32) (val x) ltac:(reflexivity) (val_nonneg _ (proj1 Hx))) as (_ & Hs & _).
  destruct (le_digits (2 ^ 32) (val x)) eqn:E; [left; reflexivity|right].
  apply strip_fix_last; [exact Hs|discriminate].
Qed.
Corollary ser_biguint_zero : ser_biguint [] = (0, []).
Proof. reflexivity. Qed.

(** ** deserialization *)
Lemma de_pairs_eq w : de_pairs w = pair_words w.
Proof. reflexivity. Qed.

Theorem de_biguint_spec w : inb W32 w -> de_biguint w = enc (le_value (2 ^ 32) w).
Proof. intros H. unfold de_biguint. rewrite de_pairs_eq. apply (uassign_from_slice_spec [] w H). Qed.

Lemma is_u32_inb w : forallb is_u32 w = true <-> inb W32 w.
Proof.
  unfold inb. rewrite forallb_forall, Forall_forall. unfold is_u32.
  split; intros H x Hx; specialize (H x Hx).
  - apply andb_prop in H as [H1 H2]. apply Z.leb_le in H1. apply Z.ltb_lt in H2. lia.
  - apply andb_true_intro; split; [apply Z.leb_le|apply Z.ltb_lt]; lia.
Qed.

(** any token stream, any hint: elements that are not u32 are rejected, otherwise the result
    is the canonical value Σ w_i 2^(32 i) *)
Theorem de_biguint_tokens_spec hint w :
  de_biguint_tokens hint w = option_map enc (spec_de w).
Proof.
  unfold de_biguint_tokens, spec_de. change (forallb is_word w) with (forallb is_u32 w).
  destruct (forallb is_u32 w) eqn:E; [|reflexivity].
  apply is_u32_inb in E. cbn [de_biguint_hinted snd option_map]. rewrite de_biguint_spec by auto. reflexivity.
Qed.

Theorem de_hint_irrelevant h1 h2 w :
  snd (de_biguint_hinted h1 w) = snd (de_biguint_hinted h2 w) /\
  de_biguint_tokens h1 w = de_biguint_tokens h2 w.
Proof. split; [reflexivity|rewrite !de_biguint_tokens_spec; reflexivity]. Qed.

(** ** round trip *)
Lemma le_digits_inb32 n : 0 <= n -> inb W32 (le_digits (2 ^ 32) n).
Proof. intros Hn. apply (le_digits_spec (2 ^ 32) n); [reflexivity|auto]. Qed.

Theorem de_ser_biguint x : canon x -> de_biguint (snd (ser_biguint x)) = x.
Proof.
  intros Hx. pose proof (val_nonneg _ (proj1 Hx)) as Hn.
  rewrite ser_biguint_digits, de_biguint_spec by auto using le_digits_inb32.
  destruct (le_digits_spec (2 ^ 32) (val x) ltac:(reflexivity) Hn) as (_ & _ & Hv).
  rewrite Hv. apply enc_of_canon; auto.
Qed.
Theorem de_ser_biguint_tokens x hint : canon x ->
  de_biguint_tokens hint (snd (ser_biguint x)) = Some x.
Proof.
  intros Hx. unfold de_biguint_tokens.
  replace (forallb is_u32 (snd (ser_biguint x))) with true.
  - cbn [de_biguint_hinted snd]. rewrite de_ser_biguint by auto. reflexivity.
  - symmetry. apply is_u32_inb. rewrite ser_biguint_digits by auto.
    apply le_digits_inb32, val_nonneg, Hx.
Qed.

(** ** Sign <-> i8 *)
Theorem de_sign_ser s : de_sign (ser_sign s) = Some s.
Proof. destruct s; reflexivity. Qed.
Theorem de_sign_spec v :
  de_sign v = if (v =? -1) || (v =? 0) || (v =? 1) then Some (z_sign v) else None.
Proof.
  unfold de_sign.
  destruct (Z.eqb_spec v (-1)) as [->|]; [reflexivity|].
  destruct (Z.eqb_spec v 0) as [->|]; [reflexivity|].
  destruct (Z.eqb_spec v 1) as [->|]; reflexivity.
Qed.
Theorem de_sign_rejects v : v <> -1 -> v <> 0 -> v <> 1 -> de_sign v = None.
Proof.
  intros. rewrite de_sign_spec.
  destruct (Z.eqb_spec v (-1)), (Z.eqb_spec v 0), (Z.eqb_spec v 1); try lia. reflexivity.
Qed.

(** ** BigInt *)
Theorem de_bigint_spec v hint w : de_bigint v hint w = option_map ienc (spec_ide v w).
Proof.
  unfold de_bigint, spec_ide. rewrite de_sign_spec, de_biguint_tokens_spec.
  destruct ((v =? -1) || (v =? 0) || (v =? 1)) eqn:Ev; [|reflexivity].
  unfold spec_de. destruct (forallb is_word w) eqn:E; [|reflexivity].
  cbn [option_map]. change (forallb is_word w) with (forallb is_u32 w) in E. apply is_u32_inb in E.
  rewrite from_biguint_enc by (apply (le_value_bound W32 w); [reflexivity|auto]).
  do 2 f_equal. f_equal.
  destruct (Z.eqb_spec v (-1)) as [->|]; [reflexivity|].
  destruct (Z.eqb_spec v 0) as [->|]; [reflexivity|].
  destruct (Z.eqb_spec v 1) as [->|]; [reflexivity|discriminate].
Qed.

Corollary de_bigint_rejects v hint w : v <> -1 -> v <> 0 -> v <> 1 -> de_bigint v hint w = None.
Proof. intros. unfold de_bigint. rewrite de_sign_rejects by auto. reflexivity. Qed.
Corollary de_bigint_sign0 hint w : inb W32 w -> de_bigint 0 hint w = Some (mkint NoSign []).
Proof.
  intros H. rewrite de_bigint_spec. unfold spec_ide, spec_de. cbn [Z.eqb orb].
  replace (forallb is_word w) with true by (symmetry; apply is_u32_inb; auto).
  cbn [option_map]. rewrite Z.mul_0_l. reflexivity.
Qed.
Corollary de_bigint_zero_mag v hint w : v = 1 \/ v = -1 -> inb W32 w -> le_value (2 ^ 32) w = 0 ->
  de_bigint v hint w = Some (mkint NoSign []).
Proof.
  intros Hv H Hz. rewrite de_bigint_spec. unfold spec_ide, spec_de.
  replace (forallb is_word w) with true by (symmetry; apply is_u32_inb; auto).
  rewrite Hz. destruct Hv as [->| ->]; reflexivity.
Qed.
Corollary de_bigint_hint_irrelevant v h1 h2 w : de_bigint v h1 w = de_bigint v h2 w.
Proof. rewrite !de_bigint_spec. reflexivity. Qed.

Lemma sign_z_sgn z : sign_z (z_sign z) = Z.sgn z.
Proof. destruct z; reflexivity. Qed.

Theorem ser_bigint_spec x : icanon x -> ser_bigint x = spec_iser (ival x).
Proof.
  intros H. destruct (icanon_parts x H) as (Hc & Hs & Hv). unfold ser_bigint, spec_iser.
  rewrite ser_biguint_spec, Hv by auto. f_equal. rewrite Hs.
  change (ser_sign (z_sign (ival x))) with (sign_z (z_sign (ival x))). apply sign_z_sgn.
Qed.

Theorem de_ser_bigint x hint : icanon x ->
  de_bigint (fst (ser_bigint x)) hint (snd (snd (ser_bigint x))) = Some x.
Proof.
  intros H. unfold ser_bigint, de_bigint. cbn [fst snd].
  rewrite de_sign_ser, de_ser_biguint_tokens by apply H.
  f_equal. destruct x as [s m]. destruct H as [Hc Hz]. cbn in *.
  destruct s; cbn [from_biguint].
  - destruct m; [|reflexivity]. destruct Hz as [_ Hz]. specialize (Hz eq_refl). discriminate.
  - destruct Hz as [Hz _]. rewrite (Hz eq_refl). reflexivity.
  - destruct m; [|reflexivity]. destruct Hz as [_ Hz]. specialize (Hz eq_refl). discriminate.
Qed.
