(* SerdeProofs.v — C17: the serialized form is the base-2^32 digit sequence with an exact
   declared length and no trailing zero word; deserialization of any u32 sequence yields the
   canonical value it denotes; round trips; sign validation; size hints are irrelevant. *)
From BigNum Require Import Base BaseLemmas SpecBytes BytesLemmas BitDigits BitDigitsProofs
  SrcLitLemmas Iter IterProofs Bytes BytesProofs Serde.
Open Scope Z_scope.

(** ** the source-extracted parameters the proofs are about *)
Definition std_de_arms : list (Z * sign) := [(-1, Minus); (0, NoSign); (1, Plus)].
Definition serde_std : serde_params := {|
  sdp_last_shift := 32; sdp_len_mul := 2; sdp_len_one := 1; sdp_len_cmp := Cne;
  sdp_elem_shift := 32; sdp_emit_cmp := Cne; sdp_de_shift := 32;
  sdp_ser_minus := -1; sdp_ser_nosign := 0; sdp_ser_plus := 1;
  sdp_de_arms := std_de_arms; sdp_from_biguint := true |}.

Fixpoint arms_eqb (a b : list (Z * sign)) : bool :=
  match a, b with
  | [], [] => true
  | (k, s) :: a', (k', s') :: b' => (k =? k') && sign_eqb s s' && arms_eqb a' b'
  | _, _ => false
  end.
Lemma arms_eqb_true a : forall b, arms_eqb a b = true -> a = b.
Proof.
  induction a as [|[k s] a IH]; intros [|[k' s'] b] H; try discriminate; [reflexivity|].
  cbn [arms_eqb] in H. rewrite !andb_true_iff in H. destruct H as [[H1 H2] H3].
  apply Z.eqb_eq in H1. rewrite (IH b H3). subst k'.
  destruct s, s'; try discriminate; reflexivity.
Qed.

Definition serde_ok (p : serde_params) : bool :=
  (sdp_last_shift p =? 32) && (sdp_len_mul p =? 2) && (sdp_len_one p =? 1)
  && cmpop_eqb (sdp_len_cmp p) Cne && (sdp_elem_shift p =? 32) && cmpop_eqb (sdp_emit_cmp p) Cne
  && (sdp_de_shift p =? 32)
  && (sdp_ser_minus p =? -1) && (sdp_ser_nosign p =? 0) && (sdp_ser_plus p =? 1)
  && arms_eqb (sdp_de_arms p) std_de_arms && Bool.eqb (sdp_from_biguint p) true.

(** every field is pinned: the accepted parameter record is exactly [serde_std] *)
Lemma serde_ok_inv p : serde_ok p = true -> p = serde_std.
Proof.
  destruct p. unfold serde_ok, serde_std. cbn -[Z.eqb arms_eqb std_de_arms].
  rewrite !andb_true_iff. intros H.
  repeat match goal with H : _ /\ _ |- _ => destruct H end.
  repeat match goal with
  | H : cmpop_eqb _ _ = true |- _ => apply cmpop_eqb_true in H
  | H : arms_eqb _ _ = true |- _ => apply arms_eqb_true in H
  | H : Bool.eqb _ _ = true |- _ => apply Bool.eqb_prop in H
  | H : (_ =? _) = true |- _ => apply Z.eqb_eq in H
  end.
  subst. reflexivity.
Qed.
Ltac sd_std p H := apply serde_ok_inv in H; subst p.
Ltac sd_red :=
  cbn [serde_std sdp_last_shift sdp_len_mul sdp_len_one sdp_len_cmp sdp_elem_shift sdp_emit_cmp
       sdp_de_shift sdp_ser_minus sdp_ser_nosign sdp_ser_plus sdp_de_arms sdp_from_biguint cmp_eval] in *;
  change (shr32 32) with hi32 in *.

(** ** serialization *)
Lemma ser_words_abs x : snd (ser_biguint serde_std x) = abs (it_new iter_std x).
Proof.
  unfold ser_biguint, abs, it_new. sd_red. ip_red. cbn [it_data it_next_is_lo it_last_hi_is_zero negb drop_first].
  destruct (snoc_cases x) as [->|(r & t & ->)]; [reflexivity|].
  rewrite last_opt_snoc, removelast_snoc, flat32_snoc. cbn [snd].
  destruct (hi32 t =? 0); cbn [drop_last negb].
  - change [lo32 t; hi32 t] with ([lo32 t] ++ [hi32 t]). rewrite app_assoc, removelast_snoc. reflexivity.
  - reflexivity.
Qed.
Lemma ser_len_exact x : fst (ser_biguint serde_std x) = Z.of_nat (length (snd (ser_biguint serde_std x))).
Proof.
  unfold ser_biguint. sd_red. destruct (snoc_cases x) as [->|(r & t & ->)]; [reflexivity|].
  rewrite last_opt_snoc, removelast_snoc. cbn [fst snd].
  fold (flat32 r). rewrite app_length, (flat32_length r).
  destruct (hi32 t =? 0); cbn [length negb]; lia.
Qed.

Theorem ser_biguint_spec p x : serde_ok p = true -> canon x -> ser_biguint p x = spec_ser (val x).
Proof.
  intros Hok; sd_std p Hok. intros Hx. unfold spec_ser. cbv zeta. change (2 ^ 32) with W32.
  rewrite <- (abs_new iter_std x eq_refl Hx), <- ser_words_abs, <- ser_len_exact.
  destruct (ser_biguint serde_std x); reflexivity.
Qed.

(** the three clauses separately: digits, declared length, no trailing zero word *)
Corollary ser_biguint_digits p x : serde_ok p = true -> canon x ->
  snd (ser_biguint p x) = le_digits (2 ^ 32) (val x).
Proof. intros Hok Hx. rewrite ser_biguint_spec by auto. reflexivity. Qed.
Corollary ser_biguint_declared_len p x : serde_ok p = true ->
  fst (ser_biguint p x) = Z.of_nat (length (snd (ser_biguint p x))).
Proof. intros Hok; sd_std p Hok. apply ser_len_exact. Qed.
Corollary ser_biguint_no_trailing_zero p x : serde_ok p = true -> canon x ->
  snd (ser_biguint p x) = [] \/ last (snd (ser_biguint p x)) 0 <> 0.
Proof.
  intros Hok Hx. rewrite ser_biguint_digits by auto.
  destruct (le_digits_spec (2 ^ 32) (val x) ltac:(reflexivity) (val_nonneg _ (proj1 Hx))) as (_ & Hs & _).
  destruct (le_digits (2 ^ 32) (val x)) eqn:E; [left; reflexivity|right].
  apply strip_fix_last; [exact Hs|discriminate].
Qed.
Corollary ser_biguint_zero p : ser_biguint p [] = (0, []).
Proof. reflexivity. Qed.

(** ** deserialization *)
Lemma de_pairs_eq w : de_pairs serde_std w = pair_words w.
Proof.
  assert (H : forall n w, (length w <= n)%nat -> de_pairs serde_std w = pair_words w).
  { induction n as [|n IH]; intros [|a [|b r]] Hl; try reflexivity; cbn [length] in Hl; try lia.
    cbn [de_pairs pair_words]. rewrite IH by lia. reflexivity. }
  apply (H (length w)); lia.
Qed.

Theorem de_biguint_spec p w : serde_ok p = true -> inb W32 w -> de_biguint p w = enc (le_value (2 ^ 32) w).
Proof. intros Hok; sd_std p Hok. intros H. unfold de_biguint. rewrite de_pairs_eq. apply (uassign_from_slice_spec [] w H). Qed.

Lemma is_u32_inb w : forallb is_u32 w = true <-> inb W32 w.
Proof.
  unfold inb. rewrite forallb_forall, Forall_forall. unfold is_u32.
  split; intros H x Hx; specialize (H x Hx).
  - apply andb_prop in H as [H1 H2]. apply Z.leb_le in H1. apply Z.ltb_lt in H2. lia.
  - apply andb_true_intro; split; [apply Z.leb_le|apply Z.ltb_lt]; lia.
Qed.

(** any token stream, any hint: elements that are not u32 are rejected, otherwise the result
    is the canonical value Σ w_i 2^(32 i) *)
Theorem de_biguint_tokens_spec p hint w : serde_ok p = true ->
  de_biguint_tokens p hint w = option_map enc (spec_de w).
Proof.
  intros Hok. unfold de_biguint_tokens, spec_de. change (forallb is_word w) with (forallb is_u32 w).
  destruct (forallb is_u32 w) eqn:E; [|reflexivity].
  apply is_u32_inb in E. cbn [de_biguint_hinted snd option_map]. rewrite de_biguint_spec by auto. reflexivity.
Qed.

Theorem de_hint_irrelevant p h1 h2 w :
  snd (de_biguint_hinted p h1 w) = snd (de_biguint_hinted p h2 w) /\
  de_biguint_tokens p h1 w = de_biguint_tokens p h2 w.
Proof. split; reflexivity. Qed.

(** ** round trip *)
Lemma le_digits_inb32 n : 0 <= n -> inb W32 (le_digits (2 ^ 32) n).
Proof. intros Hn. apply (le_digits_spec (2 ^ 32) n); [reflexivity|auto]. Qed.

Theorem de_ser_biguint p x : serde_ok p = true -> canon x -> de_biguint p (snd (ser_biguint p x)) = x.
Proof.
  intros Hok Hx. pose proof (val_nonneg _ (proj1 Hx)) as Hn.
  rewrite ser_biguint_digits, de_biguint_spec by auto using le_digits_inb32.
  destruct (le_digits_spec (2 ^ 32) (val x) ltac:(reflexivity) Hn) as (_ & _ & Hv).
  rewrite Hv. apply enc_of_canon; auto.
Qed.
Theorem de_ser_biguint_tokens p x hint : serde_ok p = true -> canon x ->
  de_biguint_tokens p hint (snd (ser_biguint p x)) = Some x.
Proof.
  intros Hok Hx. unfold de_biguint_tokens.
  replace (forallb is_u32 (snd (ser_biguint p x))) with true.
  - cbn [de_biguint_hinted snd]. rewrite de_ser_biguint by auto. reflexivity.
  - symmetry. apply is_u32_inb. rewrite ser_biguint_digits by auto.
    apply le_digits_inb32, val_nonneg, Hx.
Qed.

(** ** Sign <-> i8 *)
Theorem de_sign_ser p s : serde_ok p = true -> de_sign p (ser_sign p s) = Some s.
Proof. intros Hok; sd_std p Hok. destruct s; reflexivity. Qed.
Theorem de_sign_spec p v : serde_ok p = true ->
  de_sign p v = if (v =? -1) || (v =? 0) || (v =? 1) then Some (z_sign v) else None.
Proof.
  intros Hok; sd_std p Hok. unfold de_sign. sd_red. cbn [std_de_arms match_arms].
  destruct (Z.eqb_spec v (-1)) as [->|]; [reflexivity|].
  destruct (Z.eqb_spec v 0) as [->|]; [reflexivity|].
  destruct (Z.eqb_spec v 1) as [->|]; reflexivity.
Qed.
Theorem de_sign_rejects p v : serde_ok p = true -> v <> -1 -> v <> 0 -> v <> 1 -> de_sign p v = None.
Proof.
  intros Hok. intros. rewrite de_sign_spec by auto.
  destruct (Z.eqb_spec v (-1)), (Z.eqb_spec v 0), (Z.eqb_spec v 1); try lia. reflexivity.
Qed.

(** ** BigInt *)
Theorem de_bigint_spec p v hint w : serde_ok p = true ->
  de_bigint p v hint w = option_map ienc (spec_ide v w).
Proof.
  intros Hok. unfold de_bigint, spec_ide. rewrite de_sign_spec, de_biguint_tokens_spec by auto.
  replace (sdp_from_biguint p) with true by (apply serde_ok_inv in Hok; subst p; reflexivity).
  destruct ((v =? -1) || (v =? 0) || (v =? 1)) eqn:Ev; [|reflexivity].
  unfold spec_de. destruct (forallb is_word w) eqn:E; [|reflexivity].
  cbn [option_map]. change (forallb is_word w) with (forallb is_u32 w) in E. apply is_u32_inb in E.
  rewrite from_biguint_enc by (apply (le_value_bound W32 w); [reflexivity|auto]).
  do 2 f_equal. f_equal.
  destruct (Z.eqb_spec v (-1)) as [->|]; [reflexivity|].
  destruct (Z.eqb_spec v 0) as [->|]; [reflexivity|].
  destruct (Z.eqb_spec v 1) as [->|]; [reflexivity|discriminate].
Qed.

Corollary de_bigint_rejects p v hint w : serde_ok p = true ->
  v <> -1 -> v <> 0 -> v <> 1 -> de_bigint p v hint w = None.
Proof. intros Hok. intros. unfold de_bigint. rewrite de_sign_rejects by auto. reflexivity. Qed.
Corollary de_bigint_sign0 p hint w : serde_ok p = true -> inb W32 w ->
  de_bigint p 0 hint w = Some (mkint NoSign []).
Proof.
  intros Hok H. rewrite de_bigint_spec by auto. unfold spec_ide, spec_de. cbn [Z.eqb orb].
  replace (forallb is_word w) with true by (symmetry; apply is_u32_inb; auto).
  cbn [option_map]. rewrite Z.mul_0_l. reflexivity.
Qed.
Corollary de_bigint_zero_mag p v hint w : serde_ok p = true ->
  v = 1 \/ v = -1 -> inb W32 w -> le_value (2 ^ 32) w = 0 ->
  de_bigint p v hint w = Some (mkint NoSign []).
Proof.
  intros Hok Hv H Hz. rewrite de_bigint_spec by auto. unfold spec_ide, spec_de.
  replace (forallb is_word w) with true by (symmetry; apply is_u32_inb; auto).
  rewrite Hz. destruct Hv as [->| ->]; reflexivity.
Qed.
Corollary de_bigint_hint_irrelevant p v h1 h2 w : de_bigint p v h1 w = de_bigint p v h2 w.
Proof. reflexivity. Qed.

Lemma sign_z_sgn z : sign_z (z_sign z) = Z.sgn z.
Proof. destruct z; reflexivity. Qed.

Theorem ser_bigint_spec p x : serde_ok p = true -> icanon x -> ser_bigint p x = spec_iser (ival x).
Proof.
  intros Hok H. destruct (icanon_parts x H) as (Hc & Hs & Hv). unfold ser_bigint, spec_iser.
  rewrite ser_biguint_spec, Hv by auto. f_equal. rewrite Hs. sd_std p Hok.
  change (ser_sign serde_std (z_sign (ival x))) with (sign_z (z_sign (ival x))). apply sign_z_sgn.
Qed.

Theorem de_ser_bigint p x hint : serde_ok p = true -> icanon x ->
  de_bigint p (fst (ser_bigint p x)) hint (snd (snd (ser_bigint p x))) = Some x.
Proof.
  intros Hok H. unfold ser_bigint, de_bigint. cbn [fst snd].
  rewrite de_sign_ser, de_ser_biguint_tokens by (auto; apply H).
  replace (sdp_from_biguint p) with true by (apply serde_ok_inv in Hok; subst p; reflexivity).
  f_equal. destruct x as [s m]. destruct H as [Hc Hz]. cbn in *.
  destruct s; cbn [from_biguint].
  - destruct m; [|reflexivity]. destruct Hz as [_ Hz]. specialize (Hz eq_refl). discriminate.
  - destruct Hz as [Hz _]. rewrite (Hz eq_refl). reflexivity.
  - destruct m; [|reflexivity]. destruct Hz as [_ Hz]. specialize (Hz eq_refl). discriminate.
Qed.
