(* AsmProofs.v — the inline-asm loops of schoolbook_{add,sub}_assign_x86_64, executed under
   the mini-x86 semantics of base/X86.v, compute exactly the list function [schoolbook] of
   model/AddSub.v and touch memory only inside the first 5*(size/5) cells (C01, C15). *)
From BigNum Require Import Base BaseLemmas X86 AddSub AddSubProofs.
Open Scope Z_scope.

(** memory cells [i, i+n) of a memory function *)
Definition seg (m : Z -> Z) (i : Z) (n : nat) : list Z :=
  map (fun j => m (i + Z.of_nat j)) (seq 0 n).

Lemma seg_length m i n : length (seg m i n) = n.
Proof. unfold seg. rewrite map_length, seq_length. reflexivity. Qed.
Lemma seg_S m i n : seg m i (S n) = m i :: seg m (i + 1) n.
Proof.
  unfold seg. cbn [seq map]. rewrite Z.add_0_r. f_equal.
  rewrite <- seq_shift, map_map. apply map_ext. intros j. f_equal. lia.
Qed.
Lemma seg_app m i n k : seg m i (n + k) = seg m i n ++ seg m (i + Z.of_nat n) k.
Proof.
  revert i; induction n as [|n IH]; intros i.
  - cbn [Nat.add seg seq map app Z.of_nat]. rewrite Z.add_0_r. reflexivity.
  - cbn [Nat.add]. rewrite !seg_S, IH. cbn [app]. do 3 f_equal. lia.
Qed.
Lemma seg_ext m m' i n : (forall j, i <= j < i + Z.of_nat n -> m j = m' j) -> seg m i n = seg m' i n.
Proof.
  intros H. unfold seg. apply map_ext_in. intros j Hj. apply in_seq in Hj. apply H. lia.
Qed.
(** body of the canonical program *)
Definition body (mk : reg -> reg -> instr) : list instr :=
  [Load (RA 1) MA 0; Load (RA 2) MA 1; Load (RA 3) MA 2; Load (RA 4) MA 3; Load (RA 5) MA 4;
   Load (RB 1) MB 0; Load (RB 2) MB 1; Load (RB 3) MB 2; Load (RB 4) MB 3; Load (RB 5) MB 4;
   mk (RA 1) (RB 1); mk (RA 2) (RB 2); mk (RA 3) (RB 3); mk (RA 4) (RB 4); mk (RA 5) (RB 5);
   Store MA 0 (RA 1); Store MA 1 (RA 2); Store MA 2 (RA 3); Store MA 3 (RA 4); Store MA 4 (RA 5);
   Inc Ridx; Inc Ridx; Inc Ridx; Inc Ridx; Inc Ridx; Dec Rsize].

Lemma run_canon_add fuel s :
  run fuel canon_add_prog s =
  let '(s1, ok) := loop fuel (body Adc) (exec [Clc] s) in (exec [Setc Rc; Clc] s1, ok).
Proof. reflexivity. Qed.
Lemma run_canon_sub fuel s :
  run fuel canon_sub_prog s =
  let '(s1, ok) := loop fuel (body Sbb) (exec [Clc] s) in (exec [Setc Rc; Clc] s1, ok).
Proof. reflexivity. Qed.

(** ** closed form of one loop iteration *)
Section Body.
  Variables (rg0 : reg -> Z) (cf0 zf0 : bool) (ma0 mb0 : Z -> Z) (tr0 : list access).
  Let i := rg0 Ridx.
  Let s0 := mkst rg0 cf0 zf0 ma0 mb0 tr0.
  Let x k := ma0 (addr i k).
  Let y k := mb0 (addr i k).

  Let a1 := add3 (x 0) (y 0) cf0.
  Let a2 := add3 (x 1) (y 1) (carry_out a1).
  Let a3 := add3 (x 2) (y 2) (carry_out a2).
  Let a4 := add3 (x 3) (y 3) (carry_out a3).
  Let a5 := add3 (x 4) (y 4) (carry_out a4).

  Lemma body_add_eff :
    let s' := exec (body Adc) s0 in
    rg s' Ridx = succ_w (succ_w (succ_w (succ_w (succ_w i)))) /\
    rg s' Rsize = pred_w (rg0 Rsize) /\
    zf s' = is_zero (pred_w (rg0 Rsize)) /\
    cf s' = carry_out a5 /\
    mb s' = mb0 /\
    ma s' = updm (updm (updm (updm (updm ma0 (addr i 0) (wrap a1)) (addr i 1) (wrap a2))
                   (addr i 2) (wrap a3)) (addr i 3) (wrap a4)) (addr i 4) (wrap a5) /\
    tr s' = [Wr MA (addr i 4); Wr MA (addr i 3); Wr MA (addr i 2); Wr MA (addr i 1); Wr MA (addr i 0);
             Rd MB (addr i 4); Rd MB (addr i 3); Rd MB (addr i 2); Rd MB (addr i 1); Rd MB (addr i 0);
             Rd MA (addr i 4); Rd MA (addr i 3); Rd MA (addr i 2); Rd MA (addr i 1); Rd MA (addr i 0)] ++ tr0.
  Proof.
    lazy [body exec fold_left step rg cf zf ma mb tr upd reg_eqb Z.eqb Pos.eqb s0 app].
    repeat split; reflexivity.
  Qed.

  Let b1 := sub3 (x 0) (y 0) cf0.
  Let b2 := sub3 (x 1) (y 1) (borrow_out b1).
  Let b3 := sub3 (x 2) (y 2) (borrow_out b2).
  Let b4 := sub3 (x 3) (y 3) (borrow_out b3).
  Let b5 := sub3 (x 4) (y 4) (borrow_out b4).

  Lemma body_sub_eff :
    let s' := exec (body Sbb) s0 in
    rg s' Ridx = succ_w (succ_w (succ_w (succ_w (succ_w i)))) /\
    rg s' Rsize = pred_w (rg0 Rsize) /\
    zf s' = is_zero (pred_w (rg0 Rsize)) /\
    cf s' = borrow_out b5 /\
    mb s' = mb0 /\
    ma s' = updm (updm (updm (updm (updm ma0 (addr i 0) (wrap b1)) (addr i 1) (wrap b2))
                   (addr i 2) (wrap b3)) (addr i 3) (wrap b4)) (addr i 4) (wrap b5) /\
    tr s' = [Wr MA (addr i 4); Wr MA (addr i 3); Wr MA (addr i 2); Wr MA (addr i 1); Wr MA (addr i 0);
             Rd MB (addr i 4); Rd MB (addr i 3); Rd MB (addr i 2); Rd MB (addr i 1); Rd MB (addr i 0);
             Rd MA (addr i 4); Rd MA (addr i 3); Rd MA (addr i 2); Rd MA (addr i 1); Rd MA (addr i 0)] ++ tr0.
  Proof.
    lazy [body exec fold_left step rg cf zf ma mb tr upd reg_eqb Z.eqb Pos.eqb s0 app].
    repeat split; reflexivity.
  Qed.
End Body.

(** ** lanes of one block vs the list model *)
Lemma adc_x86 x y c : digit x -> digit y ->
  adc (b2z c) x y = (wrap (add3 x y c), b2z (carry_out (add3 x y c))).
Proof.
  unfold adc, wrap, add3, carry_out, digit. intros Hx Hy. f_equal.
  assert (Hc : 0 <= b2z c <= 1) by (destruct c; cbn; lia).
  destruct (Z.leb_spec B (x + y + b2z c)); cbn [b2z].
  - symmetry. apply Z.div_unique with (x + y + b2z c - B); lia.
  - apply Z.div_small. lia.
Qed.
Lemma sbb_x86 x y c : digit x -> digit y ->
  sbb (b2z c) x y = (wrap (sub3 x y c), b2z (borrow_out (sub3 x y c))).
Proof.
  unfold sbb, wrap, sub3, borrow_out, digit. intros Hx Hy.
  destruct (Z.ltb_spec (x - y - b2z c) 0); reflexivity.
Qed.

Lemma succ_w_small x : 0 <= x < B - 1 -> succ_w x = x + 1.
Proof. intros H. unfold succ_w. apply Z.mod_small. lia. Qed.

Definition acc_ok (n : Z) (a : access) : Prop :=
  match a with
  | Rd _ i => 0 <= i < n
  | Wr MA i => 0 <= i < n
  | Wr MB _ => False
  end.
Lemma acc_ok_mono n m a : n <= m -> acc_ok n a -> acc_ok m a.
Proof. destruct a as [r i|[|] i]; cbn; lia. Qed.

Lemma updm_eq f k v j : updm f k v j = if j =? k then v else f j.
Proof. reflexivity. Qed.

Section Loop.
  Variables (a b : Z -> Z) (K : Z).
  Hypothesis HK : 1 <= K.
  Hypothesis HB : 5 * K < B.
  Hypothesis Ha : forall j, 0 <= j < 5 * K -> digit (a j).
  Hypothesis Hb : forall j, 0 <= j < 5 * K -> digit (b j).

  (** generic in the lane operation *)
  Variable zipf : Z -> list Z -> list Z -> list Z * Z.
  Variable mk : reg -> reg -> instr.
  Hypothesis zip_app : forall a1 b1 a2 b2 c, length a1 = length b1 ->
    zipf c (a1 ++ a2) (b1 ++ b2) =
    let '(r1, c1) := zipf c a1 b1 in let '(r2, c2) := zipf c1 a2 b2 in (r1 ++ r2, c2).
  Hypothesis zip_length : forall a b c, length (fst (zipf c a b)) = length a.
  Hypothesis zip_nil : forall c, zipf c [] [] = ([], c).
  (** effect of one iteration on a state whose idx register holds [i], in terms of [zipf] *)
  Hypothesis body_eff : forall rg0 cf0 zf0 ma0 mb0 tr0,
    (forall t, 0 <= t < 5 -> digit (ma0 (rg0 Ridx + t)) /\ digit (mb0 (rg0 Ridx + t))) ->
    let i := rg0 Ridx in
    let s' := exec (body mk) (mkst rg0 cf0 zf0 ma0 mb0 tr0) in
    let '(r5, c') := zipf (b2z cf0) (seg ma0 i 5) (seg mb0 i 5) in
    rg s' Ridx = succ_w (succ_w (succ_w (succ_w (succ_w i)))) /\
    rg s' Rsize = pred_w (rg0 Rsize) /\
    zf s' = is_zero (pred_w (rg0 Rsize)) /\
    b2z (cf s') = c' /\
    (forall j, mb s' j = mb0 j) /\
    (forall j, ma s' j = if (i <=? j) && (j <? i + 5) then nth (Z.to_nat (j - i)) r5 0 else ma0 j) /\
    exists t5, tr s' = t5 ++ tr0 /\ (0 <= i -> Forall (acc_ok (i + 5)) t5).

  Definition res (k : nat) : list Z * Z := zipf 0 (seg a 0 (5 * k)) (seg b 0 (5 * k)).

  Definition Inv (k : nat) (s : state) : Prop :=
    rg s Ridx = 5 * Z.of_nat k /\
    rg s Rsize = K - Z.of_nat k /\
    (forall j, mb s j = b j) /\
    (forall j, ma s j = if (0 <=? j) && (j <? 5 * Z.of_nat k) then nth (Z.to_nat j) (fst (res k)) 0 else a j) /\
    b2z (cf s) = snd (res k) /\
    Forall (acc_ok (5 * Z.of_nat k)) (tr s).

  Lemma res_S k : res (S k) =
    let '(r1, c1) := res k in
    let '(r2, c2) := zipf c1 (seg a (5 * Z.of_nat k) 5) (seg b (5 * Z.of_nat k) 5) in (r1 ++ r2, c2).
  Proof.
    unfold res. replace (5 * S k)%nat with (5 * k + 5)%nat by lia.
    rewrite !seg_app, zip_app by (rewrite !seg_length; reflexivity).
    replace (0 + Z.of_nat (5 * k)) with (5 * Z.of_nat k) by lia. reflexivity.
  Qed.
  Lemma res_length k : length (fst (res k)) = (5 * k)%nat.
  Proof. unfold res. rewrite zip_length, seg_length. reflexivity. Qed.

  Lemma step_inv k s : Inv k s -> Z.of_nat k < K ->
    let s' := exec (body mk) s in
    Inv (S k) s' /\ zf s' = (K - Z.of_nat k - 1 =? 0).
  Proof.
    intros (Hidx & Hsz & Hmb & Hma & Hcf & Htr) Hk. destruct s as [rg0 cf0 zf0 ma0 mb0 tr0].
    cbn [rg cf zf ma mb tr] in *.
    assert (Hdig : forall t, 0 <= t < 5 -> digit (ma0 (rg0 Ridx + t)) /\ digit (mb0 (rg0 Ridx + t))).
    { intros t Ht. rewrite Hidx, Hma, Hmb.
      replace ((0 <=? 5 * Z.of_nat k + t) && (5 * Z.of_nat k + t <? 5 * Z.of_nat k)) with false
        by (symmetry; apply andb_false_iff; right; apply Z.ltb_ge; lia).
      split; [apply Ha|apply Hb]; lia. }
    pose proof (body_eff rg0 cf0 zf0 ma0 mb0 tr0 Hdig) as He. cbv zeta in He.
    assert (Esa : seg ma0 (rg0 Ridx) 5 = seg a (5 * Z.of_nat k) 5).
    { rewrite Hidx. apply seg_ext. intros j Hj. rewrite Hma.
      replace ((0 <=? j) && (j <? 5 * Z.of_nat k)) with false
        by (symmetry; apply andb_false_iff; right; apply Z.ltb_ge; lia). reflexivity. }
    assert (Esb : seg mb0 (rg0 Ridx) 5 = seg b (5 * Z.of_nat k) 5).
    { rewrite Hidx. apply seg_ext. intros j Hj. apply Hmb. }
    rewrite Esa, Esb, Hcf in He.
    pose proof (res_S k) as HS. pose proof (res_length k) as HL.
    destruct (res k) as [r1 c1] eqn:Er. cbn [fst snd] in *.
    pose proof (zip_length (seg a (5 * Z.of_nat k) 5) (seg b (5 * Z.of_nat k) 5) c1) as HL5.
    destruct (zipf c1 (seg a (5 * Z.of_nat k) 5) (seg b (5 * Z.of_nat k) 5)) as [r5 c'] eqn:E5.
    cbn [fst] in HL5. rewrite seg_length in HL5.
    destruct He as (Eidx & Esz & Ezf & Ecf & Emb & Ema & t5 & Etr & Ht5).
    specialize (Ht5 ltac:(lia)).
    set (s' := exec (body mk) {| rg := rg0; cf := cf0; zf := zf0; ma := ma0; mb := mb0; tr := tr0 |}) in *.
    assert (Hsucc : succ_w (succ_w (succ_w (succ_w (succ_w (rg0 Ridx))))) = 5 * Z.of_nat (S k)).
    { rewrite Hidx. set (i0 := 5 * Z.of_nat k).
      rewrite (succ_w_small i0), (succ_w_small (i0 + 1)), (succ_w_small (i0 + 1 + 1)),
        (succ_w_small (i0 + 1 + 1 + 1)), (succ_w_small (i0 + 1 + 1 + 1 + 1)) by (unfold i0; lia).
      unfold i0; lia. }
    assert (Hpred : pred_w (rg0 Rsize) = K - Z.of_nat k - 1).
    { rewrite Hsz. unfold pred_w. rewrite Z.mod_small; lia. }
    split; [|rewrite Ezf, Hpred; reflexivity].
    unfold Inv. rewrite HS. cbn [fst snd].
    split; [rewrite Eidx; exact Hsucc|].
    split; [rewrite Esz, Hpred; lia|].
    split; [intros j; rewrite Emb; apply Hmb|].
    split.
    { intros j. rewrite Ema, Hidx.
      destruct (Z.leb_spec (5 * Z.of_nat k) j) as [H1|H1]; destruct (Z.ltb_spec j (5 * Z.of_nat k + 5)) as [H2|H2]; cbn [andb].
      - replace ((0 <=? j) && (j <? 5 * Z.of_nat (S k))) with true
          by (symmetry; apply andb_true_iff; split; [apply Z.leb_le|apply Z.ltb_lt]; lia).
        rewrite app_nth2 by (rewrite HL; lia). f_equal. rewrite HL. lia.
      - rewrite Hma.
        replace ((0 <=? j) && (j <? 5 * Z.of_nat (S k))) with false
          by (symmetry; apply andb_false_iff; right; apply Z.ltb_ge; lia).
        replace ((0 <=? j) && (j <? 5 * Z.of_nat k)) with false
          by (symmetry; apply andb_false_iff; right; apply Z.ltb_ge; lia). reflexivity.
      - rewrite Hma. destruct (Z.leb_spec 0 j) as [H0|H0]; cbn [andb].
        + replace (j <? 5 * Z.of_nat (S k)) with true by (symmetry; apply Z.ltb_lt; lia).
          replace (j <? 5 * Z.of_nat k) with true by (symmetry; apply Z.ltb_lt; lia).
          rewrite app_nth1 by (rewrite HL; lia). reflexivity.
        + reflexivity.
      - lia. }
    split; [exact Ecf|].
    rewrite Etr. apply Forall_app. split.
    - eapply Forall_impl; [|exact Ht5]. intros x. apply acc_ok_mono. lia.
    - eapply Forall_impl; [|exact Htr]. intros x. apply acc_ok_mono. lia.
  Qed.

  Lemma loop_inv m : forall k s fuel, Inv k s -> Z.of_nat k + Z.of_nat m + 1 = K -> (m <= fuel)%nat ->
    exists s', loop fuel (body mk) s = (s', true) /\ Inv (Z.to_nat K) s'.
  Proof.
    induction m as [|m IH]; intros k s fuel HI Hk Hf.
    - destruct (step_inv k s HI ltac:(lia)) as [HI' Hz].
      destruct fuel; cbn [loop]; rewrite Hz;
        (replace (K - Z.of_nat k - 1 =? 0) with true by (symmetry; apply Z.eqb_eq; lia));
        (eexists; split; [reflexivity|]);
        (replace (Z.to_nat K) with (S k) by lia); exact HI'.
    - destruct (step_inv k s HI ltac:(lia)) as [HI' Hz].
      destruct fuel as [|fuel]; [lia|]. cbn [loop]. rewrite Hz.
      replace (K - Z.of_nat k - 1 =? 0) with false by (symmetry; apply Z.eqb_neq; lia).
      apply (IH (S k)); auto; lia.
  Qed.
End Loop.

(** ** instantiating the loop for adc and sbb *)
Lemma seg5 m i : seg m i 5 = [m (addr i 0); m (addr i 1); m (addr i 2); m (addr i 3); m (addr i 4)].
Proof. unfold seg, addr. cbn [seq map Z.of_nat Pos.of_succ_nat Pos.succ]. reflexivity. Qed.

Lemma updm5 m i w1 w2 w3 w4 w5 j :
  updm (updm (updm (updm (updm m (addr i 0) w1) (addr i 1) w2) (addr i 2) w3) (addr i 3) w4) (addr i 4) w5 j
  = if (i <=? j) && (j <? i + 5) then nth (Z.to_nat (j - i)) [w1; w2; w3; w4; w5] 0 else m j.
Proof.
  unfold updm, addr.
  destruct (Z.eqb_spec j (i + 4)) as [->|N4].
  { replace ((i <=? i + 4) && (i + 4 <? i + 5)) with true by (symmetry; apply andb_true_iff; split; [apply Z.leb_le|apply Z.ltb_lt]; lia).
    replace (i + 4 - i) with 4 by lia. reflexivity. }
  destruct (Z.eqb_spec j (i + 3)) as [->|N3].
  { replace ((i <=? i + 3) && (i + 3 <? i + 5)) with true by (symmetry; apply andb_true_iff; split; [apply Z.leb_le|apply Z.ltb_lt]; lia).
    replace (i + 3 - i) with 3 by lia. reflexivity. }
  destruct (Z.eqb_spec j (i + 2)) as [->|N2].
  { replace ((i <=? i + 2) && (i + 2 <? i + 5)) with true by (symmetry; apply andb_true_iff; split; [apply Z.leb_le|apply Z.ltb_lt]; lia).
    replace (i + 2 - i) with 2 by lia. reflexivity. }
  destruct (Z.eqb_spec j (i + 1)) as [->|N1].
  { replace ((i <=? i + 1) && (i + 1 <? i + 5)) with true by (symmetry; apply andb_true_iff; split; [apply Z.leb_le|apply Z.ltb_lt]; lia).
    replace (i + 1 - i) with 1 by lia. reflexivity. }
  destruct (Z.eqb_spec j (i + 0)) as [->|N0].
  { replace ((i <=? i + 0) && (i + 0 <? i + 5)) with true by (symmetry; apply andb_true_iff; split; [apply Z.leb_le|apply Z.ltb_lt]; lia).
    replace (i + 0 - i) with 0 by lia. reflexivity. }
  replace ((i <=? j) && (j <? i + 5)) with false; [reflexivity|].
  symmetry. apply andb_false_iff. destruct (Z.leb_spec i j); [right; apply Z.ltb_ge; lia|left; reflexivity].
Qed.

Lemma trace5_ok i : 0 <= i ->
  Forall (acc_ok (i + 5))
    [Wr MA (addr i 4); Wr MA (addr i 3); Wr MA (addr i 2); Wr MA (addr i 1); Wr MA (addr i 0);
     Rd MB (addr i 4); Rd MB (addr i 3); Rd MB (addr i 2); Rd MB (addr i 1); Rd MB (addr i 0);
     Rd MA (addr i 4); Rd MA (addr i 3); Rd MA (addr i 2); Rd MA (addr i 1); Rd MA (addr i 0)].
Proof. intros Hi. unfold addr. repeat constructor; cbn; lia. Qed.

Lemma body_eff_add rg0 cf0 zf0 ma0 mb0 tr0 :
  (forall t, 0 <= t < 5 -> digit (ma0 (rg0 Ridx + t)) /\ digit (mb0 (rg0 Ridx + t))) ->
  let i := rg0 Ridx in
  let s' := exec (body Adc) (mkst rg0 cf0 zf0 ma0 mb0 tr0) in
  let '(r5, c') := adc_zip (b2z cf0) (seg ma0 i 5) (seg mb0 i 5) in
  rg s' Ridx = succ_w (succ_w (succ_w (succ_w (succ_w i)))) /\
  rg s' Rsize = pred_w (rg0 Rsize) /\
  zf s' = is_zero (pred_w (rg0 Rsize)) /\
  b2z (cf s') = c' /\
  (forall j, mb s' j = mb0 j) /\
  (forall j, ma s' j = if (i <=? j) && (j <? i + 5) then nth (Z.to_nat (j - i)) r5 0 else ma0 j) /\
  exists t5, tr s' = t5 ++ tr0 /\ (0 <= i -> Forall (acc_ok (i + 5)) t5).
Proof.
  intros Hd. cbv zeta.
  pose proof (body_add_eff rg0 cf0 zf0 ma0 mb0 tr0) as He. cbv zeta in He.
  destruct He as (E1 & E2 & E3 & E4 & E5 & E6 & E7).
  rewrite !seg5. unfold addr in Hd |- *.
  destruct (Hd 0 ltac:(lia)) as [X0 Y0]. destruct (Hd 1 ltac:(lia)) as [X1 Y1].
  destruct (Hd 2 ltac:(lia)) as [X2 Y2]. destruct (Hd 3 ltac:(lia)) as [X3 Y3].
  destruct (Hd 4 ltac:(lia)) as [X4 Y4].
  cbn [adc_zip]. rewrite !adc_x86 by assumption.
  split; [exact E1|]. split; [exact E2|]. split; [exact E3|].
  split; [rewrite E4; reflexivity|]. split; [intros j; rewrite E5; reflexivity|].
  split; [intros j; rewrite E6; apply updm5|].
  eexists. split; [exact E7|]. apply trace5_ok.
Qed.

Lemma body_eff_sub rg0 cf0 zf0 ma0 mb0 tr0 :
  (forall t, 0 <= t < 5 -> digit (ma0 (rg0 Ridx + t)) /\ digit (mb0 (rg0 Ridx + t))) ->
  let i := rg0 Ridx in
  let s' := exec (body Sbb) (mkst rg0 cf0 zf0 ma0 mb0 tr0) in
  let '(r5, c') := sbb_zip (b2z cf0) (seg ma0 i 5) (seg mb0 i 5) in
  rg s' Ridx = succ_w (succ_w (succ_w (succ_w (succ_w i)))) /\
  rg s' Rsize = pred_w (rg0 Rsize) /\
  zf s' = is_zero (pred_w (rg0 Rsize)) /\
  b2z (cf s') = c' /\
  (forall j, mb s' j = mb0 j) /\
  (forall j, ma s' j = if (i <=? j) && (j <? i + 5) then nth (Z.to_nat (j - i)) r5 0 else ma0 j) /\
  exists t5, tr s' = t5 ++ tr0 /\ (0 <= i -> Forall (acc_ok (i + 5)) t5).
Proof.
  intros Hd. cbv zeta.
  pose proof (body_sub_eff rg0 cf0 zf0 ma0 mb0 tr0) as He. cbv zeta in He.
  destruct He as (E1 & E2 & E3 & E4 & E5 & E6 & E7).
  rewrite !seg5. unfold addr in Hd |- *.
  destruct (Hd 0 ltac:(lia)) as [X0 Y0]. destruct (Hd 1 ltac:(lia)) as [X1 Y1].
  destruct (Hd 2 ltac:(lia)) as [X2 Y2]. destruct (Hd 3 ltac:(lia)) as [X3 Y3].
  destruct (Hd 4 ltac:(lia)) as [X4 Y4].
  cbn [sbb_zip]. rewrite !sbb_x86 by assumption.
  split; [exact E1|]. split; [exact E2|]. split; [exact E3|].
  split; [rewrite E4; reflexivity|]. split; [intros j; rewrite E5; reflexivity|].
  split; [intros j; rewrite E6; apply updm5|].
  eexists. split; [exact E7|]. apply trace5_ok.
Qed.

(** ** the asm loops compute [schoolbook] and stay inside the first 5*(size/5) cells *)
Definition mem_of (l : list Z) : Z -> Z := fun j => nth (Z.to_nat j) l 0.

Lemma seg_mem_of l : forall n i, (i + n <= length l)%nat ->
  seg (mem_of l) (Z.of_nat i) n = firstn n (skipn i l).
Proof.
  intros n; induction n as [|n IH]; intros i Hn; [reflexivity|].
  rewrite seg_S. replace (Z.of_nat i + 1) with (Z.of_nat (S i)) by lia. rewrite IH by lia.
  unfold mem_of. rewrite Nat2Z.id.
  assert (Hs : skipn i l = nth i l 0 :: skipn (S i) l).
  { clear IH. revert i Hn; induction l as [|x l IHl]; intros i Hn; [cbn in Hn; lia|].
    destruct i; [reflexivity|]. cbn [skipn nth]. apply IHl. cbn in Hn. lia. }
  rewrite Hs. reflexivity.
Qed.

Lemma nth_skipn_add (l : list Z) : forall n i, nth i (skipn n l) 0 = nth (n + i) l 0.
Proof.
  induction l as [|x l IH]; intros n i.
  - rewrite skipn_nil. destruct i, n; reflexivity.
  - destruct n; [reflexivity|]. cbn [skipn Nat.add nth]. apply IH.
Qed.

Lemma list_eq_nth (l1 l2 : list Z) : length l1 = length l2 ->
  (forall j, (j < length l1)%nat -> nth j l1 0 = nth j l2 0) -> l1 = l2.
Proof. intros Hl H. apply (nth_ext l1 l2 0 0 Hl H). Qed.

Section Final.
  Variable zipf : Z -> list Z -> list Z -> list Z * Z.
  Variable mk : reg -> reg -> instr.
  Hypothesis zip_app : forall a1 b1 a2 b2 c, length a1 = length b1 ->
    zipf c (a1 ++ a2) (b1 ++ b2) =
    let '(r1, c1) := zipf c a1 b1 in let '(r2, c2) := zipf c1 a2 b2 in (r1 ++ r2, c2).
  Hypothesis zip_length : forall a b c, length (fst (zipf c a b)) = length a.
  Hypothesis zip_nil : forall c, zipf c [] [] = ([], c).
  Hypothesis body_eff : forall rg0 cf0 zf0 ma0 mb0 tr0,
    (forall t, 0 <= t < 5 -> digit (ma0 (rg0 Ridx + t)) /\ digit (mb0 (rg0 Ridx + t))) ->
    let i := rg0 Ridx in
    let s' := exec (body mk) (mkst rg0 cf0 zf0 ma0 mb0 tr0) in
    let '(r5, c') := zipf (b2z cf0) (seg ma0 i 5) (seg mb0 i 5) in
    rg s' Ridx = succ_w (succ_w (succ_w (succ_w (succ_w i)))) /\
    rg s' Rsize = pred_w (rg0 Rsize) /\
    zf s' = is_zero (pred_w (rg0 Rsize)) /\
    b2z (cf s') = c' /\
    (forall j, mb s' j = mb0 j) /\
    (forall j, ma s' j = if (i <=? j) && (j <? i + 5) then nth (Z.to_nat (j - i)) r5 0 else ma0 j) /\
    exists t5, tr s' = t5 ++ tr0 /\ (0 <= i -> Forall (acc_ok (i + 5)) t5).
  Hypothesis run_canon : forall fuel s,
    run fuel (canon_prog mk) s =
    let '(s1, ok) := loop fuel (body mk) (exec [Clc] s) in (exec [Setc Rc; Clc] s1, ok).

  Theorem asm_correct a b size : wf a -> wf b ->
    0 <= size <= Z.of_nat (length a) -> size <= Z.of_nat (length b) -> size < B -> 1 <= size / 5 ->
    let K := size / 5 in
    let '(s', ok) := run (Z.to_nat K) (canon_prog mk) (init_state (mem_of a) (mem_of b) K) in
    ok = true /\
    schoolbook zipf 5 a b size = Ret (seg (ma s') 0 (length a), rg s' Rc, rg s' Ridx) /\
    (forall j, mb s' j = mem_of b j) /\
    Forall (acc_ok (5 * K)) (tr s').
  Proof.
    intros Wa Wb Hsa Hsb HsB HK1. cbv zeta. set (K := size / 5) in *.
    assert (H5K : 5 * K <= size) by (unfold K; apply Z.mul_div_le; lia).
    rewrite run_canon.
    set (s0 := exec [Clc] (init_state (mem_of a) (mem_of b) K)).
    assert (Hdig : forall (l : list Z), wf l -> forall j, 0 <= j < Z.of_nat (length l) -> digit (mem_of l j)).
    { intros l Wl j Hj. unfold mem_of. unfold wf in Wl. rewrite Forall_forall in Wl. apply Wl, nth_In. lia. }
    assert (I0 : Inv (mem_of a) (mem_of b) K zipf 0 s0).
    { unfold Inv, s0, res. cbn [exec fold_left step init_state rg cf zf ma mb tr seg seq map Nat.mul].
      rewrite zip_nil. cbn [fst snd b2z Z.of_nat].
      repeat split; try reflexivity; try lia.
      - intros j. replace ((0 <=? j) && (j <? 5 * 0)) with false; [reflexivity|].
        symmetry. destruct (Z.leb_spec 0 j); cbn [andb]; [apply Z.ltb_ge; lia|reflexivity].
      - constructor. }
    destruct (loop_inv (mem_of a) (mem_of b) K HK1 ltac:(lia)
                (fun j Hj => Hdig a Wa j ltac:(lia)) (fun j Hj => Hdig b Wb j ltac:(lia))
                zipf mk zip_app zip_length zip_nil body_eff (Z.to_nat (K - 1)) 0%nat s0 (Z.to_nat K) I0 ltac:(lia) ltac:(lia))
      as (s1 & El & HI).
    rewrite El. split; [reflexivity|].
    destruct HI as (Hidx & Hsz & Hmb & Hma & Hcf & Htr).
    destruct s1 as [rg1 cf1 zf1 ma1 mb1 tr1]. cbn [rg cf zf ma mb tr] in *.
    cbn [exec fold_left step setr rg cf zf ma mb tr upd reg_eqb].
    rewrite Z2Nat.id in * by lia.
    split; [|split; [exact Hmb|exact Htr]].
    (* the list model *)
    unfold schoolbook. fold K.
    replace (K =? 0) with false by (symmetry; apply Z.eqb_neq; lia).
    match goal with |- context [assert_ ?bb _] =>
      replace bb with true by (symmetry; rewrite !andb_true_iff, !Z.leb_le; lia) end.
    cbn [assert_ bind].
    set (nn := Z.to_nat (5 * K)).
    assert (Enn : (5 * Z.to_nat K)%nat = nn) by (unfold nn; lia).
    unfold res in Hma, Hcf. rewrite Enn in Hma, Hcf.
    assert (Ea : seg (mem_of a) 0 nn = firstn nn a).
    { change 0 with (Z.of_nat 0). rewrite seg_mem_of by (unfold nn; lia). reflexivity. }
    assert (Eb : seg (mem_of b) 0 nn = firstn nn b).
    { change 0 with (Z.of_nat 0). rewrite seg_mem_of by (unfold nn; lia). reflexivity. }
    rewrite Ea, Eb in Hma, Hcf.
    pose proof (zip_length (firstn nn a) (firstn nn b) 0) as HL.
    destruct (zipf 0 (firstn nn a) (firstn nn b)) as [lo c]. cbn [fst snd] in *.
    rewrite firstn_length_le in HL by (unfold nn; lia).
    f_equal. f_equal; [f_equal|symmetry; exact Hidx]; [|symmetry; exact Hcf].
    symmetry. apply list_eq_nth.
    - rewrite seg_length, app_length, skipn_length, HL. unfold nn. lia.
    - intros j Hj. rewrite seg_length in Hj.
      unfold seg. rewrite (nth_indep _ 0 (ma1 (0 + Z.of_nat 0))) by (rewrite map_length, seq_length; auto).
      rewrite (map_nth (fun j0 => ma1 (0 + Z.of_nat j0))), seq_nth by auto.
      rewrite Hma. cbn [Nat.add Z.add].
      destruct (Z.ltb_spec (Z.of_nat j) (5 * K)) as [Hlt|Hge].
      + replace (0 <=? Z.of_nat j) with true by (symmetry; apply Z.leb_le; lia). cbn [andb].
        rewrite Nat2Z.id. rewrite app_nth1 by (rewrite HL; unfold nn; lia). reflexivity.
      + rewrite andb_false_r. unfold mem_of. rewrite Nat2Z.id.
        rewrite app_nth2 by (rewrite HL; unfold nn; lia). rewrite HL.
        rewrite nth_skipn_add. f_equal. unfold nn. lia.
  Qed.
End Final.

Theorem asm_add_correct a b size : wf a -> wf b ->
  0 <= size <= Z.of_nat (length a) -> size <= Z.of_nat (length b) -> size < B -> 1 <= size / 5 ->
  let K := size / 5 in
  let '(s', ok) := run (Z.to_nat K) canon_add_prog (init_state (mem_of a) (mem_of b) K) in
  ok = true /\
  schoolbook adc_zip 5 a b size = Ret (seg (ma s') 0 (length a), rg s' Rc, rg s' Ridx) /\
  (forall j, mb s' j = mem_of b j) /\
  Forall (acc_ok (5 * K)) (tr s').
Proof.
  apply (asm_correct adc_zip Adc adc_zip_app (fun a b c => adc_zip_length a b c)
           (fun c => eq_refl) body_eff_add run_canon_add).
Qed.

Theorem asm_sub_correct a b size : wf a -> wf b ->
  0 <= size <= Z.of_nat (length a) -> size <= Z.of_nat (length b) -> size < B -> 1 <= size / 5 ->
  let K := size / 5 in
  let '(s', ok) := run (Z.to_nat K) canon_sub_prog (init_state (mem_of a) (mem_of b) K) in
  ok = true /\
  schoolbook sbb_zip 5 a b size = Ret (seg (ma s') 0 (length a), rg s' Rc, rg s' Ridx) /\
  (forall j, mb s' j = mem_of b j) /\
  Forall (acc_ok (5 * K)) (tr s').
Proof.
  apply (asm_correct sbb_zip Sbb sbb_zip_app (fun a b c => sbb_zip_length a b c)
           (fun c => eq_refl) body_eff_sub run_canon_sub).
Qed.
