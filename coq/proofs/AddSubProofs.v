(* AddSubProofs.v — refinement of model/AddSub.v to the Z-level spec (C01), for every
   operand length, every residue mod 5 and every carry chain. *)
From BigNum Require Import Base BaseLemmas X86 AddSub SpecAddSub.
Open Scope Z_scope.

Definition bit (c : Z) : Prop := c = 0 \/ c = 1.

Lemma adc_spec c a b : digit a -> digit b -> bit c ->
  let '(o, c') := adc c a b in digit o /\ bit c' /\ o + B * c' = a + b + c.
Proof.
  unfold adc, digit, bit; intros Ha Hb Hc; pose proof B_pos.
  split; [|split]; nia.
Qed.

Lemma sbb_spec c a b : digit a -> digit b -> bit c ->
  let '(o, c') := sbb c a b in digit o /\ bit c' /\ o - B * c' = a - b - c.
Proof.
  unfold sbb, digit, bit; intros Ha Hb Hc; pose proof B_pos.
  destruct (Z.ltb_spec (a - b - c) 0).
  - assert (E : (a - b - c) mod B = a - b - c + B) by (symmetry; apply Z.mod_unique_pos with (-1); lia).
    rewrite E; lia.
  - rewrite Z.mod_small by lia; lia.
Qed.

(** ** zip loops *)
Lemma adc_zip_spec a : forall b c, wf a -> wf b -> bit c -> length a = length b ->
  let '(r, c') := adc_zip c a b in
  wf r /\ length r = length a /\ bit c' /\ val r + B ^ Z.of_nat (length a) * c' = val a + val b + c.
Proof.
  induction a as [|x a IH]; intros [|y b] c Ha Hb Hc Hl; try discriminate.
  - cbn [adc_zip length val Z.of_nat]. rewrite Z.pow_0_r. repeat split; auto; lia.
  - apply wf_cons in Ha as [Hx Ha], Hb as [Hy Hb]. cbn [adc_zip].
    pose proof (adc_spec c x y Hx Hy Hc) as Hs. destruct (adc c x y) as [o c1].
    destruct Hs as (Ho & Hc1 & He).
    injection Hl as Hl. specialize (IH b c1 Ha Hb Hc1 Hl).
    destruct (adc_zip c1 a b) as [r c2]. destruct IH as (Hr & Hlr & Hc2 & Hv).
    split; [apply wf_cons; auto|]. split; [cbn [length]; congruence|]. split; [auto|].
    change (length (x :: a)) with (S (length a)). rewrite B_pow_S, !val_cons. nia.
Qed.

Lemma sbb_zip_spec a : forall b c, wf a -> wf b -> bit c -> length a = length b ->
  let '(r, c') := sbb_zip c a b in
  wf r /\ length r = length a /\ bit c' /\ val r - B ^ Z.of_nat (length a) * c' = val a - val b - c.
Proof.
  induction a as [|x a IH]; intros [|y b] c Ha Hb Hc Hl; try discriminate.
  - cbn [sbb_zip length val Z.of_nat]. rewrite Z.pow_0_r. repeat split; auto; lia.
  - apply wf_cons in Ha as [Hx Ha], Hb as [Hy Hb]. cbn [sbb_zip].
    pose proof (sbb_spec c x y Hx Hy Hc) as Hs. destruct (sbb c x y) as [o c1].
    destruct Hs as (Ho & Hc1 & He).
    injection Hl as Hl. specialize (IH b c1 Ha Hb Hc1 Hl).
    destruct (sbb_zip c1 a b) as [r c2]. destruct IH as (Hr & Hlr & Hc2 & Hv).
    split; [apply wf_cons; auto|]. split; [cbn [length]; congruence|]. split; [auto|].
    change (length (x :: a)) with (S (length a)). rewrite B_pow_S, !val_cons. nia.
Qed.

Lemma sbb_zip_rev_spec a : forall b c, wf a -> wf b -> bit c -> length a = length b ->
  let '(r, c') := sbb_zip_rev c a b in
  wf r /\ length r = length a /\ bit c' /\ val r - B ^ Z.of_nat (length a) * c' = val a - val b - c.
Proof.
  induction a as [|x a IH]; intros [|y b] c Ha Hb Hc Hl; try discriminate.
  - cbn [sbb_zip_rev length val Z.of_nat]. rewrite Z.pow_0_r. repeat split; auto; lia.
  - apply wf_cons in Ha as [Hx Ha], Hb as [Hy Hb]. cbn [sbb_zip_rev].
    pose proof (sbb_spec c x y Hx Hy Hc) as Hs. destruct (sbb c x y) as [o c1].
    destruct Hs as (Ho & Hc1 & He).
    injection Hl as Hl. specialize (IH b c1 Ha Hb Hc1 Hl).
    destruct (sbb_zip_rev c1 a b) as [r c2]. destruct IH as (Hr & Hlr & Hc2 & Hv).
    split; [apply wf_cons; auto|]. split; [cbn [length]; congruence|]. split; [auto|].
    change (length (x :: a)) with (S (length a)). rewrite B_pow_S, !val_cons. nia.
Qed.

(** Splitting a zip loop at any point (this is what makes the asm-block / tail split
    irrelevant to the result). *)
Lemma adc_zip_app a1 : forall b1 a2 b2 c, length a1 = length b1 ->
  adc_zip c (a1 ++ a2) (b1 ++ b2) =
  let '(r1, c1) := adc_zip c a1 b1 in let '(r2, c2) := adc_zip c1 a2 b2 in (r1 ++ r2, c2).
Proof.
  induction a1 as [|x a1 IH]; intros [|y b1] a2 b2 c Hl; try discriminate.
  - cbn [app adc_zip]. destruct (adc_zip c a2 b2); reflexivity.
  - injection Hl as Hl. cbn [app adc_zip]. destruct (adc c x y) as [o c1].
    rewrite (IH b1 a2 b2 c1 Hl). destruct (adc_zip c1 a1 b1) as [r1 c2].
    destruct (adc_zip c2 a2 b2) as [r2 c3]. reflexivity.
Qed.
Lemma sbb_zip_app a1 : forall b1 a2 b2 c, length a1 = length b1 ->
  sbb_zip c (a1 ++ a2) (b1 ++ b2) =
  let '(r1, c1) := sbb_zip c a1 b1 in let '(r2, c2) := sbb_zip c1 a2 b2 in (r1 ++ r2, c2).
Proof.
  induction a1 as [|x a1 IH]; intros [|y b1] a2 b2 c Hl; try discriminate.
  - cbn [app sbb_zip]. destruct (sbb_zip c a2 b2); reflexivity.
  - injection Hl as Hl. cbn [app sbb_zip]. destruct (sbb c x y) as [o c1].
    rewrite (IH b1 a2 b2 c1 Hl). destruct (sbb_zip c1 a1 b1) as [r1 c2].
    destruct (sbb_zip c2 a2 b2) as [r2 c3]. reflexivity.
Qed.

(** ** carry / borrow propagation with early exit *)
Lemma prop_add_spec l : forall c, wf l -> bit c ->
  let '(r, c') := prop_add c l in
  wf r /\ length r = length l /\ bit c' /\ val r + B ^ Z.of_nat (length l) * c' = val l + c.
Proof.
  induction l as [|x l IH]; intros c Hl Hc.
  - cbn [prop_add length val Z.of_nat]. rewrite Z.pow_0_r. repeat split; auto; lia.
  - apply wf_cons in Hl as [Hx Hl]. cbn [prop_add].
    assert (H0 : digit 0) by (unfold digit; pose proof B_pos; lia).
    pose proof (adc_spec c x 0 Hx H0 Hc) as Hs. destruct (adc c x 0) as [o c1].
    destruct Hs as (Ho & Hc1 & He).
    change (length (x :: l)) with (S (length l)). rewrite B_pow_S.
    destruct (Z.eqb_spec c1 0) as [->|Hn].
    + split; [apply wf_cons; auto|]. split; [reflexivity|]. split; [left; auto|].
      rewrite !val_cons. lia.
    + specialize (IH c1 Hl Hc1). destruct (prop_add c1 l) as [r c2].
      destruct IH as (Hr & Hlr & Hc2 & Hv).
      split; [apply wf_cons; auto|]. split; [cbn [length]; congruence|]. split; [auto|].
      rewrite !val_cons. nia.
Qed.
Lemma prop_sub_spec l : forall c, wf l -> bit c ->
  let '(r, c') := prop_sub c l in
  wf r /\ length r = length l /\ bit c' /\ val r - B ^ Z.of_nat (length l) * c' = val l - c.
Proof.
  induction l as [|x l IH]; intros c Hl Hc.
  - cbn [prop_sub length val Z.of_nat]. rewrite Z.pow_0_r. repeat split; auto; lia.
  - apply wf_cons in Hl as [Hx Hl]. cbn [prop_sub].
    assert (H0 : digit 0) by (unfold digit; pose proof B_pos; lia).
    pose proof (sbb_spec c x 0 Hx H0 Hc) as Hs. destruct (sbb c x 0) as [o c1].
    destruct Hs as (Ho & Hc1 & He).
    change (length (x :: l)) with (S (length l)). rewrite B_pow_S.
    destruct (Z.eqb_spec c1 0) as [->|Hn].
    + split; [apply wf_cons; auto|]. split; [reflexivity|]. split; [left; auto|].
      rewrite !val_cons. lia.
    + specialize (IH c1 Hl Hc1). destruct (prop_sub c1 l) as [r c2].
      destruct IH as (Hr & Hlr & Hc2 & Hv).
      split; [apply wf_cons; auto|]. split; [cbn [length]; congruence|]. split; [auto|].
      rewrite !val_cons. nia.
Qed.

(** ** parameters the theorems need *)
Definition canon_prog (mk : reg -> reg -> instr) : list instr :=
  [Clc; Label 3;
   Load (RA 1) MA 0; Load (RA 2) MA 1; Load (RA 3) MA 2; Load (RA 4) MA 3; Load (RA 5) MA 4;
   Load (RB 1) MB 0; Load (RB 2) MB 1; Load (RB 3) MB 2; Load (RB 4) MB 3; Load (RB 5) MB 4;
   mk (RA 1) (RB 1); mk (RA 2) (RB 2); mk (RA 3) (RB 3); mk (RA 4) (RB 4); mk (RA 5) (RB 5);
   Store MA 0 (RA 1); Store MA 1 (RA 2); Store MA 2 (RA 3); Store MA 3 (RA 4); Store MA 4 (RA 5);
   Inc Ridx; Inc Ridx; Inc Ridx; Inc Ridx; Inc Ridx; Dec Rsize; Jnz 3; Setc Rc; Clc].
Definition canon_add_prog := canon_prog Adc.
Definition canon_sub_prog := canon_prog Sbb.

Definition addsub_ok (p : addsub_params) : bool :=
  (ap_blk p =? 5) && prog_eqb (ap_add_prog p) canon_add_prog
  && prog_eqb (ap_sub_prog p) canon_sub_prog && cmpop_eqb (ap_add_len_cmp p) Clt && ap_callsites p.

Lemma addsub_ok_inv p : addsub_ok p = true ->
  ap_blk p = 5 /\ ap_add_prog p = canon_add_prog /\ ap_sub_prog p = canon_sub_prog /\ ap_add_len_cmp p = Clt.
Proof.
  unfold addsub_ok; rewrite !andb_true_iff; intros [[[[H1 H2] H3] H4] _].
  apply Z.eqb_eq in H1; apply prog_eqb_eq in H2, H3.
  destruct (ap_add_len_cmp p); try discriminate; auto.
Qed.

(** ** lengths, independent of well-formedness *)
Lemma adc_zip_length a : forall b c, length (fst (adc_zip c a b)) = length a.
Proof.
  induction a as [|x a IH]; intros [|y b] c; cbn [adc_zip fst length]; auto.
  destruct (adc c x y) as [o c1]. specialize (IH b c1). destruct (adc_zip c1 a b); cbn [fst length] in *; congruence.
Qed.
Lemma sbb_zip_length a : forall b c, length (fst (sbb_zip c a b)) = length a.
Proof.
  induction a as [|x a IH]; intros [|y b] c; cbn [sbb_zip fst length]; auto.
  destruct (sbb c x y) as [o c1]. specialize (IH b c1). destruct (sbb_zip c1 a b); cbn [fst length] in *; congruence.
Qed.

Lemma firstn_app_exact {A} (l r : list A) n : length l = n -> firstn n (l ++ r) = l.
Proof. intros <-. rewrite firstn_app, Nat.sub_diag, firstn_all. cbn [firstn]. apply app_nil_r. Qed.
Lemma skipn_app_exact {A} (l r : list A) n : length l = n -> skipn n (l ++ r) = r.
Proof. intros <-. rewrite skipn_app, Nat.sub_diag, skipn_all. reflexivity. Qed.

(** The asm block followed by the scalar tail is one zip loop over the whole slice. *)
Section Low.
  Variable zipf : Z -> list Z -> list Z -> list Z * Z.
  Hypothesis zip_app : forall a1 b1 a2 b2 c, length a1 = length b1 ->
    zipf c (a1 ++ a2) (b1 ++ b2) =
    let '(r1, c1) := zipf c a1 b1 in let '(r2, c2) := zipf c1 a2 b2 in (r1 ++ r2, c2).
  Hypothesis zip_length : forall a b c, length (fst (zipf c a b)) = length a.

  Lemma low_spec a b : length a = length b ->
    exists a1 c done,
      schoolbook zipf 5 a b (Z.of_nat (length a)) = Ret (a1, c, done) /\
      0 <= done <= Z.of_nat (length a) /\ done = 5 * (Z.of_nat (length a) / 5) /\
      let d := Z.to_nat done in
      let '(tail, c2) := zipf c (skipn d a1) (skipn d b) in
      (firstn d a1 ++ tail, c2) = zipf 0 a b.
  Proof.
    intros Hl. unfold schoolbook. set (n := Z.of_nat (length a)).
    destruct (Z.eqb_spec (n / 5) 0) as [E|E].
    - exists a, 0, 0. split; [reflexivity|]. split; [lia|]. split; [lia|].
      cbn [Z.to_nat skipn firstn app]. destruct (zipf 0 a b); reflexivity.
    - assert (Hk : 0 < n / 5) by (assert (0 <= n / 5) by (apply Z.div_pos; lia); lia).
      assert (Hn : 5 * (n / 5) <= n) by (apply Z.mul_div_le; lia).
      match goal with |- context [assert_ ?bb _] =>
        replace bb with true by (symmetry; rewrite !andb_true_iff, !Z.leb_le; unfold n; lia) end.
      cbn [assert_ bind].
      set (nn := Z.to_nat (5 * (n / 5))).
      assert (Hnn : (nn <= length a)%nat) by (unfold nn, n in *; lia).
      pose proof (zip_length (firstn nn a) (firstn nn b) 0) as Hlen.
      destruct (zipf 0 (firstn nn a) (firstn nn b)) as [lo c] eqn:E1. cbn [fst] in Hlen.
      rewrite firstn_length_le in Hlen by lia.
      exists (lo ++ skipn nn a), c, (5 * (n / 5)). split; [reflexivity|]. split; [lia|]. split; [reflexivity|].
      fold nn. cbv zeta.
      rewrite skipn_app_exact, firstn_app_exact by auto.
      assert (Ez : zipf 0 a b = zipf 0 (firstn nn a ++ skipn nn a) (firstn nn b ++ skipn nn b))
        by (rewrite !firstn_skipn; reflexivity).
      rewrite Ez, zip_app by (rewrite !firstn_length_le; lia).
      rewrite E1. destruct (zipf c (skipn nn a) (skipn nn b)); reflexivity.
  Qed.
End Low.

(** ** __add2 *)
Theorem add2c_spec p a b : addsub_ok p = true -> wf a -> wf b -> (length b <= length a)%nat ->
  exists a' c, add2c p a b = Ret (a', c) /\ wf a' /\ length a' = length a /\ bit c /\
               val a' + B ^ Z.of_nat (length a) * c = val a + val b.
Proof.
  intros Hp Ha Hb Hl. apply addsub_ok_inv in Hp as (Hblk & _ & _ & _).
  unfold add2c. rewrite Hblk.
  replace (length b <=? length a)%nat with true by (symmetry; apply Nat.leb_le; auto).
  cbn [assert_ bind].
  set (n := length b). set (a_lo := firstn n a). set (a_hi := skipn n a).
  assert (Hlo : length a_lo = n) by (unfold a_lo; apply firstn_length_le; auto).
  destruct (low_spec adc_zip adc_zip_app (fun a b c => adc_zip_length a b c) a_lo b Hlo)
    as (a1 & c & done & Hs & Hd & _ & Hz).
  rewrite Hlo in Hs. rewrite Hs. cbn [bind]. cbv zeta in Hz. revert Hz.
  destruct (adc_zip c (skipn (Z.to_nat done) a1) (skipn (Z.to_nat done) b)) as [tail c2].
  intros Hz.
  assert (Wlo : wf a_lo) by (apply wf_firstn; auto).
  assert (Whi : wf a_hi) by (apply wf_skipn; auto).
  pose proof (adc_zip_spec a_lo b 0 Wlo Hb (or_introl eq_refl) Hlo) as Hspec.
  rewrite <- Hz in Hspec. destruct Hspec as (Wr & Lr & Bc2 & Vr).
  assert (Hval : val a = val a_lo + B ^ Z.of_nat n * val a_hi).
  { unfold a_lo, a_hi. rewrite (val_split n a) at 1. rewrite firstn_length_le by auto. reflexivity. }
  assert (Hlen : length a = (n + length a_hi)%nat).
  { unfold a_hi. rewrite skipn_length. lia. }
  destruct (Z.eqb_spec c2 0) as [->|Hc2].
  - eexists _, 0. split; [reflexivity|]. split; [apply wf_app; auto|].
    split; [rewrite app_length; lia|]. split; [left; auto|].
    rewrite val_app, Lr, Hlo, Hval. lia.
  - pose proof (prop_add_spec a_hi c2 Whi Bc2) as Hpr.
    destruct (prop_add c2 a_hi) as [hi c3]. destruct Hpr as (Wh & Lh & Bc3 & Vh).
    eexists _, c3. split; [reflexivity|]. split; [apply wf_app; auto|].
    split; [rewrite app_length; lia|]. split; [auto|].
    rewrite val_app, Lr, Hlo, Hval, Hlen, Nat2Z.inj_add, Z.pow_add_r by lia.
    rewrite Hlo in Vr.
    set (P := B ^ Z.of_nat n) in *. set (Q := B ^ Z.of_nat (length a_hi)) in *.
    replace (val hi) with (val a_hi + c2 - Q * c3) by lia. ring_simplify. lia.
Qed.

Lemma bit_digit c : bit c -> digit c.
Proof. unfold bit, digit; pose proof B_gt1; lia. Qed.
Lemma wf_single d : digit d -> wf [d].
Proof. intros; apply wf_cons; split; [auto|constructor]. Qed.

(** ** AddAssign<&BigUint> *)
Lemma uadd_raw p a b : addsub_ok p = true -> wf a -> wf b ->
  exists r, uadd p a b = Ret r /\ wf r /\ val r = val a + val b /\
    ((length r = Nat.max (length a) (length b)) \/
     (length r = S (Nat.max (length a) (length b)) /\ B ^ Z.of_nat (Nat.max (length a) (length b)) <= val r)).
Proof.
  intros Hp Ha Hb. pose proof (addsub_ok_inv p Hp) as (_ & _ & _ & Hcmp).
  unfold uadd. rewrite Hcmp. cbn [cmp_eval].
  assert (Hfin : forall a' c, wf a' -> bit c -> length a' = Nat.max (length a) (length b) ->
            val a' + B ^ Z.of_nat (length a') * c = val a + val b ->
            let r := if c =? 0 then a' else a' ++ [c] in
            wf r /\ val r = val a + val b /\
            ((length r = Nat.max (length a) (length b)) \/
             (length r = S (Nat.max (length a) (length b)) /\ B ^ Z.of_nat (Nat.max (length a) (length b)) <= val r))).
  { intros a' c Wa' Bc La' Va'. cbv zeta. destruct (Z.eqb_spec c 0) as [->|Hc].
    - split; [auto|]. split; [lia|]. left; auto.
    - assert (c = 1) as -> by (destruct Bc; congruence).
      split; [apply wf_app; split; auto; apply wf_single, bit_digit; right; auto|].
      rewrite val_app, val_single. split; [lia|]. right. rewrite app_length; cbn [length].
      split; [lia|]. rewrite <- La'. pose proof (val_nonneg a' Wa'). lia. }
  destruct (Z.ltb_spec (Z.of_nat (length a)) (Z.of_nat (length b))) as [Hlt|Hge].
  - set (la := length a).
    assert (Wf1 : wf (firstn la b)) by (apply wf_firstn; auto).
    assert (Lf1 : length (firstn la b) = la) by (apply firstn_length_le; unfold la; lia).
    destruct (add2c_spec p a (firstn la b) Hp Ha Wf1 ltac:(unfold la in *; lia))
      as (a1 & lc & E1 & W1 & L1 & Blc & V1).
    rewrite E1. cbn [bind].
    rewrite skipn_app_exact, firstn_app_exact by auto.
    assert (Ws : wf (skipn la b)) by (apply wf_skipn; auto).
    assert (Ls : length (skipn la b) = (length b - la)%nat) by apply skipn_length.
    destruct (add2c_spec p (skipn la b) [lc] Hp Ws (wf_single _ (bit_digit _ Blc))
                ltac:(rewrite Ls; cbn [length]; unfold la in *; lia))
      as (hi & c & E2 & W2 & L2 & Bc & V2).
    rewrite E2. cbn [bind].
    assert (Vb : val b = val (firstn la b) + B ^ Z.of_nat la * val (skipn la b)).
    { rewrite (val_split la b) at 1. rewrite Lf1. reflexivity. }
    specialize (Hfin (a1 ++ hi) c). eexists; split; [reflexivity|]. apply Hfin; auto.
    + apply wf_app; auto.
    + rewrite app_length, L1, L2, Ls. unfold la in *. lia.
    + rewrite val_app, app_length, L1, L2, Ls, Nat2Z.inj_add, Z.pow_add_r by lia.
      rewrite val_single in V2. rewrite Ls in V2. fold la in V1. fold la.
      set (P := B ^ Z.of_nat la) in *. set (Q := B ^ Z.of_nat (length b - la)) in *.
      replace (val hi) with (val (skipn la b) + lc - Q * c) by lia. rewrite Vb. ring_simplify. lia.
  - destruct (add2c_spec p a b Hp Ha Hb ltac:(lia)) as (a' & c & E & W & L & Bc & V).
    rewrite E. cbn [bind]. eexists; split; [reflexivity|]. apply Hfin; auto; try lia.
    rewrite L; auto.
Qed.

Theorem uadd_spec p a b : addsub_ok p = true -> canon a -> canon b ->
  uadd p a b = Ret (enc (val a + val b)).
Proof.
  intros Hp [Wa Sa] [Wb Sb].
  destruct (uadd_raw p a b Hp Wa Wb) as (r & E & Wr & Vr & Hlen). rewrite E. f_equal.
  rewrite <- Vr. symmetry. apply enc_of_canon.
  set (m := Nat.max (length a) (length b)) in *.
  destruct (Nat.eq_dec m 0) as [Hm|Hm].
  - destruct Hlen as [Hl|[Hl Hv]].
    + rewrite Hm in Hl. destruct r; [apply canon_nil|discriminate].
    + apply canon_of_lower; auto; [destruct r; discriminate|].
      rewrite Hl, Hm. rewrite Hm in Hv. cbn in *. lia.
  - assert (Hlow : B ^ (Z.of_nat m - 1) <= val a + val b).
    { pose proof (val_nonneg a Wa). pose proof (val_nonneg b Wb).
      destruct (Nat.max_spec (length a) (length b)) as [[_ Hmax]|[_ Hmax]]; fold m in Hmax.
      - assert (b <> []) by (intros ->; cbn in *; lia).
        pose proof (canon_lower b (conj Wb Sb) H1). rewrite <- Hmax in *. lia.
      - assert (a <> []) by (intros ->; cbn in *; lia).
        pose proof (canon_lower a (conj Wa Sa) H1). rewrite <- Hmax in *. lia. }
    apply canon_of_lower; auto.
    + destruct Hlen as [Hl|[Hl _]]; destruct r; try discriminate; cbn in Hl; lia.
    + destruct Hlen as [Hl|[Hl Hv]]; rewrite Hl.
      * lia.
      * rewrite Nat2Z.inj_succ. replace (Z.succ (Z.of_nat m) - 1) with (Z.of_nat m) by lia. lia.
Qed.

(** ** sub2 *)
Lemma all_zero_spec l : wf l -> (all_zero l = true <-> val l = 0).
Proof.
  intros Hl. rewrite val_zero_iff by auto. unfold all_zero.
  rewrite forallb_forall, Forall_forall. split; intros H x Hx; specialize (H x Hx); lia.
Qed.

Theorem sub2_spec p a b : addsub_ok p = true -> wf a -> wf b ->
  (val b <= val a -> exists r, sub2 p a b = Ret r /\ wf r /\ length r = length a /\ val r = val a - val b) /\
  (val a < val b -> sub2 p a b = Panic SubUnderflow).
Proof.
  intros Hp Ha Hb. apply addsub_ok_inv in Hp as (Hblk & _ & _ & _).
  unfold sub2. rewrite Hblk.
  set (len := Nat.min (length a) (length b)).
  set (a_lo := firstn len a). set (a_hi := skipn len a).
  set (b_lo := firstn len b). set (b_hi := skipn len b).
  assert (Lalo : length a_lo = len) by (apply firstn_length_le; unfold len; lia).
  assert (Lblo : length b_lo = len) by (apply firstn_length_le; unfold len; lia).
  assert (Hlo : length a_lo = length b_lo) by congruence.
  destruct (low_spec sbb_zip sbb_zip_app (fun a b c => sbb_zip_length a b c) a_lo b_lo Hlo)
    as (a1 & c & done & Hs & Hd & _ & Hz).
  rewrite Lalo in Hs. rewrite Hs. cbn [bind]. cbv zeta in Hz. revert Hz.
  destruct (sbb_zip c (skipn (Z.to_nat done) a1) (skipn (Z.to_nat done) b_lo)) as [tail c2].
  intros Hz.
  assert (Walo : wf a_lo) by (apply wf_firstn; auto).
  assert (Wahi : wf a_hi) by (apply wf_skipn; auto).
  assert (Wblo : wf b_lo) by (apply wf_firstn; auto).
  assert (Wbhi : wf b_hi) by (apply wf_skipn; auto).
  pose proof (sbb_zip_spec a_lo b_lo 0 Walo Wblo (or_introl eq_refl) Hlo) as Hspec.
  rewrite <- Hz in Hspec. destruct Hspec as (Wr & Lr & Bc2 & Vr). rewrite Lalo in Vr, Lr.
  assert (Va : val a = val a_lo + B ^ Z.of_nat len * val a_hi).
  { unfold a_lo, a_hi. rewrite (val_split len a) at 1. fold a_lo. rewrite Lalo. reflexivity. }
  assert (Vb : val b = val b_lo + B ^ Z.of_nat len * val b_hi).
  { unfold b_lo, b_hi. rewrite (val_split len b) at 1. fold b_lo. rewrite Lblo. reflexivity. }
  assert (Lahi : length a = (len + length a_hi)%nat) by (unfold a_hi; rewrite skipn_length; unfold len; lia).
  (* propagate *)
  assert (Hprop : exists hi c3, (if c2 =? 0 then (a_hi, 0) else prop_sub c2 a_hi) = (hi, c3) /\
            wf hi /\ length hi = length a_hi /\ bit c3 /\
            val hi - B ^ Z.of_nat (length a_hi) * c3 = val a_hi - c2).
  { destruct (Z.eqb_spec c2 0) as [->|Hc2].
    - exists a_hi, 0. split; [reflexivity|]. split; [auto|]. split; [reflexivity|]. split; [left; auto|lia].
    - pose proof (prop_sub_spec a_hi c2 Wahi Bc2) as Hpr.
      destruct (prop_sub c2 a_hi) as [hi c3]. exists hi, c3. tauto. }
  destruct Hprop as (hi & c3 & Ep & Wh & Lh & Bc3 & Vh). rewrite Ep.
  set (r := (firstn (Z.to_nat done) a1 ++ tail) ++ hi).
  assert (Vres : val r - B ^ Z.of_nat (length a) * c3 = val a - val b_lo).
  { unfold r. rewrite val_app, Lr, Va, Lahi, Nat2Z.inj_add, Z.pow_add_r by lia.
    set (P := B ^ Z.of_nat len) in *. set (Q := B ^ Z.of_nat (length a_hi)) in *.
    replace (val hi) with (val a_hi - c2 + Q * c3) by lia. ring_simplify. lia. }
  assert (Wres : wf r) by (unfold r; apply wf_app; auto).
  assert (Lres : length r = length a) by (unfold r; rewrite app_length, Lr, Lh; lia).
  pose proof (val_bound r Wres) as Br. rewrite Lres in Br.
  pose proof (val_nonneg b_hi Wbhi) as Nbhi. pose proof (val_nonneg a Ha) as Na.
  pose proof (val_bound a Ha) as Ba. pose proof (B_pow_nat len) as Plen.
  pose proof (all_zero_spec b_hi Wbhi) as Hz0.
  destruct (all_zero b_hi) eqn:Ez.
  - assert (Vbhi : val b_hi = 0) by (apply Hz0; auto). rewrite Vbhi, Z.mul_0_r, Z.add_0_r in Vb.
    rewrite <- Vb in Vres. rewrite andb_true_r.
    destruct Bc3 as [-> | ->].
    + cbn [Z.eqb assert_ bind]. split; [|intros; lia].
      intros _. exists r. repeat split; auto. lia.
    + cbn [Z.eqb assert_ bind]. split; [intros; lia|reflexivity].
  - rewrite andb_false_r. cbn [assert_ bind]. split; [|reflexivity].
    assert (val b_hi <> 0) by (intros E; apply Hz0 in E; congruence).
    assert (Hbn : b_hi <> []) by (intros E; rewrite E in *; cbn in *; lia).
    assert (length a_hi = 0)%nat.
    { unfold a_hi, b_hi, len in *. rewrite skipn_length.
      assert (length (skipn (Nat.min (length a) (length b)) b) <> 0)%nat by (destruct (skipn _ b); [congruence|discriminate]).
      rewrite skipn_length in H0. lia. }
    assert (length a = len) by lia. rewrite H1 in Ba.
    intros Hle. exfalso. pose proof (val_nonneg b_lo Wblo). nia.
Qed.

(** ** BigUint - &BigUint, SubAssign *)
Theorem usub_spec p a b : addsub_ok p = true -> wf a -> wf b ->
  usub p a b = if val a <? val b then Panic SubUnderflow else Ret (enc (val a - val b)).
Proof.
  intros Hp Ha Hb. unfold usub. destruct (sub2_spec p a b Hp Ha Hb) as [Hge Hlt].
  destruct (Z.ltb_spec (val a) (val b)) as [H|H].
  - rewrite (Hlt H). reflexivity.
  - destruct (Hge H) as (r & E & Wr & _ & Vr). rewrite E. cbn [bind]. rewrite <- Vr, enc_strip; auto.
Qed.

(** ** __sub2rev / sub2rev *)
Lemma sub2rev_raw_spec a b : wf a -> wf b -> length b = length a ->
  exists r c, sub2rev_raw a b = Ret (r, c) /\ wf r /\ length r = length a /\ bit c /\
              val r - B ^ Z.of_nat (length a) * c = val a - val b.
Proof.
  intros Ha Hb Hl. unfold sub2rev_raw.
  replace (length b =? length a)%nat with true by (symmetry; apply Nat.eqb_eq; auto).
  cbn [assert_ bind].
  pose proof (sbb_zip_rev_spec a b 0 Ha Hb (or_introl eq_refl) (eq_sym Hl)) as H.
  destruct (sbb_zip_rev 0 a b) as [r c]. exists r, c. split; [reflexivity|].
  destruct H as (? & ? & ? & ?). repeat split; auto; lia.
Qed.

Theorem sub2rev_spec a b : wf a -> wf b -> (length a <= length b)%nat ->
  (val b <= val a -> exists r, sub2rev a b = Ret r /\ wf r /\ val r = val a - val b) /\
  (val a < val b -> sub2rev a b = Panic SubUnderflow).
Proof.
  intros Ha Hb Hl. unfold sub2rev.
  replace (length a <=? length b)%nat with true by (symmetry; apply Nat.leb_le; auto).
  cbn [assert_ bind].
  replace (Nat.min (length a) (length b)) with (length a) by lia.
  rewrite firstn_all, skipn_all.
  set (b_lo := firstn (length a) b). set (b_hi := skipn (length a) b).
  assert (Wlo : wf b_lo) by (apply wf_firstn; auto).
  assert (Whi : wf b_hi) by (apply wf_skipn; auto).
  assert (Llo : length b_lo = length a) by (apply firstn_length_le; auto).
  destruct (sub2rev_raw_spec a b_lo Ha Wlo Llo) as (r & c & E & Wr & Lr & Bc & Vr).
  rewrite E. cbn [bind assert_].
  assert (Vb : val b = val b_lo + B ^ Z.of_nat (length a) * val b_hi).
  { unfold b_lo, b_hi. rewrite (val_split (length a) b) at 1. fold b_lo. rewrite Llo. reflexivity. }
  pose proof (all_zero_spec b_hi Whi) as Hz0.
  pose proof (val_bound r Wr) as Br. rewrite Lr in Br.
  pose proof (val_bound a Ha) as Ba. pose proof (val_nonneg b_hi Whi).
  pose proof (val_nonneg b_lo Wlo). pose proof (B_pow_nat (length a)).
  destruct (all_zero b_hi) eqn:Ez.
  - assert (Vbhi : val b_hi = 0) by (apply Hz0; auto). rewrite Vbhi, Z.mul_0_r, Z.add_0_r in Vb.
    rewrite andb_true_r. destruct Bc as [-> | ->]; cbn [Z.eqb assert_ bind].
    + split; [|intros; lia]. intros _. eexists; split; [reflexivity|].
      split; [apply wf_app; auto|]. rewrite val_app, Lr, Vbhi. lia.
    + split; [intros; lia|reflexivity].
  - rewrite andb_false_r. cbn [assert_ bind]. split; [|reflexivity].
    assert (val b_hi <> 0) by (intros E0; apply Hz0 in E0; congruence).
    intros Hle. exfalso. nia.
Qed.

(** ** &BigUint - BigUint (reuses the right operand) *)
Theorem usub_ref_val_spec p a b : addsub_ok p = true -> canon a -> canon b ->
  usub_ref_val p a b = if val a <? val b then Panic SubUnderflow else Ret (enc (val a - val b)).
Proof.
  intros Hp [Wa Sa] [Wb Sb]. unfold usub_ref_val.
  destruct (Nat.ltb_spec (length b) (length a)) as [Hlt|Hge].
  - (* b shorter: a > b since a is canonical *)
    set (lb := length b).
    assert (Wf : wf (firstn lb a)) by (apply wf_firstn; auto).
    assert (Lf : length (firstn lb a) = lb) by (apply firstn_length_le; unfold lb; lia).
    destruct (sub2rev_raw_spec (firstn lb a) b Wf Wb ltac:(rewrite Lf; reflexivity))
      as (b1 & bw & E1 & W1 & L1 & Bbw & V1).
    rewrite E1. cbn [bind]. rewrite Lf in *.
    assert (Ws : wf (skipn lb a)) by (apply wf_skipn; auto).
    assert (Va : val a = val (firstn lb a) + B ^ Z.of_nat lb * val (skipn lb a)).
    { rewrite (val_split lb a) at 1. rewrite Lf. reflexivity. }
    assert (Hne : a <> []) by (intros ->; cbn in *; lia).
    pose proof (canon_lower a (conj Wa Sa) Hne) as Hlow.
    pose proof (val_bound b Wb) as Bb. fold lb in Bb.
    pose proof (val_bound _ Wf) as Bf. rewrite Lf in Bf.
    pose proof (val_nonneg _ Ws) as Ns.
    assert (Hpow : B ^ Z.of_nat lb <= B ^ (Z.of_nat (length a) - 1)).
    { apply Z.pow_le_mono_r; [apply B_pos|lia]. }
    assert (Hab : val b <= val a) by lia.
    replace (val a <? val b) with false by (symmetry; apply Z.ltb_ge; auto).
    assert (Hs1 : 1 <= val (skipn lb a)).
    { pose proof (B_pow_nat lb). assert (val (skipn lb a) <> 0); [|lia].
      intros E0. rewrite E0 in Va. lia. }
    destruct (Z.eqb_spec bw 0) as [->|Hbw].
    + cbn [bind]. f_equal. rewrite <- enc_strip by (apply wf_app; auto).
      f_equal. rewrite val_app, L1. lia.
    + assert (bw = 1) as -> by (destruct Bbw; congruence).
      rewrite skipn_app_exact, firstn_app_exact by auto.
      destruct (sub2_spec p (skipn lb a) [1] Hp Ws (wf_single 1 (bit_digit 1 (or_intror eq_refl))))
        as [Hge _].
      rewrite val_single in Hge. destruct (Hge Hs1) as (hi & E2 & Wh & Lh & Vh).
      rewrite E2. cbn [bind]. f_equal. rewrite <- enc_strip by (apply wf_app; auto).
      f_equal. rewrite val_app, L1, Vh. nia.
  - destruct (sub2rev_spec a b Wa Wb Hge) as [Hok Hbad].
    destruct (Z.ltb_spec (val a) (val b)) as [H|H].
    + rewrite (Hbad H). reflexivity.
    + destruct (Hok H) as (r & E & Wr & Vr). rewrite E. cbn [bind]. rewrite <- Vr, enc_strip; auto.
Qed.

(** ** cmp_slice: digit comparison is numeric comparison on canonical values *)
Lemma cmp_rev_app l1 : forall l2 x y, length l1 = length l2 ->
  cmp_rev (l1 ++ [x]) (l2 ++ [y]) = match cmp_rev l1 l2 with Eq => x ?= y | c => c end.
Proof.
  induction l1 as [|a l1 IH]; intros [|b l2] x y Hl; try discriminate.
  - cbn. destruct (x ?= y); reflexivity.
  - injection Hl as Hl. cbn [app cmp_rev]. destruct (a ?= b); auto.
Qed.
Lemma cmp_rev_spec a : forall b, wf a -> wf b -> length a = length b ->
  cmp_rev (rev a) (rev b) = (val a ?= val b).
Proof.
  induction a as [|x a IH]; intros [|y b] Ha Hb Hl; try discriminate; [reflexivity|].
  apply wf_cons in Ha as [Hx Ha], Hb as [Hy Hb]. injection Hl as Hl.
  cbn [rev]. rewrite cmp_rev_app by (rewrite !rev_length; auto).
  rewrite IH by auto. rewrite !val_cons. unfold digit in *. pose proof B_pos.
  destruct (Z.compare_spec (val a) (val b)) as [E|E|E].
  - rewrite E. destruct (Z.compare_spec x y); symmetry; [apply Z.compare_eq_iff|apply Z.compare_lt_iff|apply Z.compare_gt_iff]; lia.
  - symmetry; apply Z.compare_lt_iff; nia.
  - symmetry; apply Z.compare_gt_iff; nia.
Qed.
Lemma canon_last_nonzero l : canon l -> last_nonzero l = true.
Proof.
  intros Hc. unfold last_nonzero. destruct (rev l) as [|d r] eqn:E; [reflexivity|].
  assert (El : l = rev r ++ [d]) by (rewrite <- (rev_involutive l), E; reflexivity).
  assert (Hn : l <> []) by (rewrite El; destruct (rev r); discriminate).
  pose proof (canon_lower l Hc Hn) as Hlow. destruct Hc as [Hw _].
  rewrite El in Hw, Hlow. apply wf_app in Hw as [Hr Hd].
  rewrite val_app, app_length, val_single in Hlow. cbn [length] in Hlow.
  replace (Z.of_nat (length (rev r) + 1) - 1) with (Z.of_nat (length (rev r))) in Hlow by lia.
  pose proof (val_bound _ Hr). destruct (Z.eqb_spec d 0) as [->|]; [lia|reflexivity].
Qed.
Theorem cmp_slice_spec a b : canon a -> canon b -> cmp_slice a b = Ret (val a ?= val b).
Proof.
  intros Ha Hb. unfold cmp_slice. rewrite !canon_last_nonzero by auto. cbn [andb assert_ bind]. f_equal.
  pose proof (val_bound a (proj1 Ha)) as Ba. pose proof (val_bound b (proj1 Hb)) as Bb.
  destruct (Nat.compare_spec (length a) (length b)) as [E|E|E].
  - apply cmp_rev_spec; [apply Ha|apply Hb|auto].
  - symmetry. apply Z.compare_lt_iff.
    assert (Hn : b <> []) by (intros ->; cbn in *; lia).
    pose proof (canon_lower b Hb Hn).
    assert (B ^ Z.of_nat (length a) <= B ^ (Z.of_nat (length b) - 1)) by (apply Z.pow_le_mono_r; [apply B_pos|lia]).
    lia.
  - symmetry. apply Z.compare_gt_iff.
    assert (Hn : a <> []) by (intros ->; cbn in *; lia).
    pose proof (canon_lower a Ha Hn).
    assert (B ^ Z.of_nat (length b) <= B ^ (Z.of_nat (length a) - 1)) by (apply Z.pow_le_mono_r; [apply B_pos|lia]).
    lia.
Qed.

(** ** checked forms *)
Theorem uchecked_sub_spec p a b : addsub_ok p = true -> canon a -> canon b ->
  uchecked_sub p a b = Ret (if val a <? val b then None else Some (enc (val a - val b))).
Proof.
  intros Hp Ha Hb. unfold uchecked_sub. rewrite cmp_slice_spec by auto. cbn [bind].
  destruct (Z.compare_spec (val a) (val b)) as [E|E|E].
  - rewrite E, Z.ltb_irrefl, Z.sub_diag. reflexivity.
  - replace (val a <? val b) with true by (symmetry; apply Z.ltb_lt; auto). reflexivity.
  - rewrite usub_spec by (auto; apply Ha || apply Hb).
    replace (val a <? val b) with false by (symmetry; apply Z.ltb_ge; lia). reflexivity.
Qed.
Theorem uchecked_add_spec p a b : addsub_ok p = true -> canon a -> canon b ->
  uchecked_add p a b = Ret (Some (enc (val a + val b))).
Proof. intros Hp Ha Hb. unfold uchecked_add. rewrite uadd_spec by auto. reflexivity. Qed.

(** ** BigInt sign dispatch *)
Lemma icanon_mag x : icanon x -> canon (mag x). Proof. intros [H _]; exact H. Qed.
Lemma icanon_pos x : icanon x -> sg x <> NoSign -> 0 < val (mag x).
Proof.
  intros [Hc Hz] Hs. apply canon_val_pos; auto. intros E. apply Hz in E. contradiction.
Qed.
Lemma icanon_nosign x : icanon x -> sg x = NoSign -> ival x = 0.
Proof. intros _ Hs. unfold ival. rewrite Hs. reflexivity. Qed.

Theorem iadd_spec p x y : addsub_ok p = true -> icanon x -> icanon y ->
  iadd p x y = Ret (ienc (ival x + ival y)).
Proof.
  intros Hp Hx Hy. pose proof (icanon_mag x Hx) as Cx. pose proof (icanon_mag y Hy) as Cy.
  unfold iadd.
  destruct (sg x) eqn:Sx, (sg y) eqn:Sy;
    try (rewrite (icanon_nosign y Hy Sy), Z.add_0_r, ienc_of_icanon by auto; reflexivity);
    try (rewrite (icanon_nosign x Hx Sx), Z.add_0_l, ienc_of_icanon by auto; reflexivity);
    assert (Px : 0 < val (mag x)) by (apply icanon_pos; auto; congruence);
    assert (Py : 0 < val (mag y)) by (apply icanon_pos; auto; congruence);
    unfold ival; rewrite Sx, Sy; cbn [sign_z].
  - rewrite uadd_spec by auto. cbn [bind]. f_equal.
    rewrite from_biguint_ienc by apply enc_canon. rewrite enc_val by lia. f_equal. cbn [sign_z]. lia.
  - unfold ucmp. rewrite cmp_slice_spec by auto. cbn [bind].
    destruct (Z.compare_spec (val (mag x)) (val (mag y))) as [E|E|E].
    + f_equal. replace (-1 * val (mag x) + 1 * val (mag y)) with 0 by lia. reflexivity.
    + rewrite usub_spec by (auto; apply Cx || apply Cy).
      replace (val (mag y) <? val (mag x)) with false by (symmetry; apply Z.ltb_ge; lia).
      cbn [bind]. f_equal. rewrite from_biguint_ienc by apply enc_canon. rewrite enc_val by lia. f_equal. cbn [sign_z]. lia.
    + rewrite usub_spec by (auto; apply Cx || apply Cy).
      replace (val (mag x) <? val (mag y)) with false by (symmetry; apply Z.ltb_ge; lia).
      cbn [bind]. f_equal. rewrite from_biguint_ienc by apply enc_canon. rewrite enc_val by lia. f_equal. cbn [sign_z]. lia.
  - unfold ucmp. rewrite cmp_slice_spec by auto. cbn [bind].
    destruct (Z.compare_spec (val (mag x)) (val (mag y))) as [E|E|E].
    + f_equal. replace (1 * val (mag x) + -1 * val (mag y)) with 0 by lia. reflexivity.
    + rewrite usub_spec by (auto; apply Cx || apply Cy).
      replace (val (mag y) <? val (mag x)) with false by (symmetry; apply Z.ltb_ge; lia).
      cbn [bind]. f_equal. rewrite from_biguint_ienc by apply enc_canon. rewrite enc_val by lia. f_equal. cbn [sign_z]. lia.
    + rewrite usub_spec by (auto; apply Cx || apply Cy).
      replace (val (mag x) <? val (mag y)) with false by (symmetry; apply Z.ltb_ge; lia).
      cbn [bind]. f_equal. rewrite from_biguint_ienc by apply enc_canon. rewrite enc_val by lia. f_equal. cbn [sign_z]. lia.
  - rewrite uadd_spec by auto. cbn [bind]. f_equal.
    rewrite from_biguint_ienc by apply enc_canon. rewrite enc_val by lia. f_equal. cbn [sign_z]. lia.
Qed.

Lemma ineg_spec x : icanon x -> ineg x = ienc (- ival x).
Proof.
  intros Hx. symmetry. apply icanon_inj; [apply ienc_canon| |rewrite ienc_val].
  - destruct Hx as [Hc Hz]. split; [exact Hc|]. unfold ineg; cbn [sg mag].
    rewrite <- Hz. destruct (sg x); cbn; split; congruence.
  - unfold ival, ineg; cbn [sg mag]. destruct (sg x); cbn [sign_neg sign_z]; lia.
Qed.
Lemma ineg_canon x : icanon x -> icanon (ineg x).
Proof. intros Hx. rewrite ineg_spec by auto. apply ienc_canon. Qed.
Lemma ineg_val x : ival (ineg x) = - ival x.
Proof. unfold ival, ineg; cbn [sg mag]. destruct (sg x); cbn [sign_neg sign_z]; lia. Qed.

Theorem isub_spec p x y : addsub_ok p = true -> icanon x -> icanon y ->
  isub p x y = Ret (ienc (ival x - ival y)).
Proof.
  intros Hp Hx Hy.
  (* isub x y computes exactly iadd x (-y) with the sign arms renamed *)
  assert (E : isub p x y = iadd p x (ineg y)).
  { unfold isub, iadd, ineg; cbn [sg mag]. destruct (sg x), (sg y); cbn [sign_neg]; reflexivity. }
  rewrite E, iadd_spec by (auto using ineg_canon). rewrite ineg_val.
  replace (ival x + - ival y) with (ival x - ival y) by lia. reflexivity.
Qed.
