(* IterProofs.v — U32Digits (the half-digit state machine of src/biguint/iter.rs) refines a
   double-ended queue of the remaining base-2^32 digits, under any interleaving of
   next / next_back / nth / len / size_hint / last / count; U64Digits likewise. *)
From BigNum Require Import Base BaseLemmas SrcLit SrcLitLemmas Iter SpecBytes BytesLemmas.
Open Scope Z_scope.

(** ** list helpers *)
Lemma last_opt_snoc l x : last_opt (l ++ [x]) = Some x.
Proof.
  induction l as [|d l IH]; [reflexivity|].
  change ((d :: l) ++ [x]) with (d :: (l ++ [x])). cbn [last_opt]. rewrite IH.
  destruct (l ++ [x]) eqn:E; [destruct l; discriminate|reflexivity].
Qed.
Lemma last_opt_nil_iff l : last_opt l = None <-> l = [].
Proof.
  split; [|intros ->; reflexivity].
  destruct l as [|d l] using rev_ind; [auto|]. rewrite last_opt_snoc; discriminate.
Qed.
Lemma last_opt_cons d l : l <> [] -> last_opt (d :: l) = last_opt l.
Proof. destruct l; [congruence|reflexivity]. Qed.
Lemma snoc_cases {A} (l : list A) : l = [] \/ exists l' x, l = l' ++ [x].
Proof. destruct l using rev_ind; [left; auto|right; eauto]. Qed.
Lemma removelast_snoc {A} (l : list A) x : removelast (l ++ [x]) = l.
Proof. rewrite removelast_app by discriminate. simpl. apply app_nil_r. Qed.
Lemma length_removelast {A} (l : list A) : length (removelast l) = pred (length l).
Proof.
  destruct (snoc_cases l) as [->|(l' & x & ->)]; [reflexivity|].
  rewrite removelast_snoc, app_length. simpl. lia.
Qed.
Lemma last_opt_last l d : l <> [] -> last_opt l = Some (last l d).
Proof.
  destruct (snoc_cases l) as [->|(l' & x & ->)]; [congruence|].
  intros _. rewrite last_opt_snoc, last_last. reflexivity.
Qed.


(** ** the source-extracted parameters the proofs are about *)
Definition bt (n1 a n2 : bool) : btest := {| bt_neg1 := n1; bt_and := a; bt_neg2 := n2 |}.
Definition iter_std : iter_params := {|
  itp_new_hi_cmp := Ceq; itp_new_default := false; itp_new_nil := true;
  itp_next_flip := true; itp_next_test_neg := false; itp_next_end := bt false true false;
  itp_next_reset := false;
  itp_back_flip := true; itp_back_test_neg := false; itp_back_end := bt false true true;
  itp_back_reset := true;
  itp_len_mul := 2; itp_len_sub1 := true; itp_len_lhz_neg := false; itp_len_sub2 := true;
  itp_len_nil_neg := true; itp_last_back := true |}.

Definition iter_ok (p : iter_params) : bool :=
  cmpop_eqb (itp_new_hi_cmp p) Ceq && Bool.eqb (itp_new_default p) false && Bool.eqb (itp_new_nil p) true
  && Bool.eqb (itp_next_flip p) true && Bool.eqb (itp_next_test_neg p) false
  && btest_eqb (itp_next_end p) (bt false true false) && Bool.eqb (itp_next_reset p) false
  && Bool.eqb (itp_back_flip p) true && Bool.eqb (itp_back_test_neg p) false
  && btest_eqb (itp_back_end p) (bt false true true) && Bool.eqb (itp_back_reset p) true
  && (itp_len_mul p =? 2) && Bool.eqb (itp_len_sub1 p) true && Bool.eqb (itp_len_lhz_neg p) false
  && Bool.eqb (itp_len_sub2 p) true && Bool.eqb (itp_len_nil_neg p) true && Bool.eqb (itp_last_back p) true.

(** every field is pinned: the accepted parameter record is exactly [iter_std] *)
Lemma iter_ok_inv p : iter_ok p = true -> p = iter_std.
Proof.
  destruct p. unfold iter_ok, iter_std. cbn.
  rewrite !andb_true_iff. intros H.
  repeat match goal with H : _ /\ _ |- _ => destruct H end.
  repeat match goal with
  | H : cmpop_eqb _ _ = true |- _ => apply cmpop_eqb_true in H
  | H : btest_eqb _ _ = true |- _ => apply btest_eqb_true in H
  | H : Bool.eqb _ _ = true |- _ => apply Bool.eqb_prop in H
  | H : (_ =? _) = true |- _ => apply Z.eqb_eq in H
  end.
  subst. reflexivity.
Qed.

(** reduce the parameter projections of [iter_std] and the literal evaluators *)
Ltac ip_red :=
  cbn [iter_std bt itp_new_hi_cmp itp_new_default itp_new_nil itp_next_flip itp_next_test_neg itp_next_end
       itp_next_reset itp_back_flip itp_back_test_neg itp_back_end itp_back_reset itp_len_mul
       itp_len_sub1 itp_len_lhz_neg itp_len_sub2 itp_len_nil_neg itp_last_back
       blit bt_eval bt_neg1 bt_and bt_neg2 addsub_lit cmp_eval it_is_empty andb negb] in *.
Ltac ip_std p H := apply iter_ok_inv in H; subst p.

(** ** abstraction *)
Definition flat32 (d : list Z) : list Z := flat_map (fun x => [lo32 x; hi32 x]) d.
Definition drop_first (b : bool) (l : list Z) : list Z := if b then tl l else l.
Definition drop_last (b : bool) (l : list Z) : list Z := if b then removelast l else l.

(** the remaining base-2^32 digits *)
Definition abs (s : u32it) : list Z :=
  drop_last (it_last_hi_is_zero s) (drop_first (negb (it_next_is_lo s)) (flat32 (it_data s))).

(** invariant of reachable states: an exhausted slice carries the reset flags *)
Definition inv (s : u32it) : Prop :=
  it_data s = [] -> it_next_is_lo s = true /\ it_last_hi_is_zero s = false.

Lemma flat32_cons x d : flat32 (x :: d) = lo32 x :: hi32 x :: flat32 d.
Proof. reflexivity. Qed.
Lemma flat32_app a b : flat32 (a ++ b) = flat32 a ++ flat32 b.
Proof. apply flat_map_app. Qed.
Lemma flat32_snoc d x : flat32 (d ++ [x]) = flat32 d ++ [lo32 x; hi32 x].
Proof. rewrite flat32_app. reflexivity. Qed.
Lemma flat32_length d : length (flat32 d) = (2 * length d)%nat.
Proof. induction d as [|x d IH]; [reflexivity|]. rewrite flat32_cons. simpl length. lia. Qed.
Lemma flat32_nil_iff d : flat32 d = [] <-> d = [].
Proof. destruct d; split; try discriminate; auto. Qed.

Lemma inv_new p d : iter_ok p = true -> inv (it_new p d).
Proof. intros Hok; ip_std p Hok. unfold inv, it_new; cbn. intros ->. auto. Qed.

(** ** next *)
Theorem it_next_spec p s : iter_ok p = true -> inv s ->
  let '(x, s') := it_next p s in
  x = hd_error (abs s) /\ abs s' = tl (abs s) /\ inv s'.
Proof.
  intros Hok; ip_std p Hok.
  destruct s as [data nil lhz]; unfold inv, abs, it_next; cbn [it_data it_next_is_lo it_last_hi_is_zero]; ip_red.
  intros Hinv. destruct data as [|first rest].
  - destruct (Hinv eq_refl) as [-> ->]. cbn. auto.
  - clear Hinv. rewrite flat32_cons. destruct nil; cbn [negb drop_first tl].
    + cbn [it_data it_next_is_lo it_last_hi_is_zero negb drop_first tl].
      rewrite flat32_cons. repeat split; try discriminate.
      * destruct lhz; cbn [drop_last]; [|reflexivity].
        destruct (flat32 rest); reflexivity.
      * destruct lhz; cbn [drop_last]; [|reflexivity].
        destruct (flat32 rest); reflexivity.
    + destruct rest as [|r0 rest].
      * destruct lhz; cbn; auto.
      * cbn [it_data it_next_is_lo it_last_hi_is_zero negb drop_first].
        rewrite !flat32_cons. repeat split; try discriminate.
        -- destruct lhz; reflexivity.
        -- destruct lhz; reflexivity.
Qed.

(** ** next_back *)
Theorem it_next_back_spec p s : iter_ok p = true -> inv s ->
  let '(x, s') := it_next_back p s in
  x = last_opt (abs s) /\ abs s' = removelast (abs s) /\ inv s'.
Proof.
  intros Hok; ip_std p Hok.
  destruct s as [data nil lhz]; unfold inv, abs, it_next_back; cbn [it_data it_next_is_lo it_last_hi_is_zero]; ip_red.
  intros Hinv. destruct (snoc_cases data) as [->|(rest & lst & ->)].
  - destruct (Hinv eq_refl) as [-> ->]. cbn. auto.
  - clear Hinv. rewrite last_opt_snoc, removelast_snoc, flat32_snoc.
    destruct lhz; cbn [negb drop_last].
    + (* the high half of the last digit is already gone: yield its low half *)
      destruct rest as [|a b] eqn:E.
      * destruct nil; cbn; auto.
      * ip_red. cbn [it_data it_next_is_lo it_last_hi_is_zero negb drop_last]. rewrite <- E.
        assert (Hne : rest <> []) by (rewrite E; discriminate). clear E a b.
        destruct (snoc_cases rest) as [->|(rest' & r0 & ->)]; [congruence|].
        rewrite flat32_snoc.
        assert (Hdf : forall t, drop_first (negb nil) ((flat32 rest' ++ [lo32 r0; hi32 r0]) ++ t)
                      = drop_first (negb nil) (flat32 rest' ++ [lo32 r0; hi32 r0]) ++ t).
        { intros t. destruct nil; cbn [negb drop_first]; [reflexivity|].
          destruct (flat32 rest'); reflexivity. }
        rewrite Hdf.
        set (q := drop_first (negb nil) (flat32 rest' ++ [lo32 r0; hi32 r0])).
        change [lo32 lst; hi32 lst] with ([lo32 lst] ++ [hi32 lst]).
        rewrite app_assoc, removelast_snoc, last_opt_snoc, removelast_snoc.
        repeat split; congruence.
    + (* yield the high half of the last digit *)
      cbn [it_data it_next_is_lo it_last_hi_is_zero drop_last].
      rewrite flat32_snoc.
      change [lo32 lst; hi32 lst] with ([lo32 lst] ++ [hi32 lst]).
      assert (Hdf : drop_first (negb nil) (flat32 rest ++ [lo32 lst] ++ [hi32 lst])
                    = drop_first (negb nil) (flat32 rest ++ [lo32 lst]) ++ [hi32 lst]).
      { destruct nil; cbn [negb drop_first]; [apply app_assoc|].
        destruct (flat32 rest); cbn [app tl]; rewrite <- ?app_assoc; reflexivity. }
      rewrite Hdf, last_opt_snoc, removelast_snoc.
      repeat split; try reflexivity; destruct rest; discriminate.
Qed.

(** ** len *)
Theorem it_len_spec p s : iter_ok p = true -> inv s -> it_len p s = Ret (Z.of_nat (length (abs s))).
Proof.
  intros Hok; ip_std p Hok.
  destruct s as [data nil lhz]; unfold inv, abs, it_len; cbn [it_data it_next_is_lo it_last_hi_is_zero]; ip_red.
  intros Hinv. destruct data as [|first rest].
  - destruct (Hinv eq_refl) as [-> ->]. reflexivity.
  - clear Hinv. rewrite flat32_cons.
    assert (Hl : length (flat32 rest) = (2 * length rest)%nat) by apply flat32_length.
    destruct nil, lhz; cbn [negb drop_first drop_last tl];
      rewrite ?length_removelast; cbn [length]; rewrite Hl; cbv zeta;
      repeat match goal with |- context [assert_ ?c ?k] =>
        replace c with true by (symmetry; apply Z.leb_le; lia); cbn [assert_ bind] end;
      f_equal; lia.
Qed.

(** ** nth (the default: advance_by n, then next) *)
Lemma skipn_S_tl {A} k (l : list A) : skipn (S k) l = skipn k (tl l).
Proof. destruct l; [destruct k; reflexivity|reflexivity]. Qed.
Lemma hd_error_none {A} (l : list A) : hd_error l = None -> l = [].
Proof. destruct l; [auto|discriminate]. Qed.

Lemma it_advance_spec p k : iter_ok p = true -> forall s, inv s ->
  let '(okk, s') := it_advance p k s in
  inv s' /\ abs s' = skipn k (abs s) /\ (okk = false -> abs s' = []).
Proof.
  intros Hok. induction k as [|k IH]; intros s Hs.
  - cbn. split; [exact Hs|split; [reflexivity|discriminate]].
  - cbn [it_advance]. pose proof (it_next_spec p s Hok Hs) as Hn.
    destruct (it_next p s) as [x s1]. destruct Hn as (Hx & Ha & Hi).
    destruct x as [x|].
    + specialize (IH s1 Hi). destruct (it_advance p k s1) as [okk s']. destruct IH as (I1 & I2 & I3).
      split; [exact I1|split; [|exact I3]]. rewrite I2, Ha, skipn_S_tl. reflexivity.
    + symmetry in Hx. apply hd_error_none in Hx. rewrite Hx in *. cbn in Ha.
      split; [exact Hi|split; [|intros _; exact Ha]]. rewrite Ha, skipn_nil. reflexivity.
Qed.

Theorem it_nth_spec p k s : iter_ok p = true -> inv s ->
  let '(x, s') := it_nth p k s in
  x = hd_error (skipn k (abs s)) /\ abs s' = tl (skipn k (abs s)) /\ inv s'.
Proof.
  intros Hok Hs. unfold it_nth. pose proof (it_advance_spec p k Hok s Hs) as Ha.
  destruct (it_advance p k s) as [okk s1]. destruct Ha as (I1 & I2 & I3).
  destruct okk.
  - pose proof (it_next_spec p s1 Hok I1) as Hn. destruct (it_next p s1) as [x s']. rewrite I2 in Hn. exact Hn.
  - specialize (I3 eq_refl). rewrite <- I2, I3. cbn. split; [reflexivity|split; [reflexivity|exact I1]].
Qed.

Theorem it_last_spec p s : iter_ok p = true -> inv s -> it_last p s = last_opt (abs s).
Proof.
  intros Hok Hs. unfold it_last.
  replace (itp_last_back p) with true by (apply iter_ok_inv in Hok; subst p; reflexivity).
  pose proof (it_next_back_spec p s Hok Hs) as Hn.
  destruct (it_next_back p s) as [x s']. apply Hn.
Qed.
Theorem it_count_spec p s : iter_ok p = true -> inv s -> it_count p s = Ret (Z.of_nat (length (abs s))).
Proof. apply it_len_spec. Qed.
Theorem it_size_hint_spec p s : iter_ok p = true -> inv s ->
  it_size_hint p s = Ret (Z.of_nat (length (abs s)), Some (Z.of_nat (length (abs s)))).
Proof. intros Hok Hs. unfold it_size_hint. rewrite it_len_spec by auto. reflexivity. Qed.

(** ** any interleaving: induction over the call list *)
Theorem it_run_refines p cs : iter_ok p = true -> forall s, inv s -> it_run p cs s = dq_run cs (abs s).
Proof.
  intros Hok. induction cs as [|c cs IH]; intros s Hs; [reflexivity|].
  destruct c; cbn [it_run dq_run].
  - pose proof (it_next_spec p s Hok Hs) as Hn. destruct (it_next p s) as [x s']. destruct Hn as (-> & Ha & Hi).
    rewrite IH, Ha by auto. reflexivity.
  - pose proof (it_next_back_spec p s Hok Hs) as Hn. destruct (it_next_back p s) as [x s']. destruct Hn as (-> & Ha & Hi).
    rewrite IH, Ha by auto. reflexivity.
  - rewrite it_len_spec, IH by auto. reflexivity.
  - rewrite it_size_hint_spec, IH by auto. reflexivity.
  - pose proof (it_nth_spec p k s Hok Hs) as Hn. destruct (it_nth p k s) as [x s']. destruct Hn as (-> & Ha & Hi).
    rewrite IH, Ha by auto. reflexivity.
  - rewrite it_last_spec by auto. reflexivity.
  - rewrite it_count_spec by auto. reflexivity.
Qed.

(** the invariant holds in every state reachable by a call list *)
Inductive step (p : iter_params) : u32it -> u32it -> Prop :=
| step_next s : step p s (snd (it_next p s))
| step_back s : step p s (snd (it_next_back p s))
| step_nth k s : step p s (snd (it_nth p k s)).
Inductive reachable (p : iter_params) (d : list Z) : u32it -> Prop :=
| reach_new : reachable p d (it_new p d)
| reach_step s s' : reachable p d s -> step p s s' -> reachable p d s'.
Theorem reachable_inv p d s : iter_ok p = true -> reachable p d s -> inv s.
Proof.
  intros Hok. induction 1 as [|s s' _ IH Hst]; [apply inv_new; auto|].
  destruct Hst.
  - pose proof (it_next_spec p s Hok IH) as H. destruct (it_next p s); apply H.
  - pose proof (it_next_back_spec p s Hok IH) as H. destruct (it_next_back p s); apply H.
  - pose proof (it_nth_spec p k s Hok IH) as H. destruct (it_nth p k s); apply H.
Qed.

(** fused: once the remaining digits are exhausted every call keeps answering None / 0 *)
Theorem it_fused p s : iter_ok p = true -> inv s -> abs s = [] ->
  fst (it_next p s) = None /\ fst (it_next_back p s) = None /\ it_len p s = Ret 0 /\
  abs (snd (it_next p s)) = [] /\ abs (snd (it_next_back p s)) = [].
Proof.
  intros Hok Hs Ha.
  pose proof (it_next_spec p s Hok Hs) as H1. pose proof (it_next_back_spec p s Hok Hs) as H2.
  destruct (it_next p s) as [x s1], (it_next_back p s) as [y s2].
  rewrite Ha in *. cbn in *. rewrite it_len_spec, Ha by auto.
  repeat split; try apply H1; try apply H2.
Qed.

(** ** the initial state denotes the base-2^32 digits of the value *)
Lemma W32_sq : W32 * W32 = B. Proof. rewrite B_val. reflexivity. Qed.
Lemma W32_val : W32 = 4294967296. Proof. reflexivity. Qed.
Lemma lo_hi x : 0 <= x < B -> lo32 x + W32 * hi32 x = x.
Proof. rewrite B_val. unfold lo32, hi32. rewrite W32_val. lia. Qed.
Lemma lo32_range x : 0 <= lo32 x < W32.
Proof. unfold lo32. apply Z.mod_pos_bound. reflexivity. Qed.
Lemma hi32_range x : 0 <= hi32 x < W32.
Proof. unfold hi32. apply Z.mod_pos_bound. reflexivity. Qed.

Lemma flat32_value d : wf d -> le_value W32 (flat32 d) = val d.
Proof.
  induction d as [|x d IH]; intros H; [reflexivity|].
  apply wf_cons in H as [Hx Hd]. rewrite flat32_cons. cbn [le_value val]. rewrite IH by auto.
  transitivity ((lo32 x + W32 * hi32 x) + (W32 * W32) * val d); [ring|].
  rewrite (lo_hi x Hx), W32_sq. reflexivity.
Qed.
Lemma flat32_inb d : inb W32 (flat32 d).
Proof.
  induction d as [|x d IH]; [constructor|]. rewrite flat32_cons.
  apply inb_cons; split; [apply lo32_range|]. apply inb_cons; split; [apply hi32_range|auto].
Qed.

Theorem abs_new p d : iter_ok p = true -> canon d -> abs (it_new p d) = le_digits W32 (val d).
Proof.
  intros Hok; ip_std p Hok. intros [Hwf Hs]. destruct (snoc_cases d) as [->|(r & t & ->)]; [reflexivity|].
  pose proof (strip_fix_snoc _ _ Hs) as Ht.
  apply wf_app in Hwf as Hw2. destruct Hw2 as [Hr Hts]. apply wf_cons in Hts as [Htd _].
  unfold abs, it_new. ip_red. cbn [it_data it_next_is_lo it_last_hi_is_zero negb drop_first].
  rewrite last_opt_snoc.
  rewrite <- (flat32_value (r ++ [t])) by auto.
  rewrite flat32_snoc. change [lo32 t; hi32 t] with ([lo32 t] ++ [hi32 t]). rewrite app_assoc.
  symmetry. destruct (Z.eqb_spec (hi32 t) 0) as [Hz|Hnz]; cbn [drop_last].
  - rewrite removelast_snoc, Hz, le_value_app. replace (le_value W32 [0]) with 0 by reflexivity. rewrite Z.mul_0_r, Z.add_0_r.
    apply le_digits_of_list; [reflexivity| |].
    + apply inb_app; split; [apply flat32_inb|]. apply inb_cons; split; [apply lo32_range|constructor].
    + apply strip_app_nz. pose proof (lo_hi t Htd). unfold digit in Htd. lia.
  - apply le_digits_of_list; [reflexivity| |].
    + apply inb_app; split; [apply inb_app; split; [apply flat32_inb|]|];
        (apply inb_cons; split; [first [apply lo32_range|apply hi32_range]|constructor]).
    + apply strip_app_nz; auto.
Qed.

(** C09: iter_u32_digits under any call script = the deque of base-2^32 digits *)
Theorem iter32_spec p d cs : iter_ok p = true -> canon d -> it_run p cs (it_new p d) = spec_iter32 (val d) cs.
Proof.
  intros Hok Hd. rewrite it_run_refines by auto using inv_new. unfold spec_iter32. rewrite abs_new by auto.
  reflexivity.
Qed.

(** ** collect = to_u32_digits *)
Lemma abs_length_le s : (length (abs s) <= 2 * length (it_data s))%nat.
Proof.
  unfold abs. rewrite <- flat32_length.
  destruct (it_last_hi_is_zero s), (it_next_is_lo s); cbn [negb drop_first drop_last];
    rewrite ?length_removelast; destruct (flat32 (it_data s)); simpl; lia.
Qed.
Lemma it_collect_fuel_spec p f : iter_ok p = true -> forall s, inv s -> (length (abs s) < f)%nat ->
  it_collect_fuel p f s = Ret (abs s).
Proof.
  intros Hok. induction f as [|f IH]; intros s Hs Hl; [lia|].
  cbn [it_collect_fuel]. pose proof (it_next_spec p s Hok Hs) as Hn.
  destruct (it_next p s) as [x s']. destruct Hn as (Hx & Ha & Hi).
  destruct (abs s) as [|y q] eqn:E; cbn in Hx; subst x.
  - reflexivity.
  - cbn in Ha. rewrite IH; auto; rewrite Ha; [reflexivity|]. simpl in Hl. lia.
Qed.
Theorem it_collect_spec p d : iter_ok p = true -> canon d ->
  it_collect p (it_new p d) = Ret (le_digits W32 (val d)).
Proof.
  intros Hok Hd. unfold it_collect. rewrite it_collect_fuel_spec.
  - rewrite abs_new; auto.
  - exact Hok.
  - apply inv_new; auto.
  - pose proof (abs_length_le (it_new p d)). lia.
Qed.

(** ** U64Digits *)
Theorem it64_run_refines cs : forall l, it64_run cs l = dq_run cs l.
Proof.
  induction cs as [|c cs IH]; intros l; [reflexivity|].
  destruct c; cbn [it64_run dq_run]; unfold it64_len.
  - destruct l; cbn; rewrite IH; reflexivity.
  - unfold it64_next_back. destruct (last_opt l) eqn:E.
    + rewrite IH; reflexivity.
    + apply last_opt_nil_iff in E. subst. rewrite IH. reflexivity.
  - rewrite IH; reflexivity.
  - rewrite IH; reflexivity.
  - unfold it64_nth, it64_next. destruct (skipn k l); cbn; rewrite IH; reflexivity.
  - reflexivity.
  - reflexivity.
Qed.
Theorem iter64_spec d cs : canon d -> it64_run cs d = spec_iter64 (val d) cs.
Proof.
  intros Hd. rewrite it64_run_refines. unfold spec_iter64.
  replace (le_digits (2 ^ 64) (val d)) with d; [reflexivity|].
  transitivity (le_digits B (val d)).
  - rewrite le_digits_B_enc by (apply val_nonneg, Hd). symmetry; apply enc_of_canon; auto.
  - f_equal; try (rewrite B_val; reflexivity).
Qed.
