(* MulProofs3.v — C02, part 3: scalar_mul, the product dispatch (umul_with / imul_with /
   mul3_with) over a correct recursive mac3, and the BigInt helper operations of Toom-3
   (division by 3 via DivProofs.div_rem_digit_spec, halving, doubling). *)
From BigNum Require Import Base BaseLemmas X86 AddSub AddSubProofs ShiftCore ShiftCoreProofs
  Div DivProofs Mul MulProofs MulProofs2.
Open Scope Z_scope.

(** * scalar_mul *)
Lemma mul_with_carry_spec a b acc : digit a -> digit b -> digit acc ->
  exists lo hi, mul_with_carry a b acc = Ret (lo, hi) /\ digit lo /\ digit hi /\ lo + B * hi = acc + a * b.
Proof.
  unfold digit; intros Ha Hb Hacc. unfold mul_with_carry. pose proof B_pos. pose proof BB_val.
  assert (Hs : 0 <= acc + a * b < B * B) by nia.
  replace (acc + a * b <? BB) with true by (symmetry; apply Z.ltb_lt; lia).
  cbn [assert_ bind]. rewrite lo64_spec, hi64_spec.
  eexists _, _; split; [reflexivity|]. split; [|split].
  - apply Z.mod_pos_bound; lia.
  - split; [apply Z.div_pos; lia|]. apply Z.div_lt_upper_bound; lia.
  - pose proof (Z.div_mod (acc + a * b) B). lia.
Qed.

Lemma mul_loop_spec b : digit b -> forall a carry, wf a -> digit carry ->
  exists r cf, mul_loop b carry a = Ret (r, cf) /\ wf r /\ length r = length a /\ digit cf /\
               val r + B ^ Z.of_nat (length a) * cf = val a * b + carry.
Proof.
  intros Hb. induction a as [|x a IH]; intros carry Wa Hc.
  - cbn [mul_loop length Z.of_nat]. rewrite Z.pow_0_r. eexists _, _; split; [reflexivity|].
    rewrite !val_nil. unfold digit in *. repeat split; auto; lia.
  - apply wf_cons in Wa as [Hx Wa]. cbn [mul_loop].
    destruct (mul_with_carry_spec x b carry Hx Hb Hc) as (lo & hi & E & Dlo & Dhi & Ev).
    rewrite E. cbn [bind].
    destruct (IH hi Wa Dhi) as (r & cf & E2 & Wr & Lr & Dcf & Ev2).
    rewrite E2. cbn [bind]. eexists _, _; split; [reflexivity|].
    split; [apply wf_cons; auto|]. split; [cbn [length]; congruence|]. split; [auto|].
    change (length (x :: a)) with (S (length a)). rewrite B_pow_S, !val_cons. nia.
Qed.

Lemma is_pow2_spec b : is_pow2 b = true -> 0 < b /\ 2 ^ Z.log2 b = b.
Proof. unfold is_pow2. intros H. apply andb_prop in H as [H1 H2]. split; lia. Qed.

Theorem scalar_mul_spec a b : canon a -> digit b -> scalar_mul a b = Ret (enc (val a * b)).
Proof.
  intros Ca Hb. pose proof (proj1 Ca) as Wa. unfold scalar_mul.
  destruct (Z.eqb_spec b 0) as [->|Hb0]; [rewrite Z.mul_0_r; reflexivity|].
  destruct (Z.eqb_spec b 1) as [->|Hb1]; [rewrite Z.mul_1_r, enc_of_canon; auto|].
  destruct (is_pow2 b) eqn:Ep.
  - apply is_pow2_spec in Ep as [Hpos Hlog].
    rewrite ushl_spec by (auto; apply Z.log2_nonneg). rewrite Hlog. reflexivity.
  - destruct (mul_loop_spec b Hb a 0 Wa) as (r & cf & E & Wr & Lr & Dcf & Ev).
    { unfold digit; pose proof B_pos; lia. }
    rewrite E. cbn [bind]. f_equal. rewrite Z.add_0_r in Ev.
    destruct a as [|a0 a'].
    { destruct r; [|discriminate]. cbn [length Z.of_nat] in Ev. rewrite Z.pow_0_r, !val_nil in Ev.
      assert (cf = 0) as -> by lia. reflexivity. }
    assert (Hlow : B ^ (Z.of_nat (length (a0 :: a')) - 1) <= val (a0 :: a')) by (apply canon_lower; [auto|discriminate]).
    unfold digit in Hb, Dcf.
    destruct (Z.eqb_spec cf 0) as [->|Hcf].
    + rewrite <- Ev, Z.mul_0_r, Z.add_0_r. symmetry. apply enc_of_canon. apply canon_of_lower; auto.
      * destruct r; [discriminate|discriminate].
      * rewrite Lr. set (Q := B ^ (Z.of_nat (length (a0 :: a')) - 1)) in *.
        pose proof (val_nonneg _ Wa). nia.
    + rewrite lo64_spec, Z.mod_small by lia.
      assert (Hcn : canon (r ++ [cf])) by (apply canon_app_last; auto).
      rewrite <- (enc_of_canon _ Hcn). f_equal. rewrite val_app, val_single, Lr. lia.
Qed.

(** * The product dispatch over a correct recursive mac3 *)
Lemma mul3_with_spec rec p n x y : mul_ok p = true -> rec_ok rec n -> wf x -> wf y ->
  (length x + length y < n)%nat ->
  mul3_with rec p x y = Ret (enc (val x * val y)).
Proof.
  intros Hp Hrec Wx Wy Hn. pose proof (mul_ok_inv p Hp) as Hinv.
  assert (Hpe : 1 <= mp_prod_extra p) by (destruct Hinv as (_&_&_&_&_&_&_&_&_&_&_&_&_&H); exact H).
  unfold mul3_with.
  destruct (rec_zeros rec n (Z.to_nat (lenZ x + lenZ y + mp_prod_extra p)) x y Hrec Wx Wy Hn) as (r & E & W & L & V).
  { unfold lenZ. lia. }
  rewrite E. cbn [bind]. rewrite <- enc_strip, V by auto. reflexivity.
Qed.

Lemma canon_single_digit d : canon [d] -> digit d.
Proof. intros [W _]. apply wf_cons in W as [H _]. exact H. Qed.

Lemma umul_with_spec rec p n a b : mul_ok p = true -> rec_ok rec n -> canon a -> canon b ->
  (length a + length b < n)%nat ->
  umul_with rec p a b = Ret (enc (val a * val b)).
Proof.
  intros Hp Hrec Ca Cb Hn. unfold umul_with.
  destruct a as [|a0 a']; [rewrite val_nil, Z.mul_0_l; reflexivity|].
  destruct b as [|b0 b']; [rewrite val_nil, Z.mul_0_r; destruct a'; reflexivity|].
  destruct a' as [|a1 a'']; destruct b' as [|b1 b'']; cbn [umul_with].
  - rewrite scalar_mul_spec by (auto using canon_single_digit). rewrite (val_single b0). reflexivity.
  - rewrite scalar_mul_spec by (auto using canon_single_digit). rewrite (val_single a0), Z.mul_comm. reflexivity.
  - rewrite scalar_mul_spec by (auto using canon_single_digit). rewrite (val_single b0). reflexivity.
  - apply (mul3_with_spec rec p n); auto; [apply Ca|apply Cb].
Qed.

Lemma sign_z_mul a b : sign_z (sign_mul a b) = sign_z a * sign_z b.
Proof. destruct a, b; reflexivity. Qed.

Lemma ival_ienc_mag z : val (mag (ienc z)) = Z.abs z.
Proof. cbn [ienc mag]. apply enc_val. apply Z.abs_nonneg. Qed.

Lemma imul_with_spec rec p n x y : mul_ok p = true -> rec_ok rec n -> icanon x -> icanon y ->
  (length (mag x) + length (mag y) < n)%nat ->
  imul_with rec p x y = Ret (ienc (ival x * ival y)).
Proof.
  intros Hp Hrec Cx Cy Hn. unfold imul_with.
  rewrite (umul_with_spec rec p n) by (auto; apply Cx || apply Cy). cbn [bind].
  rewrite from_biguint_ienc by apply enc_canon.
  pose proof (val_nonneg _ (proj1 (proj1 Cx))). pose proof (val_nonneg _ (proj1 (proj1 Cy))).
  rewrite enc_val by nia. rewrite sign_z_mul. unfold ival. do 2 f_equal. ring.
Qed.

(** * BigInt helpers of Toom-3 *)
Lemma bigint_from_slice_spec l : wf l -> bigint_from_slice l = ienc (val l).
Proof.
  intros Wl. unfold bigint_from_slice. rewrite from_biguint_ienc by (apply canon_strip; auto).
  rewrite val_strip. f_equal. cbn [sign_z]. lia.
Qed.

Lemma sg_mag_ienc z : from_biguint (sg (ienc z)) (enc (Z.abs z)) = ienc z.
Proof. rewrite from_biguint_ienc by apply enc_canon. rewrite enc_val by apply Z.abs_nonneg. cbn [ienc sg]. f_equal. apply z_sign_z. Qed.

Lemma from_sign_enc z m : 0 <= m -> from_biguint (z_sign z) (enc m) = ienc (sign_z (z_sign z) * m).
Proof. intros Hm. rewrite from_biguint_ienc by apply enc_canon. rewrite enc_val by auto. reflexivity. Qed.

Lemma sign_z_z_sign_mul z m : Z.abs z <> 0 \/ m = 0 -> sign_z (z_sign z) * m = Z.sgn z * m.
Proof. intros _. destruct z; reflexivity. Qed.

Lemma imul_small_2_spec z : imul_small (ienc z) 2 = Ret (ienc (2 * z)).
Proof.
  unfold imul_small. cbn [ienc mag sg].
  rewrite scalar_mul_spec by (try apply enc_canon; unfold digit; rewrite B_val; lia).
  cbn [bind]. rewrite enc_val by apply Z.abs_nonneg.
  rewrite from_sign_enc by lia. f_equal. f_equal. destruct z; cbn; lia.
Qed.

Lemma ishl1_spec z : ishl1 (ienc z) = ienc (2 * z).
Proof.
  unfold ishl1. cbn [ienc mag sg]. rewrite ushl_spec by (try apply enc_wf; lia).
  rewrite enc_val by apply Z.abs_nonneg. rewrite from_sign_enc by lia.
  f_equal. destruct z; cbn; lia.
Qed.

Lemma idiv_small_3_spec k : idiv_small (ienc (3 * k)) 3 = Ret (ienc k).
Proof.
  unfold idiv_small. cbn [ienc mag sg].
  rewrite div_rem_digit_spec by (try apply enc_wf; rewrite B_val; lia). cbn [bind fst].
  rewrite enc_val by apply Z.abs_nonneg.
  replace (Z.abs (3 * k) / 3) with (Z.abs k) by (rewrite Z.abs_mul, Z.mul_comm, Z.div_mul; lia).
  rewrite from_sign_enc by lia. f_equal. f_equal. destruct k; cbn; lia.
Qed.

(** the low digit of a canonical encoding *)
Lemma enc_head n : 0 < n -> exists r, enc n = (n mod B) :: r.
Proof.
  intros Hn. pose proof (enc_canon n) as Hc. pose proof (enc_val n ltac:(lia)) as Hv.
  destruct (enc n) as [|d r].
  - rewrite val_nil in Hv. lia.
  - exists r. f_equal. destruct Hc as [W _]. apply wf_cons in W as [Hd Wr]. unfold digit in Hd.
    rewrite val_cons in Hv. rewrite <- Hv. symmetry.
    rewrite (Z.mul_comm B), Z.mod_add by (pose proof B_pos; lia). apply Z.mod_small; auto.
Qed.

Lemma even_mod_B m : Z.even ((2 * m) mod B) = true.
Proof.
  rewrite B_as_pow2. change (2 ^ 64) with (2 * 2 ^ 63).
  rewrite Z.mul_mod_distr_l by lia. rewrite Z.even_mul. reflexivity.
Qed.

Lemma ishr1_even_spec ap k : ishr1 ap (ienc (2 * k)) = Ret (ienc k).
Proof.
  unfold ishr1. cbn [ienc mag sg].
  assert (Hrd : match z_sign (2 * k) with
                | Minus => match enc (Z.abs (2 * k)) with [] => Panic (Internal 214) | d :: _ => Ret (Z.odd d) end
                | _ => Ret false
                end = Ret false).
  { destruct k as [|q|q]; try reflexivity. cbn [z_sign Z.mul].
    destruct (enc_head (Z.abs (Z.neg (2 * q))) ltac:(lia)) as (r & ->).
    f_equal. rewrite <- Z.negb_even. replace (Z.abs (Z.neg (2 * q))) with (2 * Z.pos q) by lia.
    rewrite even_mod_B. reflexivity. }
  rewrite Hrd. cbn [bind].
  rewrite ushr_spec by (try apply enc_wf; lia). rewrite enc_val by apply Z.abs_nonneg.
  replace (Z.abs (2 * k) / 2 ^ 1) with (Z.abs k) by (rewrite Z.abs_mul, Z.pow_1_r, Z.mul_comm, Z.div_mul; lia).
  rewrite from_sign_enc by lia. f_equal. f_equal. destruct k; cbn; lia.
Qed.
