(* GcdProofs3.v — C13, part 3: extended gcd.
   (1) the Z-level recurrence of num-integer's default body (SpecGcd.zegcd) terminates within its
       fuel and returns (g, x, y) with a*x + b*y = g = gcd(a,b), g >= 0;
   (2) the BigInt model (Gcd.iextended_gcd) is a step-by-step refinement of that recurrence;
   (3) extended_gcd_lcm. *)
From BigNum Require Import Base BaseLemmas X86 AddSub AddSubProofs PgrLoop PgrLoopProofs
  Pow PowProofs Gcd SpecGcd GcdProofs GcdProofs2.
Open Scope Z_scope.

(** * (1) Z level *)
Definition zegcd_inv (a b : Z) (st : zegcd_state) : Prop :=
  let '(s, t, r) := st in
  fst r = a * fst s + b * fst t /\ snd r = a * snd s + b * snd t /\
  Z.gcd (fst r) (snd r) = Z.gcd a b.

Lemma zegcd_step_ok a b :
  step_ok zegcd_step (zegcd_inv a b) (fun st => Z.abs (fst (snd st)))
          (fun st => zegcd_inv a b st /\ fst (snd st) = 0).
Proof.
  intros [[[s0 s1] [t0 t1]] [r0 r1]] (H0 & H1 & Hg). cbn [fst snd] in *.
  split; [lia|]. unfold zegcd_step. cbn [fst snd].
  destruct (Z.eqb_spec r0 0) as [E|N].
  - split; [|exact E]. unfold zegcd_inv. cbn [fst snd]. auto.
  - unfold zegcd_f. cbn [fst snd]. set (q := Z.quot r1 r0).
    assert (Hrem : r1 - q * r0 = Z.rem r1 r0).
    { pose proof (Z.quot_rem' r1 r0). unfold q. lia. }
    split.
    + unfold zegcd_inv. cbn [fst snd]. split; [rewrite H0, H1; ring|]. split; [exact H0|].
      rewrite <- Hg. replace (r1 - q * r0) with (r1 + (- q) * r0) by ring.
      rewrite Z.gcd_comm, Z.gcd_add_mult_diag_r. reflexivity.
    + rewrite Hrem. pose proof (Z.rem_bound_abs r1 r0 N). lia.
Qed.

Theorem zegcd_bezout a b :
  exists g x y, zegcd a b = Ret (g, x, y) /\ a * x + b * y = g /\ g = Z.gcd a b /\ 0 <= g.
Proof.
  unfold zegcd.
  destruct (run_loop_rule zegcd_step (zegcd_inv a b) (fun st => Z.abs (fst (snd st)))
              (fun st => zegcd_inv a b st /\ fst (snd st) = 0) (zegcd_step_ok a b))
    with (fuel := Z.to_pos (Z.abs b + 2)) (s := ((0, 1), (1, 0), (b, a)) : zegcd_state)
    as ([[[s0 s1] [t0 t1]] [r0 r1]] & -> & (H0 & H1 & Hg) & Hz).
  - unfold zegcd_inv. cbn [fst snd]. split; [ring|]. split; [ring|]. apply Z.gcd_comm.
  - cbn [fst snd]. rewrite Z2Pos.id by lia. lia.
  - cbn [fst snd bind] in *. rewrite Hz in Hg. clear H0 Hz. rewrite Z.gcd_0_l in Hg.
    destruct (Z.leb_spec 0 r1).
    + exists r1, s1, t1. split; [reflexivity|]. split; [lia|]. split; lia.
    + exists (0 - r1), (0 - s1), (0 - t1). split; [reflexivity|]. split; [lia|]. split; lia.
Qed.

Lemma egcd_ok_of_bezout a b g x y :
  a * x + b * y = g -> g = Z.gcd a b -> 0 <= g -> egcd_ok a b g x y = true.
Proof.
  intros H1 H2 H3. unfold egcd_ok. rewrite !andb_true_iff, !Z.eqb_eq, Z.leb_le. auto.
Qed.

(** * (2) refinement *)
Definition ienc2 (r : Z * Z) : bigint * bigint := (ienc (fst r), ienc (snd r)).
Definition ienc_st (st : zegcd_state) : egcd_state :=
  let '(s, t, r) := st in (ienc2 s, ienc2 t, ienc2 r).

Section WithBigOps.
Variable bmul : list Z -> list Z -> outcome (list Z).
Variable bdivrem : list Z -> list Z -> outcome (list Z * list Z).
Hypothesis bmul_spec : bmul_exact bmul.
Hypothesis bdivrem_spec : bdivrem_exact bdivrem.
Variable ap : addsub_params.
Hypothesis Hap : addsub_ok ap = true.

Lemma egcd_f_spec q r :
  egcd_f bmul ap (ienc q) (ienc2 r) = Ret (ienc2 (zegcd_f q r)).
Proof.
  destruct r as [r0 r1]. unfold egcd_f, ienc2, zegcd_f. cbn [fst snd].
  rewrite (pgr_imul_spec bmul bmul_spec) by apply ienc_canon. cbn [bind].
  rewrite isub_spec by (auto using ienc_canon). rewrite !ienc_val. reflexivity.
Qed.

Lemma egcd_step_sim s1 s2 : s1 = ienc_st s2 ->
  out_rel (sum_rel (fun a b => a = ienc_st b) (fun a b => a = ienc_st b))
          (egcd_step bmul bdivrem ap s1) (zegcd_step s2).
Proof.
  intros ->. destruct s2 as [[s t] [r0 r1]]. unfold egcd_step, zegcd_step, ienc_st.
  cbn [fst snd ienc2]. rewrite pgr_iis_zero_spec, ienc_val by apply ienc_canon.
  destruct (Z.eqb_spec r0 0) as [E|N]; cbn [out_rel].
  - eexists; split; [reflexivity|]. cbn [sum_rel]. reflexivity.
  - rewrite (pgr_idiv_spec bdivrem bdivrem_spec) by apply ienc_canon. rewrite !ienc_val.
    destruct (Z.eqb_spec r0 0); [lia|]. cbn [bind].
    change (ienc r0, ienc r1) with (ienc2 (r0, r1)).
    rewrite !egcd_f_spec. cbn [bind].
    eexists; split; [reflexivity|]. cbn [sum_rel ienc_st]. reflexivity.
Qed.

Definition ienc3 (r : Z * Z * Z) : bigint * bigint * bigint :=
  let '(g, x, y) := r in (ienc g, ienc x, ienc y).

Theorem iextended_gcd_refines x y : icanon x -> icanon y ->
  iextended_gcd bmul bdivrem ap x y = omap ienc3 (zegcd (ival x) (ival y)).
Proof.
  intros Cx Cy. unfold iextended_gcd, zegcd, egcd_fuel. rewrite (icanon_abs y Cy).
  pose proof (run_loop_sim (egcd_step bmul bdivrem ap) zegcd_step
                (fun a b => a = ienc_st b) (fun a b => a = ienc_st b) egcd_step_sim
                (Z.to_pos (Z.abs (ival y) + 2))
                ((pgr_izero, pgr_ione), (pgr_ione, pgr_izero), (y, x))
                ((0, 1), (1, 0), (ival y, ival x))) as H.
  unfold out_rel in H.
  match type of H with ?A -> _ => assert (HA : A) end.
  { unfold ienc_st, ienc2. cbn [fst snd]. rewrite !ienc_of_icanon by auto.
    unfold pgr_izero, pgr_ione. rewrite ienc_0.
    replace (ienc 1) with (mkint Plus [1]); [reflexivity|].
    unfold ienc. cbn [z_sign Z.abs]. now rewrite enc_1. }
  specialize (H HA). clear HA.
  destruct (run_loop zegcd_step (Z.to_pos (Z.abs (ival y) + 2)) (0, 1, (1, 0), (ival y, ival x)))
    as [[[[s0 s1] [t0 t1]] [r0 r1]]|k|].
  - destruct H as (st1 & -> & ->). cbn [bind omap ienc_st ienc2 fst snd].
    assert (Hs : negb (sign_eqb (sg (ienc r1)) Minus) = (0 <=? r1)).
    { unfold ienc. cbn [sg]. destruct r1; reflexivity. }
    rewrite Hs. destruct (0 <=? r1); [reflexivity|].
    unfold pgr_izero. rewrite <- ienc_0.
    rewrite !isub_spec by (auto using ienc_canon). cbn [bind]. rewrite !ienc_val. reflexivity.
  - rewrite H. reflexivity.
  - rewrite H. reflexivity.
Qed.

Theorem iextended_gcd_spec x y : icanon x -> icanon y ->
  exists g cx cy,
    iextended_gcd bmul bdivrem ap x y = Ret (ienc g, ienc cx, ienc cy) /\
    ival x * cx + ival y * cy = g /\ g = Z.gcd (ival x) (ival y) /\ 0 <= g.
Proof.
  intros Cx Cy. rewrite iextended_gcd_refines by auto.
  destruct (zegcd_bezout (ival x) (ival y)) as (g & cx & cy & -> & H).
  exists g, cx, cy. split; [reflexivity|exact H].
Qed.

(** * (3) extended_gcd_lcm *)
Definition ienc4 (r : Z * Z * Z * Z) : bigint * bigint * bigint * bigint :=
  let '(e, l) := r in (ienc3 e, ienc l).

Theorem iextended_gcd_lcm_refines x y : icanon x -> icanon y ->
  iextended_gcd_lcm bmul bdivrem ap x y = omap ienc4 (spec_egcd_lcm (ival x) (ival y)).
Proof.
  intros Cx Cy. unfold iextended_gcd_lcm, spec_egcd_lcm.
  destruct (iextended_gcd_spec x y Cx Cy) as (g & cx & cy & E & Hb & Hg & Hg0).
  rewrite E. cbn [bind].
  rewrite iextended_gcd_refines in E by auto.
  destruct (zegcd (ival x) (ival y)) as [[[g' cx'] cy']|k|]; cbn [omap bind] in E; try discriminate.
  cbn [ienc3] in E.
  assert (E1 : ienc g' = ienc g) by congruence.
  assert (E2 : ienc cx' = ienc cx) by congruence.
  assert (E3 : ienc cy' = ienc cy) by congruence.
  assert (g' = g) by (apply (f_equal ival) in E1; rewrite !ienc_val in E1; auto).
  assert (cx' = cx) by (apply (f_equal ival) in E2; rewrite !ienc_val in E2; auto).
  assert (cy' = cy) by (apply (f_equal ival) in E3; rewrite !ienc_val in E3; auto).
  clear E E1 E2 E3.
  subst g' cx' cy'. cbn [bind omap ienc4 ienc3].
  rewrite pgr_iis_zero_spec, ienc_val by apply ienc_canon.
  pose proof (icanon_mag x Cx) as Cmx. pose proof (icanon_mag y Cy) as Cmy.
  pose proof (val_nonneg _ (proj1 Cmx)) as Hx0. pose proof (val_nonneg _ (proj1 Cmy)) as Hy0.
  destruct (Z.eqb_spec g 0) as [E0|N0].
  - cbn [bind]. assert (Eg : Z.gcd (ival x) (ival y) = 0) by lia. pose proof (Z.gcd_eq_0_l _ _ Eg) as Ex0.
    unfold zlcm. rewrite Ex0. cbn [Z.eqb orb]. unfold pgr_izero. rewrite <- ienc_0. reflexivity.
  - assert (Emg : mag (ienc g) = enc (Z.gcd (val (mag x)) (val (mag y)))).
    { unfold ienc. cbn [mag]. rewrite Z.abs_eq by lia. rewrite Hg.
      rewrite (icanon_abs x Cx), (icanon_abs y Cy), Z.gcd_abs_l, Z.gcd_abs_r. reflexivity. }
    rewrite Emg.
    assert (Hnz : val (mag x) <> 0 \/ val (mag y) <> 0).
    { destruct (Z.eq_dec (val (mag x)) 0) as [Ea|]; [|auto]. right. intros Eb.
      rewrite (icanon_abs x Cx) in Ea. rewrite (icanon_abs y Cy) in Eb.
      assert (H2 : ival x = 0) by lia. assert (H3 : ival y = 0) by lia.
      rewrite Hg, H2, H3 in N0. cbn in N0. lia. }
    pose proof (lcm_core bmul bdivrem bmul_spec bdivrem_spec (mag x) (mag y) Cmx Cmy Hnz) as HL.
    cbn [bind] in HL.
    destruct (bdivrem (mag x) (enc (Z.gcd (val (mag x)) (val (mag y))))) as [qr|k|]; cbn [bind] in *; try discriminate.
    rewrite HL. cbn [bind]. rewrite iof_u_spec by apply zlcm_nonneg.
    rewrite (icanon_abs x Cx), (icanon_abs y Cy), zlcm_abs. reflexivity.
Qed.
End WithBigOps.
