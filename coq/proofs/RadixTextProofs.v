(* RadixTextProofs.v — C06, text half: to_str_radix (ASCII map, '-', lower case),
   from_str_radix (accepted language and denotation, both types), parse_bytes, FromStr,
   the round trip, ASCII-only output (C15), the five formatters relative to the
   pad_integral model.  Kernels are Section variables. *)
From BigNum Require Import Base BaseLemmas AddSub AddSubProofs Div DivProofs SpecBytes BytesLemmas
  Radix RadixText SpecRadix RadixProofs RadixProofs2 RadixProofs3.
Open Scope Z_scope.

(** * digit characters *)
Lemma arm_digit_std b :
  arm_digit std_arms b = match char_digit b with Some d => d | None => 255 end.
Proof.
  unfold std_arms, char_digit. cbn [arm_digit].
  destruct ((48 <=? b) && (b <=? 57)); [lia|].
  destruct ((97 <=? b) && (b <=? 122)); [lia|].
  destruct ((65 <=? b) && (b <=? 90)); [lia|reflexivity].
Qed.
Lemma char_digit_range c d : char_digit c = Some d -> 0 <= d < 36.
Proof.
  unfold char_digit.
  destruct ((48 <=? c) && (c <=? 57)) eqn:E1; [apply andb_true_iff in E1 as [? ?]; intros [= <-]; lia|].
  destruct ((97 <=? c) && (c <=? 122)) eqn:E2; [apply andb_true_iff in E2 as [? ?]; intros [= <-]; lia|].
  destruct ((65 <=? c) && (c <=? 90)) eqn:E3; [apply andb_true_iff in E3 as [? ?]; intros [= <-]; lia|discriminate].
Qed.
Lemma is_digit_arm radix b : 2 <= radix <= 36 ->
  (arm_digit std_arms b <? radix) = is_digit_of radix b.
Proof.
  intros Hr. rewrite arm_digit_std. unfold is_digit_of.
  destruct (char_digit b); [reflexivity|]. apply Z.ltb_ge. lia.
Qed.
Lemma is_digit_value radix b : is_digit_of radix b = true -> 0 <= digit_of b < radix /\ arm_digit std_arms b = digit_of b.
Proof.
  unfold is_digit_of, digit_of. rewrite arm_digit_std.
  destruct (char_digit b) as [d|] eqn:E; [|discriminate].
  intros H. apply Z.ltb_lt in H. apply char_digit_range in E. split; [lia|reflexivity].
Qed.
Lemma digit_char_digit r d : 0 <= d < r -> r <= 36 ->
  is_digit_of r (digit_char d) = true /\ digit_of (digit_char d) = d /\ (digit_char d =? 95) = false /\
  (48 <= digit_char d <= 57 \/ 97 <= digit_char d <= 122).
Proof.
  intros Hd Hr. unfold digit_char, is_digit_of, digit_of, char_digit.
  destruct (Z.ltb_spec d 10).
  - replace ((48 <=? 48 + d) && (48 + d <=? 57)) with true
      by (symmetry; apply andb_true_iff; split; apply Z.leb_le; lia).
    replace (48 + d - 48) with d by lia.
    split; [apply Z.ltb_lt; lia|]. split; [reflexivity|]. split; [apply Z.eqb_neq; lia|lia].
  - replace ((48 <=? 87 + d) && (87 + d <=? 57)) with false
      by (symmetry; apply andb_false_iff; right; apply Z.leb_gt; lia).
    replace ((97 <=? 87 + d) && (87 + d <=? 122)) with true
      by (symmetry; apply andb_true_iff; split; apply Z.leb_le; lia).
    replace (87 + d - 87) with d by lia.
    split; [apply Z.ltb_lt; lia|]. split; [reflexivity|]. split; [apply Z.eqb_neq; lia|lia].
Qed.

(** * the byte loop of from_str_radix *)
Definition lang_char (r c : Z) : bool := (c =? 95) || is_digit_of r c.
Definition body_digits (body : list Z) : list Z :=
  map digit_of (filter (fun c => negb (c =? 95)) body).

Lemma parse_digits_spec p radix : radix_std p -> 2 <= radix <= 36 -> forall body,
  parse_digits p radix body =
    if forallb (lang_char radix) body then POk (body_digits body) else PErr PInvalid.
Proof.
  intros S Hr; induction body as [|b body IH]; [reflexivity|].
  cbn [parse_digits forallb]. rewrite (rs_skip p S), (rs_arms p S). unfold lang_char at 1, body_digits.
  cbn [filter]. destruct (Z.eqb_spec b 95) as [->|Hb]; cbn [orb negb andb].
  - rewrite IH. reflexivity.
  - rewrite Z.mod_small by lia. rewrite is_digit_arm by auto.
    destruct (is_digit_of radix b) eqn:Hd; cbn [andb]; [|reflexivity].
    rewrite IH. destruct (forallb (lang_char radix) body); cbn [pr_map map]; [|reflexivity].
    destruct (is_digit_value radix b Hd) as [_ ->]. reflexivity.
Qed.

Lemma body_digits_inb radix body : forallb (lang_char radix) body = true -> inb radix (body_digits body).
Proof.
  induction body as [|b body IH]; [constructor|]. cbn [forallb]. intros H.
  apply andb_true_iff in H as [H1 H2]. unfold body_digits. cbn [filter].
  destruct (Z.eqb_spec b 95) as [->|Hb]; cbn [negb]; [apply IH; auto|].
  cbn [map]. apply inb_cons. split; [|apply IH; auto].
  unfold lang_char in H1. replace (b =? 95) with false in H1 by (symmetry; apply Z.eqb_neq; auto).
  cbn [orb] in H1. apply is_digit_value in H1. tauto.
Qed.

Lemma body_value_digits r body : body_value r body = le_value r (rev (body_digits body)).
Proof. reflexivity. Qed.

Lemma body_ok_lang r c0 rest : body_ok r (c0 :: rest) = is_digit_of r c0 && forallb (lang_char r) rest.
Proof. reflexivity. Qed.

Lemma body_value_nonneg r body : 2 <= r -> body_ok r body = true -> 0 <= body_value r body.
Proof.
  intros Hr H. destruct body as [|c0 rest]; [discriminate|].
  rewrite body_ok_lang in H. apply andb_true_iff in H as [H1 H2].
  assert (Hl : forallb (lang_char r) (c0 :: rest) = true).
  { cbn [forallb]. rewrite H2, andb_true_r. unfold lang_char. rewrite H1. apply orb_true_r. }
  pose proof (le_value_bound r (rev (body_digits (c0 :: rest))) ltac:(lia)
                (inb_rev _ _ (body_digits_inb r _ Hl))).
  rewrite body_value_digits. lia.
Qed.

Section FromStr.
Variable k_mac : Z -> Z -> Z -> Z -> outcome (Z * Z).
Variable k_from_bits k_from_inexact : list Z -> Z -> outcome (list Z).
Hypothesis H_mac : forall b c acc, digit b -> digit c -> digit acc ->
  k_mac 0 b c acc = Ret ((b * c + acc) mod B, (b * c + acc) / B).
Hypothesis H_from_bits : forall v bits, (bits = 1 \/ bits = 2 \/ bits = 4 \/ bits = 8) -> v <> [] ->
  inb (2 ^ bits) v -> k_from_bits v bits = Ret (enc (le_value (2 ^ bits) v)).
Hypothesis H_from_inexact : forall v bits, (bits = 3 \/ bits = 5 \/ bits = 6 \/ bits = 7) -> v <> [] ->
  inb (2 ^ bits) v -> k_from_inexact v bits = Ret (enc (le_value (2 ^ bits) v)).

(** the part of from_str_radix after the sign has been stripped *)
Definition parse_tail (p : radix_params) (s1 : list Z) (radix : Z) : outcome (parse_result (list Z)) :=
  match s1 with
  | [] => Ret (PErr PEmpty)
  | b0 :: _ =>
      if b0 =? rp_skip p then Ret (PErr PInvalid)
      else
        match parse_digits p radix s1 with
        | PErr e => Ret (PErr e)
        | POk v =>
            do res <- (if rpow2 radix then from_pow2 k_from_bits k_from_inexact (rev v) radix
                       else from_radix_digits_be k_mac p v radix);
            Ret (POk res)
        end
  end.

Lemma parse_tail_spec p s1 radix : radix_std p -> 2 <= radix <= 36 ->
  parse_tail p s1 radix = Ret (pr_map enc (body_parse radix s1)).
Proof.
  intros S Hr. unfold parse_tail, body_parse. destruct s1 as [|b0 rest]; [reflexivity|].
  rewrite (rs_skip p S). rewrite body_ok_lang.
  destruct (Z.eqb_spec b0 95) as [->|Hb].
  - replace (is_digit_of radix 95) with false by reflexivity. reflexivity.
  - rewrite parse_digits_spec by auto. cbn [forallb]. unfold lang_char at 1.
    replace (b0 =? 95) with false by (symmetry; apply Z.eqb_neq; auto). cbn [orb].
    destruct (is_digit_of radix b0 && forallb (lang_char radix) rest) eqn:Hok; [|reflexivity].
    assert (Hl : forallb (lang_char radix) (b0 :: rest) = true).
    { cbn [forallb]. unfold lang_char at 1. replace (b0 =? 95) with false by (symmetry; apply Z.eqb_neq; auto). exact Hok. }
    set (v := body_digits (b0 :: rest)).
    assert (Hv : v <> []).
    { unfold v, body_digits. cbn [filter]. replace (b0 =? 95) with false by (symmetry; apply Z.eqb_neq; auto).
      cbn. discriminate. }
    assert (Hn : rev v <> []).
    { intros E. apply Hv. rewrite <- (rev_involutive v), E. reflexivity. }
    rewrite (from_radix_core k_mac k_from_bits k_from_inexact H_mac H_from_bits H_from_inexact
               p (rev v) v radix S ltac:(lia) Hn (eq_sym (rev_involutive v))
               (inb_rev _ _ (body_digits_inb radix _ Hl))).
    reflexivity.
Qed.

Lemma not_digit_43 r : is_digit_of r 43 = false. Proof. reflexivity. Qed.
Lemma not_digit_45 r : is_digit_of r 45 = false. Proof. reflexivity. Qed.
Lemma body_parse_43 r t : body_parse r (43 :: t) = PErr PInvalid.
Proof. unfold body_parse. rewrite body_ok_lang, not_digit_43. reflexivity. Qed.
Lemma body_parse_45 r t : body_parse r (45 :: t) = PErr PInvalid.
Proof. unfold body_parse. rewrite body_ok_lang, not_digit_45. reflexivity. Qed.

Lemma from_str_radix_unfold p s radix :
  from_str_radix k_mac k_from_bits k_from_inexact p s radix =
  do _ <- assert_ ((rp_str_lo p <=? radix) && (radix <=? rp_str_hi p)) BadRadix;
  parse_tail p (snd (strip_sign ch_plus s)) radix.
Proof. reflexivity. Qed.

(** from_str_radix (BigUint): accepted language and denotation *)
Theorem from_str_radix_spec p s radix : radix_std p ->
  from_str_radix k_mac k_from_bits k_from_inexact p s radix
  = omap (pr_map enc) (spec_from_str false s radix).
Proof.
  intros S. rewrite from_str_radix_unfold. unfold spec_from_str, radix_in.
  rewrite (rs_str_lo p S), (rs_str_hi p S).
  destruct ((2 <=? radix) && (radix <=? 36)) eqn:Hr; cbn [assert_ bind]; [|reflexivity].
  apply andb_true_iff in Hr as [H1 H2]. apply Z.leb_le in H1, H2.
  rewrite parse_tail_spec by (auto; lia).
  unfold strip_sign, split_sign, ch_plus.
  destruct s as [|b t]; [reflexivity|]. rewrite andb_false_r.
  destruct (Z.eqb_spec b 43) as [->|Hb]; cbn [snd omap bind].
  - destruct t as [|t0 t']; [reflexivity|].
    destruct (Z.eqb_spec t0 43) as [->|Ht]; [|destruct (body_parse radix (t0 :: t')); reflexivity].
    rewrite !body_parse_43. reflexivity.
  - destruct (b =? 45); destruct (body_parse radix (b :: t)); reflexivity.
Qed.

Lemma split_sign_false s :
  split_sign false s = (false, match s with c :: t => if c =? 43 then t else s | [] => s end).
Proof. destruct s as [|c t]; [reflexivity|]. unfold split_sign. rewrite andb_false_r. destruct (c =? 43); reflexivity. Qed.
Lemma split_sign_true s :
  split_sign true s = match s with
                      | c :: t => if c =? 43 then (false, t) else if c =? 45 then (true, t) else (false, s)
                      | [] => (false, s)
                      end.
Proof. destruct s as [|c t]; [reflexivity|]. unfold split_sign. rewrite andb_true_r. reflexivity. Qed.
Lemma pr_map_idf (X : parse_result Z) : pr_map (fun v : Z => if false then - v else v) X = X.
Proof. destruct X; reflexivity. Qed.

(** from_str_radix (BigInt) *)
Theorem ifrom_str_radix_spec p s radix : radix_std p ->
  ifrom_str_radix k_mac k_from_bits k_from_inexact p s radix
  = omap (pr_map ienc) (spec_from_str true s radix).
Proof.
  intros S. unfold ifrom_str_radix.
  destruct (strip_sign ch_minus s) as [neg s1] eqn:Es.
  rewrite from_str_radix_spec by auto. unfold spec_from_str.
  destruct (radix_in 2 36 radix) eqn:Hr; [|reflexivity].
  unfold radix_in in Hr. apply andb_true_iff in Hr as [H1 H2]. apply Z.leb_le in H1, H2.
  assert (HM : forall body,
            pr_map (from_biguint Minus) (pr_map enc (body_parse radix body))
            = pr_map ienc (pr_map (fun v => if true then - v else v) (body_parse radix body))).
  { intros body. unfold body_parse. destruct body as [|c0 rest]; [reflexivity|].
    destruct (body_ok radix (c0 :: rest)) eqn:Hok; [|reflexivity]. cbn [pr_map]. f_equal.
    rewrite from_biguint_ienc by apply enc_canon.
    rewrite enc_val by (apply body_value_nonneg; auto; lia). f_equal; try (cbn [sign_z]; lia). }
  assert (HP : forall body,
            pr_map (from_biguint Plus) (pr_map enc (body_parse radix body))
            = pr_map ienc (pr_map (fun v => if false then - v else v) (body_parse radix body))).
  { intros body. unfold body_parse. destruct body as [|c0 rest]; [reflexivity|].
    destruct (body_ok radix (c0 :: rest)) eqn:Hok; [|reflexivity]. cbn [pr_map]. f_equal.
    rewrite from_biguint_ienc by apply enc_canon.
    rewrite enc_val by (apply body_value_nonneg; auto; lia). f_equal; try (cbn [sign_z]; lia). }
  rewrite split_sign_false, split_sign_true. cbn [omap bind]. rewrite pr_map_idf.
  unfold strip_sign, ch_minus, ch_plus in Es.
  destruct s as [|b t].
  - injection Es as <- <-. reflexivity.
  - destruct (Z.eqb_spec b 45) as [->|Hb].
    + replace (45 =? 43) with false by reflexivity.
      destruct t as [|t0 t'].
      * injection Es as <- <-. reflexivity.
      * destruct (Z.eqb_spec t0 43) as [->|Ht]; injection Es as <- <-.
        -- replace (45 =? 43) with false by reflexivity.
           rewrite body_parse_45, body_parse_43. reflexivity.
        -- replace (t0 =? 43) with false by (symmetry; apply Z.eqb_neq; auto).
           rewrite HM. reflexivity.
    + injection Es as <- <-.
      destruct (Z.eqb_spec b 43) as [->|Hb2].
      * rewrite HP. reflexivity.
      * rewrite HP. reflexivity.
Qed.

(** parse_bytes: not UTF-8 → None; otherwise from_str_radix(..).ok() *)
Theorem parse_bytes_spec p buf radix : radix_std p ->
  parse_bytes k_mac k_from_bits k_from_inexact p buf radix
  = omap (option_map enc) (spec_parse_bytes false buf radix).
Proof.
  intros S. unfold parse_bytes, spec_parse_bytes. destruct (utf8_valid buf); [|reflexivity].
  rewrite from_str_radix_spec by auto.
  destruct (spec_from_str false buf radix) as [[v|e]|k|]; reflexivity.
Qed.
Theorem iparse_bytes_spec p buf radix : radix_std p ->
  iparse_bytes k_mac k_from_bits k_from_inexact p buf radix
  = omap (option_map ienc) (spec_parse_bytes true buf radix).
Proof.
  intros S. unfold iparse_bytes, spec_parse_bytes. destruct (utf8_valid buf); [|reflexivity].
  rewrite ifrom_str_radix_spec by auto.
  destruct (spec_from_str true buf radix) as [[v|e]|k|]; reflexivity.
Qed.

End FromStr.

(** * to_str_radix *)
Section ToStr.
Variable k_mul : list Z -> list Z -> outcome (list Z).
Variable k_divrem : list Z -> list Z -> outcome (list Z * list Z).
Variable k_divdig : list Z -> Z -> outcome (list Z * Z).
Variable k_to_bits k_to_inexact : list Z -> Z -> outcome (list Z).
Hypothesis H_mul : forall a b, canon a -> canon b -> k_mul a b = Ret (enc (val a * val b)).
Hypothesis H_divrem : forall a b, canon a -> canon b ->
  k_divrem a b = if val b =? 0 then Panic DivZero else Ret (enc (val a / val b), enc (val a mod val b)).
Hypothesis H_divdig : forall a b, wf a -> 0 < b < B -> k_divdig a b = Ret (enc (val a / b), val a mod b).
Hypothesis H_to_bits : forall u bits, (bits = 1 \/ bits = 2 \/ bits = 4 \/ bits = 8) -> canon u -> u <> [] ->
  k_to_bits u bits = Ret (le_digits (2 ^ bits) (val u)).
Hypothesis H_to_inexact : forall u bits, (bits = 3 \/ bits = 5 \/ bits = 6 \/ bits = 7) -> canon u -> u <> [] ->
  k_to_inexact u bits = Ret (le_digits (2 ^ bits) (val u)).

Lemma ascii_map_spec p radix l : radix_std p -> 2 <= radix <= 36 -> inb radix l ->
  ascii_map p radix l = Ret (map digit_char l).
Proof.
  intros S Hr; induction l as [|d l IH]; intros H; [reflexivity|].
  apply inb_cons in H as [Hd Hl]. cbn [ascii_map map].
  replace (d <? radix) with true by (symmetry; apply Z.ltb_lt; lia). cbn [assert_ bind].
  rewrite (rs_ten p S), (rs_digit0 p S), (rs_lettera p S).
  replace ((if d <? 10 then d + 48 else d + (97 - 10)) <? 256) with true
    by (symmetry; apply Z.ltb_lt; destruct (d <? 10); lia).
  cbn [assert_ bind]. rewrite IH by auto. cbn [bind]. unfold digit_char.
  do 2 f_equal. destruct (d <? 10); lia.
Qed.

Lemma to_str_radix_reversed_spec p u radix : radix_std p -> canon u ->
  to_str_radix_reversed k_mul k_divrem k_divdig k_to_bits k_to_inexact p u radix
  = if radix_in 2 36 radix then Ret (map digit_char (spec_to_radix_le (val u) radix))
    else Panic BadRadix.
Proof.
  intros S Cu. unfold to_str_radix_reversed, radix_in. rewrite (rs_str_lo p S), (rs_str_hi p S).
  destruct ((2 <=? radix) && (radix <=? 36)) eqn:Hr; cbn [assert_ bind]; [|reflexivity].
  apply andb_true_iff in Hr as [H1 H2]. apply Z.leb_le in H1, H2.
  destruct u as [|u0 u']; [reflexivity|].
  rewrite (to_radix_le_spec k_mul k_divrem k_divdig k_to_bits k_to_inexact
             H_mul H_divrem H_divdig H_to_bits H_to_inexact p (u0 :: u') radix S ltac:(lia) Cu).
  cbn [bind]. apply ascii_map_spec; [auto|lia|].
  apply spec_to_radix_le_props; [lia|apply val_nonneg, Cu].
Qed.

Theorem to_str_radix_spec p u radix : radix_std p -> canon u ->
  to_str_radix k_mul k_divrem k_divdig k_to_bits k_to_inexact p u radix = spec_to_str (val u) radix.
Proof.
  intros S Cu. unfold to_str_radix, spec_to_str. rewrite to_str_radix_reversed_spec by auto.
  destruct (radix_in 2 36 radix); [|reflexivity]. cbn [bind].
  pose proof (val_nonneg u (proj1 Cu)).
  replace (val u <? 0) with false by (symmetry; apply Z.ltb_ge; lia).
  rewrite Z.abs_eq by lia. reflexivity.
Qed.

Theorem ito_str_radix_spec p x radix : radix_std p -> icanon x ->
  ito_str_radix k_mul k_divrem k_divdig k_to_bits k_to_inexact p x radix = spec_to_str (ival x) radix.
Proof.
  intros S Cx. unfold ito_str_radix, spec_to_str.
  rewrite to_str_radix_reversed_spec by (auto; apply Cx).
  destruct (radix_in 2 36 radix); [|reflexivity]. cbn [bind].
  destruct (icanon_sign x Cx) as [Hs Hv]. rewrite Hv. f_equal.
  destruct x as [s m]; cbn [sg mag] in *. unfold ival; cbn [sg mag].
  pose proof (val_nonneg m (proj1 (proj1 Cx))) as Hm. cbn [sg mag] in Hm.
  destruct s; cbn [sign_eqb sign_z].
  - assert (Hn : m <> []) by (intros E; apply (proj2 Cx) in E; discriminate).
    pose proof (canon_val_pos m (proj1 Cx) Hn).
    replace (-1 * val m <? 0) with true by (symmetry; apply Z.ltb_lt; lia).
    rewrite rev_app_distr. reflexivity.
  - replace (0 * val m <? 0) with false by (symmetry; apply Z.ltb_ge; lia). reflexivity.
  - replace (1 * val m <? 0) with false by (symmetry; apply Z.ltb_ge; lia). reflexivity.
Qed.

(** the five formatters, relative to the pad_integral model *)
Lemma fmt_radix_in k : radix_in 2 36 (fmt_radix k) = true.
Proof. destruct k; reflexivity. Qed.

Theorem fmt_u_spec p k fl u : radix_std p -> canon u ->
  fmt_u k_mul k_divrem k_divdig k_to_bits k_to_inexact p k fl u = spec_fmt k fl (val u).
Proof.
  intros S Cu. unfold fmt_u, spec_fmt. rewrite to_str_radix_spec by auto.
  pose proof (val_nonneg u (proj1 Cu)). rewrite Z.abs_eq by lia.
  replace (0 <=? val u) with true by (symmetry; apply Z.leb_le; lia). reflexivity.
Qed.
Theorem fmt_i_spec p k fl x : radix_std p -> icanon x ->
  fmt_i k_mul k_divrem k_divdig k_to_bits k_to_inexact p k fl x = spec_fmt k fl (ival x).
Proof.
  intros S Cx. unfold fmt_i, spec_fmt. rewrite to_str_radix_spec by (auto; apply Cx).
  destruct (icanon_sign x Cx) as [Hs Hv]. rewrite Hv.
  replace (negb (sign_eqb (sg x) Minus)) with (0 <=? ival x); [reflexivity|].
  rewrite Hs. destruct (ival x); reflexivity.
Qed.

End ToStr.

(** * spec-level: ASCII-only output and the text round trip *)
Definition ascii_out (c : Z) : Prop := 48 <= c <= 57 \/ 97 <= c <= 122 \/ c = 45.

Theorem to_str_ascii z r s : spec_to_str z r = Ret s -> Forall ascii_out s.
Proof.
  unfold spec_to_str. destruct (radix_in 2 36 r) eqn:Hr; [|discriminate]. intros [= <-].
  unfold radix_in in Hr. apply andb_true_iff in Hr as [H1 H2]. apply Z.leb_le in H1, H2.
  apply Forall_app. split.
  - destruct (z <? 0); constructor; [unfold ascii_out; lia|constructor].
  - apply Forall_rev. apply Forall_forall. intros c Hc. apply in_map_iff in Hc as (d & <- & Hd).
    destruct (spec_to_radix_le_props (Z.abs z) r ltac:(lia) ltac:(lia)) as (_ & I & _).
    unfold inb in I. rewrite Forall_forall in I. specialize (I d Hd).
    destruct (digit_char_digit r d I H2) as (_ & _ & _ & Hrng). unfold ascii_out. lia.
Qed.

Lemma emitted_body r ds : 2 <= r <= 36 -> ds <> [] -> inb r ds ->
  let body := rev (map digit_char ds) in
  body_parse r body = POk (le_value r ds) /\
  (match body with c :: _ => (c =? 43) = false /\ (c =? 45) = false | [] => False end).
Proof.
  intros Hr Hne Hin body.
  assert (Hall : Forall (fun c => is_digit_of r c = true /\ (c =? 95) = false /\
                                  (48 <= c <= 57 \/ 97 <= c <= 122)) body).
  { unfold body. apply Forall_rev. apply Forall_forall. intros c Hc.
    apply in_map_iff in Hc as (d & <- & Hd). unfold inb in Hin. rewrite Forall_forall in Hin.
    destruct (digit_char_digit r d (Hin d Hd) ltac:(lia)) as (A & _ & C & D). auto. }
  assert (Hbd : body_digits body = rev ds).
  { unfold body_digits, body.
    assert (Hf : forall l, inb r l -> filter (fun c => negb (c =? 95)) (map digit_char l) = map digit_char l
                           /\ map digit_of (map digit_char l) = l).
    { induction l as [|d l IH]; intros Hl; [split; reflexivity|].
      apply inb_cons in Hl as [Hd Hl]. destruct (IH Hl) as [I1 I2].
      destruct (digit_char_digit r d Hd ltac:(lia)) as (_ & B0 & C & _).
      cbn [map filter]. rewrite C. cbn [negb]. rewrite I1. cbn [map]. rewrite B0, I2. split; reflexivity. }
    rewrite <- map_rev. destruct (Hf (rev ds) (inb_rev _ _ Hin)) as [F1 F2]. rewrite F1, F2. reflexivity. }
  assert (Hnb : body <> []).
  { unfold body. intros E. apply (f_equal (@rev Z)) in E. rewrite rev_involutive in E. cbn in E.
    destruct ds; [congruence|discriminate]. }
  destruct body as [|c0 rest] eqn:Eb; [congruence|].
  inversion Hall as [|? ? (A & C & D) Hrest]; subst.
  split.
  - unfold body_parse. rewrite body_ok_lang, A. cbn [andb].
    replace (forallb (lang_char r) rest) with true.
    + rewrite body_value_digits, Hbd, rev_involutive. reflexivity.
    + symmetry. apply forallb_forall. intros c Hc. rewrite Forall_forall in Hrest.
      destruct (Hrest c Hc) as (A' & _ & _). unfold lang_char. rewrite A'. apply orb_true_r.
  - split; apply Z.eqb_neq; lia.
Qed.

(** parsing any emitted text returns the original value *)
Theorem spec_str_roundtrip signed z r s : 2 <= r <= 36 -> (signed = true \/ 0 <= z) ->
  spec_to_str z r = Ret s -> spec_from_str signed s r = Ret (POk z).
Proof.
  intros Hr Hs. unfold spec_to_str, spec_from_str.
  replace (radix_in 2 36 r) with true
    by (symmetry; unfold radix_in; apply andb_true_iff; split; apply Z.leb_le; lia).
  intros [= <-].
  destruct (spec_to_radix_le_props (Z.abs z) r ltac:(lia) ltac:(lia)) as (Hne & I & V).
  destruct (emitted_body r _ Hr Hne I) as [Hp Hc]. cbv zeta in Hp, Hc.
  set (body := rev (map digit_char (spec_to_radix_le (Z.abs z) r))) in *.
  destruct (Z.ltb_spec z 0) as [Hneg|Hpos].
  - destruct Hs as [->|]; [|lia]. cbn [app split_sign].
    replace (45 =? 43) with false by reflexivity. cbn [Z.eqb andb].
    replace (Pos.eqb 45 45) with true by reflexivity. cbn [andb].
    rewrite Hp. cbn [pr_map]. rewrite V. do 2 f_equal. lia.
  - cbn [app]. destruct body as [|c0 rest]; [contradiction|]. destruct Hc as [C1 C2].
    unfold split_sign. rewrite C1, C2. cbn [andb]. rewrite Hp. cbn [pr_map]. rewrite V. do 2 f_equal. lia.
Qed.

(** Below the big-base threshold the multiplication kernel is never called. *)
Lemma to_str_radix_reversed_irrel k1 k2 kd kg kb ki p u radix : radix_std p -> zlen u < 64 ->
  to_str_radix_reversed k1 kd kg kb ki p u radix = to_str_radix_reversed k2 kd kg kb ki p u radix.
Proof.
  intros S Hl. unfold to_str_radix_reversed. destruct u as [|u0 u']; [reflexivity|].
  rewrite (to_radix_le_irrel k1 k2) by auto. reflexivity.
Qed.
Lemma to_str_radix_irrel k1 k2 kd kg kb ki p u radix : radix_std p -> zlen u < 64 ->
  to_str_radix k1 kd kg kb ki p u radix = to_str_radix k2 kd kg kb ki p u radix.
Proof. intros S Hl. unfold to_str_radix. rewrite (to_str_radix_reversed_irrel k1 k2) by auto. reflexivity. Qed.
Lemma ito_str_radix_irrel k1 k2 kd kg kb ki p x radix : radix_std p -> zlen (mag x) < 64 ->
  ito_str_radix k1 kd kg kb ki p x radix = ito_str_radix k2 kd kg kb ki p x radix.
Proof. intros S Hl. unfold ito_str_radix. rewrite (to_str_radix_reversed_irrel k1 k2) by auto. reflexivity. Qed.
Lemma fmt_u_irrel k1 k2 kd kg kb ki p k fl u : radix_std p -> zlen u < 64 ->
  fmt_u k1 kd kg kb ki p k fl u = fmt_u k2 kd kg kb ki p k fl u.
Proof. intros S Hl. unfold fmt_u. rewrite (to_str_radix_irrel k1 k2) by auto. reflexivity. Qed.
Lemma fmt_i_irrel k1 k2 kd kg kb ki p k fl x : radix_std p -> zlen (mag x) < 64 ->
  fmt_i k1 kd kg kb ki p k fl x = fmt_i k2 kd kg kb ki p k fl x.
Proof. intros S Hl. unfold fmt_i. rewrite (to_str_radix_irrel k1 k2) by auto. reflexivity. Qed.
