(* DivProofsApi.v — C03: `div_rem` / `div_rem_ref` (pre-checks, normalisation shift), the BigUint
   division API, its checked variants and the scalar forms. *)
From BigNum Require Import Base BaseLemmas X86 AddSub SpecAddSub AddSubProofs ShiftCore ShiftCoreProofs
  Div SpecDiv DivProofs DivProofsCore.
Open Scope Z_scope.

(** * small facts about [enc], lengths and top digits *)
Lemma enc_digit n : 0 < n < B -> enc n = [n].
Proof.
  intros H. rewrite <- (val_single n) at 1. apply enc_of_canon.
  change [n] with ([] ++ [n]). apply canon_app_last; [apply wf_nil|unfold digit; lia|lia].
Qed.

Lemma of_u64_enc n : 0 <= n < B -> of_u64 n = enc n.
Proof.
  intros H. unfold of_u64. destruct (Z.eqb_spec n 0) as [->|Hn]; [reflexivity|].
  symmetry; apply enc_digit; lia.
Qed.

Lemma of_u128_enc n : 0 <= n < B * B -> of_u128 n = enc n.
Proof.
  intros H. pose proof B_gt1 as HB. unfold of_u128.
  destruct (Z.eqb_spec n 0) as [->|Hn]; [reflexivity|].
  pose proof (Z.div_mod n B ltac:(lia)) as Hdm. pose proof (Z.mod_pos_bound n B ltac:(lia)) as Hm.
  assert (Hq : 0 <= n / B < B) by (split; [apply Z.div_pos; lia|apply Z.div_lt_upper_bound; lia]).
  destruct (Z.eqb_spec (n / B) 0) as [Hz|Hz].
  - rewrite Z.mod_small by (split; [lia|]; apply Z.div_small_iff in Hz; lia).
    symmetry. apply enc_digit. split; [lia|]. apply Z.div_small_iff in Hz; lia.
  - replace n with (val [n mod B; n / B]) at 3 by (rewrite val_two; lia).
    symmetry. apply enc_of_canon. change [n mod B; n / B] with ([n mod B] ++ [n / B]).
    apply canon_app_last; [apply wf_single; exact Hm|exact Hq|exact Hz].
Qed.

Lemma canon_len_mono a b : canon a -> canon b -> val b <= val a -> (length b <= length a)%nat.
Proof.
  intros Ca Cb Hv. destruct (Nat.le_gt_cases (length b) (length a)) as [H|H]; [exact H|exfalso].
  assert (Hb : b <> []) by (intros ->; cbn in H; lia).
  pose proof (canon_lower b Cb Hb) as Lb. pose proof (val_bound a (proj1 Ca)) as Ua.
  assert (B ^ Z.of_nat (length a) <= B ^ (Z.of_nat (length b) - 1))
    by (apply Z.pow_le_mono_r; pose proof B_gt1; lia).
  lia.
Qed.

Lemma canon_top l t : canon (l ++ [t]) -> wf l /\ 0 < t < B.
Proof.
  intros C. pose proof (proj1 C) as W. apply wf_app in W as [Wl Wt]. apply wf_cons in Wt as [Ht _].
  unfold digit in Ht. split; [exact Wl|].
  assert (Hne : l ++ [t] <> []) by (destruct l; discriminate).
  pose proof (canon_lower _ C Hne) as L. rewrite app_length, val_app, val_single in L. cbn [length] in L.
  replace (Z.of_nat (length l + 1) - 1) with (Z.of_nat (length l)) in L by lia.
  pose proof (val_bound l Wl). pose proof (B_pow_nat (length l)). nia.
Qed.

(** a value in [B^m * B/2, B^(m+1)) has m+1 canonical digits and a top digit >= B/2 *)
Lemma enc_top x m : B ^ Z.of_nat m * 2 ^ 63 <= x < B ^ Z.of_nat (S m) ->
  length (enc x) = S m /\ B <= 2 * last (enc x) 0.
Proof.
  intros Hx. pose proof B_gt1 as HB. pose proof (B_pow_nat m) as HP.
  assert (HB2 : B = 2 * 2 ^ 63) by (rewrite B_val; reflexivity).
  assert (Hx0 : 0 < x) by nia.
  pose proof (enc_canon x) as C. pose proof (enc_val x ltac:(lia)) as Vx.
  assert (Hne : enc x <> []) by (intros E; rewrite E in Vx; cbn in Vx; lia).
  pose proof (canon_lower _ C Hne) as L. pose proof (val_bound _ (proj1 C)) as U. rewrite Vx in L, U.
  assert (Hlen : length (enc x) = S m).
  { assert (Z.of_nat (length (enc x)) - 1 < Z.of_nat (S m)).
    { apply (Z.pow_lt_mono_r_iff B); lia. }
    assert (Z.of_nat m < Z.of_nat (length (enc x))).
    { apply (Z.pow_lt_mono_r_iff B); [lia|lia|]. nia. }
    lia. }
  split; [exact Hlen|].
  destruct (exists_last Hne) as (l & t & E). rewrite E in *. rewrite last_last.
  rewrite app_length in Hlen. cbn [length] in Hlen.
  rewrite val_app, val_single in Vx. replace (length l) with m in Vx by lia.
  pose proof (val_bound l (proj1 (proj1 (wf_app _ _) (proj1 C)))) as Ul.
  replace (length l) with m in Ul by lia. nia.
Qed.

(** * `AddAssign<u64>` leaf used by `div_rem` (remainder) and `div_ceil` *)
Lemma uadd_digit_spec ap a s : addsub_ok ap = true -> canon a -> 0 <= s < B ->
  uadd_digit ap a s = Ret (enc (val a + s)).
Proof.
  intros Hp Ca Hs. pose proof B_gt1 as HB. unfold uadd_digit.
  destruct (Z.eqb_spec s 0) as [->|Hn].
  - rewrite Z.add_0_r, enc_of_canon by auto. reflexivity.
  - set (a0 := match a with [] => [0] | _ :: _ => a end).
    assert (Wa0 : wf a0).
    { unfold a0. destruct a; [apply wf_single; unfold digit; lia|apply Ca]. }
    assert (Va0 : val a0 = val a) by (unfold a0; destruct a; cbn; lia).
    assert (La0 : (1 <= length a0)%nat) by (unfold a0; destruct a; cbn; lia).
    destruct (add2c_spec ap a0 [s] Hp Wa0 (wf_single s Hs) ltac:(cbn; lia)) as (a' & c & E & Wa' & La' & Bc & V).
    rewrite E. cbn [bind]. f_equal. rewrite val_single, Va0 in V.
    pose proof (val_bound a' Wa') as Ua'. rewrite La' in Ua'.
    set (P := B ^ Z.of_nat (length a0)) in *.
    destruct Bc as [-> | ->].
    + cbn [Z.eqb]. rewrite <- V. replace (val a' + P * 0) with (val a') by ring.
      symmetry. apply enc_of_canon.
      apply canon_of_lower; [exact Wa'|intros ->; cbn in La'; lia|].
      rewrite La'.
      destruct a as [|x a1].
      * unfold a0 in *. cbn [length] in *. change (Z.of_nat 1 - 1) with 0. rewrite Z.pow_0_r. cbn in V. lia.
      * assert (Hne : x :: a1 <> []) by discriminate.
        pose proof (canon_lower _ Ca Hne). unfold a0 in *. lia.
    + change (1 =? 0) with false. cbv iota.
      rewrite <- V. replace (val a' + P * 1) with (val (a' ++ [1])).
      2:{ rewrite val_app, val_single, La'. fold P. ring. }
      symmetry. apply enc_of_canon. apply canon_app_last; [exact Wa'|unfold digit; lia|lia].
Qed.

(** * `div_rem` / `div_rem_ref` *)
Lemma lz_bounds top : 0 < top < B -> 0 <= lz top <= 63 /\ 2 ^ (63 - lz top) <= top < 2 ^ (64 - lz top).
Proof.
  intros H. unfold lz. rewrite B_as_pow2 in H.
  pose proof (Z.log2_spec top ltac:(lia)) as [L U].
  assert (Z.log2 top < 64) by (apply Z.log2_lt_pow2; lia).
  pose proof (Z.log2_nonneg top).
  replace (63 - (63 - Z.log2 top)) with (Z.log2 top) by lia.
  replace (64 - (63 - Z.log2 top)) with (Z.succ (Z.log2 top)) by lia. lia.
Qed.

Lemma knuth_path_spec p a b : div_ok p = true -> canon a -> canon b ->
  (2 <= length b)%nat -> val b < val a ->
  knuth_path p a b = Ret (enc (val a / val b), enc (val a mod val b)).
Proof.
  intros Hok Ca Cb Hlb Hlt. pose proof B_gt1 as HB.
  destruct (div_ok_inv p Hok) as [_ _ _ _ _ _ _ Hsh _ _ _ _ _ _ _ _ _ _].
  assert (Hne : b <> []) by (intros ->; cbn in Hlb; lia).
  destruct (exists_last Hne) as (bl & top & Eb).
  pose proof Cb as Cb'. rewrite Eb in Cb'. apply canon_top in Cb' as [Wbl Htop].
  unfold knuth_path. rewrite Eb at 1. rewrite rev_app_distr. cbn [rev app].
  replace (top =? 0) with false by (symmetry; apply Z.eqb_neq; lia).
  rewrite Hsh. cbn [cmp_eval].
  destruct (lz_bounds top Htop) as [Hs Ht]. set (s := lz top) in *.
  assert (Lab : (length b <= length a)%nat) by (apply canon_len_mono; auto; lia).
  assert (Vb : val b = val bl + B ^ Z.of_nat (length bl) * top) by (rewrite Eb, val_app, val_single; ring).
  assert (Lb : length b = S (length bl)) by (rewrite Eb, app_length; cbn [length]; lia).
  pose proof (val_bound bl Wbl) as Ubl. set (P := B ^ Z.of_nat (length bl)) in *.
  assert (HP : 0 < P) by (unfold P; apply B_pow_nat).
  assert (HB2 : B = 2 * 2 ^ 63) by (rewrite B_val; reflexivity).
  destruct (Z.eqb_spec s 0) as [Hs0|Hs0].
  - (* already normalised *)
    rewrite Hs0 in Ht. change (63 - 0) with 63 in Ht.
    apply div_rem_core_spec; auto; try apply Ca; try apply Cb; try lia.
    rewrite Eb, last_last. lia.
  - assert (Hs1 : 0 < s <= 63) by lia.
    rewrite !ushl_spec by (try apply Ca; try apply Cb; lia).
    set (S2 := 2 ^ s). assert (HS2 : 0 < S2) by (unfold S2; apply Z.pow_pos_nonneg; lia).
    assert (Hb0 : 0 < val b) by nia.
    assert (Etop : 2 ^ 63 <= top * S2 < B).
    { unfold S2. replace (2 ^ 63) with (2 ^ (63 - s) * 2 ^ s) by (rewrite <- Z.pow_add_r by lia; f_equal; lia).
      rewrite (B_split s) by lia. nia. }
    destruct (enc_top (val b * S2) (length bl)) as [Lenc Htopenc].
    { rewrite Nat2Z.inj_succ, Z.pow_succ_r by lia. fold P. rewrite Vb.
      assert (Hup : (top + 1) * S2 <= B).
      { unfold S2. rewrite (B_split s) by lia. apply Z.mul_le_mono_nonneg_r; lia. }
      assert (H1 : val bl * S2 < P * S2) by (apply Z.mul_lt_mono_pos_r; lia).
      assert (H2 : P * (top * S2) >= P * 2 ^ 63) by nia.
      assert (H3 : P * ((top + 1) * S2) <= P * B) by (apply Z.mul_le_mono_nonneg_l; lia).
      split; nia. }
    rewrite div_rem_core_spec; auto using enc_wf.
    2:{ rewrite Lenc. split; [lia|]. rewrite <- Lb.
        apply Nat.le_trans with (length a); [exact Lab|].
        rewrite <- (enc_of_canon a Ca) at 1.
        pose proof (val_nonneg a (proj1 Ca)).
        apply canon_len_mono; auto using enc_canon.
        rewrite !enc_val by nia. nia. }
    rewrite !enc_val by (try nia; pose proof (val_nonneg a (proj1 Ca)); nia).
    cbn [bind]. rewrite ushr_spec by (auto using enc_wf; lia).
    pose proof (val_nonneg a (proj1 Ca)) as Ha0.
    rewrite Z.div_mul_cancel_r by lia.
    rewrite Z.mul_mod_distr_r by lia.
    rewrite enc_val by (pose proof (Z.mod_pos_bound (val a) (val b) Hb0); nia).
    fold S2. rewrite Z.div_mul by lia. reflexivity.
Qed.

Definition udr (a b : Z) : outcome (list Z * list Z) :=
  if b =? 0 then Panic DivZero else Ret (enc (a / b), enc (a mod b)).

Lemma canon_nonnil_pos l : canon l -> l <> [] -> 0 < val l.
Proof. apply canon_val_pos. Qed.

Lemma run_pre_std_spec p byval a b : div_ok p = true -> canon a -> canon b ->
  run_pre p byval std_pre a b = udr (val a) (val b).
Proof.
  intros Hok Ca Cb. pose proof B_gt1 as HB. unfold udr.
  pose proof (div_ok_inv p Hok) as F. destruct F as [Has _ _ _ _ _ _ _ _ _ _ _ _ _ _ _ _ _].
  unfold std_pre. cbn [run_pre].
  destruct b as [|d0 b'].
  { reflexivity. }
  assert (Hbne : d0 :: b' <> []) by discriminate.
  pose proof (canon_val_pos _ Cb Hbne) as Hbpos.
  cbn [is_zero]. replace (val (d0 :: b') =? 0) with false by (symmetry; apply Z.eqb_neq; lia).
  destruct a as [|x a'].
  { cbn [is_zero]. change (val []) with 0. rewrite Z.div_0_l, Z.mod_0_l by lia. reflexivity. }
  cbn [is_zero].
  assert (Hane : x :: a' <> []) by discriminate.
  pose proof (canon_val_pos _ Ca Hane) as Hapos.
  set (a := x :: a') in *. 
  destruct b' as [|d1 b''].
  - (* single-digit divisor *)
    rewrite val_single in *.
    assert (Hd0 : 0 < d0 < B).
    { pose proof (proj1 Cb) as W. apply wf_cons in W as [Hd _]. unfold digit in Hd. lia. }
    destruct (Z.eqb_spec d0 1) as [->|Hn1].
    + rewrite Z.div_1_r, Z.mod_1_r, enc_of_canon by auto. reflexivity.
    + rewrite div_rem_digit_spec by (try apply Ca; lia). cbn [bind].
      pose proof (Z.mod_pos_bound (val a) d0 ltac:(lia)) as Hm.
      destruct byval.
      * rewrite uadd_digit_spec by (auto using canon_nil; lia). cbn [bind val]. reflexivity.
      * rewrite of_u64_enc by lia. reflexivity.
  - set (b := d0 :: d1 :: b'') in *.
    rewrite cmp_slice_spec by auto. cbn [bind].
    destruct (Z.compare_spec (val a) (val b)) as [E|L|G].
    + rewrite E, Z.div_same, Z_mod_same_full by lia. rewrite enc_digit by lia. reflexivity.
    + rewrite Z.div_small, Z.mod_small by lia. rewrite enc_of_canon by auto. reflexivity.
    + apply knuth_path_spec; auto. unfold b; cbn [length]; lia.
Qed.

Theorem udivrem_spec p a b : div_ok p = true -> canon a -> canon b ->
  udivrem p a b = if val b =? 0 then Panic DivZero else Ret (enc (val a / val b), enc (val a mod val b)).
Proof.
  intros Hok Ca Cb. unfold udivrem. rewrite (dk_pre_ref p (div_ok_inv p Hok)).
  apply run_pre_std_spec; auto.
Qed.

Theorem udivrem_val_spec p a b : div_ok p = true -> canon a -> canon b ->
  udivrem_val p a b = if val b =? 0 then Panic DivZero else Ret (enc (val a / val b), enc (val a mod val b)).
Proof.
  intros Hok Ca Cb. unfold udivrem_val. rewrite (dk_pre_val p (div_ok_inv p Hok)).
  apply run_pre_std_spec; auto.
Qed.

(** ** refinement statements against SpecDiv *)
Definition enc2 (qr : Z * Z) : list Z * list Z := (enc (fst qr), enc (snd qr)).

Theorem udivrem_refines p a b : div_ok p = true -> canon a -> canon b ->
  udivrem p a b = omap enc2 (spec_udivrem (val a) (val b)).
Proof.
  intros. rewrite udivrem_spec by auto. unfold spec_udivrem, nz, omap.
  destruct (val b =? 0); reflexivity.
Qed.

Theorem udiv_spec p a b : div_ok p = true -> canon a -> canon b ->
  udiv p a b = omap enc (spec_udiv (val a) (val b)).
Proof.
  intros. unfold udiv. rewrite udivrem_spec by auto. unfold spec_udiv, nz, omap.
  destruct (val b =? 0); reflexivity.
Qed.

Theorem udiv_val_spec p a b : div_ok p = true -> canon a -> canon b ->
  udiv_val p a b = omap enc (spec_udiv (val a) (val b)).
Proof.
  intros. unfold udiv_val. rewrite udivrem_val_spec by auto. unfold spec_udiv, nz, omap.
  destruct (val b =? 0); reflexivity.
Qed.

Theorem umod_floor_spec p a b : div_ok p = true -> canon a -> canon b ->
  umod_floor p a b = omap enc (spec_urem (val a) (val b)).
Proof.
  intros. unfold umod_floor. rewrite udivrem_spec by auto. unfold spec_urem, nz, omap.
  destruct (val b =? 0); reflexivity.
Qed.

(** the `to_u32` short-cut *)
Lemma to_u32_some b v : canon b -> to_u32 b = Some v -> val b = v /\ 0 <= v < B.
Proof.
  intros Cb. unfold to_u32, to_u64. pose proof B_gt1.
  destruct b as [|d [|e b']]; try discriminate.
  - intros E. destruct (0 <? 2 ^ 32); inversion E. cbn. lia.
  - destruct (Z.ltb_spec d (2 ^ 32)); intros E; inversion E. subst v. rewrite val_single.
    pose proof (proj1 Cb) as W. apply wf_cons in W as [Hd _]. unfold digit in Hd. lia.
Qed.

Lemma urem_gen_spec p dr a b : div_ok p = true -> canon a -> canon b ->
  dr a b = udr (val a) (val b) ->
  urem_gen p dr a b = omap enc (spec_urem (val a) (val b)).
Proof.
  intros Hok Ca Cb Hdr. unfold urem_gen, spec_urem, nz, omap.
  rewrite (dk_short p (div_ok_inv p Hok)).
  destruct (to_u32 b) as [v|] eqn:E.
  - destruct (to_u32_some b v Cb E) as [Hv Hr]. rewrite Hv.
    destruct (Z.eqb_spec v 0) as [->|Hn]; [reflexivity|].
    rewrite rem_digit_spec by (try apply Ca; lia). cbn [bind].
    rewrite of_u64_enc; [reflexivity|]. pose proof (Z.mod_pos_bound (val a) v ltac:(lia)). lia.
  - rewrite Hdr. unfold udr. destruct (val b =? 0); reflexivity.
Qed.

Theorem urem_spec p a b : div_ok p = true -> canon a -> canon b ->
  urem p a b = omap enc (spec_urem (val a) (val b)).
Proof.
  intros. apply urem_gen_spec; auto. rewrite udivrem_spec by auto. reflexivity.
Qed.

Theorem urem_val_spec p a b : div_ok p = true -> canon a -> canon b ->
  urem_val p a b = omap enc (spec_urem (val a) (val b)).
Proof.
  intros. apply urem_gen_spec; auto. rewrite udivrem_val_spec by auto. reflexivity.
Qed.

Lemma ceil_pos a b : 0 <= a -> 0 < b ->
  - ((- a) / b) = if a mod b =? 0 then a / b else a / b + 1.
Proof.
  intros Ha Hb. destruct (Z.eqb_spec (a mod b) 0) as [E|E].
  - rewrite Z.div_opp_l_z by lia. lia.
  - rewrite Z.div_opp_l_nz by lia. lia.
Qed.

Theorem udiv_ceil_spec p a b : div_ok p = true -> canon a -> canon b ->
  udiv_ceil p a b = omap enc (spec_udiv_ceil (val a) (val b)).
Proof.
  intros Hok Ca Cb. unfold udiv_ceil. rewrite udivrem_spec by auto. unfold spec_udiv_ceil, nz, omap.
  pose proof (val_nonneg a (proj1 Ca)) as Ha. pose proof (val_nonneg b (proj1 Cb)) as Hb.
  destruct (Z.eqb_spec (val b) 0) as [E|E]; [reflexivity|]. cbn [bind].
  rewrite ceil_pos by lia.
  pose proof (Z.mod_pos_bound (val a) (val b) ltac:(lia)) as Hm.
  assert (Hq : 0 <= val a / val b) by (apply Z.div_pos; lia).
  destruct (Z.eqb_spec (val a mod val b) 0) as [Em|Em].
  - rewrite Em. reflexivity.
  - assert (Hne : enc (val a mod val b) <> []) by (intros H; apply enc_nil_iff in H; lia).
    destruct (enc (val a mod val b)) eqn:Ee; [contradiction|]. cbn [is_zero].
    rewrite uadd_digit_spec by (auto using enc_canon, (dk_as p (div_ok_inv p Hok)); pose proof B_gt1; lia).
    rewrite enc_val by lia. reflexivity.
Qed.

(** ** checked variants *)
Lemma is_zero_val b : canon b -> is_zero b = (val b =? 0).
Proof.
  intros Cb. destruct b; [reflexivity|]. cbn [is_zero]. symmetry. apply Z.eqb_neq.
  pose proof (canon_val_pos _ Cb ltac:(discriminate)). lia.
Qed.

Lemma guarded_spec {A C} (f : outcome A) (enc' : C -> A) z (r : C) :
  f = omap enc' (nz z r) ->
  guarded true (z =? 0) f = omap (option_map enc') (chk z r).
Proof.
  intros ->. unfold guarded, chk, nz, omap. cbn [andb]. destruct (z =? 0); reflexivity.
Qed.

Theorem uchecked_div_spec p a b : div_ok p = true -> canon a -> canon b ->
  uchecked_div p a b = omap (option_map enc) (spec_uchecked_div (val a) (val b)).
Proof.
  intros Hok Ca Cb. unfold uchecked_div. rewrite (dk_g1 p (div_ok_inv p Hok)), is_zero_val by auto.
  apply guarded_spec. apply udiv_spec; auto.
Qed.
Theorem uchecked_div_euclid_spec p a b : div_ok p = true -> canon a -> canon b ->
  uchecked_div_euclid p a b = omap (option_map enc) (spec_uchecked_div (val a) (val b)).
Proof.
  intros Hok Ca Cb. unfold uchecked_div_euclid. rewrite (dk_g2 p (div_ok_inv p Hok)), is_zero_val by auto.
  apply guarded_spec. apply udiv_spec; auto.
Qed.
Theorem uchecked_rem_euclid_spec p a b : div_ok p = true -> canon a -> canon b ->
  uchecked_rem_euclid p a b = omap (option_map enc) (spec_uchecked_rem (val a) (val b)).
Proof.
  intros Hok Ca Cb. unfold uchecked_rem_euclid. rewrite (dk_g3 p (div_ok_inv p Hok)), is_zero_val by auto.
  apply guarded_spec. apply urem_spec; auto.
Qed.
Theorem uchecked_div_rem_euclid_spec p a b : div_ok p = true -> canon a -> canon b ->
  uchecked_div_rem_euclid p a b = omap (option_map enc2) (spec_uchecked_divrem (val a) (val b)).
Proof.
  intros Hok Ca Cb. unfold uchecked_div_rem_euclid. rewrite (dk_g4 p (div_ok_inv p Hok)), is_zero_val by auto.
  apply guarded_spec. apply udivrem_refines; auto.
Qed.

(** * scalar forms *)
Lemma of_u64_canon s : 0 <= s < B -> canon (of_u64 s) /\ val (of_u64 s) = s.
Proof. intros H. rewrite of_u64_enc by auto. split; [apply enc_canon|apply enc_val; lia]. Qed.
Lemma of_u128_canon s : 0 <= s < B * B -> canon (of_u128 s) /\ val (of_u128 s) = s.
Proof. intros H. rewrite of_u128_enc by auto. split; [apply enc_canon|apply enc_val; lia]. Qed.

Theorem udiv_u32_spec p a s : canon a -> 0 <= s < B ->
  udiv_u32 p a s = omap enc (spec_udiv (val a) s).
Proof.
  intros Ca Hs. unfold udiv_u32, spec_udiv, nz, omap.
  destruct (Z.eqb_spec s 0) as [->|Hn]; [reflexivity|].
  rewrite div_rem_digit_spec by (try apply Ca; lia). reflexivity.
Qed.
Theorem urem_u32_spec p a s : canon a -> 0 <= s < B ->
  urem_u32 p a s = omap enc (spec_urem (val a) s).
Proof.
  intros Ca Hs. unfold urem_u32, spec_urem, nz, omap.
  destruct (Z.eqb_spec s 0) as [->|Hn]; [reflexivity|].
  rewrite rem_digit_spec by (try apply Ca; lia). cbn [bind].
  rewrite of_u64_enc; [reflexivity|]. pose proof (Z.mod_pos_bound (val a) s ltac:(lia)). lia.
Qed.
Theorem udiv_u64_spec p a s : div_ok p = true -> canon a -> 0 <= s < B ->
  udiv_u64 p a s = omap enc (spec_udiv (val a) s).
Proof.
  intros Hok Ca Hs. destruct (of_u64_canon s Hs) as [C V]. unfold udiv_u64.
  rewrite udivrem_val_spec, V by auto. unfold spec_udiv, nz, omap. destruct (s =? 0); reflexivity.
Qed.
Theorem urem_u64_spec p a s : div_ok p = true -> canon a -> 0 <= s < B ->
  urem_u64 p a s = omap enc (spec_urem (val a) s).
Proof.
  intros Hok Ca Hs. destruct (of_u64_canon s Hs) as [C V]. unfold urem_u64.
  rewrite udivrem_val_spec, V by auto. unfold spec_urem, nz, omap. destruct (s =? 0); reflexivity.
Qed.
Theorem udiv_u128_spec p a s : div_ok p = true -> canon a -> 0 <= s < B * B ->
  udiv_u128 p a s = omap enc (spec_udiv (val a) s).
Proof.
  intros Hok Ca Hs. destruct (of_u128_canon s Hs) as [C V]. unfold udiv_u128.
  rewrite udivrem_val_spec, V by auto. unfold spec_udiv, nz, omap. destruct (s =? 0); reflexivity.
Qed.
Theorem urem_u128_spec p a s : div_ok p = true -> canon a -> 0 <= s < B * B ->
  urem_u128 p a s = omap enc (spec_urem (val a) s).
Proof.
  intros Hok Ca Hs. destruct (of_u128_canon s Hs) as [C V]. unfold urem_u128.
  rewrite udivrem_val_spec, V by auto. unfold spec_urem, nz, omap. destruct (s =? 0); reflexivity.
Qed.

Lemma canon_two_lower d e l : canon (d :: e :: l) -> B <= val (d :: e :: l).
Proof.
  intros C. pose proof (canon_lower _ C ltac:(discriminate)) as L. cbn [length] in L.
  pose proof B_gt1.
  assert (B ^ 1 <= B ^ (Z.of_nat (S (S (length l))) - 1)) by (apply Z.pow_le_mono_r; lia).
  rewrite Z.pow_1_r in H0. lia.
Qed.
Lemma canon_three_lower d e f l : canon (d :: e :: f :: l) -> B * B <= val (d :: e :: f :: l).
Proof.
  intros C. pose proof (canon_lower _ C ltac:(discriminate)) as L. cbn [length] in L.
  pose proof B_gt1.
  assert (B ^ 2 <= B ^ (Z.of_nat (S (S (S (length l)))) - 1)) by (apply Z.pow_le_mono_r; lia).
  replace (B ^ 2) with (B * B) in H0 by ring. lia.
Qed.
Lemma canon_head_digit d l : canon (d :: l) -> 0 <= d < B.
Proof. intros C. pose proof (proj1 C) as W. apply wf_cons in W as [H _]. exact H. Qed.

Theorem digit_div_u_spec s b : canon b -> 0 <= s < B ->
  digit_div_u s b = omap enc (spec_scalar_div s (val b)).
Proof.
  intros Cb Hs. unfold digit_div_u, spec_scalar_div, nz, omap, prim_div.
  destruct b as [|d [|e l]].
  - reflexivity.
  - rewrite val_single. pose proof (canon_val_pos _ Cb ltac:(discriminate)) as Hp. rewrite val_single in Hp.
    replace (d =? 0) with false by (symmetry; apply Z.eqb_neq; lia). cbn [bind].
    rewrite of_u64_enc; [reflexivity|].
    split; [apply Z.div_pos; lia|]. apply Z.div_lt_upper_bound; nia.
  - pose proof (canon_two_lower d e l Cb).
    replace (val (d :: e :: l) =? 0) with false by (symmetry; apply Z.eqb_neq; lia). cbn [bind].
    rewrite Z.div_small by lia. reflexivity.
Qed.

Theorem u128_div_u_spec s b : canon b -> 0 <= s < B * B ->
  u128_div_u s b = omap enc (spec_scalar_div s (val b)).
Proof.
  intros Cb Hs. pose proof B_gt1 as HB. unfold u128_div_u, spec_scalar_div, nz, omap, prim_div.
  destruct b as [|d [|e [|f l]]].
  - reflexivity.
  - rewrite val_single. pose proof (canon_val_pos _ Cb ltac:(discriminate)) as Hp. rewrite val_single in Hp.
    replace (d =? 0) with false by (symmetry; apply Z.eqb_neq; lia). cbn [bind].
    rewrite of_u128_enc; [reflexivity|].
    split; [apply Z.div_pos; lia|]. apply Z.div_lt_upper_bound; nia.
  - pose proof (canon_two_lower d e [] Cb) as H2. rewrite val_two in *.
    replace (d + B * e =? 0) with false by (symmetry; apply Z.eqb_neq; lia). cbn [bind].
    rewrite of_u128_enc; [reflexivity|].
    split; [apply Z.div_pos; lia|]. apply Z.div_lt_upper_bound; nia.
  - pose proof (canon_three_lower d e f l Cb).
    replace (val (d :: e :: f :: l) =? 0) with false by (symmetry; apply Z.eqb_neq; lia). cbn [bind].
    rewrite Z.div_small by lia. reflexivity.
Qed.

Lemma scalar_rem_spec conv s b (lim : Z) : canon b -> 0 <= s < lim ->
  (forall v, conv b = Some v -> val b = v) -> (conv b = None -> lim <= val b) ->
  scalar_rem_u conv s b = nz (val b) (s mod val b).
Proof.
  intros Cb Hs Hsome Hnone. unfold scalar_rem_u, nz, prim_rem.
  destruct (conv b) as [v|] eqn:E.
  - rewrite (Hsome v eq_refl). reflexivity.
  - specialize (Hnone eq_refl). replace (val b =? 0) with false by (symmetry; apply Z.eqb_neq; lia).
    rewrite Z.mod_small by lia. reflexivity.
Qed.

Theorem u32_rem_u_spec s b : canon b -> 0 <= s < 2 ^ 32 ->
  u32_rem_u s b = omap enc (spec_scalar_rem s (val b)).
Proof.
  intros Cb Hs. pose proof B_gt1 as HB. unfold u32_rem_u, spec_scalar_rem.
  assert (H32 : 2 ^ 32 < B) by (rewrite B_val; reflexivity).
  rewrite (scalar_rem_spec to_u32 s b (2 ^ 32)); auto.
  - unfold nz, omap. destruct (Z.eqb_spec (val b) 0); [reflexivity|]. cbn [bind].
    pose proof (val_nonneg b (proj1 Cb)). pose proof (Z.mod_pos_bound s (val b) ltac:(lia)).
    assert (s mod val b <= s) by (apply Z.mod_le; lia).
    rewrite of_u64_enc by lia. reflexivity.
  - intros v E. apply (to_u32_some b v Cb E).
  - unfold to_u32, to_u64. destruct b as [|d [|e l]]; try discriminate.
    + rewrite val_single. destruct (Z.ltb_spec d (2 ^ 32)); [discriminate|lia].
    + intros _. pose proof (canon_two_lower d e l Cb). lia.
Qed.

Theorem u64_rem_u_spec s b : canon b -> 0 <= s < B ->
  u64_rem_u s b = omap enc (spec_scalar_rem s (val b)).
Proof.
  intros Cb Hs. pose proof B_gt1 as HB. unfold u64_rem_u, spec_scalar_rem.
  rewrite (scalar_rem_spec to_u64 s b B); auto.
  - unfold nz, omap. destruct (Z.eqb_spec (val b) 0); [reflexivity|]. cbn [bind].
    pose proof (val_nonneg b (proj1 Cb)). pose proof (Z.mod_pos_bound s (val b) ltac:(lia)).
    assert (s mod val b <= s) by (apply Z.mod_le; lia).
    rewrite of_u64_enc by lia. reflexivity.
  - unfold to_u64. destruct b as [|d [|e l]]; try discriminate; intros v E; inversion E; cbn; lia.
  - unfold to_u64. destruct b as [|d [|e l]]; try discriminate.
    intros _. apply (canon_two_lower d e l Cb).
Qed.

Theorem u128_rem_u_spec s b : canon b -> 0 <= s < B * B ->
  u128_rem_u s b = omap enc (spec_scalar_rem s (val b)).
Proof.
  intros Cb Hs. pose proof B_gt1 as HB. unfold u128_rem_u, spec_scalar_rem.
  rewrite (scalar_rem_spec to_u128 s b (B * B)); auto.
  - unfold nz, omap. destruct (Z.eqb_spec (val b) 0); [reflexivity|]. cbn [bind].
    pose proof (val_nonneg b (proj1 Cb)). pose proof (Z.mod_pos_bound s (val b) ltac:(lia)).
    assert (s mod val b <= s) by (apply Z.mod_le; lia).
    rewrite of_u128_enc by lia. reflexivity.
  - unfold to_u128. destruct b as [|d [|e [|f l]]]; try discriminate; intros v E; inversion E; cbn; lia.
  - unfold to_u128. destruct b as [|d [|e [|f l]]]; try discriminate.
    intros _. apply (canon_three_lower d e f l Cb).
Qed.
