(* PrimProofsFromFloat.v — C08: from_f64 / from_f32 truncate toward zero; None for NaN, inf
   (and for negative results into BigUint). *)
From BigNum Require Import Base BaseLemmas ShiftCore ShiftCoreProofs AddSub Prim SpecPrim PrimProofsCast PrimProofs PrimProofsFloat.
Open Scope Z_scope.

Definition f64_of (s E fr : Z) : Z := s * 2 ^ 63 + E * 2 ^ 52 + fr.
Definition fields64_ok (s E fr : Z) : Prop := (s = 0 \/ s = 1) /\ 0 <= E < 2048 /\ 0 <= fr < 2 ^ 52.

Lemma f64_decompose b : 0 <= b < 2 ^ 64 ->
  exists s E fr, fields64_ok s E fr /\ b = f64_of s E fr.
Proof.
  intros H. exists (b / 2 ^ 63), ((b / 2 ^ 52) mod 2048), (b mod 2 ^ 52).
  unfold fields64_ok, f64_of. pow_consts. pow_consts. change (2 ^ 64) with 18446744073709551616 in H.
  change (2 ^ 63) with 9223372036854775808. change (2 ^ 52) with 4503599627370496. lia.
Qed.

Lemma f64_fields s E fr : fields64_ok s E fr ->
  f_sign F64 (f64_of s E fr) = s /\ f_expf F64 (f64_of s E fr) = E /\ f_frac F64 (f64_of s E fr) = fr.
Proof.
  intros (Hs & HE & Hfr). unfold f_sign, f_expf, f_frac, f_signbit, f_fb, f64_of. cbn [F64 f_prec f_ew].
  change (53 - 1) with 52. change (52 + 11) with 63.
  change (2 ^ 63) with 9223372036854775808 in *. change (2 ^ 52) with 4503599627370496 in *.
  change (2 ^ 11) with 2048. lia.
Qed.

Lemma decode_fields s E fr : fields64_ok s E fr ->
  integer_decode_f64 (f64_of s E fr) =
  ((if E =? 0 then 2 * fr else fr + 2 ^ 52), E - 1075, if s =? 0 then 1 else -1).
Proof.
  intros (Hs & HE & Hfr). unfold integer_decode_f64.
  change 2047 with (Z.ones 11). change 4503599627370495 with (Z.ones 52).
  rewrite !Z.land_ones by lia. unfold f64_of.
  change (2 ^ 63) with 9223372036854775808 in *. change (2 ^ 52) with 4503599627370496 in *.
  change (2 ^ 11) with 2048.
  replace ((s * 9223372036854775808 + E * 4503599627370496 + fr) / 9223372036854775808) with s by lia.
  replace (((s * 9223372036854775808 + E * 4503599627370496 + fr) / 4503599627370496) mod 2048) with E by lia.
  replace ((s * 9223372036854775808 + E * 4503599627370496 + fr) mod 4503599627370496) with fr by lia.
  assert (Hm : (if E =? 0 then (fr * 2) mod B else Z.lor fr 4503599627370496) =
               (if E =? 0 then 2 * fr else fr + 4503599627370496)).
  { destruct (Z.eqb_spec E 0).
    - rewrite Z.mod_small by (rewrite B_val; lia). lia.
    - rewrite Z.lor_comm. change 4503599627370496 with (2 ^ 52).
      rewrite (lor_disjoint (2 ^ 52) fr 52); [lia|lia|apply Z.mod_same; lia|change (2 ^ 52) with 4503599627370496; lia]. }
  rewrite Hm. replace (E - (1023 + 52)) with (E - 1075) by lia. reflexivity.
Qed.

Lemma f64_consts : f_bias F64 = 1023 /\ f_fb F64 = 52 /\ f_emask F64 = 2047 /\ f_signbit F64 = 2 ^ 63.
Proof. repeat split; reflexivity. Qed.

Lemma f64_of_mod_pow k s E fr : 0 <= k <= 52 ->
  (f64_of s E fr) mod 2 ^ k = fr mod 2 ^ k.
Proof.
  intros Hk. unfold f64_of.
  replace (2 ^ 63) with (2 ^ (63 - k) * 2 ^ k) by (rewrite <- Z.pow_add_r by lia; f_equal; lia).
  replace (2 ^ 52) with (2 ^ (52 - k) * 2 ^ k) by (rewrite <- Z.pow_add_r by lia; f_equal; lia).
  replace (s * (2 ^ (63 - k) * 2 ^ k) + E * (2 ^ (52 - k) * 2 ^ k) + fr)
    with (fr + (s * 2 ^ (63 - k) + E * 2 ^ (52 - k)) * 2 ^ k) by ring.
  apply Z.mod_add. apply Z.pow_nonzero; lia.
Qed.

Lemma f_trunc_fields s E fr : fields64_ok s E fr ->
  f_trunc F64 (f64_of s E fr) =
  if E <? 1023 then f64_of s 0 0
  else if 1075 <=? E then f64_of s E fr
  else f64_of s E (fr - fr mod 2 ^ (1075 - E)).
Proof.
  intros Hf. destruct (f64_fields s E fr Hf) as (Hs & HE & Hfr).
  destruct f64_consts as (Hb & Hfb & _ & Hsb).
  unfold f_trunc. rewrite HE, Hs, Hb, Hfb, Hsb.
  destruct (Z.ltb_spec E 1023); [unfold f64_of; lia|].
  replace (1023 + 52) with 1075 by lia.
  destruct (Z.leb_spec 1075 E); [reflexivity|].
  replace (52 - (E - 1023)) with (1075 - E) by lia.
  rewrite f64_of_mod_pow by lia. unfold f64_of. lia.
Qed.

Lemma spec_trunc_fields s E fr : fields64_ok s E fr ->
  spec_float_trunc 53 11 (f64_of s E fr) =
  if E =? 2047 then None
  else
    let m := if E =? 0 then fr else fr + 2 ^ 52 in
    let e := Z.max E 1 - 1075 in
    let t := if 0 <=? e then m * 2 ^ e else m / 2 ^ (- e) in
    Some (if s =? 0 then t else - t).
Proof.
  intros (Hs & HE & Hfr). unfold spec_float_trunc, f64_of.
  change (53 - 1) with 52. change (52 + 11) with 63. change (2 ^ (11 - 1) - 1) with 1023. change (2 ^ 11 - 1) with 2047.
  change (2 ^ 63) with 9223372036854775808 in *. change (2 ^ 52) with 4503599627370496 in *.
  change (2 ^ 11) with 2048.
  replace ((s * 9223372036854775808 + E * 4503599627370496 + fr) / 9223372036854775808) with s by lia.
  replace (((s * 9223372036854775808 + E * 4503599627370496 + fr) / 4503599627370496) mod 2048) with E by lia.
  replace ((s * 9223372036854775808 + E * 4503599627370496 + fr) mod 4503599627370496) with fr by lia.
  replace (Z.max E 1 - 1023 - 52) with (Z.max E 1 - 1075) by lia. reflexivity.
Qed.

Lemma fields_trunc_ok s E fr k : fields64_ok s E fr -> 0 <= k -> fields64_ok s E (fr - fr mod 2 ^ k).
Proof.
  intros (Hs & HE & Hfr) Hk. split; [exact Hs|split; [exact HE|]].
  assert (0 < 2 ^ k) by (apply Z.pow_pos_nonneg; lia).
  pose proof (Z.mod_pos_bound fr (2 ^ k) H). pose proof (Z.mod_le fr (2 ^ k) ltac:(lia) H). lia.
Qed.

Lemma div_trunc_low fr k : 0 <= k <= 52 ->
  (fr - fr mod 2 ^ k + 2 ^ 52) / 2 ^ k = (fr + 2 ^ 52) / 2 ^ k.
Proof.
  intros Hk. assert (HP : 0 < 2 ^ k) by (apply Z.pow_pos_nonneg; lia).
  replace (2 ^ 52) with (2 ^ (52 - k) * 2 ^ k) by (rewrite <- Z.pow_add_r by lia; f_equal; lia).
  rewrite !Z.div_add by lia. f_equal.
  rewrite (Z.div_mod fr (2 ^ k)) at 1 by lia.
  replace (2 ^ k * (fr / 2 ^ k) + fr mod 2 ^ k - fr mod 2 ^ k) with ((fr / 2 ^ k) * 2 ^ k) by ring.
  apply Z.div_mul. lia.
Qed.

(** from_f64 for BigUint, on the decomposed bit pattern *)
Lemma ufrom_f64_fields s E fr : fields64_ok s E fr ->
  ufrom_f64 (f64_of s E fr) = Ret (option_map enc (spec_ufrom_float 53 11 (f64_of s E fr))).
Proof.
  intros Hf. pose proof Hf as (Hs & HE & Hfr).
  destruct (f64_fields s E fr Hf) as (Hsg & Hex & Hfrac).
  destruct f64_consts as (Hb & Hfb & Hem & Hsb).
  change (2 ^ 52) with 4503599627370496 in Hfr.
  unfold ufrom_f64, spec_ufrom_float, f_is_finite. rewrite Hex, Hem, spec_trunc_fields by exact Hf.
  destruct (Z.eqb_spec E 2047) as [HE2|HE2]; [reflexivity|]. cbn [negb].
  rewrite f_trunc_fields by exact Hf. cbv zeta.
  destruct (Z.ltb_spec E 1023) as [Hlo|Hlo].
  - (* |x| < 1 : zero *)
    unfold f_is_zero. rewrite Hsb. replace (f64_of s 0 0 mod 2 ^ 63) with 0
      by (unfold f64_of; destruct Hs as [->| ->]; reflexivity). cbn [Z.eqb].
    destruct (Z.leb_spec 0 (Z.max E 1 - 1075)); [lia|].
    assert (Hm : 0 <= (if E =? 0 then fr else fr + 4503599627370496) < 2 ^ 53)
      by (change (2 ^ 53) with 9007199254740992; destruct (E =? 0); lia).
    assert (2 ^ 53 <= 2 ^ (- (Z.max E 1 - 1075))) by (apply Z.pow_le_mono_r; lia).
    change (2 ^ 52) with 4503599627370496.
    rewrite Z.div_small by lia.
    destruct (Z.eqb_spec s 0); reflexivity.
  - assert (Hnz : E =? 0 = false) by (apply Z.eqb_neq; lia). rewrite Hnz.
    replace (Z.max E 1) with E by lia.
    destruct (Z.leb_spec 1075 E) as [Hhi|Hhi].
    + (* integer already *)
      unfold f_is_zero. rewrite Hsb.
      assert (Hmod : f64_of s E fr mod 2 ^ 63 <> 0).
      { unfold f64_of. change (2 ^ 63) with 9223372036854775808. change (2 ^ 52) with 4503599627370496. lia. }
      destruct (Z.eqb_spec (f64_of s E fr mod 2 ^ 63) 0); [contradiction|].
      rewrite decode_fields by exact Hf. rewrite Hnz.
      destruct (Z.leb_spec 0 (E - 1075)); [|lia].
      assert (Hpos : 0 < (fr + 2 ^ 52) * 2 ^ (E - 1075))
        by (apply Z.mul_pos_pos; [change (2 ^ 52) with 4503599627370496; lia|apply Z.pow_pos_nonneg; lia]).
      destruct Hs as [-> | ->]; cbn [Z.eqb].
      * rewrite ufrom_u64_spec by (rewrite B_val; change (2 ^ 52) with 4503599627370496; lia). cbn [bind].
        destruct (Z.ltb_spec ((fr + 2 ^ 52) * 2 ^ (E - 1075)) 0); [lia|]. cbn [option_map].
        destruct (Z.compare_spec (E - 1075) 0) as [He|He|He]; try lia.
        -- rewrite He. change (2 ^ 0) with 1. rewrite Z.mul_1_r. reflexivity.
        -- rewrite ushl_spec by (try apply enc_wf; lia).
           rewrite enc_val by (change (2 ^ 52) with 4503599627370496; lia). reflexivity.
      * destruct (Z.ltb_spec (- ((fr + 2 ^ 52) * 2 ^ (E - 1075))) 0); [reflexivity|lia].
    + (* fraction bits to clear *)
      set (k := 1075 - E). assert (Hk : 1 <= k <= 52) by (unfold k; lia).
      pose proof (fields_trunc_ok s E fr k Hf ltac:(lia)) as Hf'.
      set (fr' := fr - fr mod 2 ^ k) in *.
      pose proof Hf' as (_ & _ & Hfr'). change (2 ^ 52) with 4503599627370496 in Hfr'.
      unfold f_is_zero. rewrite Hsb.
      assert (Hmod : f64_of s E fr' mod 2 ^ 63 <> 0).
      { unfold f64_of. change (2 ^ 63) with 9223372036854775808. change (2 ^ 52) with 4503599627370496. lia. }
      destruct (Z.eqb_spec (f64_of s E fr' mod 2 ^ 63) 0); [contradiction|].
      rewrite decode_fields by exact Hf'. rewrite Hnz.
      destruct (Z.leb_spec 0 (E - 1075)); [lia|].
      replace (- (E - 1075)) with k by (unfold k; lia).
      assert (HP : 0 < 2 ^ k) by (apply Z.pow_pos_nonneg; lia).
      assert (Hge1 : 1 <= (fr + 2 ^ 52) / 2 ^ k).
      { apply Z.div_le_lower_bound; [lia|]. rewrite Z.mul_1_r.
        assert (2 ^ k <= 2 ^ 52) by (apply Z.pow_le_mono_r; lia). lia. }
      destruct Hs as [-> | ->]; cbn [Z.eqb].
      * rewrite ufrom_u64_spec by (rewrite B_val; change (2 ^ 52) with 4503599627370496; lia). cbn [bind].
        destruct (Z.ltb_spec ((fr + 2 ^ 52) / 2 ^ k) 0); [lia|]. cbn [option_map].
        destruct (Z.compare_spec (E - 1075) 0) as [He|He|He]; try lia.
        rewrite ushr_spec by (try apply enc_wf; lia).
        rewrite enc_val by (change (2 ^ 52) with 4503599627370496; lia).
        replace (- (E - 1075)) with k by (unfold k; lia).
        unfold fr'. rewrite div_trunc_low by lia. reflexivity.
      * destruct (Z.ltb_spec (- ((fr + 2 ^ 52) / 2 ^ k)) 0); [reflexivity|lia].
Qed.

Theorem ufrom_f64_spec b : 0 <= b < 2 ^ 64 ->
  ufrom_f64 b = Ret (option_map enc (spec_ufrom_float 53 11 b)).
Proof.
  intros H. destruct (f64_decompose b H) as (s & E & fr & Hf & ->). apply ufrom_f64_fields. exact Hf.
Qed.

(** * BigInt *)
Lemma ineg_ienc z : ineg (ienc z) = ienc (- z).
Proof. destruct z; reflexivity. Qed.

Definition mag64 (E fr : Z) : Z :=
  let m := if E =? 0 then fr else fr + 2 ^ 52 in
  let e := Z.max E 1 - 1075 in
  if 0 <=? e then m * 2 ^ e else m / 2 ^ (- e).

Lemma mag64_nonneg E fr : 0 <= fr -> 0 <= mag64 E fr.
Proof.
  intros H. unfold mag64. cbv zeta.
  assert (0 <= (if E =? 0 then fr else fr + 2 ^ 52)) by (change (2 ^ 52) with 4503599627370496; destruct (E =? 0); lia).
  destruct (Z.leb_spec 0 (Z.max E 1 - 1075)).
  - apply Z.mul_nonneg_nonneg; [assumption|apply Z.pow_nonneg; lia].
  - apply Z.div_pos; [assumption|apply Z.pow_pos_nonneg; lia].
Qed.

Lemma f_neg_fields s E fr : fields64_ok s E fr -> f_neg F64 (f64_of s E fr) = f64_of (1 - s) E fr.
Proof.
  intros (Hs & HE & Hfr). unfold f_neg. destruct f64_consts as (_ & _ & _ & ->). unfold f64_of.
  change (2 ^ 63) with 9223372036854775808 in *. change (2 ^ 52) with 4503599627370496 in *.
  destruct Hs as [-> | ->]; leb_cases; lia.
Qed.

Lemma ifrom_f64_fields s E fr : fields64_ok s E fr ->
  ifrom_f64 (f64_of s E fr) = Ret (option_map ienc (spec_ifrom_float 53 11 (f64_of s E fr))).
Proof.
  intros Hf. pose proof Hf as (Hs & HE & Hfr).
  assert (Hf' : fields64_ok (1 - s) E fr) by (split; [lia|split; assumption]).
  destruct (f64_fields s E fr Hf) as (Hsg & Hex & Hfrac).
  destruct f64_consts as (Hb & Hfb & Hem & Hsb).
  pose proof (mag64_nonneg E fr ltac:(lia)) as Hmag.
  unfold ifrom_f64, spec_ifrom_float.
  rewrite f_neg_fields by exact Hf. rewrite !ufrom_f64_fields by assumption. cbn [bind].
  unfold spec_ufrom_float. rewrite !spec_trunc_fields by assumption. cbv zeta.
  unfold mag64 in Hmag. cbv zeta in Hmag.
  destruct (Z.eqb_spec E 2047) as [HE2|HE2]; [destruct (f_ge0 F64 _); reflexivity|].
  match type of Hmag with 0 <= ?x => set (t := x) in * end.
  unfold f_ge0, f_is_nan, f_is_zero. rewrite Hex, Hem, Hsg, Hsb.
  destruct (Z.eqb_spec E 2047); [contradiction|]. cbn [andb negb].
  destruct Hs as [-> | ->]; cbn [Z.eqb orb Z.sub Z.opp Z.add Z.pos_sub].
  - destruct (Z.ltb_spec t 0); [lia|]. cbn [option_map].
    rewrite ifrom_biguint_spec by apply enc_canon. rewrite enc_val by lia. reflexivity.
  - destruct (Z.eqb_spec (f64_of 1 E fr mod 2 ^ 63) 0) as [Hz|Hz].
    + assert (HE0 : E = 0 /\ fr = 0).
      { unfold f64_of in Hz. change (2 ^ 63) with 9223372036854775808 in Hz. change (2 ^ 52) with 4503599627370496 in *. lia. }
      destruct HE0 as [-> ->]. reflexivity.
    + destruct (Z.ltb_spec t 0); [lia|]. cbn [option_map].
      rewrite ifrom_biguint_spec by apply enc_canon. rewrite enc_val by lia. rewrite ineg_ienc. reflexivity.
Qed.

Theorem ifrom_f64_spec b : 0 <= b < 2 ^ 64 ->
  ifrom_f64 b = Ret (option_map ienc (spec_ifrom_float 53 11 b)).
Proof.
  intros H. destruct (f64_decompose b H) as (s & E & fr & Hf & ->). apply ifrom_f64_fields. exact Hf.
Qed.

(** * f32: widening to f64 is exact (at the level the conversion observes) *)
Definition f32_of (s E fr : Z) : Z := s * 2 ^ 31 + E * 2 ^ 23 + fr.
Definition fields32_ok (s E fr : Z) : Prop := (s = 0 \/ s = 1) /\ 0 <= E < 256 /\ 0 <= fr < 2 ^ 23.

Lemma f32_decompose g : 0 <= g < 2 ^ 32 ->
  exists s E fr, fields32_ok s E fr /\ g = f32_of s E fr.
Proof.
  intros H. exists (g / 2 ^ 31), ((g / 2 ^ 23) mod 256), (g mod 2 ^ 23).
  unfold fields32_ok, f32_of. change (2 ^ 32) with 4294967296 in H.
  change (2 ^ 31) with 2147483648. change (2 ^ 23) with 8388608. lia.
Qed.

Lemma spec_trunc_fields32 s E fr : fields32_ok s E fr ->
  spec_float_trunc 24 8 (f32_of s E fr) =
  if E =? 255 then None
  else
    let m := if E =? 0 then fr else fr + 2 ^ 23 in
    let e := Z.max E 1 - 150 in
    let t := if 0 <=? e then m * 2 ^ e else m / 2 ^ (- e) in
    Some (if s =? 0 then t else - t).
Proof.
  intros (Hs & HE & Hfr). unfold spec_float_trunc, f32_of.
  change (24 - 1) with 23. change (23 + 8) with 31. change (2 ^ (8 - 1) - 1) with 127. change (2 ^ 8 - 1) with 255.
  change (2 ^ 31) with 2147483648 in *. change (2 ^ 23) with 8388608 in *. change (2 ^ 8) with 256.
  replace ((s * 2147483648 + E * 8388608 + fr) / 2147483648) with s by lia.
  replace (((s * 2147483648 + E * 8388608 + fr) / 8388608) mod 256) with E by lia.
  replace ((s * 2147483648 + E * 8388608 + fr) mod 8388608) with fr by lia.
  replace (Z.max E 1 - 127 - 23) with (Z.max E 1 - 150) by lia. reflexivity.
Qed.

Lemma f32_to_f64_fields s E fr : fields32_ok s E fr ->
  f32_to_f64 (f32_of s E fr) =
  f64_of s
    (if E =? 255 then 2047 else if E =? 0 then (if fr =? 0 then 0 else Z.log2 fr + 1 + 873) else E + 896)
    (if E =? 255 then fr * 2 ^ 29
     else if E =? 0 then (if fr =? 0 then 0 else fr * 2 ^ (53 - (Z.log2 fr + 1)) - 2 ^ 52)
     else fr * 2 ^ 29).
Proof.
  intros (Hs & HE & Hfr). unfold f32_to_f64, f_sign, f_expf, f_frac, f_signbit, f_fb, f32_of, f64_of.
  cbn [F32 f_prec f_ew]. change (24 - 1) with 23. change (23 + 8) with 31.
  change (2 ^ 31) with 2147483648 in *. change (2 ^ 23) with 8388608 in *. change (2 ^ 8) with 256.
  replace ((s * 2147483648 + E * 8388608 + fr) / 2147483648) with s by lia.
  replace (((s * 2147483648 + E * 8388608 + fr) / 8388608) mod 256) with E by lia.
  replace ((s * 2147483648 + E * 8388608 + fr) mod 8388608) with fr by lia.
  destruct (Z.eqb_spec E 255); [lia|]. destruct (Z.eqb_spec E 0); [|lia].
  destruct (Z.eqb_spec fr 0); lia.
Qed.

Lemma f32_widen_trunc s E fr : fields32_ok s E fr ->
  0 <= f32_to_f64 (f32_of s E fr) < 2 ^ 64 /\
  spec_float_trunc 53 11 (f32_to_f64 (f32_of s E fr)) = spec_float_trunc 24 8 (f32_of s E fr).
Proof.
  intros Hf. pose proof Hf as (Hs & HE & Hfr). change (2 ^ 23) with 8388608 in Hfr.
  rewrite f32_to_f64_fields, spec_trunc_fields32 by exact Hf.
  assert (Hrange : forall E' fr', fields64_ok s E' fr' -> 0 <= f64_of s E' fr' < 2 ^ 64).
  { intros E' fr' (_ & HE' & Hfr'). unfold f64_of. change (2 ^ 64) with 18446744073709551616.
    change (2 ^ 63) with 9223372036854775808. change (2 ^ 52) with 4503599627370496 in *. lia. }
  destruct (Z.eqb_spec E 255) as [HE255|HE255].
  - (* inf / NaN *)
    assert (Hf' : fields64_ok s 2047 (fr * 2 ^ 29)).
    { split; [exact Hs|split; [lia|]]. change (2 ^ 29) with 536870912. change (2 ^ 52) with 4503599627370496. lia. }
    split; [apply Hrange; exact Hf'|]. rewrite spec_trunc_fields by exact Hf'. reflexivity.
  - destruct (Z.eqb_spec E 0) as [HE0|HE0].
    + destruct (Z.eqb_spec fr 0) as [Hfr0|Hfr0].
      * (* zero *)
        assert (Hf' : fields64_ok s 0 0) by (split; [exact Hs|split; [lia|change (2 ^ 52) with 4503599627370496; lia]]).
        split; [apply Hrange; exact Hf'|]. rewrite spec_trunc_fields by exact Hf'. subst. reflexivity.
      * (* subnormal: both truncate to zero *)
        assert (Hfrp : 0 < fr) by lia.
        destruct (blen_bounds fr Hfrp) as [HL0 [HLlo HLhi]].
        assert (HLdef : Z.log2 fr + 1 = blen fr) by (unfold blen; destruct (Z.leb_spec fr 0); [lia|reflexivity]).
        rewrite HLdef. set (L := blen fr) in *.
        assert (HL23 : L <= 23).
        { destruct (Z_le_gt_dec L 23); [assumption|exfalso].
          assert (2 ^ 23 <= 2 ^ (L - 1)) by (apply Z.pow_le_mono_r; lia). change (2 ^ 23) with 8388608 in *. lia. }
        assert (Hsc : 0 < 2 ^ (53 - L)) by (apply Z.pow_pos_nonneg; lia).
        assert (Hlo52 : 2 ^ 52 <= fr * 2 ^ (53 - L)).
        { replace 52 with ((L - 1) + (53 - L)) at 1 by lia. rewrite Z.pow_add_r by lia.
          apply Z.mul_le_mono_nonneg_r; lia. }
        assert (Hhi53 : fr * 2 ^ (53 - L) < 2 ^ 53).
        { replace 53 with (L + (53 - L)) at 2 by lia. rewrite Z.pow_add_r by lia.
          apply Z.mul_lt_mono_pos_r; lia. }
        assert (Hf' : fields64_ok s (L + 873) (fr * 2 ^ (53 - L) - 2 ^ 52)).
        { split; [exact Hs|split; [lia|]]. change (2 ^ 53) with (2 * 2 ^ 52) in Hhi53. lia. }
        split; [apply Hrange; exact Hf'|]. rewrite spec_trunc_fields by exact Hf'. subst E. cbv zeta.
        destruct (Z.eqb_spec (L + 873) 2047); [lia|]. destruct (Z.eqb_spec (L + 873) 0); [lia|].
        cbn [Z.eqb]. replace (Z.max (L + 873) 1) with (L + 873) by lia. replace (Z.max 0 1 - 150) with (-149) by lia.
        destruct (Z.leb_spec 0 (L + 873 - 1075)); [lia|]. cbn [Z.leb Z.opp].
        replace (fr * 2 ^ (53 - L) - 2 ^ 52 + 2 ^ 52) with (fr * 2 ^ (53 - L)) by lia.
        assert (2 ^ 53 <= 2 ^ (- (L + 873 - 1075))) by (apply Z.pow_le_mono_r; lia).
        rewrite Z.div_small by lia.
        rewrite Z.div_small by (change (2 ^ 149) with 713623846352979940529142984724747568191373312; lia).
        reflexivity.
    + (* normal *)
      assert (Hf' : fields64_ok s (E + 896) (fr * 2 ^ 29)).
      { split; [exact Hs|split; [lia|]]. change (2 ^ 29) with 536870912. change (2 ^ 52) with 4503599627370496. lia. }
      split; [apply Hrange; exact Hf'|]. rewrite spec_trunc_fields by exact Hf'. cbv zeta.
      destruct (Z.eqb_spec (E + 896) 2047); [lia|]. destruct (Z.eqb_spec (E + 896) 0); [lia|].
      replace (Z.max (E + 896) 1 - 1075) with (E - 179) by lia. replace (Z.max E 1 - 150) with (E - 150) by lia.
      replace (fr * 2 ^ 29 + 2 ^ 52) with ((fr + 2 ^ 23) * 2 ^ 29) by (change (2 ^ 52) with (2 ^ 23 * 2 ^ 29); ring).
      set (m := fr + 2 ^ 23).
      assert (Hcore : (if 0 <=? E - 179 then m * 2 ^ 29 * 2 ^ (E - 179) else m * 2 ^ 29 / 2 ^ (- (E - 179))) =
                      (if 0 <=? E - 150 then m * 2 ^ (E - 150) else m / 2 ^ (- (E - 150)))).
      { destruct (Z.leb_spec 0 (E - 179)); destruct (Z.leb_spec 0 (E - 150)); try lia.
        - rewrite <- Z.mul_assoc, <- Z.pow_add_r by lia. do 2 f_equal. lia.
        - assert (HP : 0 < 2 ^ (- (E - 179))) by (apply Z.pow_pos_nonneg; lia).
          replace (2 ^ 29) with (2 ^ (E - 150) * 2 ^ (- (E - 179))) by (rewrite <- Z.pow_add_r by lia; f_equal; lia).
          rewrite Z.mul_assoc. apply Z.div_mul. lia.
        - assert (HP : 0 < 2 ^ (- (E - 150))) by (apply Z.pow_pos_nonneg; lia).
          replace (2 ^ (- (E - 179))) with (2 ^ (- (E - 150)) * 2 ^ 29) by (rewrite <- Z.pow_add_r by lia; f_equal; lia).
          apply Z.div_mul_cancel_r; lia. }
      rewrite Hcore. reflexivity.
Qed.

Theorem ufrom_f32_spec g : 0 <= g < 2 ^ 32 ->
  ufrom_f32 g = Ret (option_map enc (spec_ufrom_float 24 8 g)).
Proof.
  intros H. destruct (f32_decompose g H) as (s & E & fr & Hf & ->).
  destruct (f32_widen_trunc s E fr Hf) as [Hr Ht].
  unfold ufrom_f32. rewrite ufrom_f64_spec by exact Hr. unfold spec_ufrom_float. rewrite Ht. reflexivity.
Qed.
Theorem ifrom_f32_spec g : 0 <= g < 2 ^ 32 ->
  ifrom_f32 g = Ret (option_map ienc (spec_ifrom_float 24 8 g)).
Proof.
  intros H. destruct (f32_decompose g H) as (s & E & fr & Hf & ->).
  destruct (f32_widen_trunc s E fr Hf) as [Hr Ht].
  unfold ifrom_f32. rewrite ifrom_f64_spec by exact Hr. unfold spec_ifrom_float. rewrite Ht. reflexivity.
Qed.
