(* BitsProofsU.v — C07 for BigUint: & | ^, << >>, bits, trailing_zeros/ones, count_ones, bit,
   set_bit; and the Z-level facts about the executable spec forms of spec/SpecBits.v. *)
From BigNum Require Import Base BaseLemmas X86 AddSub AddSubProofs ShiftCore ShiftCoreProofs
  Bits SpecBits BitsLemmas.
Open Scope Z_scope.

(** ** the source-extracted decision points *)
Definition bits_ok (p : bits_params) : bool :=
  cmpop_eqb (bp_uand_len p) Cle && cmpop_eqb (bp_uor_len p) Cgt && cmpop_eqb (bp_uxor_len p) Cgt &&
  cmpop_eqb (bp_round p) Clt && cmpop_eqb (bp_round_pos p) Cgt && cmpop_eqb (bp_ibit_hi p) Cge &&
  cmpop_eqb (bp_snb_hi p) Cge && cmpop_eqb (bp_snb_gt p) Cgt && cmpop_eqb (bp_snb_eq p) Ceq &&
  cmpop_eqb (bp_snb_lt p) Clt && cmpop_eqb (bp_set_ge p) Cge && cmpop_eqb (bp_set_lt p) Clt &&
  cmpop_eqb (bp_iand_len p) Cge && cmpop_eqb (bp_ior_len p) Cle.

Lemma cmpop_eqb_eq a b : cmpop_eqb a b = true -> a = b.
Proof. destruct a, b; simpl; congruence. Qed.

Lemma bits_ok_inv p : bits_ok p = true -> p = bits_default.
Proof.
  unfold bits_ok. rewrite !andb_true_iff. intros H.
  repeat match goal with H : _ /\ _ |- _ => destruct H end.
  repeat match goal with H : cmpop_eqb _ _ = true |- _ => apply cmpop_eqb_eq in H end.
  destruct p; cbn in *; subst; reflexivity.
Qed.

(** vectors live in a 64-bit address space: fewer than 2^58 digits, so bit counts fit u64 *)
Definition vec_ok (l : list Z) : Prop := zlen l < 2 ^ 58.

(** ** BigUint & | ^ *)
Lemma zip_with_length f a : forall b, length (zip_with f a b) = length a.
Proof. induction a as [|x a IH]; intros [|y b]; cbn; auto. Qed.

Lemma uand_raw a : forall b, wf a -> wf b ->
  let w := firstn (length b) (zip_with Z.land a b) in wf w /\ val w = Z.land (val a) (val b).
Proof.
  induction a as [|x a IH]; intros [|y b] Ha Hb; cbn [zip_with length firstn val].
  - split; [apply wf_nil|reflexivity].
  - split; [apply wf_nil|reflexivity].
  - split; [apply wf_nil|]. rewrite Z.land_0_r. reflexivity.
  - apply wf_cons in Ha as [Hx Ha], Hb as [Hy Hb]. destruct (IH b Ha Hb) as [Hw Hv].
    split; [apply wf_cons; split; [apply (bitop_digit _ _ bitop_land); auto|exact Hw]|].
    rewrite Hv. symmetry. apply (bitop_cons _ _ bitop_land); auto.
Qed.

Theorem uand_assign_spec a b : wf a -> wf b -> uand_assign a b = enc (Z.land (val a) (val b)).
Proof.
  intros Ha Hb. unfold uand_assign. destruct (uand_raw a b Ha Hb) as [Hw Hv].
  rewrite <- Hv. symmetry. apply enc_strip. exact Hw.
Qed.

(** | and ^ : zip, then the rest of the longer operand *)
Definition ext_zip (f : Z -> Z -> Z) (a b : list Z) : list Z :=
  zip_with f a b ++ (if zlen b >? zlen a then skipn (length a) b else []).

Lemma ext_zip_raw f g : bitop f g -> (forall v, f 0 v = v) -> (forall v, f v 0 = v) ->
  forall a b, wf a -> wf b ->
  wf (ext_zip f a b) /\ val (ext_zip f a b) = f (val a) (val b) /\
  length (ext_zip f a b) = Nat.max (length a) (length b).
Proof.
  intros Hf H0l H0r. unfold ext_zip, zlen.
  induction a as [|x a IH]; intros [|y b] Ha Hb; cbn [zip_with length skipn app val].
  - repeat split; [apply wf_nil|rewrite H0l; reflexivity].
  - destruct (Z.gtb_spec (Z.of_nat (S (length b))) (Z.of_nat 0)) as [_|H]; [|cbn in H; lia].
    cbn [app]. rewrite H0l. auto.
  - destruct (Z.gtb_spec (Z.of_nat 0) (Z.of_nat (S (length a)))) as [H|_]; [cbn in H; lia|].
    rewrite app_nil_r, H0r. repeat split; auto.
  - apply wf_cons in Ha as [Hx Ha], Hb as [Hy Hb]. destruct (IH b Ha Hb) as (Hw & Hv & Hl).
    assert (E : (Z.of_nat (S (length b)) >? Z.of_nat (S (length a))) = (Z.of_nat (length b) >? Z.of_nat (length a))).
    { rewrite !Z.gtb_ltb. destruct (Z.ltb_spec (Z.of_nat (S (length a))) (Z.of_nat (S (length b))));
        destruct (Z.ltb_spec (Z.of_nat (length a)) (Z.of_nat (length b))); lia. }
    rewrite E. cbn [app val length]. split; [|split].
    + apply wf_cons; split; [apply (bitop_digit _ _ Hf); auto|exact Hw].
    + rewrite Hv. symmetry. apply (bitop_cons _ _ Hf); auto.
    + rewrite Hl. reflexivity.
Qed.

Lemma lor_lower a b k : 0 <= a -> 0 <= b -> 0 <= k -> 2 ^ k <= a -> 2 ^ k <= Z.lor a b.
Proof.
  intros Ha Hb Hk H. assert (0 < 2 ^ k) by (apply Z.pow_pos_nonneg; lia).
  assert (Hl : 0 <= Z.lor a b) by (apply Z.lor_nonneg; auto).
  assert (0 < a) by lia.
  assert (k <= Z.log2 a) by (apply Z.log2_le_pow2; lia).
  assert (E : Z.log2 (Z.lor a b) = Z.max (Z.log2 a) (Z.log2 b)) by (apply Z.log2_lor; lia).
  destruct (Z.eq_dec (Z.lor a b) 0) as [E0|N0].
  { apply Z.lor_eq_0_iff in E0. lia. }
  apply Z.log2_le_pow2; lia.
Qed.

Theorem uor_assign_spec p a b : bits_ok p = true -> canon a -> canon b ->
  uor_assign p a b = enc (Z.lor (val a) (val b)).
Proof.
  intros Hp Ha Hb. apply bits_ok_inv in Hp; subst p. unfold uor_assign; cbn [bp_uor_len bits_default cmp_eval].
  assert (E : (let a1 := zip_with Z.lor a b in if zlen b >? zlen a then a1 ++ skipn (length a) b else a1)
              = ext_zip Z.lor a b).
  { unfold ext_zip. cbn zeta. destruct (zlen b >? zlen a); [reflexivity|rewrite app_nil_r; reflexivity]. }
  cbn zeta in E. rewrite E. clear E.
  destruct (ext_zip_raw Z.lor orb bitop_lor Z.lor_0_l Z.lor_0_r a b (proj1 Ha) (proj1 Hb)) as (Hw & Hv & Hl).
  rewrite <- Hv. symmetry. apply enc_of_canon.
  destruct (ext_zip Z.lor a b) as [|z r] eqn:Er; [apply canon_nil|]. rewrite <- Er in *.
  apply canon_of_lower; [exact Hw|rewrite Er; discriminate|].
  rewrite Hv, Hl. pose proof (val_nonneg a (proj1 Ha)). pose proof (val_nonneg b (proj1 Hb)).
  assert (Hlen : (0 < Nat.max (length a) (length b))%nat) by (rewrite <- Hl, Er; cbn; lia).
  rewrite B_pow_pow2 by lia.
  destruct (Nat.max_spec (length a) (length b)) as [[Hlt Hm]|[Hge Hm]]; rewrite Hm.
  - rewrite Z.lor_comm. apply lor_lower; try lia.
    rewrite <- B_pow_pow2 by lia. apply canon_lower; [exact Hb|destruct b; [cbn in Hlt; lia|discriminate]].
  - apply lor_lower; try lia.
    rewrite <- B_pow_pow2 by lia. apply canon_lower; [exact Ha|destruct a; [cbn in *; lia|discriminate]].
Qed.

Theorem uxor_assign_spec p a b : bits_ok p = true -> wf a -> wf b ->
  uxor_assign p a b = enc (Z.lxor (val a) (val b)).
Proof.
  intros Hp Ha Hb. apply bits_ok_inv in Hp; subst p. unfold uxor_assign; cbn [bp_uxor_len bits_default cmp_eval].
  assert (E : (let a1 := zip_with Z.lxor a b in if zlen b >? zlen a then a1 ++ skipn (length a) b else a1)
              = ext_zip Z.lxor a b).
  { unfold ext_zip. cbn zeta. destruct (zlen b >? zlen a); [reflexivity|rewrite app_nil_r; reflexivity]. }
  cbn zeta in E. rewrite E. clear E.
  destruct (ext_zip_raw Z.lxor xorb bitop_lxor Z.lxor_0_l Z.lxor_0_r a b Ha Hb) as (Hw & Hv & _).
  rewrite <- Hv. symmetry. apply enc_strip. exact Hw.
Qed.

Theorem uand_spec p a b : bits_ok p = true -> wf a -> wf b -> uand p a b = enc (Z.land (val a) (val b)).
Proof.
  intros Hp Ha Hb. unfold uand. destruct (cmp_eval _ _ _).
  - apply uand_assign_spec; auto.
  - rewrite Z.land_comm. apply uand_assign_spec; auto.
Qed.
Theorem uor_spec p a b : bits_ok p = true -> canon a -> canon b -> uor p a b = enc (Z.lor (val a) (val b)).
Proof.
  intros Hp Ha Hb. unfold uor. destruct (_ >=? _).
  - apply uor_assign_spec; auto.
  - rewrite Z.lor_comm. apply uor_assign_spec; auto.
Qed.
Theorem uxor_spec p a b : bits_ok p = true -> wf a -> wf b -> uxor p a b = enc (Z.lxor (val a) (val b)).
Proof.
  intros Hp Ha Hb. unfold uxor. destruct (_ >=? _).
  - apply uxor_assign_spec; auto.
  - rewrite Z.lxor_comm. apply uxor_assign_spec; auto.
Qed.

(** ** shifts *)
Lemma canon_nil_iff l : canon l -> (is_nil l = true <-> val l = 0).
Proof.
  intros Hc. destruct l as [|d l]; cbn [is_nil]; [rewrite val_nil; tauto|].
  split; [discriminate|]. intros H. apply (canon_val_zero _ Hc) in H. discriminate.
Qed.

Lemma zdigits_val l : canon l -> zdigits (val l) = zlen l.
Proof.
  intros Hc. unfold zdigits, zlen. destruct l as [|d l].
  - reflexivity.
  - assert (Hn : d :: l <> []) by discriminate. pose proof (canon_val_pos _ Hc Hn) as Hp.
    destruct (Z.eqb_spec (val (d :: l)) 0); [lia|]. rewrite Z.abs_eq by lia.
    pose proof (log2_canon _ Hc Hn). lia.
Qed.

Lemma pow2_60 : 2 ^ 60 = 1152921504606846976. Proof. reflexivity. Qed.

Theorem biguint_shl_spec n s : canon n -> biguint_shl n s = omap enc (spec_shl (val n) s).
Proof.
  intros Hc. unfold biguint_shl, spec_shl. destruct (Z.ltb_spec s 0) as [Hs|Hs]; [reflexivity|].
  pose proof (canon_nil_iff n Hc) as Hz. destruct (is_nil n) eqn:En.
  - destruct n as [|d n]; [|discriminate]. reflexivity.
  - destruct (Z.eqb_spec (val n) 0) as [E|E]; [apply Hz in E; discriminate|].
    rewrite (zdigits_val n Hc). unfold too_big, usize_max, alloc_limit. rewrite pow2_60.
    pose proof B_val as HB. assert (0 <= s / 64) by (apply Z.div_pos; lia).
    assert (0 <= zlen n) by (unfold zlen; lia).
    destruct (Z.ltb_spec (B - 1) (s / 64)) as [Hq|Hq].
    + destruct (Z.ltb_spec 0 (s / 64)); [|lia].
      destruct (Z.leb_spec 1152921504606846976 (s / 64 + (zlen n + 1))); [reflexivity|lia].
    + destruct (Z.ltb_spec 0 (s / 64)) as [Hq0|Hq0]; cbn [andb].
      * destruct (Z.leb_spec 1152921504606846976 (Z.min (B - 1) (s / 64 + (zlen n + 1))));
          destruct (Z.leb_spec 1152921504606846976 (s / 64 + (zlen n + 1))); try lia; try reflexivity.
        cbn [omap bind]. f_equal. rewrite shl2_spec; [|apply Hc|lia|apply Z.mod_pos_bound; lia].
        f_equal. rewrite (pow2_split s Hs). ring.
      * cbn [omap bind]. f_equal. rewrite shl2_spec; [|apply Hc|lia|apply Z.mod_pos_bound; lia].
        f_equal. rewrite (pow2_split s Hs). ring.
Qed.

Theorem biguint_shr_spec n s : canon n -> vec_ok n -> biguint_shr n s = omap enc (spec_shr (val n) s).
Proof.
  intros Hc Hv. unfold biguint_shr, spec_shr. destruct (Z.ltb_spec s 0) as [Hs|Hs]; [reflexivity|].
  cbn [omap bind]. f_equal.
  assert (Hpow : 0 < 2 ^ s) by (apply Z.pow_pos_nonneg; lia).
  pose proof (canon_nil_iff n Hc) as Hz. destruct (is_nil n) eqn:En.
  - assert (E : val n = 0) by (apply Hz; reflexivity). rewrite E, Z.div_0_l by lia.
    destruct n; [reflexivity|discriminate].
  - unfold usize_max. pose proof B_val as HB. assert (0 <= s / 64) by (apply Z.div_pos; lia).
    destruct (Z.ltb_spec (B - 1) (s / 64)) as [Hq|Hq].
    + unfold shr2. unfold vec_ok, zlen in Hv. rewrite pow2_60 in Hv || idtac.
      assert (Hv' : Z.of_nat (length n) < 288230376151711744) by exact Hv.
      destruct (Z.leb_spec (Z.of_nat (length n)) (B - 1)) as [_|H1]; [|lia].
      pose proof (val_bound n (proj1 Hc)) as Hb.
      assert (B ^ Z.of_nat (length n) <= 2 ^ s).
      { rewrite B_pow_pow2 by lia. apply Z.pow_le_mono_r; lia. }
      rewrite Z.div_small by lia. reflexivity.
    + rewrite shr2_spec; [|apply Hc|lia|apply Z.mod_pos_bound; lia].
      f_equal. rewrite (pow2_split s Hs). rewrite Z.div_div; [reflexivity| |].
      * apply Z.pow_nonzero; [pose proof B_pos; lia|lia].
      * apply Z.pow_pos_nonneg; [lia|]. apply Z.mod_pos_bound; lia.
Qed.

Lemma shr_exec_eq x s : 0 <= s -> shr_exec x s = x / 2 ^ s.
Proof.
  intros Hs. unfold shr_exec. destruct (Z.ltb_spec (Z.log2 (Z.abs x)) s) as [H|H]; [|reflexivity].
  assert (Hp : 0 < 2 ^ s) by (apply Z.pow_pos_nonneg; lia).
  assert (Hb : Z.abs x < 2 ^ s).
  { destruct (Z.eq_dec (Z.abs x) 0) as [E|E]; [lia|]. apply Z.log2_lt_pow2; lia. }
  destruct (Z.ltb_spec x 0).
  - apply Z.div_unique with (x + 2 ^ s); lia.
  - symmetry. apply Z.div_small. lia.
Qed.
Lemma spec_shr_exec_eq x s : spec_shr_exec x s = spec_shr x s.
Proof.
  unfold spec_shr_exec, spec_shr. destruct (Z.ltb_spec s 0); [reflexivity|]. rewrite shr_exec_eq by lia. reflexivity.
Qed.

(** ** bits *)
Theorem ubits_spec a : canon a -> ubits a = spec_bits (val a).
Proof.
  intros Hc. unfold ubits, spec_bits. destruct a as [|x a].
  - reflexivity.
  - assert (Hn : x :: a <> []) by discriminate.
    destruct (canon_snoc_inv _ Hc Hn) as (l & d & E & Hl & Hd & Hd0).
    pose proof (canon_val_pos _ Hc Hn) as Hp. rewrite E in *. rewrite rev_unit.
    destruct (Z.eqb_spec (val (l ++ [d])) 0); [lia|]. rewrite Z.abs_eq by lia.
    rewrite val_snoc. unfold zlen. rewrite app_length. cbn [length]. unfold digit in Hd.
    rewrite B_pow_pow2 by lia. pose proof (val_bound l Hl) as Hb. rewrite B_pow_pow2 in Hb by lia.
    rewrite log2_top by lia. unfold lz64. destruct (Z.leb_spec d 0); lia.
Qed.

(** ** trailing zeros / ones *)
Lemma is_tz_unique x k1 k2 : is_tz x k1 -> is_tz x k2 -> k1 = k2.
Proof.
  intros (H1 & T1 & L1) (H2 & T2 & L2).
  destruct (Z.lt_trichotomy k1 k2) as [H|[H|H]]; [|exact H|].
  - rewrite (L2 k1) in T1 by lia. discriminate.
  - rewrite (L1 k2) in T2 by lia. discriminate.
Qed.

Lemma ptz_is_tz p : is_tz (Zpos p) (ptz p).
Proof.
  induction p as [p IH|p IH|]; cbn [ptz].
  - split; [lia|]. split; [reflexivity|]. intros; lia.
  - destruct IH as (H0 & T & L). split; [lia|]. split.
    + replace (1 + ptz p) with (Z.succ (ptz p)) by lia. change (Z.pos p~0) with (2 * Z.pos p).
      rewrite Z.testbit_even_succ by lia. exact T.
    + intros j Hj. destruct (Z.eq_dec j 0) as [->|]; [reflexivity|].
      replace j with (Z.succ (j - 1)) by lia. change (Z.pos p~0) with (2 * Z.pos p).
      rewrite Z.testbit_even_succ by lia. apply L. lia.
  - split; [lia|]. split; [reflexivity|]. intros; lia.
Qed.

Lemma is_tz_shift x k m : 0 <= m -> is_tz x k -> is_tz (x * 2 ^ m) (m + k).
Proof.
  intros Hm (H0 & T & L). split; [lia|]. split.
  - rewrite Z.mul_pow2_bits by lia. replace (m + k - m) with k by ring. exact T.
  - intros j Hj. destruct (Z.lt_ge_cases j m).
    + apply Z.mul_pow2_bits_low. lia.
    + rewrite Z.mul_pow2_bits by lia. apply L. lia.
Qed.

Lemma is_tz_low x u k : digit x -> 0 <= k < 64 -> is_tz x k -> is_tz (x + B * u) k.
Proof.
  intros Hx Hk (H0 & T & L). unfold digit in Hx. split; [lia|]. split.
  - rewrite testbit_cons by lia. destruct (Z.ltb_spec k 64); [exact T|lia].
  - intros j Hj. rewrite testbit_cons by lia. destruct (Z.ltb_spec j 64); [apply L; lia|lia].
Qed.

Lemma tz64_is_tz d : digit d -> d <> 0 -> is_tz d (tz64 d) /\ 0 <= tz64 d < 64.
Proof.
  intros Hd Hn. unfold digit in Hd. destruct d as [|p|p]; try lia. cbn [tz64].
  pose proof (ptz_is_tz p) as H. split; [exact H|]. destruct H as (H0 & T & _). split; [lia|].
  destruct (Z.lt_ge_cases (ptz p) 64); [assumption|].
  rewrite (digit_high_bits (Z.pos p)) in T by (unfold digit; lia). discriminate.
Qed.

Lemma position_tz a : forall i, wf a -> 0 <= i ->
  match position (fun d => negb (d =? 0)) i a with
  | None => val a = 0
  | Some (j, d) => is_tz (val a) ((j - i) * 64 + tz64 d) /\ i <= j
  end.
Proof.
  induction a as [|x a IH]; intros i Ha Hi; cbn [position].
  - reflexivity.
  - apply wf_cons in Ha as [Hx Ha]. rewrite val_cons. destruct (Z.eqb_spec x 0) as [->|Hn]; cbn [negb].
    + specialize (IH (i + 1) Ha ltac:(lia)). destruct (position _ (i + 1) a) as [[j d]|].
      * destruct IH as [IH Hj]. split; [|lia].
        replace (0 + B * val a) with (val a * 2 ^ 64) by (rewrite B_as_pow2; ring).
        replace ((j - i) * 64 + tz64 d) with (64 + ((j - (i + 1)) * 64 + tz64 d)) by ring.
        apply is_tz_shift; [lia|exact IH].
      * rewrite IH. ring.
    + destruct (tz64_is_tz x Hx Hn) as [T R]. split; [|lia].
      replace ((i - i) * 64 + tz64 x) with (tz64 x) by ring. apply is_tz_low; auto.
Qed.

(** x & -x isolates the lowest set bit *)
Lemma land_odd_neg q : Z.land (2 * q + 1) (2 * (- q - 1) + 1) = 1.
Proof.
  apply Z.bits_inj'; intros n Hn. rewrite Z.land_spec.
  destruct (Z.eq_dec n 0) as [->|Hn0].
  - rewrite !Z.testbit_odd_0. reflexivity.
  - replace n with (Z.succ (n - 1)) by lia. rewrite !Z.testbit_odd_succ by lia.
    replace (- q - 1) with (Z.lnot q) by (unfold Z.lnot; lia). rewrite Z.lnot_spec by lia.
    rewrite andb_negb_r. change 1 with (2 * 0 + 1). rewrite Z.testbit_odd_succ by lia.
    symmetry. apply Z.bits_0.
Qed.

Lemma is_tz_decomp x k : is_tz x k -> exists q, x = (2 * q + 1) * 2 ^ k.
Proof.
  intros (H0 & T & L). exists (x / 2 ^ k / 2).
  pose proof (Z.testbit_spec' x k H0) as Hb. rewrite T in Hb. cbn [Z.b2z] in Hb.
  assert (Hlow : x mod 2 ^ k = 0).
  { apply Z.bits_inj'; intros m Hm. rewrite Z.bits_0. destruct (Z.lt_ge_cases m k).
    - rewrite Z.mod_pow2_bits_low by lia. apply L; lia.
    - apply Z.mod_pow2_bits_high; lia. }
  assert (0 < 2 ^ k) by (apply Z.pow_pos_nonneg; lia).
  pose proof (Z.div_mod x (2 ^ k) ltac:(lia)) as D. rewrite Hlow in D.
  pose proof (Z.div_mod (x / 2 ^ k) 2 ltac:(lia)) as D2. rewrite <- Hb in D2.
  set (y := x / 2 ^ k) in *. set (P := 2 ^ k) in *. rewrite D at 1. rewrite D2 at 1. ring.
Qed.

Lemma land_neg_tz x k : is_tz x k -> Z.land x (- x) = 2 ^ k.
Proof.
  intros H. pose proof H as (H0 & _ & _). destruct (is_tz_decomp x k H) as [q ->].
  replace (- ((2 * q + 1) * 2 ^ k)) with ((2 * (- q - 1) + 1) * 2 ^ k) by ring.
  rewrite <- !Z.shiftl_mul_pow2 by lia. rewrite <- Z.shiftl_land, land_odd_neg.
  rewrite Z.shiftl_mul_pow2 by lia. ring.
Qed.

Theorem ztz_is_tz x k : is_tz x k -> ztz x = k.
Proof.
  intros H. unfold ztz. rewrite (land_neg_tz x k H). apply Z.log2_pow2. apply H.
Qed.

Lemma is_tz_nonzero x k : is_tz x k -> x <> 0.
Proof. intros (_ & T & _) ->. rewrite Z.bits_0 in T. discriminate. Qed.

Theorem utrailing_zeros_spec a : wf a -> utrailing_zeros a = spec_trailing_zeros (val a).
Proof.
  intros Ha. unfold utrailing_zeros, spec_trailing_zeros.
  pose proof (position_tz a 0 Ha ltac:(lia)) as H.
  destruct (position _ 0 a) as [[j d]|].
  - destruct H as [H _]. replace ((j - 0) * 64 + tz64 d) with (j * 64 + tz64 d) in H by ring.
    pose proof (is_tz_nonzero _ _ H). destruct (Z.eqb_spec (val a) 0); [lia|].
    rewrite (ztz_is_tz _ _ H). reflexivity.
  - rewrite H. reflexivity.
Qed.
(** … and what the number means *)
Theorem utrailing_zeros_meaning a k : wf a -> utrailing_zeros a = Some k -> is_tz (val a) k.
Proof.
  intros Ha. unfold utrailing_zeros. pose proof (position_tz a 0 Ha ltac:(lia)) as H.
  destruct (position _ 0 a) as [[j d]|]; [|discriminate].
  intros E; injection E as <-. destruct H as [H _].
  replace ((j - 0) * 64 + tz64 d) with (j * 64 + tz64 d) in H by ring. exact H.
Qed.

Lemma lnot_cons x u : Z.lnot (x + B * u) = dnot x + B * Z.lnot u.
Proof. unfold Z.lnot, dnot. lia. Qed.

Lemma dnot_digit x : digit x -> digit (dnot x).
Proof. unfold digit, dnot. lia. Qed.

Lemma position_t1 a : forall i, wf a -> 0 <= i ->
  is_tz (Z.lnot (val a))
    (match position (fun d => negb (dnot d =? 0)) i a with
     | Some (j, d) => j * 64 + t1_64 d
     | None => (i + zlen a) * 64
     end - i * 64).
Proof.
  induction a as [|x a IH]; intros i Ha Hi; cbn [position].
  - unfold zlen; cbn [length Z.of_nat]. replace ((i + 0) * 64 - i * 64) with 0 by ring.
    rewrite val_nil. change (Z.lnot 0) with (-1). split; [lia|]. split; [reflexivity|]. intros; lia.
  - apply wf_cons in Ha as [Hx Ha]. rewrite val_cons, lnot_cons.
    destruct (Z.eqb_spec (dnot x) 0) as [E|Hn]; cbn [negb].
    + specialize (IH (i + 1) Ha ltac:(lia)). rewrite E.
      replace (0 + B * Z.lnot (val a)) with (Z.lnot (val a) * 2 ^ 64) by (rewrite B_as_pow2; ring).
      match goal with |- is_tz _ (?m - _) =>
        replace (m - i * 64) with (64 + (m - (i + 1) * 64)) by ring end.
      assert (Hz : zlen (x :: a) = zlen a + 1) by (unfold zlen; cbn [length]; lia).
      destruct (position _ (i + 1) a) as [[j d]|].
      * apply is_tz_shift; [lia|exact IH].
      * rewrite Hz. replace (i + (zlen a + 1)) with (i + 1 + zlen a) by ring.
        apply is_tz_shift; [lia|exact IH].
    + destruct (tz64_is_tz (dnot x) (dnot_digit x Hx) Hn) as [T R].
      unfold t1_64. replace (i * 64 + tz64 (dnot x) - i * 64) with (tz64 (dnot x)) by ring.
      apply is_tz_low; auto. apply dnot_digit; exact Hx.
Qed.

Theorem utrailing_ones_spec a : wf a -> utrailing_ones a = spec_trailing_ones (val a).
Proof.
  intros Ha. unfold utrailing_ones, spec_trailing_ones.
  pose proof (position_t1 a 0 Ha ltac:(lia)) as H. symmetry. rewrite (ztz_is_tz _ _ H).
  destruct (position _ 0 a) as [[j d]|]; ring.
Qed.
(** meaning: bits below are ones, the bit at the count is zero *)
Theorem utrailing_ones_meaning a : wf a ->
  let k := utrailing_ones a in
  0 <= k /\ Z.testbit (val a) k = false /\ forall j, 0 <= j < k -> Z.testbit (val a) j = true.
Proof.
  intros Ha k. pose proof (position_t1 a 0 Ha ltac:(lia)) as H.
  assert (E : k = match position (fun d => negb (dnot d =? 0)) 0 a with
     | Some (j, d) => j * 64 + t1_64 d | None => (0 + zlen a) * 64 end - 0 * 64).
  { unfold k, utrailing_ones. destruct (position _ 0 a) as [[j d]|]; ring. }
  rewrite <- E in H. destruct H as (H0 & T & L). split; [exact H0|]. split.
  - rewrite Z.lnot_spec in T by lia. destruct (Z.testbit (val a) k); [discriminate|reflexivity].
  - intros j Hj. specialize (L j Hj). rewrite Z.lnot_spec in L by lia.
    destruct (Z.testbit (val a) j); [reflexivity|discriminate].
Qed.

(** ** count_ones *)
Definition zpop (z : Z) : Z := match z with Zpos p => pos_popcount p | _ => 0 end.
Lemma ppop_eq p : ppop p = pos_popcount p.
Proof. induction p as [p IH|p IH|]; cbn [ppop pos_popcount]; rewrite ?IH; reflexivity. Qed.
Lemma pop64_eq d : pop64 d = zpop d.
Proof. destruct d; cbn; auto using ppop_eq. Qed.

Lemma zpop_step (b : bool) z : 0 <= z -> zpop (Z.b2z b + 2 * z) = Z.b2z b + zpop z.
Proof. intros Hz. destruct z as [|p|p]; [destruct b; reflexivity| |lia]. destruct b; reflexivity. Qed.

Lemma zpop_split (k : nat) : forall d v, 0 <= d < 2 ^ Z.of_nat k -> 0 <= v ->
  zpop (d + 2 ^ Z.of_nat k * v) = zpop d + zpop v.
Proof.
  induction k as [|k IH]; intros d v Hd Hv.
  - change (2 ^ Z.of_nat 0) with 1 in *. replace d with 0 by lia. rewrite Z.mul_1_l. reflexivity.
  - rewrite Nat2Z.inj_succ, Z.pow_succ_r in * by lia.
    set (P := 2 ^ Z.of_nat k) in *. assert (0 < P) by (apply Z.pow_pos_nonneg; lia).
    pose proof (Z.div_mod d 2 ltac:(lia)) as D. pose proof (Z.mod_pos_bound d 2 ltac:(lia)) as M.
    set (b := Z.odd d). assert (Hb : d mod 2 = Z.b2z b) by (unfold b; rewrite Zmod_odd; destruct (Z.odd d); reflexivity).
    rewrite Hb in D. set (d' := d / 2) in *.
    replace (d + 2 * P * v) with (Z.b2z b + 2 * (d' + P * v)) by lia.
    assert (0 <= d' < P) by (destruct b; cbn in D; lia).
    rewrite zpop_step by nia. rewrite IH by lia.
    replace (zpop d) with (zpop (Z.b2z b + 2 * d')) by (f_equal; lia). rewrite zpop_step by lia. ring.
Qed.

Theorem ucount_ones_spec a : wf a -> ucount_ones a = spec_count_ones (val a).
Proof.
  intros Ha. change (spec_count_ones (val a)) with (zpop (val a)). induction a as [|x a IH].
  - reflexivity.
  - apply wf_cons in Ha as [Hx Ha]. cbn [ucount_ones fold_right] in *. fold (ucount_ones a).
    rewrite (IH Ha), pop64_eq, val_cons. symmetry. unfold digit in Hx. rewrite B_as_pow2 in *.
    apply (zpop_split 64); [exact Hx|apply val_nonneg; exact Ha].
Qed.

(** ** bit *)
Lemma get_spec a i : get a i = if (0 <=? i) && (i <? zlen a) then nth_error a (Z.to_nat i) else None.
Proof. reflexivity. Qed.

Lemma get_nth a i : 0 <= i -> get a i = nth_error a (Z.to_nat i).
Proof.
  intros Hi. unfold get, zlen. destruct (Z.leb_spec 0 i); [|lia]. cbn [andb].
  destruct (Z.ltb_spec i (Z.of_nat (length a))); [reflexivity|].
  symmetry. apply nth_error_None. lia.
Qed.

Theorem ubit_spec a i : wf a -> 0 <= i -> ubit a i = Z.testbit (val a) i.
Proof.
  intros Ha Hi. unfold ubit. rewrite get_nth by (apply Z.div_pos; lia). rewrite testbit_val by assumption.
  destruct (nth_error a (Z.to_nat (i / 64))); [|reflexivity].
  apply testbit_land_pow2. apply Z.mod_pos_bound. lia.
Qed.

Lemma get_split a i d : get a i = Some d -> exists l1 l2, a = l1 ++ d :: l2 /\ zlen l1 = i.
Proof.
  unfold get. destruct (Z.leb_spec 0 i); [|discriminate]. cbn [andb].
  destruct (Z.ltb_spec i (zlen a)); [|discriminate]. intros E.
  apply nth_error_split in E as (l1 & l2 & E1 & E2). exists l1, l2. split; [exact E1|unfold zlen; lia].
Qed.
Lemma get_none a i : get a i = None -> 0 <= i -> zlen a <= i.
Proof.
  unfold get. destruct (Z.leb_spec 0 i); [|lia]. cbn [andb].
  destruct (Z.ltb_spec i (zlen a)); [|lia]. intros E _. apply nth_error_None in E. unfold zlen in *. lia.
Qed.
Lemma get_mid l1 d l2 : get (l1 ++ d :: l2) (zlen l1) = Some d.
Proof.
  rewrite get_nth by (unfold zlen; lia). unfold zlen. rewrite Nat2Z.id.
  rewrite nth_error_app2 by lia. rewrite Nat.sub_diag. reflexivity.
Qed.

Lemma upd_mid l1 d l2 f site : upd (l1 ++ d :: l2) (zlen l1) f site = Ret (l1 ++ f d :: l2).
Proof.
  unfold upd. rewrite get_mid. unfold zlen. rewrite Nat2Z.id. f_equal. f_equal.
  - apply firstn_app_exact. reflexivity.
  - f_equal. clear. induction l1 as [|x l1 IH]; [reflexivity|exact IH].
Qed.

Lemma val_mid l1 d l2 : val (l1 ++ d :: l2) = val l1 + B ^ zlen l1 * (d + B * val l2).
Proof. rewrite val_app, val_cons. reflexivity. Qed.

Lemma testbit_mid l1 d l2 j : wf (l1 ++ d :: l2) -> 0 <= j < 64 ->
  Z.testbit (val (l1 ++ d :: l2)) (64 * zlen l1 + j) = Z.testbit d j.
Proof.
  intros Hw Hj. assert (0 <= zlen l1) by (unfold zlen; lia).
  rewrite testbit_val by (auto; lia).
  replace ((64 * zlen l1 + j) / 64) with (zlen l1) by lia.
  replace ((64 * zlen l1 + j) mod 64) with j by lia.
  unfold zlen. rewrite Nat2Z.id, nth_error_app2 by lia. rewrite Nat.sub_diag. reflexivity.
Qed.

Lemma pow2_digit j : 0 <= j < 64 -> digit (2 ^ j).
Proof.
  intros Hj. unfold digit. rewrite B_as_pow2. split; [apply Z.pow_nonneg; lia|].
  apply Z.pow_lt_mono_r; lia.
Qed.

Lemma lor_pow2 d j : 0 <= j -> Z.lor d (2 ^ j) = Z.setbit d j.
Proof. intros. unfold Z.setbit. rewrite Z.shiftl_1_l. reflexivity. Qed.

Lemma land_dnot_pow2 d j : digit d -> 0 <= j < 64 -> Z.land d (dnot (2 ^ j)) = Z.clearbit d j.
Proof.
  intros Hd Hj. apply Z.bits_inj'; intros n Hn. rewrite Z.land_spec, Z.clearbit_eqb by lia.
  destruct (Z.lt_ge_cases n 64) as [Hlt|Hge].
  - f_equal. unfold dnot. rewrite B_as_pow2.
    replace (2 ^ 64 - 1 - 2 ^ j) with (Z.clearbit (Z.ones 64) j).
    + rewrite Z.clearbit_eqb, Z.ones_spec_low by lia. reflexivity.
    + rewrite clearbit_set; [rewrite Z.ones_equiv; lia|lia|apply Z.ones_spec_low; lia].
  - rewrite (digit_high_bits d n Hd Hge). reflexivity.
Qed.

Lemma split_index i : 0 <= i -> i = 64 * (i / 64) + i mod 64 /\ 0 <= i mod 64 < 64 /\ 0 <= i / 64.
Proof. intros; lia. Qed.

Lemma pow2_index k j : 0 <= k -> 0 <= j -> 2 ^ (64 * k + j) = B ^ k * 2 ^ j.
Proof. intros. rewrite Z.pow_add_r, B_pow_pow2 by lia. reflexivity. Qed.

Theorem uset_bit_set_spec p a bit : bits_ok p = true -> canon a -> 0 <= bit < B ->
  uset_bit p a bit true = Ret (enc (Z.setbit (val a) bit)).
Proof.
  intros Hp Hc Hb. apply bits_ok_inv in Hp; subst p. unfold uset_bit. cbn [bp_set_ge bits_default cmp_eval].
  destruct (split_index bit ltac:(lia)) as (Ei & Hj & Hk).
  set (k := bit / 64) in *. set (j := bit mod 64) in *.
  pose proof B_val as HB. assert (Hk2 : k < 288230376151711744) by (unfold k; lia).
  set (a1 := if k >=? zlen a then a ++ zeros (Z.to_nat (Z.min usize_max (k + 1) - zlen a)) else a).
  assert (Ha1 : wf a1 /\ val a1 = val a /\ k < zlen a1 /\
                (zlen a1 = zlen a /\ k < zlen a \/ zlen a1 = k + 1 /\ zlen a <= k)).
  { unfold a1. assert (0 <= zlen a) by (unfold zlen; lia).
    destruct (Z.geb_spec k (zlen a)) as [Hge|Hlt].
    - unfold usize_max. rewrite Z.min_r by lia. split; [|split; [|split]].
      + apply wf_app; split; [apply Hc|apply wf_zeros].
      + rewrite val_app, val_zeros. ring.
      + unfold zlen in *. rewrite app_length, length_zeros. lia.
      + right. unfold zlen in *. rewrite app_length, length_zeros. lia.
    - split; [apply Hc|]. split; [reflexivity|]. split; [lia|]. left; lia. }
  destruct Ha1 as (Hw1 & Hv1 & Hlt1 & Hlen).
  destruct (get a1 k) as [d|] eqn:Eg; [|apply get_none in Eg; lia].
  destruct (get_split a1 k d Eg) as (l1 & l2 & E & Hl1). clearbody a1. subst a1.
  rewrite <- Hl1. rewrite upd_mid. f_equal.
  assert (Hd : digit d) by (apply wf_app in Hw1 as [_ H]; apply wf_cons in H as [H _]; exact H).
  set (r := l1 ++ Z.lor d (2 ^ j) :: l2).
  assert (Hdr : digit (Z.lor d (2 ^ j))) by (apply (bitop_digit _ _ bitop_lor); [exact Hd|apply pow2_digit; lia]).
  assert (Hwr : wf r).
  { unfold r. apply wf_app in Hw1 as [H1 H2]. apply wf_cons in H2 as [_ H2].
    apply wf_app; split; [exact H1|]. apply wf_cons; split; assumption. }
  assert (Hbit : Z.testbit (val (l1 ++ d :: l2)) bit = Z.testbit d j).
  { rewrite Ei, <- Hl1. apply testbit_mid; [exact Hw1|lia]. }
  assert (Hvr : val r = Z.setbit (val a) bit).
  { rewrite <- Hv1. unfold r. rewrite lor_pow2 by lia.
    destruct (Z.testbit d j) eqn:Ed.
    - rewrite (setbit_set d j) by (lia || exact Ed). rewrite setbit_set by (lia || exact Hbit).
      reflexivity.
    - rewrite (setbit_clear d j) by (lia || exact Ed). rewrite setbit_clear by (lia || exact Hbit).
      rewrite !val_mid. rewrite Ei at 1. rewrite pow2_index by lia. rewrite Hl1. ring. }
  rewrite <- Hvr. symmetry. apply enc_of_canon.
  apply canon_of_lower; [exact Hwr|unfold r; destruct l1; discriminate|].
  assert (Hlr : Z.of_nat (length r) = zlen (l1 ++ d :: l2)).
  { unfold r, zlen. rewrite !app_length. cbn [length]. reflexivity. }
  rewrite Hlr. assert (Hge : val a <= val r).
  { rewrite Hvr. destruct (Z.testbit (val a) bit) eqn:Eb.
    - rewrite setbit_set by (lia || exact Eb). lia.
    - rewrite setbit_clear by (lia || exact Eb). assert (0 < 2 ^ bit) by (apply Z.pow_pos_nonneg; lia). lia. }
  destruct Hlen as [[Hz Hlt]|[Hz Hge2]]; rewrite Hz.
  - assert (Hn : a <> []) by (intros ->; unfold zlen in Hlt; cbn in Hlt; lia).
    pose proof (canon_lower a Hc Hn). unfold zlen in *. lia.
  - replace (k + 1 - 1) with k by ring.
    (* the digit was a fresh zero *)
    assert (Hbf : Z.testbit (val a) bit = false).
    { rewrite testbit_val by (apply Hc || lia). fold k.
      replace (nth_error a (Z.to_nat k)) with (@None Z); [reflexivity|].
      symmetry. apply nth_error_None. unfold zlen in *. lia. }
    rewrite Hvr, setbit_clear by (lia || exact Hbf). rewrite Ei at 1. rewrite pow2_index by lia.
    pose proof (val_nonneg a (proj1 Hc)). assert (0 < B ^ k) by (apply B_pow; lia).
    assert (1 <= 2 ^ j) by (assert (0 < 2 ^ j) by (apply Z.pow_pos_nonneg; lia); lia). nia.
Qed.

Theorem uset_bit_clear_spec p a bit : bits_ok p = true -> canon a -> 0 <= bit ->
  uset_bit p a bit false = Ret (enc (Z.clearbit (val a) bit)).
Proof.
  intros Hp Hc Hb. apply bits_ok_inv in Hp; subst p. unfold uset_bit. cbn [bp_set_lt bits_default cmp_eval].
  destruct (split_index bit ltac:(lia)) as (Ei & Hj & Hk).
  set (k := bit / 64) in *. set (j := bit mod 64) in *.
  destruct (Z.ltb_spec k (zlen a)) as [Hlt|Hge].
  - destruct (get a k) as [d|] eqn:Eg; [|apply get_none in Eg; lia].
    destruct (get_split a k d Eg) as (l1 & l2 & E & Hl1). subst a.
    rewrite <- Hl1, upd_mid. cbn [bind]. f_equal.
    pose proof (proj1 Hc) as Hw.
    assert (Hd : digit d) by (apply wf_app in Hw as [_ H]; apply wf_cons in H as [H _]; exact H).
    rewrite land_dnot_pow2 by (auto; lia).
    assert (Hdr : digit (Z.clearbit d j)).
    { rewrite <- land_dnot_pow2 by (auto; lia). apply (bitop_digit _ _ bitop_land); [exact Hd|].
      apply dnot_digit. apply pow2_digit; lia. }
    assert (Hwr : wf (l1 ++ Z.clearbit d j :: l2)).
    { apply wf_app in Hw as [H1 H2]. apply wf_cons in H2 as [_ H2].
      apply wf_app; split; [exact H1|]. apply wf_cons; split; assumption. }
    rewrite <- enc_strip by exact Hwr. f_equal.
    assert (Hbit : Z.testbit (val (l1 ++ d :: l2)) bit = Z.testbit d j).
    { rewrite Ei, <- Hl1. apply testbit_mid; [exact Hw|lia]. }
    destruct (Z.testbit d j) eqn:Ed.
    + rewrite (clearbit_set d j) by (lia || exact Ed). rewrite clearbit_set by (lia || exact Hbit).
      rewrite !val_mid. rewrite Ei at 1. rewrite pow2_index by lia. rewrite Hl1. ring.
    + rewrite (clearbit_clear d j) by (lia || exact Ed). rewrite clearbit_clear by (lia || exact Hbit).
      reflexivity.
  - f_equal. rewrite clearbit_clear; [symmetry; apply enc_of_canon; exact Hc|lia|].
    rewrite testbit_val by (apply Hc || lia). fold k.
    replace (nth_error a (Z.to_nat k)) with (@None Z); [reflexivity|].
    symmetry. apply nth_error_None. unfold zlen in *. lia.
Qed.

(** ** the executable spec forms agree with Z.testbit / Z.setbit / Z.clearbit *)
Lemma far_above_bit x i : far_above x i = true -> Z.testbit x i = (x <? 0).
Proof.
  unfold far_above. intros H. apply Z.ltb_lt in H. pose proof (Z.log2_nonneg (Z.abs x)).
  destruct (Z.ltb_spec x 0) as [Hn|Hp].
  - apply Z.bits_above_log2_neg; [lia|]. rewrite Z.abs_neq in H by lia.
    assert (Z.log2 (Z.pred (- x)) <= Z.log2 (- x)) by (apply Z.log2_le_mono; lia). lia.
  - apply Z.bits_above_log2; [lia|]. rewrite Z.abs_eq in H by lia. lia.
Qed.
Lemma bit_exec_eq x i : bit_exec x i = Z.testbit x i.
Proof. unfold bit_exec. destruct (far_above x i) eqn:E; [symmetry; apply far_above_bit; exact E|reflexivity]. Qed.
Lemma set_bit_exec_eq x i v : 0 <= i ->
  set_bit_exec x i v = if v then Z.setbit x i else Z.clearbit x i.
Proof.
  intros Hi. unfold set_bit_exec. destruct v.
  - destruct (far_above x i) eqn:E; cbn [andb].
    + destruct (Z.ltb_spec x 0) as [Hn|Hp]; [|apply lor_pow2; lia].
      symmetry. apply setbit_set; [lia|]. rewrite (far_above_bit x i E). apply Z.ltb_lt. exact Hn.
    + apply lor_pow2; lia.
  - assert (L : Z.ldiff x (2 ^ i) = Z.clearbit x i) by (unfold Z.clearbit; rewrite Z.shiftl_1_l; reflexivity).
    destruct (far_above x i) eqn:E; cbn [andb]; [|exact L].
    destruct (Z.leb_spec 0 x) as [Hp|Hn]; [|exact L].
    symmetry. apply clearbit_clear; [lia|]. rewrite (far_above_bit x i E). apply Z.ltb_ge. exact Hp.
Qed.
