(* FormsProofs.v — C10: soundness of the decidable condition `check_form`.

   form_sound     a row accepted by check_form evaluates (eval_form: the interpreter of the
                  forwarding shapes) to the ref-ref semantics of its operator on the same operand
                  values — generic in the semantics `sem` (only commutativity of the operators
                  `commutative` accepts is used) and in the semantics of the leaves.
   checked_sound  the same for the checked_* rows, fold_sound for Sum / Product.
   zsem_*         the facts about the concrete Z-level semantics `zsem` the generic lemmas need. *)
From Coq Require Import ZArith List Bool Lia.
From BigNum Require Import Base Forms.
Import ListNotations.
Open Scope Z_scope.

(* ---- decidable equalities -------------------------------------------------------------------- *)
Lemma bigty_eqb_eq a b : bigty_eqb a b = true -> a = b.
Proof. destruct a, b; simpl; congruence. Qed.
Lemma sty_eqb_eq a b : sty_eqb a b = true -> a = b.
Proof. destruct a, b; try reflexivity; intros H; vm_compute in H; discriminate. Qed.
Lemma oty_eqb_eq a b : oty_eqb a b = true -> a = b.
Proof.
  destruct a, b; simpl; try discriminate; intros H.
  - f_equal; apply bigty_eqb_eq; assumption.
  - f_equal; apply sty_eqb_eq; assumption.
Qed.
Lemma okind_eqb_eq a b : okind_eqb a b = true -> a = b.
Proof.
  destruct a as [ta ra], b as [tb rb]; unfold okind_eqb; simpl.
  rewrite andb_true_iff; intros [H1 H2].
  apply oty_eqb_eq in H1; apply eqb_prop in H2; subst; reflexivity.
Qed.
Lemma opk_eqb_eq a b : opk_eqb a b = true -> a = b.
Proof. destruct a, b; try reflexivity; intros H; vm_compute in H; discriminate. Qed.
Lemma role_eqb_eq a b : role_eqb a b = true -> a = b.
Proof. destruct a, b; try reflexivity; intros H; vm_compute in H; discriminate. Qed.

Lemma lookup_spec tbl r o k1 k2 g :
  lookup tbl r o k1 k2 = Some g -> f_role g = r /\ f_op g = o /\ f_lhs g = k1 /\ f_rhs g = k2.
Proof.
  unfold lookup; intros H; apply find_some in H; destruct H as [_ H].
  unfold same_key in H; rewrite !andb_true_iff in H; destruct H as [[[H1 H2] H3] H4].
  apply role_eqb_eq in H1; apply opk_eqb_eq in H2; apply okind_eqb_eq in H3; apply okind_eqb_eq in H4.
  auto.
Qed.

(* ---- scalar ranges ------------------------------------------------------------------------------ *)
Lemma srange s : shi s - slo s + 1 = 2 ^ sbits s.
Proof. destruct s; vm_compute; reflexivity. Qed.
Lemma wrap_id s v : slo s <= v <= shi s -> wrap s v = v.
Proof.
  intros H; unfold wrap; pose proof (srange s) as R.
  rewrite Z.mod_small by lia; lia.
Qed.
Lemma contains_spec s t v : contains s t = true -> slo t <= v <= shi t -> slo s <= v <= shi s.
Proof. unfold contains; rewrite andb_true_iff, !Z.leb_le; lia. Qed.

(* a decorated argument denotes the value of the operand it names, and that value inhabits the
   kind computed for it *)
Lemma arg_kind_val f a k x y :
  arg_kind f a = Some k ->
  in_oty (k_ty (f_lhs f)) x -> in_oty (k_ty (f_rhs f)) y ->
  let v := match a_src a with ASelf => x | AOther => y end in
  arg_val a x y = v /\ in_oty (k_ty k) v.
Proof.
  intros H Hx Hy v.
  assert (Hv : in_oty (k_ty (match a_src a with ASelf => f_lhs f | AOther => f_rhs f end)) v)
    by (subst v; destruct (a_src a); assumption).
  unfold arg_kind in H; unfold arg_val; fold v.
  set (k0 := match a_src a with ASelf => f_lhs f | AOther => f_rhs f end) in *.
  assert (Hk1 : forall k1,
            match a_mod a with
            | MVal => Some k0
            | MRef => if k_ref k0 then None else Some (mkK (k_ty k0) true)
            | MDeref => if k_ref k0 then match k_ty k0 with OSc _ => Some (mkK (k_ty k0) false) | OBig _ => None end else None
            | MClone => Some (mkK (k_ty k0) false)
            | MReborrow => match f_role f, a_src a with
                           | RAssign, ASelf => if k_ref k0 then None else Some (mkK (k_ty k0) true)
                           | _, _ => None end
            end = Some k1 -> k_ty k1 = k_ty k0).
  { intros k1 E. destruct (a_mod a).
    - inversion E; reflexivity.
    - destruct (k_ref k0); inversion E; reflexivity.
    - destruct (k_ref k0); [destruct (k_ty k0); inversion E; reflexivity | discriminate].
    - inversion E; reflexivity.
    - destruct (f_role f); try discriminate; destruct (a_src a); try discriminate;
        destruct (k_ref k0); inversion E; reflexivity. }
  match type of H with (match ?e with _ => _ end) = _ => destruct e as [k1|] eqn:E1 end; [|discriminate].
  specialize (Hk1 k1 eq_refl).
  destruct (a_cast a) as [s|].
  - destruct (k_ty k1) as [b|t] eqn:Et; [discriminate|].
    destruct (k_ref k1); [discriminate|].
    destruct (contains s t) eqn:Ec; [|discriminate].
    inversion H; subst k; simpl.
    rewrite <- Hk1 in Hv; simpl in Hv.
    pose proof (contains_spec s t v Ec Hv) as R.
    split; [apply wrap_id; assumption | assumption].
  - inversion H; subst k. split; [reflexivity|]. rewrite Hk1; assumption.
Qed.

Lemma call_target_spec tbl f r o a1 a2 g :
  call_target tbl f r o a1 a2 = Some g ->
  exists k1 k2 sw,
    arg_kind f a1 = Some k1 /\ arg_kind f a2 = Some k2 /\ lookup tbl r o k1 k2 = Some g /\
    o = f_op f /\ is_arith_role r = true /\ fam g = fam f /\
    asrc_swapped a1 a2 = Some sw /\ (sw = true -> commutative o = true).
Proof.
  unfold call_target; intros H.
  destruct (is_arith_role (f_role f) && is_arith_role r && opk_eqb o (f_op f)) eqn:E0; simpl in H; [|discriminate].
  rewrite !andb_true_iff in E0; destruct E0 as [[_ Er] Eo]; apply opk_eqb_eq in Eo.
  destruct (asrc_swapped a1 a2) as [sw|] eqn:Es; [|discriminate].
  destruct (sw && negb (commutative o)) eqn:Ec; [discriminate|].
  destruct (arg_kind f a1) as [k1|] eqn:E1; [|discriminate].
  destruct (arg_kind f a2) as [k2|] eqn:E2; [|discriminate].
  destruct (lookup tbl r o k1 k2) as [g'|] eqn:El; [|discriminate].
  destruct (bigty_eqb (fam g') (fam f)) eqn:Ef; [|discriminate].
  inversion H; subst g'. apply bigty_eqb_eq in Ef.
  exists k1, k2, sw; repeat split; auto.
  intros ->; simpl in Ec; destruct (commutative o); [reflexivity|discriminate].
Qed.

Section Sound.
  Variable sem : bigty -> opk -> Z -> Z -> outcome Z.
  Variable leaf : form -> Z -> Z -> outcome Z.
  Variable tbl : list form.
  Variable orc : form -> Z -> Z -> bool.

  Hypothesis sem_comm : forall b o x y, commutative o = true -> sem b o x y = sem b o y x.
  Hypothesis leaf_ok : forall f x y,
      is_arith_role (f_role f) = true -> f_shape f = SLeaf -> known_leaf f = true ->
      in_oty (k_ty (f_lhs f)) x -> in_oty (k_ty (f_rhs f)) y ->
      leaf f x y = sem (fam f) (f_op f) x y.

  Lemma eval_call_sound n f r o a1 a2 g x y :
    (forall g, is_arith_role (f_role g) = true -> check_fuel tbl n g = true ->
               forall x y, in_oty (k_ty (f_lhs g)) x -> in_oty (k_ty (f_rhs g)) y ->
                           eval_fuel leaf tbl orc n g x y = sem (fam g) (f_op g) x y) ->
    call_target tbl f r o a1 a2 = Some g -> check_fuel tbl n g = true ->
    in_oty (k_ty (f_lhs f)) x -> in_oty (k_ty (f_rhs f)) y ->
    eval_call tbl (eval_fuel leaf tbl orc n) f r o a1 a2 x y = sem (fam f) (f_op f) x y.
  Proof.
    intros IH Hc Hg Hx Hy.
    apply call_target_spec in Hc.
    destruct Hc as (k1 & k2 & sw & E1 & E2 & El & Eo & Er & Ef & Es & Ecomm).
    unfold eval_call; rewrite E1, E2, El.
    pose proof (lookup_spec _ _ _ _ _ _ El) as (Gr & Go & Gl & Gk).
    pose proof (arg_kind_val f a1 k1 x y E1 Hx Hy) as [V1 R1].
    pose proof (arg_kind_val f a2 k2 x y E2 Hx Hy) as [V2 R2].
    rewrite IH; [| rewrite Gr; assumption | assumption | rewrite Gl, V1; assumption | rewrite Gk, V2; assumption].
    rewrite Ef, Go, V1, V2, <- Eo.
    unfold asrc_swapped in Es.
    destruct (a_src a1), (a_src a2); inversion Es; subst sw; try reflexivity.
    apply sem_comm; apply Ecomm; reflexivity.
  Qed.

  Lemma check_fuel_sound n : forall f,
      is_arith_role (f_role f) = true -> check_fuel tbl n f = true ->
      forall x y, in_oty (k_ty (f_lhs f)) x -> in_oty (k_ty (f_rhs f)) y ->
                  eval_fuel leaf tbl orc n f x y = sem (fam f) (f_op f) x y.
  Proof.
    induction n as [|n IH]; intros f Hr Hc x y Hx Hy; simpl in Hc; [discriminate|].
    simpl. destruct (f_shape f) eqn:Es; try discriminate.
    - apply leaf_ok; assumption.
    - destruct (call_target tbl f r o a1 a2) as [g|] eqn:Et; [|discriminate].
      eapply eval_call_sound; eauto.
    - destruct (call_target tbl f r1 o1 a1 a2) as [g1|] eqn:Et1; [|discriminate].
      destruct (call_target tbl f r2 o2 b1 b2) as [g2|] eqn:Et2; [|discriminate].
      apply andb_true_iff in Hc; destruct Hc as [Hc1 Hc2].
      destruct (orc f x y); eapply eval_call_sound; eauto.
  Qed.

  (* THE generic theorem: whatever the capacity oracle answers *)
  Theorem form_sound f :
    is_arith_role (f_role f) = true -> check_form tbl f = true ->
    forall x y, in_oty (k_ty (f_lhs f)) x -> in_oty (k_ty (f_rhs f)) y ->
                eval_form leaf tbl orc f x y = sem (fam f) (f_op f) x y.
  Proof.
    intros Hr Hc x y Hx Hy. unfold eval_form. apply check_fuel_sound; try assumption.
    unfold check_form in Hc. destruct (f_role f); try discriminate; assumption.
  Qed.

  (* ---- checked_* ---- *)
  Variable leafc : form -> Z -> Z -> outcome (option Z).
  Hypothesis sem_total : forall b o x y, never_panics b o = true ->
      in_oty (OBig b) x -> in_oty (OBig b) y -> exists v, sem b o x y = Ret v.
  Hypothesis sem_divzero : forall b o x y, panics_iff_zero o = true ->
      in_oty (OBig b) x -> in_oty (OBig b) y ->
      (y = 0 -> exists k, sem b o x y = Panic k) /\ (y <> 0 -> exists v, sem b o x y = Ret v).
  Hypothesis leafc_ok : forall f x y,
      f_role f = RChecked -> f_shape f = SLeaf -> known_leaf f = true ->
      in_oty (OBig (fam f)) x -> in_oty (OBig (fam f)) y ->
      leafc f x y = checked_of (sem (fam f) (f_op f) x y).

  Lemma refref_row b o g x y :
    lookup tbl RBinop o (kb b true) (kb b true) = Some g -> check_fuel tbl FUEL g = true ->
    in_oty (OBig b) x -> in_oty (OBig b) y ->
    eval_form leaf tbl orc g x y = sem b o x y.
  Proof.
    intros El Hc Hx Hy.
    pose proof (lookup_spec _ _ _ _ _ _ El) as (Gr & Go & Gl & Gk).
    unfold eval_form. rewrite check_fuel_sound; try assumption.
    - unfold fam; rewrite Gl, Go; reflexivity.
    - rewrite Gr; reflexivity.
    - rewrite Gl; assumption.
    - rewrite Gk; assumption.
  Qed.

  Theorem checked_sound f :
    f_role f = RChecked -> check_form tbl f = true ->
    forall x y, in_oty (OBig (fam f)) x -> in_oty (OBig (fam f)) y ->
                eval_checked leaf tbl orc leafc f x y = checked_of (sem (fam f) (f_op f) x y).
  Proof.
    intros Hr Hc x y Hx Hy. unfold check_form in Hc; rewrite Hr in Hc.
    rewrite !andb_true_iff in Hc; destruct Hc as [_ Hc].
    unfold eval_checked. destruct (f_shape f) eqn:Es; try discriminate.
    - apply leafc_ok; assumption.
    - apply andb_true_iff in Hc; destruct Hc as [Hn Hc].
      destruct (lookup tbl RBinop (f_op f) (kb (fam f) true) (kb (fam f) true)) as [g|] eqn:El; [|discriminate].
      rewrite (refref_row _ _ _ _ _ El Hc Hx Hy).
      destruct (sem_total _ _ x y Hn Hx Hy) as [v ->]; reflexivity.
    - apply andb_true_iff in Hc; destruct Hc as [Hn Hc].
      destruct (lookup tbl RBinop (f_op f) (kb (fam f) true) (kb (fam f) true)) as [g|] eqn:El; [|discriminate].
      destruct (sem_divzero _ _ x y Hn Hx Hy) as [Hz Hnz].
      destruct (Z.eqb_spec y 0) as [E|E].
      + destruct (Hz E) as [k ->]; reflexivity.
      + rewrite (refref_row _ _ _ _ _ El Hc Hx Hy). destruct (Hnz E) as [v ->]; reflexivity.
  Qed.

  (* ---- Sum / Product ---- *)
  Definition fold_sem (b : bigty) (o : opk) (init : Z) (l : list Z) : outcome Z :=
    fold_left (fun acc v => bind acc (fun a => sem b o a v)) l (Ret init).

  Theorem fold_sound f kt b init o g l :
    f_shape f = SFold init o -> k_ty (f_lhs f) = OBig b ->
    lookup tbl RBinop o (kb b false) kt = Some g -> check_fuel tbl FUEL g = true ->
    (forall x y v, in_oty (OBig b) x -> in_oty (k_ty kt) y -> sem b o x y = Ret v -> in_oty (OBig b) v) ->
    in_oty (OBig b) init -> Forall (in_oty (k_ty kt)) l ->
    eval_fold leaf tbl orc f kt l = fold_sem b o init l.
  Proof.
    intros Es Eb El Hc Hclosed Hi Hl.
    unfold eval_fold, fold_sem; rewrite Es, Eb; unfold kb in El; rewrite El.
    pose proof (lookup_spec _ _ _ _ _ _ El) as (Gr & Go & Gl & Gk).
    assert (Hg : forall a v, in_oty (OBig b) a -> in_oty (k_ty kt) v -> eval_form leaf tbl orc g a v = sem b o a v).
    { intros a v Ha Hv. unfold eval_form. rewrite check_fuel_sound; try assumption.
      - unfold fam; rewrite Gl, Go; reflexivity.
      - rewrite Gr; reflexivity.
      - rewrite Gl; assumption.
      - rewrite Gk; assumption. }
    assert (Gen : forall acc : outcome Z,
               (forall a, acc = Ret a -> in_oty (OBig b) a) ->
               fold_left (fun acc v => bind acc (fun a => eval_form leaf tbl orc g a v)) l acc =
               fold_left (fun acc v => bind acc (fun a => sem b o a v)) l acc).
    { induction Hl as [|v l Hv Hl IH]; intros acc Hacc; simpl; [reflexivity|].
      assert (E : bind acc (fun a => eval_form leaf tbl orc g a v) = bind acc (fun a => sem b o a v)).
      { destruct acc; simpl; try reflexivity. apply Hg; [apply Hacc; reflexivity | assumption]. }
      rewrite E. apply IH.
      intros a Ea. destruct acc as [a0| |]; simpl in Ea; try discriminate.
      eapply Hclosed; [apply Hacc; reflexivity | exact Hv | exact Ea]. }
    apply Gen. intros a Ea; inversion Ea; subst; assumption.
  Qed.
End Sound.

(* ---- the concrete reference semantics ------------------------------------------------------------ *)
Lemma zsem_comm b o x y : commutative o = true -> zsem b o x y = zsem b o y x.
Proof.
  destruct o; simpl; try discriminate; intros _; f_equal.
  - apply Z.add_comm.
  - apply Z.mul_comm.
  - apply Z.land_comm.
  - apply Z.lor_comm.
  - apply Z.lxor_comm.
Qed.

Lemma zsem_total b o x y : never_panics b o = true ->
  in_oty (OBig b) x -> in_oty (OBig b) y -> exists v, zsem b o x y = Ret v.
Proof.
  destruct o; simpl; try discriminate; intros H _ _; eauto.
  destruct b; simpl in H; [discriminate|eauto].
Qed.

Lemma zsem_divzero b o x y : panics_iff_zero o = true ->
  in_oty (OBig b) x -> in_oty (OBig b) y ->
  (y = 0 -> exists k, zsem b o x y = Panic k) /\ (y <> 0 -> exists v, zsem b o x y = Ret v).
Proof.
  destruct o; simpl; try discriminate; intros _ _ _;
    (split; intros E; [subst y; simpl; eauto | destruct (Z.eqb_spec y 0); [contradiction|eauto]]).
Qed.

(* Sum = the sum, Product = the product *)
Lemma zsum_spec b l acc :
  fold_left (fun acc v => bind acc (fun a => zsem b OpAdd a v)) l (Ret acc) = Ret (fold_left Z.add l acc).
Proof. revert acc; induction l as [|v l IH]; intros acc; simpl; [reflexivity | apply IH]. Qed.
Lemma zproduct_spec b l acc :
  fold_left (fun acc v => bind acc (fun a => zsem b OpMul a v)) l (Ret acc) = Ret (fold_left Z.mul l acc).
Proof. revert acc; induction l as [|v l IH]; intros acc; simpl; [reflexivity | apply IH]. Qed.

Lemma zsem_closed_add_mul b o kt x y v :
  (o = OpAdd \/ o = OpMul) -> in_oty (OBig b) x -> in_oty kt y ->
  (b = FamU -> 0 <= y) -> zsem b o x y = Ret v -> in_oty (OBig b) v.
Proof.
  intros Ho Hx Hy Hpos E. destruct b; simpl in *; [|exact I].
  specialize (Hpos eq_refl).
  destruct Ho; subst o; simpl in E; inversion E; nia.
Qed.
