(* MulProofs5.v — C02, part 5: the regime dispatch, mac3 by induction on the fuel, mul3 and the
   public BigUint / BigInt multiplication forms. *)
From BigNum Require Import Base BaseLemmas X86 AddSub AddSubProofs ShiftCore ShiftCoreProofs
  Mul SpecMul MulProofs MulProofs2 MulProofs3 MulProofs4.
Open Scope Z_scope.

(** * The regime dispatch on sorted operands *)
Lemma mac3_sorted_spec rec p acc x y : mul_ok p = true -> rec_ok rec (length x + length y) ->
  wf acc -> wf x -> wf y -> (length x <= length y)%nat -> room acc x y ->
  exists r,
    (if cmp_eval (mp_long_cmp p) (lenZ x) (mp_long_max p) then long_mul p acc x y
     else if cmp_eval (mp_half_cmp p) (lenZ x * mp_half_mul p) (lenZ y) then half_kara rec p acc x y
     else if cmp_eval (mp_kara_cmp p) (lenZ x) (mp_kara_max p) then karatsuba rec p acc x y
     else toom3 rec p acc x y) = Ret r /\ adds acc r (val x * val y).
Proof.
  intros Hp Hrec Wa Wx Wy Hxy Hr.
  pose proof (mul_ok_inv p Hp) as (_ & _ & Hlc & Hlm & _ & _ & Hkc & Hkm & _).
  rewrite (eff_spec _ _ _ Hlc), (eff_spec _ _ _ Hkc).
  destruct (Z.leb_spec (lenZ x) (eff (mp_long_cmp p) (mp_long_max p))) as [Hl|Hl].
  { apply long_mul_spec; auto.
    - apply room_len; auto.
    - apply fits_lt with (m := lenZ x + lenZ y); [unfold lenZ; lia|exact Hr]. }
  assert (H2 : (2 <= length x)%nat) by (unfold lenZ in Hl; lia).
  destruct (cmp_eval (mp_half_cmp p) (lenZ x * mp_half_mul p) (lenZ y)).
  { apply half_kara_spec; auto. lia. }
  destruct (Z.leb_spec (lenZ x) (eff (mp_kara_cmp p) (mp_kara_max p))) as [Hk|Hk].
  { apply karatsuba_spec; auto. }
  apply toom3_spec; auto. unfold lenZ in *. lia.
Qed.

Lemma mac3_body_spec rec p acc b c : mul_ok p = true -> rec_ok rec (length b + length c) ->
  wf acc -> wf b -> wf c -> room acc b c ->
  exists r, mac3_body rec p acc b c = Ret r /\ adds acc r (val b * val c).
Proof.
  intros Hp Hrec Wa Wb Wc Hr. unfold mac3_body.
  pose proof (mul_ok_inv p Hp) as (_ & Hsw & _).
  assert (Hcase : (cmp_eval (mp_swap_cmp p) (lenZ b) (lenZ c) = true /\ lenZ b <= lenZ c) \/
                  (cmp_eval (mp_swap_cmp p) (lenZ b) (lenZ c) = false /\ lenZ c <= lenZ b)).
  { destruct (mp_swap_cmp p); try discriminate; cbn [cmp_eval].
    - destruct (Z.ltb_spec (lenZ b) (lenZ c)); [left|right]; split; auto; lia.
    - destruct (Z.leb_spec (lenZ b) (lenZ c)); [left|right]; split; auto; lia. }
  destruct Hcase as [[E Hle]|[E Hle]]; rewrite E.
  - apply mac3_sorted_spec; auto. unfold lenZ in Hle. lia.
  - rewrite (Z.mul_comm (val b)). apply mac3_sorted_spec; auto.
    + rewrite Nat.add_comm. exact Hrec.
    + unfold lenZ in Hle. lia.
    + apply room_sym; auto.
Qed.

(** * mac3: every recursive call strictly decreases |b| + |c| *)
Theorem mac3_rec_ok p : mul_ok p = true -> forall fuel, rec_ok (mac3 fuel p) fuel.
Proof.
  intros Hp. induction fuel as [|f IH]; intros acc b c Wa Wb Wc Hl Hr; [lia|].
  cbn [mac3]. apply mac3_strip_spec; auto.
  intros acc' b' c' Wa' Wb' Wc' Hl' Hr'.
  apply mac3_body_spec; auto. apply (rec_ok_mono _ f); [lia|exact IH].
Qed.

Theorem mac3_spec p acc b c : mul_ok p = true -> wf acc -> wf b -> wf c -> room acc b c ->
  exists acc', mac3 (fuel3 b c) p acc b c = Ret acc' /\
               wf acc' /\ length acc' = length acc /\ val acc' = val acc + val b * val c.
Proof.
  intros Hp Wa Wb Wc Hr. apply (mac3_rec_ok p Hp (fuel3 b c)); auto; unfold fuel3; lia.
Qed.

Theorem mul3_spec p x y : mul_ok p = true -> wf x -> wf y ->
  mul3 p x y = Ret (enc (val x * val y)).
Proof.
  intros Hp Wx Wy. unfold mul3.
  apply (mul3_with_spec _ p (fuel3 x y)); auto using mac3_rec_ok; unfold fuel3; lia.
Qed.

(** * BigUint *)
Theorem umul_spec p a b : mul_ok p = true -> canon a -> canon b ->
  umul p a b = Ret (enc (val a * val b)).
Proof.
  intros Hp Ca Cb. unfold umul.
  apply (umul_with_spec _ p (fuel3 a b)); auto using mac3_rec_ok; unfold fuel3; lia.
Qed.

Theorem umul_assign_spec p a b : mul_ok p = true -> canon a -> canon b ->
  umul_assign p a b = Ret (enc (val a * val b)).
Proof.
  intros Hp Ca Cb. unfold umul_assign.
  destruct a as [|a0 a']; [rewrite val_nil, Z.mul_0_l; reflexivity|].
  destruct b as [|b0 b']; [rewrite val_nil, Z.mul_0_r; destruct a'; reflexivity|].
  destruct a' as [|a1 a'']; destruct b' as [|b1 b''].
  - rewrite scalar_mul_spec by (auto using canon_single_digit). rewrite (val_single b0). reflexivity.
  - rewrite scalar_mul_spec by (auto using canon_single_digit). rewrite (val_single a0), Z.mul_comm. reflexivity.
  - rewrite scalar_mul_spec by (auto using canon_single_digit). rewrite (val_single b0). reflexivity.
  - apply mul3_spec; auto; [apply Ca|apply Cb].
Qed.

Theorem uchecked_mul_spec p a b : mul_ok p = true -> canon a -> canon b ->
  uchecked_mul p a b = Ret (Some (enc (val a * val b))).
Proof. intros. unfold uchecked_mul. rewrite umul_spec by auto. reflexivity. Qed.

(** scalar forms: u32 / u64 (one digit) and u128 *)
Theorem umul_digit_spec a s : canon a -> 0 <= s < B -> umul_digit a s = Ret (enc (val a * s)).
Proof. intros. apply scalar_mul_spec; auto. Qed.

Theorem umul_u128_spec p a s : mul_ok p = true -> canon a -> 0 <= s < B * B ->
  umul_u128 p a s = Ret (enc (val a * s)).
Proof.
  intros Hp Ca Hs. unfold umul_u128. pose proof B_pos.
  destruct (Z.ltb_spec s B) as [Hlt|Hge].
  - apply scalar_mul_spec; auto. unfold digit; lia.
  - rewrite mul3_spec; auto; [|apply Ca|].
    + do 2 f_equal. cbn [val]. pose proof (Z.div_mod s B). lia.
    + apply wf_cons; split; [unfold digit; apply Z.mod_pos_bound; lia|].
      apply wf_single. unfold digit. split; [apply Z.div_pos; lia|apply Z.div_lt_upper_bound; lia].
Qed.

(** * BigInt *)
Theorem imul_spec p x y : mul_ok p = true -> icanon x -> icanon y ->
  imul p x y = Ret (ienc (ival x * ival y)).
Proof.
  intros Hp Cx Cy. unfold imul.
  apply (imul_with_spec _ p (fuel3 (mag x) (mag y))); auto using mac3_rec_ok; unfold fuel3; lia.
Qed.

Lemma icanon_val_mag x : icanon x -> ival x = sign_z (sg x) * val (mag x).
Proof. reflexivity. Qed.

Lemma mkint_ienc s m : canon m -> m <> [] -> s <> NoSign -> mkint s m = ienc (sign_z s * val m).
Proof.
  intros Cm Hm Hs. rewrite <- from_biguint_ienc by auto.
  destruct s; try congruence; destruct m; try congruence; reflexivity.
Qed.

Theorem imul_assign_spec p x y : mul_ok p = true -> icanon x -> icanon y ->
  imul_assign p x y = Ret (ienc (ival x * ival y)).
Proof.
  intros Hp Cx Cy. unfold imul_assign.
  rewrite umul_assign_spec by (auto; apply Cx || apply Cy). cbn [bind]. f_equal.
  pose proof (val_nonneg _ (proj1 (proj1 Cx))) as Hx0. pose proof (val_nonneg _ (proj1 (proj1 Cy))) as Hy0.
  destruct (enc (val (mag x) * val (mag y))) as [|d r] eqn:E.
  - apply enc_nil_iff in E; [|nia]. unfold ival.
    replace (sign_z (sg x) * val (mag x) * (sign_z (sg y) * val (mag y)))
      with (sign_z (sg x) * sign_z (sg y) * (val (mag x) * val (mag y))) by ring.
    rewrite E, Z.mul_0_r. reflexivity.
  - rewrite <- E. assert (Hne : enc (val (mag x) * val (mag y)) <> []) by (rewrite E; discriminate).
    rewrite mkint_ienc; auto using enc_canon.
    + rewrite enc_val by nia. rewrite sign_z_mul. unfold ival. f_equal. ring.
    + intros Hs. apply Hne. apply enc_nil_iff; [nia|].
      destruct Cx as [_ Hx], Cy as [_ Hy].
      destruct (sg x) eqn:Ex, (sg y) eqn:Ey; try discriminate;
        try (rewrite (proj1 Hx eq_refl), val_nil; lia); try (rewrite (proj1 Hy eq_refl), val_nil; lia).
Qed.

Theorem ichecked_mul_spec p x y : mul_ok p = true -> icanon x -> icanon y ->
  ichecked_mul p x y = Ret (Some (ienc (ival x * ival y))).
Proof. intros. unfold ichecked_mul. rewrite imul_spec by auto. reflexivity. Qed.

Lemma from_biguint_scaled x m : icanon x -> 0 <= m ->
  from_biguint (sg x) (enc (val (mag x) * m)) = ienc (ival x * m).
Proof.
  intros Cx Hm. pose proof (val_nonneg _ (proj1 (proj1 Cx))).
  rewrite from_biguint_ienc by apply enc_canon. rewrite enc_val by nia. unfold ival. f_equal. ring.
Qed.

(** `BigInt * u32/u64` ([wide = false], s < B) and `BigInt * u128` ([wide = true]) *)
Theorem imul_uscalar_spec p (wide : bool) x s : mul_ok p = true -> icanon x ->
  0 <= s < (if wide then B * B else B) ->
  imul_uscalar p wide x s = Ret (ienc (ival x * s)).
Proof.
  intros Hp Cx Hs. unfold imul_uscalar. destruct wide.
  - rewrite umul_u128_spec by (auto; apply Cx). cbn [bind]. rewrite from_biguint_scaled by (auto; lia). reflexivity.
  - rewrite umul_digit_spec by (auto; apply Cx). cbn [bind]. rewrite from_biguint_scaled by (auto; lia). reflexivity.
Qed.

(** `BigInt * i32/i64/i128` *)
Theorem imul_iscalar_spec p (wide : bool) x s : mul_ok p = true -> icanon x ->
  - (if wide then B * B else B) < s < (if wide then B * B else B) ->
  imul_iscalar p wide x s = Ret (ienc (ival x * s)).
Proof.
  intros Hp Cx Hs. unfold imul_iscalar. destruct (Z.leb_spec 0 s).
  - apply imul_uscalar_spec; auto. lia.
  - rewrite imul_uscalar_spec by (auto using ineg_canon; lia). rewrite ineg_val. do 2 f_equal. ring.
Qed.
