(* BytesLemmas.v — little-endian digit strings in an arbitrary base b >= 2:
   [le_value], [le_digits] (SpecBytes.v), uniqueness of the representation without a high
   zero digit ([strip l = l]), and the bridge to the native representation ([val]/[enc]). *)
From BigNum Require Import Base BaseLemmas SpecBytes.
Open Scope Z_scope.

Definition inb (b : Z) (l : list Z) : Prop := Forall (fun d => 0 <= d < b) l.

Lemma inb_cons b d l : inb b (d :: l) <-> 0 <= d < b /\ inb b l.
Proof. split; [inversion 1; auto|intros [? ?]; constructor; auto]. Qed.
Lemma inb_app b l1 l2 : inb b (l1 ++ l2) <-> inb b l1 /\ inb b l2.
Proof. apply Forall_app. Qed.
Lemma inb_nil b : inb b []. Proof. constructor. Qed.
Lemma inb_rev b l : inb b l -> inb b (rev l).
Proof. apply Forall_rev. Qed.
Lemma inb_wf l : inb B l <-> wf l.
Proof. reflexivity. Qed.

Lemma digit_mod b d x : 0 <= d < b -> (d + b * x) mod b = d.
Proof. intros H. replace (d + b * x) with (d + x * b) by ring. rewrite Z_mod_plus_full. apply Z.mod_small; auto. Qed.
Lemma digit_div b d x : 0 <= d < b -> (d + b * x) / b = x.
Proof.
  intros H. replace (d + b * x) with (d + x * b) by ring. rewrite Z_div_plus_full by lia.
  rewrite Z.div_small; lia.
Qed.

(** ** strip on arbitrary lists *)
Lemma strip_app_nz l x : x <> 0 -> strip (l ++ [x]) = l ++ [x].
Proof.
  intros Hx; induction l as [|d l IH].
  - simpl. destruct (Z.eqb_spec x 0); congruence.
  - change ((d :: l) ++ [x]) with (d :: (l ++ [x])). rewrite strip_cons, IH.
    destruct l; reflexivity.
Qed.
Lemma strip_app_zero l : strip (l ++ [0]) = strip l.
Proof.
  induction l as [|d l IH]; [reflexivity|].
  change ((d :: l) ++ [0]) with (d :: (l ++ [0])). rewrite !strip_cons, IH. reflexivity.
Qed.
Lemma strip_app_zeros l k : strip (l ++ zeros k) = strip l.
Proof.
  induction k as [|k IH]; [rewrite app_nil_r; reflexivity|].
  replace (zeros (S k)) with (zeros k ++ [0]).
  - rewrite app_assoc, strip_app_zero; exact IH.
  - unfold zeros. change [0] with (repeat 0 1). rewrite <- repeat_app. f_equal. lia.
Qed.
Lemma strip_fix_cons d r : strip (d :: r) = d :: r -> strip r = r /\ (r = [] -> d <> 0).
Proof.
  rewrite strip_cons. destruct (strip r) as [|e r'] eqn:E.
  - destruct (Z.eqb_spec d 0); [discriminate|]. intros H; inversion H; subst. split; auto.
  - intros H; inversion H; subst. split; [auto|discriminate].
Qed.
Lemma strip_fix_last l : strip l = l -> l <> [] -> last l 0 <> 0.
Proof.
  induction l as [|d l IH]; [congruence|]. intros H _.
  apply strip_fix_cons in H as [Hr Hd]. destruct l as [|e l]; [simpl; auto|].
  change (last (d :: e :: l) 0) with (last (e :: l) 0). apply IH; [auto|discriminate].
Qed.
Lemma strip_fix_snoc l x : strip (l ++ [x]) = l ++ [x] -> x <> 0.
Proof.
  intros H Hx; subst. rewrite strip_app_zero in H.
  pose proof (length_strip l). rewrite H, app_length in H0. simpl in H0. lia.
Qed.

(** ** le_value *)
Lemma le_value_app b l1 l2 :
  le_value b (l1 ++ l2) = le_value b l1 + b ^ Z.of_nat (length l1) * le_value b l2.
Proof.
  induction l1 as [|d l IH]; [cbn [app le_value length Z.of_nat]; rewrite Z.pow_0_r; lia|].
  cbn [app le_value length]. rewrite IH, Nat2Z.inj_succ, Z.pow_succ_r by lia. ring.
Qed.
Lemma le_value_bound b l : 0 < b -> inb b l -> 0 <= le_value b l < b ^ Z.of_nat (length l).
Proof.
  intros Hb; induction l as [|d l IH]; intros H; [simpl; lia|].
  apply inb_cons in H as [Hd Hl]; specialize (IH Hl).
  cbn [le_value length]. rewrite Nat2Z.inj_succ, Z.pow_succ_r by lia. nia.
Qed.
Lemma le_value_B l : le_value B l = val l.
Proof. induction l as [|d l IH]; [reflexivity|]. cbn [le_value val]. rewrite IH; reflexivity. Qed.
Lemma le_value_zeros b k : le_value b (zeros k) = 0.
Proof. induction k as [|k IH]; [reflexivity|]. cbn [zeros repeat le_value]. fold (zeros k). lia. Qed.
Lemma le_value_strip b l : le_value b (strip l) = le_value b l.
Proof.
  induction l as [|d l IH]; [reflexivity|].
  rewrite strip_cons. cbn [le_value]. rewrite <- IH.
  destruct (strip l) as [|e r'].
  - destruct (Z.eqb_spec d 0); simpl; lia.
  - reflexivity.
Qed.
Lemma inb_strip b l : inb b l -> inb b (strip l).
Proof.
  induction l as [|d l IH]; intros H; [constructor|].
  apply inb_cons in H as [Hd Hl]; specialize (IH Hl).
  rewrite strip_cons; destruct (strip l) as [|e r'].
  - destruct (d =? 0); [constructor|apply inb_cons; split; [auto|constructor]].
  - apply inb_cons; auto.
Qed.

Lemma le_value_lower b l : 1 < b -> inb b l -> strip l = l -> l <> [] ->
  b ^ (Z.of_nat (length l) - 1) <= le_value b l.
Proof.
  intros Hb; induction l as [|d l IH]; [congruence|]. intros H Hs _.
  apply inb_cons in H as [Hd Hl]. apply strip_fix_cons in Hs as [Hr Hd0].
  cbn [le_value length]. rewrite Nat2Z.inj_succ.
  destruct l as [|e l].
  - simpl. specialize (Hd0 eq_refl). lia.
  - specialize (IH Hl Hr ltac:(discriminate)).
    replace (Z.succ (Z.of_nat (length (e :: l))) - 1) with (Z.succ (Z.of_nat (length (e :: l)) - 1)) by lia.
    rewrite Z.pow_succ_r by (simpl length; lia). nia.
Qed.

(** ** le_digits: uniqueness *)
Lemma le_digits_fuel_of_list b : 1 < b -> forall l f, (length l <= f)%nat ->
  inb b l -> strip l = l -> le_digits_fuel f b (le_value b l) = l.
Proof.
  intros Hb; induction l as [|d l IH]; intros f Hf H Hs.
  - destruct f; reflexivity.
  - destruct f as [|f]; [simpl in Hf; lia|].
    pose proof (le_value_lower b (d :: l) Hb H Hs ltac:(discriminate)) as Hlow.
    assert (0 < b ^ (Z.of_nat (length (d :: l)) - 1)) by (apply Z.pow_pos_nonneg; simpl length; lia).
    apply inb_cons in H as [Hd Hl]. apply strip_fix_cons in Hs as [Hr Hd0].
    cbn [le_digits_fuel]. destruct (Z.leb_spec (le_value b (d :: l)) 0); [lia|].
    cbn [le_value].
    pose proof (le_value_bound b l ltac:(lia) Hl) as Hbd.
    rewrite digit_mod, digit_div by auto.
    rewrite IH; auto. simpl in Hf; lia.
Qed.

Theorem le_digits_of_list b l : 1 < b -> inb b l -> strip l = l ->
  le_digits b (le_value b l) = l.
Proof.
  intros Hb H Hs. unfold le_digits. apply le_digits_fuel_of_list; auto.
  destruct l as [|d l]; [simpl; lia|].
  pose proof (le_value_lower b (d :: l) Hb H Hs ltac:(discriminate)) as Hlow.
  set (n := Z.of_nat (length (d :: l))) in *.
  assert (1 <= n) by (subst n; simpl length; lia).
  assert (2 ^ (n - 1) <= b ^ (n - 1)) by (apply Z.pow_le_mono_l; lia).
  assert (0 < 2 ^ (n - 1)) by (apply Z.pow_pos_nonneg; lia).
  assert (n - 1 <= Z.log2 (le_value b (d :: l))) by (apply Z.log2_le_pow2; lia).
  lia.
Qed.

Theorem le_digits_strip b l : 1 < b -> inb b l -> le_digits b (le_value b l) = strip l.
Proof.
  intros Hb H. rewrite <- (le_value_strip b l).
  apply le_digits_of_list; [auto|apply inb_strip; auto|apply strip_idem].
Qed.

(** [le_digits] itself: in range, no high zero, and it denotes [n] *)
Lemma le_digits_fuel_props b : 1 < b -> forall f n, n < b ^ Z.of_nat f ->
  let l := le_digits_fuel f b n in
  inb b l /\ strip l = l /\ le_value b l = Z.max 0 n.
Proof.
  intros Hb; induction f as [|f IH]; intros n Hn; cbn zeta.
  - simpl in *. repeat split; [constructor|lia].
  - cbn [le_digits_fuel]. destruct (Z.leb_spec n 0).
    + repeat split; [constructor|simpl; lia].
    + rewrite Nat2Z.inj_succ, Z.pow_succ_r in Hn by lia.
      assert (Hq : n / b < b ^ Z.of_nat f) by (apply Z.div_lt_upper_bound; lia).
      destruct (IH (n / b) Hq) as (Hi & Hs & Hv).
      repeat split.
      * apply inb_cons; split; [apply Z.mod_pos_bound; lia|auto].
      * rewrite strip_cons, Hs.
        destruct (le_digits_fuel f b (n / b)) as [|e r] eqn:E; [|reflexivity].
        simpl in Hv. assert (n / b = 0) by nia.
        destruct (Z.eqb_spec (n mod b) 0); [nia|reflexivity].
      * cbn [le_value]. rewrite Hv. pose proof (Z.div_mod n b ltac:(lia)).
        assert (0 <= n / b) by (apply Z.div_pos; lia). lia.
Qed.

Lemma log2_fuel b n : 1 < b -> n < b ^ Z.of_nat (Z.to_nat (Z.log2 n + 1)).
Proof.
  intros Hb. pose proof (Z.log2_nonneg n).
  rewrite Z2Nat.id by lia.
  destruct (Z.leb_spec n 0).
  - assert (0 < b ^ (Z.log2 n + 1)) by (apply Z.pow_pos_nonneg; lia). lia.
  - pose proof (Z.log2_spec n ltac:(lia)) as [_ Hu].
    replace (Z.succ (Z.log2 n)) with (Z.log2 n + 1) in Hu by lia.
    assert (2 ^ (Z.log2 n + 1) <= b ^ (Z.log2 n + 1)) by (apply Z.pow_le_mono_l; lia). lia.
Qed.

Theorem le_digits_spec b n : 1 < b -> 0 <= n ->
  inb b (le_digits b n) /\ strip (le_digits b n) = le_digits b n /\ le_value b (le_digits b n) = n.
Proof.
  intros Hb Hn. unfold le_digits.
  destruct (le_digits_fuel_props b Hb _ n (log2_fuel b n Hb)) as (H1 & H2 & H3).
  repeat split; auto. lia.
Qed.

(** bridge to the native representation *)
Theorem le_digits_B_enc n : 0 <= n -> le_digits B n = enc n.
Proof.
  intros Hn. pose proof B_gt1.
  destruct (le_digits_spec B n ltac:(lia) Hn) as (H1 & H2 & H3).
  apply canon_inj.
  - split; auto.
  - apply enc_canon.
  - rewrite <- le_value_B, H3, enc_val; auto.
Qed.
Lemma enc_le_value l : wf l -> enc (val l) = le_digits B (val l).
Proof. intros H. symmetry. apply le_digits_B_enc, val_nonneg; auto. Qed.

(** fixed-width digits *)
Lemma le_digits_n_length k b n : length (le_digits_n k b n) = k.
Proof. revert n; induction k; intros; simpl; auto. Qed.
Lemma le_digits_n_of_list b l : 1 < b -> inb b l ->
  le_digits_n (length l) b (le_value b l) = l.
Proof.
  intros Hb; induction l as [|d l IH]; intros H; [reflexivity|].
  apply inb_cons in H as [Hd Hl].
  pose proof (le_value_bound b l ltac:(lia) Hl) as Hbd.
  cbn [length le_digits_n le_value].
  rewrite digit_mod, digit_div by auto.
  rewrite IH; auto.
Qed.
Lemma le_digits_n_value b k n : 1 < b -> le_value b (le_digits_n k b n) = n mod b ^ Z.of_nat k.
Proof.
  intros Hb; revert n; induction k as [|k IH]; intros n.
  - simpl. rewrite Z.mod_1_r; reflexivity.
  - cbn [le_digits_n le_value]. rewrite IH, Nat2Z.inj_succ, Z.pow_succ_r by lia.
    assert (0 < b ^ Z.of_nat k) by (apply Z.pow_pos_nonneg; lia).
    rewrite Z.rem_mul_r by lia. ring.
Qed.
Lemma le_digits_n_inb b k n : 1 < b -> inb b (le_digits_n k b n).
Proof.
  intros Hb; revert n; induction k as [|k IH]; intros n; [constructor|].
  apply inb_cons; split; [apply Z.mod_pos_bound; lia|apply IH].
Qed.
