(* DivProofsSign.v — C03: the rounding conventions.  Z-level uniqueness of each convention and
   the sign fix-ups of the BigInt API (div_rem, div_floor, mod_floor, div_mod_floor, div_ceil,
   Euclid, Rem with its to_u32/to_i32 short-cuts, checked variants). *)
From BigNum Require Import Base BaseLemmas X86 AddSub SpecAddSub AddSubProofs ShiftCore ShiftCoreProofs
  Div SpecDiv DivProofs DivProofsCore DivProofsApi.
Open Scope Z_scope.

(** * Part 1: each convention determines the pair (q, r) uniquely, and the spec functions satisfy it *)

Lemma quotient_unique b q q' r r' : q * b + r = q' * b + r' -> Z.abs (r - r') < Z.abs b -> q = q'.
Proof.
  intros E H. assert (E' : (q - q') * b = r' - r) by lia.
  destruct (Z.eq_dec q q') as [|Hn]; [auto|exfalso].
  assert (1 <= Z.abs (q - q')) by lia.
  assert (Z.abs ((q - q') * b) = Z.abs (r' - r)) by (rewrite E'; reflexivity).
  rewrite Z.abs_mul in H1. nia.
Qed.

(** truncation toward zero: |r| < |b| and r has the sign of a (or is 0) *)
Definition trunc_cond (a b q r : Z) : Prop :=
  a = q * b + r /\ Z.abs r < Z.abs b /\ (0 <= a -> 0 <= r) /\ (a <= 0 -> r <= 0).
Lemma trunc_holds a b : b <> 0 -> trunc_cond a b (Z.quot a b) (Z.rem a b).
Proof.
  intros Hb. unfold trunc_cond. pose proof (Z.quot_rem' a b). pose proof (Z.rem_bound_abs a b Hb).
  split; [lia|]. split; [lia|]. split; [apply Z.rem_nonneg; auto|apply Z.rem_nonpos; auto].
Qed.
Lemma trunc_unique a b q r : b <> 0 -> trunc_cond a b q r -> q = Z.quot a b /\ r = Z.rem a b.
Proof.
  intros Hb (E & Hr & Hp & Hn). destruct (trunc_holds a b Hb) as (E0 & Hr0 & Hp0 & Hn0).
  assert (q = Z.quot a b).
  { apply (quotient_unique b q (Z.quot a b) r (Z.rem a b)); [lia|].
    destruct (Z.le_ge_cases 0 a); [specialize (Hp H); specialize (Hp0 H)|
                                   assert (Ha : a <= 0) by lia; specialize (Hn Ha); specialize (Hn0 Ha)]; lia. }
  split; [auto|]. subst q. lia.
Qed.

(** flooring: r has the sign of b *)
Definition floor_cond (a b q r : Z) : Prop := a = q * b + r /\ (0 <= r < b \/ b < r <= 0).
Lemma floor_holds a b : b <> 0 -> floor_cond a b (a / b) (a mod b).
Proof.
  intros Hb. unfold floor_cond. pose proof (Z.div_mod a b Hb).
  split; [lia|]. destruct (Z.lt_trichotomy b 0) as [H0|[H0|H0]]; [|lia|].
  - right. pose proof (Z.mod_neg_bound a b H0). lia.
  - left. apply Z.mod_pos_bound; auto.
Qed.
Lemma floor_unique a b q r : floor_cond a b q r -> q = a / b /\ r = a mod b.
Proof.
  intros (E & H). split; [apply Z.div_unique with r|apply Z.mod_unique with q]; auto; lia.
Qed.

(** Euclidean: 0 <= r < |b| *)
Definition euclid_cond (a b q r : Z) : Prop := a = q * b + r /\ 0 <= r < Z.abs b.
Lemma euclid_unique a b q r : b <> 0 -> euclid_cond a b q r -> q = euclid_div a b /\ r = euclid_rem a b.
Proof.
  intros Hb (E & H). unfold euclid_div, euclid_rem.
  assert (E' : a = Z.abs b * (Z.sgn b * q) + r).
  { destruct (Z.lt_trichotomy b 0) as [H0|[H0|H0]];
      [rewrite Z.abs_neq, Z.sgn_neg by lia|lia|rewrite Z.abs_eq, Z.sgn_pos by lia]; lia. }
  assert (a / Z.abs b = Z.sgn b * q) by (symmetry; apply Z.div_unique with r; auto; lia).
  split; [|apply Z.mod_unique with (Z.sgn b * q); auto; lia].
  rewrite H0, Z.mul_assoc. replace (Z.sgn b * Z.sgn b) with 1 by (destruct b; cbn; lia). lia.
Qed.
Lemma euclid_holds a b : b <> 0 -> euclid_cond a b (euclid_div a b) (euclid_rem a b).
Proof.
  intros Hb. unfold euclid_cond, euclid_div, euclid_rem.
  pose proof (Z.div_mod a (Z.abs b) ltac:(lia)). pose proof (Z.mod_pos_bound a (Z.abs b) ltac:(lia)).
  split; [|lia].
  destruct (Z.lt_trichotomy b 0) as [H1|[H1|H1]];
    [rewrite Z.abs_neq, Z.sgn_neg in * by lia|lia|rewrite Z.abs_eq, Z.sgn_pos in * by lia]; lia.
Qed.

(** rounding up: the remainder a - q*b has the sign opposite to b (or is 0) *)
Definition ceil_cond (a b q r : Z) : Prop := a = q * b + r /\ (- b < r <= 0 \/ 0 <= r < - b).
Lemma ceil_unique a b q r : ceil_cond a b q r -> q = ceil_div a b.
Proof.
  intros (E & H). unfold ceil_div.
  assert ((- a) / b = - q) by (symmetry; apply Z.div_unique with (- r); lia). lia.
Qed.
Lemma ceil_holds a b : b <> 0 -> ceil_cond a b (ceil_div a b) (a - ceil_div a b * b).
Proof.
  intros Hb. unfold ceil_cond, ceil_div. split; [lia|].
  destruct (floor_holds (- a) b Hb) as (E & H). lia.
Qed.

(** * Part 2: sign arithmetic shared by the conventions *)
Definition sameb (X Y : Z) : bool := if 0 <? Y then 0 <=? X else X <? 0.

Lemma abs_decomp X Y : Y <> 0 ->
  Z.abs X = Z.abs Y * (Z.abs X / Z.abs Y) + Z.abs X mod Z.abs Y /\
  0 <= Z.abs X mod Z.abs Y < Z.abs Y /\ 0 <= Z.abs X / Z.abs Y.
Proof.
  intros H. split; [apply Z.div_mod; lia|]. split; [apply Z.mod_pos_bound; lia|apply Z.div_pos; lia].
Qed.

Lemma floor_signs X Y Q M : Y <> 0 -> Z.abs X = Z.abs Y * Q + M -> 0 <= M < Z.abs Y ->
  X / Y = (if sameb X Y then Q else if M =? 0 then - Q else - Q - 1) /\
  X mod Y = (if sameb X Y then Z.sgn Y * M else if M =? 0 then 0 else Y - Z.sgn Y * M).
Proof.
  intros HY E HM. unfold sameb.
  assert (G : forall q r, floor_cond X Y q r -> X / Y = q /\ X mod Y = r).
  { intros q r H. apply floor_unique in H. destruct H; split; congruence. }
  destruct (Z.ltb_spec 0 Y) as [Yp|Yn].
  - rewrite (Z.abs_eq Y), (Z.sgn_pos Y) in * by lia.
    destruct (Z.leb_spec 0 X) as [Xp|Xn].
    + rewrite Z.abs_eq in E by lia. apply G. unfold floor_cond. lia.
    + rewrite Z.abs_neq in E by lia. destruct (Z.eqb_spec M 0) as [M0|M0]; apply G; unfold floor_cond; lia.
  - rewrite (Z.abs_neq Y), (Z.sgn_neg Y) in * by lia.
    destruct (Z.ltb_spec X 0) as [Xn|Xp].
    + rewrite Z.abs_neq in E by lia. apply G. unfold floor_cond. lia.
    + rewrite Z.abs_eq in E by lia. destruct (Z.eqb_spec M 0) as [M0|M0]; apply G; unfold floor_cond; lia.
Qed.

Lemma ceil_signs X Y Q M : Y <> 0 -> Z.abs X = Z.abs Y * Q + M -> 0 <= M < Z.abs Y ->
  ceil_div X Y = (if sameb X Y then (if M =? 0 then Q else Q + 1) else - Q).
Proof.
  intros HY E HM. unfold sameb.
  assert (G : forall q r, ceil_cond X Y q r -> ceil_div X Y = q).
  { intros q r H. apply ceil_unique in H. congruence. }
  destruct (Z.ltb_spec 0 Y) as [Yp|Yn].
  - rewrite (Z.abs_eq Y) in * by lia.
    destruct (Z.leb_spec 0 X) as [Xp|Xn].
    + rewrite Z.abs_eq in E by lia.
      destruct (Z.eqb_spec M 0) as [M0|M0];
        [apply G with 0|apply G with (M - Y)]; unfold ceil_cond; lia.
    + rewrite Z.abs_neq in E by lia. apply G with (- M). unfold ceil_cond. lia.
  - rewrite (Z.abs_neq Y) in * by lia.
    destruct (Z.ltb_spec X 0) as [Xn|Xp].
    + rewrite Z.abs_neq in E by lia.
      destruct (Z.eqb_spec M 0) as [M0|M0];
        [apply G with 0|apply G with (- M - Y)]; unfold ceil_cond; lia.
    + rewrite Z.abs_eq in E by lia. apply G with M. unfold ceil_cond. lia.
Qed.

Lemma euclid_from_trunc X Y : Y <> 0 ->
  let q := Z.quot X Y in let r := Z.rem X Y in
  euclid_div X Y = (if r <? 0 then if 0 <? Y then q - 1 else q + 1 else q) /\
  euclid_rem X Y = (if r <? 0 then if 0 <? Y then r + Y else r - Y else r).
Proof.
  intros HY q r. destruct (trunc_holds X Y HY) as (E & Hr & _ & _). fold q r in E, Hr.
  assert (G : forall q' r', euclid_cond X Y q' r' -> euclid_div X Y = q' /\ euclid_rem X Y = r').
  { intros q' r' H. apply euclid_unique in H; auto. destruct H; split; congruence. }
  destruct (Z.ltb_spec r 0) as [Rn|Rp].
  - destruct (Z.ltb_spec 0 Y) as [Yp|Yn]; apply G; unfold euclid_cond; lia.
  - apply G. unfold euclid_cond. lia.
Qed.

(** ** BigInt plumbing *)
Lemma sz_sgn z : sign_z (z_sign z) = Z.sgn z.
Proof. destruct z; reflexivity. Qed.

Lemma fb_enc s v : 0 <= v -> from_biguint s (enc v) = ienc (sign_z s * v).
Proof. intros H. rewrite from_biguint_ienc by apply enc_canon. rewrite enc_val by auto. reflexivity. Qed.

Lemma ineg_ienc z : ineg (ienc z) = ienc (- z).
Proof. rewrite ineg_spec by apply ienc_canon. rewrite ienc_val. reflexivity. Qed.

Lemma iis_neg_ienc z : iis_neg (ienc z) = (z <? 0).
Proof. destruct z; reflexivity. Qed.
Lemma iis_pos_ienc z : iis_pos (ienc z) = (0 <? z).
Proof. destruct z; reflexivity. Qed.
Lemma iis_zero_ienc z : iis_zero (ienc z) = (z =? 0).
Proof. destruct z; reflexivity. Qed.

Lemma ione_ienc : ione = ienc 1.
Proof. unfold ione, ienc. cbn [z_sign Z.abs]. rewrite enc_digit by (pose proof B_gt1; lia). reflexivity. Qed.

Lemma same_sign_ienc X Y : Y <> 0 -> same_sign_case (z_sign X) (z_sign Y) = Ret (sameb X Y).
Proof. intros H. destruct X, Y; try reflexivity; contradiction. Qed.

Lemma is_zero_enc m : 0 <= m -> is_zero (enc m) = (m =? 0).
Proof.
  intros H. destruct (Z.eqb_spec m 0) as [->|Hn]; [reflexivity|].
  destruct (enc m) eqn:E; [|reflexivity]. apply enc_nil_iff in E; lia.
Qed.

Lemma abs_eqb_0 Y : (Z.abs Y =? 0) = (Y =? 0).
Proof. destruct Y; reflexivity. Qed.

Definition ienc2 (qr : Z * Z) : bigint * bigint := (ienc (fst qr), ienc (snd qr)).

(** the unsigned division of the magnitudes *)
Lemma udivrem_mags p X Y : div_ok p = true ->
  udivrem p (mag (ienc X)) (mag (ienc Y)) =
  if Y =? 0 then Panic DivZero
  else Ret (enc (Z.abs X / Z.abs Y), enc (Z.abs X mod Z.abs Y)).
Proof.
  intros Hok. cbn [mag ienc]. rewrite udivrem_spec by auto using enc_canon.
  rewrite !enc_val by lia. rewrite abs_eqb_0. reflexivity.
Qed.

Lemma sgn_mul_zero Y M : Y <> 0 -> (Z.sgn Y * M = 0 <-> M = 0).
Proof.
  intros H. destruct (Z.lt_trichotomy Y 0) as [H0|[H0|H0]];
    [rewrite Z.sgn_neg by lia|lia|rewrite Z.sgn_pos by lia]; lia.
Qed.

(** * Part 3: the BigInt API on [ienc X], [ienc Y] *)
Section OnEnc.
  Variable p : div_params.
  Hypothesis Hok : div_ok p = true.
  Variables X Y : Z.
  Let Q := Z.abs X / Z.abs Y.
  Let M := Z.abs X mod Z.abs Y.
  Let Has := dk_as p (div_ok_inv p Hok).

  Lemma idiv_rem_enc : idiv_rem p (ienc X) (ienc Y) = omap ienc2 (spec_idivrem X Y).
  Proof.
    unfold idiv_rem, spec_idivrem, nz, omap. rewrite udivrem_mags by auto.
    destruct (Z.eqb_spec Y 0) as [HY|HY]; [reflexivity|]. cbn [bind].
    destruct (abs_decomp X Y HY) as (E & HM & HQ). fold Q M in E, HM, HQ |- *.
    cbn [sg ienc]. rewrite !fb_enc by lia. rewrite sz_sgn, iis_neg_ienc, ineg_ienc.
    rewrite Z.quot_div, Z.rem_mod by auto. fold Q M. unfold ienc2. cbn [fst snd].
    destruct (Z.ltb_spec Y 0) as [Yn|Yp].
    - rewrite (Z.sgn_neg Y) by lia. do 3 f_equal; lia.
    - rewrite (Z.sgn_pos Y) by lia. do 3 f_equal; lia.
  Qed.

  Lemma idiv_enc : idiv p (ienc X) (ienc Y) = omap ienc (spec_idiv X Y).
  Proof.
    unfold idiv. rewrite idiv_rem_enc. unfold spec_idivrem, spec_idiv, nz, omap.
    destruct (Y =? 0); reflexivity.
  Qed.

  Lemma ito_small_enc v : ito_small (ienc Y) = Some v -> v = Z.abs Y /\ 0 <= v < B.
  Proof.
    pose proof B_gt1 as HB. unfold ito_small. cbn [sg mag ienc].
    destruct Y as [|y|y]; cbn [z_sign Z.abs].
    - intros E; inversion E. lia.
    - intros E. apply to_u32_some in E; [|apply enc_canon]. rewrite enc_val in E by lia. lia.
    - unfold to_u64. pose proof (enc_canon (Z.pos y)) as C. pose proof (enc_val (Z.pos y) ltac:(lia)) as V.
      destruct (enc (Z.pos y)) as [|d [|e l]]; try discriminate.
      rewrite val_single in V. subst d. pose proof (canon_head_digit _ _ C).
      destruct (Z.pos y <=? 2 ^ 31); intros E; inversion E. lia.
  Qed.

  Lemma irem_enc : irem p (ienc X) (ienc Y) = omap ienc (spec_irem X Y).
  Proof.
    unfold irem. rewrite (dk_short p (div_ok_inv p Hok)).
    destruct (ito_small (ienc Y)) as [v|] eqn:Ev.
    - destruct (ito_small_enc v Ev) as [-> Hv]. unfold spec_irem, nz, omap.
      cbn [mag sg ienc]. rewrite <- abs_eqb_0.
      destruct (Z.eqb_spec (Z.abs Y) 0) as [HY|HY]; [rewrite HY; reflexivity|].
      rewrite rem_digit_spec by (auto using enc_wf; lia). cbn [bind]. rewrite enc_val by lia.
      pose proof (Z.mod_pos_bound (Z.abs X) (Z.abs Y) ltac:(lia)).
      rewrite of_u64_enc, fb_enc by lia. rewrite sz_sgn, Z.rem_mod by lia. reflexivity.
    - rewrite idiv_rem_enc. unfold spec_idivrem, spec_irem, nz, omap. destruct (Y =? 0); reflexivity.
  Qed.

  Lemma idiv_mod_floor_enc : idiv_mod_floor p (ienc X) (ienc Y) = omap ienc2 (spec_idiv_mod_floor X Y).
  Proof.
    unfold idiv_mod_floor, udiv_mod_floor, spec_idiv_mod_floor, nz, omap. rewrite udivrem_mags by auto.
    destruct (Z.eqb_spec Y 0) as [HY|HY]; [reflexivity|]. cbn [bind].
    destruct (abs_decomp X Y HY) as (E & HM & HQ). fold Q M in E, HM, HQ |- *.
    destruct (floor_signs X Y Q M HY E HM) as [Fq Fm].
    unfold iof_u. cbn [sg ienc]. rewrite !fb_enc by lia. rewrite sz_sgn. cbn [sign_z].
    rewrite same_sign_ienc by auto. cbn [bind]. rewrite Fq, Fm. unfold ienc2. cbn [fst snd].
    destruct (sameb X Y).
    - do 3 f_equal; lia.
    - rewrite iis_zero_ienc. pose proof (sgn_mul_zero Y M HY) as Hs.
      destruct (Z.eqb_spec M 0) as [M0|M0].
      + replace (Z.sgn Y * M =? 0) with true by (symmetry; apply Z.eqb_eq; tauto).
        rewrite ineg_ienc. do 3 f_equal; lia.
      + replace (Z.sgn Y * M =? 0) with false by (symmetry; apply Z.eqb_neq; tauto).
        rewrite ineg_ienc, ione_ienc.
        rewrite !isub_spec by auto using ienc_canon. cbn [bind]. rewrite !ienc_val.
        do 3 f_equal; lia.
  Qed.

  Lemma idiv_floor_enc : idiv_floor p (ienc X) (ienc Y) = omap ienc (spec_idiv_floor X Y).
  Proof.
    unfold idiv_floor, udiv_mod_floor, spec_idiv_floor, nz, omap. rewrite udivrem_mags by auto.
    destruct (Z.eqb_spec Y 0) as [HY|HY]; [reflexivity|]. cbn [bind].
    destruct (abs_decomp X Y HY) as (E & HM & HQ). fold Q M in E, HM, HQ |- *.
    destruct (floor_signs X Y Q M HY E HM) as [Fq Fm].
    unfold iof_u. cbn [sg ienc]. rewrite !fb_enc by lia. cbn [sign_z].
    rewrite same_sign_ienc by auto. cbn [bind]. rewrite Fq.
    destruct (sameb X Y).
    - do 2 f_equal; lia.
    - rewrite is_zero_enc by lia. destruct (Z.eqb_spec M 0) as [M0|M0].
      + rewrite ineg_ienc. do 2 f_equal; lia.
      + rewrite ineg_ienc, ione_ienc. rewrite isub_spec by auto using ienc_canon. rewrite !ienc_val.
        do 2 f_equal; lia.
  Qed.

  Lemma imod_floor_enc : imod_floor p (ienc X) (ienc Y) = omap ienc (spec_imod_floor X Y).
  Proof.
    unfold imod_floor, umod_floor, spec_imod_floor, nz, omap. rewrite udivrem_mags by auto.
    destruct (Z.eqb_spec Y 0) as [HY|HY]; [reflexivity|]. cbn [bind snd].
    destruct (abs_decomp X Y HY) as (E & HM & HQ). fold Q M in E, HM, HQ |- *.
    destruct (floor_signs X Y Q M HY E HM) as [Fq Fm].
    cbn [sg ienc]. rewrite !fb_enc by lia. rewrite sz_sgn.
    rewrite same_sign_ienc by auto. cbn [bind]. rewrite Fm.
    destruct (sameb X Y); [reflexivity|].
    rewrite iis_zero_ienc. pose proof (sgn_mul_zero Y M HY) as Hs.
    destruct (Z.eqb_spec M 0) as [M0|M0].
    - replace (Z.sgn Y * M =? 0) with true by (symmetry; apply Z.eqb_eq; tauto).
      do 2 f_equal; lia.
    - replace (Z.sgn Y * M =? 0) with false by (symmetry; apply Z.eqb_neq; tauto).
      change (mkint (z_sign Y) (enc (Z.abs Y))) with (ienc Y).
      rewrite isub_spec by auto using ienc_canon. rewrite !ienc_val. reflexivity.
  Qed.

  Lemma idiv_ceil_enc : idiv_ceil p (ienc X) (ienc Y) = omap ienc (spec_idiv_ceil X Y).
  Proof.
    unfold idiv_ceil, udiv_mod_floor, spec_idiv_ceil, nz, omap. rewrite udivrem_mags by auto.
    destruct (Z.eqb_spec Y 0) as [HY|HY]; [reflexivity|]. cbn [bind].
    destruct (abs_decomp X Y HY) as (E & HM & HQ). fold Q M in E, HM, HQ |- *.
    rewrite (ceil_signs X Y Q M HY E HM).
    unfold iof_u. cbn [sg ienc]. rewrite !fb_enc by lia. cbn [sign_z].
    rewrite same_sign_ienc by auto. cbn [bind].
    destruct (sameb X Y).
    - rewrite is_zero_enc by lia. destruct (Z.eqb_spec M 0) as [M0|M0].
      + do 2 f_equal; lia.
      + rewrite ione_ienc, iadd_spec by auto using ienc_canon. rewrite !ienc_val. do 2 f_equal; lia.
    - rewrite ineg_ienc. do 2 f_equal; lia.
  Qed.

  Lemma idiv_rem_euclid_enc : idiv_rem_euclid p (ienc X) (ienc Y) = omap ienc2 (spec_div_rem_euclid X Y).
  Proof.
    unfold idiv_rem_euclid, spec_div_rem_euclid. rewrite idiv_rem_enc. unfold spec_idivrem, nz, omap.
    destruct (Z.eqb_spec Y 0) as [HY|HY]; [reflexivity|]. cbn [bind]. unfold ienc2 at 1. cbn [fst snd].
    destruct (euclid_from_trunc X Y HY) as [Eq Er]. rewrite Eq, Er.
    rewrite iis_neg_ienc, iis_pos_ienc, ione_ienc.
    destruct (Z.rem X Y <? 0); [|reflexivity].
    destruct (0 <? Y); rewrite ?isub_spec, ?iadd_spec by auto using ienc_canon; cbn [bind];
      rewrite ?isub_spec, ?iadd_spec by auto using ienc_canon; cbn [bind]; rewrite !ienc_val; reflexivity.
  Qed.

  Lemma idiv_euclid_enc : idiv_euclid p (ienc X) (ienc Y) = omap ienc (spec_div_euclid X Y).
  Proof.
    unfold idiv_euclid, spec_div_euclid. rewrite idiv_rem_enc. unfold spec_idivrem, nz, omap.
    destruct (Z.eqb_spec Y 0) as [HY|HY]; [reflexivity|]. cbn [bind]. unfold ienc2. cbn [fst snd].
    destruct (euclid_from_trunc X Y HY) as [Eq Er]. rewrite Eq.
    rewrite iis_neg_ienc, iis_pos_ienc, ione_ienc.
    destruct (Z.rem X Y <? 0); [|reflexivity].
    destruct (0 <? Y); rewrite ?isub_spec, ?iadd_spec by auto using ienc_canon; rewrite !ienc_val; reflexivity.
  Qed.

  Lemma irem_euclid_enc : irem_euclid p (ienc X) (ienc Y) = omap ienc (spec_rem_euclid X Y).
  Proof.
    unfold irem_euclid, spec_rem_euclid. rewrite irem_enc. unfold spec_irem, nz, omap.
    destruct (Z.eqb_spec Y 0) as [HY|HY]; [reflexivity|]. cbn [bind].
    destruct (euclid_from_trunc X Y HY) as [Eq Er]. rewrite Er.
    rewrite iis_neg_ienc, iis_pos_ienc.
    destruct (Z.rem X Y <? 0); [|reflexivity].
    destruct (0 <? Y); rewrite ?isub_spec, ?iadd_spec by auto using ienc_canon; rewrite !ienc_val; reflexivity.
  Qed.
End OnEnc.

(** * Part 4: statements for arbitrary canonical BigInt operands *)
Ltac to_enc Hx Hy :=
  rewrite <- (ienc_of_icanon _ Hx), <- (ienc_of_icanon _ Hy), !ienc_val.

Section General.
  Variable p : div_params.
  Hypothesis Hok : div_ok p = true.
  Variables x y : bigint.
  Hypothesis Hx : icanon x.
  Hypothesis Hy : icanon y.

  Theorem idiv_rem_spec : idiv_rem p x y = omap ienc2 (spec_idivrem (ival x) (ival y)).
  Proof. to_enc Hx Hy. apply idiv_rem_enc; auto. Qed.
  Theorem idiv_spec : idiv p x y = omap ienc (spec_idiv (ival x) (ival y)).
  Proof. to_enc Hx Hy. apply idiv_enc; auto. Qed.
  Theorem irem_spec : irem p x y = omap ienc (spec_irem (ival x) (ival y)).
  Proof. to_enc Hx Hy. apply irem_enc; auto. Qed.
  Theorem idiv_floor_spec : idiv_floor p x y = omap ienc (spec_idiv_floor (ival x) (ival y)).
  Proof. to_enc Hx Hy. apply idiv_floor_enc; auto. Qed.
  Theorem imod_floor_spec : imod_floor p x y = omap ienc (spec_imod_floor (ival x) (ival y)).
  Proof. to_enc Hx Hy. apply imod_floor_enc; auto. Qed.
  Theorem idiv_mod_floor_spec : idiv_mod_floor p x y = omap ienc2 (spec_idiv_mod_floor (ival x) (ival y)).
  Proof. to_enc Hx Hy. apply idiv_mod_floor_enc; auto. Qed.
  Theorem idiv_ceil_spec : idiv_ceil p x y = omap ienc (spec_idiv_ceil (ival x) (ival y)).
  Proof. to_enc Hx Hy. apply idiv_ceil_enc; auto. Qed.
  Theorem idiv_euclid_spec : idiv_euclid p x y = omap ienc (spec_div_euclid (ival x) (ival y)).
  Proof. to_enc Hx Hy. apply idiv_euclid_enc; auto. Qed.
  Theorem irem_euclid_spec : irem_euclid p x y = omap ienc (spec_rem_euclid (ival x) (ival y)).
  Proof. to_enc Hx Hy. apply irem_euclid_enc; auto. Qed.
  Theorem idiv_rem_euclid_spec : idiv_rem_euclid p x y = omap ienc2 (spec_div_rem_euclid (ival x) (ival y)).
  Proof. to_enc Hx Hy. apply idiv_rem_euclid_enc; auto. Qed.

  Lemma iis_zero_ival : iis_zero y = (ival y =? 0).
  Proof. rewrite <- (ienc_of_icanon _ Hy), ienc_val. apply iis_zero_ienc. Qed.

  Theorem ichecked_div_spec :
    ichecked_div p x y = omap (option_map ienc) (spec_ichecked_div (ival x) (ival y)).
  Proof.
    unfold ichecked_div. rewrite (dk_g5 p (div_ok_inv p Hok)), iis_zero_ival.
    apply guarded_spec. apply idiv_spec.
  Qed.
  Theorem ichecked_div_inherent_spec :
    ichecked_div_inherent p x y = omap (option_map ienc) (spec_ichecked_div (ival x) (ival y)).
  Proof.
    unfold ichecked_div_inherent. rewrite (dk_g9 p (div_ok_inv p Hok)), iis_zero_ival.
    apply guarded_spec. apply idiv_spec.
  Qed.
  Theorem ichecked_div_euclid_spec :
    ichecked_div_euclid p x y = omap (option_map ienc) (spec_ichecked_div_euclid (ival x) (ival y)).
  Proof.
    unfold ichecked_div_euclid. rewrite (dk_g6 p (div_ok_inv p Hok)), iis_zero_ival.
    apply guarded_spec. apply idiv_euclid_spec.
  Qed.
  Theorem ichecked_rem_euclid_spec :
    ichecked_rem_euclid p x y = omap (option_map ienc) (spec_ichecked_rem_euclid (ival x) (ival y)).
  Proof.
    unfold ichecked_rem_euclid. rewrite (dk_g7 p (div_ok_inv p Hok)), iis_zero_ival.
    apply guarded_spec. apply irem_euclid_spec.
  Qed.
  Theorem ichecked_div_rem_euclid_spec :
    ichecked_div_rem_euclid p x y = omap (option_map ienc2) (spec_ichecked_div_rem_euclid (ival x) (ival y)).
  Proof.
    unfold ichecked_div_rem_euclid. rewrite (dk_g8 p (div_ok_inv p Hok)), iis_zero_ival.
    apply guarded_spec. apply idiv_rem_euclid_spec.
  Qed.
End General.
