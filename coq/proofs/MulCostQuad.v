(* MulCostQuad.v — C20: for ALL operands the work counter of a product is at most the
   schoolbook count |a|·|b| ("unbalanced products cost no more than the schoolbook count"),
   by induction on the fuel.  Needs, besides [mul_ok], that the imbalance test is
   `x.len() * 2 <= y.len()`, that Karatsuba starts at 6 digits or more and Toom-3 at 39 digits or
   more ([cost_ok]; the source has 33 and 257). *)
From BigNum Require Import Base BaseLemmas X86 AddSub AddSubProofs ShiftCore ShiftCoreProofs
  Div DivProofs Mul MulCost MulProofs MulProofs2 MulProofs3 MulProofs4 MulProofs5 MulCostProofs.
Open Scope Z_scope.

Definition cost_ok (p : mul_params) : bool :=
  mul_ok p && cmpop_eqb (mp_half_cmp p) Cle && (mp_half_mul p =? 2)
  && (5 <=? eff (mp_long_cmp p) (mp_long_max p))
  && (38 <=? Z.max (eff (mp_long_cmp p) (mp_long_max p)) (eff (mp_kara_cmp p) (mp_kara_max p))).

Lemma cost_ok_inv p : cost_ok p = true ->
  mul_ok p = true /\ mp_half_cmp p = Cle /\ mp_half_mul p = 2 /\
  5 <= eff (mp_long_cmp p) (mp_long_max p) /\
  38 <= Z.max (eff (mp_long_cmp p) (mp_long_max p)) (eff (mp_kara_cmp p) (mp_kara_max p)).
Proof.
  unfold cost_ok. intros H. do 4 (apply andb_prop in H as [H ?]).
  apply cmpop_eqb_eq in H3. repeat split; auto; lia.
Qed.

(** what the induction provides for the recursive calls *)
Definition work_le (recc : mrec_c) : Prop :=
  forall acc b c r w, wf b -> wf c -> recc acc b c = Ret (r, w) -> 0 <= w <= lenZ b * lenZ c.

Ltac step H :=
  match type of H with
  | bind ?e _ = Ret _ =>
      let E := fresh "E" in destruct e eqn:E; cbn [bind] in H; [|discriminate H|discriminate H]
  end.
Tactic Notation "stepn" hyp(H) "as" simple_intropattern(pat) ident(E) :=
  match type of H with
  | bind ?e _ = Ret _ => destruct e as [pat| |] eqn:E; cbn [bind] in H; [|discriminate H|discriminate H]
  end.

(** * Rows and long multiplication *)
Lemma mac_digit_c_work p acc b c r w : mac_digit_c p acc b c = Ret (r, w) -> w = 0 \/ w = lenZ b.
Proof.
  unfold mac_digit_c. destruct (c =? 0); [intros H; injection H; auto|].
  destruct (mac_digit p acc b c); cbn [bind]; try discriminate. intros H; injection H; auto.
Qed.

Lemma lenZ_cons d l : lenZ (d :: l) = 1 + lenZ l.
Proof. unfold lenZ. cbn [length]. lia. Qed.

Lemma long_mul_c_le p y : forall x acc r w, long_mul_c p acc x y = Ret (r, w) ->
  0 <= w <= lenZ x * lenZ y.
Proof.
  pose proof (lenZ_nonneg y) as Hy.
  induction x as [|xi x IH]; intros acc r w H; cbn [long_mul_c] in H.
  - injection H as _ <-. change (lenZ []) with 0. lia.
  - stepn H as [a1 w1] E. apply mac_digit_c_work in E.
    rewrite lenZ_cons. pose proof (lenZ_nonneg x).
    destruct x as [|x2 x'].
    + injection H as _ <-. change (lenZ []) with 0. destruct E; subst; lia.
    + destruct a1 as [|d rest]; [discriminate H|]. stepn H as [r' w'] E0.
      injection H as _ <-. cbn [snd]. apply IH in E0. destruct E; subst; nia.
Qed.

Lemma on_slice_c_work k s acc f r w : on_slice_c k s acc f = Ret (r, w) ->
  exists t, f (skipn k acc) = Ret (t, w).
Proof.
  unfold on_slice_c. intros H. stepn H as ? Ea. stepn H as [t w'] Et. injection H as _ <-. eauto.
Qed.

(** * Half-Karatsuba *)
Lemma half_kara_c_le recc p acc x y r w : work_le recc -> wf x -> wf y ->
  half_kara_c recc p acc x y = Ret (r, w) -> 0 <= w <= lenZ x * lenZ y.
Proof.
  intros Hrec Wx Wy H. unfold half_kara_c in H.
  stepn H as [a1 w1] E. stepn H as [a2 w2] E0. injection H as _ <-. cbn [fst snd] in *.
  apply on_slice_c_work in E0 as (t & E0).
  apply Hrec in E; auto using wf_firstn. apply Hrec in E0; auto using wf_skipn.
  unfold lenZ in *. rewrite firstn_length in E. rewrite skipn_length in E0.
  set (m2 := half_split p y) in *. nia.
Qed.

(** * Karatsuba *)
Lemma kara_cost_arith n m b : b = n / 2 -> 6 <= n <= m -> m < 2 * n ->
  (n - b) * (m - b) + b * b + (n - b) * (m - b) <= n * m.
Proof. intros Hb Hn Hm. assert (n = 2 * b \/ n = 2 * b + 1) as [->| ->] by lia; nia. Qed.

Lemma karatsuba_c_le recc p acc x y r w : work_le recc -> mul_ok p = true -> wf x -> wf y ->
  6 <= lenZ x <= lenZ y -> lenZ y < 2 * lenZ x ->
  karatsuba_c recc p acc x y = Ret (r, w) -> 0 <= w <= lenZ x * lenZ y.
Proof.
  intros Hrec Hp Wx Wy Hxy Hy2 H.
  pose proof (mul_ok_inv p Hp) as (Hap & _ & _ & _ & _ & _ & _ & _ & _ & Hks & _).
  unfold karatsuba_c, kara_split in H. rewrite Hks in H.
  remember (Z.to_nat (lenZ x / 2)) as b eqn:Eb.
  assert (Hb : Z.of_nat b = lenZ x / 2) by (subst b; unfold lenZ; lia).
  stepn H as ? Eas. stepn H as [p2 w2] E0. stepn H as acc2 Ea2. stepn H as [p0 w0] E2. stepn H as acc4 Ea4.
  rewrite !sub_sign_spec in H by auto using wf_firstn, wf_skipn. cbn [bind fst snd] in H.
  apply Hrec in E0; auto using wf_skipn. apply Hrec in E2; auto using wf_firstn.
  assert (L1 : lenZ (skipn b x) = lenZ x - Z.of_nat b) by (unfold lenZ in *; rewrite skipn_length; lia).
  assert (L2 : lenZ (skipn b y) = lenZ y - Z.of_nat b) by (unfold lenZ in *; rewrite skipn_length; lia).
  assert (L3 : lenZ (firstn b x) = Z.of_nat b) by (unfold lenZ in *; rewrite firstn_length; lia).
  assert (L4 : lenZ (firstn b y) = Z.of_nat b) by (unfold lenZ in *; rewrite firstn_length; lia).
  rewrite L1, L2 in E0. rewrite L3, L4 in E2.
  pose proof (kara_cost_arith (lenZ x) (lenZ y) (Z.of_nat b) Hb Hxy Hy2) as Har.
  set (u := val (skipn b x) - val (firstn b x)) in *.
  set (v := val (skipn b y) - val (firstn b y)) in *.
  assert (Lj0 : 0 <= lenZ (enc (Z.abs u)) <= lenZ x - Z.of_nat b).
  { split; [apply lenZ_nonneg|]. rewrite <- L1. apply length_enc_bound; [|apply lenZ_nonneg].
    pose proof (val_bound _ (wf_skipn b x Wx)) as B1. pose proof (val_bound _ (wf_firstn b x Wx)) as B0.
    fold (lenZ (skipn b x)) in B1. fold (lenZ (firstn b x)) in B0. rewrite L3 in B0.
    assert (B ^ Z.of_nat b <= B ^ lenZ (skipn b x)) by (apply pow_le_mono; lia). unfold u. lia. }
  assert (Lj1 : 0 <= lenZ (enc (Z.abs v)) <= lenZ y - Z.of_nat b).
  { split; [apply lenZ_nonneg|]. rewrite <- L2. apply length_enc_bound; [|apply lenZ_nonneg].
    pose proof (val_bound _ (wf_skipn b y Wy)) as B1. pose proof (val_bound _ (wf_firstn b y Wy)) as B0.
    fold (lenZ (skipn b y)) in B1. fold (lenZ (firstn b y)) in B0. rewrite L4 in B0.
    assert (B ^ Z.of_nat b <= B ^ lenZ (skipn b y)) by (apply pow_le_mono; lia). unfold v. lia. }
  assert (Hjj : 0 <= lenZ (enc (Z.abs u)) * lenZ (enc (Z.abs v))
                <= (lenZ x - Z.of_nat b) * (lenZ y - Z.of_nat b)) by nia.
  destruct (sign_mul (z_sign u) (z_sign v)).
  - (* Minus *)
    stepn H as [r' w'] E4. injection H as _ <-. cbn [snd].
    apply on_slice_c_work in E4 as (t & E4). apply Hrec in E4; auto using enc_wf.
    clear - E0 E2 E4 Har Hjj. lia.
  - injection H as _ <-. clear - E0 E2 Har Hjj. nia.
  - stepn H as [p1 w1] E4. stepn H as r' E5. injection H as _ <-. cbn [snd].
    apply Hrec in E4; auto using enc_wf. clear - E0 E2 E4 Har Hjj. lia.
Qed.

(** * The product dispatch *)
Lemma umul_with_c_le recc p a b r w : work_le recc -> wf a -> wf b ->
  umul_with_c recc p a b = Ret (r, w) -> 0 <= w <= lenZ a * lenZ b.
Proof.
  intros Hrec Wa Wb H. pose proof (lenZ_nonneg a). pose proof (lenZ_nonneg b).
  assert (Hnn : 0 <= lenZ a * lenZ b) by nia.
  unfold umul_with_c in H.
  destruct a as [|a0 [|a1 a']]; destruct b as [|b0 [|b1 b']];
    try (injection H as _ <-; lia);
    try (step H; injection H as _ <-; lia).
  unfold mul3_with_c in H. stepn H as [r' w'] E. injection H as _ <-. cbn [snd].
  apply Hrec in E; auto.
Qed.

Lemma imul_with_c_le recc p x y r w : work_le recc -> wf (mag x) -> wf (mag y) ->
  imul_with_c recc p x y = Ret (r, w) -> 0 <= w <= lenZ (mag x) * lenZ (mag y).
Proof.
  intros Hrec Wx Wy H. unfold imul_with_c in H. stepn H as [m w'] E. injection H as _ <-.
  cbn [snd]. eapply umul_with_c_le; eauto.
Qed.

(** * Toom-3 *)
Lemma toom_cost_arith n m i a0 b0 a4 b4 a1 b1 a2 b2 a3 b3 :
  i = m / 3 + 1 -> 39 <= n <= m -> m < 2 * n ->
  0 <= a0 <= i -> 0 <= b0 <= i -> 0 <= a4 <= Z.max 0 (n - 2 * i) -> 0 <= b4 <= Z.max 0 (m - 2 * i) ->
  0 <= a1 <= i + 1 -> 0 <= b1 <= i + 1 -> 0 <= a2 <= i + 1 -> 0 <= b2 <= i + 1 ->
  0 <= a3 <= i + 1 -> 0 <= b3 <= i + 1 ->
  a0 * b0 + (a4 * b4 + (a1 * b1 + (a2 * b2 + (a3 * b3 + 0)))) <= n * m.
Proof.
  intros Hi Hn Hm H0 H0' H4 H4' H1 H1' H2 H2' H3 H3'.
  assert (Hi2 : 3 * i - 3 <= m <= 3 * i - 1) by lia.
  assert (P0 : a0 * b0 <= i * i) by nia.
  assert (P1 : a1 * b1 <= (i + 1) * (i + 1)) by nia.
  assert (P2 : a2 * b2 <= (i + 1) * (i + 1)) by nia.
  assert (P3 : a3 * b3 <= (i + 1) * (i + 1)) by nia.
  assert (Hm2 : 0 <= m - 2 * i) by lia.
  destruct (Z.le_gt_cases (2 * i) n) as [Hc|Hc].
  - assert (P4 : a4 * b4 <= (n - 2 * i) * (m - 2 * i)) by nia.
    clear - P0 P1 P2 P3 P4 Hi2 Hn Hm Hc. nia.
  - assert (a4 = 0) by lia. subst a4. rewrite Z.mul_0_l.
    clear - P0 P1 P2 P3 Hi2 Hn Hm Hc.
    destruct (Z.le_gt_cases 27 i); nia.
Qed.

Lemma toom3_c_le recc p acc x y r w : work_le recc -> mul_ok p = true -> wf x -> wf y ->
  39 <= lenZ x <= lenZ y -> lenZ y < 2 * lenZ x ->
  toom3_c recc p acc x y = Ret (r, w) -> 0 <= w <= lenZ x * lenZ y.
Proof.
  intros Hrec Hp Wx Wy Hxy Hy2 H.
  pose proof (mul_ok_inv p Hp) as (Hap & _ & _ & _ & _ & _ & _ & _ & _ & _ & _ & Htd & Hte & _).
  assert (Hi : (toom_i p y <= length y)%nat /\ Z.of_nat (toom_i p y) = lenZ y / 3 + 1).
  { unfold toom_i, lenZ in *. rewrite Htd, Hte. lia. }
  destruct Hi as [Hi1 Hi2].
  unfold toom3_c in H. rewrite toom3_eval_spec in H by auto. cbn [bind] in H. cbv zeta in H.
  remember (toom_i p y) as i eqn:Ei. clear Ei Htd Hte.
  destruct (val_split_pad i x Wx) as [_ Hx0].
  destruct (val_split_pad i (skipn i x) (wf_skipn i x Wx)) as [_ Hx1].
  destruct (val_split_pad i y Wy) as [_ Hy0].
  destruct (val_split_pad i (skipn i y) (wf_skipn i y Wy)) as [_ Hy1].
  assert (Hx2 : 0 <= val (skipn (i + i) x) < B ^ Z.of_nat i).
  { pose proof (val_bound _ (wf_skipn (i + i) x Wx)) as Hb. rewrite skipn_length in Hb.
    assert (B ^ Z.of_nat (length x - (i + i)) <= B ^ Z.of_nat i) by (apply pow_le_mono; unfold lenZ in *; lia). lia. }
  assert (Hy2' : 0 <= val (skipn (i + i) y) < B ^ Z.of_nat i).
  { pose proof (val_bound _ (wf_skipn (i + i) y Wy)) as Hb. rewrite skipn_length in Hb.
    assert (B ^ Z.of_nat (length y - (i + i)) <= B ^ Z.of_nat i) by (apply pow_le_mono; unfold lenZ in *; lia). lia. }
  (* lengths of the ten operands *)
  assert (LX0 : 0 <= lenZ (mag (ienc (val (firstn i x)))) <= Z.of_nat i).
  { split; [apply lenZ_nonneg|]. unfold lenZ. apply inj_le. apply mag_len.
    rewrite Z.abs_eq by lia. lia. }
  assert (LY0 : 0 <= lenZ (mag (ienc (val (firstn i y)))) <= Z.of_nat i).
  { split; [apply lenZ_nonneg|]. unfold lenZ. apply inj_le. apply mag_len.
    rewrite Z.abs_eq by lia. lia. }
  assert (LX2 : 0 <= lenZ (mag (ienc (val (skipn (i + i) x)))) <= Z.max 0 (lenZ x - 2 * Z.of_nat i)).
  { split; [apply lenZ_nonneg|]. cbn [ienc mag]. rewrite Z.abs_eq by lia.
    pose proof (length_enc_le _ (wf_skipn (i + i) x Wx)) as Hl. rewrite skipn_length in Hl.
    unfold lenZ. lia. }
  assert (LY2 : 0 <= lenZ (mag (ienc (val (skipn (i + i) y)))) <= Z.max 0 (lenZ y - 2 * Z.of_nat i)).
  { split; [apply lenZ_nonneg|]. cbn [ienc mag]. rewrite Z.abs_eq by lia.
    pose proof (length_enc_le _ (wf_skipn (i + i) y Wy)) as Hl. rewrite skipn_length in Hl.
    unfold lenZ. lia. }
  remember (val (firstn i x)) as X0. remember (val (firstn i (skipn i x))) as X1.
  remember (val (skipn (i + i) x)) as X2.
  remember (val (firstn i y)) as Y0. remember (val (firstn i (skipn i y))) as Y1.
  remember (val (skipn (i + i) y)) as Y2.
  remember (B ^ Z.of_nat i) as T eqn:ET.
  assert (HBT : B ^ Z.of_nat (S i) = B * T) by (rewrite B_pow_S, ET; reflexivity).
  destruct (toom_point_bounds T X0 X1 X2 Hx0 Hx1 Hx2) as (_ & _ & Ax3 & Ax4 & Ax5).
  destruct (toom_point_bounds T Y0 Y1 Y2 Hy0 Hy1 Hy2') as (_ & _ & Ay3 & Ay4 & Ay5).
  rewrite <- HBT in Ax3, Ax4, Ax5, Ay3, Ay4, Ay5.
  apply mag_len in Ax3, Ax4, Ax5, Ay3, Ay4, Ay5.
  (* the five products *)
  cbn [mapM_c] in H.
  stepn H as [rs ws] Em.
  stepn Em as [m0 w0] E. apply imul_with_c_le in E; auto; try (cbn [ienc mag]; apply enc_wf).
  stepn Em as [rs4 ws4] Em4.
  stepn Em4 as [m4 w4] E0. apply imul_with_c_le in E0; auto; try (cbn [ienc mag]; apply enc_wf).
  stepn Em4 as [rs1 ws1] Em1.
  stepn Em1 as [m1 w1] E2. apply imul_with_c_le in E2; auto; try (cbn [ienc mag]; apply enc_wf).
  stepn Em1 as [rs2 ws2] Em2.
  stepn Em2 as [m2 w2] E4. apply imul_with_c_le in E4; auto; try (cbn [ienc mag]; apply enc_wf).
  stepn Em2 as [rs3 ws3] Em3.
  stepn Em3 as [m3 w3] E6. apply imul_with_c_le in E6; auto; try (cbn [ienc mag]; apply enc_wf).
  cbn [bind] in Em3. injection Em3 as <- <-. cbn [fst snd] in Em2. injection Em2 as <- <-.
  cbn [fst snd] in Em1. injection Em1 as <- <-. cbn [fst snd] in Em4. injection Em4 as <- <-.
  cbn [fst snd] in Em. injection Em as <- <-.
  cbn [fst snd] in H. stepn H as rr Ef. injection H as _ <-.
  cbn [fst snd] in E, E0, E2, E4, E6.
  set (L0 := lenZ (mag (ienc X0))) in *. set (M0 := lenZ (mag (ienc Y0))) in *.
  set (L4 := lenZ (mag (ienc X2))) in *. set (M4 := lenZ (mag (ienc Y2))) in *.
  set (L1 := lenZ (mag (ienc (X0 + X2 + X1)))) in *. set (M1 := lenZ (mag (ienc (Y0 + Y2 + Y1)))) in *.
  set (L2 := lenZ (mag (ienc (X0 + X2 - X1)))) in *. set (M2 := lenZ (mag (ienc (Y0 + Y2 - Y1)))) in *.
  set (L3 := lenZ (mag (ienc (2 * (X0 + X2 - X1 + X2) - X0)))) in *.
  set (M3 := lenZ (mag (ienc (2 * (Y0 + Y2 - Y1 + Y2) - Y0)))) in *.
  assert (B1 : 0 <= L1 <= Z.of_nat i + 1) by (unfold L1, lenZ; lia).
  assert (B1' : 0 <= M1 <= Z.of_nat i + 1) by (unfold M1, lenZ; lia).
  assert (B2 : 0 <= L2 <= Z.of_nat i + 1) by (unfold L2, lenZ; lia).
  assert (B2' : 0 <= M2 <= Z.of_nat i + 1) by (unfold M2, lenZ; lia).
  assert (B3 : 0 <= L3 <= Z.of_nat i + 1) by (unfold L3, lenZ; lia).
  assert (B3' : 0 <= M3 <= Z.of_nat i + 1) by (unfold M3, lenZ; lia).
  pose proof (toom_cost_arith (lenZ x) (lenZ y) (Z.of_nat i) L0 M0 L4 M4 L1 M1 L2 M2 L3 M3
                Hi2 Hxy Hy2 LX0 LY0 LX2 LY2 B1 B1' B2 B2' B3 B3') as Har.
  clearbody L0 M0 L4 M4 L1 M1 L2 M2 L3 M3.
  clear - E E0 E2 E4 E6 Har. lia.
Qed.

(** * Dispatch, stripping, induction on the fuel *)
Lemma mac3_sorted_c_le recc p acc x y r w : work_le recc -> cost_ok p = true -> wf x -> wf y ->
  lenZ x <= lenZ y ->
  (if cmp_eval (mp_long_cmp p) (lenZ x) (mp_long_max p) then long_mul_c p acc x y
   else if cmp_eval (mp_half_cmp p) (lenZ x * mp_half_mul p) (lenZ y) then half_kara_c recc p acc x y
   else if cmp_eval (mp_kara_cmp p) (lenZ x) (mp_kara_max p) then karatsuba_c recc p acc x y
   else toom3_c recc p acc x y) = Ret (r, w) ->
  0 <= w <= lenZ x * lenZ y.
Proof.
  intros Hrec Hc Wx Wy Hxy H.
  destruct (cost_ok_inv p Hc) as (Hp & Hhc & Hhm & Hl5 & Hk38).
  pose proof (mul_ok_inv p Hp) as (_ & _ & Hlc & _ & _ & _ & Hkc & _).
  rewrite (eff_spec _ _ _ Hlc), (eff_spec _ _ _ Hkc), Hhc, Hhm in H. cbn [cmp_eval] in H.
  destruct (Z.leb_spec (lenZ x) (eff (mp_long_cmp p) (mp_long_max p))) as [Hl|Hl].
  { eapply long_mul_c_le; eauto. }
  destruct (Z.leb_spec (lenZ x * 2) (lenZ y)) as [Hh|Hh].
  { eapply half_kara_c_le; eauto. }
  destruct (Z.leb_spec (lenZ x) (eff (mp_kara_cmp p) (mp_kara_max p))) as [Hk|Hk].
  { eapply karatsuba_c_le; eauto; lia. }
  eapply toom3_c_le; eauto; lia.
Qed.

Lemma mac3_body_c_le recc p acc b c r w : work_le recc -> cost_ok p = true -> wf b -> wf c ->
  mac3_body_c recc p acc b c = Ret (r, w) -> 0 <= w <= lenZ b * lenZ c.
Proof.
  intros Hrec Hc Wb Wc H. unfold mac3_body_c in H.
  destruct (cost_ok_inv p Hc) as (Hp & _). pose proof (mul_ok_inv p Hp) as (_ & Hsw & _).
  assert (Hcase : (cmp_eval (mp_swap_cmp p) (lenZ b) (lenZ c) = true /\ lenZ b <= lenZ c) \/
                  (cmp_eval (mp_swap_cmp p) (lenZ b) (lenZ c) = false /\ lenZ c <= lenZ b)).
  { destruct (mp_swap_cmp p); try discriminate; cbn [cmp_eval].
    - destruct (Z.ltb_spec (lenZ b) (lenZ c)); [left|right]; split; auto; lia.
    - destruct (Z.leb_spec (lenZ b) (lenZ c)); [left|right]; split; auto; lia. }
  destruct Hcase as [[E Hle]|[E Hle]]; rewrite E in H.
  - eapply mac3_sorted_c_le; eauto.
  - rewrite Z.mul_comm. eapply mac3_sorted_c_le; eauto.
Qed.

Lemma mac3_strip_c_le bodyc acc b c r w : wf b -> wf c ->
  (forall acc' b' c' r' w', wf b' -> wf c' -> bodyc acc' b' c' = Ret (r', w') -> 0 <= w' <= lenZ b' * lenZ c') ->
  mac3_strip_c bodyc acc b c = Ret (r, w) -> 0 <= w <= lenZ b * lenZ c.
Proof.
  intros Wb Wc Hbody H. unfold mac3_strip_c in H.
  pose proof (lenZ_nonneg b). pose proof (lenZ_nonneg c).
  destruct (low_zeros b) as [nb|]; [|injection H as _ <-; nia].
  apply on_slice_c_work in H as (t & H).
  destruct (low_zeros c) as [nc|]; [|injection H as _ <-; nia].
  apply on_slice_c_work in H as (t' & H).
  apply Hbody in H; auto using wf_skipn.
  unfold lenZ in *. rewrite !skipn_length in H. nia.
Qed.

Theorem mac3_c_le p : cost_ok p = true -> forall fuel, work_le (mac3_c fuel p).
Proof.
  intros Hc. induction fuel as [|f IH]; intros acc b c r w Wb Wc H; [discriminate H|].
  cbn [mac3_c] in H.
  apply (mac3_strip_c_le (mac3_body_c (mac3_c f p) p) acc b c r w Wb Wc); [|exact H].
  intros acc' b' c' r' w' Wb' Wc' H'. apply (mac3_body_c_le (mac3_c f p) p acc' b' c' r' w' IH Hc Wb' Wc' H').
Qed.

(** every product that returns costs at most the schoolbook count *)
Theorem cost_le_school p a b w : cost_ok p = true -> wf a -> wf b ->
  cost p a b = Ret w -> 0 <= w <= lenZ a * lenZ b.
Proof.
  intros Hc Wa Wb H. unfold cost, umul_c in H.
  destruct (umul_with_c (mac3_c (fuel3 a b) p) p a b) as [[r w']| |] eqn:E; cbn [bind snd] in H; try discriminate H.
  injection H as <-. eapply umul_with_c_le; eauto. apply mac3_c_le; auto.
Qed.

(** and, with C02, every product of canonical operands does return *)
Theorem cost_quadratic p a b : cost_ok p = true -> canon a -> canon b ->
  exists w, umul_c p a b = Ret (enc (val a * val b), w) /\ cost p a b = Ret w /\
            0 <= w <= lenZ a * lenZ b.
Proof.
  intros Hc Ca Cb. destruct (cost_ok_inv p Hc) as (Hp & _).
  destruct (cost_defined p a b _ (umul_spec p a b Hp Ca Cb)) as (w & E1 & E2).
  exists w. split; auto. split; auto. eapply cost_le_school; eauto; [apply Ca|apply Cb].
Qed.
