(* ExtraHistProofs.v — C04 for the constructors / operations of coq/model/ExtraHist.v (API-audit
   additions): from_str_radix, parse_bytes, From<primitive>, arbitrary::Arbitrary as constructors,
   BigInt `op= scalar` as operations, `!=`.  Stated at the extracted parameters (InstHist.hist_extracted);
   every case is a corollary of the owning area's theorem (C06 parsers, C08 From<T>, HistProofs). *)
From BigNum Require Import Base BaseLemmas AddSub Sign Prim PrimProofs BytesLemmas
  Radix RadixText RadixKernels RadixApi SpecRadix RadixTextProofs RadixInst
  Hist SpecHist HistProofs Extracted InstRadix InstHist ExtraOrd ExtraHist SpecExtra.
Open Scope Z_scope.

Local Notation P := hist_extracted.
Local Notation ok := hist_params_ok.

(** * `!=` *)
Theorem une_spec a b : canon a -> canon b -> une a b = Ret (negb (val a =? val b)).
Proof. intros Ha Hb. unfold une. rewrite ueq_spec by auto. reflexivity. Qed.
Theorem ine_spec x y : icanon x -> icanon y -> ine x y = Ret (negb (ival x =? ival y)).
Proof. intros Hx Hy. unfold ine. rewrite ieq_spec by auto. reflexivity. Qed.

(** * arbitrary: whatever the bytes, the decoded vector consists of u64 digits, so the value built
    from it is canonical (high zero digits stripped, zero magnitude = NoSign) *)
Lemma take_le_spec n : forall b, inb 256 b ->
  0 <= fst (take_le n b) < 256 ^ Z.of_nat n /\ inb 256 (snd (take_le n b)).
Proof.
  induction n as [|n IH]; intros b Hb.
  - cbn [take_le fst snd]. split; [change (256 ^ Z.of_nat 0) with 1; lia|exact Hb].
  - cbn [take_le]. destruct b as [|x r].
    + cbn [fst snd]. split; [|constructor]. split; [lia|]. apply Z.pow_pos_nonneg; lia.
    + apply inb_cons in Hb as [Hx Hr]. specialize (IH r Hr).
      destruct (take_le n r) as [v r'] eqn:E. cbn [fst snd] in *. destruct IH as [Hv Hr'].
      split; [|exact Hr'].
      rewrite Nat2Z.inj_succ, Z.pow_succ_r by lia. nia.
Qed.

Lemma arb_bool_rest b : inb 256 b -> inb 256 (snd (arb_bool b)).
Proof. destruct b as [|x r]; cbn; intros H; [constructor|]. apply inb_cons in H. apply H. Qed.

Lemma arb_vec_wf f : forall b, inb 256 b -> wf (fst (arb_vec_u64 f b)).
Proof.
  induction f as [|f IH]; intros b Hb; cbn [arb_vec_u64].
  - cbn. apply wf_nil.
  - pose proof (arb_bool_rest b Hb) as Hr. destruct (arb_bool b) as [go r]. cbn [snd] in Hr.
    destruct go; [|cbn; apply wf_nil].
    pose proof (take_le_spec 8 r Hr) as [Hd Hr1]. destruct (take_le 8 r) as [d r1]. cbn [fst snd] in *.
    specialize (IH r1 Hr1). destruct (arb_vec_u64 f r1) as [v r2]. cbn [fst] in *.
    apply wf_cons. split; [|exact IH]. unfold digit. rewrite B_val.
    change (256 ^ Z.of_nat 8) with 18446744073709551616 in Hd. lia.
Qed.

Theorem arb_biguint_spec b : inb 256 b -> fst (arb_biguint b) = enc (arb_val b).
Proof.
  intros Hb. unfold arb_biguint, arb_val. pose proof (arb_vec_wf (S (length b)) b Hb) as W.
  destruct (arb_vec_u64 (S (length b)) b) as [v r]. cbn [fst] in *.
  unfold biguint_from_vec. symmetry. apply enc_strip. exact W.
Qed.

Lemma arb_val_nonneg b : inb 256 b -> 0 <= arb_val b.
Proof. intros Hb. unfold arb_val. apply val_nonneg. apply arb_vec_wf. exact Hb. Qed.

Definition arb_ival (b : list Z) : Z :=
  let '(pos, r) := arb_bool b in (if pos then 1 else -1) * arb_val r.

Theorem arb_bigint_spec b : inb 256 b -> fst (arb_bigint b) = ienc (arb_ival b).
Proof.
  intros Hb. unfold arb_bigint, arb_ival. pose proof (arb_bool_rest b Hb) as Hr.
  destruct (arb_bool b) as [pos r]. cbn [snd] in Hr.
  pose proof (arb_biguint_spec r Hr) as E. destruct (arb_biguint r) as [m r']. cbn [fst] in *. subst m.
  rewrite from_biguint_ienc by apply enc_canon.
  rewrite enc_val by (apply arb_val_nonneg; exact Hr).
  destruct pos; reflexivity.
Qed.

(** so: canonical, for ANY byte string *)
Corollary arb_biguint_canon b : inb 256 b -> canon (fst (arb_biguint b)).
Proof. intros Hb. rewrite arb_biguint_spec by auto. apply enc_canon. Qed.
Corollary arb_bigint_canon b : inb 256 b -> icanon (fst (arb_bigint b)).
Proof. intros Hb. rewrite arb_bigint_spec by auto. apply ienc_canon. Qed.

(** * Extended constructors *)
Definition xctor_wf (c : xctor) : Prop :=
  match c with
  | XC c => ctor_wf c
  | XUStr _ _ | XIStr _ _ | XUParse _ _ | XIParse _ _ => True       (* ANY bytes, ANY radix *)
  | XUPrim t v => pt_signed t = false /\ in_range t v
  | XIPrim t v => in_range t v
  | XUArb b | XIArb b | XUArbRest b | XIArbRest b => inb 256 b
  end.

Lemma hp_radix_extracted : hp_radix P = radix.
Proof. reflexivity. Qed.

Theorem xconstruct_spec c : xctor_wf c ->
  xconstruct P c = omap (oenc (fst (sxconstruct c))) (snd (sxconstruct c)).
Proof.
  destruct c as [c|t r|t r|b r|b r|t v|t v|b|b|b|b]; cbn [xctor_wf xconstruct sxconstruct]; intros W.
  - rewrite (construct_spec P ok) by exact W. destruct (sconstruct c) as [k v]. reflexivity.
  - rewrite hp_radix_extracted, inst_from_str_radix by exact radix_params_std. cbn [fst snd].
    destruct (spec_from_str false t r) as [x| |]; cbn [omap bind]; try reflexivity.
    destruct x; reflexivity.
  - rewrite hp_radix_extracted, inst_ifrom_str_radix by exact radix_params_std. cbn [fst snd].
    destruct (spec_from_str true t r) as [x| |]; cbn [omap bind]; try reflexivity.
    destruct x; reflexivity.
  - rewrite hp_radix_extracted, inst_parse_bytes by exact radix_params_std. cbn [fst snd].
    destruct (spec_parse_bytes false b r) as [x| |]; cbn [omap bind]; try reflexivity.
    destruct x; reflexivity.
  - rewrite hp_radix_extracted, inst_iparse_bytes by exact radix_params_std. cbn [fst snd].
    destruct (spec_parse_bytes true b r) as [x| |]; cbn [omap bind]; try reflexivity.
    destruct x; reflexivity.
  - destruct W as [Hs Hr]. rewrite ufrom_spec by auto. reflexivity.
  - rewrite ifrom_spec by auto. reflexivity.
  - rewrite arb_biguint_spec by exact W. reflexivity.
  - rewrite arb_bigint_spec by exact W. reflexivity.
  - rewrite arb_biguint_spec by exact W. reflexivity.
  - rewrite arb_bigint_spec by exact W. reflexivity.
Qed.

Lemma spec_from_str_unsigned_nonneg t r v : spec_from_str false t r = Ret (POk v) -> 0 <= v.
Proof.
  unfold spec_from_str. destruct (radix_in 2 36 r) eqn:R; [|discriminate].
  assert (H2 : 2 <= r).
  { unfold radix_in in R. apply andb_prop in R as [R _]. apply Z.leb_le in R. exact R. }
  assert (N : fst (split_sign false t) = false).
  { unfold split_sign. destruct t as [|c t']; [reflexivity|].
    destruct (c =? 43); [reflexivity|]. rewrite andb_false_r. reflexivity. }
  destruct (split_sign false t) as [neg body]. cbn [fst] in N. subst neg.
  unfold body_parse. destruct body as [|c0 rest]; [discriminate|].
  destruct (body_ok r (c0 :: rest)) eqn:Bo; cbn [pr_map]; [|discriminate].
  intros E. injection E as <-. apply body_value_nonneg; auto.
Qed.

Lemma sxconstruct_nonneg c v : xctor_wf c ->
  fst (sxconstruct c) = KU -> snd (sxconstruct c) = Ret v -> 0 <= v.
Proof.
  destruct c as [c|t r|t r|b r|b r|t x|t x|b|b|b|b]; cbn [xctor_wf sxconstruct]; intros W K E;
    cbn [fst snd] in K, E; try discriminate.
  - pose proof (sconstruct_nonneg c W) as N. destruct (sconstruct c) as [k v0]. cbn [fst snd] in *.
    injection E as <-. auto.
  - destruct (spec_from_str false t r) as [x| |] eqn:S; cbn [bind] in E; try discriminate.
    destruct x as [a|e]; cbn [of_parse] in E; [|discriminate]. injection E as <-.
    eapply spec_from_str_unsigned_nonneg; eauto.
  - unfold spec_parse_bytes in E. destruct (utf8_valid b); cbn [bind] in E; [|discriminate].
    destruct (spec_from_str false b r) as [x| |] eqn:S; cbn [bind] in E; try discriminate.
    destruct x as [a|e]; cbn [pr_opt of_opt] in E; [|discriminate]. injection E as <-.
    eapply spec_from_str_unsigned_nonneg; eauto.
  - injection E as <-. destruct W as [Hs [Hlo _]]. unfold pt_min in Hlo. rewrite Hs in Hlo. exact Hlo.
  - injection E as <-. apply arb_val_nonneg; exact W.
  - injection E as <-. apply arb_val_nonneg; exact W.
Qed.

(** * Extended operations *)
Definition xop_wf (o : xop) : Prop :=
  match o with
  | XO o => op_wf o
  | XIScalar _ t s => in_range t s
  end.

Lemma xop_base_wf o : xop_wf o -> op_wf (xop_base o).
Proof.
  destruct o as [o|k t s]; cbn [xop_wf xop_base]; [auto|]. intros _.
  assert (W : raw_wf (OI (ienc s))).
  { unfold raw_wf. cbn [odigits ienc mag]. apply enc_canon. }
  destruct k; exact W.
Qed.

Lemma xops_base_wf ops : Forall xop_wf ops -> Forall op_wf (map xop_base ops).
Proof. intros H. apply Forall_map. eapply Forall_impl; [|exact H]. intros o. apply xop_base_wf. Qed.

(** every extended history is the canonical image of the same history on integers (all
    intermediate objects, panics at the same step) *)
Theorem xhistory_trace_spec c ops : xctor_wf c -> Forall xop_wf ops ->
  xhistory_trace P c ops =
  map (omap (oenc (fst (sxhistory_trace c ops)))) (snd (sxhistory_trace c ops)).
Proof.
  intros Hc Hw. unfold xhistory_trace, xstart, sxhistory_trace.
  rewrite xconstruct_spec by exact Hc.
  pose proof (sxconstruct_nonneg c) as N.
  destruct (sxconstruct c) as [k ov]. cbn [fst snd] in *.
  destruct ov as [v| |]; cbn [omap bind map]; try reflexivity.
  assert (Hn : k = KU -> 0 <= v) by (intros K; apply (N v Hc K eq_refl)).
  rewrite guard_oenc by exact Hn.
  destruct (sguard v) as [v0| |] eqn:G; cbn [omap map]; try reflexivity.
  apply sguard_ret in G as [-> F]. cbn [omap bind]. f_equal.
  apply (trace_spec P ok); auto. apply ops_ok_of_wf. apply xops_base_wf. exact Hw.
Qed.

(** hence every object such a history shows is canonical *)
Corollary xhistory_trace_canon c ops s : xctor_wf c -> Forall xop_wf ops ->
  In (Ret s) (xhistory_trace P c ops) -> ocanon s.
Proof.
  intros Hc Hw I. rewrite xhistory_trace_spec in I by auto.
  apply in_map_iff in I as (o & E & _). destruct o as [v| |]; cbn [omap] in E; try discriminate.
  injection E as <-. apply ocanon_oenc.
Qed.

(** the final object of an extended history *)
Theorem xhistory_spec c ops : xctor_wf c -> Forall xop_wf ops ->
  xhistory P c ops = omap (oenc (fst (sxhistory c ops))) (snd (sxhistory c ops)).
Proof.
  intros Hc Hw. unfold xhistory, xstart, sxhistory.
  rewrite xconstruct_spec by exact Hc.
  pose proof (sxconstruct_nonneg c) as N.
  destruct (sxconstruct c) as [k ov]. cbn [fst snd] in *.
  destruct ov as [v| |]; cbn [omap bind]; try reflexivity.
  assert (Hn : k = KU -> 0 <= v) by (intros K; apply (N v Hc K eq_refl)).
  rewrite guard_oenc by exact Hn.
  destruct (sguard v) as [v0| |] eqn:G; cbn [omap bind]; try reflexivity.
  apply sguard_ret in G as [-> F].
  apply (run_spec P ok); auto. apply ops_ok_of_wf. apply xops_base_wf. exact Hw.
Qed.

Corollary xhistory_canon c ops s : xctor_wf c -> Forall xop_wf ops ->
  xhistory P c ops = Ret s -> ocanon s.
Proof.
  intros Hc Hw E. rewrite xhistory_spec in E by auto.
  destruct (snd (sxhistory c ops)) as [v| |]; cbn [omap] in E; try discriminate.
  injection E as <-. apply ocanon_oenc.
Qed.

(** equal integers obtained through ANY two extended histories are identical objects (hence equal
    under ==, cmp, Hash and every export: HistProofs.oeq_spec, ocmp_spec, hash_fun, export_fun) *)
Theorem xindistinguishable ca opsa cb opsb a b :
  xctor_wf ca -> Forall xop_wf opsa -> xctor_wf cb -> Forall xop_wf opsb ->
  xhistory P ca opsa = Ret a -> xhistory P cb opsb = Ret b ->
  okind a = okind b -> oval a = oval b -> a = b.
Proof.
  intros Wa Oa Wb Ob Ea Eb K V.
  apply ocanon_inj; [eapply (xhistory_canon ca opsa); eauto|eapply (xhistory_canon cb opsb); eauto|exact K|exact V].
Qed.
