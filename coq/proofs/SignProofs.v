(* SignProofs.v — C19: the sign / negation / identity helpers agree with the integer value. *)
From BigNum Require Import Base BaseLemmas AddSub AddSubProofs Sign SpecSign.
Open Scope Z_scope.

(** ** small facts *)
Lemma enc_1 : enc 1 = [1]. Proof. reflexivity. Qed.
Lemma ienc_0 : ienc 0 = izero. Proof. reflexivity. Qed.
Lemma ienc_1 : ienc 1 = ione. Proof. reflexivity. Qed.
Lemma ienc_m1 : ienc (-1) = ineg ione. Proof. reflexivity. Qed.
Lemma canon_one : canon [1].
Proof. rewrite <- enc_1. apply enc_canon. Qed.
Lemma icanon_izero : icanon izero. Proof. rewrite <- ienc_0. apply ienc_canon. Qed.
Lemma icanon_ione : icanon ione. Proof. rewrite <- ienc_1. apply ienc_canon. Qed.
Lemma ival_izero : ival izero = 0. Proof. reflexivity. Qed.
Lemma ival_ione : ival ione = 1. Proof. rewrite <- ienc_1. apply ienc_val. Qed.

Lemma uis_zero_spec m : canon m -> uis_zero m = (val m =? 0).
Proof.
  intros Hm. destruct m as [|d r]; [reflexivity|].
  cbn [uis_zero]. symmetry. apply Z.eqb_neq.
  assert (0 < val (d :: r)) by (apply canon_val_pos; [auto|discriminate]). lia.
Qed.

Lemma uis_one_spec m : canon m -> uis_one m = (val m =? 1).
Proof.
  intros Hm. destruct (Z.eqb_spec (val m) 1) as [E|E].
  - assert (m = [1]) as -> by (apply canon_inj; [auto|apply canon_one|rewrite E; reflexivity]).
    reflexivity.
  - destruct m as [|d [|e r]]; try reflexivity.
    cbn [uis_one]. apply Z.eqb_neq. intros ->. apply E. apply val_single.
Qed.

Lemma icanon_cases x : icanon x ->
  (sg x = NoSign /\ mag x = [] /\ ival x = 0) \/
  (sg x = Plus /\ 0 < val (mag x) /\ ival x = val (mag x)) \/
  (sg x = Minus /\ 0 < val (mag x) /\ ival x = - val (mag x)).
Proof.
  intros Hx. destruct (sg x) eqn:S.
  - right; right. split; [reflexivity|]. split; [apply icanon_pos; auto; congruence|].
    unfold ival. rewrite S. cbn [sign_z]. lia.
  - left. split; [reflexivity|]. split; [apply Hx; auto|]. unfold ival. rewrite S. reflexivity.
  - right; left. split; [reflexivity|]. split; [apply icanon_pos; auto; congruence|].
    unfold ival. rewrite S. cbn [sign_z]. lia.
Qed.

Lemma bigint_eta x : mkint (sg x) (mag x) = x. Proof. destruct x; reflexivity. Qed.

Lemma ifrom_u_spec m : canon m -> ifrom_u m = ienc (val m).
Proof.
  intros Hm. pose proof (from_biguint_ienc Plus m Hm) as E. cbn [sign_z] in E.
  rewrite Z.mul_1_l in E. rewrite <- E. unfold ifrom_u, from_biguint.
  destruct m; reflexivity.
Qed.

(** ** negation *)
Theorem ineg_additive_inverse p x : addsub_ok p = true -> icanon x ->
  iadd p x (ineg x) = Ret (ienc 0).
Proof.
  intros Hp Hx. rewrite iadd_spec by auto using ineg_canon. rewrite ineg_val.
  replace (ival x + - ival x) with 0 by lia. reflexivity.
Qed.

(** ** abs, signum, sign queries *)
Theorem iabs_spec x : icanon x -> iabs x = ienc (spec_abs (ival x)).
Proof.
  intros Hx. unfold iabs, spec_abs.
  destruct (icanon_cases x Hx) as [(S & M & V)|[(S & P & V)|(S & P & V)]]; rewrite S, V.
  - rewrite <- V. cbn [Z.abs]. rewrite Z.abs_eq by lia. symmetry. apply ienc_of_icanon; auto.
  - rewrite Z.abs_eq by lia. rewrite <- V. symmetry. apply ienc_of_icanon; auto.
  - rewrite Z.abs_neq by lia. rewrite Z.opp_involutive. apply ifrom_u_spec, icanon_mag; auto.
Qed.

Theorem isignum_spec x : icanon x -> isignum x = ienc (spec_signum (ival x)).
Proof.
  intros Hx. unfold isignum, spec_signum.
  destruct (icanon_cases x Hx) as [(S & M & V)|[(S & P & V)|(S & P & V)]]; rewrite S, V.
  - reflexivity.
  - rewrite Z.sgn_pos by lia. reflexivity.
  - rewrite Z.sgn_neg by lia. reflexivity.
Qed.

Theorem is_positive_spec x : icanon x -> is_positive x = spec_is_positive (ival x).
Proof.
  intros Hx. unfold is_positive, spec_is_positive.
  destruct (icanon_cases x Hx) as [(S & M & V)|[(S & P & V)|(S & P & V)]]; rewrite S, V; cbn [sign_eqb];
    symmetry; [apply Z.ltb_ge|apply Z.ltb_lt|apply Z.ltb_ge]; lia.
Qed.

Theorem is_negative_spec x : icanon x -> is_negative x = spec_is_negative (ival x).
Proof.
  intros Hx. unfold is_negative, spec_is_negative.
  destruct (icanon_cases x Hx) as [(S & M & V)|[(S & P & V)|(S & P & V)]]; rewrite S, V; cbn [sign_eqb];
    symmetry; [apply Z.ltb_ge|apply Z.ltb_ge|apply Z.ltb_lt]; lia.
Qed.

Theorem isign_spec x : icanon x -> isign x = spec_sign (ival x).
Proof. intros Hx. apply (icanon_sign x Hx). Qed.

Theorem imagnitude_spec x : icanon x -> imagnitude x = enc (spec_magnitude (ival x)).
Proof.
  intros Hx. unfold imagnitude, spec_magnitude.
  destruct (icanon_sign x Hx) as [_ <-]. symmetry. apply enc_of_canon, icanon_mag; auto.
Qed.

(** ** comparison and abs_sub *)
Lemma sign_consistent_canon x : icanon x -> sign_consistent x = true.
Proof.
  intros Hx. unfold sign_consistent.
  destruct (icanon_cases x Hx) as [(S & M & V)|[(S & P & V)|(S & P & V)]]; rewrite S.
  - rewrite M. reflexivity.
  - destruct (mag x); [cbn in P; lia|reflexivity].
  - destruct (mag x); [cbn in P; lia|reflexivity].
Qed.

Theorem icmp_spec x y : icanon x -> icanon y -> icmp x y = spec_icmp (ival x) (ival y).
Proof.
  intros Hx Hy. unfold icmp, spec_icmp.
  rewrite !sign_consistent_canon by auto. cbn [assert_ bind].
  pose proof (icanon_mag x Hx) as Cx. pose proof (icanon_mag y Hy) as Cy.
  destruct (icanon_cases x Hx) as [(S & M & V)|[(S & P & V)|(S & P & V)]];
  destruct (icanon_cases y Hy) as [(S' & M' & V')|[(S' & P' & V')|(S' & P' & V')]];
    rewrite S, S', V, V'; unfold sign_cmp; cbn [sign_z];
    change (0 ?= 0) with Eq; change (1 ?= 1) with Eq; change (-1 ?= -1) with Eq;
    change (0 ?= 1) with Lt; change (-1 ?= 0) with Lt; change (-1 ?= 1) with Lt;
    change (1 ?= 0) with Gt; change (0 ?= -1) with Gt; change (1 ?= -1) with Gt; cbv iota;
    try rewrite cmp_slice_spec by auto; f_equal; symmetry;
    try (apply Z.compare_lt_iff; lia); try (apply Z.compare_gt_iff; lia);
    try reflexivity.
  apply Z.compare_opp.
Qed.

Theorem abs_sub_spec p x y : addsub_ok p = true -> icanon x -> icanon y ->
  abs_sub p x y = omap ienc (spec_abs_sub (ival x) (ival y)).
Proof.
  intros Hp Hx Hy. unfold abs_sub, spec_abs_sub, omap. rewrite icmp_spec by auto.
  unfold spec_icmp. cbn [bind].
  destruct (Z.compare_spec (ival x) (ival y)) as [E|E|E].
  - rewrite Z.max_r by lia. reflexivity.
  - rewrite Z.max_r by lia. reflexivity.
  - rewrite Z.max_l by lia. apply isub_spec; auto.
Qed.

(** ** into_parts / from_biguint *)
Theorem from_biguint_spec s m : canon m ->
  from_biguint s m = ienc (spec_from_biguint s (val m)).
Proof. apply from_biguint_ienc. Qed.

Theorem into_parts_from_biguint s m : canon m -> s <> NoSign -> m <> [] ->
  into_parts (from_biguint s m) = (s, m).
Proof. intros _ Hs Hm. destruct s, m; try contradiction; reflexivity. Qed.

Theorem from_biguint_into_parts x : icanon x ->
  from_biguint (fst (into_parts x)) (snd (into_parts x)) = x.
Proof.
  intros Hx. cbn [into_parts fst snd].
  destruct (icanon_cases x Hx) as [(S & M & V)|[(S & P & V)|(S & P & V)]].
  - rewrite S, <- (bigint_eta x), S, M. reflexivity.
  - rewrite S. destruct (mag x) eqn:M; [cbn in P; lia|]. rewrite <- (bigint_eta x), S, M. reflexivity.
  - rewrite S. destruct (mag x) eqn:M; [cbn in P; lia|]. rewrite <- (bigint_eta x), S, M. reflexivity.
Qed.

Theorem from_biguint_nosign m : from_biguint NoSign m = izero.
Proof. reflexivity. Qed.
Theorem from_biguint_zero_mag s : from_biguint s [] = izero.
Proof. destruct s; reflexivity. Qed.

(** ** conversions *)
Theorem to_biguint_spec x : icanon x ->
  to_biguint x = option_map enc (spec_to_biguint (ival x)).
Proof.
  intros Hx. unfold to_biguint, spec_to_biguint.
  destruct (icanon_cases x Hx) as [(S & M & V)|[(S & P & V)|(S & P & V)]]; rewrite S, V.
  - reflexivity.
  - replace (val (mag x) <? 0) with false by (symmetry; apply Z.ltb_ge; lia).
    cbn [option_map]. rewrite enc_of_canon by (apply icanon_mag; auto). reflexivity.
  - replace (- val (mag x) <? 0) with true by (symmetry; apply Z.ltb_lt; lia). reflexivity.
Qed.

Theorem try_into_biguint_spec x : icanon x ->
  try_into_biguint x = option_map enc (spec_to_biguint (ival x)).
Proof.
  intros Hx. rewrite <- to_biguint_spec by auto. unfold try_into_biguint, to_biguint.
  destruct (icanon_cases x Hx) as [(S & M & V)|[(S & P & V)|(S & P & V)]]; rewrite S; cbn [sign_eqb];
    try reflexivity. rewrite M. reflexivity.
Qed.

Theorem u_to_bigint_spec m : canon m -> u_to_bigint m = Some (ienc (val m)).
Proof. intros Hm. unfold u_to_bigint. rewrite ifrom_u_spec by auto. reflexivity. Qed.
Theorem i_to_bigint_spec x : icanon x -> i_to_bigint x = Some (ienc (ival x)).
Proof. intros Hx. unfold i_to_bigint. rewrite ienc_of_icanon by auto. reflexivity. Qed.
Theorem u_to_biguint_spec m : canon m -> u_to_biguint m = Some (enc (val m)).
Proof. intros Hm. unfold u_to_biguint. rewrite enc_of_canon by auto. reflexivity. Qed.

(** ** identities *)
Theorem uzero_spec : uzero = enc 0. Proof. reflexivity. Qed.
Theorem uone_spec : uone = enc 1. Proof. reflexivity. Qed.
Theorem izero_spec : izero = ienc 0. Proof. reflexivity. Qed.
Theorem ione_spec : ione = ienc 1. Proof. reflexivity. Qed.
Theorem uset_zero_spec m : uset_zero m = enc 0. Proof. reflexivity. Qed.
Theorem uset_one_spec m : uset_one m = enc 1. Proof. reflexivity. Qed.
Theorem iset_zero_spec x : iset_zero x = ienc 0. Proof. reflexivity. Qed.
Theorem iset_one_spec x : iset_one x = ienc 1. Proof. reflexivity. Qed.

Theorem iis_zero_spec x : icanon x -> iis_zero x = spec_is_zero (ival x).
Proof.
  intros Hx. unfold iis_zero, spec_is_zero.
  destruct (icanon_cases x Hx) as [(S & M & V)|[(S & P & V)|(S & P & V)]]; rewrite S, V; cbn [sign_eqb];
    symmetry; [reflexivity|apply Z.eqb_neq; lia|apply Z.eqb_neq; lia].
Qed.

Theorem iis_one_spec x : icanon x -> iis_one x = spec_is_one (ival x).
Proof.
  intros Hx. unfold iis_one, spec_is_one.
  destruct (icanon_cases x Hx) as [(S & M & V)|[(S & P & V)|(S & P & V)]]; rewrite S, V; cbn [sign_eqb andb].
  - reflexivity.
  - apply uis_one_spec, icanon_mag; auto.
  - symmetry. apply Z.eqb_neq. lia.
Qed.

(** ** the rule of signs (finite tables) *)
Theorem sign_neg_spec s : sign_neg s = spec_sign_neg s.
Proof. destruct s; reflexivity. Qed.
Theorem sign_mul_spec a b : sign_mul a b = spec_sign_mul a b.
Proof. destruct a, b; reflexivity. Qed.
Theorem sign_neg_z s : sign_z (sign_neg s) = - sign_z s.
Proof. destruct s; reflexivity. Qed.
Theorem sign_mul_z a b : sign_z (sign_mul a b) = sign_z a * sign_z b.
Proof. destruct a, b; reflexivity. Qed.

(** ** constructors from base-2^32 words *)
Definition word (w : Z) : Prop := 0 <= w < W32.
Definition wordsb (w : list Z) : bool := forallb (fun x => (0 <=? x) && (x <? W32)) w.
Lemma wordsb_spec w : wordsb w = true <-> Forall word w.
Proof.
  unfold wordsb. rewrite forallb_forall, Forall_forall. unfold word.
  split; intros H x Hx; specialize (H x Hx); lia.
Qed.
Lemma W32_sq : W32 * W32 = B. Proof. rewrite B_val. reflexivity. Qed.

Lemma u32_pairs_ind (P : list Z -> Prop) :
  P [] -> (forall lo, P [lo]) -> (forall lo hi r, P r -> P (lo :: hi :: r)) -> forall w, P w.
Proof.
  intros H0 H1 H2. fix IH 1. intros [|lo [|hi r]]; [apply H0|apply H1|apply H2, IH].
Qed.

Lemma u32_pairs_val w : val (u32_pairs w) = val32 w.
Proof.
  induction w as [|lo|lo hi r IH] using u32_pairs_ind.
  - reflexivity.
  - cbn [u32_pairs val val32]. lia.
  - cbn [u32_pairs val val32]. rewrite IH, <- W32_sq. unfold W32. ring.
Qed.

Lemma u32_pairs_wf w : Forall word w -> wf (u32_pairs w).
Proof.
  induction w as [|lo|lo hi r IH] using u32_pairs_ind; intros H.
  - constructor.
  - inversion H; subst. constructor; [|constructor]. unfold word, digit in *.
    rewrite <- W32_sq. unfold W32 in *. lia.
  - inversion H as [|? ? Hlo H']; subst. inversion H' as [|? ? Hhi H'']; subst.
    cbn [u32_pairs]. constructor; [|apply IH; auto]. unfold word, digit in *.
    rewrite <- W32_sq. unfold W32 in *. lia.
Qed.

Lemma val32_nonneg w : Forall word w -> 0 <= val32 w.
Proof.
  induction 1 as [|x l Hx _ IH]; cbn [val32]; [lia|]. unfold word, W32 in Hx. lia.
Qed.

Theorem u_from_slice_spec w : Forall word w -> u_from_slice w = enc (val32 w).
Proof.
  intros H. unfold u_from_slice. rewrite <- u32_pairs_val. symmetry. apply enc_strip, u32_pairs_wf, H.
Qed.

Theorem i_from_slice_spec s w : Forall word w ->
  i_from_slice s w = ienc (spec_from_biguint s (val32 w)).
Proof.
  intros H. unfold i_from_slice. rewrite u_from_slice_spec by auto.
  rewrite from_biguint_ienc by apply enc_canon.
  rewrite enc_val by (apply val32_nonneg; auto). reflexivity.
Qed.

Theorem i_assign_from_slice_spec x s w : Forall word w ->
  i_assign_from_slice x s w = ienc (spec_from_biguint s (val32 w)).
Proof.
  intros H. rewrite <- i_from_slice_spec by auto. unfold i_assign_from_slice, i_from_slice.
  destruct s; try reflexivity; unfold from_biguint; destruct (u_from_slice w); reflexivity.
Qed.
