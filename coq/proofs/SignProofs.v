(* SignProofs.v — C19: the sign / negation / identity helpers agree with the integer value. *)
From BigNum Require Import Base BaseLemmas SrcLit SrcLitLemmas AddSub AddSubProofs Sign SpecSign.
Open Scope Z_scope.

(** ** the source-extracted parameters the proofs are about *)
Definition tobu_std : tobu_arms := {| tb_plus := TbData; tb_nosign := TbZero; tb_minus := TbNone |}.
(** [abs_sub]'s test may be `<=` (as it stands) or `<`: for equal operands `self - other` is the
    same zero, so either operator computes the specified function. *)
Definition sign_std (c : cmpop) : sign_params := {|
  sgp_abs_conv := Minus; sgp_abs_sub_cmp := c;
  sgp_signum_plus := 1; sgp_signum_minus := -1; sgp_signum_nosign := 0;
  sgp_pos_eq := true; sgp_pos_sign := Plus; sgp_neg_eq := true; sgp_neg_sign := Minus;
  sgp_zero_eq := true; sgp_zero_sign := NoSign;
  sgp_cmp_ne := true; sgp_cmp_lit := Eq; sgp_cmp_nosign := Eq;
  sgp_cmp_plus_fwd := true; sgp_cmp_minus_fwd := false;
  sgp_from_biguint_shape := true;
  sgp_tobu := tobu_std; sgp_tobu_trait := tobu_std;
  sgp_try_eq := true; sgp_try_sign := Minus;
  sgp_from_u_neg := false; sgp_from_u_sign := Plus |}.

Definition tb_arm_eqb (a b : tb_arm) : bool :=
  match a, b with TbData, TbData | TbZero, TbZero | TbNone, TbNone => true | _, _ => false end.
Definition tobu_ok (a : tobu_arms) : bool :=
  tb_arm_eqb (tb_plus a) TbData && tb_arm_eqb (tb_nosign a) TbZero && tb_arm_eqb (tb_minus a) TbNone.
Definition sign_ok (p : sign_params) : bool :=
  sign_eqb (sgp_abs_conv p) Minus
  && (cmpop_eqb (sgp_abs_sub_cmp p) Cle || cmpop_eqb (sgp_abs_sub_cmp p) Clt)
  && (sgp_signum_plus p =? 1) && (sgp_signum_minus p =? -1) && (sgp_signum_nosign p =? 0)
  && Bool.eqb (sgp_pos_eq p) true && sign_eqb (sgp_pos_sign p) Plus
  && Bool.eqb (sgp_neg_eq p) true && sign_eqb (sgp_neg_sign p) Minus
  && Bool.eqb (sgp_zero_eq p) true && sign_eqb (sgp_zero_sign p) NoSign
  && Bool.eqb (sgp_cmp_ne p) true && comparison_eqb (sgp_cmp_lit p) Eq && comparison_eqb (sgp_cmp_nosign p) Eq
  && Bool.eqb (sgp_cmp_plus_fwd p) true && Bool.eqb (sgp_cmp_minus_fwd p) false
  && Bool.eqb (sgp_from_biguint_shape p) true
  && tobu_ok (sgp_tobu p) && tobu_ok (sgp_tobu_trait p)
  && Bool.eqb (sgp_try_eq p) true && sign_eqb (sgp_try_sign p) Minus
  && Bool.eqb (sgp_from_u_neg p) false && sign_eqb (sgp_from_u_sign p) Plus.

Lemma tobu_ok_inv a : tobu_ok a = true -> a = tobu_std.
Proof.
  destruct a as [x y z]. unfold tobu_ok, tobu_std. cbn [tb_plus tb_nosign tb_minus].
  destruct x, y, z; try discriminate; reflexivity.
Qed.
(** every field but [abs_sub]'s operator is pinned *)
Lemma sign_ok_inv p : sign_ok p = true -> exists c, (c = Cle \/ c = Clt) /\ p = sign_std c.
Proof.
  destruct p as [ac asc]. unfold sign_ok, sign_std. cbn -[Z.eqb tobu_ok]. intros H.
  rewrite !andb_true_iff in H. repeat match goal with H : _ /\ _ |- _ => destruct H end.
  repeat match goal with H : tobu_ok _ = true |- _ => apply tobu_ok_inv in H end.
  match goal with H : _ || _ = true |- _ => apply orb_true_iff in H; rename H into Hc end.
  exists asc. split; [destruct Hc as [Hc|Hc]; apply cmpop_eqb_true in Hc; auto|].
  clear Hc. pin_fields_in H. subst. reflexivity.
Qed.
Ltac sg_std p H := apply sign_ok_inv in H; destruct H as (?c & ?Hc & ->).
Ltac sg_red :=
  cbn [sign_std tobu_std sgp_abs_conv sgp_abs_sub_cmp sgp_signum_plus sgp_signum_minus sgp_signum_nosign
       sgp_pos_eq sgp_pos_sign sgp_neg_eq sgp_neg_sign sgp_zero_eq sgp_zero_sign sgp_cmp_ne sgp_cmp_lit
       sgp_cmp_nosign sgp_cmp_plus_fwd sgp_cmp_minus_fwd sgp_from_biguint_shape sgp_tobu sgp_tobu_trait
       sgp_try_eq sgp_try_sign sgp_from_u_neg sgp_from_u_sign tb_plus tb_nosign tb_minus
       sign_test blit cmp_ord cmp_dir] in *.

(** ** small facts *)
Lemma enc_1 : enc 1 = [1]. Proof. reflexivity. Qed.
Lemma ienc_0 : ienc 0 = izero. Proof. reflexivity. Qed.
Lemma ienc_1 : ienc 1 = ione. Proof. reflexivity. Qed.
Lemma ienc_m1 : ienc (-1) = ineg ione. Proof. reflexivity. Qed.
Lemma canon_one : canon [1].
Proof. rewrite <- enc_1. apply enc_canon. Qed.
Lemma icanon_izero : icanon izero. Proof. rewrite <- ienc_0. apply ienc_canon. Qed.
Lemma icanon_ione : icanon ione. Proof. rewrite <- ienc_1. apply ienc_canon. Qed.
Lemma ival_izero : ival izero = 0. Proof. reflexivity. Qed.
Lemma ival_ione : ival ione = 1. Proof. rewrite <- ienc_1. apply ienc_val. Qed.

Lemma uis_zero_spec m : canon m -> uis_zero m = (val m =? 0).
Proof.
  intros Hm. destruct m as [|d r]; [reflexivity|].
  cbn [uis_zero]. symmetry. apply Z.eqb_neq.
  assert (0 < val (d :: r)) by (apply canon_val_pos; [auto|discriminate]). lia.
Qed.

Lemma uis_one_spec m : canon m -> uis_one m = (val m =? 1).
Proof.
  intros Hm. destruct (Z.eqb_spec (val m) 1) as [E|E].
  - assert (m = [1]) as -> by (apply canon_inj; [auto|apply canon_one|rewrite E; reflexivity]).
    reflexivity.
  - destruct m as [|d [|e r]]; try reflexivity.
    cbn [uis_one]. apply Z.eqb_neq. intros ->. apply E. apply val_single.
Qed.

Lemma icanon_cases x : icanon x ->
  (sg x = NoSign /\ mag x = [] /\ ival x = 0) \/
  (sg x = Plus /\ 0 < val (mag x) /\ ival x = val (mag x)) \/
  (sg x = Minus /\ 0 < val (mag x) /\ ival x = - val (mag x)).
Proof.
  intros Hx. destruct (sg x) eqn:S.
  - right; right. split; [reflexivity|]. split; [apply icanon_pos; auto; congruence|].
    unfold ival. rewrite S. cbn [sign_z]. lia.
  - left. split; [reflexivity|]. split; [apply Hx; auto|]. unfold ival. rewrite S. reflexivity.
  - right; left. split; [reflexivity|]. split; [apply icanon_pos; auto; congruence|].
    unfold ival. rewrite S. cbn [sign_z]. lia.
Qed.

Lemma bigint_eta x : mkint (sg x) (mag x) = x. Proof. destruct x; reflexivity. Qed.

Lemma ifrom_u_spec p m : sign_ok p = true -> canon m -> ifrom_u p m = ienc (val m).
Proof.
  intros Hok; sg_std p Hok. intros Hm. pose proof (from_biguint_ienc Plus m Hm) as E. cbn [sign_z] in E.
  rewrite Z.mul_1_l in E. rewrite <- E. unfold ifrom_u, from_biguint. sg_red.
  destruct m; reflexivity.
Qed.

(** ** negation *)
Theorem ineg_additive_inverse p x : addsub_ok p = true -> icanon x ->
  iadd p x (ineg x) = Ret (ienc 0).
Proof.
  intros Hp Hx. rewrite iadd_spec by auto using ineg_canon. rewrite ineg_val.
  replace (ival x + - ival x) with 0 by lia. reflexivity.
Qed.

(** ** abs, signum, sign queries *)
Theorem iabs_spec p x : sign_ok p = true -> icanon x -> iabs p x = ienc (spec_abs (ival x)).
Proof.
  intros Hok. pose proof Hok as Hok'. sg_std p Hok. rename Hok' into Hok.
  intros Hx. unfold iabs, spec_abs. sg_red.
  destruct (icanon_cases x Hx) as [(S & M & V)|[(S & P & V)|(S & P & V)]]; rewrite S, V; cbn [sign_eqb].
  - rewrite <- V. cbn [Z.abs]. rewrite Z.abs_eq by lia. symmetry. apply ienc_of_icanon; auto.
  - rewrite Z.abs_eq by lia. rewrite <- V. symmetry. apply ienc_of_icanon; auto.
  - rewrite Z.abs_neq by lia. rewrite Z.opp_involutive. apply ifrom_u_spec, icanon_mag; auto.
Qed.

Theorem isignum_spec p x : sign_ok p = true -> icanon x -> isignum p x = ienc (spec_signum (ival x)).
Proof.
  intros Hok; sg_std p Hok. intros Hx. unfold isignum, spec_signum. sg_red.
  destruct (icanon_cases x Hx) as [(S & M & V)|[(S & P & V)|(S & P & V)]]; rewrite S, V.
  - reflexivity.
  - rewrite Z.sgn_pos by lia. reflexivity.
  - rewrite Z.sgn_neg by lia. reflexivity.
Qed.

Theorem is_positive_spec p x : sign_ok p = true -> icanon x -> is_positive p x = spec_is_positive (ival x).
Proof.
  intros Hok; sg_std p Hok. intros Hx. unfold is_positive, spec_is_positive. sg_red.
  destruct (icanon_cases x Hx) as [(S & M & V)|[(S & P & V)|(S & P & V)]]; rewrite S, V; cbn [sign_eqb];
    symmetry; [apply Z.ltb_ge|apply Z.ltb_lt|apply Z.ltb_ge]; lia.
Qed.

Theorem is_negative_spec p x : sign_ok p = true -> icanon x -> is_negative p x = spec_is_negative (ival x).
Proof.
  intros Hok; sg_std p Hok. intros Hx. unfold is_negative, spec_is_negative. sg_red.
  destruct (icanon_cases x Hx) as [(S & M & V)|[(S & P & V)|(S & P & V)]]; rewrite S, V; cbn [sign_eqb];
    symmetry; [apply Z.ltb_ge|apply Z.ltb_ge|apply Z.ltb_lt]; lia.
Qed.

Theorem isign_spec x : icanon x -> isign x = spec_sign (ival x).
Proof. intros Hx. apply (icanon_sign x Hx). Qed.

Theorem imagnitude_spec x : icanon x -> imagnitude x = enc (spec_magnitude (ival x)).
Proof.
  intros Hx. unfold imagnitude, spec_magnitude.
  destruct (icanon_sign x Hx) as [_ <-]. symmetry. apply enc_of_canon, icanon_mag; auto.
Qed.

(** ** comparison and abs_sub *)
Lemma sign_consistent_canon x : icanon x -> sign_consistent x = true.
Proof.
  intros Hx. unfold sign_consistent.
  destruct (icanon_cases x Hx) as [(S & M & V)|[(S & P & V)|(S & P & V)]]; rewrite S.
  - rewrite M. reflexivity.
  - destruct (mag x); [cbn in P; lia|reflexivity].
  - destruct (mag x); [cbn in P; lia|reflexivity].
Qed.

Theorem icmp_spec p x y : sign_ok p = true -> icanon x -> icanon y ->
  icmp p x y = spec_icmp (ival x) (ival y).
Proof.
  intros Hok; sg_std p Hok. intros Hx Hy. unfold icmp, spec_icmp. sg_red.
  rewrite !sign_consistent_canon by auto. cbn [assert_ bind].
  pose proof (icanon_mag x Hx) as Cx. pose proof (icanon_mag y Hy) as Cy.
  destruct (icanon_cases x Hx) as [(S & M & V)|[(S & P & V)|(S & P & V)]];
  destruct (icanon_cases y Hy) as [(S' & M' & V')|[(S' & P' & V')|(S' & P' & V')]];
    rewrite S, S', V, V'; unfold sign_cmp; cbn [sign_z];
    change (0 ?= 0) with Eq; change (1 ?= 1) with Eq; change (-1 ?= -1) with Eq;
    change (0 ?= 1) with Lt; change (-1 ?= 0) with Lt; change (-1 ?= 1) with Lt;
    change (1 ?= 0) with Gt; change (0 ?= -1) with Gt; change (1 ?= -1) with Gt;
    cbn [comparison_eqb negb]; cbv iota;
    try rewrite cmp_slice_spec by auto; f_equal; symmetry;
    try (apply Z.compare_lt_iff; lia); try (apply Z.compare_gt_iff; lia);
    try reflexivity.
  apply Z.compare_opp.
Qed.

Theorem abs_sub_spec sp p x y : sign_ok sp = true -> addsub_ok p = true -> icanon x -> icanon y ->
  abs_sub sp p x y = omap ienc (spec_abs_sub (ival x) (ival y)).
Proof.
  intros Hok Hp Hx Hy. unfold abs_sub, spec_abs_sub, omap. rewrite icmp_spec by auto.
  unfold spec_icmp. cbn [bind].
  destruct (sign_ok_inv sp Hok) as (c & Hc & ->). cbn [sign_std sgp_abs_sub_cmp].
  destruct (Z.compare_spec (ival x) (ival y)) as [E|E|E]; destruct Hc as [-> | ->]; cbn [cmp_ord is_le is_lt].
  - (* equal, `<=` *) rewrite Z.max_r by lia. reflexivity.
  - (* equal, `<`: self - other is the same zero *)
    rewrite Z.max_r by lia. rewrite isub_spec by auto. cbn [bind]. do 2 f_equal. lia.
  - rewrite Z.max_r by lia. reflexivity.
  - rewrite Z.max_r by lia. reflexivity.
  - rewrite Z.max_l by lia. apply isub_spec; auto.
  - rewrite Z.max_l by lia. apply isub_spec; auto.
Qed.

(** ** into_parts / from_biguint *)
Theorem from_biguint_spec s m : canon m ->
  from_biguint s m = ienc (spec_from_biguint s (val m)).
Proof. apply from_biguint_ienc. Qed.

Theorem into_parts_from_biguint s m : canon m -> s <> NoSign -> m <> [] ->
  into_parts (from_biguint s m) = (s, m).
Proof. intros _ Hs Hm. destruct s, m; try contradiction; reflexivity. Qed.

Theorem from_biguint_into_parts x : icanon x ->
  from_biguint (fst (into_parts x)) (snd (into_parts x)) = x.
Proof.
  intros Hx. cbn [into_parts fst snd].
  destruct (icanon_cases x Hx) as [(S & M & V)|[(S & P & V)|(S & P & V)]].
  - rewrite S, <- (bigint_eta x), S, M. reflexivity.
  - rewrite S. destruct (mag x) eqn:M; [cbn in P; lia|]. rewrite <- (bigint_eta x), S, M. reflexivity.
  - rewrite S. destruct (mag x) eqn:M; [cbn in P; lia|]. rewrite <- (bigint_eta x), S, M. reflexivity.
Qed.

Theorem from_biguint_nosign m : from_biguint NoSign m = izero.
Proof. reflexivity. Qed.
Theorem from_biguint_zero_mag s : from_biguint s [] = izero.
Proof. destruct s; reflexivity. Qed.

(** ** conversions *)
Lemma tobu_eval_spec x : icanon x ->
  tobu_eval tobu_std x = option_map enc (spec_to_biguint (ival x)).
Proof.
  intros Hx. unfold tobu_eval, spec_to_biguint. sg_red.
  destruct (icanon_cases x Hx) as [(S & M & V)|[(S & P & V)|(S & P & V)]]; rewrite S, V.
  - reflexivity.
  - replace (val (mag x) <? 0) with false by (symmetry; apply Z.ltb_ge; lia).
    cbn [option_map]. rewrite enc_of_canon by (apply icanon_mag; auto). reflexivity.
  - replace (- val (mag x) <? 0) with true by (symmetry; apply Z.ltb_lt; lia). reflexivity.
Qed.

Theorem to_biguint_spec p x : sign_ok p = true -> icanon x ->
  to_biguint p x = option_map enc (spec_to_biguint (ival x)).
Proof. intros Hok; sg_std p Hok. apply tobu_eval_spec. Qed.
Theorem to_biguint_trait_spec p x : sign_ok p = true -> icanon x ->
  to_biguint_trait p x = option_map enc (spec_to_biguint (ival x)).
Proof. intros Hok; sg_std p Hok. apply tobu_eval_spec. Qed.

Theorem try_into_biguint_spec p x : sign_ok p = true -> icanon x ->
  try_into_biguint p x = option_map enc (spec_to_biguint (ival x)).
Proof.
  intros Hok; sg_std p Hok.
  intros Hx. rewrite <- tobu_eval_spec by auto. unfold try_into_biguint, tobu_eval. sg_red.
  destruct (icanon_cases x Hx) as [(S & M & V)|[(S & P & V)|(S & P & V)]]; rewrite S; cbn [sign_eqb];
    try reflexivity. rewrite M. reflexivity.
Qed.

Theorem u_to_bigint_spec p m : sign_ok p = true -> canon m -> u_to_bigint p m = Some (ienc (val m)).
Proof. intros Hok Hm. unfold u_to_bigint. rewrite ifrom_u_spec by auto. reflexivity. Qed.
Theorem i_to_bigint_spec x : icanon x -> i_to_bigint x = Some (ienc (ival x)).
Proof. intros Hx. unfold i_to_bigint. rewrite ienc_of_icanon by auto. reflexivity. Qed.
Theorem u_to_biguint_spec m : canon m -> u_to_biguint m = Some (enc (val m)).
Proof. intros Hm. unfold u_to_biguint. rewrite enc_of_canon by auto. reflexivity. Qed.

(** ** identities *)
Theorem uzero_spec : uzero = enc 0. Proof. reflexivity. Qed.
Theorem uone_spec : uone = enc 1. Proof. reflexivity. Qed.
Theorem izero_spec : izero = ienc 0. Proof. reflexivity. Qed.
Theorem ione_spec : ione = ienc 1. Proof. reflexivity. Qed.
Theorem uset_zero_spec m : uset_zero m = enc 0. Proof. reflexivity. Qed.
Theorem uset_one_spec m : uset_one m = enc 1. Proof. reflexivity. Qed.
Theorem iset_zero_spec x : iset_zero x = ienc 0. Proof. reflexivity. Qed.
Theorem iset_one_spec x : iset_one x = ienc 1. Proof. reflexivity. Qed.

Theorem iis_zero_spec p x : sign_ok p = true -> icanon x -> iis_zero p x = spec_is_zero (ival x).
Proof.
  intros Hok; sg_std p Hok. intros Hx. unfold iis_zero, spec_is_zero. sg_red.
  destruct (icanon_cases x Hx) as [(S & M & V)|[(S & P & V)|(S & P & V)]]; rewrite S, V; cbn [sign_eqb];
    symmetry; [reflexivity|apply Z.eqb_neq; lia|apply Z.eqb_neq; lia].
Qed.

Theorem iis_one_spec x : icanon x -> iis_one x = spec_is_one (ival x).
Proof.
  intros Hx. unfold iis_one, spec_is_one.
  destruct (icanon_cases x Hx) as [(S & M & V)|[(S & P & V)|(S & P & V)]]; rewrite S, V; cbn [sign_eqb andb].
  - reflexivity.
  - apply uis_one_spec, icanon_mag; auto.
  - symmetry. apply Z.eqb_neq. lia.
Qed.

(** ** the rule of signs (finite tables) *)
Theorem sign_neg_spec s : sign_neg s = spec_sign_neg s.
Proof. destruct s; reflexivity. Qed.
Theorem sign_mul_spec a b : sign_mul a b = spec_sign_mul a b.
Proof. destruct a, b; reflexivity. Qed.
Theorem sign_neg_z s : sign_z (sign_neg s) = - sign_z s.
Proof. destruct s; reflexivity. Qed.
Theorem sign_mul_z a b : sign_z (sign_mul a b) = sign_z a * sign_z b.
Proof. destruct a, b; reflexivity. Qed.

(** ** constructors from base-2^32 words *)
Definition word (w : Z) : Prop := 0 <= w < W32.
Definition wordsb (w : list Z) : bool := forallb (fun x => (0 <=? x) && (x <? W32)) w.
Lemma wordsb_spec w : wordsb w = true <-> Forall word w.
Proof.
  unfold wordsb. rewrite forallb_forall, Forall_forall. unfold word.
  split; intros H x Hx; specialize (H x Hx); lia.
Qed.
Lemma W32_sq : W32 * W32 = B. Proof. rewrite B_val. reflexivity. Qed.

Lemma u32_pairs_ind (P : list Z -> Prop) :
  P [] -> (forall lo, P [lo]) -> (forall lo hi r, P r -> P (lo :: hi :: r)) -> forall w, P w.
Proof.
  intros H0 H1 H2. fix IH 1. intros [|lo [|hi r]]; [apply H0|apply H1|apply H2, IH].
Qed.

Lemma u32_pairs_val w : val (u32_pairs w) = val32 w.
Proof.
  induction w as [|lo|lo hi r IH] using u32_pairs_ind.
  - reflexivity.
  - cbn [u32_pairs val val32]. lia.
  - cbn [u32_pairs val val32]. rewrite IH, <- W32_sq. unfold W32. ring.
Qed.

Lemma u32_pairs_wf w : Forall word w -> wf (u32_pairs w).
Proof.
  induction w as [|lo|lo hi r IH] using u32_pairs_ind; intros H.
  - constructor.
  - inversion H; subst. constructor; [|constructor]. unfold word, digit in *.
    rewrite <- W32_sq. unfold W32 in *. lia.
  - inversion H as [|? ? Hlo H']; subst. inversion H' as [|? ? Hhi H'']; subst.
    cbn [u32_pairs]. constructor; [|apply IH; auto]. unfold word, digit in *.
    rewrite <- W32_sq. unfold W32 in *. lia.
Qed.

Lemma val32_nonneg w : Forall word w -> 0 <= val32 w.
Proof.
  induction 1 as [|x l Hx _ IH]; cbn [val32]; [lia|]. unfold word, W32 in Hx. lia.
Qed.

Theorem u_from_slice_spec w : Forall word w -> u_from_slice w = enc (val32 w).
Proof.
  intros H. unfold u_from_slice. rewrite <- u32_pairs_val. symmetry. apply enc_strip, u32_pairs_wf, H.
Qed.

Theorem i_from_slice_spec s w : Forall word w ->
  i_from_slice s w = ienc (spec_from_biguint s (val32 w)).
Proof.
  intros H. unfold i_from_slice. rewrite u_from_slice_spec by auto.
  rewrite from_biguint_ienc by apply enc_canon.
  rewrite enc_val by (apply val32_nonneg; auto). reflexivity.
Qed.

Theorem i_assign_from_slice_spec x s w : Forall word w ->
  i_assign_from_slice x s w = ienc (spec_from_biguint s (val32 w)).
Proof.
  intros H. rewrite <- i_from_slice_spec by auto. unfold i_assign_from_slice, i_from_slice.
  destruct s; try reflexivity; unfold from_biguint; destruct (u_from_slice w); reflexivity.
Qed.
