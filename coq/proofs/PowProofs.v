(* PowProofs.v — C12: the pow_impl! loop computes x^e for every exponent below 2^128 (all
   primitive exponent types), Pow<&BigUint> computes x^e or panics with "memory overflow" exactly
   when base >= 2 and the exponent does not fit u128; BigInt sign via powsign.
   Generic in the source-extracted parameters under [pow_ok p = true] and in the big
   multiplication under the Section hypothesis [bmul_spec] (= the statement of Mul.umul_spec). *)
From BigNum Require Import Base BaseLemmas PgrLoop PgrLoopProofs Pow SpecPow.
Open Scope Z_scope.

Definition pow_ok (p : pow_params) : bool :=
  (pw_strip_bit p =? 0) && (pw_exit p =? 1) && cmpop_eqb (pw_loop_cmp p) Cgt &&
  (pw_loop_bound p =? 1) && (pw_acc_bit p =? 1) && (pw_zero p =? 0).

Lemma cmpop_eqb_eq a b : cmpop_eqb a b = true -> a = b.
Proof. destruct a, b; cbn; congruence. Qed.

Lemma pow_ok_inv p : pow_ok p = true ->
  pw_strip_bit p = 0 /\ pw_exit p = 1 /\ pw_loop_cmp p = Cgt /\ pw_loop_bound p = 1 /\
  pw_acc_bit p = 1 /\ pw_zero p = 0.
Proof.
  unfold pow_ok. rewrite !andb_true_iff, !Z.eqb_eq.
  intros [[[[[H1 H2] H3] H4] H5] H6]. apply cmpop_eqb_eq in H3. auto 10.
Qed.

(** small arithmetic facts *)
Lemma land_1 e : Z.land e 1 = e mod 2.
Proof. replace (Z.land e 1) with (Z.land e (Z.ones 1)) by reflexivity. rewrite Z.land_ones by lia. reflexivity. Qed.
Lemma shiftr_1 e : Z.shiftr e 1 = e / 2.
Proof. rewrite Z.shiftr_div_pow2 by lia. reflexivity. Qed.
Lemma log2_half e : 2 <= e -> Z.log2 (e / 2) = Z.log2 e - 1.
Proof.
  intros He. destruct (Z.log2_spec e ltac:(lia)) as [H1 H2].
  assert (HL : 1 <= Z.log2 e) by (apply Z.log2_le_pow2; lia).
  apply Z.log2_unique; [lia|].
  replace (Z.succ (Z.log2 e - 1)) with (Z.log2 e) by lia.
  set (L := Z.log2 e) in *.
  assert (E : 2 ^ L = 2 * 2 ^ (L - 1)).
  { replace L with (Z.succ (L - 1)) at 1 by lia. rewrite Z.pow_succ_r by lia. reflexivity. }
  rewrite Z.pow_succ_r in H2 by lia. lia.
Qed.
Lemma pow_sq v k : 0 <= k -> (v * v) ^ k = v ^ (2 * k).
Proof. intros. rewrite Z.pow_mul_r by lia. rewrite Z.pow_2_r. reflexivity. Qed.

Lemma canon_1 : canon [1].
Proof. split; [|reflexivity]. constructor; [|constructor]. unfold digit. rewrite B_val. lia. Qed.
Lemma enc_1 : enc 1 = [1].
Proof. change 1 with (val [1]) at 1. apply enc_of_canon, canon_1. Qed.

Lemma zpow_safe_eq x e : 0 <= e -> zpow_safe x e = x ^ e.
Proof.
  intros He. unfold zpow_safe. destruct (Z.leb_spec (Z.abs x) 1) as [Hx|]; [|reflexivity].
  destruct (Z.eqb_spec e 0) as [->|Hne]; [reflexivity|].
  assert (Hc : x = 0 \/ x = 1 \/ x = -1) by lia.
  destruct Hc as [->|[->| ->]].
  - rewrite Z.pow_0_l by lia. destruct (Z.even e); reflexivity.
  - rewrite Z.pow_1_l by lia. destruct (Z.even e); reflexivity.
  - destruct (Z.even e) eqn:Ev.
    + apply Z.even_spec in Ev. destruct Ev as [k ->]. rewrite Z.pow_mul_r by lia. cbn. rewrite Z.pow_1_l; lia.
    + assert (Od : Z.odd e = true) by (rewrite <- Z.negb_even, Ev; reflexivity).
      apply Z.odd_spec in Od. destruct Od as [k ->].
      rewrite Z.pow_add_r, Z.pow_mul_r by lia. cbn. rewrite Z.pow_1_l; lia.
Qed.

(** predicates on canonical digit lists *)
Lemma pgr_is_zero_spec l : canon l -> pgr_is_zero l = (val l =? 0).
Proof.
  intros C. destruct l as [|d l]; [reflexivity|]. cbn [pgr_is_zero].
  symmetry. apply Z.eqb_neq. pose proof (canon_val_pos (d :: l) C ltac:(discriminate)). lia.
Qed.
Lemma pgr_is_one_spec l : canon l -> pgr_is_one l = (val l =? 1).
Proof.
  intros C. destruct l as [|d [|d2 l]]; cbn [pgr_is_one].
  - reflexivity.
  - rewrite val_single. reflexivity.
  - symmetry. apply Z.eqb_neq. pose proof (canon_lower (d :: d2 :: l) C ltac:(discriminate)) as H.
    cbn [length] in H. replace (Z.of_nat (S (S (length l))) - 1) with (Z.of_nat (S (length l))) in H by lia.
    rewrite B_pow_S in H. pose proof (B_pow_nat (length l)). pose proof B_gt1. nia.
Qed.
Lemma pgr_is_odd_spec l : wf l -> pgr_is_odd l = Z.odd (val l).
Proof.
  intros W. unfold pgr_is_odd, pgr_is_even. destruct l as [|d l]; [reflexivity|].
  cbn [val]. rewrite Z.negb_even. rewrite Z.add_comm, B_val.
  replace (18446744073709551616 * val l + d) with (d + 2 * (9223372036854775808 * val l)) by ring.
  now rewrite Z.odd_add_mul_2.
Qed.

Section WithBigOps.
Variable bmul : list Z -> list Z -> outcome (list Z).
Hypothesis bmul_spec : forall a b, canon a -> canon b -> bmul a b = Ret (enc (val a * val b)).
Variable p : pow_params.
Hypothesis Hok : pow_ok p = true.

(** the strip loop: squares while the exponent is even *)
Lemma pow_strip_spec x e : canon x -> 0 < e < 2 ^ 128 ->
  exists base e1,
    run_loop (pow_strip_step bmul p) pow_fuel (x, e) = Ret (base, e1) /\
    canon base /\ Z.odd e1 = true /\ 0 < e1 <= e /\ val base ^ e1 = val x ^ e.
Proof.
  intros Cx He. destruct (pow_ok_inv p Hok) as (Es & _).
  pose (Inv := fun st : list Z * Z => canon (fst st) /\ 0 < snd st <= e /\ val (fst st) ^ snd st = val x ^ e).
  pose (Post := fun st : list Z * Z => canon (fst st) /\ Z.odd (snd st) = true /\ 0 < snd st <= e /\ val (fst st) ^ snd st = val x ^ e).
  destruct (run_loop_rule (pow_strip_step bmul p) Inv (fun st => Z.log2 (snd st)) Post) with (fuel := pow_fuel) (s := (x, e))
    as ([base e1] & Hr & Hp).
  - intros [b k] (Cb & Hk & Hv); cbn [fst snd] in *. split; [apply Z.log2_nonneg|].
    unfold pow_strip_step. rewrite Es, land_1, shiftr_1.
    destruct (Z.eqb_spec (k mod 2) 0) as [Hev|Hod].
    + rewrite bmul_spec by auto. cbn [bind]. unfold Inv; cbn [fst snd].
      assert (2 <= k) by lia.
      split; [split; [apply enc_canon|split; [lia|]]|].
      * rewrite enc_val by (pose proof (val_nonneg b (proj1 Cb)); nia).
        rewrite pow_sq by lia. replace (2 * (k / 2)) with k by lia. exact Hv.
      * rewrite log2_half by lia. lia.
    + unfold Post; cbn [fst snd]. split; [exact Cb|split; [|split; [lia|exact Hv]]].
      rewrite Zmod_odd in Hod. destruct (Z.odd k); [reflexivity|lia].
  - unfold Inv; cbn [fst snd]. split; [exact Cx|split; [lia|reflexivity]].
  - cbn [snd]. change (Z.pos pow_fuel) with 130.
    assert (Z.log2 e < 128) by (apply Z.log2_lt_pow2; lia). lia.
  - exists base, e1. unfold Post in Hp; cbn [fst snd] in Hp. tauto.
Qed.

(** the accumulate loop *)
Lemma pow_acc_spec base acc e T : canon base -> canon acc -> 1 <= e < 2 ^ 128 ->
  val acc * val base ^ (2 * (e / 2)) = T ->
  run_loop (pow_acc_step bmul p) pow_fuel (base, acc, e) = Ret (enc T).
Proof.
  intros Cb Ca He HT. destruct (pow_ok_inv p Hok) as (_ & _ & Ec & Eb & Ea & _).
  pose (Inv := fun st : list Z * list Z * Z =>
     let '(b, a, k) := st in canon b /\ canon a /\ 1 <= k <= e /\ val a * val b ^ (2 * (k / 2)) = T).
  destruct (run_loop_rule (pow_acc_step bmul p) Inv (fun st => Z.log2 (snd st)) (fun r => r = enc T))
    with (fuel := pow_fuel) (s := (base, acc, e)) as (r & Hr & ->); [| | |exact Hr].
  - intros [[b a] k] (Cb' & Ca' & Hk & Hv). cbn [snd]. split; [apply Z.log2_nonneg|].
    unfold pow_acc_step. rewrite Ec, Eb, Ea, shiftr_1, land_1. cbn [cmp_eval].
    destruct (Z.gtb_spec k 1) as [Hgt|Hle].
    + rewrite bmul_spec by auto. cbn [bind].
      pose proof (val_nonneg b (proj1 Cb')) as Hb0.
      assert (Cb2 : canon (enc (val b * val b))) by apply enc_canon.
      assert (Vb2 : val (enc (val b * val b)) = val b * val b) by (apply enc_val; nia).
      set (k' := k / 2) in *.
      assert (Hk' : 1 <= k') by (unfold k'; lia).
      assert (Hpow : val b ^ (2 * k') = (val b * val b) ^ k') by (rewrite pow_sq; [reflexivity|lia]).
      destruct (Z.eqb_spec (k' mod 2) 1) as [Hod|Hev].
      * rewrite bmul_spec by auto. cbn [bind]. unfold Inv. rewrite Vb2.
        pose proof (val_nonneg a (proj1 Ca')) as Ha0.
        split; [split; [auto|split; [apply enc_canon|split; [unfold k'; lia|]]]|].
        -- rewrite enc_val by nia. rewrite <- Hv, Hpow.
           replace k' with (2 * (k' / 2) + 1) at 2 by lia.
           rewrite Z.pow_add_r, Z.pow_1_r by lia. ring.
        -- cbn [snd]. unfold k'. rewrite log2_half by lia. lia.
      * cbn [bind]. unfold Inv. rewrite Vb2.
        split; [split; [auto|split; [auto|split; [unfold k'; lia|]]]|].
        -- rewrite <- Hv, Hpow. replace (2 * (k' / 2)) with k' by lia. reflexivity.
        -- cbn [snd]. unfold k'. rewrite log2_half by lia. lia.
    + assert (k = 1) by lia. subst k. change (2 * (1 / 2)) with 0 in Hv. rewrite Z.pow_0_r, Z.mul_1_r in Hv.
      rewrite <- Hv. symmetry. apply enc_of_canon, Ca'.
  - unfold Inv. split; [exact Cb|split; [exact Ca|split; [lia|exact HT]]].
  - cbn [snd]. change (Z.pos pow_fuel) with 130.
    assert (Z.log2 e < 128) by (apply Z.log2_lt_pow2; lia). lia.
Qed.

(** `Pow<$T> for BigUint`, every primitive exponent type ($T::MAX < 2^128) *)
Theorem upow_prim_spec x e : canon x -> 0 <= e < 2 ^ 128 ->
  upow_prim bmul p x e = Ret (enc (val x ^ e)).
Proof.
  intros Cx He. destruct (pow_ok_inv p Hok) as (_ & Ee & _ & _ & _ & Ez).
  unfold upow_prim. rewrite Ez, Ee.
  destruct (Z.eqb_spec e 0) as [->|Hne].
  - rewrite Z.pow_0_r, enc_1. reflexivity.
  - destruct (pow_strip_spec x e Cx ltac:(lia)) as (base & e1 & -> & Cb & Hodd & He1 & Hv). cbn [bind].
    destruct (Z.eqb_spec e1 1) as [->|Hn1].
    + rewrite Z.pow_1_r in Hv. rewrite <- Hv. symmetry. f_equal. apply enc_of_canon, Cb.
    + apply pow_acc_spec; auto; [lia|].
      rewrite <- Hv. apply Z.odd_spec in Hodd. destruct Hodd as [k ->].
      replace ((2 * k + 1) / 2) with k by lia.
      rewrite Z.pow_add_r, Z.pow_1_r by lia. ring.
Qed.

Theorem upow_prim_ref_spec x e : canon x -> 0 <= e < 2 ^ 128 ->
  upow_prim_ref bmul p x e = Ret (enc (val x ^ e)).
Proof.
  intros Cx He. unfold upow_prim_ref. destruct (Z.eqb_spec e 0) as [->|].
  - rewrite Z.pow_0_r, enc_1. reflexivity.
  - apply upow_prim_spec; auto.
Qed.

(** BigUint exponent *)

Theorem upow_big_spec x e : canon x -> canon e ->
  upow_big bmul p x e =
  if (2 <=? val x) && (BB <=? val e) then Panic MemOverflow else Ret (enc (val x ^ val e)).
Proof.
  intros Cx Ce. unfold upow_big.
  pose proof (val_nonneg x (proj1 Cx)) as Hx0. pose proof (val_nonneg e (proj1 Ce)) as He0.
  rewrite (pgr_is_one_spec x Cx), (pgr_is_zero_spec e Ce), (pgr_is_zero_spec x Cx).
  destruct (Z.eqb_spec (val x) 1) as [E1|N1]; cbn [orb].
  { rewrite E1, Z.pow_1_l, enc_1 by lia. cbn. reflexivity. }
  destruct (Z.eqb_spec (val e) 0) as [E0|N0].
  { rewrite E0, Z.pow_0_r, enc_1. rewrite BB_val. pose proof B_pos.
    destruct (B * B <=? 0) eqn:Hc; [apply Z.leb_le in Hc; nia|]. rewrite andb_false_r. reflexivity. }
  destruct (Z.eqb_spec (val x) 0) as [Ex0|Nx0].
  { rewrite Ex0, Z.pow_0_l, enc_0 by lia. cbn. reflexivity. }
  assert (Hx2 : 2 <= val x) by lia.
  destruct (Z.leb_spec 2 (val x)); [|lia]. cbn [andb].
  assert (HB : B * B = 2 ^ 128) by (rewrite B_val; reflexivity).
  destruct e as [|d0 [|d1 [|d2 e']]]; cbn [pgr_to_u64 pgr_to_u128].
  - cbn in N0. lia.
  - rewrite val_single in *. destruct Ce as [We _]. apply wf_cons in We. destruct We as [[Hd0 Hd1] _].
    rewrite BB_val. destruct (Z.leb_spec (B * B) d0); [pose proof B_pos; nia|].
    apply upow_prim_spec; auto; pose proof B_pos; nia.
  - destruct Ce as [We Se]. apply wf_cons in We. destruct We as [[Hd0 Hd0'] We].
    apply wf_cons in We. destruct We as [[Hd1 Hd1'] _].
    cbn [val]. replace (d0 + B * (d1 + B * 0)) with (d0 + B * d1) by ring.
    rewrite BB_val. destruct (Z.leb_spec (B * B) (d0 + B * d1)); [nia|].
    apply upow_prim_spec; auto; nia.
  - pose proof (canon_lower _ Ce ltac:(discriminate)) as HL. cbn [length] in HL.
    replace (Z.of_nat (S (S (S (length e')))) - 1) with (Z.of_nat (S (S (length e')))) in HL by lia.
    rewrite !B_pow_S in HL. pose proof (B_pow_nat (length e')). pose proof B_pos.
    rewrite BB_val. destruct (Z.leb_spec (B * B) (val (d0 :: d1 :: d2 :: e'))); [reflexivity|nia].
Qed.

Theorem upow_big_ref_spec x e : canon x -> canon e ->
  upow_big_ref bmul p x e =
  if (2 <=? val x) && (BB <=? val e) then Panic MemOverflow else Ret (enc (val x ^ val e)).
Proof.
  intros Cx Ce. unfold upow_big_ref.
  destruct (pgr_is_one x || pgr_is_zero e) eqn:H1.
  - rewrite <- (upow_big_spec x e Cx Ce). unfold upow_big. rewrite H1. reflexivity.
  - destruct (pgr_is_zero x) eqn:H2.
    + rewrite <- (upow_big_spec x e Cx Ce). unfold upow_big. rewrite H1, H2. reflexivity.
    + apply upow_big_spec; auto.
Qed.

(** BigInt: sign of the power *)
Lemma powsign_spec s m e : 0 <= e ->
  sign_z (powsign s (e =? 0) (Z.odd e)) * m ^ e = (sign_z s * m) ^ e.
Proof.
  intros He. rewrite Z.pow_mul_l. unfold powsign.
  destruct (Z.eqb_spec e 0) as [->|Hne]; [rewrite !Z.pow_0_r; cbn; lia|].
  destruct s; cbn [sign_eqb negb orb sign_z sign_neg].
  - destruct (Z.odd e) eqn:Od.
    + apply Z.odd_spec in Od. destruct Od as [k ->].
      rewrite (Z.pow_add_r (-1)), (Z.pow_mul_r (-1)) by lia.
      change ((-1) ^ 2) with 1. change ((-1) ^ 1) with (-1). rewrite Z.pow_1_l by lia. cbn [sign_z]. lia.
    + assert (Ev : Z.even e = true) by (rewrite <- Z.negb_odd, Od; reflexivity).
      apply Z.even_spec in Ev. destruct Ev as [k ->]. rewrite (Z.pow_mul_r (-1)) by lia.
      change ((-1) ^ 2) with 1. rewrite Z.pow_1_l by lia. cbn [sign_z sign_neg]. lia.
  - rewrite Z.pow_0_l by lia. lia.
  - rewrite Z.pow_1_l by lia. lia.
Qed.

Theorem ipow_prim_spec x e : icanon x -> 0 <= e < 2 ^ 128 ->
  ipow_prim bmul p x e = Ret (ienc (ival x ^ e)).
Proof.
  intros [Cm _] He. unfold ipow_prim. rewrite upow_prim_spec by auto. cbn [bind].
  rewrite from_biguint_ienc by apply enc_canon.
  rewrite enc_val by (apply Z.pow_nonneg, val_nonneg, Cm).
  unfold ival. rewrite powsign_spec by lia. reflexivity.
Qed.
Theorem ipow_prim_ref_spec x e : icanon x -> 0 <= e < 2 ^ 128 ->
  ipow_prim_ref bmul p x e = Ret (ienc (ival x ^ e)).
Proof.
  intros [Cm _] He. unfold ipow_prim_ref. rewrite upow_prim_ref_spec by auto. cbn [bind].
  rewrite from_biguint_ienc by apply enc_canon.
  rewrite enc_val by (apply Z.pow_nonneg, val_nonneg, Cm).
  unfold ival. rewrite powsign_spec by lia. reflexivity.
Qed.


Theorem ipow_big_spec x e : icanon x -> canon e ->
  ipow_big bmul p x e =
  if (2 <=? Z.abs (ival x)) && (BB <=? val e) then Panic MemOverflow else Ret (ienc (ival x ^ val e)).
Proof.
  intros Cx Ce. destruct (icanon_sign x Cx) as [_ Hab]. destruct Cx as [Cm _].
  unfold ipow_big. rewrite upow_big_spec by auto. rewrite Hab.
  destruct ((2 <=? Z.abs (ival x)) && (BB <=? val e)); [reflexivity|]. cbn [bind].
  pose proof (val_nonneg e (proj1 Ce)) as He0.
  rewrite from_biguint_ienc by apply enc_canon.
  rewrite enc_val by (apply Z.pow_nonneg; lia).
  rewrite (pgr_is_zero_spec e Ce), (pgr_is_odd_spec e (proj1 Ce)).
  rewrite <- Hab. unfold ival. rewrite powsign_spec by lia. reflexivity.
Qed.
Theorem ipow_big_ref_spec x e : icanon x -> canon e ->
  ipow_big_ref bmul p x e =
  if (2 <=? Z.abs (ival x)) && (BB <=? val e) then Panic MemOverflow else Ret (ienc (ival x ^ val e)).
Proof.
  intros Cx Ce. destruct (icanon_sign x Cx) as [_ Hab]. destruct Cx as [Cm _].
  unfold ipow_big_ref. rewrite upow_big_ref_spec by auto. rewrite Hab.
  destruct ((2 <=? Z.abs (ival x)) && (BB <=? val e)); [reflexivity|]. cbn [bind].
  pose proof (val_nonneg e (proj1 Ce)) as He0.
  rewrite from_biguint_ienc by apply enc_canon.
  rewrite enc_val by (apply Z.pow_nonneg; lia).
  rewrite (pgr_is_zero_spec e Ce), (pgr_is_odd_spec e (proj1 Ce)).
  rewrite <- Hab. unfold ival. rewrite powsign_spec by lia. reflexivity.
Qed.
End WithBigOps.
