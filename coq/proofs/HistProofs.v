(* HistProofs.v — C04: every value reachable by any history of public operations is canonical,
   and canonical values of equal integers are IDENTICAL objects (so ==, cmp, Hash and every
   export agree).  Each case of [step_spec] is a corollary of the owning area's theorem. *)
From BigNum Require Import Base BaseLemmas AddSub SpecAddSub AddSubProofs ShiftCore Div SpecDiv
  DivProofs DivProofsCore DivProofsApi DivProofsSign Bits SpecBits BitsLemmas BitsProofsU BitsProofsTC
  BitsProofsI BitsProofsSNB BitDigits SrcLit Iter IterProofs Bytes SpecBytes BytesLemmas BytesProofs SignedBytesProofs
  Serde SerdeProofs Sign SpecSign SignProofs FormsAddSubLeaves
  Mul MulProofs PgrLoop PgrLoopProofs Pow SpecPow PowProofs Gcd SpecGcd GcdProofs GcdProofs2
  Roots SpecRoots RootsMath RootsProofs Radix RadixText RadixKernels RadixApi SpecRadix RadixProofs RadixProofs3 RadixInst
  Hist SpecHist.
Open Scope Z_scope.

(** * Vocabulary *)
Definition hist_ok_core (P : hist_params) : bool :=
  addsub_ok (hp_as P) && div_ok (hp_div P) && bits_ok (hp_bits P) &&
  mul_ok (hp_mul P) && pow_ok (hp_pow P) && gcd_ok (hp_gcd P) && roots_ok (hp_roots P) && radix_ok (hp_radix P).
Definition hist_ok (P : hist_params) : bool :=
  hist_ok_core P && iter_ok (hp_iter P) && serde_ok (hp_serde P) && bytes_ok (hp_bytes P)
  && sign_ok (hp_sign P).

(** What the operations that MULTIPLY (`*=`, pow, cbrt, nth_root, lcm) and the text of values of
    64 digits and more rest on: the two statements of property C02 (area `mul`, not yet proved
    there) about the kernels every product goes through.  Nothing else is assumed, and nothing
    at all for the operations that do not multiply. *)
Definition mul_statements : Prop :=
  (forall a s, canon a -> 0 <= s < B -> scalar_mul a s = Ret (enc (val a * s))) /\
  (forall mp x y, mul_ok mp = true -> canon x -> canon y -> mul3 mp x y = Ret (enc (val x * val y))).

Definition uses_mul (o : op) : bool :=
  match o with OMul _ | OMulS _ _ | OPow _ | OCbrt | ONthRoot _ | OLcm _ => true | _ => false end.

Definition ocanon (s : obj) : Prop := match s with OU d => canon d | OI x => icanon x end.
Definition oval (s : obj) : Z := match s with OU d => val d | OI x => ival x end.
Definition oenc (k : kind) (v : Z) : obj := match k with KU => OU (enc v) | KI => OI (ienc v) end.

(** inputs are what the wire format can carry: u64 digits, u32 words, bytes, scalars of their width *)
Definition raw_wf (y : obj) : Prop := wf (odigits y).
Definition in_width (t : swidth) (s : Z) : Prop :=
  match t with S32 => 0 <= s < 2 ^ 32 | S64 => 0 <= s < B | S128 => 0 <= s < B * B end.
Definition op_wf (o : op) : Prop :=
  match o with
  | OAdd y | OSub y | ODiv y | ORem y | OAnd y | OOr y | OXor y | OCloneFrom y
  | ODivFloor y | OModFloor y | ODivEuclid y | ORemEuclid y | ODivCeil y
  | OMul y | OGcd y | OLcm y => raw_wf y
  | OPow n | ONthRoot n => 0 <= n < 2 ^ 32
  | OSetBit i _ => 0 <= i < B
  | OAssign _ w => inb (2 ^ 32) w
  | OAddS t s | OSubS t s | ODivS t s | ORemS t s | OMulS t s => in_width t s
  | _ => True
  end.
(** well-formed, and - only for an operation that multiplies - the C02 statements *)
Definition op_ok (o : op) : Prop := op_wf o /\ (uses_mul o = true -> mul_statements).
Definition ctor_wf (c : ctor) : Prop :=
  match c with
  | CUVec d | CIParts _ d | CIFromU d => wf d
  | CUNew w | CUSlice w | CUSerde w | CINew _ w | CISlice _ w | CISerde _ w => inb (2 ^ 32) w
  | CUBytesLe b | CUBytesBe b | CIBytesLe _ b | CIBytesBe _ b | CISignedLe b | CISignedBe b => inb 256 b
  | CURadixLe b r | CURadixBe b r | CIRadixLe _ b r | CIRadixBe _ b r => inb r b /\ 2 <= r <= 256
  end.

Lemma hist_ok_inv P : hist_ok P = true ->
  addsub_ok (hp_as P) = true /\ div_ok (hp_div P) = true /\ bits_ok (hp_bits P) = true /\
  mul_ok (hp_mul P) = true /\ pow_ok (hp_pow P) = true /\ gcd_ok (hp_gcd P) = true /\
  roots_ok (hp_roots P) = true /\ radix_ok (hp_radix P) = true.
Proof.
  intros H0. assert (H : hist_ok_core P = true) by (unfold hist_ok in H0; rewrite !andb_true_iff in H0; tauto).
  unfold hist_ok_core in H.
  apply andb_prop in H as [H H8]. apply andb_prop in H as [H H7]. apply andb_prop in H as [H H6].
  apply andb_prop in H as [H H5]. apply andb_prop in H as [H H4]. apply andb_prop in H as [H H3].
  apply andb_prop in H as [H1 H2]. repeat split; assumption.
Qed.

(** the conditions of the areas whose parameters were added later (iter, ...) *)
Lemma hist_ok_inv2 P : hist_ok P = true ->
  iter_ok (hp_iter P) = true /\ serde_ok (hp_serde P) = true /\ bytes_ok (hp_bytes P) = true /\
  sign_ok (hp_sign P) = true.
Proof. unfold hist_ok. rewrite !andb_true_iff. tauto. Qed.

(** ** consequences of the two multiplication statements *)
Section MulFacts.
  Hypothesis MS : mul_statements.
  Variable mp : mul_params.
  Hypothesis Hmp : mul_ok mp = true.

  Lemma canon_digit_cons d l : canon (d :: l) -> 0 <= d < B.
  Proof. intros [W _]. apply wf_cons in W. apply W. Qed.

  Lemma umul_exact : bmul_exact (umul mp).
  Proof.
    destruct MS as [Sc M3]. intros a b Ca Cb. unfold umul, umul_with.
    destruct a as [|a0 [|a1 a'']]; destruct b as [|b0 [|b1 b'']];
      try (rewrite ?val_nil, ?Z.mul_0_l, ?Z.mul_0_r; reflexivity).
    - rewrite Sc by (auto; eapply canon_digit_cons; eauto). rewrite (val_single b0). reflexivity.
    - rewrite Sc by (auto; eapply canon_digit_cons; eauto). rewrite (val_single a0). f_equal. f_equal. ring.
    - rewrite Sc by (auto; eapply canon_digit_cons; eauto). rewrite (val_single b0). reflexivity.
    - apply (M3 mp); auto.
  Qed.

  Lemma umul_assign_exact a b : canon a -> canon b -> umul_assign mp a b = Ret (enc (val a * val b)).
  Proof.
    destruct MS as [Sc M3]. intros Ca Cb. unfold umul_assign.
    destruct a as [|a0 [|a1 a'']]; destruct b as [|b0 [|b1 b'']];
      try (rewrite ?val_nil, ?Z.mul_0_l, ?Z.mul_0_r; reflexivity).
    - rewrite Sc by (auto; eapply canon_digit_cons; eauto). rewrite (val_single b0). reflexivity.
    - rewrite Sc by (auto; eapply canon_digit_cons; eauto). rewrite (val_single a0). f_equal. f_equal. ring.
    - rewrite Sc by (auto; eapply canon_digit_cons; eauto). rewrite (val_single b0). reflexivity.
    - apply (M3 mp); auto.
  Qed.

  Lemma umul_u128_exact a s : canon a -> 0 <= s < B * B -> umul_u128 mp a s = Ret (enc (val a * s)).
  Proof.
    destruct MS as [Sc M3]. intros Ca Hs. unfold umul_u128. pose proof B_pos.
    destruct (Z.ltb_spec s B) as [L|G]; [apply Sc; auto; lia|].
    destruct (wf_lohi s Hs) as [W V]. rewrite M3; auto.
    - rewrite V. reflexivity.
    - apply wf_cons in W as [D0 W1]. apply wf_cons in W1 as [D1 _].
      apply (canon_app_last [s mod B] (s / B)); auto.
      + apply wf_single; auto.
      + intros E. assert (s / B > 0) by (apply Z.lt_gt, Z.div_str_pos; lia). lia.
  Qed.

  Lemma imul_assign_exact x y : icanon x -> icanon y ->
    imul_assign mp x y = Ret (ienc (ival x * ival y)).
  Proof.
    intros Cx Cy. unfold imul_assign.
    rewrite umul_assign_exact by (apply icanon_mag; auto). cbn [bind]. f_equal.
    pose proof (val_nonneg _ (proj1 (icanon_mag x Cx))) as Px.
    pose proof (val_nonneg _ (proj1 (icanon_mag y Cy))) as Py.
    destruct (enc (val (mag x) * val (mag y))) as [|m0 m'] eqn:E.
    - apply enc_nil_iff in E; [|nia].
      replace (ival x * ival y) with 0; [reflexivity|]. unfold ival.
      replace (sign_z (sg x) * val (mag x) * (sign_z (sg y) * val (mag y)))
        with (sign_z (sg x) * sign_z (sg y) * (val (mag x) * val (mag y))) by ring.
      rewrite E. ring.
    - assert (N : val (mag x) * val (mag y) <> 0).
      { intros Z0. rewrite Z0 in E. discriminate. }
      rewrite <- E.
      assert (Sx : sg x <> NoSign).
      { intros S. apply Cx in S. rewrite S in N. cbn in N. lia. }
      assert (Sy : sg y <> NoSign).
      { intros S. apply Cy in S. rewrite S in N. cbn in N. lia. }
      transitivity (from_biguint (sign_mul (sg x) (sg y)) (enc (val (mag x) * val (mag y)))).
      + rewrite E. destruct (sg x), (sg y); try congruence; reflexivity.
      + rewrite from_biguint_ienc by apply enc_canon. rewrite enc_val by nia. rewrite sign_mul_z.
        unfold ival. f_equal. ring.
  Qed.
End MulFacts.

Lemma ocanon_oenc k v : ocanon (oenc k v).
Proof. destruct k; [apply enc_canon|apply ienc_canon]. Qed.
Lemma oval_oenc k v : (k = KU -> 0 <= v) -> oval (oenc k v) = v.
Proof. destruct k; intros H; cbn; [apply enc_val; auto|apply ienc_val]. Qed.
Lemma okind_oenc k v : okind (oenc k v) = k.
Proof. destruct k; reflexivity. Qed.
Lemma oenc_of_ocanon s : ocanon s -> oenc (okind s) (oval s) = s.
Proof. destruct s; cbn; intros H; f_equal; [apply enc_of_canon|apply ienc_of_icanon]; auto. Qed.

(** operands *)
Lemma prep_u_canon y : wf y -> canon (prep_u y) /\ val (prep_u y) = val y.
Proof. intros H. split; [apply canon_strip; auto|apply val_strip]. Qed.
Lemma prep_i_spec y : wf (mag y) -> prep_i y = ienc (sign_z (sg y) * val (mag y)).
Proof.
  intros H. unfold prep_i, biguint_from_vec.
  rewrite from_biguint_ienc by (apply canon_strip; auto). rewrite val_strip. reflexivity.
Qed.
Lemma prep_i_canon y : wf (mag y) -> icanon (prep_i y) /\ ival (prep_i y) = sign_z (sg y) * val (mag y).
Proof. intros H. rewrite prep_i_spec by auto. split; [apply ienc_canon|apply ienc_val]. Qed.

Lemma omap_ret {A C} (f : A -> C) a : omap f (Ret a) = Ret (f a). Proof. reflexivity. Qed.

(** * BigUint steps *)
Section Step.
  Variable P : hist_params.
  Hypothesis HP : hist_ok P = true.
  Let Has := proj1 (hist_ok_inv P HP).
  Let Hdiv := proj1 (proj2 (hist_ok_inv P HP)).
  Let Hbits := proj1 (proj2 (proj2 (hist_ok_inv P HP))).
  Let Hmul := proj1 (proj2 (proj2 (proj2 (hist_ok_inv P HP)))).
  Let Hpow := proj1 (proj2 (proj2 (proj2 (proj2 (hist_ok_inv P HP))))).
  Let Hgcd := proj1 (proj2 (proj2 (proj2 (proj2 (proj2 (hist_ok_inv P HP)))))).
  Let Hroots := proj1 (proj2 (proj2 (proj2 (proj2 (proj2 (proj2 (hist_ok_inv P HP))))))).

  Lemma bdivrem_ok : bdivrem_exact (hp_bdivrem P).
  Proof. intros a b Ca Cb. apply udivrem_spec; auto. Qed.
  Lemma bmul_ok : mul_statements -> bmul_exact (hp_bmul P).
  Proof. intros MS. apply umul_exact; auto. Qed.
  Lemma hist_guess_ok : guess_ok hist_guess.
  Proof.
    intros x n mb. unfold hist_guess, guess_nostd.
    rewrite ShiftCoreProofs.ushl_spec by (try lia; apply canon_1).
    rewrite val_single, Z.mul_1_l. split; [apply enc_canon|].
    pose proof (Z.pow_pos_nonneg 2 (Z.max 0 mb) ltac:(lia) ltac:(lia)). rewrite enc_val; lia.
  Qed.

  Lemma usub_enc a b : canon a -> canon b ->
    usub (hp_as P) a b = omap enc (spec_usub (val a) (val b)).
  Proof.
    intros [Ha _] [Hb _]. rewrite usub_spec by auto. unfold spec_usub.
    destruct (val a <? val b); reflexivity.
  Qed.

  Lemma in_width_B t s : in_width t s -> t <> S128 -> 0 <= s < B.
  Proof. destruct t; cbn; intros H N; try congruence; auto. rewrite B_val. lia. Qed.

  Theorem ustep_spec a o : canon a -> zlen a < 2 ^ 58 -> op_ok o ->
    ustep P a o = omap enc (sstep KU (val a) o).
  Proof.
    intros Ca Hfit [Hwf HM].
    assert (Wa : wf a) by apply Ca.
    destruct o; cbn [op_wf] in Hwf; cbn [ustep sstep];
      try (destruct y as [y|y]; cbn [operand okind kind_eqb rawval]; [|reflexivity];
           unfold raw_wf in Hwf; cbn [odigits] in Hwf;
           destruct (prep_u_canon y Hwf) as [Cy Vy]; rewrite <- Vy).
    - (* add *) rewrite uadd_spec by auto. reflexivity.
    - (* sub *) apply usub_enc; auto.
    - (* div *) apply udiv_spec; auto.
    - (* rem *) apply urem_spec; auto.
    - (* and *) rewrite uand_assign_spec by (auto; apply Cy). reflexivity.
    - (* or *) rewrite uor_assign_spec by auto. reflexivity.
    - (* xor *) rewrite uxor_assign_spec by (auto; apply Cy). reflexivity.
    - (* shl *) apply biguint_shl_spec; auto.
    - (* shr *) rewrite spec_shr_exec_eq. apply biguint_shr_spec; auto.
    - (* set_bit *) rewrite uset_bit_spec by auto. unfold spec_set_bit_exec. rewrite set_bit_exec_eq by lia. reflexivity.
    - (* set_zero *) reflexivity.
    - (* set_one *) reflexivity.
    - (* clone_from *) rewrite Vy. cbn. unfold prep_u, biguint_from_vec. rewrite enc_strip by auto. reflexivity.
    - (* assign_from_slice *) rewrite uassign_from_slice_spec by auto. reflexivity.
    - (* += scalar *)
      destruct t; cbn [in_width] in Hwf.
      + rewrite leaf_uadd_digit_spec by (auto; rewrite B_val; lia). reflexivity.
      + rewrite leaf_uadd_digit_spec by auto. reflexivity.
      + rewrite leaf_uadd_u128_spec by auto. reflexivity.
    - (* -= scalar *)
      destruct t; cbn [in_width] in Hwf; unfold spec_usub.
      + rewrite leaf_usub_digit_spec by (auto; rewrite B_val; lia). destruct (val a <? s); reflexivity.
      + rewrite leaf_usub_digit_spec by auto. destruct (val a <? s); reflexivity.
      + rewrite leaf_usub_u128_spec by auto. destruct (val a <? s); reflexivity.
    - (* /= scalar *)
      destruct t; cbn [in_width] in Hwf.
      + apply udiv_u32_spec; auto. rewrite B_val; lia.
      + apply udiv_u64_spec; auto.
      + apply udiv_u128_spec; auto.
    - (* %= scalar *)
      destruct t; cbn [in_width] in Hwf.
      + apply urem_u32_spec; auto. rewrite B_val; lia.
      + apply urem_u64_spec; auto.
      + apply urem_u128_spec; auto.
    - reflexivity.
    - reflexivity.
    - reflexivity.
    - reflexivity.
    - (* div_floor *) apply udiv_spec; auto.
    - (* mod_floor *) apply umod_floor_spec; auto.
    - (* div_euclid *) apply udiv_spec; auto.
    - (* rem_euclid *) apply urem_spec; auto.
    - (* div_ceil *) apply udiv_ceil_spec; auto.
    - (* *= *) rewrite umul_assign_exact by auto. reflexivity.
    - (* *= scalar *)
      destruct t; cbn [in_width] in Hwf; unfold umul_digit.
      + rewrite (proj1 (HM eq_refl)) by (auto; rewrite B_val; lia). reflexivity.
      + rewrite (proj1 (HM eq_refl)) by auto. reflexivity.
      + rewrite umul_u128_exact by auto. reflexivity.
    - (* pow *) rewrite (upow_prim_spec (hp_bmul P) (bmul_ok (HM eq_refl)) (hp_pow P) Hpow) by (auto; lia).
      unfold spec_upow. rewrite zpow_safe_eq by lia. reflexivity.
    - (* sqrt *) rewrite (usqrt_spec (hp_bdivrem P) bdivrem_ok (hp_as P) Has (hp_roots P) Hroots) by (auto using hist_guess_ok).
      reflexivity.
    - (* cbrt *) rewrite (ucbrt_spec (hp_bmul P) (hp_bdivrem P) (bmul_ok (HM eq_refl)) bdivrem_ok (hp_as P) Has (hp_roots P) Hroots)
        by (auto using hist_guess_ok). reflexivity.
    - (* nth_root *) apply (unth_root_spec (hp_bmul P) (hp_bdivrem P) (bmul_ok (HM eq_refl)) bdivrem_ok (hp_as P) Has (hp_pow P) Hpow (hp_roots P) Hroots);
        auto using hist_guess_ok.
    - (* gcd *) rewrite (ugcd_spec (hp_as P) Has (hp_gcd P) Hgcd) by auto. reflexivity.
    - (* lcm *) rewrite (ulcm_spec (hp_bmul P) (hp_bdivrem P) (bmul_ok (HM eq_refl)) bdivrem_ok (hp_as P) Has (hp_gcd P) Hgcd) by auto.
      reflexivity.
  Qed.

  (** * BigInt steps *)
  Theorem istep_spec x o : icanon x -> zlen (mag x) < 2 ^ 58 -> op_ok o ->
    istep P x o = omap ienc (sstep KI (ival x) o).
  Proof.
    intros Cx Hfit [Hwf HM].
    destruct o; cbn [op_wf] in Hwf; cbn [istep sstep];
      try (destruct y as [y|y]; cbn [operand okind kind_eqb rawval]; [reflexivity|];
           unfold raw_wf in Hwf; cbn [odigits] in Hwf;
           destruct (prep_i_canon y Hwf) as [Cy Vy]; rewrite <- Vy).
    - (* add *) rewrite iadd_spec by auto. reflexivity.
    - (* sub *) rewrite isub_spec by auto. reflexivity.
    - (* div *) apply idiv_spec; auto.
    - (* rem *) apply irem_spec; auto.
    - (* and *) rewrite iand_assign_spec by auto. reflexivity.
    - (* or *) rewrite ior_assign_spec by auto. reflexivity.
    - (* xor *) rewrite ixor_assign_spec by auto. reflexivity.
    - (* shl *) apply ishl_assign_spec; auto.
    - (* shr *) rewrite spec_shr_exec_eq. apply ishr_assign_spec; auto.
    - (* set_bit *) rewrite iset_bit_spec by auto. unfold spec_set_bit_exec. rewrite set_bit_exec_eq by lia. reflexivity.
    - (* set_zero *) reflexivity.
    - (* set_one *) reflexivity.
    - (* clone_from *) rewrite Vy. cbn. rewrite prep_i_spec by auto. reflexivity.
    - (* assign_from_slice *) rewrite iassign_from_slice_spec by auto. reflexivity.
    - reflexivity.
    - reflexivity.
    - reflexivity.
    - reflexivity.
    - (* neg *) rewrite ineg_spec by auto. reflexivity.
    - (* not *) rewrite inot_spec by auto. reflexivity.
    - (* abs *) rewrite iabs_spec by (auto; apply (hist_ok_inv2 P HP)). reflexivity.
    - (* signum *) rewrite isignum_spec by (auto; apply (hist_ok_inv2 P HP)). reflexivity.
    - (* div_floor *) apply idiv_floor_spec; auto.
    - (* mod_floor *) apply imod_floor_spec; auto.
    - (* div_euclid *) apply idiv_euclid_spec; auto.
    - (* rem_euclid *) apply irem_euclid_spec; auto.
    - (* div_ceil *) apply idiv_ceil_spec; auto.
    - (* *= *) rewrite imul_assign_exact by auto. reflexivity.
    - reflexivity.
    - (* pow *) rewrite (ipow_prim_spec (hp_bmul P) (bmul_ok (HM eq_refl)) (hp_pow P) Hpow) by (auto; lia).
      unfold spec_upow. rewrite zpow_safe_eq by lia. reflexivity.
    - (* sqrt *) apply (isqrt_spec (hp_bdivrem P) bdivrem_ok (hp_as P) Has (hp_roots P) Hroots); auto using hist_guess_ok.
    - (* cbrt *) apply (icbrt_spec (hp_bmul P) (hp_bdivrem P) (bmul_ok (HM eq_refl)) bdivrem_ok (hp_as P) Has (hp_roots P) Hroots);
        auto using hist_guess_ok.
    - (* nth_root *) apply (inth_root_spec (hp_bmul P) (hp_bdivrem P) (bmul_ok (HM eq_refl)) bdivrem_ok (hp_as P) Has (hp_pow P) Hpow (hp_roots P) Hroots);
        auto using hist_guess_ok.
    - (* gcd *) rewrite (igcd_spec (hp_as P) Has (hp_gcd P) Hgcd) by auto. reflexivity.
    - (* lcm *) rewrite (ilcm_spec (hp_bmul P) (hp_bdivrem P) (bmul_ok (HM eq_refl)) bdivrem_ok (hp_as P) Has (hp_gcd P) Hgcd) by auto.
      reflexivity.
  Qed.

  (** * One step of the machine refines the Z-level step *)
  Lemma fits_lt s : fits s = true -> zlen (odigits s) < 2 ^ 58.
  Proof. unfold fits. intros H. apply Z.ltb_lt in H. exact H. Qed.

  Theorem step_spec s o : ocanon s -> fits s = true -> op_ok o ->
    step P s o = omap (oenc (okind s)) (sstep (okind s) (oval s) o).
  Proof.
    intros Cs Hf Hw. apply fits_lt in Hf. destruct s as [a|x]; cbn [step okind oval odigits] in *.
    - rewrite ustep_spec by auto. destruct (sstep KU (val a) o); reflexivity.
    - rewrite istep_spec by auto. destruct (sstep KI (ival x) o); reflexivity.
  Qed.

  (** the invariant is preserved by every operation *)
  Theorem step_canon s o s' : ocanon s -> fits s = true -> op_ok o ->
    step P s o = Ret s' -> ocanon s' /\ okind s' = okind s.
  Proof.
    intros Cs Hf Hw E. rewrite step_spec in E by auto.
    destruct (sstep (okind s) (oval s) o); cbn in E; try discriminate.
    injection E as <-. split; [apply ocanon_oenc|apply okind_oenc].
  Qed.
End Step.

(** * Constructors: whatever redundancy the input has, the object is the canonical one *)
Lemma ser_sign_ok s : (sign_z s =? -1) || (sign_z s =? 0) || (sign_z s =? 1) = true.
Proof. destruct s; reflexivity. Qed.
Lemma words_is_word w : inb (2 ^ 32) w -> forallb is_word w = true.
Proof. intros H. change (forallb is_word w) with (forallb is_u32 w). apply is_u32_inb. exact H. Qed.

Lemma radix_le_ok b r : inb r b -> 2 <= r <= 256 ->
  bytes b /\ spec_from_radix_le b r = Ret (Some (le_value r b)).
Proof.
  intros Hb Hr. split.
  - eapply Forall_impl; [|exact Hb]. cbn. intros; lia.
  - unfold spec_from_radix_le, radix_in.
    replace ((2 <=? r) && (r <=? 256)) with true by (symmetry; apply andb_true_intro; split; apply Z.leb_le; lia).
    replace (forallb (fun d => d <? r) b) with true; [reflexivity|].
    symmetry. apply forallb_forall. intros d Hd. apply Z.ltb_lt.
    unfold inb in Hb. rewrite Forall_forall in Hb. apply Hb in Hd. lia.
Qed.

Section Construct.
  Variable P : hist_params.
  Hypothesis HP : hist_ok P = true.
  Let Hradix : radix_std (hp_radix P) :=
    radix_ok_inv _ (proj2 (proj2 (proj2 (proj2 (proj2 (proj2 (proj2 (hist_ok_inv P HP)))))))).

Theorem construct_spec c : ctor_wf c ->
  construct P c = Ret (oenc (fst (sconstruct c)) (snd (sconstruct c))).
Proof.
  intros H. destruct c; cbn [ctor_wf] in H; cbn [construct sconstruct fst snd oenc].
  - unfold biguint_from_vec. rewrite enc_strip by auto. reflexivity.
  - rewrite unew_spec by auto. reflexivity.
  - rewrite ufrom_slice_spec by auto. reflexivity.
  - rewrite ufrom_bytes_le_spec by (auto; apply (hist_ok_inv2 P HP)). reflexivity.
  - rewrite ufrom_bytes_be_spec by (auto; apply (hist_ok_inv2 P HP)). reflexivity.
  - rewrite de_biguint_tokens_spec by apply (hist_ok_inv2 P HP). unfold spec_de. rewrite words_is_word by auto. reflexivity.
  - unfold biguint_from_vec. rewrite from_biguint_ienc by (apply canon_strip; auto). rewrite val_strip. reflexivity.
  - rewrite inew_spec by auto. reflexivity.
  - rewrite ifrom_slice_spec by auto. reflexivity.
  - rewrite ifrom_bytes_le_spec by (auto; apply (hist_ok_inv2 P HP)). reflexivity.
  - rewrite ifrom_bytes_be_spec by (auto; apply (hist_ok_inv2 P HP)). reflexivity.
  - rewrite from_signed_bytes_le_spec by (auto; apply (hist_ok_inv2 P HP)). reflexivity.
  - rewrite from_signed_bytes_be_spec by (auto; apply (hist_ok_inv2 P HP)). reflexivity.
  - rewrite de_bigint_spec by apply (hist_ok_inv2 P HP). unfold spec_ide, spec_de. rewrite ser_sign_ok, words_is_word by auto.
    cbn [option_map of_opt bind]. reflexivity.
  - unfold biguint_from_vec. rewrite ifrom_u_spec by (try apply (hist_ok_inv2 P HP); apply canon_strip; auto). rewrite val_strip. reflexivity.
  - destruct H as [Hb Hr]. destruct (radix_le_ok b r Hb Hr) as [By E].
    rewrite inst_from_radix_le by auto. rewrite E. reflexivity.
  - destruct H as [Hb Hr]. destruct (radix_le_ok (rev b) r (inb_rev _ _ Hb) Hr) as [_ E].
    rewrite inst_from_radix_be by (auto; apply (radix_le_ok b r Hb Hr)). unfold spec_from_radix_be. rewrite E. reflexivity.
  - destruct H as [Hb Hr]. destruct (radix_le_ok b r Hb Hr) as [By E].
    rewrite inst_ifrom_radix_le by auto. unfold spec_ifrom_radix_le. rewrite E. reflexivity.
  - destruct H as [Hb Hr]. destruct (radix_le_ok (rev b) r (inb_rev _ _ Hb) Hr) as [_ E].
    rewrite inst_ifrom_radix_be by (auto; apply (radix_le_ok b r Hb Hr)).
    unfold spec_ifrom_radix_be, spec_ifrom_radix_le. rewrite E. reflexivity.
Qed.
End Construct.

Lemma sconstruct_nonneg c : ctor_wf c -> fst (sconstruct c) = KU -> 0 <= snd (sconstruct c).
Proof.
  intros H K. destruct c; cbn [ctor_wf] in H; cbn [sconstruct fst snd] in *; try discriminate.
  - apply val_nonneg; auto.
  - apply (le_value_bound (2 ^ 32)); [lia|auto].
  - apply (le_value_bound (2 ^ 32)); [lia|auto].
  - apply (le_value_bound 256); [lia|auto].
  - apply (le_value_bound 256); [lia|apply inb_rev; auto].
  - apply (le_value_bound (2 ^ 32)); [lia|auto].
  - apply (le_value_bound r); [lia|apply H].
  - apply (le_value_bound r); [lia|apply inb_rev, H].
Qed.

(** * BigUint values never leave the naturals (so [enc] loses nothing) *)
Lemma rawval_nonneg_u y : raw_wf y -> okind y = KU -> 0 <= rawval y.
Proof. destruct y; cbn; intros H K; try discriminate. apply val_nonneg; auto. Qed.

Lemma sstep_nonneg v o v' : 0 <= v -> op_wf o -> sstep KU v o = Ret v' -> 0 <= v'.
Proof.
  intros Hv Hw E.
  destruct o; cbn [op_wf] in Hw; cbn [sstep] in E;
    try (unfold operand in E; destruct (kind_eqb KU (okind y)) eqn:K; [|discriminate];
         assert (Hy : 0 <= rawval y) by (apply rawval_nonneg_u; auto; destruct y; [reflexivity|discriminate]);
         set (b := rawval y) in *; clearbody b);
    unfold spec_usub, spec_udiv, spec_urem, spec_udiv_ceil, nz, spec_and, spec_or, spec_xor, ill_s,
      spec_upow, spec_usqrt, spec_ucbrt, spec_unth_root, spec_lcm in E;
    try discriminate.
  - injection E as <-. lia.
  - destruct (v <? b) eqn:L; [discriminate|]. injection E as <-. apply Z.ltb_ge in L. lia.
  - destruct (Z.eqb_spec b 0); [discriminate|]. injection E as <-. apply Z.div_pos; lia.
  - destruct (Z.eqb_spec b 0); [discriminate|]. injection E as <-. apply Z.mod_pos_bound. lia.
  - injection E as <-. apply Z.land_nonneg. auto.
  - injection E as <-. apply Z.lor_nonneg. auto.
  - injection E as <-. apply Z.lxor_nonneg. tauto.
  - unfold spec_shl in E. destruct (n <? 0) eqn:L; [discriminate|]. apply Z.ltb_ge in L.
    destruct (v =? 0); [injection E as <-; lia|].
    destruct ((0 <? n / 64) && too_big (n / 64 + (zdigits v + 1))); [discriminate|].
    injection E as <-. apply Z.mul_nonneg_nonneg; [auto|]. apply Z.pow_nonneg. lia.
  - unfold spec_shr_exec in E. destruct (n <? 0) eqn:L; [discriminate|]. apply Z.ltb_ge in L.
    injection E as <-. rewrite shr_exec_eq by auto. apply Z.div_pos; [auto|]. apply Z.pow_pos_nonneg; lia.
  - unfold spec_set_bit_exec in E. injection E as <-. rewrite set_bit_exec_eq by lia.
    destruct v0.
    + unfold Z.setbit. apply Z.lor_nonneg. split; [auto|]. apply Z.shiftl_nonneg. lia.
    + unfold Z.clearbit. apply Z.ldiff_nonneg. auto.
  - injection E as <-. lia.
  - injection E as <-. lia.
  - injection E as <-. auto.
  - injection E as <-. apply (le_value_bound (2 ^ 32)); [lia|auto].
  - injection E as <-. destruct t; cbn in Hw; lia.
  - destruct (v <? s) eqn:L; [discriminate|]. injection E as <-. apply Z.ltb_ge in L. lia.
  - assert (0 <= s) by (destruct t; cbn in Hw; lia).
    destruct (Z.eqb_spec s 0); [discriminate|]. injection E as <-. apply Z.div_pos; lia.
  - assert (0 <= s) by (destruct t; cbn in Hw; lia).
    destruct (Z.eqb_spec s 0); [discriminate|]. injection E as <-. apply Z.mod_pos_bound. lia.
  - destruct (Z.eqb_spec b 0); [discriminate|]. injection E as <-. apply Z.div_pos; lia.
  - destruct (Z.eqb_spec b 0); [discriminate|]. injection E as <-. apply Z.mod_pos_bound. lia.
  - destruct (Z.eqb_spec b 0); [discriminate|]. injection E as <-. apply Z.div_pos; lia.
  - destruct (Z.eqb_spec b 0); [discriminate|]. injection E as <-. apply Z.mod_pos_bound. lia.
  - destruct (Z.eqb_spec b 0); [discriminate|]. injection E as <-.
    assert (- v / b <= 0) by (apply Z.div_le_upper_bound; lia). lia.
  - injection E as <-. apply Z.mul_nonneg_nonneg; auto.
  - injection E as <-. apply Z.mul_nonneg_nonneg; auto. destruct t; cbn in Hw; lia.
  - injection E as <-. rewrite zpow_safe_eq by lia. apply Z.pow_nonneg. auto.
  - injection E as <-. destruct (zroot_spec 2 v) as [H _]; lia.
  - injection E as <-. destruct (zroot_spec 3 v) as [H _]; lia.
  - destruct (Z.eqb_spec n 0); [discriminate|]. injection E as <-. destruct (zroot_spec n v) as [H _]; lia.
  - injection E as <-. apply Z.gcd_nonneg.
  - injection E as <-. apply zlcm_nonneg.
Qed.

Lemma sstep_nonneg_ok v o v' : 0 <= v -> op_ok o -> sstep KU v o = Ret v' -> 0 <= v'.
Proof. intros Hv [Hw _]. apply sstep_nonneg; auto. Qed.

(** * Histories *)
Lemma fits_oenc k v : (k = KU -> 0 <= v) -> fits (oenc k v) = sfits v.
Proof.
  intros H. unfold fits, sfits. f_equal. destruct k; cbn [oenc odigits].
  - rewrite <- (enc_val v) at 2 by auto. symmetry. apply zdigits_val, enc_canon.
  - rewrite <- (ienc_val v) at 2. symmetry. apply zdigits_ival, ienc_canon.
Qed.

Lemma guard_oenc k v : (k = KU -> 0 <= v) -> guard (oenc k v) = omap (oenc k) (sguard v).
Proof. intros H. unfold guard, sguard. rewrite fits_oenc by auto. destruct (sfits v); reflexivity. Qed.

Lemma ocanon_nonneg s : ocanon s -> okind s = KU -> 0 <= oval s.
Proof. destruct s; cbn; intros H K; try discriminate. apply val_nonneg, H. Qed.

Section Run.
  Variable P : hist_params.
  Hypothesis HP : hist_ok P = true.

  (** one guarded step *)
  Lemma gstep_spec k v o : (k = KU -> 0 <= v) -> sfits v = true -> op_ok o ->
    (do s1 <- step P (oenc k v) o; guard s1) = omap (oenc k) (do v1 <- sstep k v o; sguard v1).
  Proof.
    intros Hn Hf Hw.
    rewrite (step_spec P HP) by (auto using ocanon_oenc; rewrite fits_oenc; auto).
    rewrite okind_oenc, oval_oenc by auto.
    destruct (sstep k v o) as [v1| |] eqn:E; cbn [omap bind]; try reflexivity.
    apply guard_oenc. intros ->. eapply sstep_nonneg_ok; eauto.
  Qed.

  Lemma sguard_ret v v' : sguard v = Ret v' -> v' = v /\ sfits v = true.
  Proof. unfold sguard. destruct (sfits v); intros E; [injection E as <-; auto|discriminate]. Qed.

  Theorem run_spec ops : forall k v, (k = KU -> 0 <= v) -> sfits v = true -> Forall op_ok ops ->
    run P (oenc k v) ops = omap (oenc k) (srun k v ops).
  Proof.
    induction ops as [|o r IH]; intros k v Hn Hf Hw; cbn [run srun]; [reflexivity|].
    inversion Hw as [|? ? Ho Hr]; subst.
    pose proof (gstep_spec k v o Hn Hf Ho) as G.
    destruct (sstep k v o) as [v1| |] eqn:E1; cbn [bind omap] in G |- *.
    - destruct (step P (oenc k v) o) as [s1| |] eqn:E2; cbn [bind] in G |- *.
      + destruct (sguard v1) as [v2| |] eqn:E3; cbn [omap bind] in G |- *; rewrite G; cbn [bind]; try reflexivity.
        apply sguard_ret in E3 as [-> F]. apply IH; auto.
        intros ->. eapply sstep_nonneg_ok; eauto.
      + rewrite G. destruct (sguard v1); reflexivity || discriminate.
      + rewrite G. destruct (sguard v1); reflexivity || discriminate.
    - destruct (step P (oenc k v) o); cbn [bind] in G |- *; try exact G.
      rewrite G. reflexivity.
    - destruct (step P (oenc k v) o); cbn [bind] in G |- *; try exact G.
      rewrite G. reflexivity.
  Qed.

  (** every history of the machine computes the canonical representation of what the same
      history computes on integers, and panics exactly where that one does *)
  Theorem history_spec c ops : ctor_wf c -> Forall op_ok ops ->
    history P c ops = omap (oenc (fst (shistory c ops))) (snd (shistory c ops)).
  Proof.
    intros Hc Hw. unfold history, start, shistory. rewrite (construct_spec P HP) by auto.
    destruct (sconstruct c) as [k v] eqn:E. cbn [fst snd bind].
    assert (Hn : k = KU -> 0 <= v).
    { intros K. pose proof (sconstruct_nonneg c Hc) as N. rewrite E in N. apply N. exact K. }
    rewrite guard_oenc by auto.
    destruct (sguard v) as [v0| |] eqn:G; cbn [omap bind]; try reflexivity.
    apply sguard_ret in G as [-> F]. apply run_spec; auto.
  Qed.

  (** the same for what the harness prints: every intermediate object *)
  Lemma trace_spec ops : forall k v, (k = KU -> 0 <= v) -> sfits v = true -> Forall op_ok ops ->
    trace P (oenc k v) ops = map (omap (oenc k)) (strace k v ops).
  Proof.
    induction ops as [|o r IH]; intros k v Hn Hf Hw; cbn [trace strace]; [reflexivity|].
    inversion Hw as [|? ? Ho Hr]; subst.
    rewrite (gstep_spec k v o Hn Hf Ho).
    destruct (sstep k v o) as [v1| |] eqn:E1; cbn [bind omap map]; try reflexivity.
    destruct (sguard v1) as [v2| |] eqn:E3; cbn [omap map]; try reflexivity.
    apply sguard_ret in E3 as [-> F]. cbn [omap bind]. f_equal. apply IH; auto.
    intros ->. eapply sstep_nonneg_ok; eauto.
  Qed.

  Theorem history_trace_spec c ops : ctor_wf c -> Forall op_ok ops ->
    history_trace P c ops =
    map (omap (oenc (fst (shistory_trace c ops)))) (snd (shistory_trace c ops)).
  Proof.
    intros Hc Hw. unfold history_trace, start, shistory_trace. rewrite (construct_spec P HP) by auto.
    destruct (sconstruct c) as [k v] eqn:E. cbn [fst snd bind].
    assert (Hn : k = KU -> 0 <= v).
    { intros K. pose proof (sconstruct_nonneg c Hc) as N. rewrite E in N. apply N. exact K. }
    rewrite guard_oenc by auto.
    destruct (sguard v) as [v0| |] eqn:G; cbn [omap map]; try reflexivity.
    apply sguard_ret in G as [-> F]. cbn [omap bind]. f_equal. apply trace_spec; auto.
  Qed.

  (** ** the invariant by induction over the history *)
  Theorem run_canon ops : forall s s', ocanon s -> fits s = true -> Forall op_ok ops ->
    run P s ops = Ret s' -> ocanon s' /\ fits s' = true /\ okind s' = okind s.
  Proof.
    induction ops as [|o r IH]; intros s s' Cs Fs Hw E; cbn [run] in E.
    - injection E as <-. auto.
    - inversion Hw as [|? ? Ho Hr]; subst.
      destruct (step P s o) as [s1| |] eqn:E1; cbn [bind] in E; try discriminate.
      destruct (step_canon P HP s o s1 Cs Fs Ho E1) as [C1 K1].
      unfold guard in E. destruct (fits s1) eqn:F1; cbn [bind] in E; try discriminate.
      destruct (IH s1 s' C1 F1 Hr E) as (C & F & K). rewrite K1 in K. auto.
  Qed.

  Theorem start_canon c s : ctor_wf c -> start P c = Ret s -> ocanon s /\ fits s = true.
  Proof.
    intros Hc E. unfold start in E. rewrite (construct_spec P HP) in E by auto. cbn [bind] in E.
    unfold guard in E. destruct (fits _) eqn:F; [|discriminate]. injection E as <-.
    split; [apply ocanon_oenc|exact F].
  Qed.

  Theorem reachable_canon c ops s0 s : ctor_wf c -> Forall op_ok ops ->
    start P c = Ret s0 -> run P s0 ops = Ret s -> ocanon s.
  Proof.
    intros Hc Hw E0 E. destruct (start_canon c s0 Hc E0) as [C0 F0].
    apply (run_canon ops s0 s C0 F0 Hw E).
  Qed.
End Run.

(** * Equal integers are identical objects *)
Theorem ocanon_inj a b : ocanon a -> ocanon b -> okind a = okind b -> oval a = oval b -> a = b.
Proof.
  destruct a, b; cbn; intros Ca Cb K V; try discriminate; f_equal.
  - apply canon_inj; auto.
  - apply icanon_inj; auto.
Qed.

(** ** Eq *)
Lemma list_eqb_spec a : forall b, list_eqb a b = true <-> a = b.
Proof.
  induction a as [|x a IH]; intros [|y b]; cbn; split; intros H; try congruence; try reflexivity.
  - apply andb_prop in H as [H1 H2]. apply Z.eqb_eq in H1. apply IH in H2. congruence.
  - injection H as -> ->. rewrite Z.eqb_refl. cbn. apply IH. reflexivity.
Qed.

Lemma list_eqb_val a b : canon a -> canon b -> list_eqb a b = (val a =? val b).
Proof.
  intros Ca Cb. destruct (Z.eqb_spec (val a) (val b)) as [E|N].
  - apply list_eqb_spec. apply canon_inj; auto.
  - destruct (list_eqb a b) eqn:L; [|reflexivity]. apply list_eqb_spec in L. subst. congruence.
Qed.

Theorem ueq_spec a b : canon a -> canon b -> ueq a b = Ret (val a =? val b).
Proof.
  intros Ca Cb. unfold ueq. rewrite !canon_last_nonzero by auto. cbn [assert_ bind].
  rewrite list_eqb_val by auto. reflexivity.
Qed.
Theorem ueq_iff a b : canon a -> canon b ->
  exists e, ueq a b = Ret e /\ (e = true <-> val a = val b).
Proof. intros Ca Cb. eexists. split; [apply ueq_spec; auto|]. apply Z.eqb_eq. Qed.

Theorem ieq_spec x y : icanon x -> icanon y -> ieq x y = Ret (ival x =? ival y).
Proof.
  intros Cx Cy. unfold ieq. rewrite !sign_consistent_canon by auto. cbn [assert_ bind].
  destruct (icanon_cases x Cx) as [(Sx & Mx & Vx)|[(Sx & Px & Vx)|(Sx & Px & Vx)]];
  destruct (icanon_cases y Cy) as [(Sy & My & Vy)|[(Sy & Py & Vy)|(Sy & Py & Vy)]];
    rewrite Sx, Sy, Vx, Vy; cbn [sign_eqb]; try rewrite ueq_spec by (apply icanon_mag; auto); f_equal;
    try (symmetry; apply Z.eqb_neq; lia); try reflexivity.
  destruct (Z.eqb_spec (val (mag x)) (val (mag y))), (Z.eqb_spec (- val (mag x)) (- val (mag y))); try lia; reflexivity.
Qed.
Theorem ieq_iff x y : icanon x -> icanon y ->
  exists e, ieq x y = Ret e /\ (e = true <-> ival x = ival y).
Proof. intros Cx Cy. eexists. split; [apply ieq_spec; auto|]. apply Z.eqb_eq. Qed.

Theorem oeq_spec a b : ocanon a -> ocanon b -> okind a = okind b -> oeq a b = Ret (oval a =? oval b).
Proof.
  destruct a, b; cbn; intros Ca Cb K; try discriminate; [apply ueq_spec|apply ieq_spec]; auto.
Qed.

(** ** Ord *)
Theorem ocmp_spec sp a b : sign_ok sp = true -> ocanon a -> ocanon b -> okind a = okind b ->
  ocmp sp a b = Ret (oval a ?= oval b).
Proof.
  intros Hsp. destruct a, b; cbn; intros Ca Cb K; try discriminate.
  - apply cmp_slice_spec; auto.
  - apply icmp_spec; auto.
Qed.

Theorem omax_spec sp a b : sign_ok sp = true -> ocanon a -> ocanon b -> okind a = okind b ->
  exists m, omax sp a b = Ret m /\ (m = a \/ m = b) /\ oval m = Z.max (oval a) (oval b).
Proof.
  intros Hsp Ca Cb K. unfold omax. rewrite ocmp_spec by auto. cbn [bind].
  destruct (Z.compare_spec (oval a) (oval b)); eexists; (split; [reflexivity|]); split; auto; lia.
Qed.
Theorem omin_spec sp a b : sign_ok sp = true -> ocanon a -> ocanon b -> okind a = okind b ->
  exists m, omin sp a b = Ret m /\ (m = a \/ m = b) /\ oval m = Z.min (oval a) (oval b).
Proof.
  intros Hsp Ca Cb K. unfold omin. rewrite ocmp_spec by auto. cbn [bind].
  destruct (Z.compare_spec (oval a) (oval b)); eexists; (split; [reflexivity|]); split; auto; lia.
Qed.

(** sorting by [cmp] sorts by value *)
From Coq Require Import Sorting.Permutation Sorting.Sorted.
Definition good (k : kind) (s : obj) : Prop := ocanon s /\ okind s = k.
Definition vle (a b : obj) : Prop := oval a <= oval b.

Lemma oinsert_spec sp k x : sign_ok sp = true -> good k x -> forall l, Forall (good k) l -> StronglySorted vle l ->
  exists r, oinsert sp x l = Ret r /\ Permutation (x :: l) r /\ StronglySorted vle r /\ Forall (good k) r.
Proof.
  intros Hsp [Cx Kx]. induction l as [|y l IH]; intros Hl Hs; cbn [oinsert].
  - exists [x]. repeat split; auto. repeat constructor. repeat constructor; auto.
  - inversion Hl as [|? ? [Cy Ky] Hl']; subst. inversion Hs as [|? ? Hs' Hy]; subst.
    rewrite ocmp_spec by (auto; congruence). cbn [bind].
    destruct (Z.compare_spec (oval x) (oval y)) as [E|L|G].
    + exists (x :: y :: l). repeat split; auto.
      * constructor; auto. constructor; [unfold vle; lia|].
        eapply Forall_impl; [|exact Hy]. unfold vle. intros; lia.
      * constructor; auto. split; auto.
    + exists (x :: y :: l). repeat split; auto.
      * constructor; auto. constructor; [unfold vle; lia|].
        eapply Forall_impl; [|exact Hy]. unfold vle. intros; lia.
      * constructor; auto. split; auto.
    + destruct (IH Hl' Hs') as (r & E & Pm & Sr & Gr). rewrite E. cbn [bind].
      exists (y :: r). repeat split.
      * eapply perm_trans; [apply perm_swap|]. constructor. exact Pm.
      * constructor; auto.
        eapply Permutation_Forall; [exact Pm|]. constructor; [unfold vle; lia|exact Hy].
      * constructor; auto. split; auto.
Qed.

Theorem osort_spec sp k l : sign_ok sp = true -> Forall (good k) l ->
  exists r, osort sp l = Ret r /\ Permutation l r /\ StronglySorted vle r.
Proof.
  intros Hsp Hl.
  assert (exists r, osort sp l = Ret r /\ Permutation l r /\ StronglySorted vle r /\ Forall (good k) r) as (r & E & Pm & S & _).
  { induction l as [|x l IH]; cbn [osort].
    - exists []. repeat split; constructor.
    - inversion Hl as [|? ? Hx Hl']; subst. destruct (IH Hl') as (r & E & Pm & Sr & Gr). rewrite E. cbn [bind].
      destruct (oinsert_spec sp k x Hsp Hx r Gr Sr) as (r' & E' & Pm' & Sr' & Gr'). exists r'. repeat split; auto.
      eapply perm_trans; [|exact Pm']. constructor. exact Pm. }
  eauto.
Qed.

(** ** Hash *)
Theorem hash_stream_spec s : ocanon s ->
  hash_stream s = Ret (match s with
                       | OU d => zlen d :: d
                       | OI x => match sg x with NoSign => [1] | sx => sign_disc sx :: zlen (mag x) :: mag x end
                       end).
Proof.
  destruct s as [d|x]; cbn [ocanon hash_stream]; intros C.
  - unfold uhash. rewrite canon_last_nonzero by auto. reflexivity.
  - unfold ihash, uhash. rewrite sign_consistent_canon by auto. cbn [assert_ bind].
    destruct (sg x) eqn:S; cbn [sign_eqb]; try reflexivity;
      rewrite canon_last_nonzero by (apply icanon_mag; auto); reflexivity.
Qed.

Theorem hash_fun a b : ocanon a -> ocanon b -> okind a = okind b -> oval a = oval b ->
  hash_stream a = hash_stream b.
Proof. intros Ca Cb K V. rewrite (ocanon_inj a b Ca Cb K V). reflexivity. Qed.

(** different integers feed different streams to the hasher *)
Theorem hash_inj a b : ocanon a -> ocanon b -> okind a = okind b ->
  hash_stream a = hash_stream b -> oval a = oval b.
Proof.
  intros Ca Cb K E. rewrite !hash_stream_spec in E by auto.
  destruct a as [d|x], b as [e|y]; cbn in K; try discriminate; cbn [oval].
  - injection E as _ ->. reflexivity.
  - destruct (icanon_cases x Ca) as [(Sx & Mx & Vx)|[(Sx & Px & Vx)|(Sx & Px & Vx)]];
    destruct (icanon_cases y Cb) as [(Sy & My & Vy)|[(Sy & Py & Vy)|(Sy & Py & Vy)]];
      rewrite Sx, Sy in E; cbn [sign_disc] in E; try discriminate; try congruence;
      injection E as _ E; rewrite Vx, Vy, E; reflexivity.
Qed.

(** ** NoSign exactly for zero *)
Theorem nosign_iff_zero x : icanon x -> (sg x = NoSign <-> ival x = 0).
Proof.
  intros C. destruct (icanon_cases x C) as [(S & M & V)|[(S & Pp & V)|(S & Pp & V)]]; rewrite S, V;
    split; intros H; try discriminate; try reflexivity; lia.
Qed.
Lemma nosign_iff_zero_b_true s : ocanon s -> nosign_iff_zero_b s = true.
Proof.
  destruct s as [d|x]; cbn; intros C; [reflexivity|].
  destruct (icanon_cases x C) as [(S & M & V)|[(S & Pp & V)|(S & Pp & V)]]; unfold isign, imagnitude; rewrite S; cbn.
  - rewrite M. reflexivity.
  - destruct (mag x); [cbn in Pp; lia|reflexivity].
  - destruct (mag x); [cbn in Pp; lia|reflexivity].
Qed.

(** ** Exports are functions of the integer *)
Definition is_text (e : export) : bool := match e with EText _ => true | _ => false end.
(** the text of a value of 64 digits or more goes through big products (C02 statements) *)
Definition text_ok (s : obj) : Prop := zlen (odigits s) < 64 \/ mul_statements.

Lemma text_ok_small_or_umul s : text_ok s -> small_or_umul (odigits s).
Proof.
  intros [H|MS]; [left; exact H|right].
  intros mp a b Hmp Ca Cb. apply umul_exact; auto.
Qed.

Section Exports.
  Variable P : hist_params.
  Hypothesis HP : hist_ok P = true.
  Let Hradix : radix_std (hp_radix P) :=
    radix_ok_inv _ (proj2 (proj2 (proj2 (proj2 (proj2 (proj2 (proj2 (hist_ok_inv P HP)))))))).

  Theorem export_spec e s : ocanon s -> In e (exports_for s) -> (is_text e = true -> text_ok s) ->
    export_of P e s = sexport (okind s) e (oval s).
  Proof.
    destruct s as [d|x]; cbn [ocanon exports_for okind oval]; intros C Hin HT.
    - assert (W : wf d) by apply C.
      destruct e; cbn [export_of sexport]; cbn in Hin;
        try (exfalso; intuition discriminate).
      + apply uto_u32_digits_spec; auto. apply (hist_ok_inv2 P HP).
      + rewrite uto_u64_digits_spec by auto. reflexivity.
      + apply uto_bytes_le_spec; auto; apply (hist_ok_inv2 P HP).
      + apply uto_bytes_be_spec; auto; apply (hist_ok_inv2 P HP).
      + rewrite ubits_spec by auto. reflexivity.
      + rewrite ucount_ones_spec by auto. reflexivity.
      + rewrite utrailing_zeros_spec by auto. reflexivity.
      + apply inst_to_str_radix; auto. apply (text_ok_small_or_umul (OU d)). auto.
    - destruct e; cbn [export_of sexport]; cbn in Hin;
        try (exfalso; intuition discriminate).
      + rewrite ito_u32_digits_spec by (auto; apply (hist_ok_inv2 P HP)). reflexivity.
      + rewrite ito_u64_digits_spec by auto. reflexivity.
      + rewrite ito_bytes_le_spec by (auto; apply (hist_ok_inv2 P HP)). reflexivity.
      + rewrite ito_bytes_be_spec by (auto; apply (hist_ok_inv2 P HP)). reflexivity.
      + apply to_signed_bytes_le_spec; auto; apply (hist_ok_inv2 P HP).
      + apply to_signed_bytes_be_spec; auto; apply (hist_ok_inv2 P HP).
      + rewrite ibits_spec by auto. reflexivity.
      + rewrite itrailing_zeros_spec by auto. reflexivity.
      + apply inst_ito_str_radix; auto. apply (text_ok_small_or_umul (OI x)). auto.
  Qed.

  Theorem export_fun e a b : ocanon a -> ocanon b -> okind a = okind b -> oval a = oval b ->
    export_of P e a = export_of P e b.
  Proof. intros Ca Cb K V. rewrite (ocanon_inj a b Ca Cb K V). reflexivity. Qed.
End Exports.

(** * The property *)
Section Top.
  Variable P : hist_params.
  Hypothesis HP : hist_ok P = true.

  Theorem history_canon c ops s : ctor_wf c -> Forall op_ok ops -> history P c ops = Ret s -> ocanon s.
  Proof.
    intros Hc Hw E. unfold history in E. destruct (start P c) as [s0| |] eqn:E0; cbn [bind] in E; try discriminate.
    eapply reachable_canon; eauto.
  Qed.

  Theorem history_kind c ops s : ctor_wf c -> Forall op_ok ops -> history P c ops = Ret s ->
    okind s = fst (sconstruct c).
  Proof.
    intros Hc Hw E. rewrite history_spec in E by auto. unfold shistory in E.
    destruct (sconstruct c) as [k v]; cbn [fst snd] in *.
    destruct (do v0 <- sguard v; srun k v0 ops); cbn in E; try discriminate.
    injection E as <-. apply okind_oenc.
  Qed.

  (** Two histories (any constructor, any operations, each returning) that reach the same
      integer yield the SAME object; and on any two reachable objects of one type every
      observation is the one the integers dictate. *)
  Theorem indistinguishable ca opsa cb opsb a b :
    ctor_wf ca -> Forall op_ok opsa -> ctor_wf cb -> Forall op_ok opsb ->
    history P ca opsa = Ret a -> history P cb opsb = Ret b -> okind a = okind b ->
    (oval a = oval b -> a = b) /\
    oeq a b = Ret (oval a =? oval b) /\
    ocmp (hp_sign P) a b = Ret (oval a ?= oval b) /\
    (oval a = oval b -> hash_stream a = hash_stream b) /\
    (hash_stream a = hash_stream b -> oval a = oval b) /\
    (forall e, In e (exports_for a) -> (is_text e = true -> text_ok a) ->
               export_of P e a = sexport (okind a) e (oval a)) /\
    (forall e, oval a = oval b -> export_of P e a = export_of P e b) /\
    (exists m, omax (hp_sign P) a b = Ret m /\ (m = a \/ m = b) /\ oval m = Z.max (oval a) (oval b)) /\
    (exists m, omin (hp_sign P) a b = Ret m /\ (m = a \/ m = b) /\ oval m = Z.min (oval a) (oval b)) /\
    (osign a = NoSign <-> oval a = 0).
  Proof.
    intros Hca Hwa Hcb Hwb Ea Eb K.
    pose proof (history_canon ca opsa a Hca Hwa Ea) as Ca.
    pose proof (history_canon cb opsb b Hcb Hwb Eb) as Cb.
    split; [apply ocanon_inj; auto|].
    split; [apply oeq_spec; auto|].
    split; [apply ocmp_spec; auto; apply (hist_ok_inv2 P HP)|].
    split; [apply hash_fun; auto|].
    split; [apply hash_inj; auto|].
    split; [intros e; apply export_spec; auto|].
    split; [intros e; apply export_fun; auto|].
    split; [apply omax_spec; auto; apply (hist_ok_inv2 P HP)|].
    split; [apply omin_spec; auto; apply (hist_ok_inv2 P HP)|].
    destruct a as [d|x]; cbn [osign oval].
    - destruct d as [|d0 d']; [cbn; tauto|]. split; [discriminate|]. intros V.
      pose proof (canon_val_zero _ Ca V). discriminate.
    - apply nosign_iff_zero; auto.
  Qed.
End Top.

(** * Operations that do not multiply need no premise at all *)
Lemma op_ok_nomul o : op_wf o -> uses_mul o = false -> op_ok o.
Proof. intros W N. split; [exact W|]. rewrite N. discriminate. Qed.
Lemma ops_ok_nomul ops : Forall op_wf ops -> forallb (fun o => negb (uses_mul o)) ops = true -> Forall op_ok ops.
Proof.
  induction 1 as [|o r W _ IH]; cbn [forallb]; intros H; constructor.
  - apply andb_prop in H as [H _]. apply op_ok_nomul; auto. destruct (uses_mul o); [discriminate|reflexivity].
  - apply andb_prop in H as [_ H]. auto.
Qed.
Lemma ops_ok_mul ops : mul_statements -> Forall op_wf ops -> Forall op_ok ops.
Proof. intros MS H. eapply Forall_impl; [|exact H]. intros o W. split; auto. Qed.
