(* HistProofs.v — C04: every value reachable by any history of public operations is canonical,
   and canonical values of equal integers are IDENTICAL objects (so ==, cmp, Hash and every
   export agree).  Each case of [step_spec] is a corollary of the owning area's theorem. *)
From BigNum Require Import Base BaseLemmas AddSub SpecAddSub AddSubProofs ShiftCore Div SpecDiv
  DivProofs DivProofsCore DivProofsApi DivProofsSign Bits SpecBits BitsLemmas BitsProofsU BitsProofsTC
  BitsProofsI BitsProofsSNB BitDigits Iter Bytes SpecBytes BytesLemmas BytesProofs SignedBytesProofs
  Serde SerdeProofs Sign SpecSign SignProofs FormsAddSubLeaves Hist SpecHist.
Open Scope Z_scope.

(** * Vocabulary *)
Definition hist_ok (P : hist_params) : bool :=
  addsub_ok (hp_as P) && div_ok (hp_div P) && bits_ok (hp_bits P).

Definition ocanon (s : obj) : Prop := match s with OU d => canon d | OI x => icanon x end.
Definition oval (s : obj) : Z := match s with OU d => val d | OI x => ival x end.
Definition oenc (k : kind) (v : Z) : obj := match k with KU => OU (enc v) | KI => OI (ienc v) end.

(** inputs are what the wire format can carry: u64 digits, u32 words, bytes, scalars of their width *)
Definition raw_wf (y : obj) : Prop := wf (odigits y).
Definition in_width (t : swidth) (s : Z) : Prop :=
  match t with S32 => 0 <= s < 2 ^ 32 | S64 => 0 <= s < B | S128 => 0 <= s < B * B end.
Definition op_wf (o : op) : Prop :=
  match o with
  | OAdd y | OSub y | ODiv y | ORem y | OAnd y | OOr y | OXor y | OCloneFrom y
  | ODivFloor y | OModFloor y | ODivEuclid y | ORemEuclid y | ODivCeil y => raw_wf y
  | OSetBit i _ => 0 <= i < B
  | OAssign _ w => inb (2 ^ 32) w
  | OAddS t s | OSubS t s | ODivS t s | ORemS t s => in_width t s
  | _ => True
  end.
Definition ctor_wf (c : ctor) : Prop :=
  match c with
  | CUVec d | CIParts _ d | CIFromU d => wf d
  | CUNew w | CUSlice w | CUSerde w | CINew _ w | CISlice _ w | CISerde _ w => inb (2 ^ 32) w
  | CUBytesLe b | CUBytesBe b | CIBytesLe _ b | CIBytesBe _ b | CISignedLe b | CISignedBe b => inb 256 b
  end.

Lemma hist_ok_inv P : hist_ok P = true ->
  addsub_ok (hp_as P) = true /\ div_ok (hp_div P) = true /\ bits_ok (hp_bits P) = true.
Proof. unfold hist_ok. intros H. apply andb_prop in H as [H H3]. apply andb_prop in H as [H1 H2]. auto. Qed.

Lemma ocanon_oenc k v : ocanon (oenc k v).
Proof. destruct k; [apply enc_canon|apply ienc_canon]. Qed.
Lemma oval_oenc k v : (k = KU -> 0 <= v) -> oval (oenc k v) = v.
Proof. destruct k; intros H; cbn; [apply enc_val; auto|apply ienc_val]. Qed.
Lemma okind_oenc k v : okind (oenc k v) = k.
Proof. destruct k; reflexivity. Qed.
Lemma oenc_of_ocanon s : ocanon s -> oenc (okind s) (oval s) = s.
Proof. destruct s; cbn; intros H; f_equal; [apply enc_of_canon|apply ienc_of_icanon]; auto. Qed.

(** operands *)
Lemma prep_u_canon y : wf y -> canon (prep_u y) /\ val (prep_u y) = val y.
Proof. intros H. split; [apply canon_strip; auto|apply val_strip]. Qed.
Lemma prep_i_spec y : wf (mag y) -> prep_i y = ienc (sign_z (sg y) * val (mag y)).
Proof.
  intros H. unfold prep_i, biguint_from_vec.
  rewrite from_biguint_ienc by (apply canon_strip; auto). rewrite val_strip. reflexivity.
Qed.
Lemma prep_i_canon y : wf (mag y) -> icanon (prep_i y) /\ ival (prep_i y) = sign_z (sg y) * val (mag y).
Proof. intros H. rewrite prep_i_spec by auto. split; [apply ienc_canon|apply ienc_val]. Qed.

Lemma omap_ret {A C} (f : A -> C) a : omap f (Ret a) = Ret (f a). Proof. reflexivity. Qed.

(** * BigUint steps *)
Section Step.
  Variable P : hist_params.
  Hypothesis HP : hist_ok P = true.
  Let Has := proj1 (hist_ok_inv P HP).
  Let Hdiv := proj1 (proj2 (hist_ok_inv P HP)).
  Let Hbits := proj2 (proj2 (hist_ok_inv P HP)).

  Lemma usub_enc a b : canon a -> canon b ->
    usub (hp_as P) a b = omap enc (spec_usub (val a) (val b)).
  Proof.
    intros [Ha _] [Hb _]. rewrite usub_spec by auto. unfold spec_usub.
    destruct (val a <? val b); reflexivity.
  Qed.

  Lemma in_width_B t s : in_width t s -> t <> S128 -> 0 <= s < B.
  Proof. destruct t; cbn; intros H N; try congruence; auto. rewrite B_val. lia. Qed.

  Theorem ustep_spec a o : canon a -> zlen a < 2 ^ 58 -> op_wf o ->
    ustep P a o = omap enc (sstep KU (val a) o).
  Proof.
    intros Ca Hfit Hwf.
    assert (Wa : wf a) by apply Ca.
    destruct o; cbn [op_wf] in Hwf; cbn [ustep sstep];
      try (destruct y as [y|y]; cbn [operand okind kind_eqb rawval]; [|reflexivity];
           unfold raw_wf in Hwf; cbn [odigits] in Hwf;
           destruct (prep_u_canon y Hwf) as [Cy Vy]; rewrite <- Vy).
    - (* add *) rewrite uadd_spec by auto. reflexivity.
    - (* sub *) apply usub_enc; auto.
    - (* div *) apply udiv_spec; auto.
    - (* rem *) apply urem_spec; auto.
    - (* and *) rewrite uand_assign_spec by (auto; apply Cy). reflexivity.
    - (* or *) rewrite uor_assign_spec by auto. reflexivity.
    - (* xor *) rewrite uxor_assign_spec by (auto; apply Cy). reflexivity.
    - (* shl *) apply biguint_shl_spec; auto.
    - (* shr *) rewrite spec_shr_exec_eq. apply biguint_shr_spec; auto.
    - (* set_bit *) rewrite uset_bit_spec by auto. unfold spec_set_bit_exec. rewrite set_bit_exec_eq by lia. reflexivity.
    - (* set_zero *) reflexivity.
    - (* set_one *) reflexivity.
    - (* clone_from *) rewrite Vy. cbn. unfold prep_u, biguint_from_vec. rewrite enc_strip by auto. reflexivity.
    - (* assign_from_slice *) rewrite uassign_from_slice_spec by auto. reflexivity.
    - (* += scalar *)
      destruct t; cbn [in_width] in Hwf.
      + rewrite leaf_uadd_digit_spec by (auto; rewrite B_val; lia). reflexivity.
      + rewrite leaf_uadd_digit_spec by auto. reflexivity.
      + rewrite leaf_uadd_u128_spec by auto. reflexivity.
    - (* -= scalar *)
      destruct t; cbn [in_width] in Hwf; unfold spec_usub.
      + rewrite leaf_usub_digit_spec by (auto; rewrite B_val; lia). destruct (val a <? s); reflexivity.
      + rewrite leaf_usub_digit_spec by auto. destruct (val a <? s); reflexivity.
      + rewrite leaf_usub_u128_spec by auto. destruct (val a <? s); reflexivity.
    - (* /= scalar *)
      destruct t; cbn [in_width] in Hwf.
      + apply udiv_u32_spec; auto. rewrite B_val; lia.
      + apply udiv_u64_spec; auto.
      + apply udiv_u128_spec; auto.
    - (* %= scalar *)
      destruct t; cbn [in_width] in Hwf.
      + apply urem_u32_spec; auto. rewrite B_val; lia.
      + apply urem_u64_spec; auto.
      + apply urem_u128_spec; auto.
    - reflexivity.
    - reflexivity.
    - reflexivity.
    - reflexivity.
    - (* div_floor *) apply udiv_spec; auto.
    - (* mod_floor *) apply umod_floor_spec; auto.
    - (* div_euclid *) apply udiv_spec; auto.
    - (* rem_euclid *) apply urem_spec; auto.
    - (* div_ceil *) apply udiv_ceil_spec; auto.
  Qed.

  (** * BigInt steps *)
  Theorem istep_spec x o : icanon x -> zlen (mag x) < 2 ^ 58 -> op_wf o ->
    istep P x o = omap ienc (sstep KI (ival x) o).
  Proof.
    intros Cx Hfit Hwf.
    destruct o; cbn [op_wf] in Hwf; cbn [istep sstep];
      try (destruct y as [y|y]; cbn [operand okind kind_eqb rawval]; [reflexivity|];
           unfold raw_wf in Hwf; cbn [odigits] in Hwf;
           destruct (prep_i_canon y Hwf) as [Cy Vy]; rewrite <- Vy).
    - (* add *) rewrite iadd_spec by auto. reflexivity.
    - (* sub *) rewrite isub_spec by auto. reflexivity.
    - (* div *) apply idiv_spec; auto.
    - (* rem *) apply irem_spec; auto.
    - (* and *) rewrite iand_assign_spec by auto. reflexivity.
    - (* or *) rewrite ior_assign_spec by auto. reflexivity.
    - (* xor *) rewrite ixor_assign_spec by auto. reflexivity.
    - (* shl *) apply ishl_assign_spec; auto.
    - (* shr *) rewrite spec_shr_exec_eq. apply ishr_assign_spec; auto.
    - (* set_bit *) rewrite iset_bit_spec by auto. unfold spec_set_bit_exec. rewrite set_bit_exec_eq by lia. reflexivity.
    - (* set_zero *) reflexivity.
    - (* set_one *) reflexivity.
    - (* clone_from *) rewrite Vy. cbn. rewrite prep_i_spec by auto. reflexivity.
    - (* assign_from_slice *) rewrite iassign_from_slice_spec by auto. reflexivity.
    - reflexivity.
    - reflexivity.
    - reflexivity.
    - reflexivity.
    - (* neg *) rewrite ineg_spec by auto. reflexivity.
    - (* not *) rewrite inot_spec by auto. reflexivity.
    - (* abs *) rewrite iabs_spec by auto. reflexivity.
    - (* signum *) rewrite isignum_spec by auto. reflexivity.
    - (* div_floor *) apply idiv_floor_spec; auto.
    - (* mod_floor *) apply imod_floor_spec; auto.
    - (* div_euclid *) apply idiv_euclid_spec; auto.
    - (* rem_euclid *) apply irem_euclid_spec; auto.
    - (* div_ceil *) apply idiv_ceil_spec; auto.
  Qed.

  (** * One step of the machine refines the Z-level step *)
  Lemma fits_lt s : fits s = true -> zlen (odigits s) < 2 ^ 58.
  Proof. unfold fits. intros H. apply Z.ltb_lt in H. exact H. Qed.

  Theorem step_spec s o : ocanon s -> fits s = true -> op_wf o ->
    step P s o = omap (oenc (okind s)) (sstep (okind s) (oval s) o).
  Proof.
    intros Cs Hf Hw. apply fits_lt in Hf. destruct s as [a|x]; cbn [step okind oval odigits] in *.
    - rewrite ustep_spec by auto. destruct (sstep KU (val a) o); reflexivity.
    - rewrite istep_spec by auto. destruct (sstep KI (ival x) o); reflexivity.
  Qed.

  (** the invariant is preserved by every operation *)
  Theorem step_canon s o s' : ocanon s -> fits s = true -> op_wf o ->
    step P s o = Ret s' -> ocanon s' /\ okind s' = okind s.
  Proof.
    intros Cs Hf Hw E. rewrite step_spec in E by auto.
    destruct (sstep (okind s) (oval s) o); cbn in E; try discriminate.
    injection E as <-. split; [apply ocanon_oenc|apply okind_oenc].
  Qed.
End Step.
