(* RootsMath.v — C11, Z-level part: the executable floor-root [zroot] meets its specification
   r^n <= x < (r+1)^n (which determines r uniquely); integer AM-GM; the Newton step
   f(s) = ((n-1) s + x / s^(n-1)) / n  satisfies  f(s) >= r for every s > 0  and  f(s) < s for
   every s > r; the saturation cap 2^(bits/n+1) exceeds r. *)
From BigNum Require Import Base BaseLemmas SpecRoots.
Open Scope Z_scope.

(** * floor root: specification, uniqueness, executable version *)
Definition is_root (n x r : Z) : Prop := 0 <= r /\ r ^ n <= x < (r + 1) ^ n.

Lemma root_unique n x r r' : 1 <= n -> is_root n x r -> is_root n x r' -> r = r'.
Proof.
  intros Hn [H0 [H1 H2]] [H0' [H1' H2']].
  destruct (Z.lt_trichotomy r r') as [L|[E|L]]; [|exact E|].
  - assert ((r + 1) ^ n <= r' ^ n) by (apply Z.pow_le_mono_l; lia). lia.
  - assert ((r' + 1) ^ n <= r ^ n) by (apply Z.pow_le_mono_l; lia). lia.
Qed.

Lemma pow_le_spec c n x : 1 <= c -> 1 <= n -> 0 < x -> pow_le c n x = (c ^ n <=? x).
Proof.
  intros Hc Hn Hx. unfold pow_le. destruct (Z.gtb_spec (Z.log2 c * n) (Z.log2 x)) as [H|H]; [|reflexivity].
  symmetry. apply Z.leb_gt.
  destruct (Z.log2_spec c ltac:(lia)) as [Lc _]. destruct (Z.log2_spec x Hx) as [_ Lx].
  pose proof (Z.log2_nonneg c) as Hlc. pose proof (Z.log2_nonneg x) as Hlx.
  assert (H1 : (2 ^ Z.log2 c) ^ n <= c ^ n) by (apply Z.pow_le_mono_l; split; [apply Z.pow_nonneg; lia|exact Lc]).
  rewrite <- Z.pow_mul_r in H1 by lia.
  assert (H2 : 2 ^ Z.succ (Z.log2 x) <= 2 ^ (Z.log2 c * n)) by (apply Z.pow_le_mono_r; lia).
  lia.
Qed.

Lemma zroot_bits_spec n x : 1 <= n -> 0 < x -> forall k r, 0 <= r ->
  r ^ n <= x < (r + 2 ^ Z.of_nat k) ^ n -> is_root n x (zroot_bits k n x r).
Proof.
  intros Hn Hx. induction k as [|k IH]; intros r Hr [H1 H2].
  - cbn [zroot_bits]. change (2 ^ Z.of_nat 0) with 1 in H2. split; [exact Hr|split; assumption].
  - cbn [zroot_bits]. rewrite Nat2Z.inj_succ, Z.pow_succ_r in H2 by lia.
    pose proof (Z.pow_pos_nonneg 2 (Z.of_nat k) ltac:(lia) ltac:(lia)) as Hp.
    set (c := r + 2 ^ Z.of_nat k) in *.
    rewrite pow_le_spec by lia.
    destruct (Z.leb_spec (c ^ n) x) as [L|L].
    + apply IH; [lia|]. split; [exact L|]. replace (c + 2 ^ Z.of_nat k) with (r + 2 * 2 ^ Z.of_nat k) by (unfold c; lia). exact H2.
    + apply IH; [lia|]. split; [exact H1|exact L].
Qed.

Theorem zroot_spec n x : 1 <= n -> 0 <= x -> is_root n x (zroot n x).
Proof.
  intros Hn Hx. unfold zroot. destruct (Z.leb_spec x 0) as [L|L].
  - assert (x = 0) by lia. subst x. split; [lia|]. rewrite Z.pow_0_l, Z.pow_1_l by lia. lia.
  - apply zroot_bits_spec; auto; [lia|].
    rewrite Z.pow_0_l by lia. split; [lia|]. rewrite Z.add_0_l.
    pose proof (Z.log2_nonneg x) as Hl.
    rewrite Z2Nat.id by (pose proof (Z.div_pos (Z.log2 x) n ltac:(lia) ltac:(lia)); lia).
    rewrite <- Z.pow_mul_r by (pose proof (Z.div_pos (Z.log2 x) n ltac:(lia) ltac:(lia)); lia).
    destruct (Z.log2_spec x L) as [_ Lx].
    assert (2 ^ Z.succ (Z.log2 x) <= 2 ^ ((Z.log2 x / n + 1) * n)).
    { apply Z.pow_le_mono_r; [lia|]. pose proof (Z.mul_div_le (Z.log2 x) n ltac:(lia)).
      pose proof (Z.mod_pos_bound (Z.log2 x) n ltac:(lia)). pose proof (Z.div_mod (Z.log2 x) n ltac:(lia)). nia. }
    lia.
Qed.

Lemma zroot_eq n x r : 1 <= n -> 0 <= x -> is_root n x r -> zroot n x = r.
Proof. intros Hn Hx H. apply (root_unique n x); auto. apply zroot_spec; auto. Qed.

Lemma zroot_0 n : 1 <= n -> zroot n 0 = 0.
Proof. intros. apply zroot_eq; try lia. split; [lia|]. rewrite Z.pow_0_l, Z.pow_1_l by lia. lia. Qed.
Lemma zroot_1 n : 1 <= n -> zroot n 1 = 1.
Proof.
  intros. apply zroot_eq; try lia. split; [lia|]. rewrite Z.pow_1_l by lia. split; [lia|].
  change (1 + 1) with 2. pose proof (Z.pow_gt_1 2 n ltac:(lia)). lia.
Qed.
Lemma zroot_deg1 x : 0 <= x -> zroot 1 x = x.
Proof. intros. apply zroot_eq; try lia. split; [lia|]. rewrite !Z.pow_1_r. lia. Qed.
Lemma zroot_small n x : 1 <= n -> 1 <= x < 2 ^ n -> zroot n x = 1.
Proof. intros Hn Hx. apply zroot_eq; try lia. split; [lia|]. rewrite Z.pow_1_l by lia. change (1 + 1) with 2. lia. Qed.
Lemma zroot_pos n x : 1 <= n -> 1 <= x -> 1 <= zroot n x.
Proof.
  intros Hn Hx. destruct (zroot_spec n x Hn ltac:(lia)) as [H0 [H1 H2]].
  destruct (Z.eq_dec (zroot n x) 0) as [E|]; [|lia]. rewrite E in H2. rewrite Z.pow_1_l in H2; lia.
Qed.
Lemma zroot_le n x : 1 <= n -> 0 <= x -> zroot n x <= x.
Proof.
  intros Hn Hx. destruct (zroot_spec n x Hn Hx) as [H0 [H1 H2]].
  destruct (Z.eq_dec (zroot n x) 0) as [E|]; [lia|].
  assert (zroot n x ^ 1 <= zroot n x ^ n) by (apply Z.pow_le_mono_r; lia).
  rewrite Z.pow_1_r in *. lia.
Qed.

(** * integer AM-GM:  r^n + (n-1) s^n >= n r s^(n-1) *)
Lemma amgm_nat r s : 0 <= r -> 0 <= s -> forall k : nat,
  let n := Z.of_nat k + 1 in
  n * r * s ^ (n - 1) <= r ^ n + (n - 1) * s ^ n.
Proof.
  intros Hr Hs. induction k as [|k IH]; cbn zeta in *.
  - cbn [Z.of_nat]. change (0 + 1) with 1. change (1 - 1) with 0. rewrite Z.pow_0_r, !Z.pow_1_r. lia.
  - rewrite Nat2Z.inj_succ. set (n := Z.of_nat k + 1) in *.
    replace (Z.succ (Z.of_nat k) + 1) with (n + 1) by lia.
    replace (n + 1 - 1) with n by lia.
    assert (Hn : 1 <= n) by lia.
    assert (E1 : s ^ n = s * s ^ (n - 1)).
    { replace n with (Z.succ (n - 1)) at 1 by lia. rewrite Z.pow_succ_r by lia. reflexivity. }
    assert (E2 : s ^ (n + 1) = s * (s * s ^ (n - 1))).
    { replace (n + 1) with (Z.succ n) by lia. rewrite Z.pow_succ_r by lia. rewrite E1. reflexivity. }
    assert (E3 : r ^ (n + 1) = r * r ^ n).
    { replace (n + 1) with (Z.succ n) by lia. rewrite Z.pow_succ_r by lia. reflexivity. }
    rewrite E1 in IH. rewrite E2, E3, E1. clear E1 E2 E3.
    set (S := s ^ (n - 1)) in *. set (R := r ^ n) in *.
    assert (HS : 0 <= S) by (apply Z.pow_nonneg; lia).
    assert (Hsq : 0 <= n * (S * ((s - r) * (s - r)))).
    { apply Z.mul_nonneg_nonneg; [lia|]. apply Z.mul_nonneg_nonneg; [lia|]. apply Z.square_nonneg. }
    assert (HI : r * (n * r * S) <= r * (R + (n - 1) * (s * S))) by (apply Z.mul_le_mono_nonneg_l; lia).
    (* goal - HI - Hsq is an identity *)
    replace ((n + 1) * r * (s * S)) with (r * (n * r * S) - n * (r * (r * S)) + (n + 1) * (r * (s * S))) by ring.
    replace (r * R + (n + 1 - 1) * (s * (s * S)))
      with (r * (R + (n - 1) * (s * S)) - (n - 1) * (r * (s * S)) + n * (s * (s * S))) by ring.
    replace (n * (S * ((s - r) * (s - r)))) with (n * (s * (s * S)) - 2 * n * (r * (s * S)) + n * (r * (r * S))) in Hsq by ring.
    lia.
Qed.

Lemma amgm r s n : 0 <= r -> 0 <= s -> 1 <= n ->
  n * r * s ^ (n - 1) <= r ^ n + (n - 1) * s ^ n.
Proof.
  intros Hr Hs Hn. pose proof (amgm_nat r s Hr Hs (Z.to_nat (n - 1))) as H. cbn zeta in H.
  rewrite Z2Nat.id in H by lia. replace (n - 1 + 1) with n in H by lia. exact H.
Qed.

(** * the Newton step *)
Definition newton (n x s : Z) : Z := ((n - 1) * s + x / s ^ (n - 1)) / n.

Theorem newton_ge n x s r : 1 <= n -> 0 <= x -> is_root n x r -> 0 < s -> r <= newton n x s.
Proof.
  intros Hn Hx [Hr [H1 _]] Hs. unfold newton.
  assert (Hp : 0 < s ^ (n - 1)) by (apply Z.pow_pos_nonneg; lia).
  apply Z.div_le_lower_bound; [lia|].
  assert (Hq : n * r - (n - 1) * s <= x / s ^ (n - 1)).
  { apply Z.div_le_lower_bound; [exact Hp|].
    pose proof (amgm r s n Hr ltac:(lia) Hn) as A.
    replace (s ^ n) with (s * s ^ (n - 1)) in A.
    2:{ replace n with (Z.succ (n - 1)) at 2 by lia. rewrite Z.pow_succ_r by lia. reflexivity. }
    set (S := s ^ (n - 1)) in *.
    replace (S * (n * r - (n - 1) * s)) with (n * r * S - (n - 1) * (s * S)) by ring. lia. }
  lia.
Qed.

Theorem newton_lt n x s r : 1 <= n -> 0 <= x -> is_root n x r -> r < s -> newton n x s < s.
Proof.
  intros Hn Hx [Hr [_ H2]] Hs. unfold newton.
  assert (Hp : 0 < s ^ (n - 1)) by (apply Z.pow_pos_nonneg; lia).
  assert (Hxs : x < s ^ n).
  { assert ((r + 1) ^ n <= s ^ n) by (apply Z.pow_le_mono_l; lia). lia. }
  assert (Hq : x / s ^ (n - 1) < s).
  { apply Z.div_lt_upper_bound; [exact Hp|].
    replace (s ^ (n - 1) * s) with (s ^ n); [exact Hxs|].
    replace n with (Z.succ (n - 1)) at 1 by lia. rewrite Z.pow_succ_r by lia. ring. }
  apply Z.div_lt_upper_bound; [lia|]. nia.
Qed.

(** the saturation value 2^max_bits, max_bits = bits/n + 1, is above the root *)
Theorem cap_ok n x r : 1 <= n -> 1 <= x -> is_root n x r ->
  r < 2 ^ ((Z.log2 x + 1) / n + 1).
Proof.
  intros Hn Hx [Hr [H1 _]].
  set (mb := (Z.log2 x + 1) / n + 1).
  pose proof (Z.log2_nonneg x) as Hl.
  assert (Hmb : 1 <= mb) by (unfold mb; pose proof (Z.div_pos (Z.log2 x + 1) n ltac:(lia) ltac:(lia)); lia).
  destruct (Z.lt_ge_cases r (2 ^ mb)) as [L|G]; [exact L|exfalso].
  assert (Hp : (2 ^ mb) ^ n <= r ^ n) by (apply Z.pow_le_mono_l; split; [apply Z.pow_nonneg; lia|lia]).
  rewrite <- Z.pow_mul_r in Hp by lia.
  destruct (Z.log2_spec x ltac:(lia)) as [_ Lx].
  assert (2 ^ Z.succ (Z.log2 x) <= 2 ^ (mb * n)).
  { apply Z.pow_le_mono_r; [lia|]. unfold mb.
    pose proof (Z.mod_pos_bound (Z.log2 x + 1) n ltac:(lia)). pose proof (Z.div_mod (Z.log2 x + 1) n ltac:(lia)). nia. }
  lia.
Qed.
