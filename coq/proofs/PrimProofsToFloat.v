(* PrimProofsToFloat.v — C08: to_f64 / to_f32 for BigUint and BigInt are the correctly rounded
   (nearest, ties-to-even) float, +-inf beyond the finite range. *)
From BigNum Require Import Base BaseLemmas ShiftCore ShiftCoreProofs AddSub Prim SpecPrim PrimProofsCast PrimProofs PrimProofsFloat.
Open Scope Z_scope.

Lemma rne_zero p : 0 < p -> rne p 0 = (0, 0).
Proof.
  intros Hp. unfold rne. change (blen 0) with 0. replace (Z.max 0 (0 - p)) with 0 by lia. reflexivity.
Qed.

Lemma rne_small p M : 0 < M -> blen M <= p -> rne p M = (M, 0).
Proof.
  intros HM HL. unfold rne. replace (Z.max 0 (blen M - p)) with 0 by lia.
  change (2 ^ 0) with 1. rewrite Z.div_1_r, Z.mod_1_r. reflexivity.
Qed.

Section Encode.
Variable f : ffmt.
Hypothesis Hprec : 2 <= f_prec f.
Hypothesis Hew : 2 <= f_ew f.

(** the modelled hardware path (cast to float, multiply by 2^x) against the Z-level RNE + encoder *)
Lemma float_enc_link M x : 0 <= M -> 0 <= x -> (M = 0 -> x <= f_bias f) ->
  float_mul_pow2 f (uint_to_float_rne (f_prec f) M) x =
  (if 2 ^ (2 ^ (f_ew f - 1)) <=? fst (rne (f_prec f) M) * 2 ^ (snd (rne (f_prec f) M) + x)
   then fl_inf (f_prec f) (f_ew f)
   else fl_encode (f_prec f) (f_ew f) (fst (rne (f_prec f) M)) (snd (rne (f_prec f) M) + x)).
Proof.
  intros HM Hx H0.
  set (prec := f_prec f) in *. set (ew := f_ew f) in *.
  set (K := 2 ^ (ew - 1)).
  assert (HK : 0 < K) by (apply Z.pow_pos_nonneg; lia).
  assert (H2ew : 2 ^ ew = 2 * K) by (unfold K; apply pow2_double; lia).
  assert (H2K : 0 < 2 ^ K) by (apply Z.pow_pos_nonneg; lia).
  unfold float_mul_pow2, f_inf, fl_inf. unfold f_bias, f_emask, f_fb in *. fold prec ew K in H0 |- *. rewrite H2ew.
  destruct (Z.eq_dec M 0) as [->|HMn].
  - rewrite rne_zero by lia. cbn [fst snd]. change (uint_to_float_rne prec 0) with (0, 0). cbn [Z.eqb].
    specialize (H0 eq_refl). destruct (Z.ltb_spec (K - 1) x); [lia|].
    rewrite Z.mul_0_l. destruct (Z.leb_spec (2 ^ K) 0); [lia|]. reflexivity.
  - assert (HMp : 0 < M) by lia.
    destruct (blen_bounds M HMp) as [HL0 [HLlo HLhi]].
    set (L := blen M) in *.
    unfold uint_to_float_rne. destruct (Z.leb_spec M 0); [lia|].
    replace (Z.log2 M + 1) with L by (unfold L, blen; destruct (Z.leb_spec M 0); [lia|reflexivity]).
    destruct (Z.leb_spec L prec) as [HLp|HLp].
    + (* exact *)
      rewrite rne_small by (fold L; lia). cbn [fst snd].
      assert (Hm : 0 < M * 2 ^ (prec - L)) by (apply Z.mul_pos_pos; [lia|apply Z.pow_pos_nonneg; lia]).
      destruct (Z.eqb_spec (M * 2 ^ (prec - L)) 0); [lia|].
      pose proof (pow2_le_iff (M * 2 ^ (0 + x)) K ltac:(apply Z.mul_pos_pos; [lia|apply Z.pow_pos_nonneg; lia]) ltac:(lia)) as Hiff.
      rewrite blen_mul_pow2 in Hiff by lia. fold L in Hiff.
      unfold fl_encode. destruct (Z.leb_spec M 0); [lia|]. fold L.
      destruct (Z.leb_spec L prec); [|lia].
      destruct (Z.leb_spec (2 * K - 1) (L - prec + x + (prec - 1) + (K - 1)));
        destruct (Z.leb_spec (2 ^ K) (M * 2 ^ (0 + x))); try reflexivity; lia.
    + (* rounded *)
      set (sh := L - prec) in *.
      assert (Hsh : 0 < sh) by (unfold sh; lia).
      set (half := 2 ^ (sh - 1)).
      assert (Hhalf : 0 < half) by (apply Z.pow_pos_nonneg; lia).
      assert (H2sh : 2 ^ sh = 2 * half) by (apply pow2_double; lia).
      set (q := M / 2 ^ sh). set (r := M mod 2 ^ sh).
      assert (Hr : 0 <= r < 2 * half) by (unfold r; rewrite <- H2sh; apply Z.mod_pos_bound; lia).
      assert (Hq : 2 ^ (prec - 1) <= q < 2 ^ prec).
      { replace (L - 1) with ((prec - 1) + sh) in HLlo by (unfold sh; lia).
        replace L with (prec + sh) in HLhi by (unfold sh; lia).
        rewrite Z.pow_add_r in HLlo, HLhi by lia. unfold q. rewrite H2sh in *. split.
        - apply Z.div_le_lower_bound; lia.
        - apply Z.div_lt_upper_bound; lia. }
      assert (Hp1 : 0 < 2 ^ (prec - 1)) by (apply Z.pow_pos_nonneg; lia).
      assert (Hp2 : 2 ^ prec = 2 * 2 ^ (prec - 1)) by (apply pow2_double; lia).
      (* the two roundings pick the same mantissa *)
      set (q' := if (half <? r) || ((r =? half) && Z.odd q) then q + 1 else q).
      assert (Hrne : rne prec M = (q', sh)).
      { unfold rne. fold L. replace (Z.max 0 (L - prec)) with sh by (unfold sh; lia).
        fold q r. rewrite H2sh. f_equal. unfold q'. rewrite <- Z.negb_even.
        destruct (Z.ltb_spec (2 * r) (2 * half)); destruct (Z.ltb_spec (2 * half) (2 * r));
          destruct (Z.ltb_spec half r); destruct (Z.eqb_spec r half); cbn [orb andb]; try lia;
          try reflexivity; destruct (Z.even q); reflexivity. }
      rewrite Hrne. cbn [fst snd].
      assert (Hq' : q <= q' <= q + 1) by (unfold q'; destruct ((half <? r) || ((r =? half) && Z.odd q)); lia).
      clearbody q'.
      pose proof (pow2_le_iff (q' * 2 ^ (sh + x)) K ltac:(apply Z.mul_pos_pos; [lia|apply Z.pow_pos_nonneg; lia]) ltac:(lia)) as Hiff.
      rewrite blen_mul_pow2 in Hiff by lia.
      unfold fl_encode. destruct (Z.leb_spec q' 0); [lia|].
      destruct (Z.eqb_spec q' (2 ^ prec)) as [Hc|Hc].
      * assert (Hbl : blen q' = prec + 1) by (apply blen_unique; [lia|]; replace (prec + 1 - 1) with prec by lia; rewrite (pow2_double (prec + 1)) by lia; replace (prec + 1 - 1) with prec by lia; lia).
        rewrite Hbl in *. destruct (Z.eqb_spec (2 ^ (prec - 1)) 0); [lia|].
        destruct (Z.leb_spec (prec + 1) prec); [lia|].
        destruct (Z.leb_spec (2 * K - 1) (sh + 1 + x + (prec - 1) + (K - 1)));
          destruct (Z.leb_spec (2 ^ K) (q' * 2 ^ (sh + x))); try reflexivity; lia.
      * assert (Hbl : blen q' = prec) by (apply blen_unique; lia).
        rewrite Hbl in *. destruct (Z.eqb_spec q' 0); [lia|].
        destruct (Z.leb_spec prec prec); [|lia].
        replace (prec - prec) with 0 by lia. change (2 ^ 0) with 1.
        destruct (Z.leb_spec (2 * K - 1) (sh + x + (prec - 1) + (K - 1)));
          destruct (Z.leb_spec (2 ^ K) (q' * 2 ^ (sh + x))); try reflexivity; lia.
Qed.
End Encode.

Lemma rne_fst_pos p M : 0 < p -> 0 < M -> 0 < fst (rne p M) /\ 0 <= snd (rne p M).
Proof.
  intros Hp HM. destruct (Z_le_gt_dec (blen M) p) as [Hs|Hl].
  - rewrite rne_small by lia. cbn [fst snd]. lia.
  - destruct (blen_bounds M HM) as [_ [Hlo _]].
    unfold rne. cbn [fst snd]. replace (Z.max 0 (blen M - p)) with (blen M - p) by lia.
    set (e := blen M - p). assert (0 < 2 ^ e) by (apply Z.pow_pos_nonneg; lia).
    assert (Hq : 2 ^ (p - 1) <= M / 2 ^ e).
    { apply Z.div_le_lower_bound; [lia|]. rewrite <- Z.pow_add_r by lia.
      replace (e + (p - 1)) with (blen M - 1) by (unfold e; lia). exact Hlo. }
    assert (0 < 2 ^ (p - 1)) by (apply Z.pow_pos_nonneg; lia).
    split; [|lia].
    destruct (_ <? _); [lia|]. destruct (_ <? _); [lia|]. destruct (Z.even _); lia.
Qed.

Lemma rodd_small k n : 0 <= n -> blen n <= k -> rodd k n = n.
Proof.
  intros Hn Hb. unfold rodd. replace (Z.max 0 (blen n - k)) with 0 by lia.
  change (2 ^ 0) with 1. rewrite Z.div_1_r, Z.mod_1_r. cbn [Z.eqb]. apply Z.lor_0_r.
Qed.

Lemma blen_nonneg n : 0 <= blen n.
Proof. unfold blen. destruct (Z.leb_spec n 0); [lia|]. pose proof (Z.log2_nonneg n). lia. Qed.

Section ToFloat.
Variable p : prim_params.
Hypothesis Hok : prim_ok p = true.

Lemma uto_float_spec f cmp max v :
  2 <= f_prec f <= 62 -> 2 <= f_ew f -> cmp = Cgt -> max = 2 ^ (f_ew f - 1) -> max < 2 ^ 31 ->
  canon v ->
  uto_float f cmp max p v = Ret (spec_to_float (f_prec f) (f_ew f) (val v)).
Proof.
  intros Hprec Hew -> Hmax Hmax31 Hc.
  pose proof (val_nonneg v (proj1 Hc)) as HN.
  unfold uto_float. rewrite (high_bits_spec p Hok v Hc). cbn [bind].
  rewrite (ubits_blen v Hc). set (N := val v) in *. set (M := rodd 64 N).
  unfold fls64, lz64. rewrite bitlen_blen. replace (64 - (64 - blen M)) with (blen M) by lia.
  assert (Hcase : (M = N /\ blen N <= 64) \/ (blen M = 64 /\ 64 < blen N)).
  { destruct (Z_le_gt_dec (blen N) 64) as [Hs|Hl].
    - left. split; [apply rodd_small; assumption|assumption].
    - right. split; [apply blen_rodd; lia|lia]. }
  set (x := blen N - blen M).
  assert (Hx : 0 <= x) by (unfold x; destruct Hcase as [[-> _]|[-> ?]]; lia).
  assert (Hrel : rne (f_prec f) N = (fst (rne (f_prec f) M), snd (rne (f_prec f) M) + x)).
  { destruct Hcase as [[HMN _]|[HbM Hl]].
    - unfold x. rewrite HMN. replace (blen N - blen N) with 0 by lia. rewrite Z.add_0_r.
      destruct (rne (f_prec f) N); reflexivity.
    - unfold x. rewrite HbM. apply rne_of_odd; lia. }
  assert (HM0 : 0 <= M /\ (M = 0 -> N = 0) /\ (0 < N -> 0 < M)).
  { destruct Hcase as [[-> _]|[HbM Hl]]; [lia|].
    assert (0 < M) by (unfold blen in HbM; destruct (Z.leb_spec M 0); lia). lia. }
  rewrite chk_true by (apply Z.leb_le; unfold x in Hx; lia). cbn [bind].
  fold x. unfold spec_to_float. rewrite Hrel.
  assert (HK : 0 < max) by (rewrite Hmax; apply Z.pow_pos_nonneg; lia).
  unfold cmp_eval. destruct (Z.gtb_spec x max) as [Hgt|Hle].
  - (* beyond the cut-off *)
    assert (HNp : 0 < N).
    { destruct (Z.eq_dec N 0) as [HN0|]; [|lia]. exfalso.
      assert (M = 0) by (unfold M; rewrite HN0; reflexivity). unfold x in Hgt. rewrite HN0, H in Hgt.
      change (blen 0) with 0 in Hgt. lia. }
    destruct (rne_fst_pos (f_prec f) M ltac:(lia) ltac:(lia)) as [Hm1 He1].
    set (m1 := fst (rne (f_prec f) M)) in *. set (e1 := snd (rne (f_prec f) M)) in *.
    rewrite <- Hmax.
    assert (2 ^ max <= 2 ^ (e1 + x)) by (apply Z.pow_le_mono_r; lia).
    assert (0 < 2 ^ (e1 + x)) by (apply Z.pow_pos_nonneg; lia).
    destruct (Z.leb_spec (2 ^ max) (m1 * 2 ^ (e1 + x))); [reflexivity|nia].
  - rewrite as_cast_id by (pt_consts; change (2 ^ 31) with 2147483648 in Hmax31; lia).
    rewrite chk_true by (apply Z.leb_le; lia). cbn [bind].
    rewrite (float_enc_link f ltac:(lia) Hew M x) ; [reflexivity|lia|lia|].
    intros HM. unfold f_bias. rewrite <- Hmax. destruct HM0 as (_ & HMN & _). specialize (HMN HM).
    unfold x. rewrite HM, HMN. change (blen 0) with 0. lia.
Qed.

(** to_f64 / to_f32 for BigUint: nearest float, ties to even, +inf beyond the finite range *)
Theorem uto_f64_spec v : canon v -> uto_f64 p v = Ret (spec_to_float 53 11 (val v)).
Proof.
  intros Hc. destruct (prim_ok_inv p Hok) as (_&_&_&_&_&_&Hcmp&Hmax&_).
  unfold uto_f64. apply (uto_float_spec F64); cbn [F64 f_prec f_ew]; try assumption; try lia.
Qed.
Theorem uto_f32_spec v : canon v -> uto_f32 p v = Ret (spec_to_float 24 8 (val v)).
Proof.
  intros Hc. destruct (prim_ok_inv p Hok) as (_&_&_&_&_&_&_&_&Hcmp&Hmax&_).
  unfold uto_f32. apply (uto_float_spec F32); cbn [F32 f_prec f_ew]; try assumption; try lia.
Qed.
End ToFloat.

(** the magnitude pattern never reaches the sign bit *)
Lemma spec_to_float_lt prec ew v : 2 <= prec -> 2 <= ew -> 0 <= v ->
  spec_to_float prec ew v < 2 ^ (prec - 1 + ew).
Proof.
  intros Hprec Hew Hv. unfold spec_to_float.
  assert (Hme : 0 <= fst (rne prec v) /\ 0 <= snd (rne prec v)).
  { destruct (Z.eq_dec v 0) as [->|]; [rewrite rne_zero by lia; cbn; lia|].
    destruct (rne_fst_pos prec v ltac:(lia) ltac:(lia)). lia. }
  destruct (rne prec v) as [m e]. cbn [fst snd] in Hme.
  set (K := 2 ^ (ew - 1)). assert (HK : 0 < K) by (apply Z.pow_pos_nonneg; lia).
  assert (H2ew : 2 ^ ew = 2 * K) by (unfold K; apply pow2_double; lia).
  set (P1 := 2 ^ (prec - 1)). assert (HP1 : 0 < P1) by (apply Z.pow_pos_nonneg; lia).
  rewrite Z.pow_add_r by lia. fold P1. rewrite H2ew.
  destruct (Z.leb_spec (2 ^ K) (m * 2 ^ e)) as [Hov|Hno].
  - unfold fl_inf. fold P1. rewrite H2ew. nia.
  - unfold fl_encode. fold P1 K. destruct (Z.leb_spec m 0); [nia|].
    pose proof (pow2_le_iff (m * 2 ^ e) K ltac:(apply Z.mul_pos_pos; [lia|apply Z.pow_pos_nonneg; lia]) ltac:(lia)) as Hiff.
    rewrite blen_mul_pow2 in Hiff by lia.
    destruct (blen_bounds m ltac:(lia)) as [HL0 [_ HLhi]].
    set (L := blen m) in *.
    assert (HE : e + L - 1 + (K - 1) <= 2 * K - 2) by lia.
    assert (Hfr : (if L <=? prec then m * 2 ^ (prec - L) - P1 else 0) < P1).
    { destruct (Z.leb_spec L prec); [|lia].
      assert (0 < 2 ^ (prec - L)) by (apply Z.pow_pos_nonneg; lia).
      assert (Hm1 : m * 2 ^ (prec - L) < 2 ^ L * 2 ^ (prec - L)) by (apply Z.mul_lt_mono_pos_r; lia).
      rewrite <- Z.pow_add_r in Hm1 by lia. replace (L + (prec - L)) with prec in Hm1 by lia.
      assert (Hp2 : 2 ^ prec = 2 * P1) by (unfold P1; apply pow2_double; lia).
      lia. }
    assert ((e + L - 1 + (K - 1)) * P1 <= (2 * K - 2) * P1) by (apply Z.mul_le_mono_nonneg_r; lia).
    lia.
Qed.

Section ToFloatSigned.
Variable p : prim_params.
Hypothesis Hok : prim_ok p = true.

Lemma ito_float_spec f g x :
  2 <= f_prec f -> 2 <= f_ew f ->
  (forall v, canon v -> g p v = Ret (spec_to_float (f_prec f) (f_ew f) (val v))) ->
  icanon x ->
  ito_float f g p x = Ret (spec_ito_float (f_prec f) (f_ew f) (ival x)).
Proof.
  intros Hprec Hew Hg Hi. pose proof Hi as [Hc _]. unfold ito_float, spec_ito_float.
  rewrite (Hg _ Hc). cbn [bind].
  destruct (icanon_cases x Hi) as [(Hs&Hm&Hv)|[(Hs&Hv&Hp)|(Hs&Hv&Hp)]]; rewrite Hs, Hv.
  - rewrite Hm. reflexivity.
  - destruct (Z.ltb_spec (val (mag x)) 0); [lia|]. rewrite Z.abs_eq by lia. reflexivity.
  - destruct (Z.ltb_spec (- val (mag x)) 0); [|lia].
    rewrite Z.abs_neq by lia. rewrite Z.opp_involutive.
    pose proof (spec_to_float_lt (f_prec f) (f_ew f) (val (mag x)) Hprec Hew ltac:(lia)) as Hlt.
    unfold f_neg, f_signbit, f_fb.
    destruct (Z.ltb_spec (spec_to_float (f_prec f) (f_ew f) (val (mag x))) (2 ^ (f_prec f - 1 + f_ew f))); [|lia].
    f_equal. lia.
Qed.

(** to_f64 / to_f32 for BigInt: sign bit + correctly rounded magnitude *)
Theorem ito_f64_spec x : icanon x -> ito_f64 p x = Ret (spec_ito_float 53 11 (ival x)).
Proof.
  intros Hi. apply (ito_float_spec F64 uto_f64); cbn [F64 f_prec f_ew]; try lia; [|exact Hi].
  intros v Hv. apply uto_f64_spec; assumption.
Qed.
Theorem ito_f32_spec x : icanon x -> ito_f32 p x = Ret (spec_ito_float 24 8 (ival x)).
Proof.
  intros Hi. apply (ito_float_spec F32 uto_f32); cbn [F32 f_prec f_ew]; try lia; [|exact Hi].
  intros v Hv. apply uto_f32_spec; assumption.
Qed.
End ToFloatSigned.
