(* RandProofs.v — C18: random generation over a scripted word stream refines its Z-level
   specification (SpecRand.v), stays within the requested bounds, and bounded sampling returns
   the first candidate below the bound. *)
From BigNum Require Import Base BaseLemmas SrcLit SrcLitLemmas AddSub AddSubProofs Sign SpecSign SignProofs Rand SpecRand.
Open Scope Z_scope.

(** ** the source-extracted parameters the proofs are about *)
Definition rand_std : rand_params := {|
  rnp_bits_rem_cmp := Cgt; rnp_bits_width := 32; rnp_bits_sub := true;
  rnp_word_bits := 32; rnp_len_rem_cmp := Cgt; rnp_native_bits := 64;
  rnp_zero_neg := false; rnp_redraw_then := true; rnp_zero_sign := NoSign;
  rnp_true_sign := Plus; rnp_false_sign := Minus;
  rnp_below_assert_neg := true; rnp_below_cmp := Clt;
  rnp_urange_cmp := Clt; rnp_urange_zero_neg := false;
  rnp_irange_cmp := Clt; rnp_irange_lo_neg := false; rnp_irange_hi_neg := false;
  rnp_uu_new_cmp := Clt; rnp_uu_incl_cmp := Cle; rnp_ui_new_cmp := Clt; rnp_ui_incl_cmp := Cle |}.

Definition rand_ok (p : rand_params) : bool :=
  cmpop_eqb (rnp_bits_rem_cmp p) Cgt && (rnp_bits_width p =? 32) && Bool.eqb (rnp_bits_sub p) true
  && (rnp_word_bits p =? 32) && cmpop_eqb (rnp_len_rem_cmp p) Cgt && (rnp_native_bits p =? 64)
  && Bool.eqb (rnp_zero_neg p) false && Bool.eqb (rnp_redraw_then p) true && sign_eqb (rnp_zero_sign p) NoSign
  && sign_eqb (rnp_true_sign p) Plus && sign_eqb (rnp_false_sign p) Minus
  && Bool.eqb (rnp_below_assert_neg p) true && cmpop_eqb (rnp_below_cmp p) Clt
  && cmpop_eqb (rnp_urange_cmp p) Clt && Bool.eqb (rnp_urange_zero_neg p) false
  && cmpop_eqb (rnp_irange_cmp p) Clt && Bool.eqb (rnp_irange_lo_neg p) false
  && Bool.eqb (rnp_irange_hi_neg p) false
  && cmpop_eqb (rnp_uu_new_cmp p) Clt && cmpop_eqb (rnp_uu_incl_cmp p) Cle
  && cmpop_eqb (rnp_ui_new_cmp p) Clt && cmpop_eqb (rnp_ui_incl_cmp p) Cle.

(** every field is pinned: the accepted parameter record is exactly [rand_std] *)
Lemma rand_ok_inv p : rand_ok p = true -> p = rand_std.
Proof.
  destruct p. unfold rand_ok, rand_std. cbn -[Z.eqb]. intros H. pin_fields_in H. subst. reflexivity.
Qed.
Ltac rn_std p H := apply rand_ok_inv in H; subst p.
Ltac rn_red :=
  cbn [rand_std rnp_bits_rem_cmp rnp_bits_width rnp_bits_sub rnp_word_bits rnp_len_rem_cmp rnp_native_bits
       rnp_zero_neg rnp_redraw_then rnp_zero_sign rnp_true_sign rnp_false_sign rnp_below_assert_neg
       rnp_below_cmp rnp_urange_cmp rnp_urange_zero_neg rnp_irange_cmp rnp_irange_lo_neg rnp_irange_hi_neg
       rnp_uu_new_cmp rnp_uu_incl_cmp rnp_ui_new_cmp rnp_ui_incl_cmp
       cmp_eval cmp_ord blit addsub_lit negb] in *;
  rewrite ?Z.gtb_ltb in *.

Definition words (s : list Z) : Prop := Forall word s.
Definition lift_u (x : Z * list Z) : list Z * list Z := (enc (fst x), snd x).
Definition lift_i (x : Z * list Z) : bigint * list Z := (ienc (fst x), snd x).

(** ** base-2^32 word lists *)
Lemma W32_val : W32 = 2 ^ 32. Proof. reflexivity. Qed.
Lemma W32_pos : 0 < W32. Proof. reflexivity. Qed.
Lemma W32_pow k : 0 <= k -> W32 ^ k = 2 ^ (32 * k).
Proof. intros Hk. rewrite W32_val, <- Z.pow_mul_r by lia. reflexivity. Qed.
Lemma W32_pow_pos k : 0 <= k -> 0 < W32 ^ k.
Proof. intros. apply Z.pow_pos_nonneg; [apply W32_pos|lia]. Qed.

Lemma val32_cons d r : val32 (d :: r) = d + W32 * val32 r. Proof. reflexivity. Qed.

Lemma val32_app a b : val32 (a ++ b) = val32 a + W32 ^ Z.of_nat (length a) * val32 b.
Proof.
  induction a as [|d a IH]; [cbn [app length val32 Z.of_nat]; rewrite Z.pow_0_r; lia|].
  rewrite <- app_comm_cons, !val32_cons, IH. cbn [length]. rewrite Nat2Z.inj_succ, Z.pow_succ_r by lia.
  ring.
Qed.

Lemma val32_repeat0 k : val32 (repeat 0 k) = 0.
Proof. induction k as [|k IH]; [reflexivity|]. cbn [repeat]. rewrite val32_cons, IH. lia. Qed.

Lemma val32_bound ws : words ws -> 0 <= val32 ws < W32 ^ Z.of_nat (length ws).
Proof.
  induction 1 as [|d r Hd _ IH]; [cbn; lia|].
  rewrite val32_cons. cbn [length]. rewrite Nat2Z.inj_succ, Z.pow_succ_r by lia.
  unfold word in Hd. pose proof W32_pos. nia.
Qed.

Lemma words_app a b : words (a ++ b) <-> words a /\ words b.
Proof. apply Forall_app. Qed.
Lemma words_firstn k s : words s -> words (firstn k s).
Proof.
  intros H. rewrite <- (firstn_skipn k s) in H. apply words_app in H. apply H.
Qed.
Lemma words_skipn k s : words s -> words (skipn k s).
Proof.
  intros H. rewrite <- (firstn_skipn k s) in H. apply words_app in H. apply H.
Qed.
Lemma words_repeat0 k : words (repeat 0 k).
Proof. apply Forall_forall. intros x Hx. apply repeat_spec in Hx. subst. unfold word. pose proof W32_pos. lia. Qed.

Lemma words_removelast ws : words ws -> words (removelast ws).
Proof.
  intros H. destruct ws as [|a t]; [constructor|].
  assert (Hne : a :: t <> []) by discriminate.
  rewrite (app_removelast_last 0 Hne) in H. apply words_app in H. apply H.
Qed.
Lemma word_last ws : words ws -> ws <> [] -> word (last ws 0).
Proof.
  intros H Hne. rewrite (app_removelast_last 0 Hne) in H. apply words_app in H.
  destruct H as [_ H]. inversion H; auto.
Qed.

Lemma length_removelast_Z {A} (l : list A) : l <> [] ->
  Z.of_nat (length (removelast l)) = Z.of_nat (length l) - 1.
Proof.
  intros Hne. destruct l as [|a t]; [contradiction|].
  assert (E : length (a :: t) = S (length (removelast (a :: t)))).
  { rewrite (app_removelast_last a Hne) at 1. rewrite app_length. cbn [length]. lia. }
  lia.
Qed.

Lemma val32_removelast_last ws : ws <> [] ->
  val32 ws = val32 (removelast ws) + W32 ^ (Z.of_nat (length ws) - 1) * last ws 0.
Proof.
  intros Hne. rewrite (app_removelast_last 0 Hne) at 1. rewrite val32_app, length_removelast_Z by auto.
  cbn [val32]. lia.
Qed.

(** In-place update of the last element. *)
Lemma firstn_pred_removelast {A} (l : list A) : firstn (length l - 1) l = removelast l.
Proof.
  induction l as [|a [|b t] IH]; [reflexivity|reflexivity|].
  replace (length (a :: b :: t) - 1)%nat with (S (length (b :: t) - 1))%nat by (cbn [length]; lia).
  rewrite firstn_cons, IH. reflexivity.
Qed.
Lemma nth_pred_last {A} (l : list A) d : nth (length l - 1) l d = last l d.
Proof.
  induction l as [|a [|b t] IH]; [reflexivity|reflexivity|].
  replace (length (a :: b :: t) - 1)%nat with (S (length (b :: t) - 1))%nat by (cbn [length]; lia).
  exact IH.
Qed.

(** ** the stream primitives *)
Lemma fill_u32_spec n : forall s, fill_u32 n s = take_words n s.
Proof.
  unfold take_words. induction n as [|n IH]; intros s.
  - reflexivity.
  - destruct s as [|w r]; [reflexivity|]. cbn [fill_u32]. rewrite IH.
    change (length (w :: r) <? S n)%nat with (length r <? n)%nat.
    destruct (length r <? n)%nat; reflexivity.
Qed.

Lemma take_words_ret k s ws r : take_words k s = Ret (ws, r) ->
  s = ws ++ r /\ length ws = k /\ (length r + k = length s)%nat.
Proof.
  unfold take_words. destruct (Nat.ltb_spec (length s) k) as [H|H]; [discriminate|].
  intros E. inversion E; subst. split; [symmetry; apply firstn_skipn|].
  rewrite firstn_length, skipn_length. lia.
Qed.

Lemma take_words_app ws r : take_words (length ws) (ws ++ r) = Ret (ws, r).
Proof.
  unfold take_words. rewrite app_length.
  destruct (Nat.ltb_spec (length ws + length r) (length ws)) as [H|H]; [lia|].
  rewrite firstn_app, Nat.sub_diag, firstn_all, firstn_O, app_nil_r.
  rewrite skipn_app, Nat.sub_diag, skipn_all, skipn_O. reflexivity.
Qed.

Lemma gen_bool_spec s : words s -> gen_bool s = spec_bool s.
Proof.
  intros H. destruct s as [|w r]; [reflexivity|]. cbn [gen_bool next_u32 bind spec_bool].
  inversion H as [|? ? Hw _]; subst. unfold word, W32 in Hw. f_equal. f_equal.
  destruct (Z.leb_spec 2147483648 w) as [L|L]; symmetry.
  - apply Z.testbit_true; [lia|]. change (2 ^ 31) with 2147483648. lia.
  - apply Z.testbit_false; [lia|]. change (2 ^ 31) with 2147483648. lia.
Qed.

(** ** candidates *)
Lemma nwords_alt n : 0 <= n ->
  n / 32 + (if 0 <? n mod 32 then 1 else 0) = nwords n.
Proof. intros Hn. unfold nwords. destruct (Z.ltb_spec 0 (n mod 32)); lia. Qed.

Lemma top_shift_range n : 0 <= top_shift n < 32.
Proof. unfold top_shift. lia. Qed.
Lemma nwords_top_shift n : 0 <= n -> 32 * nwords n - top_shift n = n.
Proof. intros Hn. unfold nwords, top_shift. lia. Qed.

Lemma cand_nonempty n ws : ws <> [] ->
  cand n ws = val32 (removelast ws ++ [last ws 0 / 2 ^ top_shift n]).
Proof.
  intros Hne. rewrite val32_app, length_removelast_Z by auto. cbn [val32].
  destruct ws; [contradiction|]. unfold cand. fold W32. lia.
Qed.

Theorem cand_bound n ws : 0 <= n -> words ws -> Z.of_nat (length ws) = nwords n ->
  0 <= cand n ws < 2 ^ n.
Proof.
  intros Hn Hw Hlen. destruct ws as [|a t] eqn:E.
  - cbn [cand]. pose proof (Z.pow_pos_nonneg 2 n). lia.
  - rewrite <- E in *. assert (Hne : ws <> []) by (rewrite E; discriminate).
    assert (Hc : cand n ws = val32 (removelast ws)
                 + W32 ^ (Z.of_nat (length ws) - 1) * (last ws 0 / 2 ^ top_shift n)).
    { rewrite E. reflexivity. }
    rewrite Hc. clear Hc.
    pose proof (val32_bound _ (words_removelast _ Hw)) as Hlo.
    rewrite length_removelast_Z in Hlo by auto.
    pose proof (word_last _ Hw Hne) as Hl. unfold word in Hl.
    pose proof (top_shift_range n) as Hs. pose proof (nwords_top_shift n Hn) as Hk.
    set (k := Z.of_nat (length ws)) in *. set (sh := top_shift n) in *.
    assert (Hk1 : 1 <= k) by (subst k; rewrite E; cbn [length]; lia).
    set (q := last ws 0 / 2 ^ sh).
    assert (Hq : 0 <= q < 2 ^ (32 - sh)).
    { subst q. split; [apply Z.div_pos; [lia|apply Z.pow_pos_nonneg; lia]|].
      apply Z.div_lt_upper_bound; [apply Z.pow_pos_nonneg; lia|].
      rewrite <- Z.pow_add_r by lia. replace (sh + (32 - sh)) with 32 by lia.
      rewrite <- W32_val. lia. }
    replace n with (32 * (k - 1) + (32 - sh)) by lia.
    rewrite Z.pow_add_r, <- W32_pow by lia.
    pose proof (W32_pow_pos (k - 1) ltac:(lia)). nia.
Qed.

(** ** gen_biguint *)
Lemma u_from_slice_words w : words w -> strip (u32_pairs w) = enc (val32 w).
Proof. apply u_from_slice_spec. Qed.

Theorem gen_biguint_spec p n s : rand_ok p = true -> 0 <= n -> words s ->
  gen_biguint p n s = omap lift_u (spec_gen_biguint n s).
Proof.
  intros Hok; rn_std p Hok. intros Hn Hs. unfold gen_biguint, spec_gen_biguint. rn_red.
  rewrite (nwords_alt n Hn).
  set (native := let q := n / 64 in if 0 <? n mod 64 then q + 1 else q).
  assert (Hnat : nwords n <= native * 2).
  { subst native. unfold nwords. cbv zeta. destruct (Z.ltb_spec 0 (n mod 64)); lia. }
  replace (nwords n <=? native * 2) with true by (symmetry; apply Z.leb_le; lia).
  cbn [assert_ bind]. unfold gen_bits. rn_red. rewrite fill_u32_spec.
  destruct (take_words (Z.to_nat (nwords n)) s) as [[ws r]| |] eqn:T; cbn [bind omap]; try reflexivity.
  destruct (take_words_ret _ _ _ _ T) as (Es & Hl & _).
  assert (Hws : words ws) by (rewrite Es in Hs; apply words_app in Hs; apply Hs).
  assert (Hk : 0 <= nwords n) by (unfold nwords; lia).
  assert (Hlen : Z.of_nat (length ws) = nwords n) by lia.
  unfold lift_u; cbn [fst snd].
  destruct (Z.ltb_spec 0 (n mod 32)) as [Hr|Hr].
  - assert (Hne : ws <> []).
    { intros ->. cbn [length] in Hlen. unfold nwords in Hlen. lia. }
    replace (0 <? length ws)%nat with true
      by (symmetry; apply Nat.ltb_lt; destruct ws; [contradiction|cbn; lia]).
    cbn [assert_ bind].
    replace ((0 <=? 32 - n mod 32) && (32 - n mod 32 <? 32)) with true
      by (symmetry; apply andb_true_intro; split; [apply Z.leb_le|apply Z.ltb_lt]; lia).
    cbn [assert_ bind]. rewrite firstn_pred_removelast, nth_pred_last.
    rewrite Z.shiftr_div_pow2 by lia.
    replace (32 - n mod 32) with (top_shift n) by (unfold top_shift; lia).
    f_equal. f_equal. rewrite u_from_slice_words.
    + rewrite val32_app, val32_repeat0, Z.mul_0_r, Z.add_0_r, <- cand_nonempty by auto. reflexivity.
    + apply words_app. split; [|apply words_repeat0]. apply words_app. split; [apply words_removelast; auto|].
      constructor; [|constructor]. pose proof (word_last _ Hws Hne) as Hl'. unfold word in *.
      pose proof (top_shift_range n). split; [apply Z.div_pos; [lia|apply Z.pow_pos_nonneg; lia]|].
      apply Z.le_lt_trans with (last ws 0); [|lia].
      apply Z.div_le_upper_bound; [apply Z.pow_pos_nonneg; lia|].
      assert (0 < 2 ^ top_shift n) by (apply Z.pow_pos_nonneg; lia). nia.
  - cbn [bind]. f_equal. f_equal. rewrite u_from_slice_words by (apply words_app; split; [auto|apply words_repeat0]).
    rewrite val32_app, val32_repeat0, Z.mul_0_r, Z.add_0_r. f_equal.
    destruct ws as [|a t] eqn:E; [reflexivity|]. rewrite <- E in *.
    assert (Hne : ws <> []) by (rewrite E; discriminate).
    rewrite cand_nonempty by auto.
    replace (top_shift n) with 0 by (unfold top_shift; lia).
    rewrite Z.pow_0_r, Z.div_1_r, <- app_removelast_last by auto. reflexivity.
Qed.

(** ** facts about the specification of one draw *)
Lemma spec_gen_biguint_ret n s c r : 0 <= n -> words s -> spec_gen_biguint n s = Ret (c, r) ->
  exists ws, s = ws ++ r /\ Z.of_nat (length ws) = nwords n /\ c = cand n ws /\
             words ws /\ words r /\ 0 <= c < 2 ^ n.
Proof.
  intros Hn Hs. unfold spec_gen_biguint.
  destruct (take_words (Z.to_nat (nwords n)) s) as [[ws r']| |] eqn:T; cbn [bind]; try discriminate.
  intros E. inversion E; subst. destruct (take_words_ret _ _ _ _ T) as (Es & Hl & _).
  assert (0 <= nwords n) by (unfold nwords; lia).
  rewrite Es in Hs. apply words_app in Hs. destruct Hs as [Hw Hr].
  exists ws. repeat split; auto; try lia; apply cand_bound; auto; lia.
Qed.

Lemma spec_gen_biguint_app n ws r : 0 <= n -> Z.of_nat (length ws) = nwords n ->
  spec_gen_biguint n (ws ++ r) = Ret (cand n ws, r).
Proof.
  intros Hn Hl. unfold spec_gen_biguint.
  replace (Z.to_nat (nwords n)) with (length ws) by lia.
  rewrite take_words_app. reflexivity.
Qed.

Lemma spec_gen_biguint_no_panic n s k : spec_gen_biguint n s <> Panic k.
Proof.
  unfold spec_gen_biguint, take_words. destruct (length s <? Z.to_nat (nwords n))%nat; discriminate.
Qed.

Lemma spec_bool_ret s b r : words s -> spec_bool s = Ret (b, r) ->
  words r /\ (length r < length s)%nat.
Proof.
  intros Hs. destruct s as [|w t]; [discriminate|]. cbn [spec_bool]. intros E; inversion E; subst.
  inversion Hs; subst. split; [auto|cbn [length]; lia].
Qed.

(** ** gen_bigint *)
Lemma uis_zero_enc c : 0 <= c -> uis_zero (enc c) = (c =? 0).
Proof. intros Hc. rewrite uis_zero_spec by apply enc_canon. rewrite enc_val by auto. reflexivity. Qed.

Lemma from_biguint_enc s c : 0 <= c -> from_biguint s (enc c) = ienc (sign_z s * c).
Proof. intros Hc. rewrite from_biguint_ienc by apply enc_canon. rewrite enc_val by auto. reflexivity. Qed.

Theorem gen_bigint_loop_spec p f : rand_ok p = true -> forall n s, 0 <= n -> words s ->
  gen_bigint_loop p f n s = omap lift_i (spec_gen_bigint_loop f n s).
Proof.
  intros Hok. pose proof Hok as Hok'. rn_std p Hok. rename Hok' into Hok.
  induction f as [|f IH]; intros n s Hn Hs; [reflexivity|].
  cbn [gen_bigint_loop spec_gen_bigint_loop]. rn_red. rewrite gen_biguint_spec by auto.
  destruct (spec_gen_biguint n s) as [[c r]| |] eqn:G; cbn [omap bind]; try reflexivity.
  destruct (spec_gen_biguint_ret _ _ _ _ Hn Hs G) as (ws & _ & _ & _ & _ & Hr & Hc).
  unfold lift_u at 1; cbn [fst snd]. rewrite uis_zero_enc by lia.
  rewrite gen_bool_spec by auto.
  destruct (spec_bool r) as [[b r2]| |] eqn:Bq; cbn [bind]; try (destruct (c =? 0); reflexivity).
  destruct (spec_bool_ret _ _ _ Hr Bq) as [Hr2 _].
  destruct (Z.eqb_spec c 0) as [E|E].
  - destruct b; [apply IH; auto|]. reflexivity.
  - unfold lift_i; cbn [fst snd]. rewrite from_biguint_enc by lia.
    destruct b; cbn [sign_z omap bind fst snd]; do 3 f_equal; lia.
Qed.

Theorem gen_bigint_spec p n s : rand_ok p = true -> 0 <= n -> words s ->
  gen_bigint p n s = omap lift_i (spec_gen_bigint n s).
Proof. intros. apply gen_bigint_loop_spec; auto. Qed.

Theorem spec_gen_bigint_loop_bound f : forall n s v r, 0 <= n -> words s ->
  spec_gen_bigint_loop f n s = Ret (v, r) -> - 2 ^ n < v < 2 ^ n /\ words r.
Proof.
  induction f as [|f IH]; intros n s v r Hn Hs; [discriminate|].
  cbn [spec_gen_bigint_loop].
  destruct (spec_gen_biguint n s) as [[c r1]| |] eqn:G; cbn [bind]; try discriminate.
  destruct (spec_gen_biguint_ret _ _ _ _ Hn Hs G) as (ws & _ & _ & _ & _ & Hr & Hc).
  destruct (spec_bool r1) as [[b r2]| |] eqn:Bq; cbn [bind]; try discriminate.
  destruct (spec_bool_ret _ _ _ Hr Bq) as [Hr2 _].
  destruct (Z.eqb_spec c 0) as [E|E].
  - destruct b; [apply IH; auto|]. intros X; inversion X; subst. split; [lia|auto].
  - intros X; inversion X; subst. split; [destruct b; lia|auto].
Qed.

(** ** BigUint::bits *)
Lemma B_pow2 k : 0 <= k -> B ^ k = 2 ^ (64 * k).
Proof. intros Hk. rewrite Z.pow_mul_r by lia. f_equal; try (rewrite B_val; reflexivity). Qed.

Lemma val_removelast_last l : l <> [] ->
  val l = val (removelast l) + B ^ (Z.of_nat (length l) - 1) * last l 0.
Proof.
  intros Hne. rewrite (app_removelast_last 0 Hne) at 1. rewrite val_app, length_removelast_Z by auto.
  rewrite val_single. reflexivity.
Qed.

Theorem rand_bits_spec m : canon m -> m <> [] -> rand_bits m = Z.log2 (val m) + 1.
Proof.
  intros Hm Hne. pose proof Hm as [Hwf _].
  assert (HR : rand_bits m = Z.of_nat (length m) * 64 - leading_zeros64 (last m 0))
    by (destruct m; [contradiction|reflexivity]).
  rewrite HR. clear HR.
  pose proof (canon_lower m Hm Hne) as Hlow.
  pose proof (val_removelast_last m Hne) as Hv.
  assert (Hwf' : wf (removelast m ++ [last m 0])) by (rewrite <- app_removelast_last; auto).
  apply wf_app in Hwf'. destruct Hwf' as [Hwr Hwl]. inversion Hwl as [|? ? Hd _]; subst.
  pose proof (val_bound _ Hwr) as Hlo. rewrite length_removelast_Z in Hlo by auto.
  set (k := Z.of_nat (length m) - 1) in *. set (d := last m 0) in *. unfold digit in Hd.
  assert (Hk : 0 <= k) by (subst k; destruct m; [contradiction|cbn [length]; lia]).
  pose proof (B_pow k Hk) as HB.
  assert (Hd1 : 1 <= d) by nia.
  unfold leading_zeros64. replace (d =? 0) with false by (symmetry; apply Z.eqb_neq; lia).
  pose proof (Z.log2_spec d ltac:(lia)) as Hl2. pose proof (Z.log2_nonneg d) as Hl0.
  assert (HL : Z.log2 (val m) = 64 * k + Z.log2 d).
  { apply Z.log2_unique; [lia|].
    replace (Z.succ (64 * k + Z.log2 d)) with (64 * k + Z.succ (Z.log2 d)) by lia.
    rewrite !Z.pow_add_r, <- !B_pow2 by lia. rewrite Hv. nia. }
  rewrite HL. lia.
Qed.

(** ** gen_biguint_below *)
Theorem below_loop_spec p f : rand_ok p = true -> forall bits bound s, 0 <= bits -> canon bound -> words s ->
  below_loop p f bits bound s = omap lift_u (spec_below_loop f bits (val bound) s).
Proof.
  intros Hok. pose proof Hok as Hok'. rn_std p Hok. rename Hok' into Hok.
  induction f as [|f IH]; intros bits bound s Hb Hc Hs; [reflexivity|].
  cbn [below_loop spec_below_loop]. rn_red. rewrite gen_biguint_spec by auto.
  destruct (spec_gen_biguint bits s) as [[c r]| |] eqn:G; cbn [omap bind]; try reflexivity.
  destruct (spec_gen_biguint_ret _ _ _ _ Hb Hs G) as (ws & _ & _ & _ & _ & Hr & Hcb).
  unfold lift_u at 1; cbn [fst snd].
  rewrite cmp_slice_spec by (auto using enc_canon). rewrite enc_val by lia. cbn [bind].
  unfold Z.ltb. destruct (c ?= val bound); cbn [is_lt]; auto.
Qed.

Theorem gen_biguint_below_spec p bound s : rand_ok p = true -> canon bound -> words s ->
  gen_biguint_below p bound s = omap lift_u (spec_below (val bound) s).
Proof.
  intros Hok. pose proof Hok as Hok'. rn_std p Hok. rename Hok' into Hok.
  intros Hc Hs. unfold gen_biguint_below, spec_below. rn_red.
  rewrite uis_zero_spec by auto.
  pose proof (val_nonneg bound (proj1 Hc)) as Hv.
  destruct (Z.eqb_spec (val bound) 0) as [E|E].
  - replace (val bound <=? 0) with true by (symmetry; apply Z.leb_le; lia). reflexivity.
  - replace (val bound <=? 0) with false by (symmetry; apply Z.leb_gt; lia).
    cbn [negb assert_ bind].
    assert (Hne : bound <> []) by (intros ->; apply E; reflexivity).
    rewrite rand_bits_spec by auto.
    apply below_loop_spec; auto. pose proof (Z.log2_nonneg (val bound)). lia.
Qed.

Lemma spec_below_loop_ret f : forall bits bound s c r, 0 <= bits -> words s ->
  spec_below_loop f bits bound s = Ret (c, r) -> 0 <= c < bound /\ words r.
Proof.
  induction f as [|f IH]; intros bits bound s c r Hb Hs; [discriminate|].
  cbn [spec_below_loop].
  destruct (spec_gen_biguint bits s) as [[c1 r1]| |] eqn:G; cbn [bind]; try discriminate.
  destruct (spec_gen_biguint_ret _ _ _ _ Hb Hs G) as (ws & _ & _ & _ & _ & Hr & Hcb).
  destruct (Z.ltb_spec c1 bound) as [L|L].
  - intros X; inversion X; subst. split; [lia|auto].
  - apply IH; auto.
Qed.

Lemma spec_below_loop_no_panic f : forall bits bound s k, spec_below_loop f bits bound s <> Panic k.
Proof.
  induction f as [|f IH]; intros bits bound s k; [discriminate|].
  cbn [spec_below_loop].
  destruct (spec_gen_biguint bits s) as [[c1 r1]| |] eqn:G; cbn [bind]; try discriminate.
  - destruct (c1 <? bound); [discriminate|apply IH].
  - exfalso. eapply spec_gen_biguint_no_panic; eauto.
Qed.

Theorem spec_below_ret bound s c r : words s -> spec_below bound s = Ret (c, r) ->
  0 <= c < bound /\ words r.
Proof.
  intros Hs. unfold spec_below. destruct (bound <=? 0); [discriminate|].
  apply spec_below_loop_ret; auto. pose proof (Z.log2_nonneg bound). lia.
Qed.

Theorem spec_below_panic bound s k : spec_below bound s = Panic k <-> (bound <= 0 /\ k = EmptyRange).
Proof.
  unfold spec_below. destruct (Z.leb_spec bound 0) as [L|L].
  - split; [intros X; inversion X; auto|intros [_ ->]; reflexivity].
  - split; [intros X; exfalso; eapply spec_below_loop_no_panic; eauto|lia].
Qed.

(** The first candidate below the bound: [rej] are the rejected candidates (each [>= bound]),
    [acc] is the first accepted one. *)
Definition chunk_ok (bits : Z) (c : list Z) : Prop :=
  Z.of_nat (length c) = nwords bits.

Theorem spec_below_loop_first bits bound rej : forall f acc rest, 0 <= bits ->
  Forall (fun c => chunk_ok bits c /\ bound <= cand bits c) rej ->
  chunk_ok bits acc -> cand bits acc < bound -> (length rej < f)%nat ->
  spec_below_loop f bits bound (concat rej ++ acc ++ rest) = Ret (cand bits acc, rest).
Proof.
  induction rej as [|c rej IH]; intros f acc rest Hb Hrej Hacc Hlt Hf;
    (destruct f as [|f]; [cbn [length] in Hf; lia|]); cbn [spec_below_loop concat].
  - cbn [app]. rewrite spec_gen_biguint_app by auto. cbn [bind].
    replace (cand bits acc <? bound) with true by (symmetry; apply Z.ltb_lt; lia). reflexivity.
  - inversion Hrej as [|? ? [Hc Hge] Hrej']; subst.
    rewrite <- app_assoc. rewrite spec_gen_biguint_app by auto. cbn [bind].
    replace (cand bits c <? bound) with false by (symmetry; apply Z.ltb_ge; lia).
    apply IH; auto. cbn [length] in Hf. lia.
Qed.

Lemma length_concat_ge bits (rej : list (list Z)) : 1 <= nwords bits ->
  Forall (fun c => chunk_ok bits c) rej -> (length rej <= length (concat rej))%nat.
Proof.
  intros Hk. induction 1 as [|c rej Hc _ IH]; [cbn; lia|].
  cbn [concat length]. rewrite app_length. unfold chunk_ok in Hc. lia.
Qed.

Theorem spec_below_first bound rej acc rest : 0 < bound ->
  let bits := Z.log2 bound + 1 in
  Forall (fun c => chunk_ok bits c /\ bound <= cand bits c) rej ->
  chunk_ok bits acc -> cand bits acc < bound ->
  spec_below bound (concat rej ++ acc ++ rest) = Ret (cand bits acc, rest).
Proof.
  intros Hb bits Hrej Hacc Hlt. unfold spec_below.
  replace (bound <=? 0) with false by (symmetry; apply Z.leb_gt; lia).
  pose proof (Z.log2_nonneg bound) as Hl.
  apply spec_below_loop_first; auto; [subst bits; lia|].
  assert (Hk : 1 <= nwords bits) by (subst bits; unfold nwords; lia).
  assert (Hrej' : Forall (fun c => chunk_ok bits c) rej)
    by (eapply Forall_impl; [|exact Hrej]; cbn; intros c [H _]; exact H).
  pose proof (length_concat_ge bits rej Hk Hrej'). rewrite app_length. lia.
Qed.

Theorem below_first p bound rej acc rest : rand_ok p = true -> canon bound -> bound <> [] ->
  let bits := Z.log2 (val bound) + 1 in
  Forall (fun c => chunk_ok bits c /\ words c /\ val bound <= cand bits c) rej ->
  chunk_ok bits acc -> words acc -> cand bits acc < val bound -> words rest ->
  gen_biguint_below p bound (concat rej ++ acc ++ rest) = Ret (enc (cand bits acc), rest).
Proof.
  intros Hok Hc Hne bits Hrej Hacc Hwa Hlt Hwr.
  assert (Hpos : 0 < val bound) by (apply canon_val_pos; auto).
  rewrite gen_biguint_below_spec; auto.
  - rewrite spec_below_first; auto.
    eapply Forall_impl; [|exact Hrej]. cbn. intros c (H1 & _ & H3). auto.
  - apply words_app. split; [|apply words_app; auto].
    apply Forall_concat. eapply Forall_impl; [|exact Hrej]. cbn. intros c (_ & H2 & _). exact H2.
Qed.

(** ** ranges *)
Lemma omap_lift_u_bind (o : outcome (Z * list Z)) (g : Z -> Z) :
  (do x <- omap lift_u o; let '(n, r) := x in Ret (enc (g (val n)), r))
  = omap lift_u (do x <- o; let '(c, r) := x in Ret (g (val (enc c)), r)).
Proof. destruct o as [[c r]| |]; reflexivity. Qed.

Lemma spec_below_nonneg bound s c r : spec_below bound s = Ret (c, r) -> words s -> 0 <= c.
Proof. intros E Hs. apply (spec_below_ret bound s c r Hs E). Qed.

Theorem gen_biguint_range_spec rp p lo hi s : rand_ok rp = true -> addsub_ok p = true -> canon lo -> canon hi -> words s ->
  gen_biguint_range rp p lo hi s = omap lift_u (spec_range (val lo) (val hi) s).
Proof.
  intros Hok. pose proof Hok as Hok'. rn_std rp Hok. rename Hok' into Hok.
  intros Hp Hlo Hhi Hs. unfold gen_biguint_range, spec_range. rn_red.
  rewrite cmp_slice_spec by auto. cbn [bind].
  pose proof (val_nonneg lo (proj1 Hlo)) as Vlo.
  destruct (Z.compare_spec (val lo) (val hi)) as [E|E|E]; cbn [is_lt assert_ bind];
    try (replace (val hi <=? val lo) with true by (symmetry; apply Z.leb_le; lia); reflexivity).
  replace (val hi <=? val lo) with false by (symmetry; apply Z.leb_gt; lia).
  rewrite uis_zero_spec by auto. destruct (Z.eqb_spec (val lo) 0) as [Z0|Z0].
  - rewrite gen_biguint_below_spec by auto. rewrite Z0, Z.sub_0_r.
    destruct (spec_below (val hi) s) as [[c r]| |]; reflexivity.
  - rewrite usub_spec by (auto; apply Hlo || apply Hhi).
    replace (val hi <? val lo) with false by (symmetry; apply Z.ltb_ge; lia). cbn [bind].
    rewrite gen_biguint_below_spec by (auto using enc_canon). rewrite enc_val by lia.
    destruct (spec_below (val hi - val lo) s) as [[c r]| |] eqn:Bq; cbn [omap bind]; try reflexivity.
    pose proof (spec_below_nonneg _ _ _ _ Bq Hs) as Hc0.
    unfold lift_u; cbn [fst snd]. rewrite uadd_spec by (auto using enc_canon). cbn [bind].
    rewrite enc_val by lia. do 3 f_equal. lia.
Qed.

Lemma icanon_pos_mag x : icanon x -> 0 < ival x -> val (mag x) = ival x.
Proof.
  intros Hx Hp. destruct (icanon_cases x Hx) as [(S & M & V)|[(S & P & V)|(S & P & V)]]; lia.
Qed.
Lemma icanon_neg_mag x : icanon x -> ival x < 0 -> val (mag x) = - ival x.
Proof.
  intros Hx Hp. destruct (icanon_cases x Hx) as [(S & M & V)|[(S & P & V)|(S & P & V)]]; lia.
Qed.
Lemma mag_ienc z : mag (ienc z) = enc (Z.abs z). Proof. reflexivity. Qed.

(** the common tail: `lbound + BigInt::from(gen_biguint_below(m))` *)
Lemma irange_tail rp sp p lo m s : rand_ok rp = true -> sign_ok sp = true -> addsub_ok p = true -> icanon lo -> canon m -> words s ->
  (do x <- gen_biguint_below rp m s; let '(n, r) := x in do v <- iadd p lo (ifrom_u sp n); Ret (v, r))
  = omap lift_i (do x <- spec_below (val m) s; let '(c, r) := x in Ret (ival lo + c, r)).
Proof.
  intros Hok Hsp Hp Hlo Hm Hs. rewrite gen_biguint_below_spec by auto.
  destruct (spec_below (val m) s) as [[c r]| |] eqn:Bq; cbn [omap bind]; try reflexivity.
  pose proof (spec_below_nonneg _ _ _ _ Bq Hs) as Hc0.
  unfold lift_u; cbn [fst snd]. rewrite ifrom_u_spec by (auto; apply enc_canon). rewrite enc_val by lia.
  rewrite iadd_spec by (auto using ienc_canon). rewrite ienc_val. reflexivity.
Qed.

Theorem gen_bigint_range_spec rp sp p lo hi s : rand_ok rp = true -> sign_ok sp = true -> addsub_ok p = true -> icanon lo -> icanon hi -> words s ->
  gen_bigint_range rp sp p lo hi s = omap lift_i (spec_range (ival lo) (ival hi) s).
Proof.
  intros Hok. pose proof Hok as Hok'. rn_std rp Hok. rename Hok' into Hok.
  intros Hsp Hp Hlo Hhi Hs. unfold gen_bigint_range, spec_range. rn_red.
  rewrite icmp_spec by auto. unfold spec_icmp. cbn [bind].
  destruct (Z.compare_spec (ival lo) (ival hi)) as [E|E|E]; cbn [is_lt assert_ bind];
    try (replace (ival hi <=? ival lo) with true by (symmetry; apply Z.leb_le; lia); reflexivity).
  replace (ival hi <=? ival lo) with false by (symmetry; apply Z.leb_gt; lia).
  rewrite !iis_zero_spec by auto. unfold spec_is_zero.
  destruct (Z.eqb_spec (ival lo) 0) as [Z0|Z0]; [|destruct (Z.eqb_spec (ival hi) 0) as [Z1|Z1]].
  - rewrite gen_biguint_below_spec by (auto using icanon_mag).
    rewrite icanon_pos_mag by (auto; lia). rewrite Z0, Z.sub_0_r.
    destruct (spec_below (ival hi) s) as [[c r]| |] eqn:Bq; cbn [omap bind]; try reflexivity.
    pose proof (spec_below_nonneg _ _ _ _ Bq Hs) as Hc0.
    unfold lift_u, lift_i; cbn [fst snd]. rewrite ifrom_u_spec by (auto; apply enc_canon).
    rewrite enc_val by lia. reflexivity.
  - rewrite irange_tail by (auto using icanon_mag). rewrite icanon_neg_mag by (auto; lia).
    replace (ival hi - ival lo) with (- ival lo) by lia. reflexivity.
  - rewrite isub_spec by auto. cbn [bind].
    rewrite irange_tail by (auto; rewrite mag_ienc; apply enc_canon).
    rewrite mag_ienc, enc_val by lia. rewrite Z.abs_eq by lia. reflexivity.
Qed.

(** ** Uniform samplers *)
Theorem uu_new_sample_spec rp p lo hi s : rand_ok rp = true -> addsub_ok p = true -> canon lo -> canon hi -> words s ->
  (do u <- uu_new rp p lo hi; uu_sample rp p u s) = omap lift_u (spec_range (val lo) (val hi) s).
Proof.
  intros Hok. pose proof Hok as Hok'. rn_std rp Hok. rename Hok' into Hok.
  intros Hp Hlo Hhi Hs. unfold uu_new, uu_sample, spec_range. rn_red.
  rewrite cmp_slice_spec by auto. cbn [bind].
  pose proof (val_nonneg lo (proj1 Hlo)) as Vlo.
  destruct (Z.compare_spec (val lo) (val hi)) as [E|E|E]; cbn [is_lt assert_ bind];
    try (replace (val hi <=? val lo) with true by (symmetry; apply Z.leb_le; lia); reflexivity).
  replace (val hi <=? val lo) with false by (symmetry; apply Z.leb_gt; lia).
  rewrite usub_spec by (auto; apply Hlo || apply Hhi).
  replace (val hi <? val lo) with false by (symmetry; apply Z.ltb_ge; lia). cbn [bind uu_len uu_base].
  rewrite gen_biguint_below_spec by (auto using enc_canon). rewrite enc_val by lia.
  destruct (spec_below (val hi - val lo) s) as [[c r]| |] eqn:Bq; cbn [omap bind]; try reflexivity.
  pose proof (spec_below_nonneg _ _ _ _ Bq Hs) as Hc0.
  unfold lift_u; cbn [fst snd]. rewrite uadd_spec by (auto using enc_canon). cbn [bind].
  rewrite enc_val by lia. do 3 f_equal. lia.
Qed.

Theorem uu_new_inclusive_sample_spec rp p lo hi s : rand_ok rp = true -> addsub_ok p = true -> canon lo -> canon hi -> words s ->
  (do u <- uu_new_inclusive rp p lo hi; uu_sample rp p u s)
  = omap lift_u (spec_range_inclusive (val lo) (val hi) s).
Proof.
  intros Hok. pose proof Hok as Hok'. rn_std rp Hok. rename Hok' into Hok.
  intros Hp Hlo Hhi Hs. unfold uu_new_inclusive, spec_range_inclusive. rn_red.
  rewrite cmp_slice_spec by auto. cbn [bind].
  pose proof (val_nonneg lo (proj1 Hlo)) as Vlo. pose proof (val_nonneg hi (proj1 Hhi)) as Vhi.
  assert (Hgt : forall (X : outcome (list Z * list Z)),
            val lo <= val hi -> (val hi <? val lo) = false)
    by (intros; apply Z.ltb_ge; lia).
  destruct (Z.compare_spec (val lo) (val hi)) as [E|E|E]; cbn [is_le assert_ bind];
    try (replace (val hi <? val lo) with true by (symmetry; apply Z.ltb_lt; lia); reflexivity);
    (replace (val hi <? val lo) with false by (symmetry; apply Z.ltb_ge; lia));
    rewrite uadd_spec by (auto using canon_one); cbn [bind];
    pose proof (uu_new_sample_spec rand_std p lo (enc (val hi + val [1])) s Hok Hp Hlo (enc_canon _) Hs) as Hn;
    cbn [bind] in Hn; rewrite enc_val in Hn by (rewrite val_single; lia);
    rewrite val_single in *;
    (destruct (uu_new rand_std p lo (enc (val hi + 1))) as [u| |]; cbn [bind] in *; rewrite Hn);
    unfold spec_range; (replace (val hi + 1 <=? val lo) with false by (symmetry; apply Z.leb_gt; lia));
    reflexivity.
Qed.

Theorem ui_new_sample_spec rp sp p lo hi s : rand_ok rp = true -> sign_ok sp = true -> addsub_ok p = true -> icanon lo -> icanon hi -> words s ->
  (do u <- ui_new rp sp p lo hi; ui_sample rp sp p u s) = omap lift_i (spec_range (ival lo) (ival hi) s).
Proof.
  intros Hok. pose proof Hok as Hok'. rn_std rp Hok. rename Hok' into Hok.
  intros Hsp Hp Hlo Hhi Hs. unfold ui_new, ui_sample, spec_range. rn_red.
  rewrite icmp_spec by auto. unfold spec_icmp. cbn [bind].
  destruct (Z.compare_spec (ival lo) (ival hi)) as [E|E|E]; cbn [is_lt assert_ bind];
    try (replace (ival hi <=? ival lo) with true by (symmetry; apply Z.leb_le; lia); reflexivity).
  replace (ival hi <=? ival lo) with false by (symmetry; apply Z.leb_gt; lia).
  rewrite isub_spec by auto. cbn [bind ui_len ui_base into_parts snd].
  rewrite irange_tail by (auto; rewrite mag_ienc; apply enc_canon).
  rewrite mag_ienc, enc_val by lia. rewrite Z.abs_eq by lia. reflexivity.
Qed.

Theorem ui_new_inclusive_sample_spec rp sp p lo hi s : rand_ok rp = true -> sign_ok sp = true -> addsub_ok p = true -> icanon lo -> icanon hi -> words s ->
  (do u <- ui_new_inclusive rp sp p lo hi; ui_sample rp sp p u s)
  = omap lift_i (spec_range_inclusive (ival lo) (ival hi) s).
Proof.
  intros Hok. pose proof Hok as Hok'. rn_std rp Hok. rename Hok' into Hok.
  intros Hsp Hp Hlo Hhi Hs. unfold ui_new_inclusive, spec_range_inclusive. rn_red.
  rewrite icmp_spec by auto. unfold spec_icmp. cbn [bind].
  destruct (Z.compare_spec (ival lo) (ival hi)) as [E|E|E]; cbn [is_le assert_ bind];
    try (replace (ival hi <? ival lo) with true by (symmetry; apply Z.ltb_lt; lia); reflexivity);
    (replace (ival hi <? ival lo) with false by (symmetry; apply Z.ltb_ge; lia));
    rewrite iadd_spec by (auto using icanon_ione); cbn [bind]; rewrite ival_ione;
    pose proof (ui_new_sample_spec rand_std sp p lo (ienc (ival hi + 1)) s Hok Hsp Hp Hlo (ienc_canon _) Hs) as Hn;
    cbn [bind] in Hn; rewrite ienc_val in Hn;
    (destruct (ui_new rand_std sp p lo (ienc (ival hi + 1))) as [u| |]; cbn [bind] in *; rewrite Hn);
    unfold spec_range; (replace (ival hi + 1 <=? ival lo) with false by (symmetry; apply Z.leb_gt; lia));
    reflexivity.
Qed.

(** ** what the specification guarantees *)
Theorem spec_range_ret lo hi s v r : words s -> spec_range lo hi s = Ret (v, r) ->
  lo <= v < hi /\ words r.
Proof.
  intros Hs. unfold spec_range. destruct (hi <=? lo); [discriminate|].
  destruct (spec_below (hi - lo) s) as [[c r']| |] eqn:Bq; cbn [bind]; try discriminate.
  intros X; inversion X; subst. destruct (spec_below_ret _ _ _ _ Hs Bq). split; [lia|auto].
Qed.

Theorem spec_range_inclusive_ret lo hi s v r : words s -> spec_range_inclusive lo hi s = Ret (v, r) ->
  lo <= v <= hi /\ words r.
Proof.
  intros Hs. unfold spec_range_inclusive. destruct (hi <? lo); [discriminate|].
  destruct (spec_below (hi + 1 - lo) s) as [[c r']| |] eqn:Bq; cbn [bind]; try discriminate.
  intros X; inversion X; subst. destruct (spec_below_ret _ _ _ _ Hs Bq). split; [lia|auto].
Qed.

Theorem spec_range_panic lo hi s k : spec_range lo hi s = Panic k <-> (hi <= lo /\ k = EmptyRange).
Proof.
  unfold spec_range. destruct (Z.leb_spec hi lo) as [L|L].
  - split; [intros X; inversion X; auto|intros [_ ->]; reflexivity].
  - split; [|lia]. destruct (spec_below (hi - lo) s) as [[c r']| |] eqn:Bq; cbn [bind]; try discriminate.
    intros X; inversion X; subst. apply spec_below_panic in Bq. lia.
Qed.

Theorem spec_range_inclusive_panic lo hi s k :
  spec_range_inclusive lo hi s = Panic k <-> (hi < lo /\ k = EmptyRange).
Proof.
  unfold spec_range_inclusive. destruct (Z.ltb_spec hi lo) as [L|L].
  - split; [intros X; inversion X; auto|intros [_ ->]; reflexivity].
  - split; [|lia]. destruct (spec_below (hi + 1 - lo) s) as [[c r']| |] eqn:Bq; cbn [bind]; try discriminate.
    intros X; inversion X; subst. apply spec_below_panic in Bq. lia.
Qed.

(** ** fuel: [OutOfFuel] only means that the scripted stream ended *)
Lemma spec_gen_biguint_shorter n s c r : 1 <= nwords n -> spec_gen_biguint n s = Ret (c, r) ->
  (length r < length s)%nat.
Proof.
  intros Hk. unfold spec_gen_biguint.
  destruct (take_words (Z.to_nat (nwords n)) s) as [[ws r']| |] eqn:T; cbn [bind]; try discriminate.
  intros X; inversion X; subst. destruct (take_words_ret _ _ _ _ T) as (_ & _ & Hl). lia.
Qed.

Theorem spec_below_loop_fuel bits bound : 1 <= nwords bits -> forall f1 f2 s,
  (length s < f1)%nat -> (length s < f2)%nat ->
  spec_below_loop f1 bits bound s = spec_below_loop f2 bits bound s.
Proof.
  intros Hk. induction f1 as [|f1 IH]; intros f2 s H1 H2; [lia|]. destruct f2 as [|f2]; [lia|].
  cbn [spec_below_loop].
  destruct (spec_gen_biguint bits s) as [[c r]| |] eqn:G; cbn [bind]; try reflexivity.
  pose proof (spec_gen_biguint_shorter _ _ _ _ Hk G).
  destruct (c <? bound); [reflexivity|]. apply IH; lia.
Qed.

Theorem spec_gen_bigint_loop_fuel n : forall f1 f2 s,
  (length s < f1)%nat -> (length s < f2)%nat ->
  spec_gen_bigint_loop f1 n s = spec_gen_bigint_loop f2 n s.
Proof.
  induction f1 as [|f1 IH]; intros f2 s H1 H2; [lia|]. destruct f2 as [|f2]; [lia|].
  cbn [spec_gen_bigint_loop].
  destruct (spec_gen_biguint n s) as [[c r]| |] eqn:G; cbn [bind]; try reflexivity.
  assert (length r <= length s)%nat.
  { unfold spec_gen_biguint in G.
    destruct (take_words (Z.to_nat (nwords n)) s) as [[ws r']| |] eqn:T; cbn [bind] in G; try discriminate.
    inversion G; subst. destruct (take_words_ret _ _ _ _ T) as (_ & _ & Hl). lia. }
  destruct r as [|w r2]; [reflexivity|]. cbn [spec_bool bind].
  destruct (c =? 0); [|reflexivity]. destruct (Z.testbit w 31); [|reflexivity].
  apply IH; cbn [length] in *; lia.
Qed.

(** [OutOfFuel] from bounded sampling means the stream holds no first acceptable candidate. *)
Theorem spec_below_out_of_fuel bound s : 0 < bound -> spec_below bound s = OutOfFuel ->
  let bits := Z.log2 bound + 1 in
  ~ exists rej acc rest, s = concat rej ++ acc ++ rest /\
      Forall (fun c => chunk_ok bits c /\ bound <= cand bits c) rej /\
      chunk_ok bits acc /\ cand bits acc < bound.
Proof.
  intros Hb E bits (rej & acc & rest & -> & Hrej & Hacc & Hlt).
  rewrite spec_below_first in E by auto. discriminate.
Qed.

(** ** gen_bigint: the first magnitude/sign pair that is not a re-drawn zero *)
Definition redraw (n : Z) (cw : list Z) : Prop :=
  exists c b, cw = c ++ [b] /\ chunk_ok n c /\ cand n c = 0 /\ Z.testbit b 31 = true.

Theorem spec_gen_bigint_loop_first n red : forall f acc w rest, 0 <= n ->
  Forall (redraw n) red -> chunk_ok n acc ->
  (cand n acc <> 0 \/ Z.testbit w 31 = false) -> (length red < f)%nat ->
  spec_gen_bigint_loop f n (concat red ++ acc ++ w :: rest)
  = Ret (if Z.testbit w 31 then cand n acc else - cand n acc, rest).
Proof.
  induction red as [|cw red IH]; intros f acc w rest Hn Hred Hacc Hok Hf;
    (destruct f as [|f]; [cbn [length] in Hf; lia|]); cbn [spec_gen_bigint_loop concat].
  - cbn [app]. rewrite spec_gen_biguint_app by auto. cbn [bind spec_bool].
    destruct (Z.eqb_spec (cand n acc) 0) as [E|E].
    + destruct Hok as [Hok|Hok]; [contradiction|]. rewrite Hok, E. reflexivity.
    + reflexivity.
  - inversion Hred as [|? ? (c & b & -> & Hc & Hz & Hb) Hred']; subst.
    rewrite <- !app_assoc. rewrite spec_gen_biguint_app by auto. cbn [bind app spec_bool].
    rewrite Hz, Hb. cbn [Z.eqb]. apply IH; auto. cbn [length] in Hf. lia.
Qed.

Theorem spec_gen_bigint_first n red acc w rest : 0 <= n ->
  Forall (redraw n) red -> chunk_ok n acc ->
  (cand n acc <> 0 \/ Z.testbit w 31 = false) ->
  spec_gen_bigint n (concat red ++ acc ++ w :: rest)
  = Ret (if Z.testbit w 31 then cand n acc else - cand n acc, rest).
Proof.
  intros Hn Hred Hacc Hok. unfold spec_gen_bigint. apply spec_gen_bigint_loop_first; auto.
  assert (length red <= length (concat red))%nat.
  { clear -Hred. induction Hred as [|cw red (c & b & -> & _) _ IH]; [cbn; lia|].
    cbn [concat length]. rewrite !app_length. cbn [length]. lia. }
  rewrite app_length. lia.
Qed.

(** ** below_uniform: every value below 2^n is the candidate of exactly 2^(top_shift n) word
    tuples — one for each value of the discarded low bits of the top word. *)
Fixpoint words_n (k : nat) (x : Z) : list Z :=
  match k with O => [] | S k' => (x mod W32) :: words_n k' (x / W32) end.

Lemma words_n_length k : forall x, length (words_n k x) = k.
Proof. induction k; intros; cbn [words_n length]; auto. Qed.
Lemma words_n_words k : forall x, words (words_n k x).
Proof.
  induction k; intros x; cbn [words_n]; constructor; [|apply IHk].
  unfold word. pose proof W32_pos. apply Z.mod_pos_bound. lia.
Qed.
Lemma val32_words_n k : forall x, val32 (words_n k x) = x mod W32 ^ Z.of_nat k.
Proof.
  induction k as [|k IH]; intros x.
  - cbn [words_n val32 Z.of_nat]. rewrite Z.pow_0_r, Z.mod_1_r. reflexivity.
  - cbn [words_n]. rewrite val32_cons, IH, Nat2Z.inj_succ, Z.pow_succ_r by lia.
    pose proof W32_pos. pose proof (W32_pow_pos (Z.of_nat k) ltac:(lia)).
    rewrite Z.rem_mul_r by lia. reflexivity.
Qed.

Lemma val32_inj_len a : forall b, words a -> words b -> length a = length b ->
  val32 a = val32 b -> a = b.
Proof.
  induction a as [|d a IH]; intros [|e b] Ha Hb Hl Hv; try discriminate; [reflexivity|].
  inversion Ha as [|? ? Hd Ha']; inversion Hb as [|? ? He Hb']; subst.
  rewrite !val32_cons in Hv. unfold word, W32 in *.
  assert (d = e) by lia. subst e. f_equal. apply IH; auto. lia.
Qed.

Theorem cand_fibre n v low : 0 <= n -> 0 <= v < 2 ^ n -> 0 <= low < 2 ^ top_shift n ->
  exists ws,
    (words ws /\ chunk_ok n ws /\ cand n ws = v /\ last ws 0 mod 2 ^ top_shift n = low) /\
    forall ws', words ws' -> chunk_ok n ws' -> cand n ws' = v ->
                last ws' 0 mod 2 ^ top_shift n = low -> ws' = ws.
Proof.
  intros Hn Hv Hlow. unfold chunk_ok.
  destruct (Z.eq_dec (nwords n) 0) as [K0|K0].
  - (* n = 0 *)
    assert (N0 : n = 0) by (unfold nwords in K0; lia). rewrite N0 in *.
    change (top_shift 0) with 0 in *. change (2 ^ 0) with 1 in *.
    exists []. split.
    + repeat split; try constructor; try lia; cbn; lia.
    + intros ws' _ Hl _ _. rewrite K0 in Hl. destruct ws'; [reflexivity|cbn [length] in Hl; lia].
  - pose proof (top_shift_range n) as Hs. pose proof (nwords_top_shift n Hn) as Hk.
    set (sh := top_shift n) in *. set (k := nwords n) in *.
    assert (Hk0 : 0 <= k) by (subst k; unfold nwords; lia).
    set (P := W32 ^ (k - 1)). assert (HP : 0 < P) by (apply W32_pow_pos; lia).
    assert (H2s : 0 < 2 ^ sh) by (apply Z.pow_pos_nonneg; lia).
    assert (Hn2 : 2 ^ n = P * 2 ^ (32 - sh)).
    { subst P. rewrite W32_pow, <- Z.pow_add_r by lia. f_equal. lia. }
    assert (H32 : 2 ^ (32 - sh) * 2 ^ sh = W32).
    { rewrite <- Z.pow_add_r by lia. replace (32 - sh + sh) with 32 by lia. reflexivity. }
    assert (H2t : 0 < 2 ^ (32 - sh)) by (apply Z.pow_pos_nonneg; lia).
    set (q := v / P). set (t := q * 2 ^ sh + low).
    assert (Hq : 0 <= q < 2 ^ (32 - sh)).
    { subst q. split; [apply Z.div_pos; lia|]. apply Z.div_lt_upper_bound; lia. }
    assert (Ht : t / 2 ^ sh = q /\ t mod 2 ^ sh = low).
    { subst t. split; [symmetry; apply Z.div_unique with low; lia|symmetry; apply Z.mod_unique with q; lia]. }
    assert (Htw : word t) by (unfold word; subst t; nia).
    set (l := words_n (Z.to_nat (k - 1)) v).
    assert (Hll : length l = Z.to_nat (k - 1)) by apply words_n_length.
    assert (Hlv : val32 l = v mod P).
    { subst l P. rewrite val32_words_n. rewrite Z2Nat.id by lia. reflexivity. }
    assert (Hcand : forall ws', words ws' -> Z.of_nat (length ws') = k ->
              cand n ws' = val32 (removelast ws') + P * (last ws' 0 / 2 ^ sh) /\ ws' <> [] /\
              0 <= val32 (removelast ws') < P).
    { intros ws' Hw' Hl'. assert (Hne : ws' <> []) by (intros ->; cbn [length] in Hl'; lia).
      pose proof (val32_bound _ (words_removelast _ Hw')) as Hb.
      rewrite length_removelast_Z in Hb by auto. rewrite Hl' in Hb. fold P in Hb.
      split; [|auto]. rewrite cand_nonempty, val32_app, length_removelast_Z by auto.
      cbn [val32]. rewrite Hl'. fold P. fold sh. lia. }
    exists (l ++ [t]). split.
    + assert (Hw : words (l ++ [t])).
      { apply words_app. split; [apply words_n_words|constructor; [auto|constructor]]. }
      assert (Hlen : Z.of_nat (length (l ++ [t])) = k) by (rewrite app_length, Hll; cbn [length]; lia).
      split; [auto|]. split; [auto|].
      destruct (Hcand _ Hw Hlen) as (Hc & _ & _). rewrite Hc, removelast_last, last_last.
      destruct Ht as [Ht1 Ht2]. rewrite Ht1, Ht2, Hlv. split; [|reflexivity].
      subst q. pose proof (Z.div_mod v P ltac:(lia)). lia.
    + intros ws' Hw' Hl' Hc' Hlow'.
      destruct (Hcand _ Hw' Hl') as (Hc & Hne & Hb). rewrite Hc in Hc'.
      set (q' := last ws' 0 / 2 ^ sh) in *.
      assert (Hq' : q' = q /\ val32 (removelast ws') = v mod P).
      { subst q. split; [apply Z.div_unique with (val32 (removelast ws')); lia|
                         apply Z.mod_unique with q'; lia]. }
      destruct Hq' as [Hq1 Hq2].
      assert (Hlast : last ws' 0 = t).
      { subst t. rewrite <- Hq1. subst q'. rewrite <- Hlow'.
        pose proof (Z.div_mod (last ws' 0) (2 ^ sh) ltac:(lia)). lia. }
      rewrite (app_removelast_last 0 Hne), Hlast. f_equal.
      apply val32_inj_len; [apply words_removelast; auto|apply words_n_words| |lia].
      apply Nat2Z.inj. rewrite length_removelast_Z, Hl', Hll by auto. lia.
Qed.

Theorem below_uniform bound v low : 0 < bound -> 0 <= v < bound ->
  let bits := Z.log2 bound + 1 in
  0 <= low < 2 ^ top_shift bits ->
  exists ws,
    (words ws /\ chunk_ok bits ws /\ cand bits ws = v /\ last ws 0 mod 2 ^ top_shift bits = low) /\
    forall ws', words ws' -> chunk_ok bits ws' -> cand bits ws' = v ->
                last ws' 0 mod 2 ^ top_shift bits = low -> ws' = ws.
Proof.
  intros Hb Hv bits Hlow. pose proof (Z.log2_nonneg bound). pose proof (Z.log2_spec bound Hb) as Hl.
  apply cand_fibre; auto; [subst bits; lia|].
  subst bits. rewrite Z.add_1_r. lia.
Qed.

(** gen_biguint on an explicitly split stream. *)
Theorem gen_biguint_words p n ws rest : rand_ok p = true -> 0 <= n -> words ws -> words rest -> chunk_ok n ws ->
  gen_biguint p n (ws ++ rest) = Ret (enc (cand n ws), rest) /\ 0 <= cand n ws < 2 ^ n.
Proof.
  intros Hok Hn Hw Hr Hc. split; [|apply cand_bound; auto].
  rewrite gen_biguint_spec by (auto; apply words_app; auto).
  rewrite spec_gen_biguint_app by auto. reflexivity.
Qed.

Theorem gen_bigint_first p n red acc w rest : rand_ok p = true -> 0 <= n ->
  Forall (redraw n) red -> chunk_ok n acc -> words (concat red ++ acc ++ w :: rest) ->
  (cand n acc <> 0 \/ Z.testbit w 31 = false) ->
  gen_bigint p n (concat red ++ acc ++ w :: rest)
  = Ret (ienc (if Z.testbit w 31 then cand n acc else - cand n acc), rest).
Proof.
  intros Hp Hn Hred Hacc Hw Hok. rewrite gen_bigint_spec by auto.
  rewrite spec_gen_bigint_first by auto. reflexivity.
Qed.
