(* FormsLeavesProofs.v — C10: each hand-written leaf restated in FormsLeaves.v computes the ref-ref
   semantics `zsem` on the converted operands (value, and panic cases), ASSUMING the value-level
   behaviour of the BigUint operations owned by the other areas (Section hypotheses H_*;
   discharged for the digit-level models in inst/InstFormsOps.v with the C01 / C02 / C03 / C07 /
   C12 theorems).  Scalars are values of a primitive type (< 2^128); the shift hypotheses are
   stated inside the physical range of C07 ([shift_phys]). *)
From Coq Require Import ZArith Zquot List Bool Lia.
From BigNum Require Import Base SpecBits Forms FormsLeaves FormsProofs.
Import ListNotations.
Open Scope Z_scope.

Lemma sgn_mul_abs x : Z.sgn x * Z.abs x = x.
Proof. destruct x; simpl; lia. Qed.

Lemma sgn_quot_abs_l x s : Z.sgn x * Z.quot (Z.abs x) s = Z.quot x s.
Proof.
  destruct x as [|p|p]; simpl Z.sgn; simpl Z.abs.
  - rewrite Zquot_0_l; lia.
  - lia.
  - change (Z.neg p) with (- Z.pos p). rewrite Zquot_opp_l. lia.
Qed.
Lemma sgn_quot_abs_r s x : Z.sgn x * Z.quot s (Z.abs x) = Z.quot s x.
Proof.
  destruct x as [|p|p]; simpl Z.sgn; simpl Z.abs.
  - rewrite Zquot_0_r; lia.
  - lia.
  - change (Z.neg p) with (- Z.pos p). rewrite Zquot_opp_r. lia.
Qed.
Lemma sgn_rem_abs_l x s : Z.sgn x * Z.rem (Z.abs x) s = Z.rem x s.
Proof.
  destruct x as [|p|p]; simpl Z.sgn; simpl Z.abs.
  - rewrite Zrem_0_l; lia.
  - lia.
  - change (Z.neg p) with (- Z.pos p). rewrite Z.rem_opp_l'. lia.
Qed.
Lemma rem_abs_r s x : Z.rem s (Z.abs x) = Z.rem s x.
Proof.
  destruct x as [|p|p]; simpl Z.abs; try reflexivity.
  change (Z.neg p) with (- Z.pos p). rewrite Z.rem_opp_r'. reflexivity.
Qed.

Lemma zpow_spec x y : 0 <= y -> zpow x y = x ^ y.
Proof.
  intros Hy. unfold zpow.
  destruct (Z.eqb_spec y 0) as [->|Hy0]; [reflexivity|].
  destruct (Z.eqb_spec x 0) as [->|Hx0]; [rewrite Z.pow_0_l; lia|].
  destruct (Z.eqb_spec x 1) as [->|Hx1]; [rewrite Z.pow_1_l; lia|].
  destruct (Z.eqb_spec x (-1)) as [->|Hx2]; [|reflexivity].
  destruct (Z.even y) eqn:E.
  - change (-1) with (- (1)). rewrite Z.pow_opp_even by (apply Z.even_spec; assumption). rewrite Z.pow_1_l; lia.
  - change (-1) with (- (1)). rewrite Z.pow_opp_odd by (apply Z.odd_spec; rewrite <- Z.negb_even, E; reflexivity).
    rewrite Z.pow_1_l; lia.
Qed.

Lemma powsign_spec x e : 0 <= e -> powsign x e * Z.abs x ^ e = x ^ e.
Proof.
  intros He. unfold powsign.
  destruct (Z.eqb_spec e 0) as [->|He0]; [rewrite !Z.pow_0_r; lia|].
  destruct (Z.ltb_spec x 0) as [Hn|Hp]; simpl.
  - destruct x as [|p|p]; try lia. simpl Z.sgn; simpl Z.abs.
    change (Z.neg p) with (- Z.pos p).
    destruct (Z.odd e) eqn:Eo.
    + rewrite Z.pow_opp_odd by (apply Z.odd_spec; assumption). lia.
    + rewrite Z.pow_opp_even by (apply Z.even_spec; rewrite <- Z.negb_odd, Eo; reflexivity). lia.
  - destruct (Z.eqb_spec x 0) as [->|Hx0].
    + simpl. rewrite Z.pow_0_l by lia. reflexivity.
    + replace (Z.sgn x) with 1 by lia. rewrite Z.abs_eq by lia. lia.
Qed.

Lemma zshr_floor x k : 0 <= k -> zshr x k = x / 2 ^ k.
Proof.
  intros Hk. unfold zshr.
  destruct (Z.ltb_spec (Z.log2 (Z.abs x)) k) as [Hl|Hl]; [|reflexivity].
  assert (Hp : 0 < 2 ^ k) by (apply Z.pow_pos_nonneg; lia).
  assert (Hb : Z.abs x < 2 ^ k).
  { destruct (Z.eq_dec x 0) as [->|Hx]; [simpl; lia|].
    apply Z.log2_lt_pow2; lia. }
  set (p := 2 ^ k) in *. clearbody p.
  destruct (Z.ltb_spec x 0).
  - apply Z.div_unique with (r := x + p); lia.
  - symmetry. apply Z.div_small; lia.
Qed.

  (* ---- scalar %= &BigUint, all 12 primitive types (the signed macro as FIXED in dc3abd4) ---- *)
  Lemma leaf_rem_assign_spec t s u :
    slo t <= s <= shi t -> 0 <= u -> srem_assign t s u = zsem FamU OpRem s u.
  Proof.
    intros Hs Hu. unfold srem_assign, umax. simpl.
    pose proof (srange t) as R.
    assert (Hlo : slo t = if ssigned t then - 2 ^ (sbits t - 1) else 0) by reflexivity.
    assert (Hhi : shi t = if ssigned t then 2 ^ (sbits t - 1) - 1 else 2 ^ sbits t - 1) by reflexivity.
    assert (Hpow : 2 ^ sbits t = 2 * 2 ^ (sbits t - 1)).
    { replace (sbits t) with (Z.succ (sbits t - 1)) at 1 by lia. apply Z.pow_succ_r. destruct t; simpl; lia. }
    destruct (Z.ltb_spec (2 ^ sbits t - 1) u) as [Hbig|Hfit].
    - (* the divisor does not fit the unsigned type: |s| < u, the scalar is unchanged *)
      destruct (Z.eqb_spec u 0); [lia|]. f_equal.
      assert (Z.abs s < u) by (destruct (ssigned t); lia).
      destruct (Z.ltb_spec s 0).
      + replace s with (- Z.abs s) at 2 by lia. rewrite Z.rem_opp_l', Z.rem_small; lia.
      + rewrite Z.rem_small; lia.
    - destruct (Z.eqb_spec u 0) as [E|E]; [reflexivity|].
      destruct (ssigned t) eqn:Sg.
      + f_equal.
        assert (Hr : 0 <= Z.abs s mod u < u) by (apply Z.mod_pos_bound; lia).
        assert (Hr2 : Z.abs s mod u <= Z.abs s) by (apply Z.mod_le; lia).
        assert (Hrem : Z.rem s u = if s <? 0 then - (Z.abs s mod u) else Z.abs s mod u).
        { destruct (Z.ltb_spec s 0).
          - replace s with (- Z.abs s) at 1 by lia. rewrite Z.rem_opp_l', Z.rem_mod_nonneg; lia.
          - rewrite Z.abs_eq by lia. rewrite Z.rem_mod_nonneg; lia. }
        rewrite Hrem. set (r := Z.abs s mod u) in *.
        destruct (Z.eq_dec r (2 ^ (sbits t - 1))) as [Emin|Emin].
        * (* only s = MIN with a divisor above 2^(N-1): r as iN = MIN, MIN.wrapping_neg() = MIN *)
          assert (s = slo t) by lia.
          assert (W : wrap t r = slo t).
          { unfold wrap. rewrite Hlo, Emin.
            replace (2 ^ (sbits t - 1) - - 2 ^ (sbits t - 1)) with (0 + 1 * 2 ^ sbits t) by lia.
            rewrite Z.mod_add by lia. rewrite Z.mod_0_l by lia. lia. }
          rewrite W. destruct (Z.ltb_spec s 0); [|lia].
          unfold wrap. rewrite Hlo.
          replace (- - 2 ^ (sbits t - 1) - - 2 ^ (sbits t - 1)) with (0 + 1 * 2 ^ sbits t) by lia.
          rewrite Z.mod_add by lia. rewrite Z.mod_0_l by lia. lia.
        * rewrite (wrap_id t r) by lia.
          destruct (Z.ltb_spec s 0); [|reflexivity].
          apply wrap_id; lia.
      + f_equal. rewrite Z.rem_mod_nonneg; lia.
  Qed.

(* Physical range of the shift leaves (C07): `x << k` with a result of >= 2^60 digits is a
   capacity-overflow panic in every form (SpecBits.spec_shl), and the right-shift theorem of C07 is
   stated for vectors of fewer than 2^58 digits ([vec_ok]; a 64-bit address space holds no longer
   one).  [zdigits x] = number of 64-bit digits of |x|.  Every other operator: no condition. *)
Definition shl_overflow (x k : Z) : bool :=
  negb (x =? 0) && ((0 <? k / 64) && too_big (k / 64 + (zdigits x + 1))).
Definition shift_phys (o : opk) (x k : Z) : Prop :=
  match o with
  | OpShl => shl_overflow x k = false
  | OpShr => zdigits x < 2 ^ 58
  | _ => True
  end.
Lemma zdigits_abs x : zdigits (Z.abs x) = zdigits x.
Proof.
  unfold zdigits. rewrite Z.abs_involutive.
  destruct (Z.eqb_spec (Z.abs x) 0); destruct (Z.eqb_spec x 0); try lia; reflexivity.
Qed.
Lemma shl_overflow_abs x k : shl_overflow (Z.abs x) k = shl_overflow x k.
Proof.
  unfold shl_overflow. rewrite zdigits_abs.
  destruct (Z.eqb_spec (Z.abs x) 0); destruct (Z.eqb_spec x 0); try lia; reflexivity.
Qed.
Lemma shift_phys_abs o x k : shift_phys o x k -> shift_phys o (Z.abs x) k.
Proof.
  destruct o; simpl; auto.
  - rewrite shl_overflow_abs. auto.
  - rewrite zdigits_abs. auto.
Qed.

Section LeafSpecs.
  Variable uop : opk -> Z -> Z -> outcome Z.
  Variable uop_s : opk -> Z -> Z -> outcome Z.
  Variable s_uop : opk -> Z -> Z -> outcome Z.
  Variable ushift : opk -> Z -> Z -> outcome Z.
  Variable upow_s : Z -> Z -> outcome Z.
  Variable upow_b : Z -> Z -> outcome Z.
  Variable iop : opk -> Z -> Z -> outcome Z.

  (* value-level facts about the other areas' operations (x: BigUint value, s: scalar value) *)
  Hypothesis H_ubigbig : forall o x y, bigbig8 o = true -> 0 <= x -> 0 <= y -> uop o x y = zsem FamU o x y.
  Hypothesis H_ibigbig : forall o x y, bigbig8 o = true -> iop o x y = zsem FamI o x y.
  (* a scalar operand is a value of a primitive type: below 2^128 *)
  Hypothesis H_uadd_scalar : forall x s, 0 <= x -> 0 <= s < 2 ^ 128 -> uop_s OpAdd x s = zsem FamU OpAdd x s.
  Hypothesis H_usub_scalar : forall x s, 0 <= x -> 0 <= s < 2 ^ 128 -> uop_s OpSub x s = zsem FamU OpSub x s.
  Hypothesis H_umul_scalar : forall x s, 0 <= x -> 0 <= s < 2 ^ 128 -> uop_s OpMul x s = zsem FamU OpMul x s.
  Hypothesis H_udivrem_scalar : forall x s, 0 <= x -> 0 <= s < 2 ^ 128 ->
      uop_s OpDiv x s = zsem FamU OpDiv x s /\ uop_s OpRem x s = zsem FamU OpRem x s.
  Hypothesis H_scalar_usub : forall s x, 0 <= x -> 0 <= s < 2 ^ 128 -> s_uop OpSub s x = zsem FamU OpSub s x.
  Hypothesis H_scalar_udivrem : forall s x, 0 <= x -> 0 <= s < 2 ^ 128 ->
      s_uop OpDiv s x = zsem FamU OpDiv s x /\ s_uop OpRem s x = zsem FamU OpRem s x.
  Hypothesis H_ushift : forall o x k, (o = OpShl \/ o = OpShr) -> 0 <= x -> shift_phys o x k ->
      ushift o x k = zsem FamU o x k.
  Hypothesis H_upow_scalar : forall x e, 0 <= x -> 0 <= e -> e < 2 ^ 128 -> upow_s x e = zsem FamU OpPow x e.
  Hypothesis H_upow_big : forall x e, 0 <= x -> 0 <= e -> upow_b x e = zsem FamU OpPow x e.

  Notation iadd_u := (iadd_u uop_s s_uop).
  Notation isub_u := (isub_u uop_s s_uop).
  Notation u_isub := (u_isub uop_s s_uop).
  Notation iadd_i := (iadd_i uop_s s_uop).
  Notation isub_i := (isub_i uop_s s_uop).
  Notation i_isub := (i_isub uop_s s_uop).

  (* ---- BigInt (+|-) scalar ---- *)
  Lemma leaf_iadd_u_spec x s : 0 <= s < 2 ^ 128 -> iadd_u x s = Ret (x + s).
  Proof.
    intros Hs. unfold FormsLeaves.iadd_u.
    destruct (Z.eqb_spec x 0) as [->|Hx]; [reflexivity|].
    destruct (Z.ltb_spec 0 x) as [Hp|Hn].
    - rewrite H_uadd_scalar by lia. reflexivity.
    - destruct (Z.compare_spec (Z.abs x) s) as [E|E|E].
      + f_equal; lia.
      + rewrite H_scalar_usub by lia. simpl. destruct (Z.ltb_spec s (Z.abs x)); [lia|]. f_equal; lia.
      + rewrite H_usub_scalar by lia. simpl. destruct (Z.ltb_spec (Z.abs x) s); [lia|]. simpl. f_equal; lia.
  Qed.
  Lemma leaf_isub_u_spec x s : 0 <= s < 2 ^ 128 -> isub_u x s = Ret (x - s).
  Proof.
    intros Hs. unfold FormsLeaves.isub_u.
    destruct (Z.eqb_spec x 0) as [->|Hx]; [reflexivity|].
    destruct (Z.ltb_spec x 0) as [Hn|Hp].
    - rewrite H_uadd_scalar by lia. simpl. f_equal; lia.
    - destruct (Z.compare_spec x s) as [E|E|E].
      + f_equal; lia.
      + rewrite H_scalar_usub by lia. simpl. destruct (Z.ltb_spec s x); [lia|]. simpl. f_equal; lia.
      + rewrite H_usub_scalar by lia. simpl. destruct (Z.ltb_spec x s); [lia|]. reflexivity.
  Qed.
  Lemma leaf_u_isub_spec s x : 0 <= s < 2 ^ 128 -> u_isub s x = Ret (s - x).
  Proof. intros Hs. unfold FormsLeaves.u_isub. rewrite leaf_isub_u_spec by assumption. simpl. f_equal; lia. Qed.
  Lemma leaf_iadd_i_spec x s : - 2 ^ 128 < s < 2 ^ 128 -> iadd_i x s = Ret (x + s).
  Proof.
    intros Hb. unfold FormsLeaves.iadd_i. destruct (Z.leb_spec 0 s).
    - apply leaf_iadd_u_spec; lia.
    - rewrite leaf_isub_u_spec by lia. f_equal; lia.
  Qed.
  Lemma leaf_isub_i_spec x s : - 2 ^ 128 < s < 2 ^ 128 -> isub_i x s = Ret (x - s).
  Proof.
    intros Hb. unfold FormsLeaves.isub_i. destruct (Z.leb_spec 0 s).
    - apply leaf_isub_u_spec; lia.
    - rewrite leaf_iadd_u_spec by lia. f_equal; lia.
  Qed.
  Lemma leaf_i_isub_spec s x : - 2 ^ 128 < s < 2 ^ 128 -> i_isub s x = Ret (s - x).
  Proof.
    intros Hb. unfold FormsLeaves.i_isub. destruct (Z.leb_spec 0 s).
    - apply leaf_u_isub_spec; lia.
    - rewrite leaf_isub_u_spec by lia. f_equal; lia.
  Qed.

  (* ---- BigInt * scalar ---- *)
  Lemma leaf_imul_u_spec x s : 0 <= s < 2 ^ 128 -> imul_u uop_s x s = Ret (x * s).
  Proof.
    intros Hs. unfold imul_u, sgn_o. rewrite H_umul_scalar by lia. simpl. f_equal.
    rewrite Z.mul_assoc, sgn_mul_abs. reflexivity.
  Qed.
  Lemma leaf_imul_i_spec x s : - 2 ^ 128 < s < 2 ^ 128 -> imul_i uop_s x s = Ret (x * s).
  Proof.
    intros Hb. unfold imul_i. destruct (Z.leb_spec 0 s).
    - apply leaf_imul_u_spec; lia.
    - rewrite leaf_imul_u_spec by lia. f_equal; lia.
  Qed.

  (* ---- BigInt (/|%) scalar, scalar (/|%) BigInt: truncated division, DivZero on a zero divisor ---- *)
  Lemma leaf_idiv_u_spec x s : 0 <= s < 2 ^ 128 -> idiv_u uop_s x s = zsem FamI OpDiv x s.
  Proof.
    intros Hs. unfold idiv_u, sgn_o. destruct (H_udivrem_scalar (Z.abs x) s) as [-> _]; try lia.
    simpl. destruct (s =? 0); [reflexivity|]. simpl. f_equal. apply sgn_quot_abs_l.
  Qed.
  Lemma leaf_u_idiv_spec s x : 0 <= s < 2 ^ 128 -> u_idiv s_uop s x = zsem FamI OpDiv s x.
  Proof.
    intros Hs. unfold u_idiv, sgn_o. destruct (H_scalar_udivrem s (Z.abs x)) as [-> _]; try lia.
    simpl. destruct (Z.eqb_spec (Z.abs x) 0) as [E|E]; destruct (Z.eqb_spec x 0) as [E'|E']; try lia; try reflexivity.
    simpl. f_equal. apply sgn_quot_abs_r.
  Qed.
  Lemma leaf_idiv_i_spec x s : - 2 ^ 128 < s < 2 ^ 128 -> idiv_i uop_s x s = zsem FamI OpDiv x s.
  Proof.
    intros Hb. unfold idiv_i. destruct (Z.leb_spec 0 s).
    - apply leaf_idiv_u_spec; lia.
    - rewrite leaf_idiv_u_spec by lia. simpl.
      destruct (Z.eqb_spec (- s) 0); destruct (Z.eqb_spec s 0); try lia.
      f_equal. apply Z.quot_opp_opp; lia.
  Qed.
  Lemma leaf_i_idiv_spec s x : - 2 ^ 128 < s < 2 ^ 128 -> i_idiv s_uop s x = zsem FamI OpDiv s x.
  Proof.
    intros Hb. unfold i_idiv. destruct (Z.leb_spec 0 s).
    - apply leaf_u_idiv_spec; lia.
    - rewrite leaf_u_idiv_spec by lia. simpl.
      destruct (Z.eqb_spec (- x) 0); destruct (Z.eqb_spec x 0); try lia; try reflexivity.
      f_equal. apply Z.quot_opp_opp; lia.
  Qed.
  Lemma leaf_irem_u_spec x s : 0 <= s < 2 ^ 128 -> irem_u uop_s x s = zsem FamI OpRem x s.
  Proof.
    intros Hs. unfold irem_u, sgn_o. destruct (H_udivrem_scalar (Z.abs x) s) as [_ ->]; try lia.
    simpl. destruct (s =? 0); [reflexivity|]. simpl. f_equal. apply sgn_rem_abs_l.
  Qed.
  Lemma leaf_u_irem_spec s x : 0 <= s < 2 ^ 128 -> u_irem s_uop s x = zsem FamI OpRem s x.
  Proof.
    intros Hs. unfold u_irem. destruct (H_scalar_udivrem s (Z.abs x)) as [_ ->]; try lia.
    simpl. destruct (Z.eqb_spec (Z.abs x) 0) as [E|E]; destruct (Z.eqb_spec x 0) as [E'|E']; try lia; try reflexivity.
    f_equal. apply rem_abs_r.
  Qed.
  Lemma leaf_irem_i_spec x s : - 2 ^ 128 < s < 2 ^ 128 -> irem_i uop_s x s = zsem FamI OpRem x s.
  Proof.
    intros Hb. unfold irem_i. rewrite leaf_irem_u_spec by lia. simpl.
    destruct (Z.eqb_spec (Z.abs s) 0); destruct (Z.eqb_spec s 0); try lia; try reflexivity.
    f_equal. apply rem_abs_r.
  Qed.
  Lemma leaf_i_irem_spec s x : - 2 ^ 128 < s < 2 ^ 128 -> i_irem s_uop s x = zsem FamI OpRem s x.
  Proof.
    intros Hb. unfold i_irem. destruct (Z.leb_spec 0 s).
    - apply leaf_u_irem_spec; lia.
    - rewrite leaf_u_irem_spec by lia. simpl.
      destruct (Z.eqb_spec x 0); [reflexivity|]. simpl. f_equal.
      rewrite Z.rem_opp_l'. lia.
  Qed.

  (* ---- BigInt shifts ---- *)
  Lemma leaf_ishl_spec x k : shift_phys OpShl x k -> ishl ushift x k = zsem FamI OpShl x k.
  Proof.
    intros Hph. unfold ishl, sgn_o. rewrite H_ushift by (auto using shift_phys_abs; lia). simpl.
    destruct (k <? 0); [reflexivity|]. simpl. f_equal. unfold zshl.
    destruct (Z.eqb_spec (Z.abs x) 0); destruct (Z.eqb_spec x 0); try lia;
      try (rewrite Z.mul_assoc, sgn_mul_abs; reflexivity).
  Qed.

  Lemma tz_lt_spec m k : 0 < m -> 0 <= k -> tz_lt m k = negb (m mod 2 ^ k =? 0).
  Proof.
    intros Hm Hk. unfold tz_lt. destruct (Z.ltb_spec (Z.log2 m) k) as [Hl|Hl]; [|reflexivity].
    assert (m < 2 ^ k) by (apply Z.log2_lt_pow2; lia).
    rewrite Z.mod_small by lia. destruct (Z.eqb_spec m 0); [lia|reflexivity].
  Qed.

  Lemma leaf_ishr_spec x k : shift_phys OpShr x k -> ishr uop_s ushift x k = zsem FamI OpShr x k.
  Proof.
    intros Hph. unfold ishr. rewrite H_ushift by (auto using shift_phys_abs; lia). simpl.
    destruct (Z.ltb_spec k 0) as [Hk|Hk]; [reflexivity|]. simpl.
    rewrite !zshr_floor by lia.
    assert (Hp : 0 < 2 ^ k) by (apply Z.pow_pos_nonneg; lia).
    unfold shr_round_down.
    destruct (Z.ltb_spec x 0) as [Hn|Hn]; simpl.
    - rewrite tz_lt_spec by lia.
      destruct (Z.ltb_spec 0 k) as [Hk0|Hk0]; simpl.
      + set (p := 2 ^ k) in *. clearbody p.
        destruct (Z.eqb_spec (Z.abs x mod p) 0) as [E|E]; simpl.
        * f_equal. replace (Z.sgn x) with (-1) by lia.
          assert (Z.abs x = p * (Z.abs x / p)) by (pose proof (Z.div_mod (Z.abs x) p); lia).
          apply Z.div_unique with (r := 0); lia.
        * rewrite H_uadd_scalar by (try apply Z.div_pos; lia). simpl. f_equal.
          replace (Z.sgn x) with (-1) by lia.
          pose proof (Z.div_mod (Z.abs x) p ltac:(lia)) as D.
          pose proof (Z.mod_pos_bound (Z.abs x) p Hp) as Bd.
          apply Z.div_unique with (r := p - Z.abs x mod p); lia.
      + assert (k = 0) by lia; subst k. simpl. rewrite Z.div_1_r. f_equal. rewrite Z.div_1_r. apply sgn_mul_abs.
    - f_equal. rewrite Z.abs_eq by lia.
      destruct (Z.eq_dec x 0) as [->|Hx0]; [simpl; reflexivity|].
      replace (Z.sgn x) with 1 by lia. lia.
  Qed.

  (* ---- pow ---- *)
  Lemma leaf_upow_s_ref_spec x e : 0 <= x -> 0 <= e -> e < 2 ^ 128 -> upow_s_ref upow_s x e = zsem FamU OpPow x e.
  Proof.
    intros Hx He Hb. unfold upow_s_ref. destruct (Z.eqb_spec e 0) as [->|E]; [|apply H_upow_scalar; assumption].
    simpl. rewrite andb_false_r. reflexivity.
  Qed.
  Lemma leaf_upow_b_ref_spec x e : 0 <= x -> 0 <= e -> upow_b_ref upow_b x e = zsem FamU OpPow x e.
  Proof.
    intros Hx He. unfold upow_b_ref.
    destruct (Z.eqb_spec x 1) as [->|Hx1]; simpl.
    - unfold zpow; simpl. destruct (e =? 0); reflexivity.
    - destruct (Z.eqb_spec e 0) as [->|He0]; simpl.
      + rewrite andb_false_r. reflexivity.
      + destruct (Z.eqb_spec x 0) as [->|Hx0]; [|apply H_upow_big; assumption].
        simpl. unfold zpow. destruct (Z.eqb_spec e 0); [lia|reflexivity].
  Qed.
  Lemma ipow_spec up x e : 0 <= e ->
    up (Z.abs x) e = zsem FamU OpPow (Z.abs x) e -> ipow up x e = zsem FamI OpPow x e.
  Proof.
    intros He Hu. unfold ipow. rewrite Hu. unfold zsem. rewrite Z.abs_involutive.
    destruct ((2 <=? Z.abs x) && (2 ^ 128 <=? e)); [reflexivity|]. unfold omap, bind. f_equal.
    rewrite !zpow_spec by assumption. apply powsign_spec; assumption.
  Qed.


  Lemma unsigned_lo s : ssigned s = false -> slo s = 0.
  Proof. unfold slo; intros ->; reflexivity. Qed.
  Lemma unsigned_hi s : shi s < 2 ^ 128.
  Proof. destruct s; vm_compute; reflexivity. Qed.
  Lemma signed_lo s : - 2 ^ 128 < slo s.
  Proof. destruct s; vm_compute; reflexivity. Qed.
  Lemma wide_u_unsigned s : wide_u s = true -> ssigned s = false.
  Proof. destruct s; simpl; congruence. Qed.
  Lemma wide_i_signed s : wide_i s = true -> ssigned s = true.
  Proof. destruct s; simpl; congruence. Qed.

  (* ---- all leaves together: the leaf at an accepted position computes the ref-ref semantics ---- *)
  Theorem leaf_model_sound f x y :
    is_arith_role (f_role f) = true -> known_leaf f = true ->
    in_oty (k_ty (f_lhs f)) x -> in_oty (k_ty (f_rhs f)) y -> shift_phys (f_op f) x y ->
    leaf_model uop uop_s s_uop ushift upow_s upow_b iop f x y = zsem (fam f) (f_op f) x y.
  Proof.
    destruct f as [r o [tl rl] [tr rr] sh]. unfold known_leaf, leaf_model, fam. cbn [f_role f_op f_lhs f_rhs k_ty k_ref].
    intros Hr Hk Hx Hy Hph.
    assert (Hk' : match tl, tr with
                  | OBig b, OBig b' => (bigbig8 o && bigty_eqb b b') || (opk_eqb o OpPow && role_eqb r RBinop && bigty_eqb b' FamU)
                  | OBig b, OSc s => (arith5 o && wide_for b s && negb rr) || ((opk_eqb o OpShl || opk_eqb o OpShr) && negb rr)
                                     || (opk_eqb o OpPow && role_eqb r RBinop && negb (ssigned s) && (negb rr || bigty_eqb b FamI))
                  | OSc s, OBig b => match r with
                                     | RBinop => (opk_eqb o OpSub || opk_eqb o OpDiv || opk_eqb o OpRem) && wide_for b s && negb rl
                                     | _ => opk_eqb o OpRem && bigty_eqb b FamU && rr end
                  | OSc _, OSc _ => false end = true).
    { destruct r; try discriminate; apply andb_true_iff in Hk; destruct Hk as [_ Hk]; exact Hk. }
    clear Hk.
    destruct tl as [bl|sl], tr as [br|sr]; try discriminate.
    - (* big, big *)
      destruct bl, br; cbn [in_oty] in Hx, Hy.
      + destruct o; simpl in Hk'; try discriminate; try (apply H_ubigbig; auto; fail).
        destruct rl; [apply leaf_upow_b_ref_spec | apply H_upow_big]; assumption.
      + destruct o; simpl in Hk'; try discriminate; rewrite ?andb_false_r in Hk'; discriminate.
      + destruct o; simpl in Hk'; try discriminate; rewrite ?andb_false_r in Hk'; try discriminate.
        apply ipow_spec; [assumption|].
        destruct rl; [apply leaf_upow_b_ref_spec | apply H_upow_big]; lia.
      + destruct o; simpl in Hk'; try discriminate; rewrite ?andb_false_r in Hk'; try discriminate;
          apply H_ibigbig; reflexivity.
    - (* big (op) scalar *)
      cbn [in_oty] in Hy.
      pose proof (unsigned_hi sr) as Hhi. pose proof (signed_lo sr) as Hlo.
      destruct bl; cbn [in_oty] in Hx.
      + (* BigUint *)
        assert (Hu : arith5 o = true -> 0 <= y).
        { intros Ha. rewrite Ha in Hk'. destruct o; try discriminate; simpl in Hk';
            rewrite ?orb_false_r in Hk'; rewrite !andb_true_iff in Hk'; destruct Hk' as [Hw _];
            unfold wide_for in Hw; rewrite ?orb_false_r in Hw; apply wide_u_unsigned in Hw; rewrite (unsigned_lo _ Hw) in Hy; lia. }
        destruct o; try (specialize (Hu eq_refl)).
        * apply H_uadd_scalar; lia.
        * apply H_usub_scalar; lia.
        * apply H_umul_scalar; lia.
        * apply H_udivrem_scalar; lia.
        * apply H_udivrem_scalar; lia.
        * simpl in Hk'; discriminate.
        * simpl in Hk'; discriminate.
        * simpl in Hk'; discriminate.
        * apply H_ushift; auto.
        * apply H_ushift; auto.
        * simpl in Hk'.
          repeat (match goal with H : _ && _ = true |- _ => apply andb_true_iff in H; destruct H end).
          match goal with H : negb (ssigned sr) = true |- _ => apply negb_true_iff in H; rewrite (unsigned_lo _ H) in Hy end.
          destruct rl; [apply leaf_upow_s_ref_spec | apply H_upow_scalar]; lia.
      + (* BigInt *)
        assert (Hu : arith5 o = true -> if ssigned sr then - 2 ^ 128 < y < 2 ^ 128 else 0 <= y < 2 ^ 128).
        { intros Ha. destruct (ssigned sr) eqn:Sg; [lia|]. rewrite (unsigned_lo _ Sg) in Hy; lia. }
        destruct o; try (specialize (Hu eq_refl)); destruct (ssigned sr) eqn:Sg;
          try (simpl in Hk'; discriminate).
        * apply leaf_iadd_i_spec; assumption.
        * apply leaf_iadd_u_spec; assumption.
        * apply leaf_isub_i_spec; assumption.
        * apply leaf_isub_u_spec; assumption.
        * apply leaf_imul_i_spec; assumption.
        * apply leaf_imul_u_spec; assumption.
        * apply leaf_idiv_i_spec; assumption.
        * apply leaf_idiv_u_spec; assumption.
        * apply leaf_irem_i_spec; assumption.
        * apply leaf_irem_u_spec; assumption.
        * apply leaf_ishl_spec; assumption.
        * apply leaf_ishl_spec; assumption.
        * apply leaf_ishr_spec; assumption.
        * apply leaf_ishr_spec; assumption.
        * simpl in Hk'. rewrite ?andb_false_r in Hk'. discriminate.
        * rewrite (unsigned_lo _ Sg) in Hy.
          apply ipow_spec; [lia|].
          destruct rl; [apply leaf_upow_s_ref_spec | apply H_upow_scalar]; lia.
    - (* scalar (op) big *)
      cbn [in_oty] in Hx.
      pose proof (unsigned_hi sl) as Hhi. pose proof (signed_lo sl) as Hlo.
      destruct br; cbn [in_oty] in Hy.
      + (* BigUint *)
        destruct r; try discriminate.
        * (* uN (op) BigUint *)
          rewrite !andb_true_iff in Hk'. destruct Hk' as [[Ho Hw] _].
          unfold wide_for in Hw. rewrite ?orb_false_r in Hw. apply wide_u_unsigned in Hw.
          rewrite (unsigned_lo _ Hw) in Hx.
          destruct o; simpl in Ho; try discriminate.
          -- apply H_scalar_usub; lia.
          -- apply H_scalar_udivrem; lia.
          -- apply H_scalar_udivrem; lia.
        * (* scalar %= &BigUint *)
          rewrite !andb_true_iff in Hk'. destruct Hk' as [[Ho _] _].
          apply opk_eqb_eq in Ho; subst o.
          apply leaf_rem_assign_spec; assumption.
      + (* BigInt *)
        destruct r; try discriminate; [|rewrite andb_false_r in Hk'; discriminate].
        rewrite !andb_true_iff in Hk'. destruct Hk' as [[Ho Hw] _].
        assert (Hu : if ssigned sl then - 2 ^ 128 < x < 2 ^ 128 else 0 <= x < 2 ^ 128).
        { destruct (ssigned sl) eqn:Sg; [lia|]. rewrite (unsigned_lo _ Sg) in Hx; lia. }
        destruct o; simpl in Ho; try discriminate; destruct (ssigned sl).
        * apply leaf_i_isub_spec; assumption.
        * apply leaf_u_isub_spec; assumption.
        * apply leaf_i_idiv_spec; assumption.
        * apply leaf_u_idiv_spec; assumption.
        * apply leaf_i_irem_spec; assumption.
        * apply leaf_u_irem_spec; assumption.
  Qed.
End LeafSpecs.
