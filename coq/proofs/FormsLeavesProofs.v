(* FormsLeavesProofs.v — C10: each hand-written leaf restated in FormsLeaves.v computes the ref-ref
   semantics `zsem` on the converted operands (value, and panic cases), ASSUMING the value-level
   behaviour of the BigUint operations owned by the other areas (Section hypotheses H_*; to be
   discharged by the integrator with the C01 / C02 / C03 / C07 / C12 theorems). *)
From Coq Require Import ZArith Zquot List Bool Lia.
From BigNum Require Import Base Forms FormsLeaves FormsProofs.
Import ListNotations.
Open Scope Z_scope.

Lemma sgn_mul_abs x : Z.sgn x * Z.abs x = x.
Proof. destruct x; simpl; lia. Qed.

Lemma sgn_quot_abs_l x s : Z.sgn x * Z.quot (Z.abs x) s = Z.quot x s.
Proof.
  destruct x as [|p|p]; simpl Z.sgn; simpl Z.abs.
  - rewrite Zquot_0_l; lia.
  - lia.
  - change (Z.neg p) with (- Z.pos p). rewrite Zquot_opp_l. lia.
Qed.
Lemma sgn_quot_abs_r s x : Z.sgn x * Z.quot s (Z.abs x) = Z.quot s x.
Proof.
  destruct x as [|p|p]; simpl Z.sgn; simpl Z.abs.
  - rewrite Zquot_0_r; lia.
  - lia.
  - change (Z.neg p) with (- Z.pos p). rewrite Zquot_opp_r. lia.
Qed.
Lemma sgn_rem_abs_l x s : Z.sgn x * Z.rem (Z.abs x) s = Z.rem x s.
Proof.
  destruct x as [|p|p]; simpl Z.sgn; simpl Z.abs.
  - rewrite Zrem_0_l; lia.
  - lia.
  - change (Z.neg p) with (- Z.pos p). rewrite Z.rem_opp_l'. lia.
Qed.
Lemma rem_abs_r s x : Z.rem s (Z.abs x) = Z.rem s x.
Proof.
  destruct x as [|p|p]; simpl Z.abs; try reflexivity.
  change (Z.neg p) with (- Z.pos p). rewrite Z.rem_opp_r'. reflexivity.
Qed.

Section LeafSpecs.
  Variable uop : opk -> Z -> Z -> outcome Z.
  Variable uop_s : opk -> Z -> Z -> outcome Z.
  Variable s_uop : opk -> Z -> Z -> outcome Z.
  Variable ushift : opk -> Z -> Z -> outcome Z.
  Variable upow_s : Z -> Z -> outcome Z.
  Variable upow_b : Z -> Z -> outcome Z.
  Variable iop : opk -> Z -> Z -> outcome Z.

  (* value-level facts about the other areas' operations (x: BigUint value, s: scalar value) *)
  Hypothesis H_ubigbig : forall o x y, bigbig8 o = true -> 0 <= x -> 0 <= y -> uop o x y = zsem FamU o x y.
  Hypothesis H_ibigbig : forall o x y, bigbig8 o = true -> iop o x y = zsem FamI o x y.
  Hypothesis H_uadd_scalar : forall x s, 0 <= x -> 0 <= s -> uop_s OpAdd x s = zsem FamU OpAdd x s.
  Hypothesis H_usub_scalar : forall x s, 0 <= x -> 0 <= s -> uop_s OpSub x s = zsem FamU OpSub x s.
  Hypothesis H_umul_scalar : forall x s, 0 <= x -> 0 <= s -> uop_s OpMul x s = zsem FamU OpMul x s.
  Hypothesis H_udivrem_scalar : forall x s, 0 <= x -> 0 <= s ->
      uop_s OpDiv x s = zsem FamU OpDiv x s /\ uop_s OpRem x s = zsem FamU OpRem x s.
  Hypothesis H_scalar_usub : forall s x, 0 <= x -> 0 <= s -> s_uop OpSub s x = zsem FamU OpSub s x.
  Hypothesis H_scalar_udivrem : forall s x, 0 <= x -> 0 <= s ->
      s_uop OpDiv s x = zsem FamU OpDiv s x /\ s_uop OpRem s x = zsem FamU OpRem s x.
  Hypothesis H_ushift : forall o x k, (o = OpShl \/ o = OpShr) -> 0 <= x -> ushift o x k = zsem FamU o x k.
  Hypothesis H_upow_scalar : forall x e, 0 <= x -> 0 <= e -> e < 2 ^ 128 -> upow_s x e = zsem FamU OpPow x e.
  Hypothesis H_upow_big : forall x e, 0 <= x -> 0 <= e -> upow_b x e = zsem FamU OpPow x e.

  Notation iadd_u := (iadd_u uop_s s_uop).
  Notation isub_u := (isub_u uop_s s_uop).
  Notation u_isub := (u_isub uop_s s_uop).
  Notation iadd_i := (iadd_i uop_s s_uop).
  Notation isub_i := (isub_i uop_s s_uop).
  Notation i_isub := (i_isub uop_s s_uop).

  (* ---- BigInt (+|-) scalar ---- *)
  Lemma leaf_iadd_u_spec x s : 0 <= s -> iadd_u x s = Ret (x + s).
  Proof.
    intros Hs. unfold FormsLeaves.iadd_u.
    destruct (Z.eqb_spec x 0) as [->|Hx]; [reflexivity|].
    destruct (Z.ltb_spec 0 x) as [Hp|Hn].
    - rewrite H_uadd_scalar by lia. reflexivity.
    - destruct (Z.compare_spec (Z.abs x) s) as [E|E|E].
      + f_equal; lia.
      + rewrite H_scalar_usub by lia. simpl. destruct (Z.ltb_spec s (Z.abs x)); [lia|]. f_equal; lia.
      + rewrite H_usub_scalar by lia. simpl. destruct (Z.ltb_spec (Z.abs x) s); [lia|]. simpl. f_equal; lia.
  Qed.
  Lemma leaf_isub_u_spec x s : 0 <= s -> isub_u x s = Ret (x - s).
  Proof.
    intros Hs. unfold FormsLeaves.isub_u.
    destruct (Z.eqb_spec x 0) as [->|Hx]; [reflexivity|].
    destruct (Z.ltb_spec x 0) as [Hn|Hp].
    - rewrite H_uadd_scalar by lia. simpl. f_equal; lia.
    - destruct (Z.compare_spec x s) as [E|E|E].
      + f_equal; lia.
      + rewrite H_scalar_usub by lia. simpl. destruct (Z.ltb_spec s x); [lia|]. simpl. f_equal; lia.
      + rewrite H_usub_scalar by lia. simpl. destruct (Z.ltb_spec x s); [lia|]. reflexivity.
  Qed.
  Lemma leaf_u_isub_spec s x : 0 <= s -> u_isub s x = Ret (s - x).
  Proof. intros Hs. unfold FormsLeaves.u_isub. rewrite leaf_isub_u_spec by assumption. simpl. f_equal; lia. Qed.
  Lemma leaf_iadd_i_spec x s : iadd_i x s = Ret (x + s).
  Proof.
    unfold FormsLeaves.iadd_i. destruct (Z.leb_spec 0 s).
    - apply leaf_iadd_u_spec; assumption.
    - rewrite leaf_isub_u_spec by lia. f_equal; lia.
  Qed.
  Lemma leaf_isub_i_spec x s : isub_i x s = Ret (x - s).
  Proof.
    unfold FormsLeaves.isub_i. destruct (Z.leb_spec 0 s).
    - apply leaf_isub_u_spec; assumption.
    - rewrite leaf_iadd_u_spec by lia. f_equal; lia.
  Qed.
  Lemma leaf_i_isub_spec s x : i_isub s x = Ret (s - x).
  Proof.
    unfold FormsLeaves.i_isub. destruct (Z.leb_spec 0 s).
    - apply leaf_u_isub_spec; assumption.
    - rewrite leaf_isub_u_spec by lia. f_equal; lia.
  Qed.

  (* ---- BigInt * scalar ---- *)
  Lemma leaf_imul_u_spec x s : 0 <= s -> imul_u uop_s x s = Ret (x * s).
  Proof.
    intros Hs. unfold imul_u, sgn_o. rewrite H_umul_scalar by lia. simpl. f_equal.
    rewrite Z.mul_assoc, sgn_mul_abs. reflexivity.
  Qed.
  Lemma leaf_imul_i_spec x s : imul_i uop_s x s = Ret (x * s).
  Proof.
    unfold imul_i. destruct (Z.leb_spec 0 s).
    - apply leaf_imul_u_spec; assumption.
    - rewrite leaf_imul_u_spec by lia. f_equal; lia.
  Qed.

  (* ---- BigInt (/|%) scalar, scalar (/|%) BigInt: truncated division, DivZero on a zero divisor ---- *)
  Lemma leaf_idiv_u_spec x s : 0 <= s -> idiv_u uop_s x s = zsem FamI OpDiv x s.
  Proof.
    intros Hs. unfold idiv_u, sgn_o. destruct (H_udivrem_scalar (Z.abs x) s) as [-> _]; try lia.
    simpl. destruct (s =? 0); [reflexivity|]. simpl. f_equal. apply sgn_quot_abs_l.
  Qed.
  Lemma leaf_u_idiv_spec s x : 0 <= s -> u_idiv s_uop s x = zsem FamI OpDiv s x.
  Proof.
    intros Hs. unfold u_idiv, sgn_o. destruct (H_scalar_udivrem s (Z.abs x)) as [-> _]; try lia.
    simpl. destruct (Z.eqb_spec (Z.abs x) 0) as [E|E]; destruct (Z.eqb_spec x 0) as [E'|E']; try lia; try reflexivity.
    simpl. f_equal. apply sgn_quot_abs_r.
  Qed.
  Lemma leaf_idiv_i_spec x s : idiv_i uop_s x s = zsem FamI OpDiv x s.
  Proof.
    unfold idiv_i. destruct (Z.leb_spec 0 s).
    - apply leaf_idiv_u_spec; assumption.
    - rewrite leaf_idiv_u_spec by lia. simpl.
      destruct (Z.eqb_spec (- s) 0); destruct (Z.eqb_spec s 0); try lia.
      f_equal. apply Z.quot_opp_opp; lia.
  Qed.
  Lemma leaf_i_idiv_spec s x : i_idiv s_uop s x = zsem FamI OpDiv s x.
  Proof.
    unfold i_idiv. destruct (Z.leb_spec 0 s).
    - apply leaf_u_idiv_spec; assumption.
    - rewrite leaf_u_idiv_spec by lia. simpl.
      destruct (Z.eqb_spec (- x) 0); destruct (Z.eqb_spec x 0); try lia; try reflexivity.
      f_equal. apply Z.quot_opp_opp; lia.
  Qed.
  Lemma leaf_irem_u_spec x s : 0 <= s -> irem_u uop_s x s = zsem FamI OpRem x s.
  Proof.
    intros Hs. unfold irem_u, sgn_o. destruct (H_udivrem_scalar (Z.abs x) s) as [_ ->]; try lia.
    simpl. destruct (s =? 0); [reflexivity|]. simpl. f_equal. apply sgn_rem_abs_l.
  Qed.
  Lemma leaf_u_irem_spec s x : 0 <= s -> u_irem s_uop s x = zsem FamI OpRem s x.
  Proof.
    intros Hs. unfold u_irem. destruct (H_scalar_udivrem s (Z.abs x)) as [_ ->]; try lia.
    simpl. destruct (Z.eqb_spec (Z.abs x) 0) as [E|E]; destruct (Z.eqb_spec x 0) as [E'|E']; try lia; try reflexivity.
    f_equal. apply rem_abs_r.
  Qed.
  Lemma leaf_irem_i_spec x s : irem_i uop_s x s = zsem FamI OpRem x s.
  Proof.
    unfold irem_i. rewrite leaf_irem_u_spec by lia. simpl.
    destruct (Z.eqb_spec (Z.abs s) 0); destruct (Z.eqb_spec s 0); try lia; try reflexivity.
    f_equal. apply rem_abs_r.
  Qed.
  Lemma leaf_i_irem_spec s x : i_irem s_uop s x = zsem FamI OpRem s x.
  Proof.
    unfold i_irem. destruct (Z.leb_spec 0 s).
    - apply leaf_u_irem_spec; assumption.
    - rewrite leaf_u_irem_spec by lia. simpl.
      destruct (Z.eqb_spec x 0); [reflexivity|]. simpl. f_equal.
      rewrite Z.rem_opp_l'. lia.
  Qed.
End LeafSpecs.
