(* DivProofsCore.v — C03: Knuth algorithm D (div_rem_core) is totally correct:
   q-hat bounds (Knuth 4.3.1 Thm B + ex. 19-21), multiply-subtract / add-back, loop invariant. *)
From BigNum Require Import Base BaseLemmas X86 AddSub SpecAddSub AddSubProofs ShiftCore Div SpecDiv DivProofs.
Open Scope Z_scope.

(** * Part A: the trial quotient digit, as arithmetic on Z *)
Section Qhat.
  Variables W b0 b1 V' a0 a1 a2 U' : Z.
  Hypothesis HW : 1 <= W.
  Hypothesis Hb0 : 0 <= b0 < B.
  Hypothesis Hb1 : 0 <= b1 < B.
  Hypothesis Hnorm : B <= 2 * b0.
  Hypothesis HV' : 0 <= V' < W.
  Hypothesis Ha0 : 0 <= a0 < B.
  Hypothesis Ha1 : 0 <= a1 < B.
  Hypothesis Ha2 : 0 <= a2 < B.
  Hypothesis HU' : 0 <= U' < W.
  Let V := b0 * B * W + b1 * W + V'.
  Let U := a0 * B * B * W + a1 * B * W + a2 * W + U'.
  Hypothesis HUV : U < V * B.

  Lemma qh_V_lower : B * W <= V /\ b0 * B * W <= V.
  Proof. pose proof B_gt1. unfold V. split; nia. Qed.

  Lemma qh_a0_le_b0 : a0 <= b0.
  Proof.
    pose proof B_gt1 as HB.
    assert (HVu : V < (b0 + 1) * B * W) by (unfold V; nia).
    assert (HUl : a0 * (B * B * W) <= U) by (unfold U; nia).
    assert (HP : 0 < B * B * W) by nia.
    assert (a0 * (B * B * W) < (b0 + 1) * (B * B * W)) by nia.
    apply Z.mul_lt_mono_pos_r in H; lia.
  Qed.

  (** the loop invariant *)
  Definition qinv (q r : Z) : Prop :=
    q * b0 + r = a0 * B + a1 /\ 0 <= q <= B - 1 /\ 0 <= r /\ U < (q + 1) * V.

  Lemma qh_init (p : div_params) : dp_a0_cmp p = Clt ->
    exists q r, qhat_init p a0 a1 b0 = Ret (q, r) /\ qinv q r.
  Proof.
    intros Hc. pose proof B_gt1 as HB. pose proof qh_a0_le_b0 as Hle.
    unfold qhat_init. rewrite Hc. cbn [cmp_eval].
    destruct (Z.ltb_spec a0 b0) as [Hlt|Hge].
    - rewrite div_wide_spec by lia.
      set (N := a0 * B + a1).
      pose proof (Z.div_mod N b0 ltac:(lia)) as Hdm.
      pose proof (Z.mod_pos_bound N b0 ltac:(lia)) as Hm.
      assert (HN : 0 <= N < b0 * B) by (unfold N; nia).
      assert (Hq : 0 <= N / b0 < B).
      { split; [apply Z.div_pos; lia|apply Z.div_lt_upper_bound; lia]. }
      eexists _, _. split; [reflexivity|]. unfold qinv. fold N.
      split; [lia|]. split; [lia|]. split; [lia|].
      (* (q+1)*b0 >= N+1, so (q+1)*V >= (N+1)*B*W > U *)
      set (q := N / b0) in *.
      assert (H1 : N + 1 <= (q + 1) * b0) by lia.
      assert (H2 : (N + 1) * (B * W) <= (q + 1) * b0 * (B * W)) by (apply Z.mul_le_mono_nonneg_r; nia).
      assert (H3 : (q + 1) * (b0 * B * W) <= (q + 1) * V).
      { apply Z.mul_le_mono_nonneg_l; [lia|]. apply qh_V_lower. }
      assert (H4 : U < (N + 1) * (B * W)) by (unfold U, N; nia).
      nia.
    - assert (Ea : a0 = b0) by lia.
      replace (a0 =? b0) with true by (symmetry; apply Z.eqb_eq; exact Ea).
      cbn [assert_ bind]. eexists _, _. split; [reflexivity|]. unfold qinv, MAXD.
      split; [rewrite Ea; ring|]. split; [lia|]. split; [lia|].
      replace (B - 1 + 1) with B by ring. lia.
  Qed.

  Lemma qh_dec q r : qinv q r -> r * B + a2 < q * b1 -> qinv (q - 1) (r + b0) /\ 1 <= q.
  Proof.
    intros (E & Hq & Hr & L) Hlt. pose proof B_gt1 as HB.
    assert (Hq1 : 1 <= q) by nia.
    split; [|exact Hq1]. unfold qinv. split; [nia|]. split; [lia|]. split; [lia|].
    replace (q - 1 + 1) with q by ring.
    assert (H1 : (r * B + a2 + 1) * W <= q * b1 * W) by (apply Z.mul_le_mono_nonneg_r; lia).
    assert (H2 : U = q * b0 * (B * W) + (r * B + a2) * W + U').
    { unfold U. replace (a0 * B * B * W + a1 * B * W) with ((a0 * B + a1) * (B * W)) by ring.
      rewrite <- E. ring. }
    assert (H3 : 0 <= q * V') by nia.
    unfold V. nia.
  Qed.

  Lemma qh_exit q r : qinv q r -> ~ (r <= B - 1 /\ r * B + a2 < q * b1) -> q * V <= U + V.
  Proof.
    intros (E & Hq & Hr & L) Hex. pose proof B_gt1 as HB.
    assert (Hge : q * b1 <= r * B + a2).
    { destruct (Z.le_gt_cases r (B - 1)) as [Hs|Hl]; [lia|].
      assert (q * b1 <= (B - 1) * (B - 1)) by nia. nia. }
    assert (H2 : U = q * b0 * (B * W) + (r * B + a2) * W + U').
    { unfold U. replace (a0 * B * B * W + a1 * B * W) with ((a0 * B + a1) * (B * W)) by ring.
      rewrite <- E. ring. }
    assert (H1 : q * b1 * W <= (r * B + a2) * W) by (apply Z.mul_le_mono_nonneg_r; lia).
    assert (H3 : q * V' <= (B - 1) * W) by nia.
    assert (H4 : (B - 1) * W <= V) by (pose proof qh_V_lower; nia).
    unfold V in *. nia.
  Qed.

  Lemma qh_loop (p : div_params) : dp_r_cmp p = Cle -> dp_q_cmp p = Clt ->
    forall fuel q r, qinv q r -> (1 <= fuel)%nat -> B * (3 - Z.of_nat fuel) <= 2 * r ->
    exists q' r', qhat_loop p fuel q r a2 b0 b1 = Ret (q', r') /\
                  0 <= q' <= B - 1 /\ U < (q' + 1) * V /\ q' * V <= U + V.
  Proof.
    intros Hc1 Hc2. pose proof B_gt1 as HB. pose proof BB_BB as HBB.
    induction fuel as [|f IH]; intros q r Hinv Hf Hfr; [lia|].
    cbn [qhat_loop]. rewrite Hc1, Hc2. cbn [cmp_eval]. unfold MAXD.
    destruct Hinv as (E & Hq & Hr & L).
    destruct (Z.leb_spec r (B - 1)) as [Hr1|Hr1]; cbn [andb].
    - rewrite Z.mod_small by lia.
      destruct (Z.ltb_spec (r * B + a2) (q * b1)) as [Hlt|Hge].
      + destruct (qh_dec q r (conj E (conj Hq (conj Hr L))) Hlt) as [Hinv' Hq1].
        replace (1 <=? q) with true by (symmetry; apply Z.leb_le; lia).
        replace (r + b0 <? BB) with true by (symmetry; apply Z.ltb_lt; nia).
        cbn [assert_ bind].
        apply IH; [exact Hinv'| |].
        * destruct f; [|lia]. exfalso. change (Z.of_nat 1) with 1 in Hfr. lia.
        * rewrite Nat2Z.inj_succ in Hfr. lia.
      + eexists _, _. split; [reflexivity|]. split; [lia|]. split; [exact L|].
        apply (qh_exit q r); [unfold qinv; auto|lia].
    - eexists _, _. split; [reflexivity|]. split; [lia|]. split; [exact L|].
      apply (qh_exit q r); [unfold qinv; auto|lia].
  Qed.
End Qhat.
