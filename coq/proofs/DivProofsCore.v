(* DivProofsCore.v — C03: Knuth algorithm D (div_rem_core) is totally correct:
   q-hat bounds (Knuth 4.3.1 Thm B + ex. 19-21), multiply-subtract / add-back, loop invariant. *)
From BigNum Require Import Base BaseLemmas X86 AddSub SpecAddSub AddSubProofs ShiftCore Div SpecDiv DivProofs.
Open Scope Z_scope.

(** * Part A: the trial quotient digit, as arithmetic on Z *)
Section Qhat.
  Variables W b0 b1 V' a0 a1 a2 U' : Z.
  Hypothesis HW : 1 <= W.
  Hypothesis Hb0 : 0 <= b0 < B.
  Hypothesis Hb1 : 0 <= b1 < B.
  Hypothesis Hnorm : B <= 2 * b0.
  Hypothesis HV' : 0 <= V' < W.
  Hypothesis Ha0 : 0 <= a0 < B.
  Hypothesis Ha1 : 0 <= a1 < B.
  Hypothesis Ha2 : 0 <= a2 < B.
  Hypothesis HU' : 0 <= U' < W.
  Let V := b0 * B * W + b1 * W + V'.
  Let U := a0 * B * B * W + a1 * B * W + a2 * W + U'.
  Hypothesis HUV : U < V * B.

  Lemma qh_V_lower : B * W <= V /\ b0 * B * W <= V.
  Proof. pose proof B_gt1. unfold V. split; nia. Qed.

  Lemma qh_a0_le_b0 : a0 <= b0.
  Proof.
    pose proof B_gt1 as HB.
    assert (HVu : V < (b0 + 1) * B * W) by (unfold V; nia).
    assert (HUl : a0 * (B * B * W) <= U) by (unfold U; nia).
    assert (HP : 0 < B * B * W) by nia.
    assert (a0 * (B * B * W) < (b0 + 1) * (B * B * W)) by nia.
    apply Z.mul_lt_mono_pos_r in H; lia.
  Qed.

  (** the loop invariant *)
  Definition qinv (q r : Z) : Prop :=
    q * b0 + r = a0 * B + a1 /\ 0 <= q <= B - 1 /\ 0 <= r /\ U < (q + 1) * V.

  Lemma qh_init (p : div_params) : dp_a0_cmp p = Clt ->
    exists q r, qhat_init p a0 a1 b0 = Ret (q, r) /\ qinv q r.
  Proof.
    intros Hc. pose proof B_gt1 as HB. pose proof qh_a0_le_b0 as Hle.
    unfold qhat_init. rewrite Hc. cbn [cmp_eval].
    destruct (Z.ltb_spec a0 b0) as [Hlt|Hge].
    - rewrite div_wide_spec by lia.
      set (N := a0 * B + a1).
      pose proof (Z.div_mod N b0 ltac:(lia)) as Hdm.
      pose proof (Z.mod_pos_bound N b0 ltac:(lia)) as Hm.
      assert (HN : 0 <= N < b0 * B) by (unfold N; nia).
      assert (Hq : 0 <= N / b0 < B).
      { split; [apply Z.div_pos; lia|apply Z.div_lt_upper_bound; lia]. }
      eexists _, _. split; [reflexivity|]. unfold qinv. fold N.
      split; [lia|]. split; [lia|]. split; [lia|].
      (* (q+1)*b0 >= N+1, so (q+1)*V >= (N+1)*B*W > U *)
      set (q := N / b0) in *.
      assert (H1 : N + 1 <= (q + 1) * b0) by lia.
      assert (H2 : (N + 1) * (B * W) <= (q + 1) * b0 * (B * W)) by (apply Z.mul_le_mono_nonneg_r; nia).
      assert (H3 : (q + 1) * (b0 * B * W) <= (q + 1) * V).
      { apply Z.mul_le_mono_nonneg_l; [lia|]. apply qh_V_lower. }
      assert (H4 : U < (N + 1) * (B * W)) by (unfold U, N; nia).
      nia.
    - assert (Ea : a0 = b0) by lia.
      replace (a0 =? b0) with true by (symmetry; apply Z.eqb_eq; exact Ea).
      cbn [assert_ bind]. eexists _, _. split; [reflexivity|]. unfold qinv, MAXD.
      split; [rewrite Ea; ring|]. split; [lia|]. split; [lia|].
      replace (B - 1 + 1) with B by ring. lia.
  Qed.

  Lemma qh_dec q r : qinv q r -> r * B + a2 < q * b1 -> qinv (q - 1) (r + b0) /\ 1 <= q.
  Proof.
    intros (E & Hq & Hr & L) Hlt. pose proof B_gt1 as HB.
    assert (Hq1 : 1 <= q) by nia.
    split; [|exact Hq1]. unfold qinv. split; [nia|]. split; [lia|]. split; [lia|].
    replace (q - 1 + 1) with q by ring.
    assert (H1 : (r * B + a2 + 1) * W <= q * b1 * W) by (apply Z.mul_le_mono_nonneg_r; lia).
    assert (H2 : U = q * b0 * (B * W) + (r * B + a2) * W + U').
    { unfold U. replace (a0 * B * B * W + a1 * B * W) with ((a0 * B + a1) * (B * W)) by ring.
      rewrite <- E. ring. }
    assert (H3 : 0 <= q * V') by nia.
    unfold V. nia.
  Qed.

  Lemma qh_exit q r : qinv q r -> ~ (r <= B - 1 /\ r * B + a2 < q * b1) -> q * V <= U + V.
  Proof.
    intros (E & Hq & Hr & L) Hex. pose proof B_gt1 as HB.
    assert (Hge : q * b1 <= r * B + a2).
    { destruct (Z.le_gt_cases r (B - 1)) as [Hs|Hl]; [lia|].
      assert (q * b1 <= (B - 1) * (B - 1)) by nia. nia. }
    assert (H2 : U = q * b0 * (B * W) + (r * B + a2) * W + U').
    { unfold U. replace (a0 * B * B * W + a1 * B * W) with ((a0 * B + a1) * (B * W)) by ring.
      rewrite <- E. ring. }
    assert (H1 : q * b1 * W <= (r * B + a2) * W) by (apply Z.mul_le_mono_nonneg_r; lia).
    assert (H3 : q * V' <= (B - 1) * W) by nia.
    assert (H4 : (B - 1) * W <= V) by (pose proof qh_V_lower; nia).
    unfold V in *. nia.
  Qed.

  Lemma qh_loop (p : div_params) : dp_r_cmp p = Cle -> dp_q_cmp p = Clt ->
    forall fuel q r, qinv q r -> (1 <= fuel)%nat -> B * (3 - Z.of_nat fuel) <= 2 * r ->
    exists q' r', qhat_loop p fuel q r a2 b0 b1 = Ret (q', r') /\
                  0 <= q' <= B - 1 /\ U < (q' + 1) * V /\ q' * V <= U + V.
  Proof.
    intros Hc1 Hc2. pose proof B_gt1 as HB. pose proof BB_BB as HBB.
    induction fuel as [|f IH]; intros q r Hinv Hf Hfr; [lia|].
    cbn [qhat_loop]. rewrite Hc1, Hc2. cbn [cmp_eval]. unfold MAXD.
    destruct Hinv as (E & Hq & Hr & L).
    destruct (Z.leb_spec r (B - 1)) as [Hr1|Hr1]; cbn [andb].
    - rewrite Z.mod_small by lia.
      destruct (Z.ltb_spec (r * B + a2) (q * b1)) as [Hlt|Hge].
      + destruct (qh_dec q r (conj E (conj Hq (conj Hr L))) Hlt) as [Hinv' Hq1].
        replace (1 <=? q) with true by (symmetry; apply Z.leb_le; lia).
        replace (r + b0 <? BB) with true by (symmetry; apply Z.ltb_lt; nia).
        cbn [assert_ bind].
        apply IH; [exact Hinv'| |].
        * destruct f; [|lia]. exfalso. change (Z.of_nat 1) with 1 in Hfr. lia.
        * rewrite Nat2Z.inj_succ in Hfr. lia.
      + eexists _, _. split; [reflexivity|]. split; [lia|]. split; [exact L|].
        apply (qh_exit q r); [unfold qinv; auto|lia].
    - eexists _, _. split; [reflexivity|]. split; [lia|]. split; [exact L|].
      apply (qh_exit q r); [unfold qinv; auto|lia].
  Qed.
End Qhat.

(** * Part B: multiply-subtract, add-back, the `borrow == a0` assertion *)
Lemma mulsub_fix_spec p hi a0 q b : div_ok p = true ->
  wf hi -> wf b -> length hi = length b -> 0 <= a0 < B -> 0 <= q < B ->
  let n := Z.of_nat (length b) in
  let V := val b in
  let U := val hi + a0 * B ^ n in
  0 < V -> U < (q + 1) * V -> q * V <= U + V ->
  exists hi', mulsub_fix p hi a0 q b = Ret (U / V, hi') /\ wf hi' /\ length hi' = length b /\
              val hi' = U mod V.
Proof.
  intros Hok Whi Wb Hl Ha0 Hq n V U HV HL HU.
  destruct (div_ok_inv p Hok) as [Has _ _ _ Hbc _ _ _ _ _ _ _ _ _ _ _ _ _].
  pose proof B_gt1 as HB.
  pose proof (val_bound b Wb) as Vb. fold V n in Vb.
  pose proof (val_bound hi Whi) as Vhi. rewrite Hl in Vhi. fold n in Vhi.
  set (P := B ^ n) in *.
  assert (HP : 0 < P) by (unfold P, n; apply B_pow_nat).
  unfold mulsub_fix.
  destruct (sub_mul_spec hi b q Whi Wb Hl Hq) as (hi1 & br & E & W1 & L1 & Hbr & V1).
  rewrite E. cbn [bind]. rewrite Hl in V1. fold n P V in V1.
  pose proof (val_bound hi1 W1) as Vh1. rewrite L1, Hl in Vh1. fold n P in Vh1.
  rewrite Hbc. cbn [cmp_eval].
  set (D := U - q * V).
  assert (HD : D = val hi1 + (a0 - br) * P) by (unfold D, U; lia).
  assert (HDr : - V <= D < V) by (unfold D; lia).
  destruct (Z.le_gt_cases 0 D) as [Hpos|Hneg].
  - (* the estimate was exact *)
    assert (Ebr : br = a0) by nia.
    replace (br >? a0) with false by (symmetry; rewrite Z.gtb_ltb; apply Z.ltb_ge; lia).
    cbn [bind]. replace (br =? a0) with true by (symmetry; apply Z.eqb_eq; auto).
    cbn [assert_ bind].
    assert (Eq : U / V = q) by (symmetry; apply Z.div_unique with D; unfold D; lia).
    assert (Er : U mod V = D) by (symmetry; apply Z.mod_unique with q; unfold D; lia).
    rewrite Eq. eexists. split; [reflexivity|]. repeat split; auto; try lia.
  - (* one too large: add back *)
    assert (Ebr : br = a0 + 1) by nia.
    replace (br >? a0) with true by (symmetry; rewrite Z.gtb_ltb; apply Z.ltb_lt; lia).
    assert (Hq1 : 1 <= q) by (unfold D, U in *; nia).
    replace (1 <=? q) with true by (symmetry; apply Z.leb_le; lia).
    cbn [assert_ bind].
    destruct (add2c_spec (dp_as p) hi1 b Has W1 Wb ltac:(lia)) as (hi2 & c & E2 & W2 & L2 & Bc & V2).
    rewrite E2. cbn [bind]. rewrite L1, Hl in V2. fold n P V in V2.
    pose proof (val_bound hi2 W2) as Vh2. rewrite L2, L1, Hl in Vh2. fold n P in Vh2.
    assert (Ec : c = 1) by (destruct Bc as [-> | ->]; [exfalso; nia|reflexivity]).
    subst c.
    replace (1 <=? br) with true by (symmetry; apply Z.leb_le; lia).
    cbn [assert_ bind].
    replace (br - 1 =? a0) with true by (symmetry; apply Z.eqb_eq; lia).
    cbn [assert_ bind].
    assert (Eq : U / V = q - 1) by (symmetry; apply Z.div_unique with (D + V); unfold D; lia).
    assert (Er : U mod V = D + V) by (symmetry; apply Z.mod_unique with (q - 1); unfold D; lia).
    rewrite Eq. eexists. split; [reflexivity|]. repeat split; auto; try lia.
Qed.

(** * Part C: one iteration of the main loop *)
Lemma val_two x y : val [x; y] = x + B * y.
Proof. cbn [val]. ring. Qed.

Lemma wf_two_inv l x y : wf (l ++ [x; y]) -> wf l /\ 0 <= x < B /\ 0 <= y < B.
Proof.
  intros H. apply wf_app in H as [Hl H]. apply wf_cons in H as [Hx H]. apply wf_cons in H as [Hy _].
  auto.
Qed.

Lemma knuth_step_spec p j lo hl a2 a1 a0 bl b1 b0 :
  div_ok p = true ->
  let a := lo ++ hl ++ [a2; a1] in
  let b := bl ++ [b1; b0] in
  wf a -> wf b -> length lo = j -> length hl = length bl -> 0 <= a0 < B -> B <= 2 * b0 ->
  let n := Z.of_nat (length b) in
  let V := val b in
  let U := val (hl ++ [a2; a1]) + a0 * B ^ n in
  U < V * B ->
  exists hl' t, knuth_step p j a a0 b b0 b1 = Ret (U / V, lo ++ hl', t) /\ wf (hl' ++ [t]) /\
                length (hl' ++ [t]) = length b /\ val (hl' ++ [t]) = U mod V.
Proof.
  intros Hok a b Wa Wb Hlo Hhl Ha0 Hnorm n V U HUV.
  destruct (div_ok_inv p Hok) as [Has Hc0 Hcr Hcq Hbc _ _ _ _ _ _ _ _ _ _ _ _ _].
  pose proof B_gt1 as HB.
  apply wf_app in Wa as [Wlo Whi]. pose proof Whi as Whi'.
  apply wf_two_inv in Whi' as (Whl & Ha2 & Ha1).
  pose proof Wb as Wb'. apply wf_two_inv in Wb' as (Wbl & Hb1 & Hb0).
  set (W := B ^ Z.of_nat (length bl)).
  assert (HW : 1 <= W) by (pose proof (B_pow_nat (length bl)); unfold W; lia).
  pose proof (val_bound bl Wbl) as Vbl. fold W in Vbl.
  pose proof (val_bound hl Whl) as Vhl. rewrite Hhl in Vhl. fold W in Vhl.
  assert (En : B ^ n = W * B * B).
  { unfold n, b, W. rewrite app_length. cbn [length]. rewrite Nat2Z.inj_add.
    change (Z.of_nat 2) with 2. rewrite Z.pow_add_r by lia. change (B ^ 2) with (B ^ (1 + 1)).
    rewrite Z.pow_add_r, Z.pow_1_r by lia. ring. }
  assert (EV : V = b0 * B * W + b1 * W + val bl).
  { unfold V, b. rewrite val_app, val_two. fold W. ring. }
  assert (EU : U = a0 * B * B * W + a1 * B * W + a2 * W + val hl).
  { unfold U. rewrite val_app, val_two, Hhl, En. fold W. ring. }
  assert (HUV' : a0 * B * B * W + a1 * B * W + a2 * W + val hl < (b0 * B * W + b1 * W + val bl) * B)
    by (rewrite <- EU, <- EV; exact HUV).
  unfold knuth_step.
  assert (La : length a = (length b + j)%nat).
  { unfold a, b. rewrite !app_length. cbn [length]. lia. }
  replace (length a =? length b + j)%nat with true by (symmetry; apply Nat.eqb_eq; exact La).
  cbn [assert_ bind].
  assert (Erev : rev a = a1 :: a2 :: rev (lo ++ hl)).
  { unfold a. rewrite app_assoc, rev_app_distr. reflexivity. }
  rewrite Erev.
  destruct (qh_init W b0 b1 (val bl) a0 a1 a2 (val hl) HW Hb0 Hb1 Hnorm Vbl Ha0 Ha1 Ha2 Vhl HUV' p Hc0)
    as (q & r & Ei & Hinv).
  rewrite Ei. cbn [bind].
  destruct (qh_loop W b0 b1 (val bl) a0 a1 a2 (val hl) HW Hb0 Hb1 Hnorm Vbl Ha0 Ha1 Ha2 Vhl HUV' p Hcr Hcq
              qhat_fuel q r Hinv ltac:(unfold qhat_fuel; lia))
    as (q' & r' & El & Hq' & HL & HUp).
  { destruct Hinv as (_ & _ & Hr & _). unfold qhat_fuel. change (Z.of_nat 4) with 4. lia. }
  rewrite El. cbn [bind].
  replace (j <=? length a)%nat with true by (symmetry; apply Nat.leb_le; lia).
  cbn [assert_ bind].
  assert (Esk : skipn j a = hl ++ [a2; a1]) by (unfold a; apply skipn_app_exact; exact Hlo).
  assert (Efn : firstn j a = lo) by (unfold a; apply firstn_app_exact; exact Hlo).
  rewrite Esk, Efn. rewrite <- EU, <- EV in HL, HUp.
  assert (Lhi : length (hl ++ [a2; a1]) = length b).
  { unfold b. rewrite !app_length. cbn [length]. lia. }
  assert (HVpos : 0 < V) by (rewrite EV; nia).
  destruct (mulsub_fix_spec p (hl ++ [a2; a1]) a0 q' b Hok Whi Wb Lhi Ha0 ltac:(lia) HVpos HL HUp)
    as (hi' & Em & Whi2 & Lhi2 & Vhi2).
  fold n V U in Em, Vhi2. rewrite Em. cbn [bind].
  assert (Hne : hi' <> []).
  { intros ->. unfold b in Lhi2. rewrite app_length in Lhi2. cbn [length] in Lhi2. lia. }
  destruct (exists_last Hne) as (hl' & t & Eh). subst hi'.
  rewrite app_assoc, rev_app_distr. cbn [rev app].
  rewrite removelast_last.
  exists hl', t. repeat split; auto.
Qed.

(** * Part D: the main loop *)
Lemma split_last_two (l : list Z) m : length l = S (S m) ->
  exists l' x y, l = l' ++ [x; y] /\ length l' = m.
Proof.
  intros H. assert (Hne : l <> []) by (intros ->; discriminate).
  destruct (exists_last Hne) as (l1 & y & ->). rewrite app_length in H. cbn [length] in H.
  assert (Hne1 : l1 <> []) by (intros ->; cbn in H; lia).
  destruct (exists_last Hne1) as (l2 & x & ->). rewrite app_length in H. cbn [length] in H.
  exists l2, x, y. split; [rewrite <- app_assoc; reflexivity|lia].
Qed.

Lemma core_loop_spec p bl b1 b0 : div_ok p = true ->
  let b := bl ++ [b1; b0] in wf b -> B <= 2 * b0 ->
  let V := val b in
  forall k a a0, wf a -> 0 <= a0 < B -> (length a + 1 = length b + k)%nat ->
  let T := val (a ++ [a0]) in
  T < V * B ^ Z.of_nat k ->
  exists ql af a0f, core_loop p k a a0 b b0 b1 = Ret (ql, af, a0f) /\ wf ql /\ length ql = k /\
     val ql = T / V /\ wf (af ++ [a0f]) /\ val (af ++ [a0f]) = T mod V.
Proof.
  intros Hok b Wb Hnorm V. pose proof B_gt1 as HB.
  pose proof Wb as Wb'. apply wf_two_inv in Wb' as (Wbl & Hb1 & Hb0).
  assert (Lb : length b = S (S (length bl))).
  { unfold b. rewrite app_length. cbn [length]. lia. }
  assert (HVpos : 0 < V).
  { unfold V, b. rewrite val_app, val_two. pose proof (val_nonneg bl Wbl).
    pose proof (B_pow_nat (length bl)). assert (1 <= b1 + B * b0) by nia. nia. }
  induction k as [|j IH]; intros a a0 Wa Ha0 Hlen T HT.
  - cbn [core_loop]. exists [], a, a0. split; [reflexivity|].
    assert (Wt : wf (a ++ [a0])) by (apply wf_app; split; [auto|apply wf_single; exact Ha0]).
    pose proof (val_nonneg _ Wt) as HT0. fold T in HT0.
    change (Z.of_nat 0) with 0 in HT. rewrite Z.pow_0_r in HT.
    repeat split; auto using wf_nil.
    + cbn [val]. symmetry. apply Z.div_small. lia.
    + symmetry. apply Z.mod_small. lia.
  - (* decompose a = lo ++ hl ++ [a2; a1] *)
    set (lo := firstn j a). set (hi := skipn j a).
    assert (Ea : a = lo ++ hi) by (symmetry; apply firstn_skipn).
    assert (Llo : length lo = j) by (unfold lo; rewrite firstn_length; lia).
    assert (Lhi : length hi = S (S (length bl))) by (unfold hi; rewrite skipn_length; lia).
    destruct (split_last_two hi (length bl) Lhi) as (hl & a2 & a1 & Ehi & Lhl).
    assert (Ea' : a = lo ++ hl ++ [a2; a1]) by (rewrite Ea, Ehi; reflexivity).
    pose proof Wa as Wa'. rewrite Ea in Wa'. apply wf_app in Wa' as [Wlo Whi].
    set (n := Z.of_nat (length b)).
    set (U := val (hl ++ [a2; a1]) + a0 * B ^ n).
    set (Pj := B ^ Z.of_nat j).
    assert (HPj : 0 < Pj) by (unfold Pj; apply B_pow_nat).
    pose proof (val_bound lo Wlo) as Vlo. rewrite Llo in Vlo. fold Pj in Vlo.
    assert (ET : T = val lo + Pj * U).
    { unfold T, U. rewrite Ea', app_assoc_reverse, val_app, Llo. fold Pj.
      rewrite val_app, val_single.
      replace (length (hl ++ [a2; a1])) with (length b)
        by (rewrite Lb, app_length; cbn [length]; lia).
      fold n. ring. }
    assert (HUV : U < V * B).
    { rewrite Nat2Z.inj_succ, Z.pow_succ_r in HT by lia. fold Pj in HT.
      assert (Pj * U < Pj * (V * B)) by lia.
      apply Z.mul_lt_mono_pos_l in H; lia. }
    assert (Wa2 : wf (lo ++ hl ++ [a2; a1])) by (rewrite <- Ea'; exact Wa).
    destruct (knuth_step_spec p j lo hl a2 a1 a0 bl b1 b0 Hok Wa2 Wb Llo Lhl Ha0 Hnorm HUV)
      as (hl' & t & Es & Wh' & Lh' & Vh').
    fold b n V U in Es, Lh', Vh'.
    cbn [core_loop].
    replace (knuth_step p j a a0 b b0 b1) with (knuth_step p j (lo ++ hl ++ [a2; a1]) a0 b b0 b1)
      by (rewrite <- Ea'; reflexivity).
    rewrite Es. cbn [bind].
    apply wf_app in Wh' as [Whl' Wt]. apply wf_cons in Wt as [Ht _]. unfold digit in Ht.
    set (R := U mod V) in *.
    pose proof (Z.mod_pos_bound U V HVpos) as HR. fold R in HR.
    assert (HU0 : 0 <= U).
    { unfold U. pose proof (val_nonneg _ (proj2 (proj1 (wf_app _ _) Wa2))).
      pose proof (B_pow_nat (length b)). fold n in H0. nia. }
    assert (Hq0 : 0 <= U / V < B).
    { split; [apply Z.div_pos; lia|apply Z.div_lt_upper_bound; lia]. }
    assert (ET' : val ((lo ++ hl') ++ [t]) = val lo + Pj * R).
    { rewrite <- app_assoc, val_app, Llo. fold Pj. rewrite Vh'. reflexivity. }
    destruct (IH (lo ++ hl') t) as (ql & af & a0f & Ec & Wql & Lql & Vql & Waf & Vaf).
    + apply wf_app; split; auto.
    + exact Ht.
    + rewrite app_length in Lh'. cbn [length] in Lh'. rewrite app_length. lia.
    + rewrite ET'. fold Pj. nia.
    + rewrite Ec. cbn [bind]. eexists _, _, _. split; [reflexivity|].
      pose proof (Z.div_mod U V ltac:(lia)) as HdmU. fold R in HdmU.
      assert (ET2 : T = val ((lo ++ hl') ++ [t]) + (Pj * (U / V)) * V).
      { rewrite ET, ET', HdmU at 1. ring. }
      split; [apply wf_app; split; [exact Wql|apply wf_single; exact Hq0]|].
      split; [rewrite app_length; cbn [length]; lia|].
      split.
      * rewrite val_app, val_single, Lql, Vql. fold Pj. rewrite ET2.
        rewrite Z.div_add by lia. reflexivity.
      * split; [exact Waf|]. rewrite Vaf, ET2. rewrite Z.mod_add by lia. reflexivity.
Qed.

(** * Part E: div_rem_core *)
Theorem div_rem_core_spec p a b : div_ok p = true -> wf a -> wf b ->
  (2 <= length b <= length a)%nat -> B <= 2 * last b 0 ->
  div_rem_core p a b = Ret (enc (val a / val b), enc (val a mod val b)).
Proof.
  intros Hok Wa Wb Hlen Hnorm. pose proof B_gt1 as HB.
  destruct (length b) as [|[|m]] eqn:Lb; try lia.
  destruct (split_last_two b m Lb) as (bl & b1 & b0 & Eb & Lbl).
  rewrite Eb in Hnorm.
  replace (bl ++ [b1; b0]) with ((bl ++ [b1]) ++ [b0]) in Hnorm by (rewrite <- app_assoc; reflexivity).
  rewrite last_last in Hnorm.
  unfold div_rem_core. rewrite Lb.
  replace ((S (S m) <=? length a)%nat && (1 <? S (S m))%nat) with true
    by (symmetry; apply andb_true_iff; split; [apply Nat.leb_le; lia|apply Nat.ltb_lt; lia]).
  cbn [assert_ bind].
  assert (Erev : rev b = b0 :: b1 :: rev bl) by (rewrite Eb, rev_app_distr; reflexivity).
  rewrite Erev.
  replace (B / 2 <=? b0) with true by (symmetry; apply Z.leb_le; lia).
  cbn [assert_ bind].
  pose proof Wb as Wb'. rewrite Eb in Wb'. pose proof Wb' as Wb2.
  apply wf_two_inv in Wb2 as (Wbl & Hb1 & Hb0).
  set (k := (length a - S (S m) + 1)%nat).
  assert (Wa0 : wf (a ++ [0])) by (apply wf_app; split; [auto|apply wf_single; unfold digit; lia]).
  assert (ET : val (a ++ [0]) = val a) by (rewrite val_app, val_single; ring).
  assert (HVl : b0 * B ^ Z.of_nat (S m) <= val b).
  { rewrite Eb, val_app, val_two, Lbl. pose proof (val_nonneg bl Wbl).
    rewrite Nat2Z.inj_succ, Z.pow_succ_r by lia. pose proof (B_pow_nat m). nia. }
  destruct (core_loop_spec p bl b1 b0 Hok Wb' Hnorm k a 0 Wa ltac:(lia)) as
    (ql & af & a0f & Ec & Wql & Lql & Vql & Waf & Vaf).
  { rewrite <- Eb, Lb. unfold k. lia. }
  { rewrite ET, <- Eb. pose proof (val_bound a Wa) as Va.
    replace (Z.of_nat (length a)) with (Z.of_nat (S m) + Z.of_nat k) in Va by (unfold k; lia).
    rewrite Z.pow_add_r in Va by lia.
    pose proof (B_pow_nat (S m)). pose proof (B_pow_nat k).
    assert (B ^ Z.of_nat (S m) * B ^ Z.of_nat k <= val b * B ^ Z.of_nat k)
      by (apply Z.mul_le_mono_nonneg_r; nia).
    lia. }
  rewrite <- Eb in Ec. rewrite Ec. cbn [bind].
  rewrite ET, <- Eb in Vql, Vaf.
  assert (HVpos : 0 < val b) by (pose proof (B_pow_nat (S m)); nia).
  pose proof (Z.mod_pos_bound (val a) (val b) HVpos) as HR.
  rewrite <- (enc_strip (af ++ [a0f])) by exact Waf. rewrite Vaf.
  assert (Cb : canon b).
  { rewrite Eb. replace (bl ++ [b1; b0]) with ((bl ++ [b1]) ++ [b0]) by (rewrite <- app_assoc; reflexivity).
    apply canon_app_last; [apply wf_app; split; [auto|apply wf_single; exact Hb1]|exact Hb0|lia]. }
  rewrite cmp_slice_spec by (auto using enc_canon). cbn [bind].
  rewrite enc_val by lia.
  replace (val a mod val b ?= val b) with Lt by (symmetry; apply Z.compare_lt_iff; lia).
  cbn [assert_ bind]. rewrite <- enc_strip by exact Wql. rewrite Vql. reflexivity.
Qed.
