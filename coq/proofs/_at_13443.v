(* AsmProofs.v — the inline-asm loops of schoolbook_{add,sub}_assign_x86_64, executed under
   the mini-x86 semantics of base/X86.v, compute exactly the list function [schoolbook] of
   model/AddSub.v and touch memory only inside the first 5*(size/5) cells (C01, C15). *)
From BigNum Require Import Base BaseLemmas X86 AddSub AddSubProofs.
Open Scope Z_scope.

(** memory cells [i, i+n) of a memory function *)
Definition seg (m : Z -> Z) (i : Z) (n : nat) : list Z :=
  map (fun j => m (i + Z.of_nat j)) (seq 0 n).

Lemma seg_length m i n : length (seg m i n) = n.
Proof. unfold seg. rewrite map_length, seq_length. reflexivity. Qed.
Lemma seg_S m i n : seg m i (S n) = m i :: seg m (i + 1) n.
Proof.
  unfold seg. cbn [seq map]. rewrite Z.add_0_r. f_equal.
  rewrite <- seq_shift, map_map. apply map_ext. intros j. f_equal. lia.
Qed.
Lemma seg_app m i n k : seg m i (n + k) = seg m i n ++ seg m (i + Z.of_nat n) k.
Proof.
  revert i; induction n as [|n IH]; intros i.
  - cbn [Nat.add seg seq map app Z.of_nat]. rewrite Z.add_0_r. reflexivity.
  - cbn [Nat.add]. rewrite !seg_S, IH. cbn [app]. do 3 f_equal. lia.
Qed.
Lemma seg_ext m m' i n : (forall j, i <= j < i + Z.of_nat n -> m j = m' j) -> seg m i n = seg m' i n.
Proof.
  intros H. unfold seg. apply map_ext_in. intros j Hj. apply in_seq in Hj. apply H. lia.
Qed.
(** body of the canonical program *)
Definition body (mk : reg -> reg -> instr) : list instr :=
  [Load (RA 1) MA 0; Load (RA 2) MA 1; Load (RA 3) MA 2; Load (RA 4) MA 3; Load (RA 5) MA 4;
   Load (RB 1) MB 0; Load (RB 2) MB 1; Load (RB 3) MB 2; Load (RB 4) MB 3; Load (RB 5) MB 4;
   mk (RA 1) (RB 1); mk (RA 2) (RB 2); mk (RA 3) (RB 3); mk (RA 4) (RB 4); mk (RA 5) (RB 5);
   Store MA 0 (RA 1); Store MA 1 (RA 2); Store MA 2 (RA 3); Store MA 3 (RA 4); Store MA 4 (RA 5);
   Inc Ridx; Inc Ridx; Inc Ridx; Inc Ridx; Inc Ridx; Dec Rsize].

Lemma run_canon_add fuel s :
  run fuel canon_add_prog s =
  let '(s1, ok) := loop fuel (body Adc) (exec [Clc] s) in (exec [Setc Rc; Clc] s1, ok).
Proof. reflexivity. Qed.
Lemma run_canon_sub fuel s :
  run fuel canon_sub_prog s =
  let '(s1, ok) := loop fuel (body Sbb) (exec [Clc] s) in (exec [Setc Rc; Clc] s1, ok).
Proof. reflexivity. Qed.

Lemma body_add_probe rg0 cf0 zf0 ma0 mb0 tr0 :
  exec (body Adc) (mkst rg0 cf0 zf0 ma0 mb0 tr0) = mkst rg0 cf0 zf0 ma0 mb0 tr0.
Proof.
  unfold body, exec. cbn [fold_left step rg cf zf ma mb tr].
  cbn [upd reg_eqb Z.eqb Pos.eqb].
Show. 
