(* RadixProofs3.v — C06: from_radix_le / from_radix_be (digit validation, power-of-two
   dispatch, chunked Horner) and the digit-vector round trip.  Kernels are Section variables. *)
From BigNum Require Import Base BaseLemmas AddSub AddSubProofs Div DivProofs SpecBytes BytesLemmas
  Radix SpecRadix RadixProofs RadixProofs2.
Open Scope Z_scope.

Definition bytes (l : list Z) : Prop := Forall (fun b => 0 <= b < 256) l.

Lemma forallb_rev {A} (f : A -> bool) l : forallb f (rev l) = forallb f l.
Proof.
  induction l as [|x l IH]; [reflexivity|]. cbn [rev forallb].
  rewrite forallb_app, IH. cbn. rewrite andb_true_r. apply andb_comm.
Qed.
Lemma existsb_negb_forallb {A} (f g : A -> bool) l : (forall x, In x l -> f x = negb (g x)) ->
  existsb f l = negb (forallb g l).
Proof.
  induction l as [|x l IH]; intros H; [reflexivity|]. cbn [existsb forallb].
  rewrite H by (left; auto). rewrite IH by (intros; apply H; right; auto).
  destruct (g x); reflexivity.
Qed.
Lemma bytes_rev l : bytes l -> bytes (rev l).
Proof. apply Forall_rev. Qed.
Lemma inb_of_forallb r l : bytes l -> forallb (fun d => d <? r) l = true -> inb r l.
Proof.
  intros Hb Hf. rewrite forallb_forall in Hf. unfold bytes in Hb. rewrite Forall_forall in Hb.
  apply Forall_forall. intros x Hx. specialize (Hb x Hx). specialize (Hf x Hx). apply Z.ltb_lt in Hf. lia.
Qed.

Section WithKernels.
Variable k_mac : Z -> Z -> Z -> Z -> outcome (Z * Z).
Variable k_from_bits k_from_inexact : list Z -> Z -> outcome (list Z).
Hypothesis H_mac : forall b c acc, digit b -> digit c -> digit acc ->
  k_mac 0 b c acc = Ret ((b * c + acc) mod B, (b * c + acc) / B).
Hypothesis H_from_bits : forall v bits, (bits = 1 \/ bits = 2 \/ bits = 4 \/ bits = 8) -> v <> [] ->
  inb (2 ^ bits) v -> k_from_bits v bits = Ret (enc (le_value (2 ^ bits) v)).
Hypothesis H_from_inexact : forall v bits, (bits = 3 \/ bits = 5 \/ bits = 6 \/ bits = 7) -> v <> [] ->
  inb (2 ^ bits) v -> k_from_inexact v bits = Ret (enc (le_value (2 ^ bits) v)).

Lemma from_pow2_spec v radix : 2 <= radix <= 256 -> rpow2 radix = true -> v <> [] -> inb radix v ->
  from_pow2 k_from_bits k_from_inexact v radix = Ret (enc (le_value radix v)).
Proof.
  intros Hr Hp Hv Hin. unfold from_pow2.
  destruct (rpow2_cases radix Hr Hp) as (bits & Hb & -> & ->). cbn [bind].
  replace (bits =? 0) with false by (symmetry; apply Z.eqb_neq; lia). cbn [negb assert_ bind].
  assert (Hc : bits = 1 \/ bits = 2 \/ bits = 3 \/ bits = 4 \/ bits = 5 \/ bits = 6 \/ bits = 7 \/ bits = 8) by lia.
  destruct Hc as [->|[->|[->|[->|[->|[->|[->| ->]]]]]]];
    first [ change (64 mod 1 =? 0) with true | change (64 mod 2 =? 0) with true
          | change (64 mod 3 =? 0) with false | change (64 mod 4 =? 0) with true
          | change (64 mod 5 =? 0) with false | change (64 mod 6 =? 0) with false
          | change (64 mod 7 =? 0) with false | change (64 mod 8 =? 0) with true ];
    cbv iota; first [apply H_from_bits; auto; tauto | apply H_from_inexact; auto; tauto].
Qed.

(** value of the accepted slices, shared by both byte orders: [ds] little-endian *)
Lemma from_radix_core p (le be : list Z) radix : radix_std p -> 2 <= radix <= 256 ->
  le <> [] -> be = rev le -> inb radix le ->
  (if rpow2 radix then from_pow2 k_from_bits k_from_inexact le radix
   else from_radix_digits_be k_mac p be radix) = Ret (enc (le_value radix le)).
Proof.
  intros S Hr Hn -> Hin. destruct (rpow2 radix) eqn:Hp.
  - apply from_pow2_spec; auto.
  - assert (Hr3 : 3 <= radix < 256).
    { destruct (Z.eq_dec radix 2) as [->|]; [discriminate|].
      destruct (Z.eq_dec radix 256) as [->|]; [discriminate|]. lia. }
    rewrite (from_radix_digits_be_spec k_mac H_mac p (rev le) radix S Hr3 Hp).
    + unfold be_value. rewrite rev_involutive. reflexivity.
    + intros E. apply (f_equal (@rev Z)) in E. rewrite rev_involutive in E. cbn in E. congruence.
    + apply inb_rev; auto.
Qed.

Lemma radix_guard_spec p buf radix : radix_std p -> 2 <= radix <= 256 -> bytes buf ->
  radix_guard p buf radix = negb (forallb (fun d => d <? radix) buf).
Proof.
  intros S Hr Hb. unfold radix_guard. rewrite (rs_guard p S).
  destruct (Z.eqb_spec radix 256) as [->|Hne]; cbn [negb andb].
  - symmetry. apply negb_false_iff, forallb_forall. intros x Hx.
    unfold bytes in Hb. rewrite Forall_forall in Hb. apply Z.ltb_lt. specialize (Hb x Hx). lia.
  - rewrite Z.mod_small by lia. apply existsb_negb_forallb. intros x _.
    rewrite Z.geb_leb. rewrite Z.ltb_antisym. rewrite negb_involutive. reflexivity.
Qed.

Theorem from_radix_le_spec p buf radix : radix_std p -> bytes buf ->
  from_radix_le k_mac k_from_bits k_from_inexact p buf radix
  = omap (option_map enc) (spec_from_radix_le buf radix).
Proof.
  intros S Hb. unfold from_radix_le, spec_from_radix_le, radix_in.
  rewrite (rs_dig_lo p S), (rs_dig_hi p S).
  destruct ((2 <=? radix) && (radix <=? 256)) eqn:Hr; cbn [assert_ bind omap]; [|reflexivity].
  apply andb_true_iff in Hr as [H1 H2]. apply Z.leb_le in H1, H2.
  destruct buf as [|b0 buf']; [reflexivity|].
  set (buf := b0 :: buf') in *.
  rewrite radix_guard_spec by (auto; lia).
  destruct (forallb (fun d => d <? radix) buf) eqn:Hf; cbn [negb]; [|reflexivity].
  rewrite (from_radix_core p buf (rev buf) radix S ltac:(lia) ltac:(discriminate) eq_refl
             (inb_of_forallb radix buf Hb Hf)).
  reflexivity.
Qed.

Theorem from_radix_be_spec p buf radix : radix_std p -> bytes buf ->
  from_radix_be k_mac k_from_bits k_from_inexact p buf radix
  = omap (option_map enc) (spec_from_radix_be buf radix).
Proof.
  intros S Hb. unfold from_radix_be, spec_from_radix_be, spec_from_radix_le, radix_in.
  rewrite (rs_dig_lo p S), (rs_dig_hi p S).
  destruct ((2 <=? radix) && (radix <=? 256)) eqn:Hr; cbn [assert_ bind omap]; [|reflexivity].
  apply andb_true_iff in Hr as [H1 H2]. apply Z.leb_le in H1, H2.
  destruct buf as [|b0 buf']; [reflexivity|].
  set (buf := b0 :: buf') in *.
  rewrite radix_guard_spec by (auto; lia). rewrite forallb_rev.
  destruct (forallb (fun d => d <? radix) buf) eqn:Hf; cbn [negb]; [|reflexivity].
  assert (Hn : rev buf <> []).
  { intros E. apply (f_equal (@rev Z)) in E. rewrite rev_involutive in E. discriminate. }
  rewrite (from_radix_core p (rev buf) buf radix S ltac:(lia) Hn (eq_sym (rev_involutive buf))
             (inb_rev _ _ (inb_of_forallb radix buf Hb Hf))).
  reflexivity.
Qed.

Lemma ifrom_aux s buf radix : bytes buf ->
  (do r <- omap (option_map enc) (spec_from_radix_le buf radix); Ret (option_map (from_biguint s) r))
  = omap (option_map ienc) (spec_ifrom_radix_le s buf radix).
Proof.
  intros Hb. unfold spec_ifrom_radix_le, spec_from_radix_le.
  destruct (radix_in 2 256 radix) eqn:Hr; [|reflexivity].
  unfold radix_in in Hr. apply andb_true_iff in Hr as [H1 H2]. apply Z.leb_le in H1, H2.
  destruct (forallb (fun d => d <? radix) buf) eqn:Hf; cbn [omap bind option_map]; [|reflexivity].
  do 2 f_equal. rewrite from_biguint_ienc by apply enc_canon. rewrite enc_val; [reflexivity|].
  pose proof (le_value_bound radix buf ltac:(lia) (inb_of_forallb radix buf Hb Hf)). lia.
Qed.

Theorem ifrom_radix_le_spec p s buf radix : radix_std p -> bytes buf ->
  ifrom_radix_le k_mac k_from_bits k_from_inexact p s buf radix
  = omap (option_map ienc) (spec_ifrom_radix_le s buf radix).
Proof.
  intros S Hb. unfold ifrom_radix_le. rewrite from_radix_le_spec by auto. apply ifrom_aux; auto.
Qed.
Theorem ifrom_radix_be_spec p s buf radix : radix_std p -> bytes buf ->
  ifrom_radix_be k_mac k_from_bits k_from_inexact p s buf radix
  = omap (option_map ienc) (spec_ifrom_radix_be s buf radix).
Proof.
  intros S Hb. unfold ifrom_radix_be. rewrite from_radix_be_spec by auto.
  unfold spec_from_radix_be, spec_ifrom_radix_be. apply ifrom_aux, bytes_rev; auto.
Qed.

End WithKernels.

(** * spec-level facts: the emitted digits are below the radix and denote the value *)
Lemma spec_to_radix_le_props n r : 2 <= r -> 0 <= n ->
  let l := spec_to_radix_le n r in
  l <> [] /\ inb r l /\ le_value r l = n.
Proof.
  intros Hr Hn. unfold spec_to_radix_le. destruct (Z.eqb_spec n 0) as [->|Hz].
  - cbn. split; [discriminate|]. split; [constructor; [lia|constructor]|lia].
  - destruct (le_digits_spec r n ltac:(lia) Hn) as (I & St & V).
    split; [|split; auto]. intros E. rewrite E in V. cbn in V. lia.
Qed.

Lemma forallb_lt_of_inb r l : inb r l -> forallb (fun d => d <? r) l = true.
Proof.
  intros H. apply forallb_forall. intros x Hx. unfold inb in H. rewrite Forall_forall in H.
  apply Z.ltb_lt. apply H; auto.
Qed.

(** from_radix_le (to_radix_le x r) r = Some x, at the level of the specifications *)
Theorem spec_radix_roundtrip_le n r : 2 <= r <= 256 -> 0 <= n ->
  spec_from_radix_le (spec_to_radix_le n r) r = Ret (Some n).
Proof.
  intros Hr Hn. destruct (spec_to_radix_le_props n r ltac:(lia) Hn) as (Hne & I & V).
  unfold spec_from_radix_le, radix_in.
  replace ((2 <=? r) && (r <=? 256)) with true
    by (symmetry; apply andb_true_iff; split; apply Z.leb_le; lia).
  rewrite forallb_lt_of_inb by auto. rewrite V. reflexivity.
Qed.
Theorem spec_radix_roundtrip_be n r : 2 <= r <= 256 -> 0 <= n ->
  spec_from_radix_be (spec_to_radix_be n r) r = Ret (Some n).
Proof.
  intros Hr Hn. unfold spec_from_radix_be, spec_to_radix_be. rewrite rev_involutive.
  apply spec_radix_roundtrip_le; auto.
Qed.
Lemma spec_to_radix_le_bytes n r : 2 <= r <= 256 -> 0 <= n -> bytes (spec_to_radix_le n r).
Proof.
  intros Hr Hn. destruct (spec_to_radix_le_props n r ltac:(lia) Hn) as (_ & I & _).
  unfold bytes, inb in *. rewrite Forall_forall in *. intros x Hx. specialize (I x Hx). lia.
Qed.
