(* MontyProofs.v — the Montgomery kernel of src/biguint/monty.rs (model/Monty.v):
   inv_mod_alt, add_mul_vvw, sub_vv, montgomery (almost-Montgomery multiplication) and
   the 4-bit-window exponentiation monty_modpow.  Generic in the source-extracted
   parameters [p] under [modpow_ok p = true]. *)
From BigNum Require Import Base BaseLemmas AddSub AddSubProofs ShiftCore ShiftCoreProofs Monty.
From Coq Require Import Znumtheory Zpow_facts.
Open Scope Z_scope.

(** ** What the theorems need from the extracted parameters *)
Definition arm_eqb (a b : bool * bool * (sign * bool)) : bool :=
  let '(a1, a2, (a3, a4)) := a in let '(b1, b2, (b3, b4)) := b in
  Bool.eqb a1 b1 && Bool.eqb a2 b2 && sign_eqb a3 b3 && Bool.eqb a4 b4.
Fixpoint arms_eqb (a b : list (bool * bool * (sign * bool))) : bool :=
  match a, b with
  | [], [] => true
  | x :: a', y :: b' => arm_eqb x y && arms_eqb a' b'
  | _, _ => false
  end.
Definition canon_arms : list (bool * bool * (sign * bool)) :=
  [(false, false, (Plus, false)); (true, false, (Plus, true));
   (false, true, (Minus, true)); (true, true, (Minus, false))].
Definition modpow_ok (p : modpow_params) : bool :=
  (mp_window p =? 4) && cmpop_eqb (mp_cx_cmp p) Clt && cmpop_eqb (mp_cy_cmp p) Clt
  && cmpop_eqb (mp_c_cmp p) Ceq && cmpop_eqb (mp_fin1_cmp p) Cge && cmpop_eqb (mp_fin2_cmp p) Cge
  && mp_odd_monty p && arms_eqb (mp_pow_arms p) canon_arms && arms_eqb (mp_inv_arms p) canon_arms
  && mp_inv_zero_guard p.

Lemma cmpop_eqb_eq a b : cmpop_eqb a b = true -> a = b.
Proof. destruct a, b; simpl; congruence. Qed.
Lemma arms_eqb_eq a : forall b, arms_eqb a b = true -> a = b.
Proof.
  induction a as [|[[a1 a2] [a3 a4]] a IH]; intros [|[[b1 b2] [b3 b4]] b]; simpl; try congruence.
  rewrite !andb_true_iff. intros [[[[H1 H2] H3] H4] H5].
  apply Bool.eqb_prop in H1, H2, H4. f_equal; [|auto].
  destruct a3, b3; simpl in H3; congruence.
Qed.

Lemma modpow_ok_inv p : modpow_ok p = true ->
  mp_window p = 4 /\ mp_cx_cmp p = Clt /\ mp_cy_cmp p = Clt /\ mp_c_cmp p = Ceq /\
  mp_fin1_cmp p = Cge /\ mp_fin2_cmp p = Cge /\ mp_odd_monty p = true /\
  mp_pow_arms p = canon_arms /\ mp_inv_arms p = canon_arms /\ mp_inv_zero_guard p = true.
Proof.
  unfold modpow_ok. rewrite !andb_true_iff.
  intros [[[[[[[[[H1 H2] H3] H4] H5] H6] H7] H8] H9] H10].
  apply Z.eqb_eq in H1. repeat split; auto using cmpop_eqb_eq, arms_eqb_eq.
Qed.

(** ** Digit primitives *)
Lemma mul_add_www_spec x y c : digit x -> digit y -> digit c ->
  let '(z1, z0) := mul_add_www x y c in
  digit z1 /\ digit z0 /\ z1 * B + z0 = x * y + c.
Proof.
  unfold mul_add_www, digit; intros Hx Hy Hc; pose proof B_pos.
  assert (Hz : 0 <= x * y + c < B * B) by nia.
  assert (Hq : 0 <= (x * y + c) / B < B).
  { split; [apply Z.div_pos; lia|apply Z.div_lt_upper_bound; lia]. }
  rewrite (Z.mod_small ((x * y + c) / B)) by lia.
  split; [lia|]. split; [apply Z.mod_pos_bound; lia|].
  pose proof (Z.div_mod (x * y + c) B); lia.
Qed.

Lemma add_ww_spec x y c : digit x -> digit y -> bit c ->
  let '(z1, z0) := add_ww x y c in
  bit z1 /\ digit z0 /\ z1 * B + z0 = x + y + c.
Proof.
  unfold add_ww, digit, bit; intros Hx Hy Hc; pose proof B_pos; pose proof B_gt1.
  set (yc := (y + c) mod B). set (z0 := (x + yc) mod B).
  assert (Hyc : 0 <= yc < B) by (apply Z.mod_pos_bound; lia).
  assert (Hz0 : 0 <= z0 < B) by (apply Z.mod_pos_bound; lia).
  destruct (Z.ltb_spec (y + c) B) as [Hs|Hs].
  - assert (Eyc : yc = y + c) by (apply Z.mod_small; lia).
    replace (yc <? y) with false by (symmetry; apply Z.ltb_ge; lia). rewrite orb_false_r.
    destruct (Z.ltb_spec (x + yc) B) as [Ht|Ht].
    + assert (Ez : z0 = x + yc) by (apply Z.mod_small; lia).
      replace (z0 <? x) with false by (symmetry; apply Z.ltb_ge; lia). lia.
    + assert (Ez : z0 = x + yc - B) by (symmetry; apply Z.mod_unique_pos with 1; lia).
      replace (z0 <? x) with true by (symmetry; apply Z.ltb_lt; lia). lia.
  - assert (Eyc : yc = 0) by (symmetry; apply Z.mod_unique_pos with 1; lia).
    replace (yc <? y) with true by (symmetry; apply Z.ltb_lt; lia). rewrite orb_true_r.
    assert (Ez : z0 = x) by (unfold z0; rewrite Eyc, Z.add_0_r; apply Z.mod_small; lia).
    lia.
Qed.

(** ** add_mul_vvw *)
Lemma add_mul_vvw_c_spec z : forall x y c, wf z -> wf x -> digit y -> digit c ->
  length z = length x ->
  exists z' c', add_mul_vvw_c z x y c = Ret (z', c') /\ wf z' /\ length z' = length z /\ digit c' /\
    val z' + B ^ Z.of_nat (length z) * c' = val z + val x * y + c.
Proof.
  induction z as [|zi z IH]; intros [|xi x] y c Hz Hx Hy Hc Hl; try discriminate.
  - exists [], c. cbn [add_mul_vvw_c length val Z.of_nat]. rewrite Z.pow_0_r.
    unfold digit in *. repeat split; auto; try apply wf_nil; lia.
  - apply wf_cons in Hz as [Hzi Hz], Hx as [Hxi Hx]. cbn [add_mul_vvw_c].
    pose proof (mul_add_www_spec xi y zi Hxi Hy Hzi) as Hm.
    destruct (mul_add_www xi y zi) as [z1 z0]. destruct Hm as (Hz1 & Hz0 & Em).
    pose proof (add_ww_spec z0 c 0 Hz0 Hc (or_introl eq_refl)) as Ha.
    destruct (add_ww z0 c 0) as [c_ zi_]. destruct Ha as (Hc_ & Hzi_ & Ea).
    assert (Hc' : digit (c_ + z1)).
    { unfold digit, bit in *. pose proof B_pos. nia. }
    replace (c_ + z1 <? B) with true by (symmetry; apply Z.ltb_lt; apply Hc').
    cbn [assert_ bind]. injection Hl as Hl.
    destruct (IH x y (c_ + z1) Hz Hx Hy Hc' Hl) as (zr & cr & E & Wr & Lr & Hcr & Vr).
    rewrite E. cbn [bind]. exists (zi_ :: zr), cr.
    split; [reflexivity|]. split; [apply wf_cons; auto|]. split; [cbn [length]; congruence|].
    split; [auto|].
    change (length (zi :: z)) with (S (length z)). rewrite B_pow_S, !val_cons. nia.
Qed.

Lemma add_mul_vvw_spec z x y : wf z -> wf x -> digit y -> length z = length x ->
  exists z' c', add_mul_vvw z x y = Ret (z', c') /\ wf z' /\ length z' = length z /\ digit c' /\
    val z' + B ^ Z.of_nat (length z) * c' = val z + val x * y.
Proof.
  intros Hz Hx Hy Hl. unfold add_mul_vvw.
  destruct (add_mul_vvw_c_spec z x y 0 Hz Hx Hy) as (z' & c' & E & H1 & H2 & H3 & H4); auto.
  { unfold digit; pose proof B_pos; lia. }
  exists z', c'. repeat split; auto; try apply H3. lia.
Qed.

(** ** sub_vv: the Hacker's Delight borrow formula *)
Lemma B_2_63 : B = 2 * 2 ^ 63. Proof. rewrite B_val; reflexivity. Qed.

Lemma top_bit a : 0 <= a < B -> a / 2 ^ 63 = Z.b2z (Z.testbit a 63).
Proof.
  intros Ha. rewrite Z.testbit_spec' by lia. rewrite Z.mod_small; [reflexivity|].
  rewrite B_2_63 in Ha. split; [apply Z.div_pos; lia|apply Z.div_lt_upper_bound; lia].
Qed.

Lemma top_decomp a : 0 <= a < B ->
  exists l, 0 <= l < 2 ^ 63 /\ a = Z.b2z (Z.testbit a 63) * 2 ^ 63 + l.
Proof.
  intros Ha. exists (a mod 2 ^ 63). rewrite <- top_bit by auto.
  split; [apply Z.mod_pos_bound; lia|]. pose proof (Z.div_mod a (2 ^ 63)); lia.
Qed.

Lemma lor_digit a b : digit a -> digit b -> digit (Z.lor a b).
Proof.
  unfold digit; intros Ha Hb. split; [apply Z.lor_nonneg; lia|].
  destruct (Z.eq_dec (Z.lor a b) 0) as [E|E]; [rewrite E; apply B_pos|].
  assert (Hp : 0 < Z.lor a b) by (pose proof (proj2 (Z.lor_nonneg a b) (conj (proj1 Ha) (proj1 Hb))); lia).
  rewrite B_val. change 18446744073709551616 with (2 ^ 64).
  apply Z.log2_lt_pow2; [auto|]. rewrite Z.log2_lor by lia.
  rewrite B_val in Ha, Hb. change 18446744073709551616 with (2 ^ 64) in Ha, Hb.
  apply Z.max_lub_lt.
  - destruct (Z.eq_dec a 0) as [->|]; [reflexivity|apply Z.log2_lt_pow2; lia].
  - destruct (Z.eq_dec b 0) as [->|]; [reflexivity|apply Z.log2_lt_pow2; lia].
Qed.

Lemma land_digit a b : digit a -> digit b -> digit (Z.land a b).
Proof.
  unfold digit; intros Ha Hb. split; [apply Z.land_nonneg; lia|].
  destruct (Z.eq_dec (Z.land a b) 0) as [E|E]; [rewrite E; apply B_pos|].
  assert (Hp : 0 < Z.land a b) by (pose proof (proj2 (Z.land_nonneg a b) (or_introl (proj1 Ha))); lia).
  assert (Na : a <> 0) by (intros ->; rewrite Z.land_0_l in E; lia).
  rewrite B_val. change 18446744073709551616 with (2 ^ 64).
  apply Z.log2_lt_pow2; [auto|]. pose proof (Z.log2_land a b (proj1 Ha) (proj1 Hb)) as Hl.
  rewrite B_val in Ha. change 18446744073709551616 with (2 ^ 64) in Ha.
  assert (Z.log2 a < 64) by (apply Z.log2_lt_pow2; lia). lia.
Qed.

Lemma lnot64_digit x : digit x -> digit (lnot64 x).
Proof. unfold digit, lnot64; lia. Qed.

Lemma lnot64_top x : digit x -> Z.testbit (lnot64 x) 63 = negb (Z.testbit x 63).
Proof.
  intros Hx. pose proof (lnot64_digit x Hx) as Hn. unfold digit in *.
  destruct (top_decomp x Hx) as (l & Hl & E). destruct (top_decomp _ Hn) as (l' & Hl' & E').
  unfold lnot64 in *. rewrite B_2_63 in *.
  destruct (Z.testbit x 63), (Z.testbit (2 * 2 ^ 63 - 1 - x) 63); cbn [Z.b2z negb] in *; auto; lia.
Qed.

Lemma hd_borrow x y c : digit x -> digit y -> bit c ->
  let z := ((x - y) mod B - c) mod B in
  digit z /\
  Z.lor (Z.land y (lnot64 x)) (Z.land (Z.lor y (lnot64 x)) z) / 2 ^ 63 = (if x - y - c <? 0 then 1 else 0) /\
  z = x - y - c + B * (if x - y - c <? 0 then 1 else 0).
Proof.
  intros Hx Hy Hc z. pose proof B_pos.
  assert (Ez : z = (x - y - c) mod B).
  { unfold z. rewrite Zminus_mod_idemp_l. reflexivity. }
  assert (Hz : digit z) by (unfold digit; rewrite Ez; apply Z.mod_pos_bound; lia).
  assert (Ez' : z = x - y - c + B * (if x - y - c <? 0 then 1 else 0)).
  { rewrite Ez. unfold digit, bit in *. destruct (Z.ltb_spec (x - y - c) 0).
    - symmetry; apply Z.mod_unique_pos with (-1); lia.
    - rewrite Z.mod_small; lia. }
  split; [auto|]. split; [|auto].
  pose proof (lnot64_digit x Hx) as Hnx.
  rewrite top_bit by (apply lor_digit; apply land_digit; auto using lor_digit).
  rewrite Z.lor_spec, !Z.land_spec, Z.lor_spec, lnot64_top by auto.
  destruct (top_decomp x Hx) as (xl & Hxl & Ex). destruct (top_decomp y Hy) as (yl & Hyl & Ey).
  destruct (top_decomp z Hz) as (zl & Hzl & Ez2).
  unfold digit, bit in *. rewrite B_2_63 in *.
  destruct (Z.testbit x 63), (Z.testbit y 63), (Z.testbit z 63); cbn [Z.b2z negb andb orb] in *;
    destruct (Z.ltb_spec (x - y - c) 0); try reflexivity; exfalso; lia.
Qed.

Lemma sub_vv_c_spec z : forall x y c, wf x -> wf y -> bit c ->
  length z = length x -> length x = length y ->
  let '(z', c') := sub_vv_c z x y c in
  wf z' /\ length z' = length x /\ bit c' /\
  val z' - B ^ Z.of_nat (length x) * c' = val x - val y - c.
Proof.
  induction z as [|z0 z IH]; intros [|xi x] [|yi y] c Hx Hy Hc L1 L2; try discriminate.
  - cbn [sub_vv_c length val Z.of_nat]. rewrite Z.pow_0_r. repeat split; auto; try apply wf_nil; lia.
  - apply wf_cons in Hx as [Hxi Hx], Hy as [Hyi Hy]. cbn [sub_vv_c].
    destruct (hd_borrow xi yi c Hxi Hyi Hc) as (Hd & Eb & Ez). cbv zeta in Eb, Ez.
    rewrite Eb. set (zi := ((xi - yi) mod B - c) mod B) in *.
    set (c1 := if xi - yi - c <? 0 then 1 else 0) in *.
    assert (Hc1 : bit c1) by (unfold c1, bit; destruct (xi - yi - c <? 0); auto).
    injection L1 as L1. injection L2 as L2.
    specialize (IH x y c1 Hx Hy Hc1 L1 L2).
    destruct (sub_vv_c z x y c1) as [zr cr]. destruct IH as (Wr & Lr & Hcr & Vr).
    split; [apply wf_cons; auto|]. split; [cbn [length]; congruence|]. split; [auto|].
    change (length (xi :: x)) with (S (length x)). rewrite B_pow_S, !val_cons. nia.
Qed.

(** ** inv_mod_alt: k = -b^-1 mod 2^64 *)
Lemma land_1 b : Z.land b 1 = b mod 2.
Proof. change 1 with (Z.ones 1) at 1. rewrite Z.land_ones by lia. reflexivity. Qed.

Section InvModAlt.
Variable b : Z.
Definition NInv (e t k0 : Z) : Prop :=
  0 <= t < B /\ (exists q, t = 2 ^ e * q) /\ (exists j, k0 * b = 1 - t * t + B * j).

Lemma inv_loop_step f i t k0 e : i < 64 -> 1 <= e -> 2 * e <= 64 -> NInv e t k0 ->
  exists t' k0', inv_loop (S f) i t k0 = inv_loop f (2 * i) t' k0' /\ NInv (2 * e) t' k0'.
Proof.
  intros Hi He He2 (Ht & (q & Eq) & (j & Ej)). pose proof B_pos.
  set (t' := (t * t) mod B). set (k0' := (k0 * (t' + 1)) mod B).
  assert (Ht' : 0 <= t' < B) by (apply Z.mod_pos_bound; lia).
  assert (Et' : t' = t * t - B * (t * t / B)) by (unfold t'; rewrite Z.mod_eq; lia).
  assert (Ek' : k0' = k0 * (t' + 1) - B * (k0 * (t' + 1) / B)) by (unfold k0'; rewrite Z.mod_eq; lia).
  assert (EB : B = 2 ^ (2 * e) * 2 ^ (64 - 2 * e)).
  { rewrite <- Z.pow_add_r by lia. replace (2 * e + (64 - 2 * e)) with 64 by lia. apply B_val. }
  assert (E2e : 2 ^ (2 * e) = 2 ^ e * 2 ^ e) by (rewrite <- Z.pow_add_r by lia; f_equal; lia).
  assert (Hq' : exists q', t' = 2 ^ (2 * e) * q').
  { exists (q * q - 2 ^ (64 - 2 * e) * (t * t / B)). rewrite Et', Eq at 1.
    rewrite EB at 1. rewrite E2e. subst t. ring. }
  exists t', k0'. split.
  - cbn [inv_loop]. replace (i <? 64) with true by (symmetry; apply Z.ltb_lt; lia).
    fold t'. replace (t' + 1 <? B) with true; [reflexivity|].
    symmetry; apply Z.ltb_lt. destruct Hq' as (q' & Eq').
    assert (E2 : 2 ^ (2 * e) = 2 * 2 ^ (2 * e - 1)).
    { rewrite <- Z.pow_succ_r by lia. f_equal; lia. }
    rewrite E2 in Eq'. rewrite B_2_63 in *. lia.
  - split; [auto|]. split; [auto|].
    exists ((j - t * t / B) * (t' + 1) - (k0 * (t' + 1) / B) * b).
    rewrite Ek'. set (j1 := k0 * (t' + 1) / B) in *. set (j2 := t * t / B) in *.
    replace ((k0 * (t' + 1) - B * j1) * b) with ((k0 * b) * (t' + 1) - B * j1 * b) by ring.
    rewrite Ej. replace (t * t) with (t' + B * j2) by lia. ring.
Qed.
End InvModAlt.

Theorem inv_mod_alt_spec b : digit b -> Z.odd b = true ->
  exists k, inv_mod_alt b = Ret k /\ digit k /\ (k * b) mod B = B - 1.
Proof.
  intros Hb Hodd. unfold digit in Hb. pose proof B_pos. pose proof B_gt1.
  assert (Hb2 : b mod 2 = 1) by (rewrite Zmod_odd, Hodd; reflexivity).
  unfold inv_mod_alt. rewrite land_1, Hb2. cbn [Z.eqb negb assert_ bind].
  replace (1 <=? b) with true by (symmetry; apply Z.leb_le; lia). cbn [assert_ bind].
  assert (HI0 : NInv b 1 (b - 1) ((2 - b) mod B)).
  { split; [lia|]. split.
    - exists ((b - 1) / 2). change (2 ^ 1) with 2. pose proof (Z.div_mod b 2). 
      assert ((b - 1) mod 2 = 0) by (rewrite Zminus_mod, Hb2; reflexivity).
      pose proof (Z.div_mod (b - 1) 2). lia.
    - exists (- ((2 - b) / B) * b). rewrite Z.mod_eq by lia. ring. }
  destruct (inv_loop_step b 7 1 _ _ 1 ltac:(lia) ltac:(lia) ltac:(lia) HI0) as (t1 & k1 & E1 & H1).
  destruct (inv_loop_step b 6 (2 * 1) _ _ (2 * 1) ltac:(lia) ltac:(lia) ltac:(lia) H1) as (t2 & k2 & E2 & H2).
  destruct (inv_loop_step b 5 (2 * (2 * 1)) _ _ (2 * (2 * 1)) ltac:(lia) ltac:(lia) ltac:(lia) H2) as (t3 & k3 & E3 & H3).
  destruct (inv_loop_step b 4 (2 * (2 * (2 * 1))) _ _ (2 * (2 * (2 * 1))) ltac:(lia) ltac:(lia) ltac:(lia) H3) as (t4 & k4 & E4 & H4).
  destruct (inv_loop_step b 3 (2 * (2 * (2 * (2 * 1)))) _ _ (2 * (2 * (2 * (2 * 1)))) ltac:(lia) ltac:(lia) ltac:(lia) H4) as (t5 & k5 & E5 & H5).
  destruct (inv_loop_step b 2 (2 * (2 * (2 * (2 * (2 * 1))))) _ _ (2 * (2 * (2 * (2 * (2 * 1))))) ltac:(lia) ltac:(lia) ltac:(lia) H5) as (t6 & k6 & E6 & H6).
  rewrite E1, E2, E3, E4, E5, E6. cbn [inv_loop Z.mul Pos.mul Z.ltb Z.compare Pos.compare Pos.compare_cont bind].
  destruct H6 as (Ht6 & (q & Eq) & (j & Ej)).
  change (2 ^ (2 * (2 * (2 * (2 * (2 * (2 * 1))))))) with (2 ^ 64) in Eq.
  assert (Ht0 : t6 = 0).
  { rewrite B_val in Ht6. change 18446744073709551616 with (2 ^ 64) in Ht6. nia. }
  clear Eq. rewrite Ht0 in Ej. assert (Ek : (k6 * b) mod B = 1).
  { rewrite Ej. replace (1 - 0 * 0 + B * j) with (1 + j * B) by ring. rewrite Z.mod_add by lia.
    apply Z.mod_small; lia. }
  rewrite Ek. cbn [Z.eqb Pos.eqb assert_ bind].
  exists ((- k6) mod B). split; [reflexivity|]. split; [apply Z.mod_pos_bound; lia|].
  rewrite Z.mul_mod_idemp_l by lia. replace (- k6 * b) with (- (k6 * b)) by ring.
  rewrite Ej. replace (- (1 - 0 * 0 + B * j)) with (B - 1 + (- j - 1) * B) by ring.
  rewrite Z.mod_add by lia. apply Z.mod_small; lia.
Qed.

(** ** montgomery: the row loop *)
Lemma firstn_len_app (l r : list Z) k : k = length l -> firstn k (l ++ r) = l.
Proof. intros ->. induction l; cbn [length firstn app]; [destruct r; reflexivity|f_equal; auto]. Qed.
Lemma skipn_len_app (l r : list Z) k : k = length l -> skipn k (l ++ r) = r.
Proof. intros ->. induction l; cbn [length skipn app]; auto. Qed.
Lemma zeros_S k : zeros (S k) = 0 :: zeros k. Proof. reflexivity. Qed.
Lemma zeros_snoc k l : zeros k ++ 0 :: l = zeros (S k) ++ l.
Proof. induction k; cbn [zeros repeat app] in *; [reflexivity|f_equal; auto]. Qed.

Lemma carry_pair c c2 c3 : bit c -> digit c2 -> digit c3 ->
  let cx := (c + c2) mod B in let cy := (cx + c3) mod B in
  let c' := if (cx <? c2) || (cy <? c3) then 1 else 0 in
  bit c' /\ digit cy /\ c' * B + cy = c + c2 + c3.
Proof.
  intros Hc H2 H3 cx cy c'. unfold c'; clear c'. unfold bit, digit in *. pose proof B_pos. pose proof B_gt1.
  assert (Hcx : 0 <= cx < B) by (apply Z.mod_pos_bound; lia).
  assert (Hcy : 0 <= cy < B) by (apply Z.mod_pos_bound; lia).
  destruct (Z.ltb_spec (c + c2) B) as [Hs|Hs].
  - assert (Ecx : cx = c + c2) by (apply Z.mod_small; lia).
    replace (cx <? c2) with false by (symmetry; apply Z.ltb_ge; lia). cbn [orb].
    destruct (Z.ltb_spec (cx + c3) B) as [Ht|Ht].
    + assert (Ecy : cy = cx + c3) by (apply Z.mod_small; lia).
      replace (cy <? c3) with false by (symmetry; apply Z.ltb_ge; lia). lia.
    + assert (Ecy : cy = cx + c3 - B) by (symmetry; apply Z.mod_unique_pos with 1; lia).
      replace (cy <? c3) with true by (symmetry; apply Z.ltb_lt; lia). lia.
  - assert (Ecx : cx = 0) by (symmetry; apply Z.mod_unique_pos with 1; lia).
    replace (cx <? c2) with true by (symmetry; apply Z.ltb_lt; lia). cbn [orb].
    assert (Ecy : cy = c3) by (unfold cy; rewrite Ecx; apply Z.mod_small; lia). lia.
Qed.

Lemma val_mod_B l : val l mod B = hd 0 l mod B.
Proof.
  destruct l as [|d l]; [reflexivity|]. rewrite val_cons. cbn [hd].
  rewrite Z.mul_comm, Z.mod_add by (pose proof B_pos; lia). reflexivity.
Qed.

Section Rows.
Variable p : modpow_params.
Hypothesis Hp : modpow_ok p = true.
Variables (x m : list Z) (k : Z) (n : nat).
Hypothesis Wx : wf x.
Hypothesis Wm : wf m.
Hypothesis Lx : length x = n.
Hypothesis Lm : length m = n.
Hypothesis Hk : digit k.
Hypothesis Hkm : (k * hd 0 m) mod B = B - 1.

Lemma mont_rows_spec : forall ys i win c Yi T,
  wf ys -> (i + length ys = n)%nat -> length win = n -> wf win -> bit c ->
  (val win + c * B ^ Z.of_nat n) * B ^ Z.of_nat i = val x * Yi + T * val m -> 0 <= T < B ^ Z.of_nat i ->
  exists win' c' T',
    mont_rows p x m k n ys i (zeros i ++ win ++ zeros (n - i)) c = Ret (zeros n ++ win' ++ zeros (n - n), c') /\
    length win' = n /\ wf win' /\ bit c' /\
    (val win' + c' * B ^ Z.of_nat n) * B ^ Z.of_nat n = val x * (Yi + B ^ Z.of_nat i * val ys) + T' * val m /\
    0 <= T' < B ^ Z.of_nat n.
Proof.
  destruct (modpow_ok_inv p Hp) as (_ & Ecx & Ecy & _).
  induction ys as [|yi ys IH]; intros i win c Yi T Wy Hi Lw Ww Hc Hinv HT.
  - cbn [length] in Hi. assert (i = n) by lia. subst i. exists win, c, T.
    cbn [mont_rows val]. repeat split; auto; try lia; rewrite Hinv; ring.
  - apply wf_cons in Wy as [Hyi Wy]. cbn [length] in Hi. cbn [mont_rows].
    assert (Lz : length (zeros i) = i) by apply length_zeros.
    rewrite (firstn_len_app (zeros i)) by auto.
    rewrite (skipn_len_app (zeros i)) by auto.
    rewrite (firstn_len_app win) by auto.
    replace (skipn (n + i) (zeros i ++ win ++ zeros (n - i))) with (zeros (n - i)).
    2:{ rewrite app_assoc. symmetry. apply skipn_len_app. rewrite app_length; lia. }
    destruct (add_mul_vvw_spec win x yi Ww Wx Hyi ltac:(lia)) as (win1 & c2 & E2 & W1 & L1 & Hc2 & V1).
    rewrite E2. cbn [bind].
    destruct win1 as [|w0 w1t]; [cbn [length] in L1; lia|]. cbn [bind].
    set (t := (w0 * k) mod B).
    assert (Ht : digit t) by (apply Z.mod_pos_bound, B_pos).
    destruct (add_mul_vvw_spec (w0 :: w1t) m t W1 Wm Ht ltac:(lia)) as (win2 & c3 & E3 & W2 & L2 & Hc3 & V2).
    rewrite E3. cbn [bind].
    replace (n - i)%nat with (S (n - S i)) by lia. rewrite zeros_S. cbn [bind].
    rewrite Ecx, Ecy. cbn [cmp_eval].
    pose proof (carry_pair c c2 c3 Hc Hc2 Hc3) as Hcp. cbv zeta in Hcp.
    set (cx := (c + c2) mod B) in *. set (cy := (cx + c3) mod B) in *.
    set (c' := if (cx <? c2) || (cy <? c3) then 1 else 0) in *.
    destruct Hcp as (Hc' & Hcy & Ecar).
    (* the low digit of win2 is zero *)
    destruct win2 as [|v0 w2t]; [cbn [length] in L2; lia|].
    apply wf_cons in W2 as [Hv0 W2t]. pose proof B_pos as HB.
    assert (Ev0 : v0 = 0).
    { assert (Hmod : (val (v0 :: w2t) + B ^ Z.of_nat (length (w0 :: w1t)) * c3) mod B = (val (w0 :: w1t) + val m * t) mod B)
        by (rewrite V2; reflexivity).
      replace (length (w0 :: w1t)) with (S (length w1t)) in Hmod by reflexivity.
      rewrite B_pow_S in Hmod.
      replace (val (v0 :: w2t) + B * B ^ Z.of_nat (length w1t) * c3)
        with (val (v0 :: w2t) + (B ^ Z.of_nat (length w1t) * c3) * B) in Hmod by ring.
      rewrite Z.mod_add in Hmod by lia. rewrite val_mod_B in Hmod. cbn [hd] in Hmod.
      rewrite Z.add_mod, Z.mul_mod, !val_mod_B in Hmod by lia. cbn [hd] in Hmod.
      unfold t in Hmod. rewrite Z.mod_mod in Hmod by lia.
      rewrite <- Z.mul_mod, <- Z.add_mod in Hmod by lia.
      assert (Ek : exists j, k * hd 0 m = B - 1 + B * j).
      { exists (k * hd 0 m / B). rewrite <- Hkm. rewrite Z.mod_eq by lia. ring. }
      destruct Ek as (j & Ej).
      replace (w0 + hd 0 m * (w0 * k)) with (w0 * (1 + k * hd 0 m)) in Hmod by ring.
      rewrite Ej in Hmod. replace (w0 * (1 + (B - 1 + B * j))) with (0 + (w0 * (1 + j)) * B) in Hmod by ring.
      rewrite Z.mod_add, Z.mod_0_l in Hmod by lia.
      unfold digit in Hv0. rewrite Z.mod_small in Hmod by lia. exact Hmod. }
    subst v0.
    replace (zeros i ++ (0 :: w2t) ++ cy :: zeros (n - S i))
      with (zeros (S i) ++ (w2t ++ [cy]) ++ zeros (n - S i)).
    2:{ rewrite <- zeros_snoc. cbn [app]. rewrite <- !app_assoc. reflexivity. }
    cbn [length] in L1, L2.
    assert (Lw' : length (w2t ++ [cy]) = n) by (rewrite app_length; cbn [length]; lia).
    assert (Ww' : wf (w2t ++ [cy])) by (apply wf_app; split; [auto|apply wf_cons; split; [auto|apply wf_nil]]).
    assert (Vw' : val (w2t ++ [cy]) = val w2t + B ^ Z.of_nat (length w2t) * cy).
    { rewrite val_app, val_single. reflexivity. }
    assert (EBn : B ^ Z.of_nat n = B * B ^ Z.of_nat (length w2t)).
    { replace n with (S (length w2t)) by lia. apply B_pow_S. }
    assert (Hstep : (val (w2t ++ [cy]) + c' * B ^ Z.of_nat n) * B =
                    val win + c * B ^ Z.of_nat n + val x * yi + val m * t).
    { rewrite Vw'. rewrite val_cons in V2.
      replace (length (w0 :: w1t)) with n in V2 by (cbn [length]; lia).
      replace (length win) with n in V1 by lia.
      set (Bn := B ^ Z.of_nat n) in *. set (Bn1 := B ^ Z.of_nat (length w2t)) in *.
      set (vw := val win) in *. set (vx := val x) in *. set (vm := val m) in *.
      set (v1 := val (w0 :: w1t)) in *. set (v2 := val w2t) in *.
      replace ((v2 + Bn1 * cy + c' * Bn) * B) with (B * v2 + Bn * (c' * B + cy)) by (rewrite EBn; ring).
      rewrite Ecar. lia. }
    destruct (IH (S i) (w2t ++ [cy]) c' (Yi + B ^ Z.of_nat i * yi) (T + t * B ^ Z.of_nat i))
      as (win' & cf & T' & E & Lf & Wf & Hcf & Vf & HT'); auto; try lia.
    { rewrite B_pow_S.
      replace ((val (w2t ++ [cy]) + c' * B ^ Z.of_nat n) * (B * B ^ Z.of_nat i))
        with (((val (w2t ++ [cy]) + c' * B ^ Z.of_nat n) * B) * B ^ Z.of_nat i) by ring.
      rewrite Hstep.
      replace ((val win + c * B ^ Z.of_nat n + val x * yi + val m * t) * B ^ Z.of_nat i)
        with ((val win + c * B ^ Z.of_nat n) * B ^ Z.of_nat i + (val x * yi + val m * t) * B ^ Z.of_nat i) by ring.
      rewrite Hinv. ring. }
    { rewrite B_pow_S. unfold digit in Ht. pose proof (B_pow_nat i). nia. }
    exists win', cf, T'. split; [exact E|]. repeat split; auto; try lia.
    rewrite Vf, val_cons, B_pow_S. ring.
Qed.
End Rows.

(** ** montgomery: almost-Montgomery multiplication.
    For operands of exactly [n] digits (so [< B^n]) the result has exactly [n] digits
    (so [< B^n]: no further bound is needed), no internal assertion fires, and
    [r * B^n = x * y + T * m] for some integer [T], i.e. [r ≡ x*y*B^-n (mod m)]. *)
Theorem montgomery_spec p x y m k n : modpow_ok p = true ->
  wf x -> wf y -> wf m -> length x = n -> length y = n -> length m = n ->
  digit k -> (k * hd 0 m) mod B = B - 1 ->
  exists r, montgomery p x y m k n = Ret r /\ wf r /\ length r = n /\
    exists T, val r * B ^ Z.of_nat n = val x * val y + T * val m.
Proof.
  intros Hp Wx Wy Wm Lx Ly Lm Hk Hkm. destruct (modpow_ok_inv p Hp) as (_ & _ & _ & Ec & _).
  unfold montgomery. rewrite Lx, Ly, Lm, Nat.eqb_refl. cbn [andb assert_ bind].
  assert (Ez : zeros (2 * n) = zeros 0 ++ zeros n ++ zeros (n - 0)).
  { cbn [zeros repeat app]. unfold zeros. rewrite <- repeat_app. f_equal. lia. }
  rewrite Ez.
  destruct (mont_rows_spec p Hp x m k n Wx Wm Lx Lm Hkm y 0%nat (zeros n) 0 0 0)
    as (win' & c' & T' & E & Lw & Ww & Hc' & V & HT'); auto.
  { apply length_zeros. } { apply wf_zeros. } { left; reflexivity. }
  { rewrite val_zeros. ring. } { cbn; lia. }
  rewrite E. cbn [bind]. rewrite Ec. cbn [cmp_eval].
  replace (n - n)%nat with 0%nat by lia. cbn [zeros repeat]. rewrite app_nil_r.
  rewrite (skipn_len_app (zeros n)) by (symmetry; apply length_zeros).
  rewrite (firstn_len_app (zeros n)) by (symmetry; apply length_zeros).
  cbn [Z.of_nat] in V. rewrite Z.pow_0_r in V.
  destruct Hc' as [-> | ->].
  - cbn [Z.eqb]. exists win'. repeat split; auto. exists T'. lia.
  - cbn [Z.eqb]. unfold sub_vv.
    pose proof (sub_vv_c_spec (zeros n) win' m 0 Ww Wm (or_introl eq_refl)) as Hs.
    rewrite length_zeros in Hs. specialize (Hs (eq_sym Lw) (eq_trans Lw (eq_sym Lm))).
    destruct (sub_vv_c (zeros n) win' m 0) as [z'' c'']. destruct Hs as (Wz & Lz & Hc'' & Vz).
    exists z''. split; [reflexivity|]. split; [auto|]. split; [lia|].
    rewrite Lw in Vz. pose proof (val_bound z'' Wz) as Bz. rewrite Lz, Lw in Bz.
    pose proof (val_bound x Wx) as Bx. pose proof (val_bound y Wy) as By. pose proof (val_bound m Wm) as Bm.
    rewrite Lx in Bx. rewrite Ly in By. rewrite Lm in Bm.
    pose proof (val_bound win' Ww) as Bw. rewrite Lw in Bw.
    set (Bn := B ^ Z.of_nat n) in *. pose proof (B_pow_nat n) as HBn. fold Bn in HBn.
    assert (Hlt : val win' < val m).
    { assert ((val win' + 1 * Bn) * Bn < (Bn + val m) * Bn); [|nia].
      rewrite V. replace (0 + 1 * val y) with (val y) by ring.
      assert (val x * val y <= Bn * Bn) by nia.
      assert (T' * val m < Bn * val m \/ val m = 0) by nia. nia. }
    assert (c'' = 1) by (destruct Hc'' as [-> | ->]; [exfalso; lia|reflexivity]). subst c''.
    exists (T' - Bn). replace (val z'') with (val win' + 1 * Bn - val m) by lia.
    replace ((val win' + 1 * Bn - val m) * Bn) with ((val win' + 1 * Bn) * Bn - val m * Bn) by ring.
    rewrite V. ring.
Qed.

(** ** monty_modpow: helpers *)
Lemma odd_gcd_pow2 M j : Z.odd M = true -> 0 <= j -> Z.gcd M (2 ^ j) = 1.
Proof.
  intros Ho Hj. apply Zgcd_1_rel_prime. apply rel_prime_Zpower_r; [auto|].
  apply rel_prime_sym. apply prime_rel_prime; [apply prime_2|].
  intros [q Eq]. rewrite Eq, Z.odd_mul in Ho. cbn in Ho. rewrite andb_false_r in Ho. discriminate.
Qed.

Lemma mod_cancel M R r s : 0 < M -> Z.gcd M R = 1 ->
  (r * R) mod M = (s * R) mod M -> r mod M = s mod M.
Proof.
  intros HM Hg E.
  assert (D : (M | R * (r - s))).
  { apply Z.mod_divide; [lia|]. replace (R * (r - s)) with (r * R - s * R) by ring.
    rewrite Zminus_mod, E, Z.sub_diag. apply Z.mod_0_l; lia. }
  apply Z.gauss in D; [|auto]. destruct D as [q Eq].
  replace r with (s + q * M) by lia. apply Z.mod_add; lia.
Qed.

Lemma val_odd l : Z.odd (val l) = Z.odd (hd 0 l).
Proof.
  destruct l as [|d l]; [reflexivity|]. rewrite val_cons. cbn [hd].
  rewrite Z.odd_add, Z.odd_mul. rewrite B_val. cbn [Z.odd andb]. apply xorb_false_r.
Qed.

Lemma length_enc_le_pow v k : 0 <= v < B ^ Z.of_nat k -> (length (enc v) <= k)%nat.
Proof.
  intros Hv. destruct (enc v) as [|d l] eqn:E; [cbn; lia|].
  pose proof (enc_canon v) as Hc. rewrite E in Hc.
  pose proof (canon_lower _ Hc ltac:(discriminate)) as Hl.
  rewrite <- E, enc_val in Hl by lia. rewrite E in Hl.
  destruct (le_lt_dec (length (d :: l)) k) as [|Hgt]; [auto|exfalso].
  assert (B ^ Z.of_nat k <= B ^ (Z.of_nat (length (d :: l)) - 1)).
  { apply Z.pow_le_mono_r; [apply B_pos|lia]. }
  lia.
Qed.

Lemma resize_spec l n : wf l -> (length l <= n)%nat ->
  wf (resize l n) /\ length (resize l n) = n /\ val (resize l n) = val l.
Proof.
  intros Wl Hl. unfold resize. rewrite firstn_all2 by lia.
  split; [apply wf_app; split; [auto|apply wf_zeros]|].
  split; [rewrite app_length, length_zeros; lia|].
  rewrite val_app, val_zeros. ring.
Qed.

Lemma B_pow_2pow n : B ^ Z.of_nat n = 2 ^ (64 * Z.of_nat n).
Proof. rewrite Z.pow_mul_r by lia. rewrite B_val. reflexivity. Qed.

(** window arithmetic: one 4-bit step of a 64-bit digit held in the top bits *)
Lemma window_step yi s : 0 <= yi < B -> 1 <= s <= 16 ->
  yi / 2 ^ (64 - 4 * s) =
  (yi / 2 ^ 60) * 2 ^ (4 * (s - 1)) + ((yi * 2 ^ 4) mod B) / 2 ^ (64 - 4 * (s - 1)).
Proof.
  intros Hy Hs. set (a := 64 - 4 * s).
  assert (E60 : 2 ^ 60 = 2 ^ (4 * (s - 1)) * 2 ^ a).
  { rewrite <- Z.pow_add_r by lia. f_equal; lia. }
  assert (EB : B = 2 ^ 60 * 2 ^ 4) by (rewrite B_val; reflexivity).
  assert (E2 : (yi * 2 ^ 4) mod B = (yi mod 2 ^ 60) * 2 ^ 4).
  { rewrite EB. apply Z.mul_mod_distr_r; lia. }
  rewrite E2. replace (64 - 4 * (s - 1)) with (a + 4) by lia.
  rewrite Z.pow_add_r by lia. rewrite Z.div_mul_cancel_r by lia.
  rewrite (Z.div_mod yi (2 ^ 60)) at 1 by lia.
  rewrite E60 at 1. replace (2 ^ (4 * (s - 1)) * 2 ^ a * (yi / 2 ^ 60) + yi mod 2 ^ 60)
    with ((yi / 2 ^ 60 * 2 ^ (4 * (s - 1))) * 2 ^ a + yi mod 2 ^ 60) by ring.
  rewrite Z.div_add_l by lia. reflexivity.
Qed.

Lemma fold_rev_val y : fold_left (fun E d => E * B + d) (rev y) 0 = val y.
Proof.
  induction y as [|d y IH]; [reflexivity|].
  cbn [rev]. rewrite fold_left_app. cbn [fold_left]. rewrite IH, val_cons. ring.
Qed.

(** ** monty_modpow *)
Section MontyModpow.
Variable p : modpow_params.
Hypothesis Hp : modpow_ok p = true.
Variables (m : list Z) (k : Z).
Let nw := length m.
Let M := val m.
Let R := B ^ Z.of_nat nw.
Hypothesis Wm : wf m.
Hypothesis HM : 0 < M.
Hypothesis HoddM : Z.odd M = true.
Hypothesis Hk : digit k.
Hypothesis Hkm : (k * hd 0 m) mod B = B - 1.

Definition mrep (v : list Z) (a : Z) : Prop :=
  wf v /\ length v = nw /\ val v mod M = (a * R) mod M.

Lemma gcd_M_R : Z.gcd M R = 1.
Proof. unfold R. rewrite B_pow_2pow. apply odd_gcd_pow2; [auto|lia]. Qed.

Lemma mont_cong u v : wf u -> wf v -> length u = nw -> length v = nw ->
  exists r, montgomery p u v m k nw = Ret r /\ wf r /\ length r = nw /\
    (val r * R) mod M = (val u * val v) mod M.
Proof.
  intros Wu Wv Lu Lv.
  destruct (montgomery_spec p u v m k nw Hp Wu Wv Wm Lu Lv eq_refl Hk Hkm) as (r & E & Wr & Lr & T & ET).
  exists r. repeat split; auto. fold R in ET. rewrite ET. fold M. apply Z.mod_add; lia.
Qed.

Lemma mont_mrep u v a b : mrep u a -> mrep v b ->
  exists r, montgomery p u v m k nw = Ret r /\ mrep r (a * b).
Proof.
  intros (Wu & Lu & Vu) (Wv & Lv & Vv).
  destruct (mont_cong u v Wu Wv Lu Lv) as (r & E & Wr & Lr & Vr).
  exists r. split; [auto|]. split; [auto|]. split; [auto|].
  apply mod_cancel with R; [auto|apply gcd_M_R|]. rewrite Vr.
  rewrite Z.mul_mod, Vu, Vv, <- Z.mul_mod by lia. f_equal. ring.
Qed.

Lemma mrep_ext v a a' : mrep v a -> a mod M = a' mod M -> mrep v a'.
Proof.
  intros (W & L & V) E. repeat split; auto. rewrite V.
  rewrite Z.mul_mod, E, <- Z.mul_mod by lia. reflexivity.
Qed.

(** the table of powers *)
Lemma pow_table_spec X p1 : 0 <= X -> mrep p1 X -> forall cnt prev j, 1 <= j -> mrep prev (X ^ j) ->
  exists rest, pow_table p cnt m k nw prev p1 = Ret rest /\ length rest = cnt /\
    forall i, (i < cnt)%nat -> mrep (nth i rest []) (X ^ (j + 1 + Z.of_nat i)).
Proof.
  intros HX H1. induction cnt as [|cnt IH]; intros prev j Hj Hprev.
  - exists []. cbn [pow_table length]. split; [reflexivity|]. split; [reflexivity|]. intros i0 Hi; lia.
  - cbn [pow_table]. destruct (mont_mrep prev p1 _ _ Hprev H1) as (r & E & Hr). rewrite E. cbn [bind].
    assert (Hr' : mrep r (X ^ (j + 1))).
    { eapply mrep_ext; [exact Hr|]. rewrite Z.pow_add_r, Z.pow_1_r by lia. reflexivity. }
    destruct (IH r (j + 1) ltac:(lia) Hr') as (rest & E2 & L2 & N2). rewrite E2. cbn [bind].
    exists (r :: rest). split; [reflexivity|]. split; [cbn [length]; lia|].
    intros [|i0] Hi; cbn [nth].
    + replace (j + 1 + Z.of_nat 0) with (j + 1) by lia. exact Hr'.
    + replace (j + 1 + Z.of_nat (S i0)) with (j + 1 + 1 + Z.of_nat i0) by lia. apply N2. lia.
Qed.

Section Loops.
Variable X : Z.
Hypothesis HX : 0 <= X.
Variable powers : list (list Z).
Hypothesis Hpowers : forall i, 0 <= i < 16 ->
  exists q, nth_error powers (Z.to_nat i) = Some q /\ mrep q (X ^ i).

Lemma sq4 z e : 0 <= e -> mrep z (X ^ e) ->
  exists z4,
    (do zz <- montgomery p z z m k nw;
     do z1 <- montgomery p zz zz m k nw;
     do zz2 <- montgomery p z1 z1 m k nw;
     montgomery p zz2 zz2 m k nw) = Ret z4 /\ mrep z4 (X ^ (16 * e)).
Proof.
  intros He H0.
  destruct (mont_mrep z z _ _ H0 H0) as (z1 & E1 & H1). rewrite E1. cbn [bind].
  destruct (mont_mrep z1 z1 _ _ H1 H1) as (z2 & E2 & H2). rewrite E2. cbn [bind].
  destruct (mont_mrep z2 z2 _ _ H2 H2) as (z3 & E3 & H3). rewrite E3. cbn [bind].
  destruct (mont_mrep z3 z3 _ _ H3 H3) as (z4 & E4 & H4). rewrite E4.
  exists z4. split; [reflexivity|]. eapply mrep_ext; [exact H4|]. f_equal.
  rewrite <- !Z.pow_add_r by lia. f_equal. lia.
Qed.

Lemma win_loop_spec : forall (s : nat) fuel first yi z e,
  (s <= 16)%nat -> (s < fuel)%nat -> 0 <= yi < B -> 0 <= e -> mrep z (X ^ e) ->
  (first = true -> s = 16%nat -> e = 0) ->
  exists z', win_loop p fuel powers m k nw first yi (64 - 4 * Z.of_nat s) z = Ret z' /\
    mrep z' (X ^ (e * 2 ^ (4 * Z.of_nat s) + yi / 2 ^ (64 - 4 * Z.of_nat s))).
Proof.
  destruct (modpow_ok_inv p Hp) as (Ew & _).
  induction s as [|s IH]; intros fuel first yi z e Hs Hf Hyi He Hz Hfirst.
  - destruct fuel as [|fuel]; [lia|]. cbn [win_loop]. cbn [Z.of_nat Z.mul Z.sub Z.ltb Z.compare Pos.compare Pos.compare_cont Z.opp Z.add].
    exists z. split; [reflexivity|]. eapply mrep_ext; [exact Hz|]. f_equal. f_equal.
    change (2 ^ 0) with 1. change (2 ^ 64) with 18446744073709551616. rewrite <- B_val.
    rewrite Z.div_small by lia. ring.
  - destruct fuel as [|fuel]; [lia|]. cbn [win_loop].
    set (j := 64 - 4 * Z.of_nat (S s)).
    replace (j <? 64) with true by (symmetry; apply Z.ltb_lt; unfold j; lia).
    rewrite Ew.
    assert (Hz4 : exists z4, (if negb first || negb (j =? 0)
              then do zz <- montgomery p z z m k nw;
                   do z0 <- montgomery p zz zz m k nw;
                   do zz0 <- montgomery p z0 z0 m k nw; montgomery p zz0 zz0 m k nw
              else Ret z) = Ret z4 /\ mrep z4 (X ^ (16 * e))).
    { destruct (negb first || negb (j =? 0)) eqn:Ec.
      - apply sq4; auto.
      - apply orb_false_iff in Ec as [E1 E2]. apply negb_false_iff in E1, E2.
        apply Z.eqb_eq in E2. exists z. split; [reflexivity|].
        rewrite Hfirst by (auto; unfold j in E2; lia). exact (eq_ind _ (fun t => mrep z (X ^ t)) Hz _ (Hfirst E1 ltac:(unfold j in E2; lia))). }
    destruct Hz4 as (z4 & E4 & H4). rewrite E4. cbn [bind].
    change (64 - 4) with 60. change ((0 <=? 4) && (4 <=? 64) && (0 <? 60)) with true. cbn [assert_ bind].
    assert (Hidx : 0 <= yi / 2 ^ 60 < 16).
    { split; [apply Z.div_pos; lia|]. apply Z.div_lt_upper_bound; [lia|]. rewrite B_val in Hyi. lia. }
    destruct (Hpowers _ Hidx) as (q & Eq & Hq). rewrite Eq. cbn [bind].
    destruct (mont_mrep z4 q _ _ H4 Hq) as (zz & Ez & Hzz). rewrite Ez. cbn [bind].
    replace (j + 4) with (64 - 4 * Z.of_nat s) by (unfold j; lia).
    assert (Hs1 : (s <= 16)%nat) by lia. assert (Hs2 : (s < fuel)%nat) by lia.
    assert (Hy' : 0 <= (yi * 2 ^ 4) mod B < B) by (apply Z.mod_pos_bound, B_pos).
    set (idx := yi / 2 ^ 60) in *.
    assert (He' : 0 <= 16 * e + idx) by lia.
    assert (Hzz' : mrep zz (X ^ (16 * e + idx))).
    { eapply mrep_ext; [exact Hzz|]. rewrite Z.pow_add_r by lia. reflexivity. }
    assert (Hf' : first = true -> s = 16%nat -> 16 * e + idx = 0) by (intros _ Hs16; exfalso; lia).
    destruct (IH fuel first ((yi * 2 ^ 4) mod B) zz (16 * e + idx) Hs1 Hs2 Hy' He' Hzz' Hf') as (z' & E' & H').
    exists z'. split; [exact E'|]. eapply mrep_ext; [exact H'|]. f_equal. f_equal.
    unfold j. rewrite (window_step yi (Z.of_nat (S s))) by lia. fold idx.
    replace (Z.of_nat (S s) - 1) with (Z.of_nat s) by lia.
    replace (4 * Z.of_nat (S s)) with (4 * Z.of_nat s + 4) by lia.
    rewrite Z.pow_add_r by lia. change (2 ^ 4) with 16. ring.
Qed.

Lemma exp_loop_spec : forall ys first z E, wf ys -> 0 <= E -> mrep z (X ^ E) ->
  (first = true -> E = 0) ->
  exists z', exp_loop p powers m k nw first ys z = Ret z' /\
    mrep z' (X ^ (fold_left (fun E d => E * B + d) ys E)).
Proof.
  induction ys as [|yi ys IH]; intros first z E Wy HE Hz Hfirst.
  - exists z. split; [reflexivity|exact Hz].
  - apply wf_cons in Wy as [Hyi Wy]. cbn [exp_loop fold_left].
    destruct (win_loop_spec 16 66 first yi z E) as (z1 & E1 & H1); auto; try lia.
    change (64 - 4 * Z.of_nat 16) with 0 in E1, H1. rewrite E1. cbn [bind].
    change (2 ^ 0) with 1 in H1. rewrite Z.div_1_r in H1.
    change (2 ^ (4 * Z.of_nat 16)) with 18446744073709551616 in H1. rewrite <- B_val in H1.
    unfold digit in Hyi.
    destruct (IH false z1 (E * B + yi) Wy ltac:(pose proof B_pos; nia) H1 ltac:(discriminate)) as (z' & E' & H').
    exists z'. split; auto.
Qed.
End Loops.
End MontyModpow.

(** ** monty_modpow, top level *)
Section MontyTop.
Variable ap : addsub_params.
Variable bdivrem : list Z -> list Z -> outcome (list Z * list Z).
Hypothesis Hap : addsub_ok ap = true.
Hypothesis Hdivrem : forall a b, canon a -> canon b ->
  bdivrem a b = if val b =? 0 then Panic DivZero
                else Ret (enc (val a / val b), enc (val a mod val b)).
Lemma brem_spec a m : canon a -> canon m -> val m <> 0 ->
  brem bdivrem a m = Ret (enc (val a mod val m)).
Proof.
  intros Ha Hm Hz. unfold brem. rewrite Hdivrem by auto.
  replace (val m =? 0) with false by (symmetry; apply Z.eqb_neq; auto). reflexivity.
Qed.
Variable p : modpow_params.
Hypothesis Hp : modpow_ok p = true.

Theorem monty_modpow_spec x y m : canon x -> canon y -> canon m ->
  Z.odd (val m) = true -> Z.of_nat (length m) < 2 ^ 57 ->
  monty_modpow ap bdivrem p x y m = Ret (enc (val x ^ val y mod val m)).
Proof.
  intros Cx Cy Cm Hodd Hlen. destruct (modpow_ok_inv p Hp) as (Ew & _ & _ & _ & Ef1 & Ef2 & _).
  pose proof B_pos as HB. pose proof B_gt1 as HB1.
  destruct Cx as [Wx Sx]. destruct Cy as [Wy Sy]. pose proof Cm as [Wm Sm].
  assert (HM : 0 < val m).
  { pose proof (val_nonneg m Wm). destruct (Z.eq_dec (val m) 0) as [E|]; [rewrite E in Hodd; discriminate|lia]. }
  unfold monty_modpow. destruct m as [|m0 m'] eqn:Em; [cbn in HM; lia|]. rewrite <- Em in *.
  cbn [bind]. assert (Hm0 : digit m0) by (rewrite Em in Wm; apply wf_cons in Wm; tauto).
  assert (Hodd0 : Z.odd m0 = true) by (rewrite val_odd, Em in Hodd; exact Hodd).
  rewrite land_1, Zmod_odd, Hodd0. cbn [Z.eqb Pos.eqb assert_ bind].
  destruct (inv_mod_alt_spec m0 Hm0 Hodd0) as (k & Ek & Hk & Hkm). rewrite Ek. cbn [bind].
  assert (Hkm' : (k * hd 0 m) mod B = B - 1) by (rewrite Em; exact Hkm).
  set (nw := length m) in *. set (M := val m) in *. set (R := B ^ Z.of_nat nw).
  assert (Hnw : (1 <= nw)%nat) by (unfold nw; rewrite Em; cbn [length]; lia).
  assert (HMR : M < R) by (apply val_bound; auto).
  (* x reduced and padded *)
  assert (Hx1 : exists x1, (if (nw <? length x)%nat then brem bdivrem x m else Ret x) = Ret x1 /\
                 wf x1 /\ (length x1 <= nw)%nat /\ val x1 mod M = val x mod M).
  { destruct (Nat.ltb_spec nw (length x)).
    - rewrite (brem_spec) by (try split; auto; lia). eexists; split; [reflexivity|].
      split; [apply enc_wf|]. pose proof (Z.mod_pos_bound (val x) M HM).
      split; [apply length_enc_le_pow; fold R; lia|]. rewrite enc_val by lia. apply Z.mod_mod; lia.
    - exists x. repeat split; auto. }
  destruct Hx1 as (x1 & Ex1 & Wx1 & Lx1 & Vx1). rewrite Ex1. cbn [bind].
  set (x2 := if (length x1 <? nw)%nat then resize x1 nw else x1).
  assert (Hx2 : wf x2 /\ length x2 = nw /\ val x2 = val x1).
  { unfold x2. destruct (Nat.ltb_spec (length x1) nw); [apply resize_spec; auto; lia|].
    repeat split; auto; lia. }
  destruct Hx2 as (Wx2 & Lx2 & Vx2).
  replace (2 * Z.of_nat nw * 64 <? B) with true
    by (symmetry; apply Z.ltb_lt; rewrite B_val; fold nw in Hlen; lia).
  cbn [assert_ bind].
  (* rr *)
  assert (W1l : wf [1]) by (apply wf_cons; split; [unfold digit; lia|apply wf_nil]).
  rewrite ushl_spec by (auto; lia).
  rewrite (brem_spec) by (try apply enc_canon; auto; lia).
  rewrite val_single, Z.mul_1_l. rewrite enc_val by (apply Z.pow_nonneg; lia).
  assert (ER2 : 2 ^ (2 * Z.of_nat nw * 64) = R * R).
  { unfold R. rewrite B_pow_2pow, <- Z.pow_add_r by lia. f_equal; lia. }
  rewrite ER2. cbn [bind]. fold M.
  set (rr1 := enc ((R * R) mod M)).
  set (rr := if (length rr1 <? nw)%nat then resize rr1 nw else rr1).
  assert (Hrr : wf rr /\ length rr = nw /\ val rr = (R * R) mod M).
  { pose proof (Z.mod_pos_bound (R * R) M HM) as Hb.
    assert (Wr : wf rr1) by apply enc_wf.
    assert (Lr : (length rr1 <= nw)%nat) by (apply length_enc_le_pow; fold R; lia).
    assert (Vr : val rr1 = (R * R) mod M) by (apply enc_val; lia).
    unfold rr. destruct (Nat.ltb_spec (length rr1) nw).
    - destruct (resize_spec rr1 nw Wr Lr) as (A1 & A2 & A3). repeat split; auto; congruence.
    - repeat split; auto; lia. }
  destruct Hrr as (Wrr & Lrr & Vrr).
  assert (Hone : wf (resize [1] nw) /\ length (resize [1] nw) = nw /\ val (resize [1] nw) = 1).
  { destruct (resize_spec [1] nw) as (A1 & A2 & A3); [exact W1l|cbn [length]; lia|].
    rewrite val_single in A3. auto. }
  destruct Hone as (Wone & Lone & Vone). set (one := resize [1] nw) in *.
  rewrite Ew. change ((0 <=? 4) && (4 <? 64)) with true. cbn [assert_ bind].
  change (Z.to_nat (2 ^ 4 - 2)) with 14%nat.
  (* instantiate the representation lemmas *)
  pose proof (mont_cong p Hp m k Wm HM Hk Hkm') as Hcong. fold nw M R in Hcong.
  pose proof (mont_mrep p Hp m k Wm HM Hodd Hk Hkm') as Hmul. fold nw M R in Hmul.
  pose proof (gcd_M_R m k Hodd Hkm') as Hgcd. fold nw M R in Hgcd.
  set (X := val x) in *. assert (HX : 0 <= X) by (apply val_nonneg; auto).
  (* powers[0], powers[1] *)
  destruct (Hcong one rr Wone Wrr Lone Lrr) as (p0 & E0 & W0 & L0 & V0). rewrite E0. cbn [bind].
  assert (H0 : mrep m p0 (X ^ 0)).
  { split; [auto|]. split; [auto|]. fold M nw R. apply mod_cancel with R; auto.
    rewrite V0, Vone, Vrr, Z.mul_1_l, Z.mod_mod by lia. f_equal. rewrite Z.pow_0_r. ring. }
  destruct (Hcong x2 rr Wx2 Wrr Lx2 Lrr) as (p1 & E1 & W1 & L1 & V1). rewrite E1. cbn [bind].
  assert (H1 : mrep m p1 X).
  { split; [auto|]. split; [auto|]. fold M nw R. apply mod_cancel with R; auto.
    rewrite V1, Vx2, Vrr. rewrite Z.mul_mod_idemp_r by lia.
    rewrite Z.mul_mod, Vx1, <- Z.mul_mod by lia. f_equal. ring. }
  destruct (pow_table_spec p Hp m k Wm HM Hodd Hk Hkm' X p1 HX H1 14 p1 1 ltac:(lia))
    as (rest & Er & Lr & Nr).
  { rewrite Z.pow_1_r. exact H1. }
  fold nw in Er. rewrite Er. cbn [bind].
  assert (Hpowers : forall i, 0 <= i < 16 ->
            exists q, nth_error (p0 :: p1 :: rest) (Z.to_nat i) = Some q /\ mrep m q (X ^ i)).
  { intros i Hi. destruct (Z.eq_dec i 0) as [->|N0]; [exists p0; split; [reflexivity|exact H0]|].
    destruct (Z.eq_dec i 1) as [->|N1]; [exists p1; split; [reflexivity|rewrite Z.pow_1_r; exact H1]|].
    replace (Z.to_nat i) with (S (S (Z.to_nat (i - 2)))) by lia. cbn [nth_error].
    exists (nth (Z.to_nat (i - 2)) rest []). split.
    - apply nth_error_nth'. lia.
    - replace i with (1 + 1 + Z.of_nat (Z.to_nat (i - 2))) at 2 by lia. apply Nr. lia. }
  (* z = powers[0] resized *)
  assert (Ez : resize p0 nw = p0).
  { unfold resize. rewrite firstn_all2 by lia. rewrite L0, Nat.sub_diag. apply app_nil_r. }
  rewrite Ez.
  destruct (exp_loop_spec p Hp m k Wm HM Hodd Hk Hkm' X HX (p0 :: p1 :: rest) Hpowers (rev y) true p0 0)
    as (z' & Ez' & Hz'); auto; try lia.
  { apply wf_rev; auto. }
  fold nw in Ez'. rewrite Ez'. cbn [bind]. rewrite fold_rev_val in Hz'.
  destruct Hz' as (Wz' & Lz' & Vz'). fold nw M R in Lz', Vz'.
  destruct (Hcong z' one Wz' Wone Lz' Lone) as (zz & Ezz & Wzz & Lzz & Vzz). rewrite Ezz. cbn [bind].
  assert (Vzz' : val zz mod M = (X ^ val y) mod M).
  { apply mod_cancel with R; auto. rewrite Vzz, Vone, Z.mul_1_r. exact Vz'. }
  (* final reduction *)
  set (zs := strip zz). assert (Czs : canon zs) by (apply canon_strip; auto).
  assert (Vzs : val zs = val zz) by apply val_strip.
  assert (Hzs : 0 <= val zs) by (apply val_nonneg, Czs).
  rewrite cmp_slice_spec by auto. cbn [bind]. rewrite Ef1, Ef2. fold M.
  set (res := X ^ val y mod M). assert (Hres : 0 <= res < M) by (apply Z.mod_pos_bound; lia).
  assert (Sid : forall l, canon l -> strip l = l) by (intros l [_ E]; exact E).
  destruct (Z.compare_spec (val zs) M) as [Hc|Hc|Hc]; cbn [ordz cmp_eval Z.geb Z.compare].
  - (* zs = m *)
    rewrite usub_spec by (auto; apply Czs). replace (val zs <? val m) with false by (symmetry; apply Z.ltb_ge; fold M; lia).
    cbn [bind]. rewrite cmp_slice_spec by (auto using enc_canon).
    rewrite enc_val by (fold M; lia). fold M. rewrite Hc, Z.sub_diag.
    replace (0 ?= M) with Lt by (symmetry; apply Z.compare_lt_iff; lia). cbn [bind ordz cmp_eval Z.geb Z.compare].
    unfold res. rewrite <- Vzz', <- Vzs, Hc, Z.mod_same by lia. reflexivity.
  - (* zs < m *)
    rewrite Sid by auto. f_equal. rewrite <- (enc_of_canon zs Czs). f_equal.
    unfold res. rewrite <- Vzz', <- Vzs. symmetry. apply Z.mod_small. lia.
  - (* zs > m *)
    rewrite usub_spec by (auto; apply Czs). replace (val zs <? val m) with false by (symmetry; apply Z.ltb_ge; fold M; lia).
    cbn [bind]. rewrite cmp_slice_spec by (auto using enc_canon).
    rewrite enc_val by (fold M; lia). fold M.
    assert (Er' : (val zs - M) mod M = res).
    { unfold res. rewrite <- Vzz', <- Vzs. replace (val zs - M) with (val zs + (-1) * M) by ring.
      apply Z.mod_add. lia. }
    destruct (Z.compare_spec (val zs - M) M) as [Hd|Hd|Hd]; cbn [bind ordz cmp_eval Z.geb Z.compare].
    + rewrite (brem_spec) by (auto using enc_canon; fold M; lia). cbn [bind].
      rewrite Sid by apply enc_canon. rewrite enc_val by lia. fold M. rewrite Er'. reflexivity.
    + rewrite Sid by apply enc_canon. f_equal. f_equal. rewrite <- Er'. symmetry. apply Z.mod_small. lia.
    + rewrite (brem_spec) by (auto using enc_canon; fold M; lia). cbn [bind].
      rewrite Sid by apply enc_canon. rewrite enc_val by lia. fold M. rewrite Er'. reflexivity.
Qed.
End MontyTop.
