(* MulProofs4.v — C02, part 4: Toom-3 (evaluation, Bodrato interpolation, recomposition),
   given a recursive multiply-accumulate that is correct for smaller operands. *)
From BigNum Require Import Base BaseLemmas X86 AddSub AddSubProofs ShiftCore ShiftCoreProofs
  Mul MulProofs MulProofs2 MulProofs3.
Open Scope Z_scope.

(** * Slices *)
Lemma skipn_skipn' {A} a : forall b (l : list A), skipn a (skipn b l) = skipn (b + a) l.
Proof.
  intros b; induction b as [|b IH]; intros l; [reflexivity|].
  destruct l; [rewrite !skipn_nil; reflexivity|]. cbn [skipn Nat.add]. apply IH.
Qed.

Lemma firstn_min {A} i (l : list A) : firstn (Nat.min (length l) i) l = firstn i l.
Proof.
  destruct (Nat.le_ge_cases (length l) i) as [H|H].
  - rewrite Nat.min_l by auto. rewrite !firstn_all2; auto.
  - rewrite Nat.min_r by auto. reflexivity.
Qed.
Lemma skipn_min {A} i (l : list A) : skipn (Nat.min (length l) i) l = skipn i l.
Proof.
  destruct (Nat.le_ge_cases (length l) i) as [H|H].
  - rewrite Nat.min_l by auto. rewrite !skipn_all2; auto.
  - rewrite Nat.min_r by auto. reflexivity.
Qed.

Lemma val_split_pad i l : wf l ->
  val l = val (firstn i l) + B ^ Z.of_nat i * val (skipn i l) /\ 0 <= val (firstn i l) < B ^ Z.of_nat i.
Proof.
  intros Wl. destruct (Nat.le_ge_cases i (length l)) as [H|H].
  - apply val_skipn; auto.
  - rewrite firstn_all2, skipn_all2 by auto. rewrite val_nil. split; [lia|].
    pose proof (val_bound l Wl). assert (B ^ Z.of_nat (length l) <= B ^ Z.of_nat i) by (apply pow_le_mono; lia). lia.
Qed.

(** the three parts of an operand, as the Rust slices them *)
Lemma toom_slices i (x : list Z) :
  let x0_len := Nat.min (length x) i in
  let x1_len := Nat.min (length x - x0_len) i in
  firstn x0_len x = firstn i x /\
  firstn x1_len (skipn x0_len x) = firstn i (skipn i x) /\
  skipn (x0_len + x1_len) x = skipn (i + i) x.
Proof.
  cbv zeta. split; [apply firstn_min|].
  assert (E : (length x - Nat.min (length x) i = length (skipn i x))%nat) by (rewrite skipn_length; lia).
  rewrite E. split.
  - rewrite skipn_min. apply firstn_min.
  - rewrite <- skipn_skipn', skipn_min, skipn_min. apply skipn_skipn'.
Qed.

(** * BigInt add / sub on encodings *)
Lemma iadd_ienc ap a b : addsub_ok ap = true -> iadd ap (ienc a) (ienc b) = Ret (ienc (a + b)).
Proof. intros H. rewrite iadd_spec by (auto using ienc_canon). rewrite !ienc_val. reflexivity. Qed.
Lemma isub_ienc ap a b : addsub_ok ap = true -> isub ap (ienc a) (ienc b) = Ret (ienc (a - b)).
Proof. intros H. rewrite isub_spec by (auto using ienc_canon). rewrite !ienc_val. reflexivity. Qed.

(** * Evaluation *)
Lemma toom3_eval_spec p x y : mul_ok p = true -> wf x -> wf y ->
  (toom_i p y <= length y)%nat ->
  let i := toom_i p y in
  let X0 := val (firstn i x) in let X1 := val (firstn i (skipn i x)) in let X2 := val (skipn (i + i) x) in
  let Y0 := val (firstn i y) in let Y1 := val (firstn i (skipn i y)) in let Y2 := val (skipn (i + i) y) in
  toom3_eval p x y =
    Ret [(ienc X0, ienc Y0); (ienc X2, ienc Y2);
         (ienc (X0 + X2 + X1), ienc (Y0 + Y2 + Y1));
         (ienc (X0 + X2 - X1), ienc (Y0 + Y2 - Y1));
         (ienc (2 * (X0 + X2 - X1 + X2) - X0), ienc (2 * (Y0 + Y2 - Y1 + Y2) - Y0))].
Proof.
  intros Hp Wx Wy Hi. cbv zeta.
  pose proof (mul_ok_inv p Hp) as (Hap & _).
  unfold toom3_eval.
  replace (toom_i p y <=? length y)%nat with true by (symmetry; apply Nat.leb_le; auto).
  cbn [assert_ bind].
  destruct (toom_slices (toom_i p y) x) as (Ex0 & Ex1 & Ex2). cbv zeta in Ex0, Ex1, Ex2.
  rewrite Ex0, Ex1, Ex2.
  assert (Ey1 : firstn (Nat.min (length y - toom_i p y) (toom_i p y)) (skipn (toom_i p y) y)
                = firstn (toom_i p y) (skipn (toom_i p y) y)).
  { rewrite <- (skipn_length (toom_i p y) y). apply firstn_min. }
  assert (Ey2 : skipn (toom_i p y + Nat.min (length y - toom_i p y) (toom_i p y)) y
                = skipn (toom_i p y + toom_i p y) y).
  { rewrite <- (skipn_length (toom_i p y) y), <- skipn_skipn', skipn_min. apply skipn_skipn'. }
  rewrite Ey1, Ey2.
  rewrite !bigint_from_slice_spec by auto using wf_firstn, wf_skipn.
  repeat first [rewrite iadd_ienc by exact Hap | rewrite isub_ienc by exact Hap
               | rewrite imul_small_2_spec | progress cbn [bind]].
  reflexivity.
Qed.

(** * Interpolation (Bodrato) *)
Lemma toom3_interp_spec ap w0 w1 w2 w3 w4 : addsub_ok ap = true ->
  toom3_interp ap (ienc w0) (ienc w4)
    (ienc (w0 + w1 + w2 + w3 + w4)) (ienc (w0 - w1 + w2 - w3 + w4))
    (ienc (w0 - 2 * w1 + 4 * w2 - 8 * w3 + 16 * w4))
  = Ret [ienc w0; ienc w1; ienc w2; ienc w3; ienc w4].
Proof.
  intros Hap. unfold toom3_interp.
  rewrite isub_ienc by auto. cbn [bind].
  replace (w0 - 2 * w1 + 4 * w2 - 8 * w3 + 16 * w4 - (w0 + w1 + w2 + w3 + w4))
    with (3 * (- w1 + w2 - 3 * w3 + 5 * w4)) by ring.
  rewrite idiv_small_3_spec. cbn [bind].
  rewrite isub_ienc by auto. cbn [bind].
  replace (w0 + w1 + w2 + w3 + w4 - (w0 - w1 + w2 - w3 + w4)) with (2 * (w1 + w3)) by ring.
  rewrite ishr1_even_spec. cbn [bind].
  rewrite isub_ienc by auto. cbn [bind].
  rewrite isub_ienc by auto. cbn [bind].
  replace (w0 - w1 + w2 - w3 + w4 - w0 - (- w1 + w2 - 3 * w3 + 5 * w4)) with (2 * (w3 - 2 * w4)) by ring.
  rewrite ishr1_even_spec. cbn [bind].
  rewrite ishl1_spec. rewrite iadd_ienc by auto. cbn [bind].
  rewrite isub_ienc by auto. cbn [bind].
  rewrite iadd_ienc by auto. cbn [bind].
  rewrite isub_ienc by auto. cbn [bind].
  repeat f_equal; ring.
Qed.

(** * Recomposition *)
Fixpoint wsum (i : nat) (l : list (nat * Z)) : Z :=
  match l with
  | [] => 0
  | (j, z) :: r => B ^ Z.of_nat (i * j) * z + wsum i r
  end.

Lemma wsum_nonneg i l : Forall (fun jz => 0 <= snd jz) l -> 0 <= wsum i l.
Proof.
  induction 1 as [|[j z] l Hz _ IH]; cbn [wsum]; [lia|]. cbn [snd] in Hz.
  pose proof (B_pow_nat (i * j)). nia.
Qed.

Lemma recompose_spec ap i : addsub_ok ap = true -> forall l acc, wf acc ->
  Forall (fun jz => 0 <= snd jz) l -> val acc + wsum i l < B ^ lenZ acc ->
  exists r, toom3_recompose ap i acc (map (fun jz => (fst jz, ienc (snd jz))) l) = Ret r /\
            adds acc r (wsum i l).
Proof.
  intros Hap. induction l as [|[j z] l IH]; intros acc Wa Hall Hlt.
  - cbn. exists acc; split; auto. apply adds_refl; auto.
  - inversion Hall as [|? ? Hz Hall']; subst. cbn [snd] in Hz.
    cbn [map fst snd toom3_recompose wsum] in *.
    pose proof (wsum_nonneg i l Hall') as Hs. pose proof (B_pow_nat (i * j)) as HP.
    pose proof (val_nonneg acc Wa) as Ha0.
    assert (Hstep : exists acc1,
              match sg (ienc z) with
              | Plus => on_slice (i * j) 215 acc (fun s => add2 ap s (mag (ienc z)))
              | Minus => on_slice (i * j) 216 acc (fun s => sub2 ap s (mag (ienc z)))
              | NoSign => Ret acc
              end = Ret acc1 /\ adds acc acc1 (B ^ Z.of_nat (i * j) * z)).
    { destruct z as [|q|q]; [| |lia].
      - exists acc; split; auto. rewrite Z.mul_0_r. apply adds_refl; auto.
      - cbn [ienc sg mag z_sign Z.abs].
        assert (Hz1 : B ^ Z.of_nat (i * j) * Z.pos q < B ^ lenZ acc) by lia.
        assert (Hij : Z.of_nat (i * j) < lenZ acc).
        { destruct (Z.lt_ge_cases (Z.of_nat (i * j)) (lenZ acc)) as [|Hge]; auto.
          pose proof (pow_le_mono (lenZ acc) (Z.of_nat (i * j)) ltac:(pose proof (lenZ_nonneg acc); lia)). nia. }
        assert (Hlen : lenZ (enc (Z.pos q)) <= lenZ acc - Z.of_nat (i * j)).
        { apply length_enc_bound; [|lia]. split; [lia|].
          replace (lenZ acc) with (Z.of_nat (i * j) + (lenZ acc - Z.of_nat (i * j))) in Hz1 by lia.
          rewrite Z.pow_add_r in Hz1 by lia.
          set (Q := B ^ (lenZ acc - Z.of_nat (i * j))) in *. nia. }
        destruct (on_slice_add2 ap (i * j) 215 acc (enc (Z.pos q)) Hap Wa (enc_wf _)) as (a1 & E1 & H1).
        { unfold lenZ in *. lia. }
        { rewrite enc_val by lia. lia. }
        exists a1; split; auto. rewrite enc_val in H1 by lia. exact H1. }
    destruct Hstep as (acc1 & E1 & W1 & L1 & V1). rewrite E1. cbn [bind].
    destruct (IH acc1 W1 Hall') as (r & Er & Wr & Lr & Vr).
    { unfold lenZ. rewrite L1. fold (lenZ acc). lia. }
    exists r; split; auto. repeat split; auto; lia.
Qed.

(** * Toom-3 *)
Lemma mag_len a k : Z.abs a < B ^ Z.of_nat k -> (length (mag (ienc a)) <= k)%nat.
Proof.
  intros H. cbn [ienc mag].
  pose proof (length_enc_bound (Z.abs a) (Z.of_nat k) ltac:(pose proof (Z.abs_nonneg a); lia) ltac:(lia)) as Hl.
  unfold lenZ in Hl. lia.
Qed.

Lemma imul_with_ienc rec p n a b ka kb : mul_ok p = true -> rec_ok rec n ->
  Z.abs a < B ^ Z.of_nat ka -> Z.abs b < B ^ Z.of_nat kb -> (ka + kb < n)%nat ->
  imul_with rec p (ienc a) (ienc b) = Ret (ienc (a * b)).
Proof.
  intros Hp Hrec Ha Hb Hn.
  rewrite (imul_with_spec rec p n) by (auto using ienc_canon; apply mag_len in Ha; apply mag_len in Hb; lia).
  rewrite !ienc_val. reflexivity.
Qed.

Lemma pow_nat_mul i k : B ^ Z.of_nat (i * k) = (B ^ Z.of_nat i) ^ Z.of_nat k.
Proof. rewrite Nat2Z.inj_mul, Z.pow_mul_r by lia. reflexivity. Qed.

(** bounds of the five evaluation points *)
Lemma toom_point_bounds T X0 X1 X2 : 0 <= X0 < T -> 0 <= X1 < T -> 0 <= X2 < T ->
  Z.abs X0 < B * T /\ Z.abs X2 < B * T /\ Z.abs (X0 + X2 + X1) < B * T /\
  Z.abs (X0 + X2 - X1) < B * T /\ Z.abs (2 * (X0 + X2 - X1 + X2) - X0) < B * T.
Proof. intros H0 H1 H2. pose proof B_val. repeat split; nia. Qed.

(** the product of two quadratic polynomials with non-negative coefficients *)
Lemma toom_coeffs_nonneg X0 X1 X2 Y0 Y1 Y2 : 0 <= X0 -> 0 <= X1 -> 0 <= X2 -> 0 <= Y0 -> 0 <= Y1 -> 0 <= Y2 ->
  0 <= X0 * Y0 /\ 0 <= X0 * Y1 + X1 * Y0 /\ 0 <= X0 * Y2 + X1 * Y1 + X2 * Y0 /\
  0 <= X1 * Y2 + X2 * Y1 /\ 0 <= X2 * Y2.
Proof. intros. repeat split; nia. Qed.

Theorem toom3_spec rec p acc x y : mul_ok p = true -> rec_ok rec (length x + length y) ->
  wf acc -> wf x -> wf y -> (4 <= length x <= length y)%nat -> room acc x y ->
  exists r, toom3 rec p acc x y = Ret r /\ adds acc r (val x * val y).
Proof.
  intros Hp Hrec Wa Wx Wy Hxy Hr.
  pose proof (mul_ok_inv p Hp) as (Hap & _ & _ & _ & _ & _ & _ & _ & _ & _ & _ & Htd & Hte & _).
  assert (Hi : (toom_i p y <= length y /\ length y < 3 * toom_i p y
                /\ S (toom_i p y) + S (toom_i p y) < length x + length y)%nat).
  { unfold toom_i, lenZ. rewrite Htd, Hte. lia. }
  destruct Hi as (Hi1 & Hi2 & Hi3).
  unfold toom3. rewrite toom3_eval_spec by auto. cbn [bind]. cbv zeta.
  unfold toom3_finish.
  remember (toom_i p y) as i eqn:Ei. clear Ei Htd Hte.
  (* the six parts *)
  destruct (val_split_pad i x Wx) as [Hvx Hx0].
  destruct (val_split_pad i (skipn i x) (wf_skipn i x Wx)) as [Hvx' Hx1].
  destruct (val_split_pad i y Wy) as [Hvy Hy0].
  destruct (val_split_pad i (skipn i y) (wf_skipn i y Wy)) as [Hvy' Hy1].
  rewrite !skipn_skipn' in Hvx', Hvy'.
  assert (Hx2 : 0 <= val (skipn (i + i) x) < B ^ Z.of_nat i).
  { pose proof (val_bound _ (wf_skipn (i + i) x Wx)) as Hb. rewrite skipn_length in Hb.
    assert (B ^ Z.of_nat (length x - (i + i)) <= B ^ Z.of_nat i) by (apply pow_le_mono; lia). lia. }
  assert (Hy2 : 0 <= val (skipn (i + i) y) < B ^ Z.of_nat i).
  { pose proof (val_bound _ (wf_skipn (i + i) y Wy)) as Hb. rewrite skipn_length in Hb.
    assert (B ^ Z.of_nat (length y - (i + i)) <= B ^ Z.of_nat i) by (apply pow_le_mono; lia). lia. }
  remember (val (firstn i x)) as X0. remember (val (firstn i (skipn i x))) as X1.
  remember (val (skipn (i + i) x)) as X2.
  remember (val (firstn i y)) as Y0. remember (val (firstn i (skipn i y))) as Y1.
  remember (val (skipn (i + i) y)) as Y2.
  remember (B ^ Z.of_nat i) as T eqn:ET.
  assert (HBT : B ^ Z.of_nat (S i) = B * T) by (rewrite B_pow_S, ET; reflexivity).
  destruct (toom_point_bounds T X0 X1 X2 Hx0 Hx1 Hx2) as (Ax0 & Ax2 & Ax3 & Ax4 & Ax5).
  destruct (toom_point_bounds T Y0 Y1 Y2 Hy0 Hy1 Hy2) as (Ay0 & Ay2 & Ay3 & Ay4 & Ay5).
  rewrite <- HBT in Ax0, Ax2, Ax3, Ax4, Ax5, Ay0, Ay2, Ay3, Ay4, Ay5.
  (* the five products *)
  cbn [mapM fst snd].
  rewrite (imul_with_ienc rec p _ X0 Y0 (S i) (S i) Hp Hrec Ax0 Ay0 Hi3). cbn [bind].
  rewrite (imul_with_ienc rec p _ X2 Y2 (S i) (S i) Hp Hrec Ax2 Ay2 Hi3). cbn [bind].
  rewrite (imul_with_ienc rec p _ _ _ (S i) (S i) Hp Hrec Ax3 Ay3 Hi3). cbn [bind].
  rewrite (imul_with_ienc rec p _ _ _ (S i) (S i) Hp Hrec Ax4 Ay4 Hi3). cbn [bind].
  rewrite (imul_with_ienc rec p _ _ _ (S i) (S i) Hp Hrec Ax5 Ay5 Hi3). cbn [bind].
  (* interpolation *)
  set (w0 := X0 * Y0). set (w1 := X0 * Y1 + X1 * Y0). set (w2 := X0 * Y2 + X1 * Y1 + X2 * Y0).
  set (w3 := X1 * Y2 + X2 * Y1). set (w4 := X2 * Y2).
  replace ((X0 + X2 + X1) * (Y0 + Y2 + Y1)) with (w0 + w1 + w2 + w3 + w4) by (unfold w0, w1, w2, w3, w4; ring).
  replace ((X0 + X2 - X1) * (Y0 + Y2 - Y1)) with (w0 - w1 + w2 - w3 + w4) by (unfold w0, w1, w2, w3, w4; ring).
  replace ((2 * (X0 + X2 - X1 + X2) - X0) * (2 * (Y0 + Y2 - Y1 + Y2) - Y0))
    with (w0 - 2 * w1 + 4 * w2 - 8 * w3 + 16 * w4) by (unfold w0, w1, w2, w3, w4; ring).
  rewrite toom3_interp_spec by exact Hap. cbn [bind].
  change (rev (combine (seq 0 5) [ienc w0; ienc w1; ienc w2; ienc w3; ienc w4]))
    with (map (fun jz : nat * Z => (fst jz, ienc (snd jz)))
              [(4%nat, w4); (3%nat, w3); (2%nat, w2); (1%nat, w1); (0%nat, w0)]).
  destruct (toom_coeffs_nonneg X0 X1 X2 Y0 Y1 Y2) as (N0 & N1 & N2 & N3 & N4); try lia.
  fold w0 w1 w2 w3 w4 in N0, N1, N2, N3, N4.
  assert (Hsum : wsum i [(4%nat, w4); (3%nat, w3); (2%nat, w2); (1%nat, w1); (0%nat, w0)] = val x * val y).
  { cbn [wsum]. rewrite !pow_nat_mul, <- ET. rewrite Hvx, Hvx', Hvy, Hvy'.
    unfold w0, w1, w2, w3, w4. cbn [Z.of_nat Pos.of_succ_nat Pos.succ]. ring. }
  destruct (recompose_spec (mp_as p) i Hap [(4%nat, w4); (3%nat, w3); (2%nat, w2); (1%nat, w1); (0%nat, w0)] acc Wa)
    as (r & Er & Hadd).
  { repeat constructor; cbn [snd]; assumption. }
  { rewrite Hsum. apply fits_lt with (m := lenZ x + lenZ y); [unfold lenZ; lia|exact Hr]. }
  exists r; split; [exact Er|]. rewrite <- Hsum. exact Hadd.
Qed.
