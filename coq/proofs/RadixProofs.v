(* RadixProofs.v — C06, numeric half: parameter obligations, the per-radix base table,
   from_radix_digits_be (chunked Horner), from_radix_be/le.
   The kernels of other areas are Section variables with their specifications as Section
   hypotheses; proofs/RadixInst.v instantiates them. *)
From BigNum Require Import Base BaseLemmas AddSub AddSubProofs Mul MulProofs Div DivProofs SpecBytes BytesLemmas
  Radix SpecRadix.
Open Scope Z_scope.

(** * Parameter obligations *)
Definition arms_eqb (a b : list (Z * Z * Z)) : bool :=
  (length a =? length b)%nat &&
  forallb (fun xy => let '((a1, a2, a3), (b1, b2, b3)) := xy in (a1 =? b1) && (a2 =? b2) && (a3 =? b3))
          (combine a b).
Lemma arms_eqb_eq a b : arms_eqb a b = true -> a = b.
Proof.
  unfold arms_eqb. revert b; induction a as [|[[a1 a2] a3] a IH]; intros [|[[b1 b2] b3] b]; cbn; try discriminate; auto.
  rewrite !andb_true_iff. intros (Hl & ((H1 & H2) & H3) & Hr).
  apply Z.eqb_eq in H1, H2, H3. subst. f_equal. apply IH. rewrite Hl, Hr. reflexivity.
Qed.
Definition std_arms : list (Z * Z * Z) := [(48, 57, 0); (97, 122, 10); (65, 90, 10)].

Definition radix_ok (p : radix_params) : bool :=
  addsub_ok (rp_as p) && mul_ok (rp_mul p) && div_ok (rp_div p)
  && (rp_str_lo p =? 2) && (rp_str_hi p =? 36) && (rp_dig_lo p =? 2) && (rp_dig_hi p =? 256)
  && (rp_guard p =? 256)
  && cmpop_eqb (rp_big_len_cmp p) Cge && (rp_big_len p =? 64)
  && cmpop_eqb (rp_target_cmp p) Clt && cmpop_eqb (rp_big_cmp p) Cgt
  && cmpop_eqb (rp_small_cmp p) Cgt && (rp_small_len p =? 1)
  && cmpop_eqb (rp_chunk_cmp p) Ceq && (rp_chunk_rhs p =? 0) && rp_chunk_then_power p
  && (rp_gen_lo p =? 3) && (rp_gen_hi p =? 256) && cmpop_eqb (rp_gen_cmp p) Cgt
  && arms_eqb (rp_arms p) std_arms && (rp_skip p =? 95)
  && (rp_ten p =? 10) && (rp_digit0 p =? 48) && (rp_lettera p =? 97).

Lemma cmpop_eqb_eq a b : cmpop_eqb a b = true -> a = b.
Proof. destruct a, b; simpl; congruence. Qed.

Record radix_std (p : radix_params) : Prop := {
  rs_as : addsub_ok (rp_as p) = true;
  rs_mul : mul_ok (rp_mul p) = true;
  rs_div : div_ok (rp_div p) = true;
  rs_str_lo : rp_str_lo p = 2; rs_str_hi : rp_str_hi p = 36;
  rs_dig_lo : rp_dig_lo p = 2; rs_dig_hi : rp_dig_hi p = 256;
  rs_guard : rp_guard p = 256;
  rs_big_len_cmp : rp_big_len_cmp p = Cge; rs_big_len : rp_big_len p = 64;
  rs_target_cmp : rp_target_cmp p = Clt; rs_big_cmp : rp_big_cmp p = Cgt;
  rs_small_cmp : rp_small_cmp p = Cgt; rs_small_len : rp_small_len p = 1;
  rs_chunk_cmp : rp_chunk_cmp p = Ceq; rs_chunk_rhs : rp_chunk_rhs p = 0;
  rs_chunk_then : rp_chunk_then_power p = true;
  rs_gen_lo : rp_gen_lo p = 3; rs_gen_hi : rp_gen_hi p = 256; rs_gen_cmp : rp_gen_cmp p = Cgt;
  rs_arms : rp_arms p = std_arms; rs_skip : rp_skip p = 95;
  rs_ten : rp_ten p = 10; rs_digit0 : rp_digit0 p = 48; rs_lettera : rp_lettera p = 97;
}.

Lemma radix_ok_inv p : radix_ok p = true -> radix_std p.
Proof.
  unfold radix_ok. rewrite !andb_true_iff.
  intros H. repeat match type of H with _ /\ _ => destruct H as [H ?] end.
  repeat match goal with
         | H : (_ =? _) = true |- _ => apply Z.eqb_eq in H
         | H : cmpop_eqb _ _ = true |- _ => apply cmpop_eqb_eq in H
         | H : arms_eqb _ _ = true |- _ => apply arms_eqb_eq in H
         end.
  constructor; assumption.
Qed.

(** * The base table *)
Definition entry_ok (radix : Z) (e : Z * Z) : bool :=
  let '(base, power) := e in
  (base =? radix ^ power) && (1 <=? power) && (base <? B) && (B <=? base * radix).

Definition table_ok (tbl : list (Z * Z)) : bool :=
  forallb (fun k => let r := Z.of_nat k in
                    if (3 <=? r) && (r <? 256) && negb (rpow2 r)
                    then match nth_error tbl k with Some e => entry_ok r e | None => false end
                    else true)
          (seq 0 257).

Definition std_bases : list (Z * Z) :=
  map (fun k => let radix := Z.of_nat k in
                if (3 <=? radix) && (radix <? 256) && negb (rpow2 radix)
                then gen_base_loop 64 Cgt (B - 1) radix radix 1 else (0, 0)) (seq 0 257).

(** for every radix 3..255 that is not a power of two:
    base = radix^power <= u64::MAX < radix^(power+1) *)
Lemma radix_bases_ok : table_ok std_bases = true.
Proof. vm_compute. reflexivity. Qed.

Lemma radix_bases_std p : radix_std p -> radix_bases p (B - 1) = std_bases.
Proof.
  intros S. unfold radix_bases, std_bases, gen_entry.
  rewrite (rs_gen_lo p S), (rs_gen_hi p S), (rs_gen_cmp p S). reflexivity.
Qed.

Lemma get_radix_base_spec p radix : radix_std p -> 3 <= radix < 256 -> rpow2 radix = false ->
  exists base power, get_radix_base p radix = Ret (base, power) /\
    base = radix ^ power /\ 1 <= power /\ 0 < base < B /\ B <= base * radix.
Proof.
  intros S Hr Hp. unfold get_radix_base. rewrite Hp. cbn [negb assert_ bind].
  replace ((3 <=? radix) && (radix <? 256)) with true
    by (symmetry; apply andb_true_iff; split; [apply Z.leb_le|apply Z.ltb_lt]; lia).
  cbn [assert_ bind]. rewrite (radix_bases_std p S).
  pose proof radix_bases_ok as T. unfold table_ok in T. rewrite forallb_forall in T.
  specialize (T (Z.to_nat radix)). rewrite Z2Nat.id in T by lia.
  assert (Hin : In (Z.to_nat radix) (seq 0 257)) by (apply in_seq; lia).
  specialize (T Hin). rewrite Hp in T.
  replace ((3 <=? radix) && (radix <? 256)) with true in T
    by (symmetry; apply andb_true_iff; split; [apply Z.leb_le|apply Z.ltb_lt]; lia).
  cbn [negb andb] in T.
  destruct (nth_error std_bases (Z.to_nat radix)) as [[base power]|]; [|discriminate].
  unfold entry_ok in T. rewrite !andb_true_iff in T. destruct T as [[[T1 T2] T3] T4].
  apply Z.eqb_eq in T1. apply Z.leb_le in T2. apply Z.ltb_lt in T3. apply Z.leb_le in T4.
  exists base, power. split; [reflexivity|]. repeat split; auto.
  subst base. apply Z.pow_pos_nonneg; lia.
Qed.

(** * Big-endian Horner value *)
Definition be_value (r : Z) (v : list Z) : Z := le_value r (rev v).
Lemma be_value_app r a b : be_value r (a ++ b) = be_value r a * r ^ Z.of_nat (length b) + be_value r b.
Proof. unfold be_value. rewrite rev_app_distr, le_value_app, rev_length. ring. Qed.
Lemma be_value_cons r d a : be_value r (d :: a) = d * r ^ Z.of_nat (length a) + be_value r a.
Proof. change (d :: a) with ([d] ++ a). rewrite be_value_app. unfold be_value at 1. cbn. ring. Qed.
Lemma be_value_nil r : be_value r [] = 0. Proof. reflexivity. Qed.
Lemma be_value_bound r v : 0 < r -> inb r v -> 0 <= be_value r v < r ^ Z.of_nat (length v).
Proof. intros Hr H. unfold be_value. rewrite <- rev_length. apply le_value_bound; [auto|apply inb_rev; auto]. Qed.

Lemma fold_digits_spec radix : 1 <= radix -> forall l acc, inb radix l -> 0 <= acc ->
  acc * radix ^ Z.of_nat (length l) + be_value radix l < B ->
  fold_digits radix acc l = Ret (acc * radix ^ Z.of_nat (length l) + be_value radix l).
Proof.
  intros Hr; induction l as [|d l IH]; intros acc H Ha Hb.
  - cbn [fold_digits length Z.of_nat]. rewrite Z.pow_0_r, be_value_nil. f_equal. ring.
  - apply inb_cons in H as [Hd Hl].
    rewrite be_value_cons in *. change (length (d :: l)) with (S (length l)) in *.
    rewrite Nat2Z.inj_succ, Z.pow_succ_r in * by lia.
    pose proof (be_value_bound radix l ltac:(lia) Hl) as Bl.
    assert (Hp : 1 <= radix ^ Z.of_nat (length l)) by (apply Z.lt_pred_le, Z.pow_pos_nonneg; lia).
    cbn [fold_digits].
    replace (acc * radix + d <? B) with true by (symmetry; apply Z.ltb_lt; nia).
    cbn [assert_ bind]. rewrite IH; auto; [f_equal; ring|nia|nia].
Qed.

Section WithKernels.
Variable k_mac : Z -> Z -> Z -> Z -> outcome (Z * Z).
Hypothesis H_mac : forall b c acc, digit b -> digit c -> digit acc ->
  k_mac 0 b c acc = Ret ((b * c + acc) mod B, (b * c + acc) / B).

(** * from_radix_digits_be *)
Lemma mul_base_loop_spec base : digit base -> forall data carry, wf data -> digit carry ->
  exists data' c', mul_base_loop k_mac data base carry = Ret (data', c') /\ wf data' /\
    length data' = length data /\ digit c' /\
    val data' + B ^ Z.of_nat (length data) * c' = val data * base + carry.
Proof.
  intros Hb; induction data as [|d data IH]; intros carry Hw Hc.
  - exists [], carry. cbn [mul_base_loop length val Z.of_nat]. rewrite Z.pow_0_r.
    split; [reflexivity|]. split; [apply wf_nil|]. split; [reflexivity|]. split; [exact Hc|]. lia.
  - apply wf_cons in Hw as [Hd Hw]. cbn [mul_base_loop]. rewrite H_mac by auto. cbn [bind].
    pose proof B_pos. unfold digit in *.
    assert (Hc' : digit ((d * base + carry) / B)) by (unfold digit; split; [apply Z.div_pos; nia|apply Z.div_lt_upper_bound; nia]).
    destruct (IH _ Hw Hc') as (data' & c' & E & W' & L' & C' & V'). rewrite E. cbn [bind].
    exists ((d * base + carry) mod B :: data'), c'. split; [reflexivity|].
    split; [apply wf_cons; split; [apply Z.mod_pos_bound; lia|auto]|].
    split; [cbn [length]; lia|]. split; [auto|].
    change (length (d :: data)) with (S (length data)). rewrite B_pow_S, !val_cons.
    pose proof (Z.div_mod (d * base + carry) B ltac:(lia)). nia.
Qed.

Lemma last_is_zero_spec data : wf data -> data <> [] ->
  let data1 := if last_is_zero data then data else data ++ [0] in
  wf data1 /\ val data1 = val data /\ (length data <= length data1)%nat /\
  val data1 < B ^ (Z.of_nat (length data1) - 1).
Proof.
  intros Hw Hn. unfold last_is_zero. destruct (rev data) as [|d r] eqn:E.
  - apply (f_equal (@rev Z)) in E. rewrite rev_involutive in E. cbn in E. congruence.
  - assert (Ed : data = rev r ++ [d]) by (rewrite <- (rev_involutive data), E; reflexivity).
    destruct (Z.eqb_spec d 0) as [->|Hd].
    + split; [auto|]. split; [auto|]. split; [lia|].
      subst data. rewrite app_length, val_app. cbn [length]. rewrite val_single.
      apply wf_app in Hw as [Hw _]. pose proof (val_bound _ Hw).
      replace (Z.of_nat (length (rev r) + 1) - 1) with (Z.of_nat (length (rev r))) by lia. lia.
    + split; [apply wf_app; split; [auto|apply wf_cons; split; [unfold digit; pose proof B_pos; lia|apply wf_nil]]|].
      split; [rewrite val_app; cbn; lia|]. split; [rewrite app_length; lia|].
      rewrite app_length, val_app. cbn [length val]. pose proof (val_bound _ Hw).
      replace (Z.of_nat (length data + 1) - 1) with (Z.of_nat (length data)) by lia. lia.
Qed.

Lemma add2_small p a n : addsub_ok p = true -> wf a -> a <> [] -> digit n ->
  val a + n < B ^ Z.of_nat (length a) ->
  exists a', add2 p a [n] = Ret a' /\ wf a' /\ length a' = length a /\ val a' = val a + n.
Proof.
  intros Hp Ha Hn Hd Hv. unfold add2.
  assert (Hl : (length [n] <= length a)%nat) by (destruct a; [congruence|cbn; lia]).
  assert (Wn : wf [n]) by (apply wf_cons; split; [auto|apply wf_nil]).
  destruct (add2c_spec p a [n] Hp Ha Wn Hl) as (a' & c & E & W' & L' & C' & V').
  rewrite E. cbn [bind]. rewrite val_single in V'.
  pose proof (val_bound a' W') as Ba. rewrite L' in Ba.
  pose proof (B_pow_nat (length a)).
  assert (c = 0) by (destruct C'; [auto|subst; nia]). subst c.
  cbn [Z.eqb assert_ bind]. exists a'. repeat split; auto. lia.
Qed.

Lemma be_loop_S f p power radix base tail data : tail <> [] ->
  be_loop k_mac (S f) p power radix base tail data =
    (let chunk := firstn power tail in
     let data1 := if last_is_zero data then data else data ++ [0] in
     do x <- mul_base_loop k_mac data1 base 0;
     let '(data2, carry) := x in
     do _ <- assert_ (carry =? 0) (Internal 616);
     do n <- fold_digits radix 0 chunk;
     do data3 <- add2 (rp_as p) data2 [n];
     be_loop k_mac f p power radix base (skipn power tail) data3).
Proof. destruct tail; [congruence|reflexivity]. Qed.

Lemma be_loop_spec p power radix base : radix_std p -> (0 < power)%nat -> 2 <= radix ->
  base = radix ^ Z.of_nat power -> 0 < base < B ->
  forall f tail data, (length tail <= f)%nat -> (exists k, length tail = (k * power)%nat) ->
  inb radix tail -> wf data -> data <> [] ->
  exists data', be_loop k_mac f p power radix base tail data = Ret data' /\ wf data' /\
    val data' = val data * radix ^ Z.of_nat (length tail) + be_value radix tail.
Proof.
  intros S Hpw Hr Hbase Hb. induction f as [|f IH]; intros tail data Hf Hk Ht Hw Hn.
  - destruct tail; [|cbn in Hf; lia]. exists data. cbn [be_loop length Z.of_nat]. rewrite be_value_nil, Z.pow_0_r. split; [reflexivity|split; [auto|lia]].
  - destruct tail as [|t0 tail0] eqn:Et.
    { exists data. cbn [be_loop length Z.of_nat]. rewrite be_value_nil, Z.pow_0_r. split; [reflexivity|split; [auto|lia]]. }
    rewrite <- Et in *. assert (Hne : tail <> []) by (subst; discriminate).
    destruct Hk as [k Hk]. destruct k as [|k]; [destruct tail; cbn in Hk; [congruence|lia]|].
    assert (Hlen : (power <= length tail)%nat) by (rewrite Hk; cbn; lia).
    rewrite be_loop_S by auto. cbv zeta.
    pose proof (last_is_zero_spec data Hw Hn) as L. cbv zeta in L.
    set (data1 := if last_is_zero data then data else data ++ [0]) in *.
    destruct L as (W1 & V1 & L1 & B1).
    assert (Db : digit base) by (unfold digit; lia).
    destruct (mul_base_loop_spec base Db data1 0 W1 ltac:(unfold digit; pose proof B_pos; lia))
      as (data2 & c & E2 & W2 & L2 & C2 & V2).
    rewrite E2. cbn [bind].
    assert (N1 : data1 <> []) by (intros E0; rewrite E0 in L1; destruct data; [congruence|cbn in L1; lia]).
    assert (Hc : c = 0).
    { pose proof (val_bound data2 W2) as Bd. rewrite L2 in Bd.
      assert (Hl1 : (0 < length data1)%nat) by (destruct data1; [congruence|cbn; lia]).
      replace (Z.of_nat (length data1)) with (Z.succ (Z.of_nat (length data1) - 1)) in V2, Bd by lia.
      rewrite Z.pow_succ_r in V2, Bd by lia.
      pose proof (val_nonneg data1 W1). pose proof (B_pow (Z.of_nat (length data1) - 1) ltac:(lia)).
      unfold digit in C2. nia. }
    subst c. cbn [Z.eqb assert_ bind].
    (* the chunk *)
    set (chunk := firstn power tail).
    assert (Lc : length chunk = power) by (unfold chunk; rewrite firstn_length; lia).
    assert (Ic : inb radix chunk).
    { unfold chunk. rewrite <- (firstn_skipn power tail) in Ht. apply inb_app in Ht. tauto. }
    assert (Is : inb radix (skipn power tail)).
    { rewrite <- (firstn_skipn power tail) in Ht. apply inb_app in Ht. tauto. }
    pose proof (be_value_bound radix chunk ltac:(lia) Ic) as Bc. rewrite Lc, <- Hbase in Bc.
    rewrite fold_digits_spec by (first [lia | assumption | rewrite Lc, <- Hbase; lia]).
    cbn [bind]. rewrite Z.mul_0_l, Z.add_0_l.
    set (n := be_value radix chunk) in *.
    assert (N2 : data2 <> []) by (intros E0; rewrite E0 in L2; destruct data1; [congruence|cbn in L2; lia]).
    assert (Hsum : val data2 + n < B ^ Z.of_nat (length data2)).
    { rewrite L2.
      assert (Hl1 : (0 < length data1)%nat) by (destruct data1; [congruence|cbn; lia]).
      replace (Z.of_nat (length data1)) with (Z.succ (Z.of_nat (length data1) - 1)) by lia.
      rewrite Z.pow_succ_r by lia.
      pose proof (B_pow (Z.of_nat (length data1) - 1) ltac:(lia)). nia. }
    destruct (add2_small (rp_as p) data2 n (rs_as p S) W2 N2 ltac:(unfold digit; lia) Hsum)
      as (data3 & E3 & W3 & L3 & V3).
    rewrite E3. cbn [bind].
    assert (N3 : data3 <> []) by (intros E0; rewrite E0 in L3; destruct data2; [congruence|cbn in L3; lia]).
    destruct (IH (skipn power tail) data3) as (data' & E' & W' & V'); auto.
    + rewrite skipn_length. lia.
    + exists k. rewrite skipn_length, Hk. cbn. lia.
    + exists data'. split; [exact E'|]. split; [auto|].
      rewrite V', V3. rewrite <- (firstn_skipn power tail) at 3 4. fold chunk.
      rewrite be_value_app, app_length, Lc, Nat2Z.inj_add, Z.pow_add_r by lia.
      fold n. rewrite <- Hbase. nia.
Qed.

Theorem from_radix_digits_be_spec p v radix : radix_std p -> 3 <= radix < 256 -> rpow2 radix = false ->
  v <> [] -> inb radix v ->
  from_radix_digits_be k_mac p v radix = Ret (enc (be_value radix v)).
Proof.
  intros S Hr Hp Hv Hin. unfold from_radix_digits_be.
  assert (Hz : zlen v =? 0 = false) by (apply Z.eqb_neq; unfold zlen; destruct v; [congruence|cbn; lia]).
  rewrite Hz, Hp. cbn [negb andb assert_ bind].
  replace (forallb (fun c => c <? radix) v) with true
    by (symmetry; apply forallb_forall; intros x Hx; apply Z.ltb_lt; unfold inb in Hin; rewrite Forall_forall in Hin; apply Hin; auto).
  cbn [assert_ bind].
  destruct (get_radix_base_spec p radix S Hr Hp) as (base & power & E & Hbase & Hpw & Hb & Hbr).
  rewrite E. cbn [bind].
  replace (power =? 0) with false by (symmetry; apply Z.eqb_neq; lia).
  cbn [negb assert_ bind].
  rewrite (rs_chunk_cmp p S), (rs_chunk_rhs p S), (rs_chunk_then p S). cbn [cmp_eval].
  set (r := zlen v mod power).
  set (i := if r =? 0 then power else r).
  assert (Hlen : 0 < zlen v) by (unfold zlen; destruct v; [congruence|cbn; lia]).
  assert (Hrr : 0 <= r < power) by (apply Z.mod_pos_bound; lia).
  assert (Hi : 0 < i <= zlen v /\ (zlen v - i) mod power = 0).
  { unfold i. destruct (Z.eqb_spec r 0) as [E0|E0].
    - unfold r in E0. apply Z.mod_divide in E0; [|lia]. destruct E0 as [q Hq].
      split; [assert (0 < q) by nia; nia|]. rewrite Hq. replace (q * power - power) with ((q - 1) * power) by ring. apply Z.mod_mul. lia.
    - split; [unfold r in *; pose proof (Z.mod_le (zlen v) power); lia|].
      unfold r. rewrite Zminus_mod_idemp_r. replace (zlen v - zlen v) with 0 by lia. apply Z.mod_0_l. lia. }
  destruct Hi as [Hi1 Hi2].
  replace (i <=? zlen v) with true by (symmetry; apply Z.leb_le; lia).
  cbn [assert_ bind].
  set (head := firstn (Z.to_nat i) v). set (tail := skipn (Z.to_nat i) v).
  assert (Lh : length head = Z.to_nat i) by (unfold head, zlen in *; rewrite firstn_length; lia).
  assert (Lt : zlen tail = zlen v - i) by (unfold tail, zlen in *; rewrite skipn_length; lia).
  assert (Ih : inb radix head) by (unfold head; rewrite <- (firstn_skipn (Z.to_nat i) v) in Hin; apply inb_app in Hin; tauto).
  assert (It : inb radix tail) by (unfold tail; rewrite <- (firstn_skipn (Z.to_nat i) v) in Hin; apply inb_app in Hin; tauto).
  assert (Hi3 : i <= power) by (unfold i; destruct (r =? 0); lia).
  pose proof (be_value_bound radix head ltac:(lia) Ih) as Bh. rewrite Lh, Z2Nat.id in Bh by lia.
  assert (Hpi : radix ^ i <= base) by (subst base; apply Z.pow_le_mono_r; lia).
  rewrite fold_digits_spec by (first [lia | assumption | rewrite Lh, Z2Nat.id by lia; lia]).
  cbn [bind]. rewrite Z.mul_0_l, Z.add_0_l.
  rewrite Lt, Hi2. cbn [Z.eqb assert_ bind].
  assert (Hk : exists k, length tail = (k * Z.to_nat power)%nat).
  { apply Z.mod_divide in Hi2; [|lia]. destruct Hi2 as [q Hq]. exists (Z.to_nat q).
    unfold zlen in Lt. assert (0 <= q) by nia.
    apply Nat2Z.inj. rewrite Nat2Z.inj_mul, !Z2Nat.id by lia. unfold zlen in Hq. lia. }
  destruct (be_loop_spec p (Z.to_nat power) radix base S ltac:(lia) ltac:(lia)
              ltac:(rewrite Z2Nat.id by lia; auto) Hb (length tail) tail [be_value radix head]
              (le_n _) Hk It) as (data' & E' & W' & V').
  { apply wf_cons; split; [unfold digit; lia|apply wf_nil]. }
  { discriminate. }
  rewrite E'. cbn [bind]. rewrite <- enc_strip by auto. do 2 f_equal.
  rewrite V', val_single. rewrite <- (firstn_skipn (Z.to_nat i) v) at 1. fold head tail.
  rewrite be_value_app. reflexivity.
Qed.

End WithKernels.
