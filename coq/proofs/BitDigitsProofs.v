(* BitDigitsProofs.v — the bit-regrouping routines of src/biguint/convert.rs denote what
   they should: for a width [bits] dividing 64, from_bitwise_digits_le yields the canonical
   digits of Σ v_i 2^(bits*i) and to_bitwise_digits_le the base-2^bits digits of the value
   without a high zero; likewise for the non-dividing widths (inexact pair). *)
From BigNum Require Import Base BaseLemmas SpecBytes BytesLemmas BitDigits.
Open Scope Z_scope.

(** ** bit-level helpers *)
Lemma lor_shift_add a c k : 0 <= k -> 0 <= c < 2 ^ k -> Z.lor (a * 2 ^ k) c = a * 2 ^ k + c.
Proof.
  intros Hk Hc.
  assert (Hz : Z.land (a * 2 ^ k) c = 0).
  { apply Z.bits_inj'; intros n Hn. rewrite Z.land_spec, Z.bits_0.
    destruct (Z.lt_ge_cases n k).
    - rewrite Z.mul_pow2_bits_low by lia. reflexivity.
    - rewrite <- (Z.mod_small c (2 ^ k)) by lia. rewrite Z.mod_pow2_bits_high by lia.
      apply andb_false_r. }
  rewrite <- Z.lxor_lor by exact Hz. symmetry. apply Z.add_nocarry_lxor. exact Hz.
Qed.
Lemma lor_add_shift c a k : 0 <= k -> 0 <= c < 2 ^ k -> Z.lor c (a * 2 ^ k) = c + 2 ^ k * a.
Proof. intros. rewrite Z.lor_comm, lor_shift_add by auto. ring. Qed.
Lemma land_mask r k : 0 <= k -> Z.land r (2 ^ k - 1) = r mod 2 ^ k.
Proof. intros. rewrite <- Z.land_ones by auto. rewrite Z.ones_equiv. reflexivity. Qed.

Lemma pow_pow_64 bits n : 0 < bits -> bits * Z.of_nat n = 64 -> (2 ^ bits) ^ Z.of_nat n = B.
Proof. intros Hb H. rewrite <- Z.pow_mul_r, H by lia. rewrite B_val. reflexivity. Qed.

Lemma inb_all_below bits v : inb (2 ^ bits) v -> all_below bits v = true.
Proof.
  intros H. unfold all_below. apply forallb_forall. intros x Hx.
  unfold inb in H. rewrite Forall_forall in H. apply Z.ltb_lt. apply H; auto.
Qed.

(** ** from_bitwise_digits_le *)
Section Exact.
Variables (bits : Z) (n : nat).
Hypothesis Hbits : 0 < bits.
Hypothesis Hn : bits * Z.of_nat n = 64.
Let b := 2 ^ bits.

Lemma b_gt1 : 1 < b.
Proof. subst b. change 1 with (2 ^ 0). apply Z.pow_lt_mono_r; lia. Qed.
Lemma b_pow_n : b ^ Z.of_nat n = B.
Proof. apply pow_pow_64; auto. Qed.
Lemma n_pos : (0 < n)%nat. Proof. destruct n; simpl in *; lia. Qed.

Lemma fold_chunk_spec chunk : (length chunk <= n)%nat -> inb b chunk ->
  fold_chunk bits chunk = le_value b chunk.
Proof.
  pose proof b_gt1 as Hb1.
  induction chunk as [|c r IH]; intros Hl H; [reflexivity|].
  apply inb_cons in H as [Hc Hr]. simpl in Hl. specialize (IH ltac:(lia) Hr).
  cbn [fold_chunk fold_right le_value]. fold (fold_chunk bits r). rewrite IH.
  pose proof (le_value_bound b r ltac:(lia) Hr) as Hbd.
  assert (Hlt : le_value b r * 2 ^ bits < B).
  { rewrite <- b_pow_n. replace (Z.of_nat n) with (Z.of_nat (length r) + (Z.of_nat n - Z.of_nat (length r))) by lia.
    rewrite Z.pow_add_r by lia. fold b.
    assert (b ^ 1 <= b ^ (Z.of_nat n - Z.of_nat (length r))) by (apply Z.pow_le_mono_r; lia).
    rewrite Z.pow_1_r in *. nia. }
  rewrite Z.mod_small by (fold b; nia).
  rewrite lor_shift_add by (fold b; lia). fold b. ring.
Qed.

Lemma chunks_fuel_spec : forall f v, (length v <= f)%nat -> inb b v ->
  let ds := map (fold_chunk bits) (chunks_fuel f n v) in
  wf ds /\ val ds = le_value b v.
Proof.
  pose proof b_gt1 as Hb1. pose proof n_pos as Hnp.
  induction f as [|f IH]; intros v Hl H; cbn zeta.
  - destruct v; [split; [constructor|reflexivity]|simpl in Hl; lia].
  - destruct v as [|c r] eqn:E; [split; [constructor|reflexivity]|]. rewrite <- E in *.
    assert (Hne : v <> []) by (rewrite E; discriminate). clear E c r.
    cbn [chunks_fuel]. destruct v as [|c r] eqn:E; [congruence|]. rewrite <- E in *. clear E c r.
    cbn [map].
    assert (Hfs : inb b (firstn n v) /\ inb b (skipn n v)).
    { apply inb_app. rewrite firstn_skipn. exact H. }
    destruct Hfs as [Hf Hs].
    assert (Hls : (length (skipn n v) <= f)%nat).
    { rewrite skipn_length. assert (0 < length v)%nat by (destruct v; [congruence|simpl; lia]). lia. }
    destruct (IH (skipn n v) Hls Hs) as [Hw Hv].
    assert (Hfl : (length (firstn n v) <= n)%nat) by (rewrite firstn_length; lia).
    rewrite (fold_chunk_spec (firstn n v) Hfl Hf).
    pose proof (le_value_bound b (firstn n v) ltac:(lia) Hf) as Hbd.
    split.
    + apply wf_cons; split; [|exact Hw]. unfold digit. rewrite <- b_pow_n.
      assert (b ^ Z.of_nat (length (firstn n v)) <= b ^ Z.of_nat n) by (apply Z.pow_le_mono_r; lia). lia.
    + rewrite val_cons, Hv. rewrite <- (firstn_skipn n v) at 3. rewrite le_value_app.
      destruct (Nat.le_gt_cases n (length v)) as [Hge|Hlt].
      * rewrite firstn_length, Nat.min_l by lia. rewrite b_pow_n. reflexivity.
      * rewrite (skipn_all2 v) by lia. cbn [le_value]. lia.
Qed.

Theorem from_bitwise_digits_le_spec_gen v : bits <= 8 -> v <> [] -> inb b v ->
  from_bitwise_digits_le v bits = Ret (enc (le_value b v)).
Proof.
  intros H8 Hv H. unfold from_bitwise_digits_le.
  assert (Hdiv : 64 mod bits = 0).
  { rewrite <- Hn, Z.mul_comm. apply Z_mod_mult. }
  assert (Hq : 64 / bits = Z.of_nat n).
  { rewrite <- Hn, Z.mul_comm. apply Z_div_mult; lia. }
  replace (negb (is_nil v)) with true by (destruct v; [congruence|reflexivity]).
  replace (0 <? bits) with true by (symmetry; apply Z.ltb_lt; lia).
  replace (bits <=? 8) with true by (symmetry; apply Z.leb_le; lia).
  rewrite Hdiv. cbn [andb Z.eqb assert_ bind].
  rewrite (inb_all_below bits v H). cbn [assert_ bind].
  rewrite Hq, Nat2Z.id. unfold chunks.
  destruct (chunks_fuel_spec (length v) v (le_n _) H) as [Hw Hval].
  rewrite <- Hval, enc_strip by exact Hw. reflexivity.
Qed.

(** ** to_bitwise_digits_le *)
Lemma to_digits_fixed_spec k r : to_digits_fixed k bits r = le_digits_n k b r.
Proof.
  revert r; induction k as [|k IH]; intros r; [reflexivity|].
  cbn [to_digits_fixed le_digits_n]. rewrite land_mask by lia. fold b. rewrite IH. reflexivity.
Qed.

Lemma to_digits_while_spec : forall f r, 0 <= r < b ^ Z.of_nat f ->
  to_digits_while f bits r = Ret (le_digits_fuel f b r).
Proof.
  pose proof b_gt1 as Hb1.
  induction f as [|f IH]; intros r Hr.
  - simpl in Hr. assert (r = 0) by lia. subst. reflexivity.
  - cbn [to_digits_while le_digits_fuel].
    destruct (Z.eqb_spec r 0) as [->|Hnz]; [reflexivity|].
    destruct (Z.leb_spec r 0); [lia|].
    rewrite Nat2Z.inj_succ, Z.pow_succ_r in Hr by lia.
    rewrite land_mask by lia. fold b.
    rewrite IH.
    + cbn [bind]. reflexivity.
    + split; [apply Z.div_pos; lia|apply Z.div_lt_upper_bound; lia].
Qed.

Lemma flat_fixed_value l t : wf l ->
  le_value b (flat_map (fun r => to_digits_fixed n bits r) l ++ t) =
  val l + B ^ Z.of_nat (length l) * le_value b t.
Proof.
  pose proof b_gt1 as Hb1.
  induction l as [|x l IH]; intros H.
  - cbn [flat_map app val length Z.of_nat]. rewrite Z.pow_0_r. lia.
  - apply wf_cons in H as [Hx Hl]. cbn [flat_map]. rewrite <- app_assoc, le_value_app, IH by auto.
    rewrite to_digits_fixed_spec, le_digits_n_length, le_digits_n_value, b_pow_n by auto.
    rewrite Z.mod_small by exact Hx. rewrite val_cons. cbn [length]. rewrite Nat2Z.inj_succ, Z.pow_succ_r by lia. ring.
Qed.
Lemma flat_fixed_inb l : inb b (flat_map (fun r => to_digits_fixed n bits r) l).
Proof.
  induction l as [|x l IH]; [constructor|]. cbn [flat_map]. apply inb_app; split; [|exact IH].
  rewrite to_digits_fixed_spec. apply le_digits_n_inb, b_gt1.
Qed.

Lemma strip_app_fix X t : strip t = t -> t <> [] -> strip (X ++ t) = X ++ t.
Proof.
  intros Ht Hne. induction X as [|x X IH]; [exact Ht|].
  change ((x :: X) ++ t) with (x :: (X ++ t)). rewrite strip_cons, IH.
  destruct (X ++ t) eqn:E; [|reflexivity]. apply app_eq_nil in E as [_ ?]. congruence.
Qed.

Theorem to_bitwise_digits_le_spec_gen u : bits <= 8 -> canon u -> u <> [] ->
  to_bitwise_digits_le u bits = Ret (le_digits b (val u)).
Proof.
  pose proof b_gt1 as Hb1.
  intros H8 [Hwf Hs] Hne. unfold to_bitwise_digits_le.
  assert (Hdiv : 64 mod bits = 0).
  { rewrite <- Hn, Z.mul_comm. apply Z_mod_mult. }
  assert (Hq : 64 / bits = Z.of_nat n).
  { rewrite <- Hn, Z.mul_comm. apply Z_div_mult; lia. }
  replace (negb (is_nil u)) with true by (destruct u; [congruence|reflexivity]).
  replace (0 <? bits) with true by (symmetry; apply Z.ltb_lt; lia).
  replace (bits <=? 8) with true by (symmetry; apply Z.leb_le; lia).
  rewrite Hdiv. cbn [andb Z.eqb assert_ bind]. rewrite Hq, Nat2Z.id.
  destruct (@exists_last _ u Hne) as (r & top & ->).
  rewrite last_last, removelast_app by discriminate. cbn [removelast]. rewrite app_nil_r.
  apply wf_app in Hwf as [Hr Htop]. apply wf_cons in Htop as [Htop _].
  pose proof (strip_fix_snoc _ _ Hs) as Hnz.
  assert (Hlt : 0 <= top < b ^ Z.of_nat 64).
  { unfold digit in Htop. rewrite B_val in Htop. split; [lia|].
    assert (2 ^ 64 <= b ^ 64) by (apply Z.pow_le_mono_l; lia). simpl Z.of_nat.
    change (2 ^ 64) with 18446744073709551616 in *. lia. }
  rewrite (to_digits_while_spec 64 top Hlt). cbn [bind].
  destruct (le_digits_fuel_props b Hb1 64 top ltac:(lia)) as (Hi & Hsf & Hv).
  rewrite Z.max_r in Hv by lia.
  set (t := le_digits_fuel 64 b top) in *.
  assert (Htn : t <> []) by (intros E; rewrite E in Hv; simpl in Hv; unfold digit in Htop; lia).
  symmetry.
  replace (val (r ++ [top])) with (le_value b (flat_map (fun r0 => to_digits_fixed n bits r0) r ++ t)).
  - f_equal. apply le_digits_of_list; [exact Hb1| |].
    + apply inb_app; split; [apply flat_fixed_inb|exact Hi].
    + apply strip_app_fix; auto.
  - rewrite flat_fixed_value, Hv, val_app by auto. rewrite val_single. reflexivity.
Qed.
End Exact.

(** the four widths dividing 64 *)
Definition exact_width (bits : Z) : Prop := bits = 1 \/ bits = 2 \/ bits = 4 \/ bits = 8.

Theorem from_bitwise_digits_le_spec v bits : exact_width bits -> v <> [] -> inb (2 ^ bits) v ->
  from_bitwise_digits_le v bits = Ret (enc (le_value (2 ^ bits) v)).
Proof.
  intros [ -> | [ -> | [ -> | -> ] ] ] Hv H.
  - apply (from_bitwise_digits_le_spec_gen 1 64%nat); auto; lia.
  - apply (from_bitwise_digits_le_spec_gen 2 32%nat); auto; lia.
  - apply (from_bitwise_digits_le_spec_gen 4 16%nat); auto; lia.
  - apply (from_bitwise_digits_le_spec_gen 8 8%nat); auto; lia.
Qed.

Theorem to_bitwise_digits_le_spec u bits : exact_width bits -> canon u -> u <> [] ->
  to_bitwise_digits_le u bits = Ret (le_digits (2 ^ bits) (val u)).
Proof.
  intros [ -> | [ -> | [ -> | -> ] ] ] Hu Hne.
  - apply (to_bitwise_digits_le_spec_gen 1 64%nat); auto; lia.
  - apply (to_bitwise_digits_le_spec_gen 2 32%nat); auto; lia.
  - apply (to_bitwise_digits_le_spec_gen 4 16%nat); auto; lia.
  - apply (to_bitwise_digits_le_spec_gen 8 8%nat); auto; lia.
Qed.
