(* BitDigitsProofs.v — the bit-regrouping routines of src/biguint/convert.rs denote what
   they should: for a width [bits] dividing 64, from_bitwise_digits_le yields the canonical
   digits of Σ v_i 2^(bits*i) and to_bitwise_digits_le the base-2^bits digits of the value
   without a high zero; likewise for the non-dividing widths (inexact pair). *)
From BigNum Require Import Base BaseLemmas SpecBytes BytesLemmas BitDigits.
Open Scope Z_scope.

(** ** bit-level helpers *)
Lemma lor_shift_add a c k : 0 <= k -> 0 <= c < 2 ^ k -> Z.lor (a * 2 ^ k) c = a * 2 ^ k + c.
Proof.
  intros Hk Hc.
  assert (Hz : Z.land (a * 2 ^ k) c = 0).
  { apply Z.bits_inj'; intros n Hn. rewrite Z.land_spec, Z.bits_0.
    destruct (Z.lt_ge_cases n k).
    - rewrite Z.mul_pow2_bits_low by lia. reflexivity.
    - rewrite <- (Z.mod_small c (2 ^ k)) by lia. rewrite Z.mod_pow2_bits_high by lia.
      apply andb_false_r. }
  rewrite <- Z.lxor_lor by exact Hz. symmetry. apply Z.add_nocarry_lxor. exact Hz.
Qed.
Lemma lor_add_shift c a k : 0 <= k -> 0 <= c < 2 ^ k -> Z.lor c (a * 2 ^ k) = c + 2 ^ k * a.
Proof. intros. rewrite Z.lor_comm, lor_shift_add by auto. ring. Qed.
Lemma land_mask r k : 0 <= k -> Z.land r (2 ^ k - 1) = r mod 2 ^ k.
Proof. intros. rewrite <- Z.land_ones by auto. rewrite Z.ones_equiv. reflexivity. Qed.

Lemma pow_pow_64 bits n : 0 < bits -> bits * Z.of_nat n = 64 -> (2 ^ bits) ^ Z.of_nat n = B.
Proof. intros Hb H. rewrite <- Z.pow_mul_r, H by lia. rewrite B_val. reflexivity. Qed.

Lemma inb_all_below bits v : inb (2 ^ bits) v -> all_below bits v = true.
Proof.
  intros H. unfold all_below. apply forallb_forall. intros x Hx.
  unfold inb in H. rewrite Forall_forall in H. apply Z.ltb_lt. apply H; auto.
Qed.

(** ** from_bitwise_digits_le *)
Section Exact.
Variables (bits : Z) (n : nat).
Hypothesis Hbits : 0 < bits.
Hypothesis Hn : bits * Z.of_nat n = 64.
Let b := 2 ^ bits.

Lemma b_gt1 : 1 < b.
Proof. subst b. change 1 with (2 ^ 0). apply Z.pow_lt_mono_r; lia. Qed.
Lemma b_pow_n : b ^ Z.of_nat n = B.
Proof. apply pow_pow_64; auto. Qed.
Lemma n_pos : (0 < n)%nat. Proof. destruct n; simpl in *; lia. Qed.

Lemma fold_chunk_spec chunk : (length chunk <= n)%nat -> inb b chunk ->
  fold_chunk bits chunk = le_value b chunk.
Proof.
  pose proof b_gt1 as Hb1.
  induction chunk as [|c r IH]; intros Hl H; [reflexivity|].
  apply inb_cons in H as [Hc Hr]. simpl in Hl. specialize (IH ltac:(lia) Hr).
  cbn [fold_chunk fold_right le_value]. fold (fold_chunk bits r). rewrite IH.
  pose proof (le_value_bound b r ltac:(lia) Hr) as Hbd.
  assert (Hlt : le_value b r * 2 ^ bits < B).
  { rewrite <- b_pow_n. replace (Z.of_nat n) with (Z.of_nat (length r) + (Z.of_nat n - Z.of_nat (length r))) by lia.
    rewrite Z.pow_add_r by lia. fold b.
    assert (b ^ 1 <= b ^ (Z.of_nat n - Z.of_nat (length r))) by (apply Z.pow_le_mono_r; lia).
    rewrite Z.pow_1_r in *. nia. }
  rewrite Z.mod_small by (fold b; nia).
  rewrite lor_shift_add by (fold b; lia). fold b. ring.
Qed.

Lemma chunks_fuel_spec : forall f v, (length v <= f)%nat -> inb b v ->
  let ds := map (fold_chunk bits) (chunks_fuel f n v) in
  wf ds /\ val ds = le_value b v.
Proof.
  pose proof b_gt1 as Hb1. pose proof n_pos as Hnp.
  induction f as [|f IH]; intros v Hl H; cbn zeta.
  - destruct v; [split; [constructor|reflexivity]|simpl in Hl; lia].
  - destruct v as [|c r] eqn:E; [split; [constructor|reflexivity]|]. rewrite <- E in *.
    assert (Hne : v <> []) by (rewrite E; discriminate). clear E c r.
    cbn [chunks_fuel]. destruct v as [|c r] eqn:E; [congruence|]. rewrite <- E in *. clear E c r.
    cbn [map].
    assert (Hfs : inb b (firstn n v) /\ inb b (skipn n v)).
    { apply inb_app. rewrite firstn_skipn. exact H. }
    destruct Hfs as [Hf Hs].
    assert (Hls : (length (skipn n v) <= f)%nat).
    { rewrite skipn_length. assert (0 < length v)%nat by (destruct v; [congruence|simpl; lia]). lia. }
    destruct (IH (skipn n v) Hls Hs) as [Hw Hv].
    assert (Hfl : (length (firstn n v) <= n)%nat) by (rewrite firstn_length; lia).
    rewrite (fold_chunk_spec (firstn n v) Hfl Hf).
    pose proof (le_value_bound b (firstn n v) ltac:(lia) Hf) as Hbd.
    split.
    + apply wf_cons; split; [|exact Hw]. unfold digit. rewrite <- b_pow_n.
      assert (b ^ Z.of_nat (length (firstn n v)) <= b ^ Z.of_nat n) by (apply Z.pow_le_mono_r; lia). lia.
    + rewrite val_cons, Hv. rewrite <- (firstn_skipn n v) at 3. rewrite le_value_app.
      destruct (Nat.le_gt_cases n (length v)) as [Hge|Hlt].
      * rewrite firstn_length, Nat.min_l by lia. rewrite b_pow_n. reflexivity.
      * rewrite (skipn_all2 v) by lia. cbn [le_value]. lia.
Qed.

Theorem from_bitwise_digits_le_spec_gen v : bits <= 8 -> v <> [] -> inb b v ->
  from_bitwise_digits_le v bits = Ret (enc (le_value b v)).
Proof.
  intros H8 Hv H. unfold from_bitwise_digits_le.
  assert (Hdiv : 64 mod bits = 0).
  { rewrite <- Hn, Z.mul_comm. apply Z_mod_mult. }
  assert (Hq : 64 / bits = Z.of_nat n).
  { rewrite <- Hn, Z.mul_comm. apply Z_div_mult; lia. }
  replace (negb (is_nil v)) with true by (destruct v; [congruence|reflexivity]).
  replace (0 <? bits) with true by (symmetry; apply Z.ltb_lt; lia).
  replace (bits <=? 8) with true by (symmetry; apply Z.leb_le; lia).
  rewrite Hdiv. cbn [andb Z.eqb assert_ bind].
  rewrite (inb_all_below bits v H). cbn [assert_ bind].
  rewrite Hq, Nat2Z.id. unfold chunks.
  destruct (chunks_fuel_spec (length v) v (le_n _) H) as [Hw Hval].
  rewrite <- Hval, enc_strip by exact Hw. reflexivity.
Qed.

(** ** to_bitwise_digits_le *)
Lemma to_digits_fixed_spec k r : to_digits_fixed k bits r = le_digits_n k b r.
Proof.
  revert r; induction k as [|k IH]; intros r; [reflexivity|].
  cbn [to_digits_fixed le_digits_n]. rewrite land_mask by lia. fold b. rewrite IH. reflexivity.
Qed.

Lemma to_digits_while_spec : forall f r, 0 <= r < b ^ Z.of_nat f ->
  to_digits_while f bits r = Ret (le_digits_fuel f b r).
Proof.
  pose proof b_gt1 as Hb1.
  induction f as [|f IH]; intros r Hr.
  - simpl in Hr. assert (r = 0) by lia. subst. reflexivity.
  - cbn [to_digits_while le_digits_fuel].
    destruct (Z.eqb_spec r 0) as [->|Hnz]; [reflexivity|].
    destruct (Z.leb_spec r 0); [lia|].
    rewrite Nat2Z.inj_succ, Z.pow_succ_r in Hr by lia.
    rewrite land_mask by lia. fold b.
    rewrite IH.
    + cbn [bind]. reflexivity.
    + split; [apply Z.div_pos; lia|apply Z.div_lt_upper_bound; lia].
Qed.

Lemma flat_fixed_value l t : wf l ->
  le_value b (flat_map (fun r => to_digits_fixed n bits r) l ++ t) =
  val l + B ^ Z.of_nat (length l) * le_value b t.
Proof.
  pose proof b_gt1 as Hb1.
  induction l as [|x l IH]; intros H.
  - cbn [flat_map app val length Z.of_nat]. rewrite Z.pow_0_r. lia.
  - apply wf_cons in H as [Hx Hl]. cbn [flat_map]. rewrite <- app_assoc, le_value_app, IH by auto.
    rewrite to_digits_fixed_spec, le_digits_n_length, le_digits_n_value, b_pow_n by auto.
    rewrite Z.mod_small by exact Hx. rewrite val_cons. cbn [length]. rewrite Nat2Z.inj_succ, Z.pow_succ_r by lia. ring.
Qed.
Lemma flat_fixed_inb l : inb b (flat_map (fun r => to_digits_fixed n bits r) l).
Proof.
  induction l as [|x l IH]; [constructor|]. cbn [flat_map]. apply inb_app; split; [|exact IH].
  rewrite to_digits_fixed_spec. apply le_digits_n_inb, b_gt1.
Qed.

Lemma strip_app_fix X t : strip t = t -> t <> [] -> strip (X ++ t) = X ++ t.
Proof.
  intros Ht Hne. induction X as [|x X IH]; [exact Ht|].
  change ((x :: X) ++ t) with (x :: (X ++ t)). rewrite strip_cons, IH.
  destruct (X ++ t) eqn:E; [|reflexivity]. apply app_eq_nil in E as [_ ?]. congruence.
Qed.

Theorem to_bitwise_digits_le_spec_gen u : bits <= 8 -> canon u -> u <> [] ->
  to_bitwise_digits_le u bits = Ret (le_digits b (val u)).
Proof.
  pose proof b_gt1 as Hb1.
  intros H8 [Hwf Hs] Hne. unfold to_bitwise_digits_le.
  assert (Hdiv : 64 mod bits = 0).
  { rewrite <- Hn, Z.mul_comm. apply Z_mod_mult. }
  assert (Hq : 64 / bits = Z.of_nat n).
  { rewrite <- Hn, Z.mul_comm. apply Z_div_mult; lia. }
  replace (negb (is_nil u)) with true by (destruct u; [congruence|reflexivity]).
  replace (0 <? bits) with true by (symmetry; apply Z.ltb_lt; lia).
  replace (bits <=? 8) with true by (symmetry; apply Z.leb_le; lia).
  rewrite Hdiv. cbn [andb Z.eqb assert_ bind]. rewrite Hq, Nat2Z.id.
  destruct (@exists_last _ u Hne) as (r & top & ->).
  rewrite last_last, removelast_app by discriminate. cbn [removelast]. rewrite app_nil_r.
  apply wf_app in Hwf as [Hr Htop]. apply wf_cons in Htop as [Htop _].
  pose proof (strip_fix_snoc _ _ Hs) as Hnz.
  assert (Hlt : 0 <= top < b ^ Z.of_nat 64).
  { unfold digit in Htop. rewrite B_val in Htop. split; [lia|].
    assert (2 ^ 64 <= b ^ 64) by (apply Z.pow_le_mono_l; lia). simpl Z.of_nat.
    change (2 ^ 64) with 18446744073709551616 in *. lia. }
  rewrite (to_digits_while_spec 64 top Hlt). cbn [bind].
  destruct (le_digits_fuel_props b Hb1 64 top ltac:(lia)) as (Hi & Hsf & Hv).
  rewrite Z.max_r in Hv by lia.
  set (t := le_digits_fuel 64 b top) in *.
  assert (Htn : t <> []) by (intros E; rewrite E in Hv; simpl in Hv; unfold digit in Htop; lia).
  symmetry.
  replace (val (r ++ [top])) with (le_value b (flat_map (fun r0 => to_digits_fixed n bits r0) r ++ t)).
  - f_equal. apply le_digits_of_list; [exact Hb1| |].
    + apply inb_app; split; [apply flat_fixed_inb|exact Hi].
    + apply strip_app_fix; auto.
  - rewrite flat_fixed_value, Hv, val_app by auto. rewrite val_single. reflexivity.
Qed.
End Exact.

(** the four widths dividing 64 *)
Definition exact_width (bits : Z) : Prop := bits = 1 \/ bits = 2 \/ bits = 4 \/ bits = 8.

Theorem from_bitwise_digits_le_spec v bits : exact_width bits -> v <> [] -> inb (2 ^ bits) v ->
  from_bitwise_digits_le v bits = Ret (enc (le_value (2 ^ bits) v)).
Proof.
  intros [ -> | [ -> | [ -> | -> ] ] ] Hv H.
  - apply (from_bitwise_digits_le_spec_gen 1 64%nat); auto; lia.
  - apply (from_bitwise_digits_le_spec_gen 2 32%nat); auto; lia.
  - apply (from_bitwise_digits_le_spec_gen 4 16%nat); auto; lia.
  - apply (from_bitwise_digits_le_spec_gen 8 8%nat); auto; lia.
Qed.

Theorem to_bitwise_digits_le_spec u bits : exact_width bits -> canon u -> u <> [] ->
  to_bitwise_digits_le u bits = Ret (le_digits (2 ^ bits) (val u)).
Proof.
  intros [ -> | [ -> | [ -> | -> ] ] ] Hu Hne.
  - apply (to_bitwise_digits_le_spec_gen 1 64%nat); auto; lia.
  - apply (to_bitwise_digits_le_spec_gen 2 32%nat); auto; lia.
  - apply (to_bitwise_digits_le_spec_gen 4 16%nat); auto; lia.
  - apply (to_bitwise_digits_le_spec_gen 8 8%nat); auto; lia.
Qed.

(** ** the inexact pair: widths that do not divide 64 (3, 5, 6, 7) *)
Lemma pow2_pos k : 0 <= k -> 0 < 2 ^ k.
Proof. intros; apply Z.pow_pos_nonneg; lia. Qed.

Section Inexact.
Variable bits : Z.
Hypothesis Hbits : 0 < bits <= 8.
Let b := 2 ^ bits.

Lemma from_inexact_loop_spec : forall v d dbits,
  inb b v -> 0 <= dbits < 64 -> 0 <= d < 2 ^ dbits ->
  exists out, from_inexact_loop bits v d dbits = Ret out /\ wf out /\
              val out = d + 2 ^ dbits * le_value b v.
Proof.
  induction v as [|c v IH]; intros d dbits Hv Hdb Hd.
  - cbn [from_inexact_loop le_value]. destruct (Z.ltb_spec 0 dbits).
    + replace (dbits <? 64) with true by (symmetry; apply Z.ltb_lt; lia). cbn [assert_ bind].
      exists [d]. split; [reflexivity|]. split; [|rewrite val_single; lia].
      apply wf_cons; split; [|constructor]. unfold digit. rewrite B_val.
      assert (2 ^ dbits <= 2 ^ 63) by (apply Z.pow_le_mono_r; lia).
      change (2 ^ 63) with 9223372036854775808 in *. lia.
    + assert (dbits = 0) by lia. subst. change (2 ^ 0) with 1 in *.
      exists []. split; [reflexivity|]. split; [constructor|]. simpl. lia.
  - apply inb_cons in Hv as [Hc Hv]. fold b in Hc.
    cbn [from_inexact_loop le_value].
    replace (dbits <? 64) with true by (symmetry; apply Z.ltb_lt; lia). cbn [assert_ bind].
    pose proof (pow2_pos dbits ltac:(lia)) as HPd. set (Pd := 2 ^ dbits) in *.
    pose proof (pow2_pos bits ltac:(lia)) as HPb. fold b in HPb.
    destruct (Z.geb_spec (dbits + bits) 64) as [Hge|Hlt].
    + (* a big digit is completed *)
      set (s := 64 - dbits). assert (Hs : 0 < s <= bits) by (subst s; lia).
      pose proof (pow2_pos s ltac:(lia)) as HPs. 
      assert (HB : B = 2 ^ s * Pd).
      { subst Pd. rewrite <- Z.pow_add_r by lia. replace (s + dbits) with 64 by (subst s; lia). apply B_val. }
      set (Ps := 2 ^ s) in *.
      set (dbits2 := dbits + bits - 64).
      assert (Hd2 : 0 <= dbits2 < 8) by (subst dbits2; lia).
      replace (bits - dbits2) with s by (subst s dbits2; lia). fold Ps.
      replace ((0 <=? s) && (s <? 64)) with true
        by (symmetry; apply andb_true_intro; split; [apply Z.leb_le|apply Z.ltb_lt]; lia).
      cbn [assert_ bind].
      assert (Hb2 : b = Ps * 2 ^ dbits2).
      { subst b Ps. rewrite <- Z.pow_add_r by lia. f_equal. subst s dbits2. lia. }
      pose proof (pow2_pos dbits2 ltac:(lia)) as HP2. set (P2 := 2 ^ dbits2) in *.
      pose proof (Z.div_mod c Ps ltac:(lia)) as Hdm.
      pose proof (Z.mod_pos_bound c Ps ltac:(lia)) as Hclo.
      assert (Hchi : 0 <= c / Ps < P2).
      { split; [apply Z.div_pos; lia|apply Z.div_lt_upper_bound; lia]. }
      destruct (IH (c / Ps) dbits2 Hv ltac:(lia) Hchi) as (out & Ho & Hw & Hval).
      rewrite Ho. cbn [bind]. eexists. split; [reflexivity|].
      assert (Hmod : (c * Pd) mod B = (c mod Ps) * Pd).
      { rewrite HB. apply Z.mul_mod_distr_r; lia. }
      rewrite Hmod. subst Pd. rewrite Z.lor_comm, lor_shift_add by lia. set (Pd := 2 ^ dbits) in *.
      split.
      * apply wf_cons; split; [|exact Hw]. unfold digit. rewrite HB. nia.
      * rewrite val_cons, Hval. fold P2. rewrite HB, Hb2.
        set (clo := c mod Ps) in *. set (chi := c / Ps) in *.
        replace c with (Ps * chi + clo) by lia. ring.
    + (* the digit is not yet complete *)
      assert (Hsmall : 2 ^ (dbits + bits) <= 2 ^ 63) by (apply Z.pow_le_mono_r; lia).
      assert (Hadd : 2 ^ (dbits + bits) = Pd * b) by (subst Pd b; apply Z.pow_add_r; lia).
      assert (Hm : (c * Pd) mod B = c * Pd).
      { apply Z.mod_small. rewrite B_val. change (2 ^ 63) with 9223372036854775808 in *. nia. }
      rewrite Hm. subst Pd. rewrite Z.lor_comm, lor_shift_add by lia. set (Pd := 2 ^ dbits) in *.
      destruct (IH (c * Pd + d) (dbits + bits) Hv ltac:(lia) ltac:(nia)) as (out & Ho & Hw & Hval).
      exists out. split; [exact Ho|]. split; [exact Hw|]. rewrite Hval, Hadd. ring.
Qed.

Theorem from_inexact_bitwise_digits_le_spec_gen v : 64 mod bits <> 0 -> v <> [] -> inb b v ->
  from_inexact_bitwise_digits_le v bits = Ret (enc (le_value b v)).
Proof.
  intros Hnd Hv H. unfold from_inexact_bitwise_digits_le.
  replace (negb (is_nil v)) with true by (destruct v; [congruence|reflexivity]).
  replace (0 <? bits) with true by (symmetry; apply Z.ltb_lt; lia).
  replace (bits <=? 8) with true by (symmetry; apply Z.leb_le; lia).
  destruct (Z.eqb_spec (64 mod bits) 0); [congruence|]. cbn [andb negb assert_ bind].
  rewrite (inb_all_below bits v H). cbn [assert_ bind].
  destruct (from_inexact_loop_spec v 0 0 H ltac:(lia) ltac:(simpl; lia)) as (out & Ho & Hw & Hval).
  rewrite Ho. cbn [bind]. rewrite <- (enc_strip out Hw), Hval. do 2 f_equal.
  change (2 ^ 0) with 1. lia.
Qed.
End Inexact.

Section InexactTo.
Variable bits : Z.
Hypothesis Hbits : 0 < bits <= 8.
Let b := 2 ^ bits.

Lemma b_pos' : 0 < b. Proof. apply Z.pow_pos_nonneg; lia. Qed.

Lemma div_sub_bits rb : (rb - bits) / bits = rb / bits - 1 /\ (rb - bits) mod bits = rb mod bits.
Proof.
  replace (rb - bits) with (rb + (-1) * bits) by ring.
  rewrite Z_div_plus_full, Z_mod_plus_full by lia. split; [ring|reflexivity].
Qed.

(** the inner loop once the pending register is exact (at most 64 pending bits) *)
Lemma inner_exact c : forall f r rb, 0 <= rb <= 64 -> 0 <= r -> rb / bits < Z.of_nat f ->
  to_inexact_inner f bits c r rb =
  Ret (le_digits_n (Z.to_nat (rb / bits)) b r, r / b ^ (rb / bits), rb mod bits).
Proof.
  pose proof b_pos' as Hb.
  induction f as [|f IH]; intros r rb Hrb Hr Hf.
  - assert (0 <= rb / bits) by (apply Z.div_pos; lia). simpl in Hf. lia.
  - cbn [to_inexact_inner]. destruct (Z.ltb_spec rb bits) as [Hlt|Hge].
    + rewrite Z.div_small, Z.mod_small by lia. cbn [Z.to_nat le_digits_n]. rewrite Z.pow_0_r, Z.div_1_r. reflexivity.
    + rewrite Z.gtb_ltb. destruct (Z.ltb_spec 64 rb); [lia|]. cbn [bind].
      destruct (div_sub_bits rb) as [Hq Hm].
      assert (Hq1 : 1 <= rb / bits) by (apply Z.div_le_lower_bound; lia).
      rewrite IH; [|lia|apply Z.div_pos; [lia|apply Z.pow_pos_nonneg; lia]|lia].
      cbn [bind]. rewrite Hq, Hm, land_mask by lia. fold b.
      replace (Z.to_nat (rb / bits)) with (S (Z.to_nat (rb / bits - 1))) by lia.
      cbn [le_digits_n]. do 3 f_equal.
      rewrite Z.div_div by (try apply Z.pow_pos_nonneg; lia).
      f_equal. replace (rb / bits) with (Z.succ (rb / bits - 1)) at 2 by lia.
      rewrite Z.pow_succ_r by lia. reflexivity.
Qed.

(** one big digit [c] entering with [rbits] pending bits in [r] *)
Lemma inner_spec c r rbits : digit c -> 0 <= rbits < bits -> 0 <= r < 2 ^ rbits ->
  let R := r + c * 2 ^ rbits in
  let q := (rbits + 64) / bits in
  to_inexact_inner 72 bits c (Z.lor r ((c * 2 ^ rbits) mod B)) (rbits + 64) =
  Ret (le_digits_n (Z.to_nat q) b R, R / b ^ q, (rbits + 64) mod bits).
Proof.
  pose proof b_pos' as Hb. intros Hc Hrb Hr R q. unfold digit in Hc.
  destruct (Z.eq_dec rbits 0) as [->|Hnz].
  - change (2 ^ 0) with 1 in *. assert (r = 0) by lia. subst r R. rewrite Z.mul_1_r, Z.add_0_l.
    rewrite Z.mod_small by lia. rewrite Z.lor_0_l. subst q. rewrite ?Z.add_0_l.
    apply inner_exact; [lia|lia|]. change (Z.of_nat 72) with 72. apply Z.div_lt_upper_bound; lia.
  - pose proof (pow2_pos rbits ltac:(lia)) as HPr. set (Pr := 2 ^ rbits) in *.
    set (s := 64 - rbits). pose proof (pow2_pos s ltac:(subst s; lia)) as HPs.
    assert (HB : B = 2 ^ s * Pr).
    { subst Pr. rewrite <- Z.pow_add_r by (subst s; lia). replace (s + rbits) with 64 by (subst s; lia). apply B_val. }
    set (Ps := 2 ^ s) in *.
    assert (Hmod : (c * Pr) mod B = (c mod Ps) * Pr) by (rewrite HB; apply Z.mul_mod_distr_r; lia).
    pose proof (Z.mod_pos_bound c Ps ltac:(lia)) as Hclo.
    pose proof (Z.div_mod c Ps ltac:(lia)) as Hdm.
    assert (Hr1 : Z.lor r ((c * Pr) mod B) = R - B * (c / Ps)).
    { rewrite Hmod. unfold Pr. rewrite Z.lor_comm, lor_shift_add by (fold Pr; lia). subst R. fold Pr. rewrite HB.
      set (clo := c mod Ps) in *. set (chi := c / Ps) in *.
      replace (c * Pr) with ((Ps * chi + clo) * Pr) by (f_equal; lia). ring. }
    rewrite Hr1.
    assert (HBb : B = b * 2 ^ (64 - bits)).
    { subst b. rewrite <- Z.pow_add_r by lia. replace (bits + (64 - bits)) with 64 by lia. apply B_val. }
    change 72%nat with (S 71). remember 71%nat as f71 eqn:Ef. cbn [to_inexact_inner].
    destruct (Z.ltb_spec (rbits + 64) bits); [lia|].
    rewrite Z.gtb_ltb. destruct (Z.ltb_spec 64 (rbits + 64)); [|lia].
    replace (64 - (rbits + 64 - bits)) with (bits - rbits) by lia.
    replace ((0 <=? bits - rbits) && (bits - rbits <? 64)) with true
      by (symmetry; apply andb_true_intro; split; [apply Z.leb_le|apply Z.ltb_lt]; lia).
    cbn [assert_ bind].
    assert (HRb : c / 2 ^ (bits - rbits) = R / b).
    { subst R b. replace (2 ^ bits) with (Pr * 2 ^ (bits - rbits))
        by (subst Pr; rewrite <- Z.pow_add_r by lia; f_equal; lia).
      rewrite <- Z.div_div by (try apply Z.pow_pos_nonneg; lia).
      rewrite Z.div_add by lia. rewrite (Z.div_small r Pr) by lia. reflexivity. }
    rewrite HRb.
    assert (HR0 : 0 <= R) by (subst R; nia).
    destruct (div_sub_bits (rbits + 64)) as [Hq Hm].
    assert (Hq1 : 1 <= (rbits + 64) / bits) by (apply Z.div_le_lower_bound; lia).
    rewrite inner_exact; [|lia|apply Z.div_pos; lia|].
    + cbn [bind]. rewrite Hq, Hm. fold q.
      replace (Z.to_nat q) with (S (Z.to_nat (q - 1))) by (subst q; lia).
      cbn [le_digits_n]. rewrite land_mask by lia. fold b.
      assert (Hx : (R - B * (c / Ps)) mod b = R mod b).
      { rewrite HBb. replace (R - b * 2 ^ (64 - bits) * (c / Ps)) with (R + (- (2 ^ (64 - bits) * (c / Ps))) * b) by ring.
        apply Z_mod_plus_full. }
      rewrite Hx. do 3 f_equal.
      rewrite Z.div_div by (try apply Z.pow_pos_nonneg; lia).
      f_equal. replace q with (Z.succ (q - 1)) at 2 by lia.
      rewrite Z.pow_succ_r by (subst q; lia). reflexivity.
    + rewrite Hq, Ef. assert ((rbits + 64) / bits <= 71) by (apply Z.lt_succ_r, Z.div_lt_upper_bound; lia).
      change (Z.of_nat 71) with 71. lia.
Qed.

Lemma outer_spec : forall u r rbits, wf u -> 0 <= rbits < bits -> 0 <= r < 2 ^ rbits ->
  exists out, to_inexact_outer bits u r rbits = Ret out /\ inb b out /\
              le_value b out = r + 2 ^ rbits * val u.
Proof.
  pose proof b_pos' as Hb.
  induction u as [|c u IH]; intros r rbits Hu Hrb Hr.
  - cbn [to_inexact_outer val]. destruct (Z.eqb_spec rbits 0) as [->|Hnz].
    + exists []. change (2 ^ 0) with 1 in Hr. repeat split; [constructor|simpl; lia].
    + assert (2 ^ rbits < 2 ^ bits) by (apply Z.pow_lt_mono_r; lia).
      assert (2 ^ bits <= 2 ^ 8) by (apply Z.pow_le_mono_r; lia). change (2 ^ 8) with 256 in *.
      rewrite Z.mod_small by lia. exists [r]. repeat split.
      * apply inb_cons; split; [fold b in H; lia|constructor].
      * simpl. lia.
  - apply wf_cons in Hu as [Hc Hu]. cbn [to_inexact_outer].
    replace (rbits <? 64) with true by (symmetry; apply Z.ltb_lt; lia). cbn [assert_ bind].
    rewrite (inner_spec c r rbits Hc Hrb Hr). cbn [bind].
    set (R := r + c * 2 ^ rbits). set (q := (rbits + 64) / bits).
    pose proof (pow2_pos rbits ltac:(lia)) as HPr.
    assert (Hq0 : 0 <= q) by (subst q; apply Z.div_pos; lia).
    pose proof (Z.div_mod (rbits + 64) bits ltac:(lia)) as Hdm. fold q in Hdm.
    pose proof (Z.mod_pos_bound (rbits + 64) bits ltac:(lia)) as Hmb.
    set (rb' := (rbits + 64) mod bits) in *.
    assert (Hbq : b ^ q * 2 ^ rb' = 2 ^ rbits * B).
    { subst b. rewrite <- Z.pow_mul_r, <- Z.pow_add_r by lia. rewrite B_val.
      change 18446744073709551616 with (2 ^ 64). rewrite <- Z.pow_add_r by lia. f_equal. lia. }
    assert (Hbqp : 0 < b ^ q) by (apply Z.pow_pos_nonneg; lia).
    pose proof (pow2_pos rb' ltac:(lia)) as HP'.
    unfold digit in Hc.
    assert (HR : 0 <= R < b ^ q * 2 ^ rb') by (rewrite Hbq; subst R; nia).
    assert (Hr' : 0 <= R / b ^ q < 2 ^ rb').
    { split; [apply Z.div_pos; lia|apply Z.div_lt_upper_bound; lia]. }
    destruct (IH (R / b ^ q) rb' Hu ltac:(lia) Hr') as (rest & Ho & Hi & Hval).
    rewrite Ho. cbn [bind]. eexists. split; [reflexivity|]. split.
    + apply inb_app; split; [apply le_digits_n_inb; subst b; change 1 with (2 ^ 0); apply Z.pow_lt_mono_r; lia|exact Hi].
    + assert (Hb1 : 1 < b) by (subst b; change 1 with (2 ^ 0); apply Z.pow_lt_mono_r; lia).
      rewrite le_value_app, le_digits_n_length, le_digits_n_value, Hval, Z2Nat.id by lia.
      rewrite val_cons. pose proof (Z.div_mod R (b ^ q) ltac:(lia)) as HRdm.
      transitivity (R + (b ^ q * 2 ^ rb') * val u); [|rewrite Hbq; subst R; ring].
      rewrite HRdm at 3. ring.
Qed.

Theorem to_inexact_bitwise_digits_le_spec_gen u : 64 mod bits <> 0 -> canon u -> u <> [] ->
  to_inexact_bitwise_digits_le u bits = Ret (le_digits b (val u)).
Proof.
  intros Hnd [Hw Hs] Hne. unfold to_inexact_bitwise_digits_le.
  replace (negb (is_nil u)) with true by (destruct u; [congruence|reflexivity]).
  replace (0 <? bits) with true by (symmetry; apply Z.ltb_lt; lia).
  replace (bits <=? 8) with true by (symmetry; apply Z.leb_le; lia).
  destruct (Z.eqb_spec (64 mod bits) 0); [congruence|]. cbn [andb negb assert_ bind].
  destruct (outer_spec u 0 0 Hw ltac:(lia) ltac:(simpl; lia)) as (out & Ho & Hi & Hval).
  rewrite Ho. cbn [bind]. f_equal. change (2 ^ 0) with 1 in Hval.
  replace (val u) with (le_value b out) by lia.
  symmetry. apply le_digits_strip; [|exact Hi].
  subst b; change 1 with (2 ^ 0); apply Z.pow_lt_mono_r; lia.
Qed.
End InexactTo.

(** the four widths that do not divide 64 *)
Definition inexact_width (bits : Z) : Prop := bits = 3 \/ bits = 5 \/ bits = 6 \/ bits = 7.

Theorem from_inexact_bitwise_digits_le_spec v bits : inexact_width bits -> v <> [] -> inb (2 ^ bits) v ->
  from_inexact_bitwise_digits_le v bits = Ret (enc (le_value (2 ^ bits) v)).
Proof.
  intros Hw Hv H. apply from_inexact_bitwise_digits_le_spec_gen; auto;
    destruct Hw as [ -> | [ -> | [ -> | -> ] ] ]; try lia; discriminate.
Qed.
Theorem to_inexact_bitwise_digits_le_spec u bits : inexact_width bits -> canon u -> u <> [] ->
  to_inexact_bitwise_digits_le u bits = Ret (le_digits (2 ^ bits) (val u)).
Proof.
  intros Hw Hu Hne. apply to_inexact_bitwise_digits_le_spec_gen; auto;
    destruct Hw as [ -> | [ -> | [ -> | -> ] ] ]; try lia; discriminate.
Qed.
