(* ModpowProofs.v — plain_modpow, modpow dispatch, BigUint::modinv, BigInt modpow/modinv
   (model/Modpow.v) refine the Z-level specs of spec/SpecModpow.v.  The big multiplication
   and division are Section parameters with their specifications as hypotheses
   (instantiated in proofs/ModpowInst.v once model/Mul.v and model/Div.v are merged). *)
From BigNum Require Import Base BaseLemmas AddSub AddSubProofs ShiftCore ShiftCoreProofs
  Monty MontyProofs Modpow SpecModpow ModinvZ.
From Coq Require Import Znumtheory Zpow_facts.
Open Scope Z_scope.

(** ** The executable spec functions mean what they should *)
Lemma pos_powmod_correct b m : m <> 0 -> forall e, pos_powmod b e m = b ^ Zpos e mod m.
Proof.
  intros Hm. induction e as [e IH|e IH|]; cbn [pos_powmod].
  - rewrite IH, Pos2Z.inj_xI. rewrite <- Z.mul_mod by auto.
    rewrite Z.mul_mod_idemp_l by auto. f_equal.
    replace (2 * Z.pos e + 1) with (Z.pos e + Z.pos e + 1) by lia.
    rewrite !Z.pow_add_r, Z.pow_1_r by lia. ring.
  - rewrite IH, Pos2Z.inj_xO. rewrite <- Z.mul_mod by auto. f_equal.
    replace (2 * Z.pos e) with (Z.pos e + Z.pos e) by lia. rewrite Z.pow_add_r by lia. ring.
  - rewrite Z.pow_1_r. reflexivity.
Qed.

Theorem powmod_correct b e m : 0 <= e -> m <> 0 -> powmod b e m = b ^ e mod m.
Proof.
  intros He Hm. destruct e as [|e|e]; [reflexivity|apply pos_powmod_correct; auto|lia].
Qed.

Lemma canon_1 : canon [1].
Proof. split; [apply wf_cons; split; [unfold digit; pose proof B_gt1; lia|apply wf_nil]|reflexivity]. Qed.
Lemma enc_1 : enc 1 = [1].
Proof. rewrite <- (enc_of_canon [1] canon_1). rewrite val_single. reflexivity. Qed.

Lemma mod2_odd r : r mod 2 = Z.b2z (Z.odd r).
Proof. rewrite Zmod_odd. destruct (Z.odd r); reflexivity. Qed.

Section WithBigOps.
Variable ap : addsub_params.
Variable bmul : list Z -> list Z -> outcome (list Z).
Variable bdivrem : list Z -> list Z -> outcome (list Z * list Z).
Hypothesis Hap : addsub_ok ap = true.
Hypothesis Hmul : forall a b, canon a -> canon b -> bmul a b = Ret (enc (val a * val b)).
Hypothesis Hdivrem : forall a b, canon a -> canon b ->
  bdivrem a b = if val b =? 0 then Panic DivZero
                else Ret (enc (val a / val b), enc (val a mod val b)).

Notation brem := (Monty.brem bdivrem).
Notation brem_spec := (MontyProofs.brem_spec bdivrem Hdivrem).

(** ** plain_modpow *)
Section Plain.
Variables (m : list Z) (b : Z).
Hypothesis Cm : canon m.
Let M := val m.
Hypothesis HM : 0 < M.
Hypothesis Hb : 0 <= b.

Definition pe (a : Z) : list Z := enc (b ^ a mod M).     (* b^a mod M *)
Definition pw (t : Z) : list Z := pe (2 ^ t).            (* b^(2^t) mod M *)

Lemma pe_val a : val (pe a) = b ^ a mod M.
Proof. unfold pe. apply enc_val. apply Z.mod_pos_bound; auto. Qed.

Lemma mulmod_pe a1 a2 : 0 <= a1 -> 0 <= a2 ->
  (do s <- bmul (pe a1) (pe a2); brem s m) = Ret (pe (a1 + a2)).
Proof.
  intros H1 H2. rewrite Hmul by apply enc_canon. cbn [bind].
  rewrite brem_spec by (auto using enc_canon; fold M; lia).
  rewrite enc_val by (rewrite !pe_val; pose proof (Z.mod_pos_bound (b ^ a1) M HM);
                      pose proof (Z.mod_pos_bound (b ^ a2) M HM); nia).
  rewrite !pe_val. fold M. rewrite <- Z.mul_mod by lia. rewrite <- Z.pow_add_r by auto. reflexivity.
Qed.

Lemma sqmod_pw t : 0 <= t -> sqmod bmul bdivrem (pw t) m = Ret (pw (t + 1)).
Proof.
  intros Ht. unfold sqmod, pw. rewrite mulmod_pe by (apply Z.pow_nonneg; lia).
  do 2 f_equal. rewrite Z.pow_add_r by lia. change (2 ^ 1) with 2. ring.
Qed.

Lemma sq_times_spec k : forall t, 0 <= t ->
  sq_times bmul bdivrem k (pw t) m = Ret (pw (t + Z.of_nat k)).
Proof.
  induction k as [|k IH]; intros t Ht; cbn [sq_times].
  - do 2 f_equal. lia.
  - rewrite sqmod_pw by auto. cbn [bind]. rewrite IH by lia. do 2 f_equal. lia.
Qed.

Lemma strip_even_S f base r c :
  strip_even bmul bdivrem (S f) base m r c =
  if Z.even r then
    do base' <- sqmod bmul bdivrem base m;
    do _ <- assert_ (c + 1 <? 256) (Internal 541);
    strip_even bmul bdivrem f base' m (r / 2) (c + 1)
  else Ret (base, r, c).
Proof. reflexivity. Qed.
Lemma unit_while_S f r st :
  unit_while bmul bdivrem (S f) m r st =
  if r =? 0 then Ret st
  else do st' <- unit_step bmul bdivrem m st (Z.odd r); unit_while bmul bdivrem f m (r / 2) st'.
Proof. reflexivity. Qed.

Lemma strip_even_spec fuel : forall t r c, 0 <= t -> 0 <= c -> 0 < r -> r < 2 ^ Z.of_nat fuel ->
  r * 2 ^ c < 2 ^ 64 ->
  exists tz r', 0 <= tz /\ strip_even bmul bdivrem (S fuel) (pw t) m r c = Ret (pw (t + tz), r', c + tz) /\
    r = r' * 2 ^ tz /\ Z.odd r' = true /\ r' * 2 ^ (c + tz) < 2 ^ 64.
Proof.
  induction fuel as [|fuel IH]; intros t r c Ht Hc Hr Hf Hb64.
  - change (2 ^ Z.of_nat 0) with 1 in Hf. lia.
  - rewrite strip_even_S. destruct (Z.even r) eqn:Ev.
    + rewrite sqmod_pw by auto. cbn [bind].
      assert (E2 : r = 2 * (r / 2)).
      { pose proof (Z.div_mod r 2). rewrite Zmod_even, Ev in H. lia. }
      assert (Hc64 : c < 64).
      { destruct (Z.lt_ge_cases c 64); [auto|exfalso].
        assert (2 ^ 64 <= 2 ^ c) by (apply Z.pow_le_mono_r; lia). nia. }
      replace (c + 1 <? 256) with true by (symmetry; apply Z.ltb_lt; lia). cbn [assert_ bind].
      rewrite Nat2Z.inj_succ, Z.pow_succ_r in Hf by lia.
      destruct (IH (t + 1) (r / 2) (c + 1)) as (tz & r' & Htz & E & Er & Ho & Hb'); try lia.
      { rewrite Z.pow_add_r by lia. change (2 ^ 1) with 2. nia. }
      exists (tz + 1), r'. split; [lia|]. split.
      { replace (t + (tz + 1)) with (t + 1 + tz) by lia. replace (c + (tz + 1)) with (c + 1 + tz) by lia. exact E. }
      split. { rewrite Z.pow_add_r by lia. change (2 ^ 1) with 2. nia. }
      split; [auto|]. replace (c + (tz + 1)) with (c + 1 + tz) by lia. exact Hb'.
    + exists 0, r. split; [lia|]. rewrite !Z.add_0_r. split; [reflexivity|].
      split; [change (2 ^ 0) with 1; lia|]. split; [|auto].
      rewrite <- Z.negb_even, Ev. reflexivity.
Qed.

(** the `unit` closure on states (pw t, pe a) *)
Lemma unit_step_spec t a o : 0 <= t -> 0 <= a ->
  unit_step bmul bdivrem m (pw t, pe a) o = Ret (pw (t + 1), pe (a + Z.b2z o * 2 ^ (t + 1))).
Proof.
  intros Ht Ha. unfold unit_step. rewrite sqmod_pw by auto. cbn [bind]. destruct o; cbn [Z.b2z].
  - unfold pw at 1. pose proof (mulmod_pe a (2 ^ (t + 1)) Ha ltac:(apply Z.pow_nonneg; lia)) as E.
    destruct (bmul (pe a) (pe (2 ^ (t + 1)))) as [s| |]; cbn [bind] in *; try discriminate.
    rewrite E. cbn [bind]. do 3 f_equal. ring.
  - do 3 f_equal. ring.
Qed.

Lemma unit_n_spec k : forall t a r, 0 <= t -> 0 <= a -> 0 <= r ->
  unit_n bmul bdivrem k m r (pw t, pe a) =
  Ret (pw (t + Z.of_nat k), pe (a + 2 ^ (t + 1) * (r mod 2 ^ Z.of_nat k))).
Proof.
  induction k as [|k IH]; intros t a r Ht Ha Hr; cbn [unit_n].
  - change (2 ^ Z.of_nat 0) with 1. rewrite Z.mod_1_r. do 3 f_equal; lia.
  - rewrite unit_step_spec by auto. cbn [bind].
    assert (0 <= Z.b2z (Z.odd r)) by (destruct (Z.odd r); cbn; lia).
    assert (0 < 2 ^ (t + 1)) by (apply Z.pow_pos_nonneg; lia).
    rewrite IH by (try apply Z.div_pos; nia). f_equal. f_equal; [f_equal; lia|]. f_equal.
    rewrite Nat2Z.inj_succ, Z.pow_succ_r by lia.
    rewrite (Z.rem_mul_r r 2 (2 ^ Z.of_nat k)) by (try apply Z.pow_pos_nonneg; lia).
    rewrite mod2_odd. replace (t + 1 + 1) with (Z.succ (t + 1)) by lia. rewrite Z.pow_succ_r by lia. ring.
Qed.

Lemma unit_digits_spec ds : forall t a, wf ds -> 0 <= t -> 0 <= a ->
  unit_digits bmul bdivrem m ds (pw t, pe a) =
  Ret (pw (t + 64 * Z.of_nat (length ds)), pe (a + 2 ^ (t + 1) * val ds)).
Proof.
  induction ds as [|d ds IH]; intros t a Wd Ht Ha; cbn [unit_digits].
  - cbn [length val Z.of_nat]. do 3 f_equal; lia.
  - apply wf_cons in Wd as [Hd Wd]. unfold digit in Hd.
    rewrite (unit_n_spec 64) by lia. cbn [bind].
    change (2 ^ Z.of_nat 64) with 18446744073709551616. rewrite <- B_val. rewrite Z.mod_small by auto.
    assert (0 < 2 ^ (t + 1)) by (apply Z.pow_pos_nonneg; lia).
    rewrite IH by (auto; nia). f_equal. f_equal; [f_equal; cbn [length]; lia|]. f_equal.
    rewrite val_cons. replace (t + Z.of_nat 64 + 1) with (t + 1 + 64) by lia.
    rewrite (Z.pow_add_r 2 (t + 1) 64) by lia. change (2 ^ 64) with 18446744073709551616. rewrite <- B_val. ring.
Qed.

Lemma unit_while_spec fuel : forall t a r, 0 <= t -> 0 <= a -> 0 <= r < 2 ^ Z.of_nat fuel ->
  exists t', unit_while bmul bdivrem (S fuel) m r (pw t, pe a) = Ret (pw t', pe (a + 2 ^ (t + 1) * r)).
Proof.
  induction fuel as [|fuel IH]; intros t a r Ht Ha Hr.
  - change (2 ^ Z.of_nat 0) with 1 in Hr. assert (r = 0) by lia. subst r. exists t.
    rewrite unit_while_S. cbn [Z.eqb]. do 3 f_equal. ring.
  - rewrite unit_while_S. destruct (Z.eqb_spec r 0) as [->|Nz].
    + exists t. do 3 f_equal. ring.
    + rewrite unit_step_spec by auto. cbn [bind].
      assert (0 <= Z.b2z (Z.odd r)) by (destruct (Z.odd r); cbn; lia).
      assert (0 < 2 ^ (t + 1)) by (apply Z.pow_pos_nonneg; lia).
      rewrite Nat2Z.inj_succ, Z.pow_succ_r in Hr by lia.
      destruct (IH (t + 1) (a + Z.b2z (Z.odd r) * 2 ^ (t + 1)) (r / 2)) as (t' & E); try nia.
      exists t'. rewrite E. do 3 f_equal.
      assert (Er : r = 2 * (r / 2) + Z.b2z (Z.odd r)) by (rewrite <- mod2_odd; apply Z.div_mod; lia).
      set (h := r / 2) in *. set (o := Z.b2z (Z.odd r)) in *. rewrite Er.
      replace (t + 1 + 1) with (Z.succ (t + 1)) by lia. rewrite Z.pow_succ_r by lia. ring.
Qed.
End Plain.

Lemma first_nonzero_spec l : forall i0,
  match first_nonzero l i0 with
  | None => val l = 0
  | Some (i, d, rest) => exists j, i = (i0 + j)%nat /\ l = zeros j ++ d :: rest /\ d <> 0
  end.
Proof.
  induction l as [|x l IH]; intros i0; cbn [first_nonzero]; [reflexivity|].
  destruct (Z.eqb_spec x 0) as [->|Nx].
  - specialize (IH (S i0)). destruct (first_nonzero l (S i0)) as [[[i d] rest]|].
    + destruct IH as (j & Ei & El & Hd). exists (S j). split; [lia|]. split; [|auto].
      rewrite El. reflexivity.
    + rewrite val_cons, IH. ring.
  - exists 0%nat. split; [lia|]. split; [reflexivity|auto].
Qed.

Theorem plain_modpow_spec b e m : canon b -> canon e -> canon m -> val m <> 0 ->
  plain_modpow bmul bdivrem b e m =
  Ret (enc (if val e =? 0 then 1 else val b ^ val e mod val m)).
Proof.
  intros Cb Ce Cm Hm0. pose proof B_pos as HB.
  assert (HM : 0 < val m) by (pose proof (val_nonneg m (proj1 Cm)); lia).
  assert (Hb : 0 <= val b) by (apply val_nonneg, Cb).
  unfold plain_modpow. destruct m as [|m0 m'] eqn:Em; [cbn in Hm0; lia|]. rewrite <- Em in *.
  replace (u_is_zero m) with false by (rewrite Em; reflexivity). cbn [negb assert_ bind].
  pose proof (first_nonzero_spec e 0) as Hfn.
  destruct (first_nonzero e 0) as [[[i d] rest]|].
  2:{ rewrite Hfn. cbn [Z.eqb]. rewrite enc_1. reflexivity. }
  destruct Hfn as (j & Ei & Ee & Hd). cbn [Nat.add] in Ei. subst j.
  assert (We : wf e) by apply Ce. rewrite Ee in We. apply wf_app in We as [_ We].
  apply wf_cons in We as [Dd Wrest]. unfold digit in Dd.
  assert (Ve : val e = B ^ Z.of_nat i * (d + B * val rest)).
  { rewrite Ee, val_app, val_zeros, length_zeros, val_cons. ring. }
  assert (Hvr : 0 <= val rest) by (apply val_nonneg; auto).
  assert (HBi : 0 < B ^ Z.of_nat i) by apply B_pow_nat.
  assert (Hve : 0 < val e) by (rewrite Ve; nia).
  replace (val e =? 0) with false by (symmetry; apply Z.eqb_neq; lia).
  set (M := val m) in *. set (bv := val b) in *.
  (* base = base % modulus *)
  rewrite brem_spec by (auto; fold M; lia). cbn [bind]. fold M bv.
  assert (E0 : enc (bv mod M) = pw m bv 0).
  { unfold pw, pe. fold M. change (2 ^ 0) with 1. rewrite Z.pow_1_r. reflexivity. }
  rewrite E0. rewrite (sq_times_spec m bv Cm HM Hb) by lia. cbn [bind].
  set (t1 := 0 + Z.of_nat (64 * i)).
  assert (Ht1 : t1 = 64 * Z.of_nat i) by (unfold t1; lia).
  destruct (strip_even_spec m bv Cm HM Hb 64 t1 d 0) as (tz & r' & Htz & Es & Ed & Hodd & Hb64); try lia.
  { change (2 ^ Z.of_nat 64) with 18446744073709551616. rewrite <- B_val. lia. }
  { change (2 ^ 0) with 1. change (2 ^ 64) with 18446744073709551616. rewrite <- B_val. lia. }
  rewrite Es. cbn [bind]. rewrite Z.add_0_l in *.
  assert (Hr'pos : 1 <= r').
  { assert (0 < 2 ^ tz) by (apply Z.pow_pos_nonneg; lia). nia. }
  assert (Htz64 : tz < 64).
  { destruct (Z.lt_ge_cases tz 64); [auto|exfalso].
    assert (2 ^ 64 <= 2 ^ tz) by (apply Z.pow_le_mono_r; lia). nia. }
  set (t0 := t1 + tz) in *.
  assert (E2t0 : 2 ^ t0 = B ^ Z.of_nat i * 2 ^ tz).
  { unfold t0. rewrite Z.pow_add_r, Ht1, B_pow_2pow by lia. reflexivity. }
  assert (Er' : r' = 2 * (r' / 2) + 1).
  { pose proof (Z.div_mod r' 2). rewrite Zmod_odd, Hodd in H. lia. }
  destruct (u_is_zero rest && (r' =? 1)) eqn:Eret.
  - (* single remaining bit: exponent is a power of two *)
    apply andb_true_iff in Eret as [Er Er1]. destruct rest; [|discriminate]. apply Z.eqb_eq in Er1.
    f_equal. unfold pw, pe. fold M. do 3 f_equal.
    rewrite Ve, E2t0, Ed, Er1. cbn [val]. ring.
  - replace (tz + 1 <? 256) with true by (symmetry; apply Z.ltb_lt; lia). cbn [assert_ bind].
    assert (H2t0 : 0 <= 2 ^ t0) by (apply Z.pow_nonneg; lia).
    assert (Ht0 : 0 <= t0) by (unfold t0; lia).
    assert (Hr2 : 0 <= r' / 2) by (apply Z.div_pos; lia).
    destruct (rev rest) as [|last mid_rev] eqn:Erev.
    + (* no further digits *)
      assert (rest = []) by (rewrite <- (rev_involutive rest), Erev; reflexivity). subst rest.
      cbn [bind]. cbn [u_is_zero andb] in Eret.
      assert (Hne : r' <> 1) by (apply Z.eqb_neq; auto).
      replace (r' / 2 =? 0) with false by (symmetry; apply Z.eqb_neq; lia). cbn [negb assert_ bind].
      destruct (unit_while_spec m bv Cm HM Hb 64 t0 (2 ^ t0) (r' / 2)) as (t' & Ew); auto.
      { split; [auto|]. apply Z.div_lt_upper_bound; [lia|].
        change (2 ^ Z.of_nat 64) with (2 ^ 64). assert (0 < 2 ^ tz) by (apply Z.pow_pos_nonneg; lia). nia. }
      change (pw m bv t0, pw m bv t0) with (pw m bv t0, pe m bv (2 ^ t0)).
      rewrite Ew. cbn [bind snd]. unfold pe. fold M. do 4 f_equal.
      rewrite Ve. cbn [val]. replace (2 ^ (t0 + 1)) with (2 ^ t0 * 2) by (rewrite Z.pow_add_r by lia; reflexivity).
      rewrite E2t0, Ed. rewrite Er' at 2. ring.
    + (* digits above: rest = mid ++ [last] *)
      assert (Erest : rest = rev mid_rev ++ [last]).
      { rewrite <- (rev_involutive rest), Erev. reflexivity. }
      set (mid := rev mid_rev) in *.
      rewrite Erest in Wrest. apply wf_app in Wrest as [Wmid Wlast].
      apply wf_cons in Wlast as [Dlast _]. unfold digit in Dlast.
      assert (Hlast : last <> 0).
      { pose proof (canon_last_nonzero e Ce) as Hl. unfold last_nonzero in Hl.
        rewrite Ee, Erest in Hl.
        replace (zeros i ++ d :: mid ++ [last]) with ((zeros i ++ d :: mid) ++ [last]) in Hl
          by (rewrite <- app_assoc; reflexivity).
        rewrite rev_unit in Hl. apply negb_true_iff, Z.eqb_neq in Hl. exact Hl. }
      assert (Hk : Z.of_nat (Z.to_nat (64 - (tz + 1))) = 63 - tz) by lia.
      change (pw m bv t0, pw m bv t0) with (pw m bv t0, pe m bv (2 ^ t0)).
      rewrite (unit_n_spec m bv Cm HM Hb) by auto. cbn [bind]. rewrite Hk.
      assert (Hsmall : (r' / 2) mod 2 ^ (63 - tz) = r' / 2).
      { apply Z.mod_small. split; [auto|]. apply Z.div_lt_upper_bound; [lia|].
        replace (2 * 2 ^ (63 - tz)) with (2 ^ (64 - tz)) by (replace (64 - tz) with (Z.succ (63 - tz)) by lia; rewrite Z.pow_succ_r by lia; reflexivity).
        assert (E64 : 2 ^ 64 = 2 ^ (64 - tz) * 2 ^ tz) by (rewrite <- Z.pow_add_r by lia; f_equal; lia).
        assert (0 < 2 ^ tz) by (apply Z.pow_pos_nonneg; lia). nia. }
      rewrite Hsmall.
      assert (H2t01 : 0 < 2 ^ (t0 + 1)) by (apply Z.pow_pos_nonneg; lia).
      rewrite (unit_digits_spec m bv Cm HM Hb) by (auto; nia). cbn [bind].
      replace (last =? 0) with false by (symmetry; apply Z.eqb_neq; auto). cbn [negb assert_ bind].
      set (t2 := t0 + (63 - tz) + 64 * Z.of_nat (length mid)).
      assert (H2t1 : 0 < 2 ^ (t0 + (63 - tz) + 1)) by (apply Z.pow_pos_nonneg; lia).
      assert (Hvm : 0 <= val mid) by (apply val_nonneg; auto).
      destruct (unit_while_spec m bv Cm HM Hb 64 t2
                  (2 ^ t0 + 2 ^ (t0 + 1) * (r' / 2) + 2 ^ (t0 + (63 - tz) + 1) * val mid) last) as (t' & Ew);
        try (unfold t2; lia); try nia.
      { change (2 ^ Z.of_nat 64) with 18446744073709551616. rewrite <- B_val. lia. }
      rewrite Ew. cbn [bind snd]. unfold pe. fold M. do 4 f_equal.
      rewrite Ve, Erest, val_app, val_single.
      replace (2 ^ (t0 + 1)) with (2 ^ t0 * 2) by (rewrite Z.pow_add_r by lia; reflexivity).
      assert (E1 : 2 ^ (t0 + (63 - tz) + 1) = B ^ Z.of_nat i * B).
      { unfold t0. replace (t1 + tz + (63 - tz) + 1) with (64 * Z.of_nat i + 64) by lia.
        rewrite Z.pow_add_r, B_pow_2pow, B_val by lia. reflexivity. }
      assert (E2 : 2 ^ (t2 + 1) = B ^ Z.of_nat i * B * B ^ Z.of_nat (length mid)).
      { unfold t2, t0. replace (t1 + tz + (63 - tz) + 64 * Z.of_nat (length mid) + 1)
          with (64 * Z.of_nat i + 64 + 64 * Z.of_nat (length mid)) by lia.
        rewrite !Z.pow_add_r, !B_pow_2pow, B_val by lia. reflexivity. }
      rewrite E1, E2, E2t0, Ed. rewrite Er' at 2. ring.
Qed.

(** ** BigUint::modpow: parity dispatch *)
Notation umodpow := (Modpow.umodpow ap bmul bdivrem).

Lemma canon_nonempty_pos l : canon l -> l <> [] -> 0 < val l.
Proof. apply canon_val_pos. Qed.

Theorem umodpow_spec p x e m : modpow_ok p = true -> canon x -> canon e -> canon m ->
  Z.of_nat (length m) < 2 ^ 57 ->
  umodpow p x e m = if val m =? 0 then Panic ZeroModulus
                    else Ret (enc (val x ^ val e mod val m)).
Proof.
  intros Hp Cx Ce Cm Hlen. destruct (modpow_ok_inv p Hp) as (_ & _ & _ & _ & _ & _ & Eodd & _).
  unfold Modpow.umodpow. destruct m as [|m0 m'] eqn:Em; [reflexivity|]. rewrite <- Em in *.
  assert (HM : 0 < val m) by (apply canon_val_pos; [auto|rewrite Em; discriminate]).
  replace (val m =? 0) with false by (symmetry; apply Z.eqb_neq; lia).
  replace (u_is_zero m) with false by (rewrite Em; reflexivity). cbn [negb assert_ bind].
  rewrite Eodd. assert (Eo : u_is_odd m = Z.odd (val m)) by (rewrite val_odd, Em; reflexivity).
  rewrite Eo. destruct (Z.odd (val m)) eqn:Hodd; cbn [Bool.eqb].
  - apply monty_modpow_spec; auto.
  - rewrite plain_modpow_spec by (auto; lia).
    destruct (Z.eqb_spec (val e) 0) as [E0|]; [|reflexivity].
    rewrite E0, Z.pow_0_r. rewrite Z.mod_small; [reflexivity|].
    assert (val m <> 1) by (intros E1; rewrite E1 in Hodd; discriminate). lia.
Qed.

(** odd modulus: the Montgomery path only (no big multiplication involved) *)
Theorem umodpow_odd_spec p x e m : modpow_ok p = true -> canon x -> canon e -> canon m ->
  Z.odd (val m) = true -> Z.of_nat (length m) < 2 ^ 57 ->
  umodpow p x e m = Ret (enc (val x ^ val e mod val m)).
Proof.
  clear Hmul.
  intros Hp Cx Ce Cm Hodd Hlen. destruct (modpow_ok_inv p Hp) as (_ & _ & _ & _ & _ & _ & Eodd & _).
  unfold Modpow.umodpow. destruct m as [|m0 m'] eqn:Em; [discriminate|]. rewrite <- Em in *.
  replace (u_is_zero m) with false by (rewrite Em; reflexivity). cbn [negb assert_ bind].
  rewrite Eodd. assert (Eo : u_is_odd m = Z.odd (val m)) by (rewrite val_odd, Em; reflexivity).
  rewrite Eo, Hodd. cbn [Bool.eqb]. apply monty_modpow_spec; auto.
Qed.

(** ** BigUint::modinv *)
Lemma u_is_zero_enc v : 0 <= v -> u_is_zero (enc v) = (v =? 0).
Proof.
  intros Hv. destruct (Z.eqb_spec v 0) as [->|N]; [reflexivity|].
  destruct (enc v) eqn:E; [|reflexivity]. apply enc_nil_iff in E; auto; lia.
Qed.
Lemma u_is_one_enc v : 0 <= v -> u_is_one (enc v) = (v =? 1).
Proof.
  intros Hv. destruct (Z.eqb_spec v 1) as [->|N]; [rewrite enc_1; reflexivity|].
  pose proof (enc_val v Hv) as E. destruct (enc v) as [|d [|d' l]]; try reflexivity.
  rewrite val_single in E. cbn [u_is_one]. apply Z.eqb_neq. lia.
Qed.

Section Modinv.
Variable m : list Z.
Hypothesis Cm : canon m.
Let M := val m.
Hypothesis HM : 0 < M.

Lemma modinv_loop_sim : forall fuel r0 r1 t0 t1, 0 <= r1 -> 0 <= r0 -> 0 <= t0 < M -> 0 <= t1 < M ->
  modinv_loop ap bmul bdivrem fuel m (enc r0) (enc r1) (enc t0) (enc t1) =
  omap (option_map enc) (zinv_loop fuel M r0 r1 t0 t1).
Proof.
  induction fuel as [|fuel IH]; intros r0 r1 t0 t1 Hr1 Hr0 Ht0 Ht1; [reflexivity|].
  cbn [modinv_loop]. rewrite zinv_loop_S. rewrite u_is_zero_enc by auto.
  destruct (Z.eqb_spec r1 0) as [->|N].
  - rewrite u_is_one_enc by auto. destruct (r0 =? 1); reflexivity.
  - rewrite Hdivrem by apply enc_canon. rewrite !enc_val by lia.
    replace (r1 =? 0) with false by (symmetry; apply Z.eqb_neq; auto). cbn [bind].
    assert (Hq : 0 <= r0 / r1) by (apply Z.div_pos; lia).
    assert (Hr2 : 0 <= r0 mod r1 < r1) by (apply Z.mod_pos_bound; lia).
    rewrite Hmul by apply enc_canon. rewrite !enc_val by lia. cbn [bind].
    rewrite brem_spec by (auto using enc_canon; fold M; lia). rewrite enc_val by nia. fold M. cbn [bind].
    set (qt1 := (r0 / r1 * t1) mod M).
    assert (Hqt : 0 <= qt1 < M) by (apply Z.mod_pos_bound; auto).
    rewrite cmp_slice_spec by apply enc_canon. rewrite !enc_val by lia. cbn [bind].
    assert (Et2 : (t0 - r0 / r1 * t1) mod M = if t0 <? qt1 then t0 + (M - qt1) else t0 - qt1).
    { rewrite <- Zminus_mod_idemp_r. fold qt1. destruct (Z.ltb_spec t0 qt1).
      - symmetry. apply Z.mod_unique_pos with (-1); lia.
      - apply Z.mod_small; lia. }
    rewrite Et2.
    destruct (Z.compare_spec t0 qt1) as [Hc|Hc|Hc].
    + replace (t0 <? qt1) with false by (symmetry; apply Z.ltb_ge; lia).
      rewrite usub_spec by (auto; apply enc_wf). rewrite !enc_val by lia.
      replace (t0 <? qt1) with false by (symmetry; apply Z.ltb_ge; lia). cbn [bind].
      apply IH; lia.
    + replace (t0 <? qt1) with true by (symmetry; apply Z.ltb_lt; lia).
      rewrite usub_ref_val_spec by (auto using enc_canon). rewrite enc_val by lia. fold M.
      replace (M <? qt1) with false by (symmetry; apply Z.ltb_ge; lia). cbn [bind].
      rewrite uadd_spec by (auto using enc_canon). rewrite !enc_val by lia. cbn [bind].
      apply IH; lia.
    + replace (t0 <? qt1) with false by (symmetry; apply Z.ltb_ge; lia).
      rewrite usub_spec by (auto; apply enc_wf). rewrite !enc_val by lia.
      replace (t0 <? qt1) with false by (symmetry; apply Z.ltb_ge; lia). cbn [bind].
      apply IH; lia.
Qed.
End Modinv.

Notation umodinv := (Modpow.umodinv ap bmul bdivrem).

Theorem umodinv_rel a m : canon a -> canon m -> val m <> 0 ->
  exists r, umodinv a m = Ret (option_map enc r) /\ modinv_rel (val a) (val m) r.
Proof.
  intros Ca Cm Hm0. pose proof B_pos as HB.
  assert (HM : 0 < val m) by (pose proof (val_nonneg m (proj1 Cm)); lia).
  assert (HA : 0 <= val a) by (apply val_nonneg, Ca).
  unfold Modpow.umodinv. destruct m as [|m0 m'] eqn:Em; [cbn in Hm0; lia|]. rewrite <- Em in *.
  replace (u_is_zero m) with false by (rewrite Em; reflexivity). cbn [negb assert_ bind].
  set (M := val m) in *. set (A := val a) in *.
  assert (Eone : u_is_one m = (M =? 1)).
  { rewrite <- (u_is_one_enc M) by lia. unfold M. rewrite enc_of_canon by auto. reflexivity. }
  rewrite Eone.
  destruct (Z.eqb_spec M 1) as [E1|N1].
  { exists (Some 0). split; [reflexivity|]. cbn [modinv_rel]. rewrite E1.
    split; [left; lia|]. split; [rewrite !Z.mod_1_r; reflexivity|apply Z.gcd_1_r]. }
  rewrite brem_spec by (auto; fold M; lia). fold M A. cbn [bind].
  pose proof (Z.mod_pos_bound A M HM) as Hr1. set (r1 := A mod M) in *.
  pose proof (EInv_init A M HM) as HI0. fold r1 in HI0.
  assert (E1M : 1 mod M = 1) by (apply Z.mod_small; lia). rewrite E1M in HI0.
  rewrite u_is_zero_enc by lia. destruct (Z.eqb_spec r1 0) as [Er0|Nr0].
  { exists None. split; [reflexivity|]. rewrite Er0 in HI0.
    pose proof (EInv_final A M M 0 1 HM HI0) as Hf.
    replace (M =? 1) with false in Hf by (symmetry; apply Z.eqb_neq; auto). exact Hf. }
  destruct (EInv_step A M M r1 0 1 HM Nr0 HI0) as (HI1 & _).
  rewrite u_is_one_enc by lia. destruct (Z.eqb_spec r1 1) as [Er1|Nr1].
  { exists (Some 1). split; [rewrite Er1; reflexivity|]. cbn [modinv_rel].
    destruct HI0 as (_ & _ & _ & _ & E & G). rewrite Z.mul_1_l in E. fold r1 in E.
    split; [left; lia|]. split; [rewrite Z.mul_1_r; fold r1; rewrite Er1; auto|].
    rewrite <- G, Er1. apply Z.gcd_1_r. }
  rewrite Hdivrem by (auto using enc_canon). rewrite !enc_val by lia. fold M.
  replace (r1 =? 0) with false by (symmetry; apply Z.eqb_neq; auto). cbn [bind].
  set (q := M / r1) in *. set (r2 := M mod r1) in *.
  assert (Hr2 : 0 <= r2 < r1) by (apply Z.mod_pos_bound; lia).
  assert (Hq : 1 <= q) by (apply Z.div_le_lower_bound; lia).
  assert (Hq2 : 2 * q <= M).
  { assert (q * 2 <= M); [|lia]. unfold q. transitivity (M / r1 * r1); [nia|]. rewrite Z.mul_comm. apply Z.mul_div_le; lia. }
  assert (Et1 : (0 - q * 1) mod M = M - q).
  { symmetry. apply Z.mod_unique_pos with (-1); lia. }
  rewrite Et1 in HI1.
  rewrite u_is_zero_enc by lia. destruct (Z.eqb_spec r2 0) as [Er2|Nr2].
  { exists None. split; [reflexivity|]. rewrite Er2 in HI1.
    pose proof (EInv_final A M r1 1 (M - q) HM HI1) as Hf.
    replace (r1 =? 1) with false in Hf by (symmetry; apply Z.eqb_neq; auto). exact Hf. }
  rewrite usub_ref_val_spec by (auto using enc_canon). rewrite enc_val by lia. fold M.
  replace (M <? q) with false by (symmetry; apply Z.ltb_ge; lia). cbn [bind].
  rewrite <- enc_1. rewrite (modinv_loop_sim m Cm HM) by (fold M; lia). fold M.
  unfold modinv_fuel. replace (128 * length m + 2)%nat with (S (128 * length m + 1)) by lia.
  destruct (zinv_loop_ok A M HM (128 * length m + 1) r1 r2 1 (M - q) HI1) as (r & E & Hr).
  { pose proof (val_bound m (proj1 Cm)) as Hb. fold M in Hb. rewrite B_pow_2pow in Hb.
    assert (r1 * r2 < M * M) by nia.
    assert (M * M < 2 ^ (64 * Z.of_nat (length m)) * 2 ^ (64 * Z.of_nat (length m))) by nia.
    rewrite <- Z.pow_add_r in H0 by lia.
    assert (2 ^ (64 * Z.of_nat (length m) + 64 * Z.of_nat (length m)) <= 2 ^ Z.of_nat (128 * length m + 1))
      by (apply Z.pow_le_mono_r; lia). lia. }
  rewrite E. exists r. split; [reflexivity|exact Hr].
Qed.

Theorem umodinv_spec a m : canon a -> canon m ->
  umodinv a m = omap (option_map enc) (spec_umodinv (val a) (val m)).
Proof.
  intros Ca Cm. unfold spec_umodinv. destruct (Z.eqb_spec (val m) 0) as [E0|N0].
  - apply canon_val_zero in E0; auto. subst m. reflexivity.
  - destruct (umodinv_rel a m Ca Cm N0) as (r & E & Hr). rewrite E.
    assert (HM : 0 < val m) by (pose proof (val_nonneg m (proj1 Cm)); lia).
    destruct (zmodinv_pos_char (val a) (val m) HM) as (r' & E' & Hr'). rewrite E'.
    rewrite (modinv_rel_unique _ _ _ _ N0 Hr Hr'). reflexivity.
Qed.

(** ** BigInt: sign placement *)
Notation imodpow := (Modpow.imodpow ap bmul bdivrem).
Notation imodinv := (Modpow.imodinv ap bmul bdivrem).

Lemma icanon_facts x : icanon x ->
  canon (mag x) /\ val (mag x) = Z.abs (ival x) /\
  i_is_negative x = (ival x <? 0) /\ i_is_zero x = (ival x =? 0).
Proof.
  intros Hx. destruct (icanon_sign x Hx) as (Es & Ev). split; [apply Hx|]. split; [auto|].
  unfold i_is_negative, i_is_zero. rewrite Es. destruct (ival x); split; reflexivity.
Qed.

Lemma place_sign_canon (s : sign) (flip : bool) a b mg r :
  arm_lookup canon_arms a b = Some (s, flip) ->
  canon mg -> 0 < r < val mg ->
  place_sign ap canon_arms a b mg (enc r) =
  Ret (ienc (sign_z s * (if flip then val mg - r else r))).
Proof.
  clear Hmul Hdivrem.
  intros El Cm Hr. unfold place_sign. rewrite El. destruct flip.
  - rewrite usub_ref_val_spec by (auto using enc_canon). rewrite enc_val by lia.
    replace (val mg <? r) with false by (symmetry; apply Z.ltb_ge; lia). cbn [bind].
    rewrite from_biguint_ienc by apply enc_canon. rewrite enc_val by lia. reflexivity.
  - cbn [bind]. rewrite from_biguint_ienc by apply enc_canon. rewrite enc_val by lia. reflexivity.
Qed.

Lemma imodpow_core p x e m : modpow_ok p = true -> icanon x -> icanon e -> icanon m ->
  (0 <= ival e -> ival m <> 0 ->
   umodpow p (mag x) (mag e) (mag m) =
   Ret (enc (val (mag x) ^ val (mag e) mod val (mag m)))) ->
  imodpow p x e m =
  if ival e <? 0 then Panic NegExponent
  else if ival m =? 0 then Panic ZeroModulus
  else Ret (ienc (ival x ^ ival e mod ival m)).
Proof.
  clear Hmul Hdivrem.
  intros Hp Hx He Hm Hum. destruct (modpow_ok_inv p Hp) as (_ & _ & _ & _ & _ & _ & _ & Earms & _).
  destruct (icanon_facts x Hx) as (Cx & Vx & Nx & _).
  destruct (icanon_facts e He) as (Ce & Ve & Ne & _).
  destruct (icanon_facts m Hm) as (Cm & Vm & Nm & Zm).
  unfold Modpow.imodpow. rewrite Ne, Zm.
  destruct (Z.ltb_spec (ival e) 0) as [HE|HE]; [reflexivity|]. cbn [negb assert_ bind].
  destruct (Z.eqb_spec (ival m) 0) as [HM0|HM0]; [reflexivity|]. cbn [negb assert_ bind].
  rewrite Hum by auto. rewrite Vx, Ve, Vm, (Z.abs_eq (ival e)) by lia. cbn [bind].
  set (X := ival x) in *. set (E := ival e) in *. set (Mv := ival m) in *.
  set (P := Z.abs X ^ E). assert (HP : 0 <= P) by (apply Z.pow_nonneg; lia).
  pose proof (Z.mod_pos_bound P (Z.abs Mv) ltac:(lia)) as Hr. set (r := P mod Z.abs Mv) in *.
  assert (EXE : X ^ E = if (X <? 0) && Z.odd E then - P else P).
  { unfold P. destruct (Z.ltb_spec X 0) as [HX|HX]; cbn [andb].
    - rewrite (Z.abs_neq X) by lia. destruct (Z.odd E) eqn:Ho.
      + rewrite Z.pow_opp_odd by (apply Z.odd_spec; auto). lia.
      + rewrite Z.pow_opp_even by (apply Z.even_spec; rewrite <- Z.negb_odd, Ho; reflexivity). reflexivity.
    - rewrite Z.abs_eq by lia. reflexivity. }
  rewrite u_is_zero_enc by lia. destruct (Z.eqb_spec r 0) as [Hr0|Hr0].
  - (* result zero *)
    assert (D : (Mv | X ^ E)).
    { assert (D0 : (Z.abs Mv | P)) by (apply Z.mod_divide; [lia|exact Hr0]).
      apply (proj1 (Z.divide_abs_l _ _)) in D0. rewrite EXE. destruct ((X <? 0) && Z.odd E); [apply Z.divide_opp_r|]; auto. }
    apply Z.mod_divide in D; [|auto]. rewrite D. reflexivity.
  - rewrite Earms, Nx, Nm.
    assert (Eo : u_is_odd (mag e) = Z.odd E).
    { unfold u_is_odd. rewrite <- (Z.abs_eq E), <- Ve, val_odd by lia. destruct (mag e); reflexivity. }
    rewrite Eo.
    assert (Hrr : 0 < r < val (mag m)) by (rewrite Vm; fold Mv; lia).
    destruct ((X <? 0) && Z.odd E) eqn:Eneg; destruct (Z.ltb_spec Mv 0) as [HMn|HMn];
      erewrite place_sign_canon by (try reflexivity; auto); rewrite Vm; fold Mv; rewrite EXE; cbn [sign_z];
      f_equal; f_equal.
    + (* (-P) mod (-|M|) = -(P mod |M|) *)
      set (n := Z.abs Mv) in *. assert (EM : Mv = - n) by lia. rewrite EM.
      rewrite Z.mod_opp_opp by lia. fold r. lia.
    + set (n := Z.abs Mv) in *. assert (EM : Mv = n) by lia. rewrite EM.
      rewrite Z.mod_opp_l_nz by (fold r; lia). fold r. lia.
    + set (n := Z.abs Mv) in *. assert (EM : Mv = - n) by lia. rewrite EM.
      rewrite Z.mod_opp_r_nz by (fold r; lia). fold r. lia.
    + set (n := Z.abs Mv) in *. assert (EM : Mv = n) by lia. rewrite EM. fold r. lia.
Qed.

Theorem imodpow_spec p x e m : modpow_ok p = true -> icanon x -> icanon e -> icanon m ->
  Z.of_nat (length (mag m)) < 2 ^ 57 ->
  imodpow p x e m =
  if ival e <? 0 then Panic NegExponent
  else if ival m =? 0 then Panic ZeroModulus
  else Ret (ienc (ival x ^ ival e mod ival m)).
Proof.
  intros Hp Hx He Hm Hlen. apply imodpow_core; auto. intros _ HM0.
  destruct (icanon_facts m Hm) as (Cm & Vm & _).
  rewrite umodpow_spec by (auto; apply Hx || apply He).
  replace (val (mag m) =? 0) with false by (symmetry; apply Z.eqb_neq; lia). reflexivity.
Qed.

(** odd |m|: closed under the division spec alone *)
Theorem imodpow_odd_spec p x e m : modpow_ok p = true -> icanon x -> icanon e -> icanon m ->
  Z.odd (ival m) = true -> Z.of_nat (length (mag m)) < 2 ^ 57 ->
  imodpow p x e m =
  if ival e <? 0 then Panic NegExponent else Ret (ienc (ival x ^ ival e mod ival m)).
Proof.
  clear Hmul.
  intros Hp Hx He Hm Hodd Hlen. rewrite imodpow_core; auto.
  - replace (ival m =? 0) with false; [reflexivity|].
    symmetry; apply Z.eqb_neq. intros E0. rewrite E0 in Hodd. discriminate.
  - intros _ _. destruct (icanon_facts m Hm) as (Cm & Vm & _).
    apply umodpow_odd_spec; auto; try apply Hx; try apply He.
    rewrite Vm. destruct (Z.abs_spec (ival m)) as [[_ ->]|[_ ->]]; [exact Hodd|rewrite Z.odd_opp; exact Hodd].
Qed.

Theorem imodinv_rel p x m : modpow_ok p = true -> icanon x -> icanon m -> ival m <> 0 ->
  exists r, imodinv p x m = Ret (option_map ienc r) /\ modinv_rel (ival x) (ival m) r.
Proof.
  intros Hp Hx Hm HM0.
  destruct (modpow_ok_inv p Hp) as (_ & _ & _ & _ & _ & _ & _ & _ & Earms & Eguard).
  destruct (icanon_facts x Hx) as (Cx & Vx & Nx & _).
  destruct (icanon_facts m Hm) as (Cm & Vm & Nm & _).
  unfold Modpow.imodinv.
  destruct (umodinv_rel (mag x) (mag m) Cx Cm ltac:(rewrite Vm; lia)) as (r0 & E0 & H0).
  rewrite E0. cbn [bind]. rewrite Vx, Vm in H0.
  set (X := ival x) in *. set (Mv := ival m) in *.
  destruct r0 as [u|]; cbn [option_map modinv_rel] in *.
  2:{ exists None. split; [reflexivity|]. cbn [modinv_rel]. rewrite Z.gcd_abs_l, Z.gcd_abs_r in H0. exact H0. }
  destruct H0 as (Ru & Eu & G). rewrite Z.gcd_abs_l, Z.gcd_abs_r in G.
  assert (Hu : 0 <= u < Z.abs Mv) by (unfold in_range in Ru; lia).
  apply cong_iff_divide in Eu; [|lia]. destruct Eu as (k & Ek).
  rewrite Eguard. rewrite u_is_zero_enc by lia. cbn [andb].
  destruct (Z.eqb_spec u 0) as [Hu0|Hu0].
  - exists (Some 0). split; [reflexivity|]. cbn [modinv_rel]. split; [unfold in_range; lia|].
    split; [|auto]. apply cong_iff_divide; [auto|]. subst u.
    set (n := Z.abs Mv) in *. assert (Hk : k < 0) by nia. assert (Hn : n = 1) by nia.
    exists (- Z.sgn Mv). unfold n in Hn. lia.
  - rewrite Earms, Nx, Nm. assert (Hrr : 0 < u < val (mag m)) by (rewrite Vm; fold Mv; lia).
    destruct (Z.ltb_spec X 0) as [HXn|HXn]; destruct (Z.ltb_spec Mv 0) as [HMn|HMn];
      erewrite place_sign_canon by (try reflexivity; auto); rewrite Vm; fold Mv; cbn [bind sign_z];
      eexists (Some _); (split; [reflexivity|]); cbn [modinv_rel]; (split; [unfold in_range; lia|]);
      (split; [|auto]); (apply cong_iff_divide; [auto|]).
    + exists (- k). rewrite (Z.abs_neq X), (Z.abs_neq Mv) in Ek by lia. lia.
    + exists (k + X). rewrite (Z.abs_neq X), (Z.abs_eq Mv) in Ek by lia. rewrite (Z.abs_eq Mv) by lia. lia.
    + exists (X - k). rewrite (Z.abs_eq X), (Z.abs_neq Mv) in Ek by lia. rewrite (Z.abs_neq Mv) by lia. lia.
    + exists k. rewrite (Z.abs_eq X), (Z.abs_eq Mv) in Ek by lia. lia.
Qed.

Theorem imodinv_spec p x m : modpow_ok p = true -> icanon x -> icanon m ->
  imodinv p x m = omap (option_map ienc) (spec_imodinv (ival x) (ival m)).
Proof.
  intros Hp Hx Hm. unfold spec_imodinv. destruct (Z.eqb_spec (ival m) 0) as [E0|N0].
  - destruct (icanon_facts m Hm) as (Cm & Vm & _). rewrite E0 in Vm. apply canon_val_zero in Vm; auto.
    unfold Modpow.imodinv, Modpow.umodinv. rewrite Vm. reflexivity.
  - destruct (imodinv_rel p x m Hp Hx Hm N0) as (r & E & Hr). rewrite E.
    destruct (zmodinv_char (ival x) (ival m) N0) as (r' & E' & Hr'). rewrite E'.
    rewrite (modinv_rel_unique _ _ _ _ N0 Hr Hr'). reflexivity.
Qed.

End WithBigOps.
