(* BytesProofs.v — byte / digit-vector import and export (C09): u32-word constructors,
   from/to_bytes, to_u32/u64_digits, two's complement and the signed-bytes forms. *)
From BigNum Require Import Base BaseLemmas SpecBytes BytesLemmas BitDigits BitDigitsProofs
  SrcLit SrcLitLemmas Iter IterProofs Bytes.
Open Scope Z_scope.

(** ** the source-extracted parameters the proofs are about *)
Definition fsb_std : fsb_params :=
  {| fs_cmp := Cgt; fs_k := 127; fs_neg := Minus; fs_pos := Plus; fs_tc_eq := true; fs_tc_sign := Minus |}.
Definition tsb_std : tsb_params :=
  {| ts_hi_cmp := Cgt; ts_hi_k := 127; ts_exc_neg := true; ts_exc_cmp := Ceq; ts_exc_k := 128;
     ts_exc_skip := 1%nat; ts_exc_eq := true; ts_exc_sign := Minus; ts_ext := 0;
     ts_tc_eq := true; ts_tc_sign := Minus |}.
Definition bytes_std : bytes_params :=
  {| byp_zero_neg := false; byp_zero_bytes := [0]; byp_to_bits := 8;
     byp_empty_neg := false; byp_from_bits := 8;
     byp_fs_be := fsb_std; byp_fs_le := fsb_std; byp_ts_be := tsb_std; byp_ts_le := tsb_std |}.

Definition fsb_ok (f : fsb_params) : bool :=
  cmpop_eqb (fs_cmp f) Cgt && (fs_k f =? 127) && sign_eqb (fs_neg f) Minus && sign_eqb (fs_pos f) Plus
  && Bool.eqb (fs_tc_eq f) true && sign_eqb (fs_tc_sign f) Minus.
Definition tsb_ok (t : tsb_params) : bool :=
  cmpop_eqb (ts_hi_cmp t) Cgt && (ts_hi_k t =? 127) && Bool.eqb (ts_exc_neg t) true
  && cmpop_eqb (ts_exc_cmp t) Ceq && (ts_exc_k t =? 128) && Nat.eqb (ts_exc_skip t) 1
  && Bool.eqb (ts_exc_eq t) true && sign_eqb (ts_exc_sign t) Minus && (ts_ext t =? 0)
  && Bool.eqb (ts_tc_eq t) true && sign_eqb (ts_tc_sign t) Minus.
Definition is_single0 (l : list Z) : bool := match l with [z] => z =? 0 | _ => false end.
Definition bytes_ok (p : bytes_params) : bool :=
  Bool.eqb (byp_zero_neg p) false && is_single0 (byp_zero_bytes p) && (byp_to_bits p =? 8)
  && Bool.eqb (byp_empty_neg p) false && (byp_from_bits p =? 8)
  && fsb_ok (byp_fs_be p) && fsb_ok (byp_fs_le p) && tsb_ok (byp_ts_be p) && tsb_ok (byp_ts_le p).

Lemma fsb_ok_inv f : fsb_ok f = true -> f = fsb_std.
Proof.
  destruct f. unfold fsb_ok, fsb_std. cbn -[Z.eqb]. intros H. pin_fields_in H. subst. reflexivity.
Qed.
Lemma tsb_ok_inv t : tsb_ok t = true -> t = tsb_std.
Proof.
  destruct t. unfold tsb_ok, tsb_std. cbn -[Z.eqb Nat.eqb]. intros H. pin_fields_in H. subst. reflexivity.
Qed.
Lemma is_single0_inv l : is_single0 l = true -> l = [0].
Proof. destruct l as [|z [|? ?]]; try discriminate. cbn. intros H. apply Z.eqb_eq in H. congruence. Qed.
(** every field is pinned: the accepted parameter record is exactly [bytes_std] *)
Lemma bytes_ok_inv p : bytes_ok p = true -> p = bytes_std.
Proof.
  destruct p. unfold bytes_ok, bytes_std. cbn -[Z.eqb fsb_ok tsb_ok is_single0]. intros H.
  rewrite !andb_true_iff in H. repeat match goal with H : _ /\ _ |- _ => destruct H end.
  repeat match goal with
  | H : fsb_ok _ = true |- _ => apply fsb_ok_inv in H
  | H : tsb_ok _ = true |- _ => apply tsb_ok_inv in H
  | H : is_single0 _ = true |- _ => apply is_single0_inv in H
  | H : Bool.eqb _ _ = true |- _ => apply Bool.eqb_prop in H
  | H : Z.eqb _ _ = true |- _ => apply Z.eqb_eq in H
  end.
  subst. reflexivity.
Qed.
Ltac by_std p H := apply bytes_ok_inv in H; subst p.
Ltac by_red :=
  cbn [bytes_std fsb_std tsb_std byp_zero_neg byp_zero_bytes byp_to_bits byp_empty_neg byp_from_bits
       byp_fs_be byp_fs_le byp_ts_be byp_ts_le fs_cmp fs_k fs_neg fs_pos fs_tc_eq fs_tc_sign
       ts_hi_cmp ts_hi_k ts_exc_neg ts_exc_cmp ts_exc_k ts_exc_skip ts_exc_eq ts_exc_sign ts_ext
       ts_tc_eq ts_tc_sign cmp_eval blit sign_test] in *.

(** ** u32 words -> native digits *)
Lemma pair_words_spec : forall w, inb W32 w ->
  wf (pair_words w) /\ val (pair_words w) = le_value W32 w.
Proof.
  fix IH 1. intros w H. destruct w as [|lo [|hi r]].
  - split; [constructor|reflexivity].
  - apply inb_cons in H as [Hlo _]. cbn [pair_words]. split.
    + apply wf_cons; split; [|constructor]. unfold digit. rewrite B_val. rewrite W32_val in Hlo. lia.
    + cbn [val le_value]. lia.
  - apply inb_cons in H as [Hlo H]. apply inb_cons in H as [Hhi Hr].
    destruct (IH r Hr) as [Hw Hv]. cbn [pair_words].
    assert (Hm : (hi * 2 ^ 32) mod B = hi * 2 ^ 32).
    { apply Z.mod_small. rewrite B_val. rewrite W32_val in Hhi. lia. }
    rewrite Hm, lor_add_shift by (unfold W32 in Hlo; lia).
    split.
    + apply wf_cons; split; [|exact Hw]. unfold digit. rewrite B_val. rewrite W32_val in *. lia.
    + cbn [val le_value]. rewrite Hv. fold W32. rewrite <- W32_sq. ring.
Qed.

Theorem uassign_from_slice_spec self w : inb W32 w ->
  uassign_from_slice self w = enc (le_value W32 w).
Proof.
  intros H. destruct (pair_words_spec w H) as [Hw Hv].
  unfold uassign_from_slice. rewrite <- Hv, enc_strip by auto. reflexivity.
Qed.
Theorem unew_spec w : inb W32 w -> unew w = enc (spec_from_words w).
Proof. apply uassign_from_slice_spec. Qed.
Theorem ufrom_slice_spec w : inb W32 w -> ufrom_slice w = enc (spec_from_words w).
Proof. apply uassign_from_slice_spec. Qed.

Lemma spec_from_words_nonneg w : inb W32 w -> 0 <= spec_from_words w.
Proof. intros H. apply (le_value_bound W32 w); [reflexivity|auto]. Qed.

Lemma from_biguint_enc s n : 0 <= n -> from_biguint s (enc n) = ienc (sign_z s * n).
Proof. intros Hn. rewrite from_biguint_ienc by apply enc_canon. rewrite enc_val by auto. reflexivity. Qed.

Theorem inew_spec s w : inb W32 w -> inew s w = ienc (sign_z s * spec_from_words w).
Proof.
  intros H. unfold inew. rewrite unew_spec by auto. apply from_biguint_enc, spec_from_words_nonneg; auto.
Qed.
Theorem ifrom_slice_spec s w : inb W32 w -> ifrom_slice s w = ienc (sign_z s * spec_from_words w).
Proof. apply inew_spec. Qed.
Theorem iassign_from_slice_spec self s w : inb W32 w ->
  iassign_from_slice self s w = ienc (sign_z s * spec_from_words w).
Proof.
  intros H. pose proof (spec_from_words_nonneg w H) as Hn.
  rewrite <- ifrom_slice_spec by auto. unfold iassign_from_slice, ifrom_slice, ufrom_slice, from_biguint.
  rewrite !uassign_from_slice_spec by auto.
  destruct s; try reflexivity; destruct (enc (le_value W32 w)); reflexivity.
Qed.

(** ** bytes *)
Lemma pow2_8 : 2 ^ 8 = 256. Proof. reflexivity. Qed.
Lemma width8 : exact_width 8. Proof. unfold exact_width; auto. Qed.

Theorem ufrom_bytes_le_spec p bs : bytes_ok p = true -> inb 256 bs ->
  ufrom_bytes_le p bs = Ret (enc (spec_from_bytes_le bs)).
Proof.
  intros Hok; by_std p Hok. intros H. unfold ufrom_bytes_le, spec_from_bytes_le. by_red. destruct bs as [|c r] eqn:E; [reflexivity|].
  rewrite <- E in *. cbn [is_nil]. rewrite E at 1. cbn [is_nil].
  rewrite from_bitwise_digits_le_spec; [reflexivity|apply width8|rewrite E; discriminate|exact H].
Qed.
Theorem ufrom_bytes_be_spec p bs : bytes_ok p = true -> inb 256 bs ->
  ufrom_bytes_be p bs = Ret (enc (spec_from_bytes_be bs)).
Proof.
  intros Hok H. unfold ufrom_bytes_be, spec_from_bytes_be. destruct bs as [|c r] eqn:E; [reflexivity|].
  rewrite <- E in *. rewrite E at 1. cbn [is_nil]. apply ufrom_bytes_le_spec; [exact Hok|apply inb_rev, H].
Qed.

Theorem uto_bytes_le_spec p u : bytes_ok p = true -> canon u ->
  uto_bytes_le p u = Ret (spec_to_bytes_le (val u)).
Proof.
  intros Hok; by_std p Hok. intros Hu. unfold uto_bytes_le, spec_to_bytes_le. by_red. destruct u as [|c r] eqn:E; [reflexivity|].
  rewrite <- E in *. assert (Hne : u <> []) by (rewrite E; discriminate).
  rewrite E at 1. cbn [is_nil].
  pose proof (canon_val_pos u Hu Hne). destruct (Z.eqb_spec (val u) 0); [lia|].
  rewrite to_bitwise_digits_le_spec; [reflexivity|apply width8|exact Hu|exact Hne].
Qed.
Theorem uto_bytes_be_spec p u : bytes_ok p = true -> canon u ->
  uto_bytes_be p u = Ret (spec_to_bytes_be (val u)).
Proof. intros Hok Hu. unfold uto_bytes_be. rewrite uto_bytes_le_spec by auto. reflexivity. Qed.

Theorem uto_u32_digits_spec ip u : iter_ok ip = true -> canon u ->
  uto_u32_digits ip u = Ret (spec_to_u32_digits (val u)).
Proof. apply it_collect_spec. Qed.
Theorem uto_u64_digits_spec u : canon u -> uto_u64_digits u = spec_to_u64_digits (val u).
Proof.
  intros Hu. unfold uto_u64_digits, spec_to_u64_digits.
  transitivity (le_digits B (val u)).
  - rewrite le_digits_B_enc by (apply val_nonneg, Hu). symmetry; apply enc_of_canon; auto.
  - f_equal; try (rewrite B_val; reflexivity).
Qed.

Theorem ifrom_bytes_le_spec p s bs : bytes_ok p = true -> inb 256 bs ->
  ifrom_bytes_le p s bs = Ret (ienc (sign_z s * spec_from_bytes_le bs)).
Proof.
  intros Hok H. unfold ifrom_bytes_le. rewrite ufrom_bytes_le_spec by auto. cbn [bind].
  rewrite from_biguint_enc; [reflexivity|]. apply (le_value_bound 256 bs); [reflexivity|auto].
Qed.
Theorem ifrom_bytes_be_spec p s bs : bytes_ok p = true -> inb 256 bs ->
  ifrom_bytes_be p s bs = Ret (ienc (sign_z s * spec_from_bytes_be bs)).
Proof.
  intros Hok H. unfold ifrom_bytes_be. rewrite ufrom_bytes_be_spec by auto. cbn [bind].
  rewrite from_biguint_enc; [reflexivity|]. apply (le_value_bound 256 (rev bs)); [reflexivity|apply inb_rev; auto].
Qed.

(** the BigInt exports: sign and magnitude *)
Lemma icanon_parts x : icanon x -> canon (mag x) /\ sg x = z_sign (ival x) /\ val (mag x) = Z.abs (ival x).
Proof. intros H. split; [apply H|apply icanon_sign, H]. Qed.
Theorem ito_bytes_le_spec p x : bytes_ok p = true -> icanon x ->
  ito_bytes_le p x = Ret (z_sign (ival x), spec_to_bytes_le (Z.abs (ival x))).
Proof.
  intros Hok H. destruct (icanon_parts x H) as (Hc & Hs & Hv). unfold ito_bytes_le.
  rewrite uto_bytes_le_spec by auto. cbn [bind]. rewrite Hs, Hv. reflexivity.
Qed.
Theorem ito_bytes_be_spec p x : bytes_ok p = true -> icanon x ->
  ito_bytes_be p x = Ret (z_sign (ival x), spec_to_bytes_be (Z.abs (ival x))).
Proof.
  intros Hok H. destruct (icanon_parts x H) as (Hc & Hs & Hv). unfold ito_bytes_be.
  rewrite uto_bytes_be_spec by auto. cbn [bind]. rewrite Hs, Hv. reflexivity.
Qed.
Theorem ito_u32_digits_spec ip x : iter_ok ip = true -> icanon x ->
  ito_u32_digits ip x = Ret (z_sign (ival x), spec_to_u32_digits (Z.abs (ival x))).
Proof.
  intros Hok H. destruct (icanon_parts x H) as (Hc & Hs & Hv). unfold ito_u32_digits.
  rewrite uto_u32_digits_spec by auto. cbn [bind]. rewrite Hs, Hv. reflexivity.
Qed.
Theorem ito_u64_digits_spec x : icanon x ->
  ito_u64_digits x = (z_sign (ival x), spec_to_u64_digits (Z.abs (ival x))).
Proof.
  intros H. destruct (icanon_parts x H) as (Hc & Hs & Hv). unfold ito_u64_digits.
  rewrite uto_u64_digits_spec by auto. rewrite Hs, Hv. reflexivity.
Qed.
