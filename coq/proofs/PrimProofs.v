(* PrimProofs.v — C08: primitive integer conversions (both directions, TryFrom). *)
From BigNum Require Import Base BaseLemmas ShiftCore AddSub Prim SpecPrim.
Open Scope Z_scope.

Definition hb_opd_eqb (a b : hb_operand) : bool :=
  match a, b with HDigitBits, HDigitBits | HBitsWant, HBitsWant | HOther, HOther => true | _, _ => false end.
Definition hb_pair_eqb (a b : hb_operand * hb_operand) : bool :=
  hb_opd_eqb (fst a) (fst b) && hb_opd_eqb (snd a) (snd b).

(** what the theorems need from the source-extracted decision points *)
Definition prim_ok (p : prim_params) : bool :=
  hb_opd_eqb (pp_hb_sub p) HDigitBits && (pp_hb_width p =? 64) &&
  hb_pair_eqb (pp_hb_shr p) (HDigitBits, HBitsWant) &&
  hb_pair_eqb (pp_hb_guard p) (HDigitBits, HBitsWant) &&
  (pp_hb_mask_c p =? 64) && hb_pair_eqb (pp_hb_mask p) (HDigitBits, HBitsWant) &&
  cmpop_eqb (pp_f64_cmp p) Cgt && (pp_f64_max p =? 1024) &&
  cmpop_eqb (pp_f32_cmp p) Cgt && (pp_f32_max p =? 128) &&
  (pp_i64_edge p =? 63) && (pp_i128_edge p =? 127) &&
  cmpop_eqb (pp_u64_cmp p) Cge && (pp_u64_lim p =? 64) &&
  cmpop_eqb (pp_u128_cmp p) Cge && (pp_u128_lim p =? 128).
