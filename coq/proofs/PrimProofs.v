(* PrimProofs.v — C08: primitive integer conversions (both directions, TryFrom). *)
From BigNum Require Import Base BaseLemmas ShiftCore ShiftCoreProofs AddSub Prim SpecPrim PrimProofsCast.
Open Scope Z_scope.

(** * BigUint -> integer *)
Lemma canon_two_lower d1 d2 r : canon (d1 :: d2 :: r) -> B <= val (d1 :: d2 :: r).
Proof.
  intros Hc. pose proof (canon_lower _ Hc ltac:(discriminate)) as H.
  cbn [length] in H.
  assert (B ^ 1 <= B ^ (Z.of_nat (S (S (length r))) - 1)) by (apply Z.pow_le_mono_r; pose proof B_pos; lia).
  rewrite Z.pow_1_r in *. lia.
Qed.
Lemma canon_three_lower d1 d2 d3 r : canon (d1 :: d2 :: d3 :: r) -> BB <= val (d1 :: d2 :: d3 :: r).
Proof.
  intros Hc. pose proof (canon_lower _ Hc ltac:(discriminate)) as H.
  cbn [length] in H.
  assert (B ^ 2 <= B ^ (Z.of_nat (S (S (S (length r)))) - 1)) by (apply Z.pow_le_mono_r; pose proof B_pos; lia).
  rewrite BB_val. replace (B * B) with (B ^ 2) by ring. lia.
Qed.

Section WithParams.
Variable p : prim_params.
Hypothesis Hok : prim_ok p = true.

Lemma uto_u64_spec v : canon v ->
  uto_u64 p v = Ret (if val v <? B then Some (val v) else None).
Proof.
  intros Hc. destruct (prim_ok_inv p Hok) as (_&_&_&_&_&_&_&_&_&_&_&_&Hc64&Hl64&_&_).
  unfold uto_u64. destruct v as [|d [|d2 r]].
  - reflexivity.
  - destruct Hc as [Hw _]. apply wf_cons in Hw as [Hd _]. unfold digit in Hd.
    cbn [to_u64_loop]. rewrite Hc64, Hl64. cbn [cmp_eval Z.geb Z.compare].
    change (2 ^ 0) with 1. rewrite Z.mul_1_r, Z.mod_small by lia.
    unfold chk, assert_. cbn [Z.leb Z.ltb Z.compare andb bind Z.add].
    destruct (Z.ltb_spec d B); [|lia]. cbn [bind].
    rewrite val_single. destruct (Z.ltb_spec d B); [reflexivity|lia].
  - pose proof (canon_two_lower _ _ _ Hc).
    destruct Hc as [Hw _]. apply wf_cons in Hw as [Hd _]. unfold digit in Hd.
    cbn [to_u64_loop]. rewrite Hc64, Hl64. cbn [cmp_eval Z.geb Z.compare].
    change (2 ^ 0) with 1. rewrite Z.mul_1_r, Z.mod_small by lia.
    unfold chk, assert_. cbn [Z.leb Z.ltb Z.compare andb bind Z.add].
    destruct (Z.ltb_spec d B); [|lia]. cbn [bind].
    destruct (Z.ltb_spec (val (d :: d2 :: r)) B); [lia|reflexivity].
Qed.

Lemma lor_low_high d1 d2 : 0 <= d1 < B -> 0 <= d2 -> Z.lor d1 (d2 * B) = d1 + d2 * B.
Proof.
  intros H1 H2. rewrite Z.lor_comm. rewrite B_as_pow2 in *.
  rewrite (Z.add_comm d1). apply (lor_disjoint (d2 * 2 ^ 64) d1 64); [lia|apply Z.mod_mul; lia|lia].
Qed.

Lemma uto_u128_spec v : canon v ->
  uto_u128 p v = Ret (if val v <? BB then Some (val v) else None).
Proof.
  intros Hc. destruct (prim_ok_inv p Hok) as (_&_&_&_&_&_&_&_&_&_&_&_&_&_&Hc128&Hl128).
  pose proof B_pos as HB. pose proof BB_val as HBB.
  unfold uto_u128. destruct v as [|d [|d2 [|d3 r]]].
  - reflexivity.
  - destruct Hc as [Hw _]. apply wf_cons in Hw as [Hd _]. unfold digit in Hd.
    cbn [to_u128_loop]. rewrite Hc128, Hl128. cbn [cmp_eval Z.geb Z.compare].
    change (2 ^ 0) with 1. rewrite Z.mul_1_r, Z.mod_small by nia.
    unfold chk, assert_. cbn [Z.leb Z.ltb Z.compare andb bind Z.add].
    rewrite Z.lor_0_l, val_single. destruct (Z.ltb_spec d BB); [reflexivity|nia].
  - destruct Hc as [Hw _]. apply wf_cons in Hw as [Hd Hw]. apply wf_cons in Hw as [Hd2 _]. unfold digit in *.
    cbn [to_u128_loop]. rewrite Hc128, Hl128. cbn [cmp_eval Z.geb Z.compare].
    change (2 ^ 0) with 1. rewrite Z.mul_1_r, Z.mod_small by nia.
    unfold chk, assert_. cbn [Z.leb Z.ltb Z.compare andb bind Z.add].
    rewrite <- B_as_pow2, Z.mod_small by nia.
    rewrite Z.lor_0_l, lor_low_high by lia.
    cbn [val]. replace (d + B * (d2 + B * 0)) with (d + d2 * B) by ring.
    destruct (Z.ltb_spec (d + d2 * B) BB); [reflexivity|nia].
  - pose proof (canon_three_lower _ _ _ _ Hc).
    cbn [to_u128_loop]. rewrite Hc128, Hl128. cbn [cmp_eval Z.geb Z.compare].
    unfold chk, assert_. cbn [Z.leb Z.ltb Z.compare andb bind Z.add].
    destruct (Z.ltb_spec (val (d :: d2 :: d3 :: r)) BB); [lia|reflexivity].
Qed.

Lemma opt_narrow src t z :
  (pt_min t <= z <= pt_max t -> pt_min src <= z <= pt_max src) ->
  obind (spec_to_int (pt_signed src) (pt_bits src) z) (prim_to src t) =
  spec_to_int (pt_signed t) (pt_bits t) z.
Proof.
  intros H. rewrite (spec_to_int_pt src).
  destruct (Z.leb_spec (pt_min src) z); destruct (Z.leb_spec z (pt_max src)); cbn [andb obind];
    try (apply prim_to_spec; lia);
    rewrite spec_to_int_pt; destruct (Z.leb_spec (pt_min t) z); destruct (Z.leb_spec z (pt_max t));
    cbn [andb]; try reflexivity; lia.
Qed.

Lemma u64_form z : 0 <= z -> (if z <? B then Some z else None) = spec_to_int false 64 z.
Proof.
  intros H. unfold spec_to_int, int_lo, int_hi. rewrite <- B_as_pow2.
  destruct (Z.ltb_spec z B); leb_cases; cbn [andb]; try reflexivity; lia.
Qed.
Lemma u128_form z : 0 <= z -> (if z <? BB then Some z else None) = spec_to_int false 128 z.
Proof.
  intros H. unfold spec_to_int, int_lo, int_hi. change (2 ^ 128) with (2 ^ 64 * 2 ^ 64).
  rewrite <- B_as_pow2, <- BB_val.
  destruct (Z.ltb_spec z BB); leb_cases; cbn [andb]; try reflexivity; lia.
Qed.

Lemma omap_opt_ret {A C} (f : A -> option C) r : omap_opt f (Ret r) = Ret (obind r f).
Proof. reflexivity. Qed.

Ltac narrow_side := intros; pt_consts; lia.

(** to_T for BigUint, all twelve target types *)
Theorem uto_spec t v : canon v ->
  uto p t v = Ret (spec_to_int (pt_signed t) (pt_bits t) (val v)).
Proof.
  intros Hc. pose proof (val_nonneg v (proj1 Hc)) as Hz.
  pose proof (uto_u64_spec v Hc) as H64. rewrite u64_form in H64 by exact Hz.
  pose proof (uto_u128_spec v Hc) as H128. rewrite u128_form in H128 by exact Hz.
  destruct t; unfold uto; rewrite ?H64, ?H128, ?omap_opt_ret; try reflexivity; f_equal.
  - apply (opt_narrow U64 U8); narrow_side.
  - apply (opt_narrow U64 U16); narrow_side.
  - apply (opt_narrow U64 U32); narrow_side.
  - apply (opt_narrow U64 Usize); narrow_side.
  - change (spec_to_int false 64) with (spec_to_int (pt_signed U64) (pt_bits U64)).
    rewrite (opt_narrow U64 I64) by narrow_side. apply (opt_narrow I64 I8); narrow_side.
  - change (spec_to_int false 64) with (spec_to_int (pt_signed U64) (pt_bits U64)).
    rewrite (opt_narrow U64 I64) by narrow_side. apply (opt_narrow I64 I16); narrow_side.
  - change (spec_to_int false 64) with (spec_to_int (pt_signed U64) (pt_bits U64)).
    rewrite (opt_narrow U64 I64) by narrow_side. apply (opt_narrow I64 I32); narrow_side.
  - apply (opt_narrow U64 I64); narrow_side.
  - change (spec_to_int false 64) with (spec_to_int (pt_signed U64) (pt_bits U64)).
    rewrite (opt_narrow U64 I64) by narrow_side. apply (opt_narrow I64 Isize); narrow_side.
  - apply (opt_narrow U128 I128); narrow_side.
Qed.

(** * BigInt -> integer *)
Lemma icanon_cases x : icanon x ->
  (sg x = NoSign /\ mag x = [] /\ ival x = 0) \/
  (sg x = Plus /\ ival x = val (mag x) /\ 0 < val (mag x)) \/
  (sg x = Minus /\ ival x = - val (mag x) /\ 0 < val (mag x)).
Proof.
  intros [Hc Hs]. unfold ival. destruct (sg x) eqn:E.
  - right; right. split; [reflexivity|]. split; [cbn [sign_z]; lia|].
    apply canon_val_pos; [exact Hc|]. intros Hn. apply Hs in Hn. discriminate.
  - left. destruct Hs as [Hs _]. rewrite (Hs eq_refl). cbn [sign_z val]. auto.
  - right; left. split; [reflexivity|]. split; [cbn [sign_z]; lia|].
    apply canon_val_pos; [exact Hc|]. intros Hn. apply Hs in Hn. discriminate.
Qed.

Lemma ito_i64_spec x : icanon x -> ito_i64 p x = Ret (spec_to_int true 64 (ival x)).
Proof.
  intros Hi. pose proof Hi as [Hc _].
  destruct (prim_ok_inv p Hok) as (_&_&_&_&_&_&_&_&_&_&He64&_).
  destruct (icanon_cases x Hi) as [(Hs&Hm&Hv)|[(Hs&Hv&Hp)|(Hs&Hv&Hp)]]; unfold ito_i64; rewrite Hs, Hv.
  - reflexivity.
  - exact (uto_spec I64 (mag x) Hc).
  - rewrite (uto_u64_spec _ Hc). cbn [bind]. rewrite He64.
    change ((1 * 2 ^ 63) mod B) with 9223372036854775808.
    pose proof B_val as HB.
    destruct (Z.ltb_spec (val (mag x)) B) as [Hlt|Hge].
    + destruct (Z.compare_spec (val (mag x)) 9223372036854775808) as [He|Hl|Hg].
      * rewrite He. reflexivity.
      * unfold neg_chk. rewrite as_cast_id by (pt_consts; lia).
        unfold chk, assert_. pt_consts.
        destruct (Z.eqb_spec (val (mag x)) (-9223372036854775808)); [lia|]. cbn [negb bind].
        unfold spec_to_int, int_lo, int_hi. pow_consts. leb_cases; cbn [andb]; try reflexivity; lia.
      * unfold spec_to_int, int_lo, int_hi. pow_consts. leb_cases; cbn [andb]; try reflexivity; lia.
    + unfold spec_to_int, int_lo, int_hi. pow_consts. leb_cases; cbn [andb]; try reflexivity; lia.
Qed.

Lemma ito_i128_spec x : icanon x -> ito_i128 p x = Ret (spec_to_int true 128 (ival x)).
Proof.
  intros Hi. pose proof Hi as [Hc _].
  destruct (prim_ok_inv p Hok) as (_&_&_&_&_&_&_&_&_&_&_&He128&_).
  destruct (icanon_cases x Hi) as [(Hs&Hm&Hv)|[(Hs&Hv&Hp)|(Hs&Hv&Hp)]]; unfold ito_i128; rewrite Hs, Hv.
  - reflexivity.
  - exact (uto_spec I128 (mag x) Hc).
  - rewrite (uto_u128_spec _ Hc). cbn [bind]. rewrite He128.
    change ((1 * 2 ^ 127) mod BB) with 170141183460469231731687303715884105728.
    assert (HB : BB = 340282366920938463463374607431768211456) by reflexivity.
    destruct (Z.ltb_spec (val (mag x)) BB) as [Hlt|Hge].
    + destruct (Z.compare_spec (val (mag x)) 170141183460469231731687303715884105728) as [He|Hl|Hg].
      * rewrite He. reflexivity.
      * unfold neg_chk. rewrite as_cast_id by (pt_consts; lia).
        unfold chk, assert_. pt_consts.
        destruct (Z.eqb_spec (val (mag x)) (-170141183460469231731687303715884105728)); [lia|]. cbn [negb bind].
        unfold spec_to_int, int_lo, int_hi. pow_consts. leb_cases; cbn [andb]; try reflexivity; lia.
      * unfold spec_to_int, int_lo, int_hi. pow_consts. leb_cases; cbn [andb]; try reflexivity; lia.
    + unfold spec_to_int, int_lo, int_hi. pow_consts. leb_cases; cbn [andb]; try reflexivity; lia.
Qed.

Lemma spec_to_int_neg_unsigned b z : z < 0 -> spec_to_int false b z = None.
Proof. intros H. unfold spec_to_int, int_lo. destruct (Z.leb_spec 0 z); [lia|reflexivity]. Qed.

Lemma ito_u64_spec x : icanon x -> ito_u64 p x = Ret (spec_to_int false 64 (ival x)).
Proof.
  intros Hi. pose proof Hi as [Hc _].
  destruct (icanon_cases x Hi) as [(Hs&Hm&Hv)|[(Hs&Hv&Hp)|(Hs&Hv&Hp)]]; unfold ito_u64; rewrite Hs, Hv.
  - reflexivity.
  - exact (uto_spec U64 (mag x) Hc).
  - rewrite spec_to_int_neg_unsigned by lia. reflexivity.
Qed.
Lemma ito_u128_spec x : icanon x -> ito_u128 p x = Ret (spec_to_int false 128 (ival x)).
Proof.
  intros Hi. pose proof Hi as [Hc _].
  destruct (icanon_cases x Hi) as [(Hs&Hm&Hv)|[(Hs&Hv&Hp)|(Hs&Hv&Hp)]]; unfold ito_u128; rewrite Hs, Hv.
  - reflexivity.
  - exact (uto_spec U128 (mag x) Hc).
  - rewrite spec_to_int_neg_unsigned by lia. reflexivity.
Qed.

(** to_T for BigInt, all twelve target types, MIN edges included *)
Theorem ito_spec t x : icanon x ->
  ito p t x = Ret (spec_to_int (pt_signed t) (pt_bits t) (ival x)).
Proof.
  intros Hi.
  pose proof (ito_i64_spec x Hi) as Hi64. pose proof (ito_i128_spec x Hi) as Hi128.
  pose proof (ito_u64_spec x Hi) as Hu64. pose proof (ito_u128_spec x Hi) as Hu128.
  destruct t; unfold ito; rewrite ?Hi64, ?Hi128, ?Hu64, ?Hu128, ?omap_opt_ret; try reflexivity; f_equal.
  - apply (opt_narrow U64 U8); narrow_side.
  - apply (opt_narrow U64 U16); narrow_side.
  - apply (opt_narrow U64 U32); narrow_side.
  - apply (opt_narrow U64 Usize); narrow_side.
  - apply (opt_narrow I64 I8); narrow_side.
  - apply (opt_narrow I64 I16); narrow_side.
  - apply (opt_narrow I64 I32); narrow_side.
  - apply (opt_narrow I64 Isize); narrow_side.
Qed.

(** * TryFrom: same decision; the owned form hands the original back *)
Theorem utry_into_owned_spec t v : canon v ->
  utry_into_owned p t v =
  Ret (match spec_to_int (pt_signed t) (pt_bits t) (val v) with Some x => inl x | None => inr v end).
Proof. intros Hc. unfold utry_into_owned, utry_into. rewrite uto_spec by exact Hc. reflexivity. Qed.
Theorem itry_into_owned_spec t x : icanon x ->
  itry_into_owned p t x =
  Ret (match spec_to_int (pt_signed t) (pt_bits t) (ival x) with Some y => inl y | None => inr x end).
Proof. intros Hc. unfold itry_into_owned, itry_into. rewrite ito_spec by exact Hc. reflexivity. Qed.

End WithParams.

(** * integer -> BigUint / BigInt (no source parameters involved) *)
Lemma enc_one n : 0 < n < B -> enc n = [n].
Proof.
  intros H. rewrite <- (val_single n) at 1. apply enc_of_canon.
  apply (canon_app_last [] n); [apply wf_nil|unfold digit; lia|lia].
Qed.
Lemma enc_two n : B <= n < BB -> enc n = [n mod B; n / B].
Proof.
  intros H. pose proof B_pos. rewrite BB_val in H.
  assert (Hv : val [n mod B; n / B] = n) by (cbn [val]; lia).
  rewrite <- Hv at 1. apply enc_of_canon.
  apply (canon_app_last [n mod B] (n / B)).
  - apply wf_cons; split; [unfold digit; lia|apply wf_nil].
  - unfold digit. nia.
  - nia.
Qed.

Lemma ufrom_u64_spec n : 0 <= n < B -> ufrom_u64 n = Ret (enc n).
Proof.
  intros H. rewrite B_val in H. unfold ufrom_u64. cbn [from_u64_loop].
  destruct (Z.eqb_spec n 0) as [->|Hn]; [reflexivity|].
  change (2 ^ 63) with 9223372036854775808.
  replace (n / 2 / 9223372036854775808) with 0 by lia. cbn [Z.eqb app].
  rewrite enc_one by (rewrite B_val; lia). rewrite Z.mod_small by (rewrite B_val; lia). reflexivity.
Qed.

Lemma ufrom_u128_spec n : 0 <= n < BB -> ufrom_u128 n = Ret (enc n).
Proof.
  intros H. pose proof BB_val as HBB. pose proof B_pos as HB. unfold ufrom_u128. cbn [from_u128_loop].
  rewrite <- B_as_pow2.
  destruct (Z.eqb_spec n 0) as [->|Hn]; [reflexivity|].
  destruct (Z.eqb_spec (n / B) 0) as [Hq|Hq].
  - cbn [app]. assert (n < B) by nia. rewrite enc_one by lia. rewrite Z.mod_small by lia. reflexivity.
  - assert (B <= n) by nia.
    replace (n / B / B) with 0 by nia. cbn [Z.eqb app].
    rewrite enc_two by lia. rewrite (Z.mod_small (n / B)) by nia. reflexivity.
Qed.

Lemma as_cast_u64_neg n : - 2 ^ 64 <= n < 0 -> as_cast U64 n = n + 2 ^ 64.
Proof. unfold as_cast; cbn [pt_bits pt_signed andb]. pow_consts. lia. Qed.
Lemma as_cast_u128_neg n : - 2 ^ 128 <= n < 0 -> as_cast U128 n = n + 2 ^ 128.
Proof. unfold as_cast; cbn [pt_bits pt_signed andb]. pow_consts. lia. Qed.

Definition in_range (t : ptype) (n : Z) : Prop := pt_min t <= n <= pt_max t.

(** From<uN> for BigUint *)
Theorem ufrom_spec t n : pt_signed t = false -> in_range t n -> ufrom t n = Ret (enc n).
Proof.
  unfold in_range; intros Hs H. pose proof B_val. assert (BB = 340282366920938463463374607431768211456) by reflexivity.
  destruct t; try discriminate; pt_consts; unfold ufrom;
    try (rewrite as_cast_id by (pt_consts; lia); apply ufrom_u64_spec; lia).
  apply ufrom_u128_spec; lia.
Qed.

Lemma osome_ret {A} (x : A) : osome (Ret x) = Ret (Some x).
Proof. reflexivity. Qed.

Lemma ufrom_i64_spec n : in_range I64 n ->
  ufrom_i64 n = Ret (option_map enc (spec_ufrom_int n)).
Proof.
  unfold in_range; pt_consts; intros H. pose proof B_val. unfold ufrom_i64, spec_ufrom_int.
  destruct (Z.leb_spec 0 n); destruct (Z.ltb_spec n 0); try lia; [|reflexivity].
  rewrite as_cast_id by (pt_consts; lia). rewrite ufrom_u64_spec by lia. reflexivity.
Qed.
Lemma ufrom_i128_spec n : in_range I128 n ->
  ufrom_i128 n = Ret (option_map enc (spec_ufrom_int n)).
Proof.
  unfold in_range; pt_consts; intros H. assert (BB = 340282366920938463463374607431768211456) by reflexivity.
  unfold ufrom_i128, spec_ufrom_int.
  destruct (Z.leb_spec 0 n); destruct (Z.ltb_spec n 0); try lia; [|reflexivity].
  rewrite as_cast_id by (pt_consts; lia). rewrite ufrom_u128_spec by lia. reflexivity.
Qed.

(** FromPrimitive::from_T / TryFrom<iN> / ToBigUint: value preserved, negatives fail *)
Theorem ufrom_prim_spec t n : in_range t n ->
  ufrom_prim t n = Ret (option_map enc (spec_ufrom_int n)).
Proof.
  intros H. pose proof B_val. assert (BB = 340282366920938463463374607431768211456) by reflexivity.
  assert (Hpos : forall m, 0 <= m -> spec_ufrom_int m = Some m)
    by (intros m Hm; unfold spec_ufrom_int; destruct (Z.ltb_spec m 0); [lia|reflexivity]).
  destruct t; unfold in_range in H; pt_consts; unfold ufrom_prim;
    try (rewrite ufrom_u64_spec by lia; rewrite Hpos by lia; reflexivity);
    try (apply ufrom_i64_spec; unfold in_range; pt_consts; lia).
  - rewrite (prim_to_spec Usize U64) by (pt_consts; lia).
    unfold spec_to_int, int_lo, int_hi; cbn [pt_signed pt_bits]; pow_consts.
    leb_cases; cbn [andb]; try lia.
    rewrite ufrom_u64_spec by lia; rewrite Hpos by lia; reflexivity.
  - rewrite ufrom_u128_spec by lia; rewrite Hpos by lia; reflexivity.
  - rewrite (prim_to_spec Isize I64) by (pt_consts; lia).
    unfold spec_to_int, int_lo, int_hi; cbn [pt_signed pt_bits]; pow_consts.
    leb_cases; cbn [andb]; try lia.
    apply ufrom_i64_spec; unfold in_range; pt_consts; lia.
  - apply ufrom_i128_spec; unfold in_range; pt_consts; lia.
Qed.

(** BigInt *)
Lemma ienc_pos n : 0 < n -> ienc n = mkint Plus (enc n).
Proof. intros H. destruct n; try lia. reflexivity. Qed.
Lemma ienc_neg n : n < 0 -> ienc n = mkint Minus (enc (- n)).
Proof. intros H. destruct n; try lia. reflexivity. Qed.

Lemma ifrom_u64_spec n : 0 <= n < B -> ifrom_u64 n = Ret (ienc n).
Proof.
  intros H. unfold ifrom_u64. destruct (Z.ltb_spec 0 n).
  - rewrite ufrom_u64_spec by lia. cbn [bind]. rewrite ienc_pos by lia. reflexivity.
  - replace n with 0 by lia. reflexivity.
Qed.
Lemma ifrom_u128_spec n : 0 <= n < BB -> ifrom_u128 n = Ret (ienc n).
Proof.
  intros H. unfold ifrom_u128. destruct (Z.ltb_spec 0 n).
  - rewrite ufrom_u128_spec by lia. cbn [bind]. rewrite ienc_pos by lia. reflexivity.
  - replace n with 0 by lia. reflexivity.
Qed.
Lemma ifrom_i64_spec n : in_range I64 n -> ifrom_i64 n = Ret (ienc n).
Proof.
  unfold in_range; pt_consts; intros H. pose proof B_val. unfold ifrom_i64.
  destruct (Z.leb_spec 0 n).
  - rewrite as_cast_id by (pt_consts; lia). apply ifrom_u64_spec; lia.
  - rewrite as_cast_u64_neg by (pow_consts; lia). pt_consts. pow_consts.
    replace (18446744073709551615 - (n + 18446744073709551616) + 1) with (- n) by lia.
    unfold chk, assert_. destruct (Z.leb_spec (- n) 18446744073709551615); [|lia]. cbn [bind].
    rewrite ufrom_u64_spec by lia. cbn [bind]. rewrite ienc_neg by lia. reflexivity.
Qed.
Lemma ifrom_i128_spec n : in_range I128 n -> ifrom_i128 n = Ret (ienc n).
Proof.
  unfold in_range; pt_consts; intros H. assert (BB = 340282366920938463463374607431768211456) by reflexivity.
  unfold ifrom_i128.
  destruct (Z.leb_spec 0 n).
  - rewrite as_cast_id by (pt_consts; lia). apply ifrom_u128_spec; lia.
  - rewrite as_cast_u128_neg by (pow_consts; lia). pt_consts. pow_consts.
    replace (340282366920938463463374607431768211455 - (n + 340282366920938463463374607431768211456) + 1) with (- n) by lia.
    unfold chk, assert_. destruct (Z.leb_spec (- n) 340282366920938463463374607431768211455); [|lia]. cbn [bind].
    rewrite ufrom_u128_spec by lia. cbn [bind]. rewrite ienc_neg by lia. reflexivity.
Qed.

(** From<T> for BigInt, all twelve types: the value is preserved *)
Theorem ifrom_spec t n : in_range t n -> ifrom t n = Ret (ienc n).
Proof.
  intros H. pose proof B_val. assert (BB = 340282366920938463463374607431768211456) by reflexivity.
  destruct t; unfold in_range in H; pt_consts; unfold ifrom;
    try (rewrite as_cast_id by (pt_consts; lia));
    first [ apply ifrom_u64_spec; lia | apply ifrom_u128_spec; lia
          | apply ifrom_i64_spec; unfold in_range; pt_consts; lia
          | apply ifrom_i128_spec; unfold in_range; pt_consts; lia ].
Qed.

(** FromPrimitive for BigInt / ToBigInt for primitives *)
Theorem ifrom_prim_spec t n : in_range t n -> ifrom_prim t n = Ret (Some (ienc n)).
Proof.
  intros H. pose proof B_val. assert (BB = 340282366920938463463374607431768211456) by reflexivity.
  destruct t; unfold in_range in H; pt_consts; unfold ifrom_prim;
    try (rewrite ifrom_u64_spec by lia; reflexivity);
    try (rewrite ifrom_i64_spec by (unfold in_range; pt_consts; lia); reflexivity).
  - rewrite (prim_to_spec Usize U64) by (pt_consts; lia).
    unfold spec_to_int, int_lo, int_hi; cbn [pt_signed pt_bits]; pow_consts.
    leb_cases; cbn [andb]; try lia. rewrite ifrom_u64_spec by lia; reflexivity.
  - rewrite ifrom_u128_spec by lia; reflexivity.
  - rewrite (prim_to_spec Isize I64) by (pt_consts; lia).
    unfold spec_to_int, int_lo, int_hi; cbn [pt_signed pt_bits]; pow_consts.
    leb_cases; cbn [andb]; try lia. rewrite ifrom_i64_spec by (unfold in_range; pt_consts; lia); reflexivity.
  - rewrite ifrom_i128_spec by (unfold in_range; pt_consts; lia); reflexivity.
Qed.

(** * BigUint <-> BigInt *)
Theorem ifrom_biguint_spec v : canon v -> ifrom_biguint v = ienc (val v).
Proof.
  intros Hc. destruct v as [|d r]; [reflexivity|].
  pose proof (canon_val_pos _ Hc ltac:(discriminate)) as Hp.
  unfold ifrom_biguint. rewrite ienc_pos by lia. rewrite enc_of_canon by exact Hc. reflexivity.
Qed.
Theorem ito_biguint_spec x : icanon x ->
  ito_biguint x = option_map enc (spec_ufrom_int (ival x)).
Proof.
  intros Hi. pose proof Hi as [Hc _]. unfold ito_biguint, spec_ufrom_int.
  destruct (icanon_cases x Hi) as [(Hs&Hm&Hv)|[(Hs&Hv&Hp)|(Hs&Hv&Hp)]]; rewrite Hs, Hv.
  - reflexivity.
  - destruct (Z.ltb_spec (val (mag x)) 0); [lia|]. cbn [option_map]. rewrite enc_of_canon by exact Hc. reflexivity.
  - destruct (Z.ltb_spec (- val (mag x)) 0); [reflexivity|lia].
Qed.
Theorem itry_into_biguint_owned_spec x : icanon x ->
  itry_into_biguint_owned x =
  match spec_ufrom_int (ival x) with Some r => inl (enc r) | None => inr x end.
Proof.
  intros Hi. pose proof Hi as [Hc _]. unfold itry_into_biguint_owned, spec_ufrom_int.
  destruct (icanon_cases x Hi) as [(Hs&Hm&Hv)|[(Hs&Hv&Hp)|(Hs&Hv&Hp)]]; rewrite Hs, Hv.
  - rewrite Hm. reflexivity.
  - destruct (Z.ltb_spec (val (mag x)) 0); [lia|]. rewrite enc_of_canon by exact Hc. reflexivity.
  - destruct (Z.ltb_spec (- val (mag x)) 0); [reflexivity|lia].
Qed.
