(* ExtraTextProofs.v — refinement proofs for coq/model/ExtraText.v (API-audit additions):
   `{:?}` is `{}`, and the error value of the parsers carries the message of the Z-level spec's
   error kind.  Stated at the extracted parameters (like props/C06.v). *)
From BigNum Require Import Base BaseLemmas AddSub Mul MulProofs Div SpecBytes BytesLemmas
  Radix RadixText RadixKernels RadixApi SpecRadix
  RadixProofs RadixProofs2 RadixProofs3 RadixTextProofs RadixInst Extracted InstRadix ExtraText.
Open Scope Z_scope.

Theorem u_fmt_debug_spec fl u : canon u ->
  u_fmt_debug radix fl u = spec_fmt FDisplay fl (val u).
Proof. intros. unfold u_fmt_debug. apply inst_fmt_u; auto using radix_params_std, small_or_umul_holds. Qed.

Theorem i_fmt_debug_spec fl x : icanon x ->
  i_fmt_debug radix fl x = spec_fmt FDisplay fl (ival x).
Proof. intros. unfold i_fmt_debug. apply inst_fmt_i; auto using radix_params_std, small_or_umul_holds. Qed.

Lemma err_text_of_map {A C} (f : A -> C) (x : parse_result A) : err_text_of (pr_map f x) = err_text_of x.
Proof. destruct x; reflexivity. Qed.

(** for ALL byte strings and radices: the parser's error value is `Empty` / `InvalidDigit` exactly where
    the specification says so (and there is no error value where the text denotes an integer) *)
Theorem u_from_str_radix_err_spec s r :
  u_from_str_radix_err radix s r = omap (fun x => err_text_of x) (spec_from_str false s r).
Proof.
  unfold u_from_str_radix_err.
  rewrite inst_from_str_radix by exact radix_params_std.
  destruct (spec_from_str false s r); cbn [omap bind]; try reflexivity.
  rewrite err_text_of_map. reflexivity.
Qed.

Theorem i_from_str_radix_err_spec s r :
  i_from_str_radix_err radix s r = omap (fun x => err_text_of x) (spec_from_str true s r).
Proof.
  unfold i_from_str_radix_err.
  rewrite inst_ifrom_str_radix by exact radix_params_std.
  destruct (spec_from_str true s r); cbn [omap bind]; try reflexivity.
  rewrite err_text_of_map. reflexivity.
Qed.

(** the two messages differ (so the message identifies the kind) and are ASCII *)
Theorem parse_err_text_inj a b : parse_err_text a = parse_err_text b -> a = b.
Proof. destruct a, b; cbn; intros E; try reflexivity; discriminate. Qed.
