(* ShiftCoreProofs.v — the shift kernels of model/ShiftCore.v (biguint_shl2 / biguint_shr2)
   compute  a * 2^n  and  floor(a / 2^n)  for every operand length and every amount. *)
From BigNum Require Import Base BaseLemmas ShiftCore.
Open Scope Z_scope.

(** ** bit-level helpers *)

Lemma B_as_pow2 : B = 2 ^ 64. Proof. rewrite B_val; reflexivity. Qed.

Lemma B_split s : 0 <= s <= 64 -> B = 2 ^ (64 - s) * 2 ^ s.
Proof. intros H. rewrite <- Z.pow_add_r by lia. rewrite B_as_pow2. f_equal; lia. Qed.

Lemma B_pow_pow2 d : 0 <= d -> B ^ d = 2 ^ (64 * d).
Proof. intros H. rewrite B_as_pow2, <- Z.pow_mul_r by lia. reflexivity. Qed.

Lemma pow2_split n : 0 <= n -> 2 ^ n = B ^ (n / 64) * 2 ^ (n mod 64).
Proof.
  intros H. rewrite B_pow_pow2 by (apply Z.div_pos; lia).
  rewrite <- Z.pow_add_r by (try apply Z.mul_nonneg_nonneg; try apply Z.div_pos; try apply Z.mod_pos_bound; lia).
  f_equal. apply Z.div_mod; lia.
Qed.

Lemma testbit_small y s n : 0 <= y < 2 ^ s -> 0 <= s <= n -> Z.testbit y n = false.
Proof.
  intros Hy Hs. destruct (Z.eq_dec y 0) as [->|Hn]; [apply Z.bits_0|].
  apply Z.bits_above_log2; [lia|]. assert (Z.log2 y < s) by (apply Z.log2_lt_pow2; lia). lia.
Qed.

Lemma land_disjoint x y s : 0 <= s -> x mod 2 ^ s = 0 -> 0 <= y < 2 ^ s -> Z.land x y = 0.
Proof.
  intros Hs Hx Hy. apply Z.bits_inj'; intros n Hn. rewrite Z.land_spec, Z.bits_0.
  destruct (Z.lt_ge_cases n s) as [Hlt|Hge].
  - assert (E : x = (x / 2 ^ s) * 2 ^ s).
    { pose proof (Z.div_mod x (2 ^ s)) as D. rewrite Hx in D. rewrite D at 1 by lia. ring. }
    rewrite E, Z.mul_pow2_bits_low by lia. reflexivity.
  - rewrite (testbit_small y s n) by lia. apply andb_false_r.
Qed.

Lemma lor_disjoint x y s : 0 <= s -> x mod 2 ^ s = 0 -> 0 <= y < 2 ^ s -> Z.lor x y = x + y.
Proof.
  intros Hs Hx Hy. pose proof (land_disjoint x y s Hs Hx Hy) as L.
  rewrite <- Z.lxor_lor by exact L. symmetry. apply Z.add_nocarry_lxor. exact L.
Qed.

(** [ (e << s) mod 2^64 ] keeps the low 64-s bits of e, moved up by s *)
Lemma shl_digit e s : 0 <= e < B -> 0 <= s <= 64 ->
  (e * 2 ^ s) mod B = (e mod 2 ^ (64 - s)) * 2 ^ s.
Proof.
  intros He Hs. rewrite (B_split s) by lia.
  assert (0 < 2 ^ s) by (apply Z.pow_pos_nonneg; lia).
  assert (0 < 2 ^ (64 - s)) by (apply Z.pow_pos_nonneg; lia).
  rewrite Z.mul_mod_distr_r by lia. reflexivity.
Qed.

(** ** shl *)

Lemma shl_bits_spec s : 0 < s < 64 -> forall l carry, wf l -> 0 <= carry < 2 ^ s ->
  let '(r, c) := shl_bits s carry l in
  wf r /\ length r = length l /\ 0 <= c < 2 ^ s /\
  val r + B ^ Z.of_nat (length l) * c = val l * 2 ^ s + carry.
Proof.
  intros Hs. induction l as [|e l IH]; intros carry Hl Hc.
  - cbn [shl_bits length val Z.of_nat]. rewrite Z.pow_0_r. repeat split; auto; lia.
  - apply wf_cons in Hl as [He Hl]. cbn [shl_bits]. unfold digit in He.
    set (S := 2 ^ s) in *. set (T := 2 ^ (64 - s)).
    assert (HS : 0 < S) by (apply Z.pow_pos_nonneg; lia).
    assert (HT : 0 < T) by (apply Z.pow_pos_nonneg; lia).
    assert (HB : B = T * S) by (apply B_split; lia).
    assert (Hnc : 0 <= e / T < S).
    { split; [apply Z.div_pos; lia|]. apply Z.div_lt_upper_bound; lia. }
    specialize (IH (e / T) Hl Hnc).
    destruct (shl_bits s (e / T) l) as [r c]. destruct IH as (Hr & Hlr & Hc' & Hv).
    assert (Hm : (e * S) mod B = (e mod T) * S) by (apply shl_digit; lia).
    assert (Hlor : Z.lor ((e * S) mod B) carry = (e mod T) * S + carry).
    { rewrite Hm. apply (lor_disjoint _ _ s); [lia| |exact Hc]. apply Z.mod_mul; lia. }
    rewrite Hlor.
    assert (Hmod : 0 <= e mod T < T) by (apply Z.mod_pos_bound; lia).
    assert (Hed : e = T * (e / T) + e mod T) by (apply Z.div_mod; lia).
    split; [|split; [|split]].
    + apply wf_cons; split; [|exact Hr]. unfold digit. nia.
    + cbn [length]; congruence.
    + exact Hc'.
    + change (length (e :: l)) with (Datatypes.S (length l)). rewrite B_pow_S, !val_cons.
      set (P := B ^ Z.of_nat (length l)) in *. set (q := e / T) in *. set (m := e mod T) in *.
      replace (B * P * c) with (B * (P * c)) by ring.
      replace (P * c) with (val l * S + q - val r) by lia.
      rewrite Hed, HB. ring.
Qed.

Lemma length_zeros k : length (zeros k) = k.
Proof. apply repeat_length. Qed.

Theorem shl2_spec a digits shift : wf a -> 0 <= digits -> 0 <= shift < 64 ->
  shl2 a digits shift = enc (val a * B ^ digits * 2 ^ shift).
Proof.
  intros Ha Hd Hs. unfold shl2.
  destruct (Z.ltb_spec 0 shift) as [Hpos|Hz].
  - pose proof (shl_bits_spec shift (conj Hpos (proj2 Hs)) a 0 Ha) as H.
    assert (H0 : 0 <= 0 < 2 ^ shift) by (split; [lia|apply Z.pow_pos_nonneg; lia]).
    specialize (H H0). destruct (shl_bits shift 0 a) as [hi carry].
    destruct H as (Hhi & Hlen & Hc & Hv).
    assert (Hc64 : digit carry).
    { unfold digit. split; [lia|]. rewrite B_as_pow2.
      assert (2 ^ shift <= 2 ^ 64) by (apply Z.pow_le_mono_r; lia). lia. }
    destruct (Z.eqb_spec carry 0) as [Hc0|Hc0].
    + rewrite <- enc_strip by (apply wf_app; split; [apply wf_zeros|exact Hhi]).
      f_equal. rewrite val_app, val_zeros, length_zeros, Z2Nat.id by lia. subst carry. nia.
    + rewrite <- enc_strip.
      2:{ apply wf_app; split; [apply wf_app; split; [apply wf_zeros|exact Hhi]|].
          apply wf_cons; split; [exact Hc64|apply wf_nil]. }
      f_equal. rewrite <- app_assoc, val_app, val_zeros, length_zeros, Z2Nat.id by lia.
      rewrite val_app, val_single, Hlen. set (P := B ^ Z.of_nat (length a)) in *. nia.
  - assert (shift = 0) by lia. subst shift. rewrite Z.pow_0_r.
    rewrite <- enc_strip by (apply wf_app; split; [apply wf_zeros|exact Ha]).
    f_equal. rewrite val_app, val_zeros, length_zeros, Z2Nat.id by lia. ring.
Qed.

Theorem ushl_spec a n : wf a -> 0 <= n -> ushl a n = enc (val a * 2 ^ n).
Proof.
  intros Ha Hn. unfold ushl. destruct a as [|d a]; [reflexivity|].
  rewrite shl2_spec; [|exact Ha|apply Z.div_pos; lia|apply Z.mod_pos_bound; lia].
  f_equal. rewrite (pow2_split n Hn). ring.
Qed.

(** ** shr *)

(** MSB-first loop; the incoming borrow is [hb << (64-s)] for the low [s] bits [hb] of the
    previously visited (higher) digit. *)
Lemma shr_bits_rev_spec s : 0 < s < 64 -> forall l hb, wf l -> 0 <= hb < 2 ^ s ->
  let o := shr_bits_rev s (hb * 2 ^ (64 - s)) l in
  wf o /\ length o = length l /\
  val (rev o) = (hb * B ^ Z.of_nat (length l) + val (rev l)) / 2 ^ s.
Proof.
  intros Hs. induction l as [|e l IH]; intros hb Hl Hhb; cbn zeta.
  - cbn [shr_bits_rev length rev val Z.of_nat]. rewrite Z.pow_0_r.
    split; [apply wf_nil|]. split; [reflexivity|].
    symmetry. apply Z.div_small. lia.
  - apply wf_cons in Hl as [He Hl]. cbn [shr_bits_rev]. unfold digit in He.
    set (S := 2 ^ s) in *. set (T := 2 ^ (64 - s)) in *.
    assert (HS : 0 < S) by (apply Z.pow_pos_nonneg; lia).
    assert (HT : 0 < T) by (apply Z.pow_pos_nonneg; lia).
    assert (HB : B = S * T).
    { unfold S, T. replace s with (64 - (64 - s)) at 1 by lia. apply B_split; lia. }
    assert (Hm : (e * T) mod B = (e mod S) * T).
    { unfold S, T. replace s with (64 - (64 - s)) at 2 by lia. apply shl_digit; lia. }
    rewrite Hm.
    assert (Hmod : 0 <= e mod S < S) by (apply Z.mod_pos_bound; lia).
    specialize (IH (e mod S) Hl Hmod). cbn zeta in IH.
    destruct IH as (Ho & Hlo & Hv).
    assert (Hq : 0 <= e / S < T).
    { split; [apply Z.div_pos; lia|]. apply Z.div_lt_upper_bound; lia. }
    assert (Hlor : Z.lor (e / S) (hb * T) = hb * T + e / S).
    { rewrite Z.lor_comm. apply (lor_disjoint _ _ (64 - s)); [lia| |exact Hq].
      apply Z.mod_mul; lia. }
    rewrite Hlor.
    split; [|split].
    + apply wf_cons; split; [|exact Ho]. unfold digit. nia.
    + cbn [length]; congruence.
    + cbn [rev]. rewrite !val_app, !val_single, rev_length, rev_length, Hlo, Hv.
      change (length (e :: l)) with (Datatypes.S (length l)). rewrite B_pow_S.
      set (P := B ^ Z.of_nat (length l)). set (v := val (rev l)).
      set (q := e / S) in *. set (m := e mod S) in *.
      assert (Hed : e = S * q + m) by (apply Z.div_mod; lia).
      replace (hb * (B * P) + (v + P * e)) with ((hb * T * P + q * P) * S + (m * P + v))
        by (rewrite Hed, HB; ring).
      rewrite Z.div_add_l by lia. ring.
Qed.

Theorem shr2_spec a digits shift : wf a -> 0 <= digits -> 0 <= shift < 64 ->
  shr2 a digits shift = enc (val a / B ^ digits / 2 ^ shift).
Proof.
  intros Ha Hd Hs. unfold shr2. pose proof (val_bound a Ha) as Hb.
  assert (HP : 0 < B ^ digits) by (apply B_pow; lia).
  destruct (Z.leb_spec (Z.of_nat (length a)) digits) as [Hle|Hgt].
  - assert (B ^ Z.of_nat (length a) <= B ^ digits)
      by (apply Z.pow_le_mono_r; [apply B_pos|lia]).
    rewrite (Z.div_small (val a)) by lia. rewrite Z.div_0_l; [reflexivity|].
    apply Z.pow_nonzero; lia.
  - assert (Hsplit : val a / B ^ digits = val (skipn (Z.to_nat digits) a)).
    { rewrite (val_split (Z.to_nat digits) a) at 1.
      rewrite firstn_length_le by lia. rewrite Z2Nat.id by lia.
      pose proof (val_bound _ (wf_firstn (Z.to_nat digits) a Ha)) as Hf.
      rewrite firstn_length_le in Hf by lia. rewrite Z2Nat.id in Hf by lia.
      rewrite Z.mul_comm, Z.div_add by lia. rewrite Z.div_small by lia. lia. }
    rewrite Hsplit. set (data := skipn (Z.to_nat digits) a).
    assert (Hdata : wf data) by (apply wf_skipn; exact Ha).
    destruct (Z.ltb_spec 0 shift) as [Hpos|Hz].
    + assert (H0 : 0 <= 0 < 2 ^ shift) by (split; [lia|apply Z.pow_pos_nonneg; lia]).
      pose proof (shr_bits_rev_spec shift (conj Hpos (proj2 Hs)) (rev data) 0
                    (wf_rev _ Hdata) H0) as H.
      cbn zeta in H. rewrite Z.mul_0_l in H. destruct H as (Ho & _ & Hv).
      rewrite <- enc_strip by (apply wf_rev; exact Ho).
      f_equal. rewrite Hv, rev_involutive. f_equal; lia.
    + assert (shift = 0) by lia. subst shift. rewrite Z.pow_0_r, Z.div_1_r.
      symmetry. apply enc_strip. exact Hdata.
Qed.

Theorem ushr_spec a n : wf a -> 0 <= n -> ushr a n = enc (val a / 2 ^ n).
Proof.
  intros Ha Hn. unfold ushr. destruct a as [|d a].
  - rewrite val_nil, Z.div_0_l; [reflexivity|]. apply Z.pow_nonzero; lia.
  - rewrite shr2_spec; [|exact Ha|apply Z.div_pos; lia|apply Z.mod_pos_bound; lia].
    f_equal. rewrite (pow2_split n Hn) at 1. rewrite Z.div_div; [reflexivity| |].
    + apply Z.pow_nonzero; [pose proof B_pos; lia|apply Z.div_pos; lia].
    + apply Z.pow_pos_nonneg; [lia|]. apply Z.mod_pos_bound; lia.
Qed.

(** convenience corollaries used by other areas *)
Lemma ushl_wf a n : wf a -> 0 <= n -> canon (ushl a n).
Proof. intros; rewrite ushl_spec by assumption; apply enc_canon. Qed.
Lemma ushr_wf a n : wf a -> 0 <= n -> canon (ushr a n).
Proof. intros; rewrite ushr_spec by assumption; apply enc_canon. Qed.
Lemma ushl_val a n : wf a -> 0 <= n -> val (ushl a n) = val a * 2 ^ n.
Proof.
  intros Ha Hn; rewrite ushl_spec by assumption; apply enc_val.
  apply Z.mul_nonneg_nonneg; [apply val_nonneg; exact Ha|apply Z.pow_nonneg; lia].
Qed.
Lemma ushr_val a n : wf a -> 0 <= n -> val (ushr a n) = val a / 2 ^ n.
Proof.
  intros Ha Hn; rewrite ushr_spec by assumption; apply enc_val.
  apply Z.div_pos; [apply val_nonneg; exact Ha|apply Z.pow_pos_nonneg; lia].
Qed.
