(* PrimFlocq.v — OPTIONAL link of the Z-level rounding definitions of spec/SpecPrim.v to Flocq.
   [rne p n]  is Flocq's  round radix2 (FLX_exp p) ZnearestE (IZR n);
   [rodd k n] (scaled back) is  round radix2 (FLX_exp k) Zrnd_odd (IZR n);
   and Flocq's own theorem Round_odd.round_N_odd then re-derives the value-level form of
   [rne_of_odd] independently of proofs/PrimProofsFloat.v.
   This file (and only this file) depends on the classical axioms of the real numbers
   (ClassicalDedekindReals.sig_forall_dec, sig_not_dec,
   FunctionalExtensionality.functional_extensionality_dep, Classical_Prop.classic); none of the
   C08 theorems in props/C08.v imports it. *)
From Coq Require Import ZArith Bool Reals Lia Lra.
From Flocq Require Import Core Round_odd.
From BigNum Require Import SpecPrim PrimProofsFloat PrimProofsToFloat.
Open Scope Z_scope.

Lemma IZR_pow2 e : 0 <= e -> IZR (2 ^ e) = bpow radix2 e.
Proof. intros H. apply (IZR_Zpower radix2). exact H. Qed.

Lemma mag_IZR n : 0 < n -> mag_val _ _ (mag radix2 (IZR n)) = blen n.
Proof.
  intros Hn. destruct (blen_bounds n Hn) as [H0 [Hlo Hhi]].
  apply mag_unique_pos. rewrite <- !IZR_pow2 by lia. split; [apply IZR_le|apply IZR_lt]; assumption.
Qed.

Lemma IZR_P_pos P : 0 < P -> (0 < IZR P)%R.
Proof. intros H. apply (IZR_lt 0). exact H. Qed.

Lemma frac_split n P : 0 < P ->
  (IZR n / IZR P - IZR (n / P) = IZR (n mod P) / IZR P)%R.
Proof.
  intros HP. pose proof (IZR_P_pos P HP).
  rewrite (Z.div_mod n P) at 1 by lia. rewrite plus_IZR, mult_IZR. field. lra.
Qed.

Lemma frac_cmp n P : 0 < P ->
  Rcompare (IZR n / IZR P - IZR (n / P)) (/ 2) = (2 * (n mod P) ?= P).
Proof.
  intros HP. pose proof (IZR_P_pos P HP) as HPr. rewrite frac_split by exact HP.
  rewrite <- (Rcompare_mult_r (2 * IZR P)) by lra.
  replace (IZR (n mod P) / IZR P * (2 * IZR P))%R with (IZR (2 * (n mod P))) by (rewrite mult_IZR; field; lra).
  replace (/ 2 * (2 * IZR P))%R with (IZR P) by (field; lra).
  apply Rcompare_IZR.
Qed.

Lemma frac_exact_iff n P : 0 < P -> (IZR n / IZR P = IZR (n / P))%R <-> n mod P = 0.
Proof.
  intros HP. pose proof (IZR_P_pos P HP) as HPr. pose proof (frac_split n P HP) as Hs. split; intros H.
  - assert (Hz : (IZR (n mod P) / IZR P = 0)%R) by lra.
    apply eq_IZR. apply (Rmult_eq_reg_r (/ IZR P)); [|apply Rinv_neq_0_compat; lra].
    unfold Rdiv in Hz. lra.
  - rewrite H in Hs. unfold Rdiv in Hs at 2. rewrite Rmult_0_l in Hs. lra.
Qed.

Section Link.
Variable p : Z.
Hypothesis Hp : 0 < p.
Local Instance prec_gt_0 : Prec_gt_0 p := Hp.

(** common shape of a Flocq rounding of a big positive integer *)
Lemma round_big rnd n : 0 < n -> p < blen n ->
  round radix2 (FLX_exp p) rnd (IZR n) =
  (IZR (rnd (IZR n / IZR (2 ^ (blen n - p)))%R) * IZR (2 ^ (blen n - p)))%R.
Proof.
  intros Hn Hb. unfold round, F2R, scaled_mantissa, cexp, FLX_exp. cbn [Fnum Fexp].
  rewrite (mag_IZR n Hn). rewrite bpow_opp, <- IZR_pow2 by lia. reflexivity.
Qed.

Lemma round_small rnd n : Valid_rnd rnd -> 0 <= n -> blen n <= p ->
  round radix2 (FLX_exp p) rnd (IZR n) = IZR n.
Proof.
  intros Hv Hn Hb. apply round_generic; [exact Hv|]. apply generic_format_FLX.
  apply (FLX_spec radix2 p (IZR n) (Float radix2 n 0)).
  - unfold F2R. cbn [Fnum Fexp bpow]. lra.
  - cbn [Fnum]. rewrite Z.abs_eq by lia. change (Z.pow radix2 p) with (2 ^ p).
    destruct (Z.eq_dec n 0) as [->|]; [apply Z.pow_pos_nonneg; lia|].
    destruct (blen_bounds n ltac:(lia)) as [_ [_ Hhi]].
    assert (2 ^ blen n <= 2 ^ p) by (apply Z.pow_le_mono_r; lia). lia.
Qed.

(** [rne] is Flocq's round-to-nearest-even in the unbounded-exponent format of precision p *)
Theorem rne_flocq n : 0 <= n ->
  IZR (rne_val p n) = round radix2 (FLX_exp p) ZnearestE (IZR n).
Proof.
  intros Hn. destruct (Z_le_gt_dec (blen n) p) as [Hs|Hl].
  - rewrite round_small by (try apply valid_rnd_N; assumption).
    unfold rne_val. destruct (Z.eq_dec n 0) as [->|Hn0].
    + rewrite rne_zero by exact Hp. reflexivity.
    + rewrite rne_small by lia. change (2 ^ 0) with 1. rewrite Z.mul_1_r. reflexivity.
  - assert (Hn0 : 0 < n) by (unfold blen in Hl; destruct (Z.leb_spec n 0); lia).
    rewrite round_big by lia. unfold rne_val, rne.
    replace (Z.max 0 (blen n - p)) with (blen n - p) by lia.
    set (e := blen n - p). set (P := 2 ^ e).
    assert (HP : 0 < P) by (apply Z.pow_pos_nonneg; unfold e; lia).
    rewrite mult_IZR. f_equal. f_equal.
    unfold Znearest. rewrite Zfloor_div by lia. rewrite frac_cmp by exact HP.
    pose proof (Z.mod_pos_bound n P HP) as Hr.
    destruct (Z.compare_spec (2 * (n mod P)) P) as [He|Hlt|Hgt].
    + destruct (Z.ltb_spec (2 * (n mod P)) P); [lia|]. destruct (Z.ltb_spec P (2 * (n mod P))); [lia|].
      rewrite Zceil_floor_neq; rewrite Zfloor_div by lia;
        [|intros Hc; symmetry in Hc; apply frac_exact_iff in Hc; lia].
      destruct (Z.even (n / P)); reflexivity.
    + destruct (Z.ltb_spec (2 * (n mod P)) P); [reflexivity|lia].
    + destruct (Z.ltb_spec (2 * (n mod P)) P); [lia|]. destruct (Z.ltb_spec P (2 * (n mod P))); [|lia].
      rewrite Zceil_floor_neq; rewrite Zfloor_div by lia;
        [reflexivity|intros Hc; symmetry in Hc; apply frac_exact_iff in Hc; lia].
Qed.

(** [rodd] (scaled back to the magnitude of n) is Flocq's round-to-odd *)
Theorem rodd_flocq n : 0 <= n ->
  IZR (rodd p n * 2 ^ Z.max 0 (blen n - p)) = round radix2 (FLX_exp p) Zrnd_odd (IZR n).
Proof.
  intros Hn. destruct (Z_le_gt_dec (blen n) p) as [Hs|Hl].
  - rewrite round_small by (try apply valid_rnd_odd; assumption).
    rewrite rodd_small by assumption. replace (Z.max 0 (blen n - p)) with 0 by lia.
    change (2 ^ 0) with 1. rewrite Z.mul_1_r. reflexivity.
  - assert (Hn0 : 0 < n) by (unfold blen in Hl; destruct (Z.leb_spec n 0); lia).
    rewrite round_big by lia.
    destruct (rodd_decomp p n Hp ltac:(lia)) as [HR _]. rewrite HR.
    replace (Z.max 0 (blen n - p)) with (blen n - p) by lia.
    set (e := blen n - p) in *. set (P := 2 ^ e) in *.
    assert (HP : 0 < P) by (apply Z.pow_pos_nonneg; unfold e; lia).
    rewrite mult_IZR. f_equal. f_equal.
    unfold Zrnd_odd. rewrite Zfloor_div by lia.
    destruct (Req_EM_T (IZR n / IZR P) (IZR (n / P))) as [Heq|Hne].
    + apply frac_exact_iff in Heq; [|exact HP]. rewrite Heq. cbn [Z.eqb negb]. rewrite andb_false_r. lia.
    + assert (Hr : n mod P <> 0) by (intros Hc; apply Hne; apply frac_exact_iff; assumption).
      destruct (Z.eqb_spec (n mod P) 0); [contradiction|]. cbn [negb]. rewrite andb_true_r.
      destruct (Z.even (n / P)) eqn:Ev; [|lia].
      rewrite Zceil_floor_neq; rewrite Zfloor_div by lia; [reflexivity|intros Hc; apply Hne; symmetry; exact Hc].
Qed.
End Link.

(** Flocq's round_N_odd re-derives: rounding the 64-bit round-to-odd summary to p <= 62 bits
    to nearest-even gives the nearest-even rounding of the number itself. *)
Theorem rne_of_odd_via_flocq p n : 1 < p -> p + 2 <= 64 -> 0 <= n ->
  rne_val p (rodd 64 n * 2 ^ Z.max 0 (blen n - 64)) = rne_val p n.
Proof.
  intros Hp Hk Hn. apply eq_IZR.
  assert (H64 : (0 < 64)%Z) by lia.
  assert (Hp0 : 0 < p) by lia.
  assert (Hnn : 0 <= rodd 64 n * 2 ^ Z.max 0 (blen n - 64)).
  { apply le_IZR. rewrite (rodd_flocq 64 H64 n Hn).
    rewrite <- (round_0 radix2 (FLX_exp 64) Zrnd_odd).
    apply round_le; [apply FLX_exp_valid; exact H64|apply valid_rnd_odd|apply IZR_le; exact Hn]. }
  rewrite (rne_flocq p Hp0 _ Hnn), (rne_flocq p Hp0 n Hn), (rodd_flocq 64 H64 n Hn).
  apply round_N_odd.
  - reflexivity.
  - apply FLX_exp_valid. exact Hp0.
  - apply exists_NE_FLX. right. exact Hp.
  - apply FLX_exp_valid. exact H64.
  - apply exists_NE_FLX. right. lia.
  - intros e. unfold FLX_exp. lia.
Qed.
Print Assumptions rne_flocq.
