(* DivProofs.v — C03: leaves of the division model (div_wide, single-digit division,
   sub_mul_digit_same_len) and the parameter predicate [div_ok]. *)
From BigNum Require Import Base BaseLemmas X86 AddSub SpecAddSub AddSubProofs ShiftCore Div SpecDiv.
Open Scope Z_scope.

(** The source-extracted parameters the theorems are proved for. *)
Definition pre_eqb (a b : list precheck) : bool :=
  (length a =? length b)%nat && forallb (fun xy => precheck_eqb (fst xy) (snd xy)) (combine a b).
Definition std_pre : list precheck := [PcDZero; PcUZero; PcLen1; PcCmp].

Definition div_ok (p : div_params) : bool :=
  addsub_ok (dp_as p)
  && cmpop_eqb (dp_a0_cmp p) Clt && cmpop_eqb (dp_r_cmp p) Cle && cmpop_eqb (dp_q_cmp p) Clt
  && cmpop_eqb (dp_borrow_cmp p) Cgt
  && pre_eqb (dp_pre_val p) std_pre && pre_eqb (dp_pre_ref p) std_pre
  && cmpop_eqb (dp_shift_cmp p) Ceq && dp_u32_short p
  && dp_g_udiv p && dp_g_udiv_euclid p && dp_g_urem_euclid p && dp_g_udiv_rem_euclid p
  && dp_g_idiv p && dp_g_idiv_euclid p && dp_g_irem_euclid p && dp_g_idiv_rem_euclid p
  && dp_g_idiv_inherent p.

Lemma pre_eqb_std l : pre_eqb l std_pre = true -> l = std_pre.
Proof.
  unfold pre_eqb, std_pre. intros H. apply andb_true_iff in H as [Hl H].
  apply Nat.eqb_eq in Hl.
  destruct l as [|a [|b [|c [|d [|e l]]]]]; try discriminate Hl.
  cbn in H. rewrite !andb_true_iff in H. destruct H as (Ha & Hb & Hc & Hd & _).
  destruct a, b, c, d; try discriminate; reflexivity.
Qed.

Lemma cmpop_eqb_eq a b : cmpop_eqb a b = true -> a = b.
Proof. destruct a, b; try discriminate; reflexivity. Qed.

Record div_ok_facts (p : div_params) : Prop := {
  dk_as : addsub_ok (dp_as p) = true;
  dk_a0 : dp_a0_cmp p = Clt; dk_r : dp_r_cmp p = Cle; dk_q : dp_q_cmp p = Clt;
  dk_borrow : dp_borrow_cmp p = Cgt;
  dk_pre_val : dp_pre_val p = std_pre; dk_pre_ref : dp_pre_ref p = std_pre;
  dk_shift : dp_shift_cmp p = Ceq; dk_short : dp_u32_short p = true;
  dk_g1 : dp_g_udiv p = true; dk_g2 : dp_g_udiv_euclid p = true; dk_g3 : dp_g_urem_euclid p = true;
  dk_g4 : dp_g_udiv_rem_euclid p = true; dk_g5 : dp_g_idiv p = true; dk_g6 : dp_g_idiv_euclid p = true;
  dk_g7 : dp_g_irem_euclid p = true; dk_g8 : dp_g_idiv_rem_euclid p = true;
  dk_g9 : dp_g_idiv_inherent p = true }.

Lemma div_ok_inv p : div_ok p = true -> div_ok_facts p.
Proof.
  unfold div_ok. rewrite !andb_true_iff. intros H.
  repeat match goal with H : _ /\ _ |- _ => destruct H end.
  constructor; auto using cmpop_eqb_eq, pre_eqb_std.
Qed.

(** * div_wide *)
Lemma div_wide_spec hi lo d : 0 <= hi < d ->
  div_wide hi lo d = Ret ((hi * B + lo) / d, (hi * B + lo) mod d).
Proof.
  intros H. unfold div_wide. replace (hi <? d) with true by (symmetry; apply Z.ltb_lt; lia).
  reflexivity.
Qed.

(** * single-digit division *)
Lemma div_digit_loop_spec b : 0 < b < B -> forall a, wf a ->
  exists q r, div_digit_loop a b = Ret (q, r) /\ wf q /\ length q = length a /\
              0 <= r < b /\ val a = val q * b + r.
Proof.
  intros Hb. induction a as [|d a IH]; intros Wa.
  - exists [], 0. cbn. repeat split; auto using wf_nil; lia.
  - apply wf_cons in Wa as [Hd Wa]. destruct (IH Wa) as (q & r & E & Wq & Lq & Hr & V).
    cbn [div_digit_loop]. rewrite E. cbn [bind]. rewrite div_wide_spec by lia. cbn [bind].
    unfold digit in Hd.
    set (n := r * B + d). 
    assert (Hn : 0 <= n < b * B) by (unfold n; nia).
    assert (Hq : 0 <= n / b < B).
    { split; [apply Z.div_pos; lia|apply Z.div_lt_upper_bound; lia]. }
    pose proof (Z.mod_pos_bound n b ltac:(lia)) as Hm.
    pose proof (Z.div_mod n b ltac:(lia)) as Hdm.
    eexists _, _. split; [reflexivity|]. repeat split.
    + apply wf_cons; split; [exact Hq|exact Wq].
    + cbn [length]; lia.
    + lia.
    + lia.
    + rewrite !val_cons, V. unfold n in *. nia.
Qed.

Theorem div_rem_digit_spec a b : wf a -> 0 < b < B ->
  div_rem_digit a b = Ret (enc (val a / b), val a mod b).
Proof.
  intros Wa Hb. unfold div_rem_digit.
  replace (b =? 0) with false by (symmetry; apply Z.eqb_neq; lia).
  destruct (div_digit_loop_spec b Hb a Wa) as (q & r & E & Wq & Lq & Hr & V).
  rewrite E. cbn [bind]. rewrite <- enc_strip by auto.
  assert (val a / b = val q) by (symmetry; apply Z.div_unique with r; lia).
  assert (val a mod b = r) by (symmetry; apply Z.mod_unique with (val q); lia).
  congruence.
Qed.

Theorem rem_digit_spec a b : wf a -> 0 < b < B -> rem_digit a b = Ret (val a mod b).
Proof.
  intros Wa Hb. unfold rem_digit.
  replace (b =? 0) with false by (symmetry; apply Z.eqb_neq; lia).
  destruct (div_digit_loop_spec b Hb a Wa) as (q & r & E & Wq & Lq & Hr & V).
  rewrite E. cbn [bind snd]. f_equal. apply Z.mod_unique with (val q); lia.
Qed.

Lemma div_rem_digit_zero a : div_rem_digit a 0 = Panic DivZero.
Proof. reflexivity. Qed.
Lemma rem_digit_zero a : rem_digit a 0 = Panic DivZero.
Proof. reflexivity. Qed.

(** * sub_mul_digit_same_len: a - b*c with a borrow word; the u128 arithmetic never overflows *)
Lemma BB_BB : BB = B * B. Proof. exact BB_val. Qed.

Lemma sub_mul_loop_spec c : 0 <= c < B -> forall a b oc, wf a -> wf b -> length a = length b ->
  0 <= oc <= MAXD ->
  exists a' oc', sub_mul_loop oc a b c = Ret (a', oc') /\ wf a' /\ length a' = length a /\
                 0 <= oc' <= MAXD /\
                 val a' + B ^ Z.of_nat (length a) * (oc' - MAXD) = val a - c * val b + (oc - MAXD).
Proof.
  intros Hc. induction a as [|x a IH]; intros [|y b] oc Wa Wb Hl Hoc; try discriminate Hl.
  - exists [], oc. cbn [sub_mul_loop length val]. change (Z.of_nat 0) with 0. rewrite Z.pow_0_r.
    repeat split; auto using wf_nil; lia.
  - apply wf_cons in Wa as [Hx Wa]. apply wf_cons in Wb as [Hy Wb]. injection Hl as Hl.
    unfold digit in Hx, Hy. unfold MAXD in *.
    pose proof BB_BB as HBB. pose proof B_gt1 as HB1.
    cbn [sub_mul_loop]. unfold MAXD.
    set (t4 := (B - 1) * B + x - (B - 1) + oc - y * c).
    assert (Hyc : 0 <= y * c <= (B - 1) * (B - 1)) by nia.
    assert (Ht4 : 0 <= t4 < B * B) by (unfold t4; nia).
    replace (B - 1 <=? (B - 1) * B + x) with true by (symmetry; apply Z.leb_le; nia).
    replace ((B - 1) * B + x - (B - 1) + oc <? BB) with true by (symmetry; apply Z.ltb_lt; nia).
    replace (y * c <? BB) with true by (symmetry; apply Z.ltb_lt; nia).
    replace (y * c <=? (B - 1) * B + x - (B - 1) + oc) with true by (symmetry; apply Z.leb_le; nia).
    cbn [assert_ bind]. fold t4.
    assert (Hq : 0 <= t4 / B <= B - 1).
    { split; [apply Z.div_pos; lia|]. assert (t4 / B < B) by (apply Z.div_lt_upper_bound; lia). lia. }
    destruct (IH b (t4 / B) Wa Wb Hl Hq) as (a' & oc' & E & Wa' & La' & Hoc' & V).
    rewrite E. cbn [bind]. eexists _, _. split; [reflexivity|].
    pose proof (Z.mod_pos_bound t4 B ltac:(lia)) as Hm.
    pose proof (Z.div_mod t4 B ltac:(lia)) as Hdm.
    repeat split; try lia.
    + apply wf_cons; split; [exact Hm|exact Wa'].
    + cbn [length]; lia.
    + rewrite !val_cons. cbn [length]. rewrite Nat2Z.inj_succ, Z.pow_succ_r by lia.
      set (P := B ^ Z.of_nat (length a)) in *.
      replace (B * P * (oc' - (B - 1))) with (B * (P * (oc' - (B - 1)))) by ring.
      replace (P * (oc' - (B - 1))) with (val a - c * val b + (t4 / B - (B - 1)) - val a') by lia.
      unfold t4 in Hdm. lia.
Qed.

Theorem sub_mul_spec a b c : wf a -> wf b -> length a = length b -> 0 <= c < B ->
  exists a' br, sub_mul_digit_same_len a b c = Ret (a', br) /\ wf a' /\ length a' = length a /\
                0 <= br < B /\ val a' - B ^ Z.of_nat (length a) * br = val a - c * val b.
Proof.
  intros Wa Wb Hl Hc. unfold sub_mul_digit_same_len.
  replace (length a =? length b)%nat with true by (symmetry; apply Nat.eqb_eq; auto).
  cbn [assert_ bind].
  pose proof B_gt1.
  destruct (sub_mul_loop_spec c Hc a b MAXD Wa Wb Hl ltac:(unfold MAXD; lia)) as (a' & oc' & E & Wa' & La' & Hoc' & V).
  rewrite E. cbn [bind].
  replace (oc' <=? MAXD) with true by (symmetry; apply Z.leb_le; lia). cbn [assert_ bind].
  eexists _, _. split; [reflexivity|]. unfold MAXD in *. repeat split; auto; try lia.
Qed.
