(* DivProofs.v — C03: leaves of the division model (div_wide, single-digit division,
   sub_mul_digit_same_len) and the parameter predicate [div_ok]. *)
From BigNum Require Import Base BaseLemmas X86 AddSub SpecAddSub AddSubProofs ShiftCore Div SpecDiv.
Open Scope Z_scope.

(** The source-extracted parameters the theorems are proved for. *)
Definition pre_eqb (a b : list precheck) : bool :=
  (length a =? length b)%nat && forallb (fun xy => precheck_eqb (fst xy) (snd xy)) (combine a b).
Definition std_pre : list precheck := [PcDZero; PcUZero; PcLen1; PcCmp].

Definition div_ok (p : div_params) : bool :=
  addsub_ok (dp_as p)
  && cmpop_eqb (dp_a0_cmp p) Clt && cmpop_eqb (dp_r_cmp p) Cle && cmpop_eqb (dp_q_cmp p) Clt
  && cmpop_eqb (dp_borrow_cmp p) Cgt
  && pre_eqb (dp_pre_val p) std_pre && pre_eqb (dp_pre_ref p) std_pre
  && cmpop_eqb (dp_shift_cmp p) Ceq && dp_u32_short p
  && dp_g_udiv p && dp_g_udiv_euclid p && dp_g_urem_euclid p && dp_g_udiv_rem_euclid p
  && dp_g_idiv p && dp_g_idiv_euclid p && dp_g_irem_euclid p && dp_g_idiv_rem_euclid p
  && dp_g_idiv_inherent p.
