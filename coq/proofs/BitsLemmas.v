(* BitsLemmas.v — bit-level facts about Z and little-endian digit lists used by the C07 proofs. *)
From BigNum Require Import Base BaseLemmas ShiftCore ShiftCoreProofs.
Open Scope Z_scope.

(** ** a digit prepended to an integer: bits *)
Lemma testbit_cons x u n : 0 <= x < B -> 0 <= n ->
  Z.testbit (x + B * u) n = if n <? 64 then Z.testbit x n else Z.testbit u (n - 64).
Proof.
  intros Hx Hn. rewrite B_as_pow2 in *.
  assert (E : x + 2 ^ 64 * u = Z.lor (u * 2 ^ 64) x).
  { rewrite (lor_disjoint (u * 2 ^ 64) x 64); [ring|lia|apply Z.mod_mul; lia|exact Hx]. }
  rewrite E, Z.lor_spec. destruct (Z.ltb_spec n 64) as [Hlt|Hge].
  - rewrite Z.mul_pow2_bits_low by lia. reflexivity.
  - rewrite Z.mul_pow2_bits by lia. rewrite (testbit_small x 64 n) by lia.
    apply orb_false_r.
Qed.

Lemma digit_of_bits z : 0 <= z -> (forall n, 64 <= n -> Z.testbit z n = false) -> z < B.
Proof.
  intros Hz H. rewrite B_as_pow2. destruct (Z.eq_dec z 0) as [->|Hn]; [reflexivity|].
  apply Z.log2_lt_pow2; [lia|]. destruct (Z.lt_ge_cases (Z.log2 z) 64) as [|Hge]; [assumption|].
  specialize (H _ Hge). rewrite Z.bit_log2 in H by lia. discriminate.
Qed.

Lemma digit_high_bits d n : digit d -> 64 <= n -> Z.testbit d n = false.
Proof. unfold digit; rewrite B_as_pow2; intros; apply (testbit_small d 64 n); lia. Qed.

(** the three digit-wise operators *)
Definition bitop (f : Z -> Z -> Z) (g : bool -> bool -> bool) : Prop :=
  g false false = false /\ forall a b n, 0 <= n -> Z.testbit (f a b) n = g (Z.testbit a n) (Z.testbit b n).
Lemma bitop_land : bitop Z.land andb.
Proof. split; [reflexivity|]. intros; apply Z.land_spec. Qed.
Lemma bitop_lor : bitop Z.lor orb.
Proof. split; [reflexivity|]. intros; apply Z.lor_spec. Qed.
Lemma bitop_lxor : bitop Z.lxor xorb.
Proof. split; [reflexivity|]. intros; apply Z.lxor_spec. Qed.

Lemma bitop_nonneg f g : bitop f g -> forall a b, 0 <= a -> 0 <= b -> 0 <= f a b.
Proof.
  intros [H0 Hf] a b Ha Hb. apply Z.bits_iff_nonneg_ex. exists (Z.max (Z.log2 a) (Z.log2 b) + 1).
  intros m Hm. assert (0 <= m) by (pose proof (Z.log2_nonneg a); lia).
  rewrite Hf by lia. rewrite (Z.bits_above_log2 a), (Z.bits_above_log2 b) by lia. exact H0.
Qed.

Lemma bitop_digit f g : bitop f g -> forall x y, digit x -> digit y -> digit (f x y).
Proof.
  intros Hb x y Hx Hy. pose proof Hb as [H0 Hf]. unfold digit in *.
  split; [apply (bitop_nonneg f g Hb); lia|].
  apply digit_of_bits; [apply (bitop_nonneg f g Hb); lia|].
  intros n Hn. rewrite Hf by lia. rewrite (digit_high_bits x), (digit_high_bits y) by (unfold digit; lia).
  exact H0.
Qed.

(** digit step: the operator acts digit by digit (u, v arbitrary integers, also negative) *)
Lemma bitop_cons f g : bitop f g -> forall x y u v, digit x -> digit y ->
  f (x + B * u) (y + B * v) = f x y + B * f u v.
Proof.
  intros Hb x y u v Hx Hy. pose proof Hb as [H0 Hf].
  pose proof (bitop_digit f g Hb x y Hx Hy) as Hd. unfold digit in *.
  apply Z.bits_inj'; intros n Hn.
  rewrite Hf, !testbit_cons by lia. destruct (Z.ltb_spec n 64); rewrite Hf by lia; reflexivity.
Qed.

(** ** isolated bits *)
Lemma land_pow2 d k : 0 <= k -> Z.land d (2 ^ k) = if Z.testbit d k then 2 ^ k else 0.
Proof.
  intros Hk. apply Z.bits_inj'; intros n Hn. rewrite Z.land_spec, Z.pow2_bits_eqb by lia.
  destruct (Z.eqb_spec k n) as [->|Hne].
  - destruct (Z.testbit d n); [rewrite Z.pow2_bits_true by lia; reflexivity|rewrite Z.bits_0; reflexivity].
  - rewrite andb_false_r. destruct (Z.testbit d k); [rewrite Z.pow2_bits_false by lia|rewrite Z.bits_0]; reflexivity.
Qed.

Lemma testbit_land_pow2 d k : 0 <= k -> negb (Z.land d (2 ^ k) =? 0) = Z.testbit d k.
Proof.
  intros Hk. rewrite land_pow2 by lia. destruct (Z.testbit d k); [|reflexivity].
  assert (0 < 2 ^ k) by (apply Z.pow_pos_nonneg; lia).
  destruct (Z.eqb_spec (2 ^ k) 0); [lia|reflexivity].
Qed.

Lemma setbit_set v i : 0 <= i -> Z.testbit v i = true -> Z.setbit v i = v.
Proof.
  intros Hi H. apply Z.bits_inj'; intros n Hn. rewrite Z.setbit_eqb by lia.
  destruct (Z.eqb_spec i n) as [->|]; [rewrite H; reflexivity|reflexivity].
Qed.
Lemma setbit_clear v i : 0 <= i -> Z.testbit v i = false -> Z.setbit v i = v + 2 ^ i.
Proof.
  intros Hi H. unfold Z.setbit. rewrite Z.shiftl_1_l.
  assert (L : Z.land v (2 ^ i) = 0) by (rewrite land_pow2, H by lia; reflexivity).
  rewrite <- Z.lxor_lor by exact L. symmetry. apply Z.add_nocarry_lxor. exact L.
Qed.
Lemma clearbit_clear v i : 0 <= i -> Z.testbit v i = false -> Z.clearbit v i = v.
Proof.
  intros Hi H. apply Z.bits_inj'; intros n Hn. rewrite Z.clearbit_eqb by lia.
  destruct (Z.eqb_spec i n) as [->|]; [rewrite H; reflexivity|apply andb_true_r].
Qed.
Lemma clearbit_set v i : 0 <= i -> Z.testbit v i = true -> Z.clearbit v i = v - 2 ^ i.
Proof.
  intros Hi H. unfold Z.clearbit. rewrite Z.shiftl_1_l. symmetry. apply Z.sub_nocarry_ldiff.
  apply Z.bits_inj'; intros n Hn. rewrite Z.ldiff_spec, Z.bits_0, Z.pow2_bits_eqb by lia.
  destruct (Z.eqb_spec i n) as [->|]; [rewrite H; reflexivity|reflexivity].
Qed.

(** ** bits of a digit list *)
Lemma zlen_nonneg (l : list Z) : 0 <= Z.of_nat (length l). Proof. lia. Qed.

Lemma testbit_val a : forall i, wf a -> 0 <= i ->
  Z.testbit (val a) i =
  match nth_error a (Z.to_nat (i / 64)) with Some d => Z.testbit d (i mod 64) | None => false end.
Proof.
  induction a as [|x a IH]; intros i Ha Hi.
  - rewrite val_nil, Z.bits_0. destruct (Z.to_nat (i / 64)); reflexivity.
  - apply wf_cons in Ha as [Hx Ha]. rewrite val_cons, testbit_cons by (auto; lia).
    destruct (Z.ltb_spec i 64) as [Hlt|Hge].
    + rewrite Z.div_small, Z.mod_small by lia. reflexivity.
    + rewrite IH by (auto; lia).
      replace (i / 64) with ((i - 64) / 64 + 1) by lia.
      replace (i mod 64) with ((i - 64) mod 64) by lia.
      rewrite Z2Nat.inj_add by lia. rewrite Nat.add_1_r. reflexivity.
Qed.

(** log2 of a value with a known top part *)
Lemma log2_top r m d : 0 <= m -> 0 <= r < 2 ^ m -> 0 < d -> Z.log2 (r + 2 ^ m * d) = m + Z.log2 d.
Proof.
  intros Hm Hr Hd. apply Z.log2_unique; [pose proof (Z.log2_nonneg d); lia|].
  pose proof (Z.log2_spec d Hd) as [L U]. pose proof (Z.log2_nonneg d). unfold Z.succ in *.
  replace (m + Z.log2 d + 1) with (m + (Z.log2 d + 1)) by ring.
  rewrite (Z.pow_add_r 2 m (Z.log2 d)), (Z.pow_add_r 2 m (Z.log2 d + 1)) by lia. set (P := 2 ^ m) in *. set (Q := 2 ^ Z.log2 d) in *.
  set (Q2 := 2 ^ (Z.log2 d + 1)) in *.
  assert (0 < P) by (apply Z.pow_pos_nonneg; lia).
  assert (P * Q <= P * d) by (apply Z.mul_le_mono_nonneg_l; lia).
  assert (P * (d + 1) <= P * Q2) by (apply Z.mul_le_mono_nonneg_l; lia).
  lia.
Qed.

Lemma val_snoc l d : val (l ++ [d]) = val l + B ^ Z.of_nat (length l) * d.
Proof. rewrite val_app, val_single. reflexivity. Qed.

Lemma canon_snoc_inv l : canon l -> l <> [] -> exists l' d, l = l' ++ [d] /\ wf l' /\ digit d /\ d <> 0.
Proof.
  intros [Hw Hs] Hn. destruct (exists_last Hn) as (l' & d & ->). exists l', d.
  apply wf_app in Hw as [Hw' Hd]. apply wf_cons in Hd as [Hd _].
  split; [reflexivity|]. split; [exact Hw'|]. split; [exact Hd|]. intros E0; subst d.
  assert (E : strip (l' ++ [0]) = strip l').
  { clear. induction l' as [|x l IH]; [reflexivity|]. cbn [app strip]. rewrite IH. reflexivity. }
  rewrite E in Hs. pose proof (length_strip l') as Hl. rewrite Hs, app_length in Hl. cbn in Hl. lia.
Qed.

(** number of digits / bits of a canonical value *)
Lemma log2_canon l : canon l -> l <> [] ->
  64 * (Z.of_nat (length l) - 1) <= Z.log2 (val l) < 64 * Z.of_nat (length l).
Proof.
  intros Hc Hn. pose proof (canon_lower l Hc Hn) as Hlo. destruct Hc as [Hw _].
  pose proof (val_bound l Hw) as Hb. assert (0 < Z.of_nat (length l)) by (destruct l; [congruence|cbn; lia]).
  rewrite !B_pow_pow2 in * by lia. assert (0 < val l) by (assert (0 < 2 ^ (64 * (Z.of_nat (length l) - 1))) by (apply Z.pow_pos_nonneg; lia); lia).
  split; [apply Z.log2_le_pow2; lia|apply Z.log2_lt_pow2; lia].
Qed.
