(* RadixAsciiLemmas.v — C15 (the `String::from_utf8_unchecked` clause of to_str_radix): the text
   of a NON-NEGATIVE value consists of '0'..'9' / 'a'..'z' only (no sign byte); complements
   RadixTextProofs.to_str_ascii, which allows '-' anywhere. *)
From Coq Require Import ZArith List Bool Lia.
From BigNum Require Import Base BaseLemmas SpecBytes BytesLemmas Radix RadixText SpecRadix
  RadixProofs RadixProofs2 RadixProofs3 RadixTextProofs.
Import ListNotations.
Open Scope Z_scope.

Definition ascii_alnum (c : Z) : Prop := 48 <= c <= 57 \/ 97 <= c <= 122.

Lemma to_str_alnum z r s : 0 <= z -> spec_to_str z r = Ret s -> Forall ascii_alnum s.
Proof.
  intros Hz. unfold spec_to_str. destruct (radix_in 2 36 r) eqn:Hr; [|discriminate]. intros [= <-].
  unfold radix_in in Hr. apply andb_true_iff in Hr as [H1 H2]. apply Z.leb_le in H1, H2.
  destruct (Z.ltb_spec z 0); [lia|]. cbn [app].
  apply Forall_rev. apply Forall_forall. intros c Hc. apply in_map_iff in Hc as (d & <- & Hd).
  destruct (spec_to_radix_le_props (Z.abs z) r ltac:(lia) ltac:(lia)) as (_ & I & _).
  unfold inb in I. rewrite Forall_forall in I. specialize (I d Hd).
  destruct (digit_char_digit r d I H2) as (_ & _ & _ & Hrng). unfold ascii_alnum. lia.
Qed.

(* a negative value: exactly one leading '-' followed by such digits *)
Lemma to_str_neg z r s : z < 0 -> spec_to_str z r = Ret s ->
  exists t, s = 45 :: t /\ Forall ascii_alnum t.
Proof.
  intros Hz. unfold spec_to_str. destruct (radix_in 2 36 r) eqn:Hr; [|discriminate]. intros [= <-].
  destruct (Z.ltb_spec z 0); [|lia]. cbn [app]. eexists; split; [reflexivity|].
  assert (E : spec_to_str (Z.abs z) r = Ret (rev (map digit_char (spec_to_radix_le (Z.abs (Z.abs z)) r)))).
  { unfold spec_to_str. rewrite Hr. destruct (Z.ltb_spec (Z.abs z) 0); [lia|]. reflexivity. }
  rewrite Z.abs_involutive in E. apply (to_str_alnum (Z.abs z) r); [lia|exact E].
Qed.
