(* MulProofs2.v — C02, part 2: half-Karatsuba and Karatsuba, given a recursive
   multiply-accumulate that is correct for operands of smaller total length. *)
From BigNum Require Import Base BaseLemmas X86 AddSub AddSubProofs ShiftCore ShiftCoreProofs Mul MulProofs.
Open Scope Z_scope.

Lemma sign_mul_z_sign u v : sign_mul (z_sign u) (z_sign v) = z_sign (u * v).
Proof. destruct u, v; reflexivity. Qed.

Lemma mul_abs_bound a b A C : - A < a < A -> - C < b < C -> a * b < A * C.
Proof. intros Ha Hb. nia. Qed.

Lemma rec_zeros rec n len b c : rec_ok rec n -> wf b -> wf c ->
  (length b + length c < n)%nat -> (length b + length c + 1 <= len)%nat ->
  exists r, rec (zeros len) b c = Ret r /\ wf r /\ length r = len /\ val r = val b * val c.
Proof.
  intros Hrec Wb Wc Hn Hl.
  destruct (Hrec (zeros len) b c (wf_zeros len) Wb Wc Hn (room_zeros len b c Wb Wc Hl))
    as (r & E & W & L & V).
  exists r. rewrite length_zeros in L. rewrite val_zeros in V. repeat split; auto.
Qed.

Lemma strip_facts l k : wf l -> 0 <= k -> val l < B ^ k ->
  wf (strip l) /\ val (strip l) = val l /\ lenZ (strip l) <= k.
Proof. intros. split; [apply wf_strip; auto|]. split; [apply val_strip|apply strip_len_bound; auto]. Qed.

Lemma B_pow_add a b : 0 <= a -> 0 <= b -> B ^ (a + b) = B ^ a * B ^ b.
Proof. intros; apply Z.pow_add_r; auto. Qed.

(** * Half-Karatsuba *)
Lemma half_kara_spec rec p acc x y : mul_ok p = true -> rec_ok rec (length x + length y) ->
  wf acc -> wf x -> wf y -> (2 <= length y)%nat -> room acc x y ->
  exists r, half_kara rec p acc x y = Ret r /\ adds acc r (val x * val y).
Proof.
  intros Hp Hrec Wa Wx Wy Hy Hr.
  pose proof (mul_ok_inv p Hp) as (Hap & _ & _ & _ & _ & _ & _ & _ & Hhs & _).
  pose proof (room_len acc x y Wa Wx Wy Hr) as Hlen.
  unfold half_kara, half_split. rewrite Hhs.
  set (m2 := Z.to_nat (lenZ y / 2)).
  assert (Hm : (1 <= m2 < length y)%nat) by (unfold m2, lenZ; lia).
  destruct (val_skipn m2 y Wy ltac:(lia)) as [Hvy Hlo].
  assert (Ll : length (firstn m2 y) = m2) by (apply firstn_length_le; lia).
  assert (Lh : length (skipn m2 y) = (length y - m2)%nat) by apply skipn_length.
  pose proof (wf_firstn m2 y Wy) as Wl. pose proof (wf_skipn m2 y Wy) as Wh.
  set (low2 := firstn m2 y) in *. set (high2 := skipn m2 y) in *.
  pose proof (val_nonneg x Wx) as Hx0. pose proof (val_nonneg high2 Wh) as Hh0.
  pose proof (val_nonneg acc Wa) as Ha0.
  pose proof (B_pow_nat m2) as HP.
  assert (Hly : lenZ y = Z.of_nat m2 + lenZ high2) by (unfold lenZ; lia).
  (* first call *)
  destruct (Hrec acc x low2 Wa Wx Wl ltac:(lia)) as (a1 & E1 & W1 & L1 & V1).
  { unfold room, fits in *.
    assert (B ^ (lenZ x + lenZ low2) <= B ^ (lenZ x + lenZ y))
      by (apply pow_le_mono; unfold lenZ; lia).
    assert (val x * val low2 <= val x * val y) by (rewrite Hvy; nia). lia. }
  rewrite E1. cbn [bind].
  (* second call on the slice *)
  assert (Hf : fits a1 (B ^ Z.of_nat m2 * (val x * val high2)) (Z.of_nat m2 + (lenZ x + lenZ high2))).
  { unfold room, fits in *. unfold lenZ at 3. rewrite L1. fold (lenZ acc).
    replace (Z.of_nat m2 + (lenZ x + lenZ high2)) with (lenZ x + lenZ y) by lia.
    rewrite V1. rewrite Hvy in Hr. nia. }
  apply fits_skipn in Hf; auto.
  2:{ pose proof (lenZ_nonneg x); pose proof (lenZ_nonneg high2); lia. }
  2:{ nia. }
  destruct (Hrec (skipn m2 a1) x high2 (wf_skipn m2 a1 W1) Wx Wh ltac:(lia) Hf) as (t & Et & Ht).
  destruct (on_slice_adds m2 208 a1 (fun s => rec s x high2) _ t W1 ltac:(lia) Et Ht) as (r & Er & W & L & V).
  exists r; split; auto. split; [auto|]. split; [lia|].
  rewrite V, V1, Hvy. ring.
Qed.

(** * Karatsuba *)

(** the arithmetic of Karatsuba's in-place schedule *)
Lemma kara_arith P Qx Qy X0 X1 Y0 Y1 a A :
  0 < P -> P <= Qx -> P <= Qy -> 0 <= X0 < P -> 0 <= X1 < Qx -> 0 <= Y0 < P -> 0 <= Y1 < Qy ->
  0 <= a -> a + (X0 + P * X1) * (Y0 + P * Y1) + P * Qx * (P * Qy) <= A ->
  0 <= X1 * Y1 < Qx * Qy /\ 0 <= X0 * Y0 < P * P /\
  0 <= P * (X1 * Y1) /\ 0 <= P * P * (X1 * Y1) /\ 0 <= P * (X0 * Y0) /\
  P * (X1 * Y1) + P * P * (X1 * Y1) + X0 * Y0 + P * (X0 * Y0)
    = (X0 + P * X1) * (Y0 + P * Y1) + P * ((X1 - X0) * (Y1 - Y0)) /\
  P * ((X1 - X0) * (Y1 - Y0)) < P * Qx * (P * Qy) /\
  0 <= (X0 + P * X1) * (Y0 + P * Y1).
Proof.
  intros HP HQx HQy HX0 HX1 HY0 HY1 Ha HA.
  assert (H1 : 0 <= X1 * Y1 < Qx * Qy) by nia.
  assert (H0 : 0 <= X0 * Y0 < P * P) by nia.
  assert (Hm : (X1 - X0) * (Y1 - Y0) < Qx * Qy) by (apply mul_abs_bound; lia).
  assert (HQQ : 0 < Qx * Qy) by nia.
  split; [exact H1|]. split; [exact H0|].
  split; [nia|]. split; [nia|]. split; [nia|]. split; [ring|].
  split; [|nia].
  assert (P * ((X1 - X0) * (Y1 - Y0)) < P * (Qx * Qy)) by (apply Z.mul_lt_mono_pos_l; assumption).
  assert (P * (Qx * Qy) <= P * Qx * (P * Qy)) by (clear - HP HQQ; nia). lia.
Qed.

Lemma karatsuba_spec rec p acc x y : mul_ok p = true -> rec_ok rec (length x + length y) ->
  wf acc -> wf x -> wf y -> (2 <= length x <= length y)%nat -> room acc x y ->
  exists r, karatsuba rec p acc x y = Ret r /\ adds acc r (val x * val y).
Proof.
  intros Hp Hrec Wa Wx Wy Hxy Hr.
  pose proof (mul_ok_inv p Hp) as (Hap & _ & _ & _ & _ & _ & _ & _ & _ & Hks & Hke & _).
  pose proof (room_len acc x y Wa Wx Wy Hr) as Hlen.
  unfold karatsuba, kara_split, kara_len. rewrite Hks.
  remember (Z.to_nat (lenZ x / 2)) as b eqn:Eb.
  assert (Hb : (1 <= b /\ b + b <= length x /\ length x <= b + b + 1)%nat) by (unfold lenZ in Eb; lia).
  clear Eb.
  replace (b <=? length y)%nat with true by (symmetry; apply Nat.leb_le; lia).
  cbn [assert_ bind].
  destruct (val_skipn b x Wx ltac:(lia)) as [Hvx Hx0b].
  destruct (val_skipn b y Wy ltac:(lia)) as [Hvy Hy0b].
  assert (Lx0 : length (firstn b x) = b) by (apply firstn_length_le; lia).
  assert (Ly0 : length (firstn b y) = b) by (apply firstn_length_le; lia).
  assert (Lx1 : length (skipn b x) = (length x - b)%nat) by apply skipn_length.
  assert (Ly1 : length (skipn b y) = (length y - b)%nat) by apply skipn_length.
  pose proof (wf_firstn b x Wx) as Wx0. pose proof (wf_skipn b x Wx) as Wx1.
  pose proof (wf_firstn b y Wy) as Wy0. pose proof (wf_skipn b y Wy) as Wy1.
  remember (firstn b x) as x0 eqn:Ex0. remember (skipn b x) as x1 eqn:Ex1.
  remember (firstn b y) as y0 eqn:Ey0. remember (skipn b y) as y1 eqn:Ey1.
  clear Ex0 Ex1 Ey0 Ey1.
  pose proof (val_bound x1 Wx1) as Hx1b. pose proof (val_bound y1 Wy1) as Hy1b.
  rewrite Lx1 in Hx1b. rewrite Ly1 in Hy1b.
  remember (Z.to_nat (lenZ x1 + lenZ y1 + mp_kara_extra p)) as len eqn:Elen.
  assert (Hlen1 : (length x1 + length y1 + 1 <= len)%nat) by (unfold lenZ in Elen; lia).
  clear Elen.
  (* the nat-level length facts, kept together for [lia] *)
  assert (HN : (1 <= b /\ b + b <= length x /\ length x <= length y /\ length x + length y <= length acc
                /\ length x0 = b /\ length y0 = b /\ length x1 = length x - b /\ length y1 = length y - b
                /\ length x1 + length y1 + 1 <= len)%nat) by lia.
  clear Hb Hxy Hlen Lx0 Ly0 Hlen1.
  assert (Hn1 : (length x1 + length y1 < length x + length y)%nat) by lia.
  assert (Hn1' : (length x1 + length y1 + 1 <= len)%nat) by lia.
  assert (Hn0 : (length x0 + length y0 < length x + length y)%nat) by lia.
  assert (Hn0' : (length x0 + length y0 + 1 <= len)%nat) by lia.
  (* names for the powers *)
  remember (B ^ Z.of_nat b) as P eqn:EP.
  remember (B ^ Z.of_nat (length x - b)) as Qx eqn:EQx.
  remember (B ^ Z.of_nat (length y - b)) as Qy eqn:EQy.
  assert (HP : 0 < P) by (subst P; apply B_pow_nat).
  assert (HPQx : P <= Qx) by (subst P Qx; apply pow_le_mono; lia).
  assert (HPQy : P <= Qy) by (subst P Qy; apply pow_le_mono; lia).
  assert (HBxy : B ^ (lenZ x + lenZ y) = P * Qx * (P * Qy)).
  { subst P Qx Qy. rewrite <- !Z.pow_add_r by lia. f_equal. unfold lenZ. lia. }
  assert (HQQ : B ^ (lenZ x1 + lenZ y1) = Qx * Qy).
  { subst Qx Qy. unfold lenZ. rewrite Lx1, Ly1. apply Z.pow_add_r; apply Nat2Z.is_nonneg. }
  assert (HPP : B ^ Z.of_nat (b * 2) = P * P).
  { subst P. rewrite <- Z.pow_add_r by lia. f_equal. lia. }
  assert (HPP' : B ^ (Z.of_nat b + Z.of_nat b) = P * P).
  { subst P. apply Z.pow_add_r; lia. }
  pose proof (val_nonneg acc Wa) as Ha0.
  unfold room, fits in Hr. rewrite HBxy, Hvx, Hvy in Hr.
  destruct (kara_arith P Qx Qy _ _ _ _ _ _ HP HPQx HPQy Hx0b Hx1b Hy0b Hy1b Ha0 Hr)
    as (K1 & K0 & N1 & N2 & N3 & Kid & Kmid & Kxy).
  remember (val x0) as X0. remember (val x1) as X1. remember (val y0) as Y0. remember (val y1) as Y1.
  remember (B ^ lenZ acc) as A eqn:EA.
  assert (EA' : forall l, length l = length acc -> B ^ lenZ l = A) by (intros l Hl; unfold lenZ; rewrite Hl; auto).
  (* p2 = x1 * y1 *)
  destruct (rec_zeros rec _ len x1 y1 Hrec Wx1 Wy1 Hn1 Hn1') as (p2 & E2 & W2 & L2 & V2).
  rewrite E2. cbn [bind]. rewrite <- HeqX1, <- HeqY1 in V2.
  destruct (strip_facts p2 (lenZ x1 + lenZ y1) W2) as (W2n & V2n & L2n).
  { unfold lenZ; clear; lia. } { rewrite V2, HQQ. exact (proj2 K1). }
  rewrite V2 in V2n. unfold lenZ in L2n.
  unfold kara_add_p2.
  destruct (on_slice_add2 (mp_as p) b 210 acc (strip p2) Hap Wa W2n) as (acc1 & Ea1 & Wa1 & La1 & Va1).
  { clear - HN L2n. lia. }
  { rewrite <- EP, <- EA, V2n. clear - Hr Kid Kmid N1 N2 N3 K0 K1. lia. }
  rewrite Ea1. cbn [bind]. rewrite <- EP, V2n in Va1.
  destruct (on_slice_add2 (mp_as p) (b * 2) 211 acc1 (strip p2) Hap Wa1 W2n) as (acc2 & Ea2 & Wa2 & La2 & Va2).
  { clear - HN L2n La1. lia. }
  { rewrite (EA' acc1 La1), HPP, V2n, Va1. clear - Hr Kid Kmid N1 N2 N3 K0 K1. lia. }
  rewrite Ea2. cbn [bind]. rewrite HPP, V2n, Va1 in Va2.
  (* p0 = x0 * y0 *)
  destruct (rec_zeros rec _ len x0 y0 Hrec Wx0 Wy0 Hn0 Hn0') as (p0 & E0 & W0 & L0 & V0).
  rewrite E0. cbn [bind]. rewrite <- HeqX0, <- HeqY0 in V0.
  destruct (strip_facts p0 (Z.of_nat b + Z.of_nat b) W0) as (W0n & V0n & L0n).
  { clear; lia. } { rewrite V0, HPP'. exact (proj2 K0). }
  rewrite V0 in V0n. unfold lenZ in L0n.
  unfold kara_add_p0.
  assert (La2' : length acc2 = length acc) by congruence.
  destruct (add2_adds (mp_as p) acc2 (strip p0) Hap Wa2 W0n) as (acc3 & Ea3 & Wa3 & La3 & Va3).
  { clear - HN L0n La2'. lia. }
  { rewrite (EA' acc2 La2'), V0n, Va2. clear - Hr Kid Kmid N1 N2 N3 K0 K1. lia. }
  rewrite Ea3. cbn [bind]. rewrite V0n, Va2 in Va3.
  assert (La3' : length acc3 = length acc) by congruence.
  destruct (on_slice_add2 (mp_as p) b 212 acc3 (strip p0) Hap Wa3 W0n) as (acc4 & Ea4 & Wa4 & La4 & Va4).
  { clear - HN L0n La3'. lia. }
  { rewrite (EA' acc3 La3'), <- EP, V0n, Va3. clear - Hr Kid Kmid N1 N2 N3 K0 K1. lia. }
  rewrite Ea4. cbn [bind]. rewrite <- EP, V0n, Va3 in Va4.
  assert (L4 : length acc4 = length acc) by congruence.
  assert (V4 : val acc4 = val acc + (X0 + P * X1) * (Y0 + P * Y1) + P * ((X1 - X0) * (Y1 - Y0))).
  { rewrite Va4. clear - Kid. lia. }
  clear Va1 Va2 Va3 Va4 Ea1 Ea2 Ea3 Ea4 E2 E0 La1 La2 La3 La4 La2' La3'.
  (* the middle term *)
  rewrite !sub_sign_spec by auto. cbn [bind fst snd].
  rewrite <- HeqX0, <- HeqX1, <- HeqY0, <- HeqY1. rewrite sign_mul_z_sign.
  remember (X1 - X0) as u eqn:Eu. remember (Y1 - Y0) as v eqn:Ev.
  assert (Hu : Z.abs u < Qx) by (clear - Eu Hx0b Hx1b HPQx; lia).
  assert (Hv : Z.abs v < Qy) by (clear - Ev Hy0b Hy1b HPQy; lia).
  assert (Wj0 : wf (enc (Z.abs u))) by apply enc_wf.
  assert (Wj1 : wf (enc (Z.abs v))) by apply enc_wf.
  assert (Vj0 : val (enc (Z.abs u)) = Z.abs u) by (apply enc_val; apply Z.abs_nonneg).
  assert (Vj1 : val (enc (Z.abs v)) = Z.abs v) by (apply enc_val; apply Z.abs_nonneg).
  assert (Lj0 : lenZ (enc (Z.abs u)) <= Z.of_nat (length x - b)).
  { apply length_enc_bound; [rewrite <- EQx; clear - Hu; lia|clear; lia]. }
  assert (Lj1 : lenZ (enc (Z.abs v)) <= Z.of_nat (length y - b)).
  { apply length_enc_bound; [rewrite <- EQy; clear - Hv; lia|clear; lia]. }
  unfold lenZ in Lj0, Lj1.
  rewrite Hvx, Hvy.
  destruct (u * v) as [|q|q] eqn:Euv; cbn [z_sign].
  - (* NoSign *)
    exists acc4; split; auto. split; [auto|]. split; [auto|]. rewrite V4. clear. lia.
  - (* Plus: subtract p1 *)
    destruct (rec_zeros rec _ len _ _ Hrec Wj0 Wj1) as (p1 & E1 & W1 & L1 & V1).
    { clear - HN Lj0 Lj1. lia. } { clear - HN Lj0 Lj1. lia. }
    rewrite E1. cbn [bind]. rewrite Vj0, Vj1, <- Z.abs_mul, Euv in V1. cbn [Z.abs] in V1.
    destruct (on_slice_sub2 (mp_as p) b 212 acc4 (strip p1) Hap Wa4 (wf_strip p1 W1)) as (r & Er & Wr & Lr & Vr).
    { clear - HN L4. lia. }
    { rewrite val_strip, V1, <- EP, V4. clear - Ha0 Kxy. lia. }
    exists r; split; auto. split; [auto|]. split; [congruence|].
    rewrite val_strip, V1, <- EP in Vr. rewrite Vr, V4. clear. lia.
  - (* Minus: accumulate |p1| *)
    assert (Habs : Z.abs u * Z.abs v = Z.pos q) by (rewrite <- Z.abs_mul, Euv; reflexivity).
    assert (Hf : fits acc4 (P * (val (enc (Z.abs u)) * val (enc (Z.abs v))))
                   (Z.of_nat b + (lenZ (enc (Z.abs u)) + lenZ (enc (Z.abs v))))).
    { unfold fits. rewrite (EA' acc4 L4), Vj0, Vj1, Habs, V4.
      assert (Hpw : B ^ (Z.of_nat b + (lenZ (enc (Z.abs u)) + lenZ (enc (Z.abs v)))) <= B ^ (lenZ x + lenZ y)).
      { apply pow_le_mono. unfold lenZ. clear - HN Lj0 Lj1. lia. }
      rewrite HBxy in Hpw. clear - Hpw Hr. lia. }
    rewrite EP in Hf. apply fits_skipn in Hf; auto.
    2:{ unfold lenZ; clear; lia. } 2:{ rewrite Vj0, Vj1, Habs; clear; lia. }
    destruct (Hrec (skipn b acc4) _ _ (wf_skipn b acc4 Wa4) Wj0 Wj1) as (t & Et & Ht); auto.
    { clear - HN Lj0 Lj1. lia. }
    destruct (on_slice_adds b 212 acc4 (fun s => rec s (enc (Z.abs u)) (enc (Z.abs v)))
                (val (enc (Z.abs u)) * val (enc (Z.abs v))) t Wa4) as (r & Er & Wr & Lr & Vr); auto.
    { clear - HN L4. lia. }
    exists r; split; auto. split; [auto|]. split; [congruence|].
    rewrite Vj0, Vj1, Habs, <- EP in Vr. rewrite Vr, V4. clear. lia.
Qed.
