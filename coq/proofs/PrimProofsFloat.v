(* PrimProofsFloat.v — C08: high_bits_to_u64 = round-to-odd, RNE after round-to-odd,
   to_f64 / to_f32, from_f64 / from_f32. *)
From BigNum Require Import Base BaseLemmas ShiftCore ShiftCoreProofs AddSub Prim SpecPrim PrimProofsCast PrimProofs.
Open Scope Z_scope.

Lemma chk_true c s : c = true -> chk c s = Ret tt.
Proof. intros ->. reflexivity. Qed.

Lemma as_cast_u32_small x : 0 <= x <= 64 -> as_cast U32 x = x.
Proof. intros H. apply as_cast_id. pt_consts. lia. Qed.

Section HighBits.
Variable p : prim_params.
Hypothesis Hok : prim_ok p = true.

(** one iteration of the loop, all debug checks discharged *)
Lemma hb_step d r bits ret ret_bits :
  1 <= bits -> 0 <= ret_bits <= 64 ->
  let db := (bits - 1) mod 64 + 1 in
  let w := Z.min (64 - ret_bits) db in
  db <= bits ->
  hb_loop p (d :: r) bits ret ret_bits =
  hb_loop p r (bits - db)
    (Z.lor (if w =? 0 then ret
            else Z.lor (if w =? 64 then ret else (ret * 2 ^ w) mod B) (d / 2 ^ (db - w)))
           (if db - w =? 0 then 0 else if (d * 2 ^ (64 - (db - w))) mod B =? 0 then 0 else 1))
    (ret_bits + w).
Proof.
  intros Hb Hr db w Hdb.
  destruct (prim_ok_inv p Hok) as (Hsub&Hwid&Hshr&Hg&Hmc&Hm&_).
  assert (1 <= db <= 64) by (unfold db; lia).
  assert (0 <= w <= db) by (unfold w; lia).
  cbn [hb_loop]. rewrite Hsub, Hwid, Hshr, Hg, Hmc, Hm. unfold hb_diff. cbn [hb_val fst snd].
  fold db. fold w.
  rewrite (as_cast_u32_small (db - w)) by lia.
  destruct (Z.eqb_spec w 0) as [Hw0|Hw0]; destruct (Z.eqb_spec w 64) as [Hw64|Hw64];
    destruct (Z.eqb_spec (db - w) 0) as [Hg0|Hg0]; try lia;
    repeat (rewrite chk_true by (rewrite ?andb_true_iff, ?Z.leb_le, ?Z.ltb_lt; lia); cbn [bind]);
    rewrite ?Z.lor_0_r; reflexivity.
Qed.

(** sticky summary of the remaining (lower) digits *)
Fixpoint nz (l : list Z) : Z :=
  match l with [] => 0 | d :: r => Z.lor (if d =? 0 then 0 else 1) (nz r) end.

Lemma hb_tail l : wf l -> forall ret,
  hb_loop p l (64 * Z.of_nat (length l)) ret 64 = Ret (Z.lor ret (nz l)).
Proof.
  induction l as [|d r IH]; intros Hw ret.
  - cbn [hb_loop nz]. rewrite Z.lor_0_r. reflexivity.
  - apply wf_cons in Hw as [Hd Hw]. unfold digit in Hd.
    set (bits := 64 * Z.of_nat (length (d :: r))).
    assert (Hb : bits = 64 * Z.of_nat (length r) + 64) by (unfold bits; cbn [length]; lia).
    assert (Hdb : (bits - 1) mod 64 + 1 = 64) by lia.
    rewrite hb_step by lia. rewrite Hdb.
    replace (Z.min (64 - 64) 64) with 0 by lia.
    replace (bits - 64) with (64 * Z.of_nat (length r)) by lia.
    replace (64 + 0) with 64 by lia.
    rewrite IH by exact Hw. cbn [nz Z.eqb Z.sub Z.opp Z.add Z.pos_sub].
    change (2 ^ 0) with 1. rewrite Z.mul_1_r, Z.mod_small by lia.
    rewrite Z.lor_assoc. reflexivity.
Qed.

Lemma lor_bit_cases a b : (a = 0 \/ a = 1) -> (b = 0 \/ b = 1) ->
  Z.lor a b = if (a =? 0) && (b =? 0) then 0 else 1.
Proof. intros [->| ->] [->| ->]; reflexivity. Qed.

Lemma nz_val l : wf l -> nz l = if val l =? 0 then 0 else 1.
Proof.
  induction l as [|d r IH]; intros Hw; [reflexivity|].
  apply wf_cons in Hw as [Hd Hw]. unfold digit in Hd. pose proof (val_nonneg r Hw). pose proof B_pos.
  cbn [nz val]. rewrite IH by exact Hw.
  destruct (Z.eqb_spec d 0); destruct (Z.eqb_spec (val r) 0); destruct (Z.eqb_spec (d + B * val r) 0);
    try reflexivity; nia.
Qed.
Lemma nz_rev l : wf l -> nz (rev l) = nz l.
Proof.
  intros Hw. rewrite !nz_val by (try apply wf_rev; exact Hw).
  pose proof (val_zero_iff l Hw) as H1. pose proof (val_zero_iff (rev l) (wf_rev l Hw)) as H2.
  destruct (Z.eqb_spec (val (rev l)) 0) as [E1|E1]; destruct (Z.eqb_spec (val l) 0) as [E2|E2]; try reflexivity; exfalso.
  - apply E2, H1. apply H2 in E1. apply Forall_rev in E1. rewrite rev_involutive in E1. exact E1.
  - apply E1, H2. apply H1 in E2. apply Forall_rev. exact E2.
Qed.

(** bit length *)
Lemma bitlen_blen n : bitlen n = blen n. Proof. reflexivity. Qed.
Lemma blen_unique n k : 0 < k -> 2 ^ (k - 1) <= n < 2 ^ k -> blen n = k.
Proof.
  intros Hk H. unfold blen.
  assert (0 < 2 ^ (k - 1)) by (apply Z.pow_pos_nonneg; lia).
  destruct (Z.leb_spec n 0); [lia|].
  rewrite (Z.log2_unique n (k - 1)); [lia|lia|]. replace (Z.succ (k - 1)) with k by lia. exact H.
Qed.
Lemma blen_bounds n : 0 < n -> 0 < blen n /\ 2 ^ (blen n - 1) <= n < 2 ^ blen n.
Proof.
  intros H. unfold blen. destruct (Z.leb_spec n 0); [lia|].
  pose proof (Z.log2_spec n H) as [H1 H2]. pose proof (Z.log2_nonneg n).
  replace (Z.log2 n + 1 - 1) with (Z.log2 n) by lia. replace (Z.log2 n + 1) with (Z.succ (Z.log2 n)) by lia.
  split; [lia|split; assumption].
Qed.
Lemma blen_digit d : 0 < d < B -> 1 <= blen d <= 64.
Proof.
  intros H. destruct (blen_bounds d ltac:(lia)) as [H0 [H1 H2]]. split; [lia|].
  destruct (Z_le_gt_dec (blen d) 64) as [|Hgt]; [assumption|exfalso].
  assert (2 ^ 64 <= 2 ^ (blen d - 1)) by (apply Z.pow_le_mono_r; lia).
  rewrite B_as_pow2 in H. lia.
Qed.

(** arithmetic of "top 64 bits" for a value L + P*(second + B*top), P = B^m *)
Lemma top_split P db w top second L :
  0 < P -> 1 <= db <= 64 -> w = 64 - db -> 0 <= top -> 0 <= second < B -> 0 <= L < P ->
  let N := L + P * (second + B * top) in
  N / (P * 2 ^ db) = top * 2 ^ w + second / 2 ^ db /\
  N mod (P * 2 ^ db) = L + P * (second mod 2 ^ db).
Proof.
  intros HP Hdb Hw Htop Hsec HL N.
  assert (H2db : 0 < 2 ^ db) by (apply Z.pow_pos_nonneg; lia).
  assert (HB : B = 2 ^ w * 2 ^ db) by (subst w; apply B_split; lia).
  assert (Hq : N / P = second + B * top).
  { unfold N. rewrite (Z.mul_comm P). rewrite Z.div_add by lia. rewrite Z.div_small by lia. lia. }
  assert (Hr : N mod P = L).
  { unfold N. rewrite (Z.mul_comm P). rewrite Z.mod_add by lia. apply Z.mod_small; lia. }
  split.
  - rewrite <- Z.div_div by lia. rewrite Hq, HB.
    replace (second + 2 ^ w * 2 ^ db * top) with (second + (2 ^ w * top) * 2 ^ db) by ring.
    rewrite Z.div_add by lia. ring.
  - rewrite Z.rem_mul_r by lia. rewrite Hq, Hr, HB.
    replace (second + 2 ^ w * 2 ^ db * top) with (second + (2 ^ w * top) * 2 ^ db) by ring.
    rewrite Z.mod_add by lia. reflexivity.
Qed.

Lemma blen_top m db top second L :
  0 <= m -> 1 <= db <= 64 -> 2 ^ (db - 1) <= top < 2 ^ db -> 0 <= second < B -> 0 <= L < 2 ^ (64 * m) ->
  blen (L + 2 ^ (64 * m) * (second + B * top)) = 64 * (m + 1) + db.
Proof.
  intros Hm Hdb Htop Hsec HL.
  set (P := 2 ^ (64 * m)) in *.
  assert (HP : 0 < P) by (apply Z.pow_pos_nonneg; lia).
  pose proof B_pos as HBp.
  assert (HT1 : 0 < 2 ^ (db - 1)) by (apply Z.pow_pos_nonneg; lia).
  apply blen_unique; [lia|].
  replace (64 * (m + 1) + db - 1) with (64 * m + 64 + (db - 1)) by lia.
  replace (64 * (m + 1) + db) with (64 * m + 64 + db) by lia.
  rewrite !Z.pow_add_r by lia. fold P. rewrite <- B_as_pow2.
  set (T1 := 2 ^ (db - 1)) in *. set (T2 := 2 ^ db) in *.
  set (PB := P * B). assert (HPB : 0 < PB) by (unfold PB; nia).
  assert (Hlow : L + P * second < PB) by (unfold PB; nia).
  replace (L + P * (second + B * top)) with (L + P * second + PB * top) by (unfold PB; ring).
  assert (PB * T1 <= PB * top) by (apply Z.mul_le_mono_nonneg_l; lia).
  assert (PB * (top + 1) <= PB * T2) by (apply Z.mul_le_mono_nonneg_l; lia).
  nia.
Qed.

Lemma B_pow_m (lo : list Z) : B ^ Z.of_nat (length lo) = 2 ^ (64 * Z.of_nat (length lo)).
Proof. apply B_pow_pow2. lia. Qed.

Lemma hb_main lo second top :
  wf lo -> digit second -> digit top -> top <> 0 ->
  hb_loop p (top :: second :: rev lo) (ubits (lo ++ [second; top])) 0 0 =
  Ret (rodd 64 (val (lo ++ [second; top]))).
Proof.
  intros Hlo Hsec Htop Hnz. unfold digit in *.
  set (m := Z.of_nat (length lo)).
  set (db := blen top).
  destruct (blen_bounds top ltac:(lia)) as [_ Htb]. fold db in Htb.
  pose proof (blen_digit top ltac:(lia)) as Hdb. fold db in Hdb.
  set (w := 64 - db).
  pose proof (val_bound lo Hlo) as HL. rewrite B_pow_m in HL. fold m in HL.
  assert (Hbits : ubits (lo ++ [second; top]) = 64 * (m + 1) + db).
  { unfold ubits. rewrite rev_app_distr. cbn [rev app]. rewrite app_length. cbn [length].
    unfold lz64. rewrite bitlen_blen. fold db. unfold m. lia. }
  rewrite Hbits.
  (* iteration 1: the top digit *)
  rewrite hb_step by lia.
  replace ((64 * (m + 1) + db - 1) mod 64 + 1) with db by lia.
  replace (Z.min (64 - 0) db) with db by lia.
  replace (db - db) with 0 by lia. cbn [Z.eqb].
  rewrite Z.mul_0_l, Z.mod_0_l by (pose proof B_pos; lia).
  change (2 ^ 0) with 1. rewrite Z.div_1_r.
  replace (if db =? 64 then 0 else 0) with 0 by (destruct (db =? 64); reflexivity).
  rewrite Z.lor_0_l, Z.lor_0_r.
  replace (if db =? 0 then 0 else top) with top by (destruct (Z.eqb_spec db 0); [lia|reflexivity]).
  replace (64 * (m + 1) + db - db) with (64 * (m + 1)) by lia.
  replace (0 + db) with db by lia.
  (* iteration 2 *)
  rewrite hb_step by lia.
  replace ((64 * (m + 1) - 1) mod 64 + 1) with 64 by lia.
  replace (Z.min (64 - db) 64) with w by (unfold w; lia).
  replace (64 * (m + 1) - 64) with (64 * Z.of_nat (length (rev lo))) by (rewrite rev_length; fold m; lia).
  replace (db + w) with 64 by (unfold w; lia).
  replace (64 - (64 - w)) with w by lia.
  replace (64 - w) with db by (unfold w; lia).
  (* the remaining digits *)
  rewrite hb_tail by (apply wf_rev; exact Hlo).
  rewrite nz_rev by exact Hlo.
  f_equal.
  set (P := 2 ^ (64 * m)) in *.
  assert (HP : 0 < P) by (apply Z.pow_pos_nonneg; lia).
  assert (H2db : 0 < 2 ^ db) by (apply Z.pow_pos_nonneg; lia).
  assert (H2w : 0 < 2 ^ w) by (apply Z.pow_pos_nonneg; lia).
  assert (HB : B = 2 ^ w * 2 ^ db) by (unfold w; apply B_split; lia).
  assert (HN : val (lo ++ [second; top]) = val lo + P * (second + B * top)).
  { rewrite val_app, B_pow_m. fold m. fold P. cbn [val]. ring. }
  rewrite HN.
  pose proof (blen_top m db top second (val lo) ltac:(lia) Hdb Htb Hsec HL) as Hbl. fold P in Hbl.
  destruct (top_split P db w top second (val lo) HP Hdb eq_refl ltac:(lia) Hsec HL) as [Hdiv Hmod].
  unfold rodd. rewrite Hbl. replace (Z.max 0 (64 * (m + 1) + db - 64)) with (64 * m + db) by lia.
  rewrite Z.pow_add_r by lia. fold P. rewrite Hdiv, Hmod.
  assert (HX : (if w =? 0 then top
                else Z.lor (if w =? 64 then top else (top * 2 ^ w) mod B) (second / 2 ^ db))
               = top * 2 ^ w + second / 2 ^ db).
  { destruct (Z.eqb_spec w 0) as [Hw0|Hw0].
    - rewrite Hw0 in *. change (2 ^ 0) with 1 in *. rewrite Z.div_small by lia. lia.
    - destruct (Z.eqb_spec w 64) as [Hw64|Hw64]; [lia|].
      rewrite Z.mod_small by nia.
      apply (lor_disjoint _ _ w); [lia|apply Z.mod_mul; lia|].
      split; [apply Z.div_pos; lia|apply Z.div_lt_upper_bound; lia]. }
  rewrite HX. rewrite <- Z.lor_assoc. f_equal.
  rewrite nz_val by exact Hlo.
  destruct (Z.eqb_spec db 0) as [?|_]; [lia|].
  rewrite shl_digit by lia. replace (64 - w) with db by (unfold w; lia).
  pose proof (Z.mod_pos_bound second (2 ^ db) H2db) as Hsm.
  set (sm := second mod 2 ^ db) in *.
  destruct (Z.eq_dec sm 0) as [Hs0|Hs0].
  - rewrite Hs0. rewrite Z.mul_0_l, Z.mul_0_r, Z.add_0_r. cbn [Z.eqb].
    destruct (Z.eqb_spec (val lo) 0); reflexivity.
  - assert (0 < sm * 2 ^ w) by (apply Z.mul_pos_pos; lia).
    assert (0 < P * sm) by (apply Z.mul_pos_pos; lia).
    destruct (Z.eqb_spec (sm * 2 ^ w) 0); [lia|].
    destruct (Z.eqb_spec (val lo + P * sm) 0); [lia|].
    destruct (Z.eqb_spec (val lo) 0); reflexivity.
Qed.

(** the value returned is the 64-bit round-to-odd of the integer: top 64 bits, least
    significant one or-ed with "any lower bit set" — ALL lower bits (defect D6) *)
Theorem high_bits_spec v : canon v -> high_bits_to_u64 p v = Ret (rodd 64 (val v)).
Proof.
  intros Hc. destruct v as [|d [|d2 r]].
  - reflexivity.
  - destruct Hc as [Hw _]. apply wf_cons in Hw as [Hd _]. unfold digit in Hd.
    cbn [high_bits_to_u64]. rewrite val_single. unfold rodd.
    destruct (Z.eq_dec d 0) as [->|Hn]; [reflexivity|].
    pose proof (blen_digit d ltac:(lia)).
    replace (Z.max 0 (blen d - 64)) with 0 by lia. change (2 ^ 0) with 1.
    rewrite Z.div_1_r, Z.mod_1_r. cbn [Z.eqb]. rewrite Z.lor_0_r. reflexivity.
  - set (v := d :: d2 :: r) in *.
    assert (Hlen : (2 <= length (rev v))%nat) by (rewrite rev_length; unfold v; cbn [length]; lia).
    destruct (rev v) as [|top [|second rl]] eqn:E; cbn [length] in Hlen; try lia.
    assert (Hv : v = rev rl ++ [second; top]).
    { rewrite <- (rev_involutive v), E. cbn [rev]. rewrite <- app_assoc. reflexivity. }
    change (high_bits_to_u64 p v) with (hb_loop p (rev v) (ubits v) 0 0).
    rewrite E. rewrite Hv.
    assert (Hwf : wf (rev rl ++ [second; top])) by (rewrite <- Hv; apply Hc).
    apply wf_app in Hwf as [Hlo Hhi]. apply wf_cons in Hhi as [Hsec Hhi]. apply wf_cons in Hhi as [Htop _].
    assert (Hnz : top <> 0).
    { intros ->.
      set (l1 := rev rl ++ [second]) in *.
      assert (Hv' : v = l1 ++ [0]) by (rewrite Hv; unfold l1; rewrite <- app_assoc; reflexivity).
      assert (Hl1 : wf l1) by (apply wf_app; split; [exact Hlo|apply wf_cons; split; [exact Hsec|apply wf_nil]]).
      pose proof (val_bound l1 Hl1) as Hb.
      pose proof (canon_lower v Hc ltac:(unfold v; discriminate)) as Hlow.
      rewrite Hv' in Hlow. rewrite val_app, app_length in Hlow. cbn [val length] in Hlow.
      replace (Z.of_nat (length l1 + 1) - 1) with (Z.of_nat (length l1)) in Hlow by lia.
      lia. }
    rewrite <- (rev_involutive rl) at 1.
    apply hb_main; assumption.
Qed.
End HighBits.

(** * Round-to-nearest-even after round-to-odd (over Z) *)
Lemma land_1 x : Z.land x 1 = x mod 2.
Proof. change 1 with (Z.ones 1) at 1. rewrite Z.land_ones by lia. reflexivity. Qed.

Lemma lor_1 x : Z.lor x 1 = if Z.even x then x + 1 else x.
Proof.
  destruct (Z.even x) eqn:Ev.
  - assert (Hl : Z.land x 1 = 0).
    { rewrite land_1. apply Z.even_spec in Ev. destruct Ev as [m ->]. rewrite Z.mul_comm. apply Z.mod_mul. lia. }
    rewrite <- Z.lxor_lor by exact Hl. symmetry. apply Z.add_nocarry_lxor. exact Hl.
  - assert (Hodd : Z.odd x = true) by (rewrite <- Z.negb_even, Ev; reflexivity).
    apply Z.odd_spec in Hodd. destruct Hodd as [m ->].
    assert (Hl : Z.land (2 * m) 1 = 0) by (rewrite land_1, Z.mul_comm; apply Z.mod_mul; lia).
    assert (H1 : Z.lor (2 * m) 1 = 2 * m + 1).
    { rewrite <- Z.lxor_lor by exact Hl. symmetry. apply Z.add_nocarry_lxor. exact Hl. }
    rewrite <- H1 at 1. rewrite <- Z.lor_assoc. change (Z.lor 1 1) with 1. exact H1.
Qed.

Lemma pow2_double k : 0 < k -> 2 ^ k = 2 * 2 ^ (k - 1).
Proof. intros H. replace k with (1 + (k - 1)) at 1 by lia. rewrite Z.pow_add_r by lia. reflexivity. Qed.

(** [rodd k n] as arithmetic: the top k bits T plus 1 when T is even and a lower bit is set *)
Lemma rodd_decomp k n : 0 < k -> k < blen n ->
  let E := blen n - k in
  let T := n / 2 ^ E in
  let s := n mod 2 ^ E in
  rodd k n = T + (if Z.even T && negb (s =? 0) then 1 else 0) /\ 2 ^ (k - 1) <= T < 2 ^ k.
Proof.
  intros Hk Hb E T s.
  assert (Hn : 0 < n) by (unfold blen in Hb; destruct (Z.leb_spec n 0); lia).
  destruct (blen_bounds n Hn) as [_ [Hlo Hhi]].
  assert (HE : 0 < E) by (unfold E; lia).
  assert (H2E : 0 < 2 ^ E) by (apply Z.pow_pos_nonneg; lia).
  assert (HT : 2 ^ (k - 1) <= T < 2 ^ k).
  { replace (blen n - 1) with ((k - 1) + E) in Hlo by (unfold E; lia).
    replace (blen n) with (k + E) in Hhi by (unfold E; lia).
    rewrite Z.pow_add_r in Hlo, Hhi by lia. unfold T. split.
    - apply Z.div_le_lower_bound; lia.
    - apply Z.div_lt_upper_bound; lia. }
  split; [|exact HT].
  unfold rodd. replace (Z.max 0 (blen n - k)) with E by (unfold E; lia). fold T. fold s.
  destruct (Z.eqb_spec s 0); cbn [negb].
  - rewrite Z.lor_0_r, andb_false_r. lia.
  - rewrite lor_1, andb_true_r. destruct (Z.even T); lia.
Qed.

Lemma blen_rodd k n : 0 < k -> k < blen n -> blen (rodd k n) = k.
Proof.
  intros Hk Hb. destruct (rodd_decomp k n Hk Hb) as [-> [Hlo Hhi]].
  set (T := n / 2 ^ (blen n - k)) in *.
  apply blen_unique; [exact Hk|].
  destruct (Z.even T) eqn:Ev; cbn [andb]; [|lia].
  destruct (negb _); [|lia].
  apply Z.even_spec in Ev. destruct Ev as [m Hm]. rewrite (pow2_double k Hk) in *. lia.
Qed.

Lemma scale_lt X s a b : 0 < X -> 0 <= s < X -> (s + X * a < X * b <-> a < b).
Proof. intros HX Hs. split; intros H; nia. Qed.
Lemma scale_gt X s a b : 0 < X -> 0 <= s < X -> (X * b < s + X * a <-> b < a \/ (b = a /\ 0 < s)).
Proof.
  intros HX Hs. split; intros H.
  - destruct (Z.lt_trichotomy b a) as [?|[?|?]]; [left; assumption|right; subst; lia|nia].
  - destruct H as [H|[-> H]]; nia.
Qed.

(** rounding [n] to [p] bits to nearest-even = rounding its [k]-bit round-to-odd summary,
    whenever k >= p + 2 (here k = 64, p = 53 or 24): same mantissa, exponent shifted by the
    bits the summary dropped. *)
Theorem rne_of_odd p k n : 0 < p -> p + 2 <= k -> k < blen n ->
  rne p n = (fst (rne p (rodd k n)), snd (rne p (rodd k n)) + (blen n - k)).
Proof.
  intros Hp Hk Hb.
  destruct (rodd_decomp k n ltac:(lia) Hb) as [HR HT].
  pose proof (blen_rodd k n ltac:(lia) Hb) as HbR.
  set (E := blen n - k) in *. set (T := n / 2 ^ E) in *. set (s := n mod 2 ^ E) in *.
  set (dl := if Z.even T && negb (s =? 0) then 1 else 0) in *.
  assert (HE : 0 < E) by (unfold E; lia).
  set (e1 := k - p). assert (He1 : 2 <= e1) by (unfold e1; lia).
  set (X := 2 ^ E). assert (HX : 0 < X) by (apply Z.pow_pos_nonneg; lia).
  set (H' := 2 ^ (e1 - 2)). assert (HH : 0 < H') by (apply Z.pow_pos_nonneg; lia).
  assert (HY : 2 ^ e1 = 4 * H').
  { unfold H'. replace e1 with (2 + (e1 - 2)) at 1 by lia. rewrite Z.pow_add_r by lia. reflexivity. }
  assert (Hs : 0 <= s < X) by (apply Z.mod_pos_bound; exact HX).
  unfold rne. rewrite HbR.
  replace (Z.max 0 (k - p)) with e1 by (unfold e1; lia).
  replace (Z.max 0 (blen n - p)) with (E + e1) by (unfold E, e1; lia).
  cbn [fst snd]. rewrite Z.pow_add_r by lia. fold X. rewrite HY, HR.
  set (Y := 4 * H') in *.
  set (q := T / Y). set (t := T mod Y).
  assert (HTd : T = Y * q + t) by (apply Z.div_mod; lia).
  assert (Ht : 0 <= t < Y) by (apply Z.mod_pos_bound; lia).
  (* quotient and remainder of n *)
  assert (Hq2 : n / (X * Y) = q) by (rewrite <- Z.div_div by lia; reflexivity).
  assert (Hr2 : n mod (X * Y) = s + X * t) by (rewrite Z.rem_mul_r by lia; reflexivity).
  rewrite Hq2, Hr2. clear Hq2 Hr2 HR HbR HT.
  clearbody q t X H' T s.
  (* parity *)
  assert (Hpar : exists m b, T = 2 * m + b /\ (b = 0 \/ b = 1) /\
                 dl = (if (b =? 0) && negb (s =? 0) then 1 else 0)).
  { unfold dl. destruct (Z.even T) eqn:Ev.
    - apply Z.even_spec in Ev. destruct Ev as [m Hm]. exists m, 0. split; [lia|split; [auto|reflexivity]].
    - assert (Hodd : Z.odd T = true) by (rewrite <- Z.negb_even, Ev; reflexivity).
      apply Z.odd_spec in Hodd. destruct Hodd as [m Hm]. exists m, 1. split; [lia|split; [auto|reflexivity]]. }
  destruct Hpar as (m & b & HTm & Hb01 & Hdl). clearbody dl.
  assert (Hdl01 : dl = 0 \/ dl = 1) by (rewrite Hdl; destruct ((b =? 0) && negb (s =? 0)); auto).
  assert (Htd : 0 <= t + dl < Y).
  { destruct Hdl01 as [->| Hd1]; [lia|]. rewrite Hd1.
    rewrite Hd1 in Hdl. destruct (Z.eqb_spec b 0); cbn [andb] in Hdl; [|discriminate]. unfold Y in *. lia. }
  assert (Hq1 : (T + dl) / Y = q) by (symmetry; apply (Z.div_unique _ _ _ (t + dl)); [left; exact Htd|lia]).
  assert (Hr1 : (T + dl) mod Y = t + dl) by (symmetry; apply (Z.mod_unique _ _ q); [left; exact Htd|lia]).
  rewrite Hq1, Hr1.
  pose proof (scale_lt X s t (2 * H') HX Hs) as Hlt.
  pose proof (scale_gt X s t (2 * H') HX Hs) as Hgt.
  assert (Hc1 : (2 * (t + dl) <? Y) = (2 * (s + X * t) <? X * Y)).
  { unfold Y in *. destruct (Z.eqb_spec b 0); destruct (Z.eqb_spec s 0); cbn [andb negb] in Hdl; subst dl;
      leb_cases; try reflexivity; exfalso; lia. }
  assert (Hc2 : (Y <? 2 * (t + dl)) = (X * Y <? 2 * (s + X * t))).
  { unfold Y in *. destruct (Z.eqb_spec b 0); destruct (Z.eqb_spec s 0); cbn [andb negb] in Hdl; subst dl;
      leb_cases; try reflexivity; exfalso; lia. }
  rewrite Hc1, Hc2. f_equal. lia.
Qed.

(** * bits() *)
Lemma blen_shift L j top : 0 <= j -> 0 <= L < 2 ^ j -> 0 < top ->
  blen (L + 2 ^ j * top) = j + blen top.
Proof.
  intros Hj HL Ht. destruct (blen_bounds top Ht) as [Hb0 [Hlo Hhi]].
  set (bt := blen top) in *.
  assert (HP : 0 < 2 ^ j) by (apply Z.pow_pos_nonneg; lia).
  apply blen_unique; [lia|].
  replace (j + bt - 1) with (j + (bt - 1)) by lia. rewrite !Z.pow_add_r by lia.
  set (P := 2 ^ j) in *. set (T1 := 2 ^ (bt - 1)) in *. set (T2 := 2 ^ bt) in *.
  assert (P * T1 <= P * top) by (apply Z.mul_le_mono_nonneg_l; lia).
  assert (P * (top + 1) <= P * T2) by (apply Z.mul_le_mono_nonneg_l; lia).
  lia.
Qed.

Lemma canon_snoc v : canon v -> v <> [] ->
  exists lo top, v = lo ++ [top] /\ wf lo /\ 0 < top < B.
Proof.
  intros Hc Hn.
  destruct (rev v) as [|top rl] eqn:E.
  { exfalso. apply Hn. rewrite <- (rev_involutive v), E. reflexivity. }
  assert (Hv : v = rev rl ++ [top]) by (rewrite <- (rev_involutive v), E; reflexivity).
  exists (rev rl), top. split; [exact Hv|].
  assert (Hwf : wf (rev rl ++ [top])) by (rewrite <- Hv; apply Hc).
  apply wf_app in Hwf as [Hlo Hhi]. apply wf_cons in Hhi as [Htop _]. unfold digit in Htop.
  split; [exact Hlo|].
  destruct (Z.eq_dec top 0) as [->|Hnz]; [exfalso|lia].
  pose proof (val_bound (rev rl) Hlo) as Hb.
  pose proof (canon_lower v Hc Hn) as Hlow.
  rewrite Hv in Hlow. rewrite val_app, app_length in Hlow. cbn [val length] in Hlow.
  replace (Z.of_nat (length (rev rl) + 1) - 1) with (Z.of_nat (length (rev rl))) in Hlow by lia.
  lia.
Qed.

Lemma ubits_blen v : canon v -> ubits v = blen (val v).
Proof.
  intros Hc. destruct v as [|d r] eqn:Ev; [reflexivity|]. rewrite <- Ev in *.
  destruct (canon_snoc v Hc ltac:(rewrite Ev; discriminate)) as (lo & top & Hv & Hlo & Htop).
  rewrite Hv. unfold ubits. rewrite rev_app_distr. cbn [rev app]. rewrite app_length. cbn [length].
  rewrite val_app. cbn [val]. rewrite B_pow_m.
  pose proof (val_bound lo Hlo) as Hb. rewrite B_pow_m in Hb.
  replace (top + B * 0) with top by lia.
  rewrite blen_shift by lia. unfold lz64. rewrite bitlen_blen. lia.
Qed.

Lemma pow2_le_iff y K : 0 < y -> 0 <= K -> (2 ^ K <= y <-> K < blen y).
Proof.
  intros Hy HK. destruct (blen_bounds y Hy) as [Hb0 [Hlo Hhi]]. split; intros H.
  - destruct (Z_lt_ge_dec K (blen y)) as [|Hge]; [assumption|exfalso].
    assert (2 ^ blen y <= 2 ^ K) by (apply Z.pow_le_mono_r; lia). lia.
  - assert (2 ^ K <= 2 ^ (blen y - 1)) by (apply Z.pow_le_mono_r; lia). lia.
Qed.

Lemma blen_mul_pow2 m j : 0 < m -> 0 <= j -> blen (m * 2 ^ j) = blen m + j.
Proof.
  intros Hm Hj. replace (m * 2 ^ j) with (0 + 2 ^ j * m) by ring.
  rewrite blen_shift; [lia|lia| |lia]. split; [lia|apply Z.pow_pos_nonneg; lia].
Qed.
