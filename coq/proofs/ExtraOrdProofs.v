(* ExtraOrdProofs.v — refinement proofs for coq/model/ExtraOrd.v (API-audit additions):
   comparison operators, BigInt's inherent checked_add / checked_sub, derives of Sign. *)
From BigNum Require Import Base BaseLemmas AddSub SpecAddSub AddSubProofs Sign SpecSign SignProofs ExtraOrd.
Open Scope Z_scope.

(** the five observations of one comparison, on integers *)
Definition zord (a b : Z) : ord_obs := mkOrd (Some (a ?= b)) (a <? b) (a <=? b) (b <? a) (b <=? a).

Lemma ord_of_compare a b : ord_of (Some (a ?= b)) = zord a b.
Proof.
  unfold ord_of, zord, ord_lt, ord_le, ord_gt, ord_ge.
  destruct (Z.compare_spec a b) as [E | L | G]; f_equal;
    repeat match goal with |- context [?x <? ?y] => destruct (Z.ltb_spec x y) end;
    repeat match goal with |- context [?x <=? ?y] => destruct (Z.leb_spec x y) end;
    try reflexivity; lia.
Qed.

Theorem upartial_cmp_spec a b : canon a -> canon b ->
  upartial_cmp a b = Ret (Some (val a ?= val b)).
Proof. intros Ha Hb. unfold upartial_cmp, ucmp. rewrite cmp_slice_spec by auto. reflexivity. Qed.

Theorem ipartial_cmp_spec sp x y : sign_ok sp = true -> icanon x -> icanon y ->
  ipartial_cmp sp x y = Ret (Some (ival x ?= ival y)).
Proof. intros Hsp Hx Hy. unfold ipartial_cmp. rewrite icmp_spec by auto. reflexivity. Qed.

(** `<  <=  >  >=` and partial_cmp agree with the numerical order, never trip a debug assertion *)
Theorem uord_spec a b : canon a -> canon b -> uord a b = Ret (zord (val a) (val b)).
Proof. intros Ha Hb. unfold uord. rewrite upartial_cmp_spec by auto. cbn [bind]. rewrite ord_of_compare. reflexivity. Qed.

Theorem iord_spec sp x y : sign_ok sp = true -> icanon x -> icanon y -> iord sp x y = Ret (zord (ival x) (ival y)).
Proof. intros Hsp Hx Hy. unfold iord. rewrite ipartial_cmp_spec by auto. cbn [bind]. rewrite ord_of_compare. reflexivity. Qed.

(** BigInt's inherent checked_add / checked_sub: always Some(exact result), canonical *)
Theorem ichecked_add_spec p x y : addsub_ok p = true -> icanon x -> icanon y ->
  ichecked_add p x y = Ret (Some (ienc (ival x + ival y))).
Proof. intros Hp Hx Hy. unfold ichecked_add. rewrite iadd_spec by auto. reflexivity. Qed.

Theorem ichecked_sub_spec p x y : addsub_ok p = true -> icanon x -> icanon y ->
  ichecked_sub p x y = Ret (Some (ienc (ival x - ival y))).
Proof. intros Hp Hx Hy. unfold ichecked_sub. rewrite isub_spec by auto. reflexivity. Qed.

(** derives of Sign: equality and order are those of the sign value -1 / 0 / 1 *)
Theorem sign_eq_spec a b : sign_eq a b = (sign_z a =? sign_z b).
Proof. destruct a, b; reflexivity. Qed.

Theorem sign_ord_spec a b : ord_of (sign_partial_cmp a b) = zord (sign_z a) (sign_z b).
Proof. unfold sign_partial_cmp, sign_cmp. apply ord_of_compare. Qed.

Theorem sign_debug_inj a b : sign_debug a = sign_debug b -> a = b.
Proof. destruct a, b; cbn; intros E; try reflexivity; discriminate. Qed.
