(* PgrInst.v — instantiation of the big operations the pow / gcd / roots models are
   parameterised by, at the real models of the other areas:
     bdivrem := Div.udivrem Extracted.div     (exact by DivProofsApi.udivrem_spec, C03)
     bmul    := Mul.umul Extracted.mul        (exact by MulProofs5.umul_spec, C02)
   With both discharged, the theorems of props/C11.v, C12.v, C13.v are closed statements about
   the real models (no [bmul] / [bdivrem] quantifier, no exactness hypothesis). *)
From BigNum Require Import Base BaseLemmas X86 AddSub PgrLoop PgrLoopProofs Div DivProofs DivProofsApi
  Mul MulProofs5 Extracted InstDiv InstMul.
Open Scope Z_scope.

Definition pgr_bdivrem : list Z -> list Z -> outcome (list Z * list Z) := Div.udivrem Extracted.div.

Lemma pgr_bdivrem_exact : bdivrem_exact pgr_bdivrem.
Proof. intros a b Ca Cb. apply udivrem_spec; auto using div_params_ok. Qed.

Definition pgr_bmul : list Z -> list Z -> outcome (list Z) := Mul.umul Extracted.mul.

Lemma pgr_bmul_exact : bmul_exact pgr_bmul.
Proof. intros a b Ca Cb. apply umul_spec; auto using mul_params_ok. Qed.
