(* PgrInst.v — instantiation of the big operations the pow / gcd / roots models are
   parameterised by, at the real models of the other areas:
     bdivrem := Div.udivrem Extracted.div     (exact by DivProofsApi.udivrem_spec, C03)
     bmul    := (Mul.umul Extracted.mul — NOT YET on main: the theorems keep [bmul_exact bmul]
                as their only hypothesis; see docs/notes/pgr.md) *)
From BigNum Require Import Base BaseLemmas X86 AddSub PgrLoop PgrLoopProofs Div DivProofs DivProofsApi
  Extracted InstDiv.
Open Scope Z_scope.

Definition pgr_bdivrem : list Z -> list Z -> outcome (list Z * list Z) := Div.udivrem Extracted.div.

Lemma pgr_bdivrem_exact : bdivrem_exact pgr_bdivrem.
Proof. intros a b Ca Cb. apply udivrem_spec; auto using div_params_ok. Qed.
