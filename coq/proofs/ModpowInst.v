(* ModpowInst.v — the Section parameters of MontyProofs / ModpowProofs instantiated with the
   real models of the other areas:
     bdivrem := Div.udivrem Extracted.div     (spec: DivProofsApi.udivrem_spec — closed)
     bmul    := Mul.umul Extracted.mul        (spec: MulProofs5.umul_spec — closed:
                                               [mul_spec_proved : mul_spec_holds] below)
   (The Montgomery path (odd modulus) never multiplies big numbers with [bmul].) *)
From BigNum Require Import Base BaseLemmas AddSub AddSubProofs Monty MontyProofs Modpow SpecModpow
  ModinvZ ModpowProofs Div DivProofs DivProofsApi Mul MulProofs5 Extracted InstAddSub InstDiv InstMul.
Open Scope Z_scope.

Definition rdivrem := Div.udivrem Extracted.div.
Definition rmul := Mul.umul Extracted.mul.

Lemma rdivrem_spec : forall a b, canon a -> canon b ->
  rdivrem a b = if val b =? 0 then Panic DivZero
                else Ret (enc (val a / val b), enc (val a mod val b)).
Proof. intros; apply udivrem_spec; auto using div_params_ok. Qed.

(** What is needed from the multiplication area: the statement of `umul_spec` at the extracted
    parameters — proved there (C02). *)
Definition mul_spec_holds : Prop :=
  forall a b, canon a -> canon b -> rmul a b = Ret (enc (val a * val b)).

Lemma mul_spec_proved : mul_spec_holds.
Proof. intros a b Ca Cb. unfold rmul. apply umul_spec; auto using mul_params_ok. Qed.

Definition r_monty_modpow := Monty.monty_modpow addsub rdivrem.
Definition r_plain_modpow := Modpow.plain_modpow rmul rdivrem.
Definition r_umodpow := Modpow.umodpow addsub rmul rdivrem.
Definition r_umodinv := Modpow.umodinv addsub rmul rdivrem.
Definition r_imodpow := Modpow.imodpow addsub rmul rdivrem.
Definition r_imodinv := Modpow.imodinv addsub rmul rdivrem.

Theorem r_monty_modpow_spec p x y m : modpow_ok p = true -> canon x -> canon y -> canon m ->
  Z.odd (val m) = true -> Z.of_nat (length m) < 2 ^ 57 ->
  r_monty_modpow p x y m = Ret (enc (val x ^ val y mod val m)).
Proof. intros Hp. exact (monty_modpow_spec addsub rdivrem addsub_params_ok rdivrem_spec p Hp x y m). Qed.

Local Notation Hmul := mul_spec_proved.

Theorem r_plain_modpow_spec b e m : canon b -> canon e -> canon m -> val m <> 0 ->
  r_plain_modpow b e m = Ret (enc (if val e =? 0 then 1 else val b ^ val e mod val m)).
Proof. exact (plain_modpow_spec rmul rdivrem Hmul rdivrem_spec b e m). Qed.

Theorem r_umodpow_spec p x e m : modpow_ok p = true -> canon x -> canon e -> canon m ->
  Z.of_nat (length m) < 2 ^ 57 ->
  r_umodpow p x e m = if val m =? 0 then Panic ZeroModulus else Ret (enc (val x ^ val e mod val m)).
Proof. intros Hp. exact (umodpow_spec addsub rmul rdivrem addsub_params_ok Hmul rdivrem_spec p x e m Hp). Qed.

Theorem r_umodinv_spec a m : canon a -> canon m ->
  r_umodinv a m = omap (option_map enc) (spec_umodinv (val a) (val m)).
Proof. exact (umodinv_spec addsub rmul rdivrem addsub_params_ok Hmul rdivrem_spec a m). Qed.

Theorem r_imodpow_spec p x e m : modpow_ok p = true -> icanon x -> icanon e -> icanon m ->
  Z.of_nat (length (mag m)) < 2 ^ 57 ->
  r_imodpow p x e m =
  if ival e <? 0 then Panic NegExponent
  else if ival m =? 0 then Panic ZeroModulus
  else Ret (ienc (ival x ^ ival e mod ival m)).
Proof. intros Hp. exact (imodpow_spec addsub rmul rdivrem addsub_params_ok Hmul rdivrem_spec p x e m Hp). Qed.

Theorem r_imodinv_spec p x m : modpow_ok p = true -> icanon x -> icanon m ->
  r_imodinv p x m = omap (option_map ienc) (spec_imodinv (ival x) (ival m)).
Proof. intros Hp. exact (imodinv_spec addsub rmul rdivrem addsub_params_ok Hmul rdivrem_spec p x m Hp). Qed.
