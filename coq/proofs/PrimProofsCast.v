(* PrimProofsCast.v — C08: parameter obligations, constant-folding tactics, and the num-traits
   integer casts against the range test. *)
From BigNum Require Import Base BaseLemmas ShiftCore ShiftCoreProofs AddSub Prim SpecPrim.
Open Scope Z_scope.

Definition hb_opd_eqb (a b : hb_operand) : bool :=
  match a, b with HDigitBits, HDigitBits | HBitsWant, HBitsWant | HOther, HOther => true | _, _ => false end.
Definition hb_pair_eqb (a b : hb_operand * hb_operand) : bool :=
  hb_opd_eqb (fst a) (fst b) && hb_opd_eqb (snd a) (snd b).

(** what the theorems need from the source-extracted decision points *)
Definition prim_ok (p : prim_params) : bool :=
  hb_opd_eqb (pp_hb_sub p) HDigitBits && (pp_hb_width p =? 64) &&
  hb_pair_eqb (pp_hb_shr p) (HDigitBits, HBitsWant) &&
  hb_pair_eqb (pp_hb_guard p) (HDigitBits, HBitsWant) &&
  (pp_hb_mask_c p =? 64) && hb_pair_eqb (pp_hb_mask p) (HDigitBits, HBitsWant) &&
  cmpop_eqb (pp_f64_cmp p) Cgt && (pp_f64_max p =? 1024) &&
  cmpop_eqb (pp_f32_cmp p) Cgt && (pp_f32_max p =? 128) &&
  (pp_i64_edge p =? 63) && (pp_i128_edge p =? 127) &&
  cmpop_eqb (pp_u64_cmp p) Cge && (pp_u64_lim p =? 64) &&
  cmpop_eqb (pp_u128_cmp p) Cge && (pp_u128_lim p =? 128).

Lemma hb_opd_eqb_eq a b : hb_opd_eqb a b = true -> a = b.
Proof. destruct a, b; simpl; congruence. Qed.
Lemma hb_pair_eqb_eq a b : hb_pair_eqb a b = true -> a = b.
Proof.
  destruct a, b; unfold hb_pair_eqb; cbn [fst snd]; intros H.
  apply andb_prop in H as [H1 H2]. apply hb_opd_eqb_eq in H1, H2. congruence.
Qed.
Lemma cmpop_eqb_eq a b : cmpop_eqb a b = true -> a = b.
Proof. destruct a, b; simpl; congruence. Qed.

Lemma prim_ok_inv p : prim_ok p = true ->
  pp_hb_sub p = HDigitBits /\ pp_hb_width p = 64 /\
  pp_hb_shr p = (HDigitBits, HBitsWant) /\ pp_hb_guard p = (HDigitBits, HBitsWant) /\
  pp_hb_mask_c p = 64 /\ pp_hb_mask p = (HDigitBits, HBitsWant) /\
  pp_f64_cmp p = Cgt /\ pp_f64_max p = 1024 /\ pp_f32_cmp p = Cgt /\ pp_f32_max p = 128 /\
  pp_i64_edge p = 63 /\ pp_i128_edge p = 127 /\
  pp_u64_cmp p = Cge /\ pp_u64_lim p = 64 /\ pp_u128_cmp p = Cge /\ pp_u128_lim p = 128.
Proof.
  unfold prim_ok; intros H.
  repeat (apply andb_prop in H as [H ?]).
  repeat match goal with
  | H : hb_opd_eqb _ _ = true |- _ => apply hb_opd_eqb_eq in H
  | H : hb_pair_eqb _ _ = true |- _ => apply hb_pair_eqb_eq in H
  | H : cmpop_eqb _ _ = true |- _ => apply cmpop_eqb_eq in H
  | H : (_ =? _) = true |- _ => apply Z.eqb_eq in H
  end.
  repeat split; assumption.
Qed.

(** closed powers of two become numerals *)
Ltac pow_consts :=
  repeat match goal with
  | |- context [2 ^ ?k] =>
      lazymatch eval vm_compute in k with
      | Zpos _ => let v := eval vm_compute in (2 ^ k) in change (2 ^ k) with v
      | Z0 => change (2 ^ k) with 1
      end
  end.
Ltac leb_cases :=
  repeat match goal with
  | |- context [?a <=? ?b] => destruct (Z.leb_spec a b)
  | |- context [?a <? ?b] => destruct (Z.ltb_spec a b)
  end.

(** * the num-traits casts agree with the range test on in-range sources *)
Lemma spec_to_int_pt t x :
  spec_to_int (pt_signed t) (pt_bits t) x =
  if (pt_min t <=? x) && (x <=? pt_max t) then Some x else None.
Proof. reflexivity. Qed.

Ltac pt_consts :=
  repeat match goal with
  | |- context [pt_min ?t] => let v := eval vm_compute in (pt_min t) in change (pt_min t) with v
  | |- context [pt_max ?t] => let v := eval vm_compute in (pt_max t) in change (pt_max t) with v
  | H : context [pt_min ?t] |- _ => let v := eval vm_compute in (pt_min t) in change (pt_min t) with v in H
  | H : context [pt_max ?t] |- _ => let v := eval vm_compute in (pt_max t) in change (pt_max t) with v in H
  end.

Lemma as_cast_id t x : pt_min t <= x <= pt_max t -> as_cast t x = x.
Proof.
  intros H. unfold as_cast.
  destruct t; pt_consts; cbn [pt_bits pt_signed andb]; pow_consts; leb_cases; lia.
Qed.

Ltac fold_bool_consts :=
  repeat match goal with
  | |- context [Z.leb ?a ?b] =>
      lazymatch a with Zpos _ => idtac | Zneg _ => idtac | Z0 => idtac end;
      lazymatch b with Zpos _ => idtac | Zneg _ => idtac | Z0 => idtac end;
      let v := eval vm_compute in (Z.leb a b) in change (Z.leb a b) with v
  | |- context [Z.ltb ?a ?b] =>
      lazymatch a with Zpos _ => idtac | Zneg _ => idtac | Z0 => idtac end;
      lazymatch b with Zpos _ => idtac | Zneg _ => idtac | Z0 => idtac end;
      let v := eval vm_compute in (Z.ltb a b) in change (Z.ltb a b) with v
  end.

Lemma prim_to_spec src dst x : pt_min src <= x <= pt_max src ->
  prim_to src dst x = spec_to_int (pt_signed dst) (pt_bits dst) x.
Proof.
  intros H. rewrite spec_to_int_pt. unfold prim_to.
  destruct (Z.leb_spec (pt_min dst) x) as [Hlo|Hlo]; destruct (Z.leb_spec x (pt_max dst)) as [Hhi|Hhi];
    cbn [andb]; [rewrite (as_cast_id dst x) by lia|generalize (as_cast dst x); intros y..];
    destruct src, dst; cbn [pt_signed pt_bits];
    repeat match goal with
    | |- context [as_cast ?s (pt_max ?d)] =>
        let v := eval vm_compute in (as_cast s (pt_max d)) in change (as_cast s (pt_max d)) with v
    | |- context [as_cast ?s (pt_min ?d)] =>
        let v := eval vm_compute in (as_cast s (pt_min d)) in change (as_cast s (pt_min d)) with v
    end;
    pt_consts; fold_bool_consts; cbn [andb orb]; try reflexivity; try lia;
    leb_cases; cbn [andb orb]; try reflexivity; lia.
Qed.

