(* GcdProofs2.v — C13, part 2: lcm, gcd_lcm, is_multiple_of, next/prev_multiple_of, inc/dec
   (BigUint); the BigInt operators used by the generic extended_gcd (mul, truncating div,
   mod_floor), BigInt gcd/lcm/multiples/inc/dec. *)
From BigNum Require Import Base BaseLemmas X86 AddSub AddSubProofs ShiftCore ShiftCoreProofs
  PgrLoop PgrLoopProofs Pow PowProofs Gcd SpecGcd GcdProofs.
Open Scope Z_scope.

(** * Z-level *)
Lemma zlcm_exact a b : 0 <= a -> 0 <= b -> (a <> 0 \/ b <> 0) ->
  a / Z.gcd a b * b = zlcm a b.
Proof.
  intros Ha Hb Hnz. unfold zlcm.
  destruct (Z.eqb_spec a 0) as [->|Na]; cbn [orb].
  { rewrite Z.div_0_l; [lia|]. intros E. apply Z.gcd_eq_0_r in E. lia. }
  destruct (Z.eqb_spec b 0) as [->|Nb]; [lia|].
  pose proof (Z.gcd_nonneg a b) as Hg.
  assert (Hg0 : Z.gcd a b <> 0) by (intros E; apply Z.gcd_eq_0_l in E; lia).
  destruct (Z.gcd_divide_l a b) as [k Hk].
  rewrite Z.abs_eq by nia.
  rewrite Hk at 1. rewrite Z.div_mul by auto.
  rewrite Hk at 1. replace (k * Z.gcd a b * b) with (k * b * Z.gcd a b) by ring.
  rewrite Z.div_mul by auto. reflexivity.
Qed.

Lemma zlcm_abs a b : zlcm (Z.abs a) (Z.abs b) = zlcm a b.
Proof.
  unfold zlcm. rewrite Z.gcd_abs_l, Z.gcd_abs_r, <- Z.abs_mul, Z.abs_involutive.
  destruct (Z.eqb_spec a 0), (Z.eqb_spec (Z.abs a) 0); try lia;
  destruct (Z.eqb_spec b 0), (Z.eqb_spec (Z.abs b) 0); try lia; reflexivity.
Qed.

Lemma mod_abs_zero a b : b <> 0 -> (Z.abs a mod Z.abs b =? 0) = (a mod b =? 0).
Proof.
  intros Hb. apply eq_true_iff_eq. rewrite !Z.eqb_eq.
  rewrite !Z.mod_divide by lia. rewrite Z.divide_abs_l, Z.divide_abs_r. reflexivity.
Qed.

Lemma quot_signs sx sy mx my : 0 <= mx -> 0 < my -> sy <> NoSign ->
  sign_z sy * (sign_z sx * (mx / my)) = Z.quot (sign_z sx * mx) (sign_z sy * my).
Proof.
  intros Hx Hy Hs.
  destruct sx, sy; cbn [sign_z]; try contradiction;
    rewrite ?Z.mul_1_l, ?Z.mul_0_l, ?Z.quot_0_l by lia;
    replace (-1 * mx) with (- mx) by lia; replace (-1 * my) with (- my) by lia;
    rewrite ?Z.quot_opp_opp, ?Z.quot_opp_l, ?Z.quot_opp_r by lia;
    rewrite ?Z.quot_div_nonneg by lia; lia.
Qed.

Lemma even_abs z : Z.even (Z.abs z) = Z.even z.
Proof. destruct z; reflexivity. Qed.
Lemma odd_abs z : Z.odd (Z.abs z) = Z.odd z.
Proof. destruct z; reflexivity. Qed.

Lemma ienc_0 : ienc 0 = mkint NoSign [].
Proof. unfold ienc. cbn [z_sign Z.abs]. now rewrite enc_0. Qed.

Section WithBigOps.
Variable bmul : list Z -> list Z -> outcome (list Z).
Variable bdivrem : list Z -> list Z -> outcome (list Z * list Z).
Hypothesis bmul_spec : bmul_exact bmul.
Hypothesis bdivrem_spec : bdivrem_exact bdivrem.
Variable ap : addsub_params.
Hypothesis Hap : addsub_ok ap = true.
Variable p : gcd_params.
Hypothesis Hok : gcd_ok p = true.

Lemma enc_is_zero v : 0 <= v -> pgr_is_zero (enc v) = (v =? 0).
Proof. intros H. rewrite pgr_is_zero_spec by apply enc_canon. now rewrite enc_val. Qed.

(** * BigUint *)
Lemma lcm_core a b : canon a -> canon b -> (val a <> 0 \/ val b <> 0) ->
  (do qr <- bdivrem a (enc (Z.gcd (val a) (val b))); bmul (fst qr) b) = Ret (enc (zlcm (val a) (val b))).
Proof.
  intros Ca Cb Hnz.
  pose proof (val_nonneg a (proj1 Ca)) as Ha0. pose proof (val_nonneg b (proj1 Cb)) as Hb0.
  pose proof (Z.gcd_nonneg (val a) (val b)) as Hg.
  assert (Hg0 : Z.gcd (val a) (val b) <> 0).
  { intros E. destruct Hnz; [apply Z.gcd_eq_0_l in E|apply Z.gcd_eq_0_r in E]; lia. }
  rewrite bdivrem_spec by (auto; apply enc_canon). rewrite enc_val by lia.
  destruct (Z.eqb_spec (Z.gcd (val a) (val b)) 0); [lia|]. cbn [bind fst].
  rewrite bmul_spec by (auto; apply enc_canon).
  rewrite enc_val by (apply Z.div_pos; lia). rewrite zlcm_exact by auto. reflexivity.
Qed.

Theorem ulcm_spec a b : canon a -> canon b ->
  ulcm bmul bdivrem ap p a b = Ret (enc (zlcm (val a) (val b))).
Proof.
  intros Ca Cb. unfold ulcm. rewrite (pgr_is_zero_spec a Ca), (pgr_is_zero_spec b Cb).
  destruct (Z.eqb_spec (val a) 0) as [Ea|Na]; [destruct (Z.eqb_spec (val b) 0) as [Eb|Nb]|]; cbn [andb].
  - unfold zlcm. rewrite Ea. cbn. reflexivity.
  - rewrite (ugcd_spec ap Hap p Hok) by auto. cbn [bind]. apply lcm_core; auto.
  - rewrite (ugcd_spec ap Hap p Hok) by auto. cbn [bind]. apply lcm_core; auto.
Qed.

Theorem ugcd_lcm_spec a b : canon a -> canon b ->
  ugcd_lcm bmul bdivrem ap p a b = Ret (enc (Z.gcd (val a) (val b)), enc (zlcm (val a) (val b))).
Proof.
  intros Ca Cb. unfold ugcd_lcm. rewrite (ugcd_spec ap Hap p Hok) by auto. cbn [bind].
  rewrite enc_is_zero by apply Z.gcd_nonneg.
  destruct (Z.eqb_spec (Z.gcd (val a) (val b)) 0) as [E|N].
  - cbn [bind]. pose proof (Z.gcd_eq_0_l _ _ E) as Ea. unfold zlcm. rewrite Ea. cbn. reflexivity.
  - rewrite lcm_core; auto. destruct (Z.eq_dec (val a) 0) as [Ea|]; [|auto].
    right. intros Eb. rewrite Ea, Eb in N. cbn in N. lia.
Qed.

Theorem uis_multiple_of_spec a b : canon a -> canon b ->
  uis_multiple_of bdivrem a b = Ret (if val b =? 0 then val a =? 0 else val a mod val b =? 0).
Proof.
  intros Ca Cb. unfold uis_multiple_of. rewrite (pgr_is_zero_spec b Cb), (pgr_is_zero_spec a Ca).
  pose proof (val_nonneg a (proj1 Ca)) as Ha0. pose proof (val_nonneg b (proj1 Cb)) as Hb0.
  destruct (Z.eqb_spec (val b) 0) as [E|N]; [reflexivity|].
  rewrite bdivrem_spec by auto. destruct (Z.eqb_spec (val b) 0); [lia|]. cbn [bind snd].
  rewrite enc_is_zero by (apply Z.mod_pos_bound; lia). reflexivity.
Qed.

Lemma umod_floor_spec_ a b : canon a -> canon b ->
  umod_floor_ bdivrem a b = if val b =? 0 then Panic DivZero else Ret (enc (val a mod val b)).
Proof.
  intros Ca Cb. unfold umod_floor_. rewrite bdivrem_spec by auto.
  destruct (val b =? 0); reflexivity.
Qed.

Theorem unext_multiple_of_spec a b : canon a -> canon b ->
  unext_multiple_of bdivrem ap a b = omap enc (spec_next_multiple_of (val a) (val b)).
Proof.
  intros Ca Cb. unfold unext_multiple_of, spec_next_multiple_of. rewrite umod_floor_spec_ by auto.
  pose proof (val_nonneg a (proj1 Ca)) as Ha0. pose proof (val_nonneg b (proj1 Cb)) as Hb0.
  destruct (Z.eqb_spec (val b) 0) as [E|N]; [reflexivity|]. cbn [bind omap].
  pose proof (Z.mod_pos_bound (val a) (val b) ltac:(lia)) as Hm.
  rewrite enc_is_zero by lia.
  destruct (Z.eqb_spec (val a mod val b) 0) as [Em|Nm].
  - now rewrite enc_of_canon.
  - rewrite usub_ref_val_spec by (auto; apply enc_canon). rewrite enc_val by lia.
    destruct (Z.ltb_spec (val b) (val a mod val b)); [lia|]. cbn [bind].
    rewrite uadd_spec by (auto; apply enc_canon). rewrite enc_val by lia. reflexivity.
Qed.

Theorem uprev_multiple_of_spec a b : canon a -> canon b ->
  uprev_multiple_of bdivrem ap a b = omap enc (spec_prev_multiple_of (val a) (val b)).
Proof.
  intros Ca Cb. unfold uprev_multiple_of, spec_prev_multiple_of. rewrite umod_floor_spec_ by auto.
  pose proof (val_nonneg a (proj1 Ca)) as Ha0. pose proof (val_nonneg b (proj1 Cb)) as Hb0.
  destruct (Z.eqb_spec (val b) 0) as [E|N]; [reflexivity|]. cbn [bind omap].
  pose proof (Z.mod_pos_bound (val a) (val b) ltac:(lia)) as Hm.
  rewrite usub_ref_val_spec by (auto; apply enc_canon). rewrite enc_val by lia.
  assert (val a mod val b <= val a) by (apply Z.mod_le; lia).
  destruct (Z.ltb_spec (val a) (val a mod val b)); [lia|]. reflexivity.
Qed.

Lemma wf_1 : wf [1]. Proof. apply canon_1. Qed.

Theorem udec_spec a : canon a -> udec ap a = omap enc (spec_udec (val a)).
Proof.
  intros Ca. unfold udec, usub_digit, spec_udec. change (do r <- sub2 ap a [1]; Ret (strip r)) with (usub ap a [1]).
  rewrite usub_spec by (auto; apply Ca || apply wf_1). rewrite val_single.
  destruct (val a <? 1); reflexivity.
Qed.

(** `*self += digit` for a non-zero digit *)
Lemma pgr_uadd_digit_spec a s : canon a -> 0 < s < B ->
  uadd_digit ap a s = Ret (enc (val a + s)).
Proof.
  intros Ca Hs. unfold uadd_digit. destruct (Z.eqb_spec s 0); [lia|].
  pose proof (val_nonneg a (proj1 Ca)) as Ha0.
  set (a0 := match a with [] => [0] | _ => a end).
  assert (Wa0 : wf a0).
  { unfold a0. destruct a; [|apply Ca]. constructor; [|constructor]. unfold digit. pose proof B_pos. lia. }
  assert (Va0 : val a0 = val a) by (unfold a0; destruct a; [cbn; lia|reflexivity]).
  assert (La0 : (1 <= length a0)%nat) by (unfold a0; destruct a; cbn; lia).
  assert (Ws : wf [s]) by (constructor; [unfold digit; lia|constructor]).
  destruct (add2c_spec ap a0 [s] Hap Wa0 Ws La0) as (a' & c & E & W' & L' & Bc & V').
  rewrite E. cbn [bind]. rewrite val_single, Va0 in V'.
  assert (Hc : c = 0 \/ c = 1) by (unfold bit in Bc; lia).
  pose proof (val_bound a' W') as Hb'. rewrite L' in Hb'.
  assert (Hlow : B ^ (Z.of_nat (length a0) - 1) <= val a + s).
  { unfold a0. destruct a as [|d r] eqn:Ea; [cbn; lia|].
    pose proof (canon_lower (d :: r) Ca ltac:(discriminate)). lia. }
  destruct Hc as [-> | ->]; cbn [Z.eqb].
  - rewrite Z.mul_0_r, Z.add_0_r in V'. rewrite <- V'. f_equal. symmetry. apply enc_of_canon.
    apply canon_of_lower; auto; [destruct a'; [cbn in L'; lia|discriminate]|]. rewrite L'. lia.
  - rewrite Z.mul_1_r in V'.
    assert (Cr : canon (a' ++ [1])) by (apply canon_app_last; auto; unfold digit; pose proof B_gt1; lia).
    rewrite <- (enc_of_canon _ Cr). f_equal. f_equal. rewrite val_app, val_single, L'. lia.
Qed.

Theorem uinc_spec a : canon a -> uinc ap a = Ret (enc (val a + 1)).
Proof. intros Ca. apply pgr_uadd_digit_spec; auto. pose proof B_gt1. lia. Qed.

(** * BigInt operators *)
Lemma iof_u_spec v : 0 <= v -> pgr_iof_u (enc v) = ienc v.
Proof.
  intros H. unfold pgr_iof_u. rewrite from_biguint_ienc by apply enc_canon.
  rewrite enc_val by auto. cbn [sign_z]. f_equal. lia.
Qed.

Lemma icanon_abs x : icanon x -> val (mag x) = Z.abs (ival x).
Proof. intros C. apply (icanon_sign x C). Qed.

Lemma pgr_iis_zero_spec x : icanon x -> pgr_iis_zero x = (ival x =? 0).
Proof.
  intros C. unfold pgr_iis_zero. destruct (icanon_sign x C) as [Hs _]. rewrite Hs.
  destruct (ival x); reflexivity.
Qed.

Lemma pgr_imul_spec x y : icanon x -> icanon y ->
  pgr_imul bmul x y = Ret (ienc (ival x * ival y)).
Proof.
  intros Cx Cy. unfold pgr_imul. rewrite bmul_spec by (apply Cx || apply Cy). cbn [bind].
  rewrite from_biguint_ienc by apply enc_canon.
  pose proof (val_nonneg _ (proj1 (proj1 Cx))). pose proof (val_nonneg _ (proj1 (proj1 Cy))).
  rewrite enc_val by nia. f_equal. f_equal. unfold ival.
  destruct (sg x), (sg y); cbn [sign_mul sign_z]; ring.
Qed.

Lemma pgr_idiv_spec x y : icanon x -> icanon y ->
  pgr_idiv bdivrem x y = if ival y =? 0 then Panic DivZero else Ret (ienc (Z.quot (ival x) (ival y))).
Proof.
  intros Cx Cy. unfold pgr_idiv. rewrite bdivrem_spec by (apply Cx || apply Cy).
  pose proof (val_nonneg _ (proj1 (proj1 Cx))) as Hx0. pose proof (val_nonneg _ (proj1 (proj1 Cy))) as Hy0.
  rewrite (icanon_abs y Cy).
  destruct (Z.eqb_spec (Z.abs (ival y)) 0) as [E|N]; destruct (Z.eqb_spec (ival y) 0); try lia; [reflexivity|].
  cbn [bind fst]. rewrite <- (icanon_abs y Cy) in *.
  assert (Hsy : sg y <> NoSign).
  { intros E. apply (proj2 Cy) in E. rewrite E in N. cbn in N. lia. }
  rewrite from_biguint_ienc by apply enc_canon.
  rewrite enc_val by (apply Z.div_pos; lia).
  assert (Q := quot_signs (sg x) (sg y) (val (mag x)) (val (mag y)) Hx0 ltac:(lia) Hsy).
  fold (ival x) in Q. fold (ival y) in Q. rewrite <- Q.
  destruct (sg y) eqn:Ey; cbn [sign_eqb sign_z]; try contradiction.
  - rewrite ineg_spec by apply ienc_canon. rewrite ienc_val. apply f_equal; apply f_equal; lia.
  - apply f_equal; apply f_equal; lia.
Qed.

Lemma pgr_imod_floor_spec x y : icanon x -> icanon y ->
  pgr_imod_floor bdivrem ap x y =
  if ival y =? 0 then Panic DivZero else Ret (ienc (ival x mod ival y)).
Proof.
  intros Cx Cy. unfold pgr_imod_floor. rewrite umod_floor_spec_ by (apply Cx || apply Cy).
  pose proof (val_nonneg _ (proj1 (proj1 Cx))) as Hx0. pose proof (val_nonneg _ (proj1 (proj1 Cy))) as Hy0.
  rewrite (icanon_abs y Cy).
  destruct (Z.eqb_spec (Z.abs (ival y)) 0) as [E|N]; destruct (Z.eqb_spec (ival y) 0); try lia; [reflexivity|].
  cbn [bind]. rewrite <- (icanon_abs y Cy) in *.
  pose proof (Z.mod_pos_bound (val (mag x)) (val (mag y)) ltac:(lia)) as Hm.
  rewrite from_biguint_ienc by apply enc_canon. rewrite enc_val by lia.
  set (mx := val (mag x)) in *. set (my := val (mag y)) in *.
  assert (Hsy : sg y <> NoSign).
  { intros E. apply (proj2 Cy) in E. unfold my in N. rewrite E in N. cbn in N. lia. }
  assert (Hsx : sg x = NoSign -> mx = 0).
  { intros E. apply (proj2 Cx) in E. unfold mx. rewrite E. reflexivity. }
  assert (Hy : ienc (ival y) = y) by (apply ienc_of_icanon; auto).
  unfold ival. fold mx. fold my.
  destruct (sg x) eqn:Ex, (sg y) eqn:Ey; cbn [sign_z]; try contradiction;
    rewrite ?Z.mul_1_l, ?Z.mul_0_l; try rewrite (Hsx eq_refl) in *;
    replace (-1 * mx) with (- mx) by lia; replace (-1 * my) with (- my) by lia;
    replace (-1 * (mx mod my)) with (- (mx mod my)) by lia.
  - (* Minus, Minus *) f_equal. f_equal. rewrite Z.mod_opp_opp by lia. reflexivity.
  - (* Minus, Plus *)
    rewrite pgr_iis_zero_spec, ienc_val by apply ienc_canon.
    destruct (Z.eqb_spec (mx mod my) 0) as [E0|N0].
    + f_equal. f_equal. rewrite Z.mod_opp_l_z by lia. lia.
    + rewrite isub_spec by (auto using ienc_canon). rewrite ienc_val. f_equal. f_equal.
      rewrite Z.mod_opp_l_nz by lia. unfold ival. rewrite Ey. fold my. cbn [sign_z]. lia.
  - (* NoSign, Minus *)
    rewrite Z.mod_0_l by lia. rewrite Z.mul_0_r. rewrite pgr_iis_zero_spec, ienc_val by apply ienc_canon.
    cbn [Z.eqb]. rewrite Z.mod_0_l by lia. reflexivity.
  - (* NoSign, Plus *) rewrite !Z.mod_0_l by lia. reflexivity.
  - (* Plus, Minus *)
    rewrite pgr_iis_zero_spec, ienc_val by apply ienc_canon.
    destruct (Z.eqb_spec (- (mx mod my)) 0) as [E0|N0].
    + f_equal. f_equal. rewrite Z.mod_opp_r_z by lia. lia.
    + rewrite isub_spec by (auto using ienc_canon). rewrite ienc_val. f_equal. f_equal.
      rewrite Z.mod_opp_r_nz by lia. unfold ival. rewrite Ey. fold my. cbn [sign_z]. lia.
  - (* Plus, Plus *) reflexivity.
Qed.

(** * BigInt API *)
Theorem igcd_spec x y : icanon x -> icanon y ->
  igcd ap p x y = Ret (ienc (Z.gcd (ival x) (ival y))).
Proof.
  intros Cx Cy. unfold igcd. rewrite (ugcd_spec ap Hap p Hok) by (apply Cx || apply Cy). cbn [bind].
  rewrite iof_u_spec by apply Z.gcd_nonneg.
  rewrite (icanon_abs x Cx), (icanon_abs y Cy), Z.gcd_abs_l, Z.gcd_abs_r. reflexivity.
Qed.

Lemma zlcm_nonneg a b : 0 <= zlcm a b.
Proof.
  unfold zlcm. destruct (Z.eqb_spec a 0); cbn [orb]; [lia|]. destruct (Z.eqb_spec b 0); [lia|].
  apply Z.div_pos; [lia|]. pose proof (Z.gcd_nonneg a b).
  assert (Z.gcd a b <> 0) by (intros E; apply Z.gcd_eq_0_l in E; lia). lia.
Qed.

Theorem ilcm_spec x y : icanon x -> icanon y ->
  ilcm bmul bdivrem ap p x y = Ret (ienc (zlcm (ival x) (ival y))).
Proof.
  intros Cx Cy. unfold ilcm. rewrite ulcm_spec by (apply Cx || apply Cy). cbn [bind].
  rewrite iof_u_spec by apply zlcm_nonneg.
  rewrite (icanon_abs x Cx), (icanon_abs y Cy), zlcm_abs. reflexivity.
Qed.

Theorem igcd_lcm_spec x y : icanon x -> icanon y ->
  igcd_lcm bmul bdivrem ap p x y =
  Ret (ienc (Z.gcd (ival x) (ival y)), ienc (zlcm (ival x) (ival y))).
Proof.
  intros Cx Cy. unfold igcd_lcm. rewrite ugcd_lcm_spec by (apply Cx || apply Cy). cbn [bind fst snd].
  rewrite !iof_u_spec by (apply Z.gcd_nonneg || apply zlcm_nonneg).
  rewrite (icanon_abs x Cx), (icanon_abs y Cy), zlcm_abs, Z.gcd_abs_l, Z.gcd_abs_r. reflexivity.
Qed.

Theorem iis_multiple_of_spec x y : icanon x -> icanon y ->
  iis_multiple_of bdivrem x y = spec_is_multiple_of (ival x) (ival y).
Proof.
  intros Cx Cy. unfold iis_multiple_of, spec_is_multiple_of.
  rewrite uis_multiple_of_spec by (apply Cx || apply Cy).
  rewrite (icanon_abs x Cx), (icanon_abs y Cy). f_equal.
  destruct (Z.eqb_spec (ival y) 0) as [E|N].
  - rewrite E. cbn [Z.abs Z.eqb]. destruct (Z.eqb_spec (Z.abs (ival x)) 0), (Z.eqb_spec (ival x) 0); lia || reflexivity.
  - destruct (Z.eqb_spec (Z.abs (ival y)) 0); [lia|]. apply mod_abs_zero; auto.
Qed.

Theorem inext_multiple_of_spec x y : icanon x -> icanon y ->
  inext_multiple_of bdivrem ap x y = omap ienc (spec_next_multiple_of (ival x) (ival y)).
Proof.
  intros Cx Cy. unfold inext_multiple_of, spec_next_multiple_of. rewrite pgr_imod_floor_spec by auto.
  destruct (Z.eqb_spec (ival y) 0); [reflexivity|]. cbn [bind omap].
  rewrite pgr_iis_zero_spec, ienc_val by apply ienc_canon.
  destruct (Z.eqb_spec (ival x mod ival y) 0).
  - now rewrite ienc_of_icanon.
  - rewrite isub_spec by (auto using ienc_canon). cbn [bind].
    rewrite iadd_spec by (auto using ienc_canon). rewrite !ienc_val. reflexivity.
Qed.

Theorem iprev_multiple_of_spec x y : icanon x -> icanon y ->
  iprev_multiple_of bdivrem ap x y = omap ienc (spec_prev_multiple_of (ival x) (ival y)).
Proof.
  intros Cx Cy. unfold iprev_multiple_of, spec_prev_multiple_of. rewrite pgr_imod_floor_spec by auto.
  destruct (Z.eqb_spec (ival y) 0); [reflexivity|]. cbn [bind omap].
  rewrite isub_spec by (auto using ienc_canon). rewrite ienc_val. reflexivity.
Qed.

Lemma pgr_is_even_spec l : wf l -> pgr_is_even l = Z.even (val l).
Proof. intros W. rewrite <- (negb_involutive (pgr_is_even l)). fold (pgr_is_odd l). rewrite pgr_is_odd_spec by auto. apply Z.negb_odd. Qed.

Theorem iis_even_spec x : icanon x -> iis_even x = Z.even (ival x).
Proof.
  intros Cx. unfold iis_even. rewrite pgr_is_even_spec by apply Cx.
  rewrite (icanon_abs x Cx). apply even_abs.
Qed.
Theorem iis_odd_spec x : icanon x -> iis_odd x = Z.odd (ival x).
Proof.
  intros Cx. unfold iis_odd. rewrite pgr_is_odd_spec by apply Cx.
  rewrite (icanon_abs x Cx). apply odd_abs.
Qed.

Lemma strip_1 : strip [1] = [1]. Proof. reflexivity. Qed.

Theorem idec_spec x : icanon x -> idec ap x = Ret (ienc (ival x - 1)).
Proof.
  intros Cx. unfold idec, isub_u32. rewrite strip_1.
  pose proof (icanon_mag x Cx) as Cm. pose proof (val_nonneg _ (proj1 Cm)) as Hm0.
  assert (HB : 1 < B) by apply B_gt1.
  unfold ival. destruct (sg x) eqn:Es; cbn [sign_z].
  - rewrite pgr_uadd_digit_spec by (auto; lia). cbn [bind].
    rewrite iof_u_spec by lia. rewrite ineg_spec by apply ienc_canon. rewrite ienc_val. apply f_equal; apply f_equal; lia.
  - apply (proj2 Cx) in Es. rewrite Es. cbn [val].
    change [1] with (enc_fuel 1 1) at 1. rewrite <- enc_1 at 1.
    rewrite iof_u_spec by lia. rewrite ineg_spec by apply ienc_canon. rewrite ienc_val. reflexivity.
  - rewrite cmp_slice_spec by (auto using canon_1). cbn [bind]. rewrite val_single.
    pose proof (icanon_pos x Cx ltac:(congruence)) as Hp.
    destruct (val (mag x) ?= 1) eqn:Cmp.
    + apply Z.compare_eq in Cmp. rewrite Cmp. unfold pgr_izero. rewrite <- ienc_0. reflexivity.
    + assert (val (mag x) < 1) by (apply Z.compare_lt_iff; exact Cmp). lia.
    + assert (1 < val (mag x)) by (apply Z.compare_gt_iff; exact Cmp).
      unfold usub_digit. change (do r <- sub2 ap (mag x) [1]; Ret (strip r)) with (usub ap (mag x) [1]).
      rewrite usub_spec by (auto; apply Cm || apply wf_1). rewrite val_single.
      destruct (Z.ltb_spec (val (mag x)) 1); [lia|]. cbn [bind].
      rewrite iof_u_spec by lia. apply f_equal; apply f_equal; lia.
Qed.

Theorem iinc_spec x : icanon x -> iinc ap x = Ret (ienc (ival x + 1)).
Proof.
  intros Cx. unfold iinc, iadd_u32. rewrite strip_1.
  pose proof (icanon_mag x Cx) as Cm. pose proof (val_nonneg _ (proj1 Cm)) as Hm0.
  assert (HB : 1 < B) by apply B_gt1.
  unfold ival. destruct (sg x) eqn:Es; cbn [sign_z].
  - rewrite cmp_slice_spec by (auto using canon_1). cbn [bind]. rewrite val_single.
    pose proof (icanon_pos x Cx ltac:(congruence)) as Hp.
    destruct (val (mag x) ?= 1) eqn:Cmp.
    + apply Z.compare_eq in Cmp. rewrite Cmp. unfold pgr_izero. rewrite <- ienc_0. reflexivity.
    + assert (val (mag x) < 1) by (apply Z.compare_lt_iff; exact Cmp). lia.
    + assert (1 < val (mag x)) by (apply Z.compare_gt_iff; exact Cmp).
      unfold usub_digit. change (do r <- sub2 ap (mag x) [1]; Ret (strip r)) with (usub ap (mag x) [1]).
      rewrite usub_spec by (auto; apply Cm || apply wf_1). rewrite val_single.
      destruct (Z.ltb_spec (val (mag x)) 1); [lia|]. cbn [bind].
      rewrite iof_u_spec by lia. rewrite ineg_spec by apply ienc_canon. rewrite ienc_val.
      apply f_equal; apply f_equal; lia.
  - apply (proj2 Cx) in Es. rewrite Es. cbn [val].
    rewrite <- enc_1. rewrite iof_u_spec by lia. reflexivity.
  - rewrite pgr_uadd_digit_spec by (auto; lia). cbn [bind].
    rewrite iof_u_spec by lia. apply f_equal; apply f_equal; lia.
Qed.
End WithBigOps.
