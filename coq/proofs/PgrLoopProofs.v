(* PgrLoopProofs.v — reasoning rules for the binary-fuel loop combinator of model/PgrLoop.v:
   it equals the unary-fuel loop, a total-correctness rule (invariant + integer measure), and a
   simulation rule between two loops run with the same fuel. *)
From BigNum Require Import Base BaseLemmas PgrLoop.
Open Scope Z_scope.

Section LoopProofs.
Context {S R : Type}.
Variable step : S -> outcome (S + R).

Fixpoint loop_nat (n : nat) (s : S) : outcome (S + R) :=
  match n with
  | O => Ret (inl s)
  | Datatypes.S k =>
      do r <- step s;
      match r with inl s' => loop_nat k s' | inr x => Ret (inr x) end
  end.

Lemma loop_nat_add a b s :
  loop_nat (a + b) s =
  (do r <- loop_nat a s; match r with inl s' => loop_nat b s' | inr x => Ret (inr x) end).
Proof.
  revert s; induction a as [|a IH]; intros s; cbn [loop_nat Nat.add bind].
  - reflexivity.
  - destruct (step s) as [[s'|x]|k|]; cbn [bind]; auto.
Qed.

Lemma loop_nat_1 s : loop_nat 1 s = step s.
Proof. cbn [loop_nat]. destruct (step s) as [[s'|x]|k|]; reflexivity. Qed.

Lemma loop_pos_nat fuel s : loop_pos step fuel s = loop_nat (Pos.to_nat fuel) s.
Proof.
  revert s; induction fuel as [f IH|f IH|]; intros s.
  - rewrite Pos2Nat.inj_xI. replace (Datatypes.S (2 * Pos.to_nat f)) with (1 + (Pos.to_nat f + Pos.to_nat f))%nat by lia.
    rewrite loop_nat_add, loop_nat_1. cbn [loop_pos].
    destruct (step s) as [[s0|x]|k|]; cbn [bind]; auto.
    rewrite loop_nat_add, IH. destruct (loop_nat (Pos.to_nat f) s0) as [[s'|x]|k|]; cbn [bind]; auto.
  - rewrite Pos2Nat.inj_xO. replace (2 * Pos.to_nat f)%nat with (Pos.to_nat f + Pos.to_nat f)%nat by lia.
    rewrite loop_nat_add. cbn [loop_pos]. rewrite IH.
    destruct (loop_nat (Pos.to_nat f) s) as [[s'|x]|k|]; cbn [bind]; auto.
  - cbn [loop_pos]. change (Pos.to_nat 1) with 1%nat. now rewrite loop_nat_1.
Qed.

(** Total correctness: an invariant, a non-negative integer measure that strictly decreases on
    `continue`, a postcondition established on `break`; the body never panics under the invariant. *)
Definition step_ok (Inv : S -> Prop) (mu : S -> Z) (Post : R -> Prop) : Prop :=
  forall s, Inv s ->
    0 <= mu s /\
    match step s with
    | Ret (inl s') => Inv s' /\ mu s' < mu s
    | Ret (inr x) => Post x
    | _ => False
    end.

Lemma loop_nat_rule Inv mu Post : step_ok Inv mu Post ->
  forall n s, Inv s -> mu s < Z.of_nat n -> exists x, loop_nat n s = Ret (inr x) /\ Post x.
Proof.
  intros Hs n; induction n as [|n IH]; intros s Hi Hm.
  - destruct (Hs s Hi) as [H0 _]. lia.
  - destruct (Hs s Hi) as [H0 H1]. cbn [loop_nat].
    destruct (step s) as [[s'|x]|k|]; cbn [bind]; try contradiction.
    + destruct H1 as [Hi' Hlt]. apply IH; auto. lia.
    + exists x; auto.
Qed.

Theorem run_loop_rule Inv mu Post : step_ok Inv mu Post ->
  forall fuel s, Inv s -> mu s < Z.pos fuel -> exists x, run_loop step fuel s = Ret x /\ Post x.
Proof.
  intros Hs fuel s Hi Hm. unfold run_loop. rewrite loop_pos_nat.
  destruct (loop_nat_rule Inv mu Post Hs (Pos.to_nat fuel) s Hi) as (x & -> & Hp).
  - rewrite positive_nat_Z. exact Hm.
  - exists x; auto.
Qed.
End LoopProofs.

(** Simulation: step-wise related loops give related results (same fuel). *)
Section LoopSim.
Context {S1 R1 S2 R2 : Type}.
Variable step1 : S1 -> outcome (S1 + R1).
Variable step2 : S2 -> outcome (S2 + R2).
Variable RS : S1 -> S2 -> Prop.
Variable RR : R1 -> R2 -> Prop.

Definition out_rel {A1 A2} (P : A1 -> A2 -> Prop) (o1 : outcome A1) (o2 : outcome A2) : Prop :=
  match o2 with
  | Ret a2 => exists a1, o1 = Ret a1 /\ P a1 a2
  | Panic k => o1 = Panic k
  | OutOfFuel => o1 = OutOfFuel
  end.
Definition sum_rel (x1 : S1 + R1) (x2 : S2 + R2) : Prop :=
  match x1, x2 with
  | inl a, inl b => RS a b
  | inr a, inr b => RR a b
  | _, _ => False
  end.

Hypothesis Hstep : forall s1 s2, RS s1 s2 -> out_rel sum_rel (step1 s1) (step2 s2).

Lemma loop_nat_sim n : forall s1 s2, RS s1 s2 ->
  out_rel sum_rel (loop_nat step1 n s1) (loop_nat step2 n s2).
Proof.
  induction n as [|n IH]; intros s1 s2 Hr; cbn [loop_nat].
  - exists (inl s1); split; auto.
  - specialize (Hstep s1 s2 Hr). unfold out_rel in Hstep.
    destruct (step2 s2) as [[s2'|r2]|k|]; cbn [bind].
    + destruct Hstep as ([s1'|r1] & -> & Hx); cbn in Hx; try contradiction. cbn [bind]. apply IH; auto.
    + destruct Hstep as ([s1'|r1] & -> & Hx); cbn in Hx; try contradiction. cbn [bind].
      exists (inr r1); split; auto.
    + rewrite Hstep; reflexivity.
    + rewrite Hstep; reflexivity.
Qed.

Theorem run_loop_sim fuel s1 s2 : RS s1 s2 ->
  out_rel RR (run_loop step1 fuel s1) (run_loop step2 fuel s2).
Proof.
  intros Hr. unfold run_loop. rewrite !loop_pos_nat.
  pose proof (loop_nat_sim (Pos.to_nat fuel) s1 s2 Hr) as H. unfold out_rel in H.
  destruct (loop_nat step2 (Pos.to_nat fuel) s2) as [[s2'|r2]|k|]; cbn [bind].
  - destruct H as ([s1'|r1] & -> & Hx); cbn in Hx; try contradiction. reflexivity.
  - destruct H as ([s1'|r1] & -> & Hx); cbn in Hx; try contradiction. cbn [bind]. exists r1; auto.
  - rewrite H; reflexivity.
  - rewrite H; reflexivity.
Qed.
End LoopSim.

(** The hypotheses under which the pow / gcd / roots theorems are stated: the big operations the
    models are parameterised by are exact (these are the statements of Mul.umul_spec and
    Div.udivrem_spec).  They are satisfiable: the spec-level stand-ins meet them. *)
Definition bmul_exact (bmul : list Z -> list Z -> outcome (list Z)) : Prop :=
  forall a b, canon a -> canon b -> bmul a b = Ret (enc (val a * val b)).
Definition bdivrem_exact (bdivrem : list Z -> list Z -> outcome (list Z * list Z)) : Prop :=
  forall a b, canon a -> canon b ->
    bdivrem a b = if val b =? 0 then Panic DivZero else Ret (enc (val a / val b), enc (val a mod val b)).
Lemma spec_bmul_exact : bmul_exact spec_bmul.
Proof. intros a b _ _. reflexivity. Qed.
Lemma spec_bdivrem_exact : bdivrem_exact spec_bdivrem.
Proof. intros a b _ _. reflexivity. Qed.
