(* MulProofs.v — C02, part 1: parameter conditions, the `room` precondition, row routines
   (mac_with_carry, mac_digit), long multiplication, low-zero stripping, sub_sign, and the
   slice lemmas used by the recursive regimes. *)
From BigNum Require Import Base BaseLemmas X86 AddSub AddSubProofs ShiftCore ShiftCoreProofs Mul.
Open Scope Z_scope.

(** * Conditions on the source-extracted parameters *)

(** the regime tests `x.len() <= 32`, `x.len() <= 256` may be written with `<=` or `<`;
    [eff c m] is the largest length for which the test holds.  The swap test may be `<` or
    `<=`.  The half-Karatsuba test `x.len() * 2 <= y.len()` is unconstrained: whichever way it
    decides, both half-Karatsuba and Karatsuba are correct for the operands that reach them
    (it matters for the cost only, see C20). *)
Definition ok_cmp (c : cmpop) : bool := match c with Cle | Clt => true | _ => false end.
Definition eff (c : cmpop) (m : Z) : Z := match c with Clt => m - 1 | _ => m end.

Definition mul_ok (p : mul_params) : bool :=
  addsub_ok (mp_as p)
  && ok_cmp (mp_swap_cmp p)
  && ok_cmp (mp_long_cmp p) && (1 <=? eff (mp_long_cmp p) (mp_long_max p))
  && ok_cmp (mp_kara_cmp p)
  && (3 <=? Z.max (eff (mp_long_cmp p) (mp_long_max p)) (eff (mp_kara_cmp p) (mp_kara_max p)))
  && (mp_half_split p =? 2) && (mp_kara_split p =? 2) && (1 <=? mp_kara_extra p)
  && (mp_toom_div p =? 3) && (mp_toom_extra p =? 1) && (1 <=? mp_prod_extra p).

Lemma cmpop_eqb_eq a b : cmpop_eqb a b = true -> a = b.
Proof. destruct a, b; simpl; congruence. Qed.

Lemma eff_spec c m a : ok_cmp c = true -> cmp_eval c a m = (a <=? eff c m).
Proof.
  destruct c; try discriminate; intros _; cbn [cmp_eval eff]; [|reflexivity].
  destruct (Z.ltb_spec a m), (Z.leb_spec a (m - 1)); auto; lia.
Qed.

Lemma mul_ok_inv p : mul_ok p = true ->
  addsub_ok (mp_as p) = true /\ ok_cmp (mp_swap_cmp p) = true /\
  ok_cmp (mp_long_cmp p) = true /\ 1 <= eff (mp_long_cmp p) (mp_long_max p) /\
  True /\ True /\
  ok_cmp (mp_kara_cmp p) = true /\
  3 <= Z.max (eff (mp_long_cmp p) (mp_long_max p)) (eff (mp_kara_cmp p) (mp_kara_max p)) /\
  mp_half_split p = 2 /\ mp_kara_split p = 2 /\ 1 <= mp_kara_extra p /\
  mp_toom_div p = 3 /\ mp_toom_extra p = 1 /\ 1 <= mp_prod_extra p.
Proof.
  unfold mul_ok; intros H.
  do 11 (apply andb_prop in H as [H ?]).
  repeat match goal with
         | H : (_ <=? _) = true |- _ => apply Z.leb_le in H
         | H : (_ =? _) = true |- _ => apply Z.eqb_eq in H
         end.
  repeat split; assumption.
Qed.

(** * The accumulator contract *)

(** [acc'] is [acc] with [d] added in place *)
Definition adds (acc acc' : list Z) (d : Z) : Prop :=
  wf acc' /\ length acc' = length acc /\ val acc' = val acc + d.

(** the buffer has room for [d] and one more unit at position [m] *)
Definition fits (acc : list Z) (d m : Z) : Prop := val acc + d + B ^ m <= B ^ lenZ acc.

Definition room (acc b c : list Z) : Prop := fits acc (val b * val c) (lenZ b + lenZ c).

(** what a usable recursive multiply-accumulate provides for operands of total length < n *)
Definition rec_ok (rec : mrec) (n : nat) : Prop :=
  forall acc b c, wf acc -> wf b -> wf c -> (length b + length c < n)%nat -> room acc b c ->
    exists acc', rec acc b c = Ret acc' /\ adds acc acc' (val b * val c).

Lemma rec_ok_mono rec n m : (m <= n)%nat -> rec_ok rec n -> rec_ok rec m.
Proof. intros Hle H acc b c Wa Wb Wc Hl Hr. apply H; auto; lia. Qed.

Lemma lenZ_nonneg l : 0 <= lenZ l. Proof. unfold lenZ; lia. Qed.

Lemma pow_le_inv a b : 0 <= a -> 0 <= b -> B ^ a <= B ^ b -> a <= b.
Proof.
  intros Ha Hb H. destruct (Z.le_gt_cases a b) as [|Hlt]; auto.
  pose proof (Z.pow_lt_mono_r B b a B_gt1 Ha Hlt). lia.
Qed.

Lemma pow_le_mono a b : 0 <= a <= b -> B ^ a <= B ^ b.
Proof. intros. apply Z.pow_le_mono_r; [apply B_pos|lia]. Qed.

Lemma fits_len acc d m : wf acc -> 0 <= d -> 0 <= m -> fits acc d m -> m <= lenZ acc.
Proof.
  unfold fits; intros Wa Hd Hm H. pose proof (val_nonneg acc Wa).
  apply pow_le_inv; auto using lenZ_nonneg. lia.
Qed.

Lemma fits_lt acc d m : 0 <= m -> fits acc d m -> val acc + d < B ^ lenZ acc.
Proof. unfold fits; intros Hm H. pose proof (B_pow m Hm). lia. Qed.

Lemma room_sym acc b c : room acc b c -> room acc c b.
Proof. unfold room, fits. rewrite (Z.mul_comm (val c)), (Z.add_comm (lenZ c)). auto. Qed.

Lemma val_mul_bound b c : wf b -> wf c -> 0 <= val b * val c < B ^ (lenZ b + lenZ c).
Proof.
  intros Wb Wc. pose proof (val_bound b Wb). pose proof (val_bound c Wc).
  unfold lenZ. rewrite Z.pow_add_r by lia. nia.
Qed.

Lemma room_len acc b c : wf acc -> wf b -> wf c -> room acc b c ->
  (length b + length c <= length acc)%nat.
Proof.
  intros Wa Wb Wc H. pose proof (val_mul_bound b c Wb Wc).
  apply fits_len in H; auto; unfold lenZ in *; lia.
Qed.

(** a zeroed buffer with one spare digit has room *)
Lemma room_zeros n b c : wf b -> wf c -> (length b + length c + 1 <= n)%nat -> room (zeros n) b c.
Proof.
  intros Wb Wc Hn. unfold room, fits. rewrite val_zeros.
  pose proof (val_mul_bound b c Wb Wc) as Hb.
  unfold lenZ in *. rewrite length_zeros.
  assert (B ^ (Z.of_nat (length b) + Z.of_nat (length c) + 1) <= B ^ Z.of_nat n) by (apply pow_le_mono; lia).
  rewrite Z.pow_add_r, Z.pow_1_r in H by lia. pose proof B_gt1.
  set (P := B ^ (Z.of_nat (length b) + Z.of_nat (length c))) in *. nia.
Qed.

Lemma adds_refl acc : wf acc -> adds acc acc 0.
Proof. intros; unfold adds; repeat split; auto; lia. Qed.

(** * Slices *)
Lemma val_skipn k l : wf l -> (k <= length l)%nat ->
  val l = val (firstn k l) + B ^ Z.of_nat k * val (skipn k l) /\ 0 <= val (firstn k l) < B ^ Z.of_nat k.
Proof.
  intros Wl Hk. pose proof (val_split k l) as H. rewrite firstn_length_le in H by auto.
  split; auto. pose proof (val_bound (firstn k l) (wf_firstn k l Wl)) as Hb.
  rewrite firstn_length_le in Hb by auto. auto.
Qed.

Lemma lenZ_skipn k l : (k <= length l)%nat -> lenZ (skipn k l) = lenZ l - Z.of_nat k.
Proof. intros. unfold lenZ. rewrite skipn_length. lia. Qed.

(** numeric core of every "slice has room" argument *)
Lemma scale_le P lo hi Q : 0 < P -> 0 <= lo -> lo + P * hi <= P * Q -> hi <= Q.
Proof. intros HP Hlo H. nia. Qed.
Lemma scale_lt P lo hi Q : 0 < P -> 0 <= lo -> lo + P * hi < P * Q -> hi < Q.
Proof. intros HP Hlo H. nia. Qed.

Lemma fits_skipn k acc d m : wf acc -> 0 <= m -> 0 <= d ->
  fits acc (B ^ Z.of_nat k * d) (Z.of_nat k + m) -> fits (skipn k acc) d m.
Proof.
  intros Wa Hm Hd H.
  assert (Hk : (k <= length acc)%nat).
  { apply fits_len in H; auto; try lia. unfold lenZ in H; lia. pose proof (B_pow_nat k); nia. }
  unfold fits in *. rewrite lenZ_skipn by auto.
  destruct (val_skipn k acc Wa Hk) as [Hv Hlo].
  pose proof (B_pow_nat k) as HP.
  replace (lenZ acc) with (Z.of_nat k + (lenZ acc - Z.of_nat k)) in H by lia.
  rewrite !Z.pow_add_r in H by (unfold lenZ; lia).
  apply (scale_le (B ^ Z.of_nat k) (val (firstn k acc))); [lia|lia|].
  rewrite Hv in H. nia.
Qed.

Lemma on_slice_adds k s acc f d t : wf acc -> (k <= length acc)%nat ->
  f (skipn k acc) = Ret t -> adds (skipn k acc) t d ->
  exists acc', on_slice k s acc f = Ret acc' /\ adds acc acc' (B ^ Z.of_nat k * d).
Proof.
  intros Wa Hk Hf (Wt & Lt & Vt). unfold on_slice.
  replace (k <=? length acc)%nat with true by (symmetry; apply Nat.leb_le; auto).
  cbn [assert_ bind]. rewrite Hf. cbn [bind]. eexists; split; [reflexivity|].
  destruct (val_skipn k acc Wa Hk) as [Hv _].
  split; [apply wf_app; split; auto using wf_firstn|].
  split.
  - rewrite app_length, firstn_length_le, Lt, skipn_length by auto. lia.
  - rewrite val_app, firstn_length_le, Vt, Hv by auto. ring.
Qed.

(** * add2 / sub2 on (slices of) the accumulator *)
Lemma add2_adds ap a b : addsub_ok ap = true -> wf a -> wf b -> (length b <= length a)%nat ->
  val a + val b < B ^ lenZ a ->
  exists a', add2 ap a b = Ret a' /\ adds a a' (val b).
Proof.
  intros Hp Wa Wb Hl Hlt. unfold add2.
  destruct (add2c_spec ap a b Hp Wa Wb Hl) as (a' & c & E & Wa' & La' & Bc & Hv).
  rewrite E. cbn [bind]. pose proof (val_nonneg a' Wa').
  assert (c = 0) as ->.
  { destruct Bc as [->| ->]; auto. unfold lenZ in Hlt. lia. }
  cbn [Z.eqb assert_ bind]. eexists; split; [reflexivity|]. repeat split; auto. lia.
Qed.

Lemma strip_len_bound l k : wf l -> 0 <= k -> val l < B ^ k -> lenZ (strip l) <= k.
Proof.
  intros Wl Hk Hv. destruct (strip l) as [|d r] eqn:E.
  - unfold lenZ; simpl; lia.
  - pose proof (canon_strip l Wl) as Hc. rewrite E in Hc.
    pose proof (canon_lower _ Hc ltac:(discriminate)) as Hlow.
    rewrite <- E, val_strip in Hlow. rewrite E in Hlow.
    assert (Z.of_nat (length (d :: r)) - 1 < k).
    { destruct (Z.lt_ge_cases (Z.of_nat (length (d :: r)) - 1) k) as [|Hge]; auto.
      pose proof (pow_le_mono k (Z.of_nat (length (d :: r)) - 1) ltac:(lia)). lia. }
    unfold lenZ. lia.
Qed.

Lemma on_slice_add2 ap k s acc q : addsub_ok ap = true -> wf acc -> wf q ->
  (k + length q <= length acc)%nat ->
  val acc + B ^ Z.of_nat k * val q < B ^ lenZ acc ->
  exists acc', on_slice k s acc (fun t => add2 ap t q) = Ret acc' /\ adds acc acc' (B ^ Z.of_nat k * val q).
Proof.
  intros Hp Wa Wq Hl Hlt.
  assert (Hk : (k <= length acc)%nat) by lia.
  destruct (val_skipn k acc Wa Hk) as [Hv Hlo]. pose proof (B_pow_nat k) as HP.
  destruct (add2_adds ap (skipn k acc) q Hp (wf_skipn k acc Wa) Wq) as (t & Et & Ht).
  - rewrite skipn_length; lia.
  - rewrite lenZ_skipn by auto.
    replace (lenZ acc) with (Z.of_nat k + (lenZ acc - Z.of_nat k)) in Hlt by lia.
    rewrite Z.pow_add_r in Hlt by (unfold lenZ; lia).
    apply (scale_lt (B ^ Z.of_nat k) (val (firstn k acc))); [lia|lia|]. rewrite Hv in Hlt. nia.
  - eapply on_slice_adds; eauto.
Qed.

Lemma on_slice_sub2 ap k s acc q : addsub_ok ap = true -> wf acc -> wf q ->
  (k <= length acc)%nat ->
  B ^ Z.of_nat k * val q <= val acc ->
  exists acc', on_slice k s acc (fun t => sub2 ap t q) = Ret acc' /\ adds acc acc' (- (B ^ Z.of_nat k * val q)).
Proof.
  intros Hp Wa Wq Hk Hle.
  destruct (val_skipn k acc Wa Hk) as [Hv Hlo]. pose proof (B_pow_nat k) as HP.
  destruct (sub2_spec ap (skipn k acc) q Hp (wf_skipn k acc Wa) Wq) as [Hs _].
  destruct Hs as (t & Et & Wt & Lt & Vt).
  - rewrite Hv in Hle. nia.
  - destruct (on_slice_adds k s acc (fun t => sub2 ap t q) (- val q) t Wa Hk Et) as (acc' & E & Ha).
    + repeat split; auto; lia.
    + exists acc'; split; auto. destruct Ha as (W & L & V). repeat split; auto; lia.
Qed.

(** * Row routines *)
Lemma mask64_ones : mask64 = Z.ones 64. Proof. reflexivity. Qed.
Lemma lo64_spec s : lo64 s = s mod B.
Proof. unfold lo64. rewrite mask64_ones, Z.land_ones, B_as_pow2 by lia. reflexivity. Qed.
Lemma hi64_spec s : hi64 s = s / B.
Proof. unfold hi64. rewrite Z.shiftr_div_pow2, B_as_pow2 by lia. reflexivity. Qed.

Lemma mac_with_carry_spec a b c acc : digit a -> digit b -> digit c -> digit acc ->
  exists lo hi, mac_with_carry a b c acc = Ret (lo, hi) /\ digit lo /\ digit hi /\
                lo + B * hi = acc + a + b * c.
Proof.
  unfold digit; intros Ha Hb Hc Hacc. unfold mac_with_carry. pose proof B_pos. pose proof BB_val.
  assert (Hs : 0 <= acc + a + b * c < B * B) by nia.
  replace (acc + a <? BB) with true by (symmetry; apply Z.ltb_lt; nia).
  cbn [assert_ bind].
  replace (acc + a + b * c <? BB) with true by (symmetry; apply Z.ltb_lt; lia).
  cbn [assert_ bind]. rewrite lo64_spec, hi64_spec.
  eexists _, _; split; [reflexivity|]. split; [|split].
  - apply Z.mod_pos_bound; lia.
  - split; [apply Z.div_pos; lia|]. apply Z.div_lt_upper_bound; lia.
  - pose proof (Z.div_mod (acc + a + b * c) B). lia.
Qed.

Lemma mac_loop_spec c : digit c -> forall a b carry, wf a -> wf b -> digit carry ->
  length a = length b ->
  exists lo cf, mac_loop c carry a b = Ret (lo, cf) /\ wf lo /\ length lo = length a /\ digit cf /\
                val lo + B ^ Z.of_nat (length a) * cf = val a + val b * c + carry.
Proof.
  intros Hc. induction a as [|x a IH]; intros [|y b] carry Wa Wb Hcar Hl; try discriminate.
  - cbn [mac_loop length Z.of_nat]. rewrite Z.pow_0_r. eexists _, _; split; [reflexivity|].
    rewrite !val_nil. unfold digit in *. repeat split; auto; lia.
  - apply wf_cons in Wa as [Hx Wa], Wb as [Hy Wb]. cbn [mac_loop].
    destruct (mac_with_carry_spec x y c carry Hx Hy Hc Hcar) as (lo & hi & E & Dlo & Dhi & Ev).
    rewrite E. cbn [bind]. injection Hl as Hl.
    destruct (IH b hi Wa Wb Dhi Hl) as (r & cf & E2 & Wr & Lr & Dcf & Ev2).
    rewrite E2. cbn [bind]. eexists _, _; split; [reflexivity|].
    split; [apply wf_cons; auto|]. split; [cbn [length]; congruence|]. split; [auto|].
    change (length (x :: a)) with (S (length a)). rewrite B_pow_S, !val_cons. nia.
Qed.

Theorem mac_digit_spec p acc b c : mul_ok p = true -> wf acc -> wf b -> digit c ->
  (c <> 0 -> (length b < length acc)%nat) ->
  val acc + val b * c < B ^ lenZ acc ->
  exists acc', mac_digit p acc b c = Ret acc' /\ adds acc acc' (val b * c).
Proof.
  intros Hp Wa Wb Hc Hl Hlt. apply mul_ok_inv in Hp as (Hap & _).
  unfold mac_digit. destruct (Z.eqb_spec c 0) as [->|Hc0].
  - exists acc; split; auto. rewrite Z.mul_0_r. apply adds_refl; auto.
  - specialize (Hl Hc0).
    replace (length b <=? length acc)%nat with true by (symmetry; apply Nat.leb_le; lia).
    cbn [assert_ bind].
    set (n := length b).
    assert (Hk : (n <= length acc)%nat) by (unfold n; lia).
    destruct (val_skipn n acc Wa Hk) as [Hv Hlo].
    assert (Ln : length (firstn n acc) = length b) by (apply firstn_length_le; auto).
    destruct (mac_loop_spec c Hc (firstn n acc) b 0 (wf_firstn n acc Wa) Wb) as (lo & cf & E & Wlo & Llo & Dcf & Ev).
    { unfold digit; pose proof B_pos; lia. } { auto. }
    rewrite E. cbn [bind]. rewrite hi64_spec, lo64_spec.
    unfold digit in Dcf. rewrite Z.div_small, Z.mod_small by lia. cbn [Z.eqb].
    destruct (add2c_spec (mp_as p) (skipn n acc) [cf] Hap (wf_skipn n acc Wa) (wf_single cf Dcf))
      as (hi & fc & E2 & Whi & Lhi & Bfc & Ev2).
    { rewrite skipn_length. cbn [length]. lia. }
    rewrite E2. cbn [bind].
    rewrite val_single, skipn_length in Ev2. rewrite Ln in Ev. fold n in Ev.
    assert (Hlen : lenZ acc = Z.of_nat n + Z.of_nat (length acc - n)) by (unfold lenZ; lia).
    rewrite Hlen, Z.pow_add_r in Hlt by lia.
    pose proof (B_pow_nat n) as HP. pose proof (B_pow_nat (length acc - n)) as HQ.
    pose proof (val_nonneg lo Wlo). pose proof (val_nonneg hi Whi).
    assert (fc = 0) as ->.
    { destruct Bfc as [->| ->]; auto. exfalso.
      set (P := B ^ Z.of_nat n) in *. set (Q := B ^ Z.of_nat (length acc - n)) in *. nia. }
    cbn [Z.eqb assert_ bind]. eexists; split; [reflexivity|].
    split; [apply wf_app; auto|]. split.
    + rewrite app_length, Llo, Ln, Lhi, skipn_length. lia.
    + rewrite val_app, Llo, Ln. fold n.
      set (P := B ^ Z.of_nat n) in *. nia.
Qed.

(** * Long multiplication *)
Lemma long_mul_spec p y : mul_ok p = true -> wf y -> forall x acc, wf x -> wf acc ->
  (length x + length y <= length acc)%nat ->
  val acc + val x * val y < B ^ lenZ acc ->
  exists acc', long_mul p acc x y = Ret acc' /\ adds acc acc' (val x * val y).
Proof.
  intros Hp Wy. induction x as [|xi x IH]; intros acc Wx Wa Hl Hlt.
  - cbn [long_mul]. exists acc; split; auto. rewrite val_nil, Z.mul_0_l. apply adds_refl; auto.
  - apply wf_cons in Wx as [Hxi Wx]. cbn [long_mul]. rewrite val_cons in *.
    pose proof (val_nonneg x Wx) as Hx0. pose proof (val_nonneg y Wy) as Hy0.
    pose proof B_pos as HB. unfold digit in Hxi.
    destruct (mac_digit_spec p acc y xi Hp Wa Wy Hxi) as (a1 & E1 & W1 & L1 & V1).
    { intros _. cbn [length] in Hl. lia. }
    { nia. }
    rewrite E1. cbn [bind].
    destruct x as [|x2 x'].
    + exists a1; split; auto. rewrite val_nil. repeat split; auto. lia.
    + destruct a1 as [|d rest]; [cbn [length] in *; lia|].
      apply wf_cons in W1 as [Hd Wr]. unfold digit in Hd.
      destruct (IH rest Wx Wr) as (r & E & Wr' & Lr & Vr).
      { cbn [length] in *. lia. }
      { rewrite val_cons in V1.
        assert (Hlen : lenZ acc = 1 + lenZ rest) by (unfold lenZ; cbn [length] in *; lia).
        rewrite Hlen, Z.pow_add_r, Z.pow_1_r in Hlt by (unfold lenZ; lia).
        set (Q := B ^ lenZ rest) in *. nia. }
      rewrite E. cbn [bind]. eexists; split; [reflexivity|].
      split; [apply wf_cons; auto|]. split; [cbn [length] in *; lia|].
      rewrite (val_cons d r), Vr. rewrite (val_cons d rest) in V1.
      set (X := val (x2 :: x')) in *. nia.
Qed.

(** * Low-zero stripping *)
Lemma low_zeros_spec l : wf l ->
  match low_zeros l with
  | None => val l = 0
  | Some n => (n <= length l)%nat /\ val l = B ^ Z.of_nat n * val (skipn n l)
  end.
Proof.
  induction l as [|d r IH]; intros Wl.
  - cbn. split; [auto|lia].
  - apply wf_cons in Wl as [Hd Wr]. cbn [low_zeros]. destruct (Z.eqb_spec d 0) as [->|Hd0].
    + destruct r as [|d2 r'].
      * cbn; lia.
      * specialize (IH Wr). destruct (low_zeros (d2 :: r')) as [n|]; cbn [option_map].
        -- destruct IH as [Hn Hv]. split; [cbn [length] in *; lia|].
           rewrite B_pow_S. cbn [skipn]. rewrite val_cons, Hv. ring.
        -- rewrite val_cons, IH. lia.
    + split; [lia|]. cbn [skipn Z.of_nat]. rewrite Z.pow_0_r. lia.
Qed.

Lemma room_skipn_l n acc b c : wf acc -> wf b -> wf c -> (n <= length b)%nat ->
  val b = B ^ Z.of_nat n * val (skipn n b) -> room acc b c ->
  room (skipn n acc) (skipn n b) c.
Proof.
  intros Wa Wb Wc Hn Hv Hr. unfold room in *.
  apply fits_skipn; auto.
  - pose proof (lenZ_nonneg (skipn n b)); pose proof (lenZ_nonneg c); lia.
  - pose proof (val_nonneg _ (wf_skipn n b Wb)). pose proof (val_nonneg c Wc). nia.
  - rewrite Hv in Hr. rewrite lenZ_skipn by auto.
    replace (Z.of_nat n + (lenZ b - Z.of_nat n + lenZ c)) with (lenZ b + lenZ c) by lia.
    replace (B ^ Z.of_nat n * (val (skipn n b) * val c)) with (B ^ Z.of_nat n * val (skipn n b) * val c) by ring.
    exact Hr.
Qed.

(** the stripped call: a body that is correct under [room] makes [mac3_strip] correct *)
Lemma mac3_strip_spec body acc b c : wf acc -> wf b -> wf c -> room acc b c ->
  (forall acc' b' c', wf acc' -> wf b' -> wf c' ->
     (length b' + length c' <= length b + length c)%nat -> room acc' b' c' ->
     exists r, body acc' b' c' = Ret r /\ adds acc' r (val b' * val c')) ->
  exists r, mac3_strip body acc b c = Ret r /\ adds acc r (val b * val c).
Proof.
  intros Wa Wb Wc Hr Hbody. unfold mac3_strip.
  pose proof (low_zeros_spec b Wb) as Hb. destruct (low_zeros b) as [nb|].
  2:{ exists acc; split; auto. rewrite Hb, Z.mul_0_l. apply adds_refl; auto. }
  destruct Hb as [Hnb Hvb].
  pose proof (room_len acc b c Wa Wb Wc Hr) as Hlen.
  assert (Hr1 : room (skipn nb acc) (skipn nb b) c) by (apply room_skipn_l; auto).
  set (acc1 := skipn nb acc) in *. set (b1 := skipn nb b) in *.
  assert (Wa1 : wf acc1) by (apply wf_skipn; auto).
  assert (Wb1 : wf b1) by (apply wf_skipn; auto).
  assert (Hinner : exists t, (match low_zeros c with
                    | None => Ret acc1
                    | Some nc => on_slice nc 206 acc1 (fun acc2 => body acc2 b1 (skipn nc c))
                    end) = Ret t /\ adds acc1 t (val b1 * val c)).
  { pose proof (low_zeros_spec c Wc) as Hc. destruct (low_zeros c) as [nc|].
    2:{ exists acc1; split; auto. rewrite Hc, Z.mul_0_r. apply adds_refl; auto. }
    destruct Hc as [Hnc Hvc].
    pose proof (room_len acc1 b1 c Wa1 Wb1 Wc Hr1) as Hlen1.
    assert (Hr2 : room (skipn nc acc1) (skipn nc c) b1).
    { apply room_skipn_l; auto. apply room_sym; auto. }
    apply room_sym in Hr2.
    destruct (Hbody (skipn nc acc1) b1 (skipn nc c)) as (r & Er & Hr3); auto using wf_skipn.
    { unfold b1. rewrite !skipn_length. lia. }
    destruct (on_slice_adds nc 206 acc1 (fun acc2 => body acc2 b1 (skipn nc c)) _ r Wa1 ltac:(lia) Er Hr3)
      as (t & Et & Ht).
    exists t; split; auto. destruct Ht as (W & L & V). repeat split; auto.
    rewrite V, Hvc. ring. }
  destruct Hinner as (t & Et & Ht).
  destruct (on_slice_adds nb 205 acc
              (fun a1 => match low_zeros c with
                         | None => Ret a1
                         | Some nc => on_slice nc 206 a1 (fun acc2 => body acc2 b1 (skipn nc c))
                         end) _ t Wa ltac:(lia) Et Ht) as (r & Er & Hr4).
  exists r; split; auto. destruct Hr4 as (W & L & V). repeat split; auto.
  rewrite V, Hvb. unfold b1. ring.
Qed.

(** * sub_sign *)
Lemma length_enc_bound n k : 0 <= n < B ^ k -> 0 <= k -> lenZ (enc n) <= k.
Proof.
  intros Hn Hk. rewrite <- (enc_of_canon (enc n) (enc_canon n)).
  rewrite enc_strip by apply enc_wf. apply strip_len_bound; auto using enc_wf.
  rewrite enc_val; lia.
Qed.

Theorem sub_sign_spec ap a b : addsub_ok ap = true -> wf a -> wf b ->
  sub_sign ap a b = Ret (z_sign (val a - val b), enc (Z.abs (val a - val b))).
Proof.
  intros Hp Wa Wb. unfold sub_sign.
  pose proof (canon_strip a Wa) as Ca. pose proof (canon_strip b Wb) as Cb.
  rewrite cmp_slice_spec by auto. cbn [bind]. rewrite !val_strip.
  destruct (Z.compare_spec (val a) (val b)) as [E|Hlt|Hgt].
  - rewrite E, Z.sub_diag. reflexivity.
  - destruct (sub2_spec ap (strip b) (strip a) Hp (proj1 Cb) (proj1 Ca)) as [Hs _].
    destruct Hs as (r & Er & Wr & Lr & Vr); [rewrite !val_strip; lia|].
    rewrite Er. cbn [bind]. rewrite !val_strip in Vr.
    rewrite <- enc_strip by auto. rewrite Vr.
    replace (Z.abs (val a - val b)) with (val b - val a) by lia.
    destruct (val a - val b) eqn:E; try lia. reflexivity.
  - destruct (sub2_spec ap (strip a) (strip b) Hp (proj1 Ca) (proj1 Cb)) as [Hs _].
    destruct Hs as (r & Er & Wr & Lr & Vr); [rewrite !val_strip; lia|].
    rewrite Er. cbn [bind]. rewrite !val_strip in Vr.
    rewrite <- enc_strip by auto. rewrite Vr.
    replace (Z.abs (val a - val b)) with (val a - val b) by lia.
    destruct (val a - val b) eqn:E; try lia. reflexivity.
Qed.
