(* C12 — exponentiation is exact for every exponent type.
   Statements only; proofs live in proofs/PowProofs.v (generic in the source-extracted
   parameters under pow_ok, instantiated at Extracted.pgr_pow by inst/InstPgr.v).
   The model is parameterised by the big multiplication it calls; every theorem here is about the
   REAL one, [pgr_bmul] = Mul.umul Extracted.mul (proofs/PgrInst.v; exact on canonical operands
   by MulProofs5.umul_spec, property C02: [pgr_bmul_exact]).  No hypothesis other than
   canonicity and the exponent range is left. *)
From BigNum Require Import Base BaseLemmas PgrLoop PgrLoopProofs Pow SpecPow PowProofs Mul PgrInst
  Extracted InstPgr.
Local Notation Hm := pgr_bmul_exact.

(* what the theorems below are about: the real multiplication model at the extracted parameters *)
Theorem C12_real_mul : pgr_bmul = Mul.umul Extracted.mul.
Proof. reflexivity. Qed.
Print Assumptions C12_real_mul.
Open Scope Z_scope.

(* `Pow<T> for BigUint`, T in u8, u16, u32, u64, usize, u128 (exponent value e < 2^128 covers
   every primitive type), by value; includes 0^0 = 1 since Z's 0^0 = 1. *)
Theorem C12_upow : forall x e, canon x -> 0 <= e < 2 ^ 128 ->
  upow_prim pgr_bmul pgr_pow x e = Ret (enc (val x ^ e)).
Proof. intros x e Cx He. apply upow_prim_spec; auto using pow_params_ok, Hm. Qed.
Print Assumptions C12_upow.

(* `Pow<T> for &BigUint`, `Pow<&T> for &BigUint`, `BigUint::pow(&self, u32)` *)
Theorem C12_upow_ref : forall x e, canon x -> 0 <= e < 2 ^ 128 ->
  upow_prim_ref pgr_bmul pgr_pow x e = Ret (enc (val x ^ e)).
Proof. intros x e Cx He. apply upow_prim_ref_spec; auto using pow_params_ok, Hm. Qed.
Print Assumptions C12_upow_ref.

Theorem C12_zero_zero :
  upow_prim pgr_bmul pgr_pow [] 0 = Ret [1] /\ upow_prim_ref pgr_bmul pgr_pow [] 0 = Ret [1].
Proof.
  split.
  - rewrite C12_upow by (auto using canon_nil; lia). rewrite Z.pow_0_r. try rewrite enc_1; reflexivity.
  - rewrite C12_upow_ref by (auto using canon_nil; lia). rewrite Z.pow_0_r. try rewrite enc_1; reflexivity.
Qed.
Print Assumptions C12_zero_zero.

(* the executable spec used by the driver is x^e *)
Theorem C12_spec_is_pow : forall x e, 0 <= e -> spec_upow x e = Ret (x ^ e).
Proof. intros. unfold spec_upow. now rewrite zpow_safe_eq. Qed.
Print Assumptions C12_spec_is_pow.

(* BigInt: value (ival x)^e, hence negative exactly when x < 0 and e is odd *)
Theorem C12_ipow : forall x e, icanon x -> 0 <= e < 2 ^ 128 ->
  ipow_prim pgr_bmul pgr_pow x e = Ret (ienc (ival x ^ e)) /\
  ipow_prim_ref pgr_bmul pgr_pow x e = Ret (ienc (ival x ^ e)).
Proof.
  intros x e Cx He. split.
  - apply ipow_prim_spec; auto using pow_params_ok, Hm.
  - apply ipow_prim_ref_spec; auto using pow_params_ok, Hm.
Qed.
Print Assumptions C12_ipow.

Theorem C12_ipow_sign : forall x e, 0 <= e ->
  (x ^ e < 0 <-> x < 0 /\ Z.odd e = true).
Proof.
  intros x e He. split.
  - intros Hneg. destruct (Z.odd e) eqn:Od.
    + split; [|reflexivity]. destruct (Z.ltb_spec x 0); [auto|].
      pose proof (Z.pow_nonneg x e ltac:(lia)). lia.
    + assert (Ev : Z.even e = true) by (rewrite <- Z.negb_odd, Od; reflexivity).
      apply Z.even_spec in Ev. destruct Ev as [k ->].
      rewrite Z.pow_mul_r in Hneg by lia. rewrite Z.pow_2_r in Hneg.
      pose proof (Z.pow_nonneg (x * x) k ltac:(nia)). lia.
  - intros [Hx Od]. apply Z.odd_spec in Od. destruct Od as [k ->].
    replace x with (- (- x)) by lia. rewrite Z.pow_opp_odd by (exists k; reflexivity).
    pose proof (Z.pow_pos_nonneg (- x) (2 * k + 1) ltac:(lia) ltac:(lia)). lia.
Qed.
Print Assumptions C12_ipow_sign.

(* BigUint exponent: x^e, or the "memory overflow" panic exactly when the base is >= 2 and the
   exponent does not fit in u128 (base 0 / 1 and exponent 0 never panic). *)
Theorem C12_big_exp : forall x e, canon x -> canon e ->
  upow_big pgr_bmul pgr_pow x e = omap enc (spec_upow_big (val x) (val e)) /\
  upow_big_ref pgr_bmul pgr_pow x e = omap enc (spec_upow_big (val x) (val e)).
Proof.
  intros x e Cx Ce.
  pose proof (val_nonneg x (proj1 Cx)). pose proof (val_nonneg e (proj1 Ce)).
  unfold spec_upow_big. rewrite Z.abs_eq, zpow_safe_eq by lia. split.
  - rewrite upow_big_spec by auto using pow_params_ok, Hm.
    destruct ((2 <=? val x) && (BB <=? val e)); reflexivity.
  - rewrite upow_big_ref_spec by auto using pow_params_ok, Hm.
    destruct ((2 <=? val x) && (BB <=? val e)); reflexivity.
Qed.
Print Assumptions C12_big_exp.

Theorem C12_big_exp_panic_iff : forall x e, canon x -> canon e ->
  (upow_big pgr_bmul pgr_pow x e = Panic MemOverflow <-> 2 <= val x /\ 2 ^ 128 <= val e) /\
  (~ (2 <= val x /\ 2 ^ 128 <= val e) -> upow_big pgr_bmul pgr_pow x e = Ret (enc (val x ^ val e))).
Proof.
  intros x e Cx Ce. rewrite upow_big_spec by auto using pow_params_ok, Hm.
  assert (HB : BB = 2 ^ 128) by (rewrite BB_val, B_val; reflexivity). rewrite HB.
  destruct (Z.leb_spec 2 (val x)); destruct (Z.leb_spec (2 ^ 128) (val e)); cbn [andb];
    (split; [split; [intros; try discriminate; lia | intros; try reflexivity; lia] | intros; try reflexivity; lia]).
Qed.
Print Assumptions C12_big_exp_panic_iff.

Theorem C12_ipow_big : forall x e, icanon x -> canon e ->
  ipow_big pgr_bmul pgr_pow x e = omap ienc (spec_ipow_big (ival x) (val e)) /\
  ipow_big_ref pgr_bmul pgr_pow x e = omap ienc (spec_ipow_big (ival x) (val e)).
Proof.
  intros x e Cx Ce. pose proof (val_nonneg e (proj1 Ce)).
  unfold spec_ipow_big, spec_upow_big. rewrite zpow_safe_eq by lia. split.
  - rewrite ipow_big_spec by auto using pow_params_ok, Hm.
    destruct ((2 <=? Z.abs (ival x)) && (BB <=? val e)); reflexivity.
  - rewrite ipow_big_ref_spec by auto using pow_params_ok, Hm.
    destruct ((2 <=? Z.abs (ival x)) && (BB <=? val e)); reflexivity.
Qed.
Print Assumptions C12_ipow_big.

(* Non-vacuity: the hypotheses are satisfiable and the loop runs (with the real multiplication)
   through strip / exit / accumulate phases on a multi-digit base: (2^64+1)^6, (-3)^5. *)
Example C12_nonvacuous :
  canonb [1; 1] = true /\
  upow_prim pgr_bmul pgr_pow [1; 1] 6 = Ret [1; 6; 15; 20; 15; 6; 1] /\
  ipow_prim pgr_bmul pgr_pow (mkint Minus [3]) 5 = Ret (mkint Minus [243]) /\
  upow_big pgr_bmul pgr_pow [2] [0; 0; 1] = Panic MemOverflow.
Proof. repeat split; vm_compute; reflexivity. Qed.
