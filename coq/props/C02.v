(* C02 — multiplication is exact in every algorithm regime (placeholder until the proofs land). *)
From BigNum Require Import Base BaseLemmas AddSub Mul SpecMul Extracted.
Open Scope Z_scope.

Example C02_nonvacuous :
  canonb [B - 1; B - 1; 7] = true /\ canonb [B - 1; 3] = true /\
  umul mul [B - 1; B - 1; 7] [B - 1; 3] = Ret (enc (val [B - 1; B - 1; 7] * val [B - 1; 3])).
Proof. split; [|split]; vm_compute; reflexivity. Qed.
