(* C02 — multiplication is exact in every algorithm regime and at every size boundary.
   Statements only; proofs live in proofs/MulProofs*.v (generic in the source-extracted
   parameters under [mul_ok]) and are instantiated at the parameters extracted from /repo's
   current source.  All statements are FULL (no `_partial`): every regime — long
   multiplication, half-Karatsuba, Karatsuba with its three sign arms, Toom-3 with Bodrato
   interpolation — for operands of any length; `= Ret ...` includes: no internal assertion, no
   index out of range, no u128 overflow, the fuel suffices, the result is normalised. *)
From BigNum Require Import Base BaseLemmas X86 AddSub AddSubProofs Mul SpecMul
  MulProofs MulProofs3 MulProofs5 Extracted InstMul.
Open Scope Z_scope.

(** `&a * &b`, `a * b`, ... (impl_mul!) *)
Theorem C02_umul : forall a b, canon a -> canon b ->
  umul mul a b = omap enc (spec_umul (val a) (val b)).
Proof. intros; apply umul_spec; auto using mul_params_ok. Qed.
Print Assumptions C02_umul.

(** `a *= &b` (impl_mul_assign!) *)
Theorem C02_umul_assign : forall a b, canon a -> canon b ->
  umul_assign mul a b = omap enc (spec_umul (val a) (val b)).
Proof. intros; apply umul_assign_spec; auto using mul_params_ok. Qed.
Print Assumptions C02_umul_assign.

Theorem C02_uchecked_mul : forall a b, canon a -> canon b ->
  uchecked_mul mul a b = omap (option_map enc) (spec_uchecked_mul (val a) (val b)).
Proof. intros; apply uchecked_mul_spec; auto using mul_params_ok. Qed.
Print Assumptions C02_uchecked_mul.

(** `a * s` for s : u32 / u64 (zero, one, power-of-two shift, carry loop) *)
Theorem C02_umul_digit : forall a s, canon a -> 0 <= s < B ->
  umul_digit a s = omap enc (spec_umul (val a) s).
Proof. intros; apply umul_digit_spec; auto. Qed.
Print Assumptions C02_umul_digit.

(** `a * s` for s : u128 *)
Theorem C02_umul_u128 : forall a s, canon a -> 0 <= s < B * B ->
  umul_u128 mul a s = omap enc (spec_umul (val a) s).
Proof. intros; apply umul_u128_spec; auto using mul_params_ok. Qed.
Print Assumptions C02_umul_u128.

(** BigInt: all sign combinations, zero is NoSign *)
Theorem C02_imul : forall x y, icanon x -> icanon y ->
  imul mul x y = omap ienc (spec_imul (ival x) (ival y)).
Proof. intros; apply imul_spec; auto using mul_params_ok. Qed.
Print Assumptions C02_imul.

Theorem C02_imul_assign : forall x y, icanon x -> icanon y ->
  imul_assign mul x y = omap ienc (spec_imul (ival x) (ival y)).
Proof. intros; apply imul_assign_spec; auto using mul_params_ok. Qed.
Print Assumptions C02_imul_assign.

Theorem C02_ichecked_mul : forall x y, icanon x -> icanon y ->
  ichecked_mul mul x y = omap (option_map ienc) (spec_ichecked_mul (ival x) (ival y)).
Proof. intros; apply ichecked_mul_spec; auto using mul_params_ok. Qed.
Print Assumptions C02_ichecked_mul.

(** `x * s` for unsigned scalars (wide = u128) and signed scalars (wide = i128) *)
Theorem C02_imul_uscalar : forall (wide : bool) x s, icanon x ->
  0 <= s < (if wide then B * B else B) ->
  imul_uscalar mul wide x s = omap ienc (spec_imul (ival x) s).
Proof. intros; apply imul_uscalar_spec; auto using mul_params_ok. Qed.
Print Assumptions C02_imul_uscalar.

Theorem C02_imul_iscalar : forall (wide : bool) x s, icanon x ->
  - (if wide then B * B else B) < s < (if wide then B * B else B) ->
  imul_iscalar mul wide x s = omap ienc (spec_imul (ival x) s).
Proof. intros; apply imul_iscalar_spec; auto using mul_params_ok. Qed.
Print Assumptions C02_imul_iscalar.

(** Internal contract (hook level): `mac3(acc, b, c)` adds b*c in place for ANY digit slices
    (high / low zero digits allowed) whenever the buffer has room
    [val acc + val b * val c + B^(|b|+|c|) <= B^|acc|]; `mul3` for any slices. *)
Theorem C02_mac3 : forall acc b c, wf acc -> wf b -> wf c -> room acc b c ->
  exists acc', mac3 (fuel3 b c) mul acc b c = Ret acc' /\
               wf acc' /\ length acc' = length acc /\ val acc' = val acc + val b * val c.
Proof. intros; apply mac3_spec; auto using mul_params_ok. Qed.
Print Assumptions C02_mac3.

Theorem C02_mul3 : forall x y, wf x -> wf y -> mul3 mul x y = Ret (enc (val x * val y)).
Proof. intros; apply mul3_spec; auto using mul_params_ok. Qed.
Print Assumptions C02_mul3.

Theorem C02_scalar_mul : forall a s, canon a -> 0 <= s < B -> scalar_mul a s = Ret (enc (val a * s)).
Proof. intros; apply scalar_mul_spec; auto. Qed.
Print Assumptions C02_scalar_mul.

(* Non-vacuity: canonical multi-digit operands exist; the product below runs through the
   Karatsuba regime (40 x 40 digits) and is exact. *)
Example C02_nonvacuous :
  canonb (repeat (B - 1) 40) = true /\
  umul mul (repeat (B - 1) 40) (repeat (B - 1) 40) = Ret (enc ((B ^ 40 - 1) * (B ^ 40 - 1))) /\
  room (zeros 5) [B - 1; B - 1] [B - 1; 7].
Proof.
  split; [vm_compute; reflexivity|]. split; [vm_compute; reflexivity|].
  unfold room, fits. vm_compute. discriminate.
Qed.
