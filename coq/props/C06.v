(* C06 — text and radix conversions are exact, canonical and mutually inverse.
   Statements only; proofs live in proofs/RadixProofs{,2,3}.v, proofs/RadixTextProofs.v (generic
   in the source-extracted parameters and in the kernels of the other areas) and
   proofs/RadixInst.v (kernels discharged with the theorems of `mul`, `div`, `bytes`).

   Every theorem is about the entry points of model/RadixApi.v at the parameters extracted from
   /repo's current source ([radix]).  Text is a list of bytes.

   The output-side theorems (to_radix_*, to_str_radix, the formatters, the round trips) go through
   `&BigUint * &BigUint` for operands of >= 64 digits (big-base path); its specification is
   MulProofs5.umul_spec (property C02), applied through [small_or_umul_holds] (proofs/RadixInst.v).
   No premise other than canonicity and the documented radix range is left. *)
From BigNum Require Import Base BaseLemmas AddSub Mul MulProofs Div SpecBytes BytesLemmas
  Radix RadixText RadixKernels RadixApi SpecRadix
  RadixProofs RadixProofs2 RadixProofs3 RadixTextProofs RadixInst Extracted InstRadix.
Open Scope Z_scope.

(** ** the per-radix tables: base = radix^power <= u64::MAX < radix^(power+1) *)
Theorem C06_radix_bases_ok : forall r, 3 <= r < 256 -> rpow2 r = false ->
  exists base power, get_radix_base radix r = Ret (base, power) /\
    base = r ^ power /\ 1 <= power /\ 0 < base < B /\ B <= base * r.
Proof. intros. apply get_radix_base_spec; auto using radix_params_std. Qed.
Print Assumptions C06_radix_bases_ok.

(** ** digit vectors → integer: every digit below the radix ⇒ Σ dᵢ rⁱ (canonical); a digit
    >= radix ⇒ None; empty ⇒ zero; radix outside 2..=256 ⇒ panic *)
Theorem C06_from_radix_le : forall buf r, bytes buf ->
  u_from_radix_le radix buf r = omap (option_map enc) (spec_from_radix_le buf r).
Proof. intros. apply inst_from_radix_le; auto using radix_params_std. Qed.
Print Assumptions C06_from_radix_le.
Theorem C06_from_radix_be : forall buf r, bytes buf ->
  u_from_radix_be radix buf r = omap (option_map enc) (spec_from_radix_be buf r).
Proof. intros. apply inst_from_radix_be; auto using radix_params_std. Qed.
Print Assumptions C06_from_radix_be.
Theorem C06_ifrom_radix_le : forall s buf r, bytes buf ->
  i_from_radix_le radix s buf r = omap (option_map ienc) (spec_ifrom_radix_le s buf r).
Proof. intros. apply inst_ifrom_radix_le; auto using radix_params_std. Qed.
Print Assumptions C06_ifrom_radix_le.
Theorem C06_ifrom_radix_be : forall s buf r, bytes buf ->
  i_from_radix_be radix s buf r = omap (option_map ienc) (spec_ifrom_radix_be s buf r).
Proof. intros. apply inst_ifrom_radix_be; auto using radix_params_std. Qed.
Print Assumptions C06_ifrom_radix_be.

(** ** text → integer: accepted language [sign]? d (d|'_')*, denoted value, error kind;
    radix outside 2..=36 ⇒ panic.  (All byte strings, not only valid UTF-8.) *)
Theorem C06_from_str_radix : forall s r,
  u_from_str_radix radix s r = omap (pr_map enc) (spec_from_str false s r).
Proof. intros. apply inst_from_str_radix; auto using radix_params_std. Qed.
Print Assumptions C06_from_str_radix.
Theorem C06_ifrom_str_radix : forall s r,
  i_from_str_radix radix s r = omap (pr_map ienc) (spec_from_str true s r).
Proof. intros. apply inst_ifrom_str_radix; auto using radix_params_std. Qed.
Print Assumptions C06_ifrom_str_radix.
Theorem C06_from_str : forall s,
  u_from_str radix s = omap (pr_map enc) (spec_from_str false s 10) /\
  i_from_str radix s = omap (pr_map ienc) (spec_from_str true s 10).
Proof. intros; split; [apply C06_from_str_radix|apply C06_ifrom_str_radix]. Qed.
Print Assumptions C06_from_str.
Theorem C06_parse_bytes : forall buf r,
  u_parse_bytes radix buf r = omap (option_map enc) (spec_parse_bytes false buf r) /\
  i_parse_bytes radix buf r = omap (option_map ienc) (spec_parse_bytes true buf r).
Proof.
  intros; split; [apply inst_parse_bytes|apply inst_iparse_bytes]; auto using radix_params_std.
Qed.
Print Assumptions C06_parse_bytes.

(** ** integer → digit vectors: the unique little-endian expansion without a high zero
    ([0] for zero), radix 2..=256 (all power-of-two widths included) *)
Theorem C06_to_radix_le : forall u r, 2 <= r <= 256 -> canon u ->
  u_to_radix_le radix u r = Ret (spec_to_radix_le (val u) r).
Proof. intros. apply inst_to_radix_le; auto using radix_params_std, small_or_umul_holds. Qed.
Print Assumptions C06_to_radix_le.
Theorem C06_to_radix_be : forall u r, 2 <= r <= 256 -> canon u ->
  u_to_radix_be radix u r = Ret (spec_to_radix_be (val u) r).
Proof. intros. apply inst_to_radix_be; auto using radix_params_std, small_or_umul_holds. Qed.
Print Assumptions C06_to_radix_be.
Theorem C06_ito_radix_le : forall x r, 2 <= r <= 256 -> icanon x ->
  i_to_radix_le radix x r = Ret (sg x, spec_to_radix_le (val (mag x)) r).
Proof.
  intros x r Hr Cx. unfold i_to_radix_le, ito_radix_le.
  change (to_radix_le (k_mul radix) (k_divrem radix) (k_divdig radix) (k_to_bits radix) (k_to_inexact radix) radix (mag x) r)
    with (u_to_radix_le radix (mag x) r).
  rewrite C06_to_radix_le by (auto; apply Cx). reflexivity.
Qed.
Print Assumptions C06_ito_radix_le.

(** ** integer → text: '-' for negatives, no leading zeros, lower-case digits, radix 2..=36;
    outside ⇒ panic *)
Theorem C06_to_str : forall u r, canon u ->
  u_to_str_radix radix u r = spec_to_str (val u) r.
Proof. intros. apply inst_to_str_radix; auto using radix_params_std, small_or_umul_holds. Qed.
Print Assumptions C06_to_str.
Theorem C06_ito_str : forall x r, icanon x ->
  i_to_str_radix radix x r = spec_to_str (ival x) r.
Proof. intros. apply inst_ito_str_radix; auto using radix_params_std, small_or_umul_holds. Qed.
Print Assumptions C06_ito_str.

(** every emitted byte is in '0'..'9' ∪ 'a'..'z' ∪ {'-'} (the `from_utf8_unchecked` clause of C15) *)
Theorem C06_to_str_ascii_spec : forall z r s, spec_to_str z r = Ret s -> Forall ascii_out s.
Proof. exact to_str_ascii. Qed.
Print Assumptions C06_to_str_ascii_spec.
Theorem C06_to_str_ascii : forall x r s, icanon x ->
  i_to_str_radix radix x r = Ret s -> Forall ascii_out s.
Proof. intros x r s Cx E. rewrite C06_ito_str in E by auto. eapply to_str_ascii; eauto. Qed.
Print Assumptions C06_to_str_ascii.

(** ** the five formatters = pad_integral (std, modelled) applied to the positional text of |z| *)
Theorem C06_fmt_u : forall k fl u, canon u ->
  u_fmt radix k fl u = spec_fmt k fl (val u).
Proof. intros. apply inst_fmt_u; auto using radix_params_std, small_or_umul_holds. Qed.
Print Assumptions C06_fmt_u.
Theorem C06_fmt_i : forall k fl x, icanon x ->
  i_fmt radix k fl x = spec_fmt k fl (ival x).
Proof. intros. apply inst_fmt_i; auto using radix_params_std, small_or_umul_holds. Qed.
Print Assumptions C06_fmt_i.

(** ** parsing any emitted text / digit vector returns the original value *)
Theorem C06_str_roundtrip_spec : forall signed z r s, 2 <= r <= 36 -> (signed = true \/ 0 <= z) ->
  spec_to_str z r = Ret s -> spec_from_str signed s r = Ret (POk z).
Proof. exact spec_str_roundtrip. Qed.
Print Assumptions C06_str_roundtrip_spec.
Theorem C06_roundtrip : forall u r, 2 <= r <= 36 -> canon u ->
  (do s <- u_to_str_radix radix u r; u_from_str_radix radix s r) = Ret (POk u).
Proof. intros. apply inst_rt_str; auto using radix_params_std, small_or_umul_holds. Qed.
Print Assumptions C06_roundtrip.
Theorem C06_iroundtrip : forall x r, 2 <= r <= 36 -> icanon x ->
  (do s <- i_to_str_radix radix x r; i_from_str_radix radix s r) = Ret (POk x).
Proof. intros. apply inst_irt_str; auto using radix_params_std, small_or_umul_holds. Qed.
Print Assumptions C06_iroundtrip.
Theorem C06_radix_roundtrip : forall u r, 2 <= r <= 256 -> canon u ->
  (do d <- u_to_radix_le radix u r; u_from_radix_le radix d r) = Ret (Some u) /\
  (do d <- u_to_radix_be radix u r; u_from_radix_be radix d r) = Ret (Some u).
Proof.
  intros; split; [apply inst_rt_radix_le|apply inst_rt_radix_be]; auto using radix_params_std, small_or_umul_holds.
Qed.
Print Assumptions C06_radix_roundtrip.

(** ** internal routines (hook level) *)
Theorem C06_from_radix_digits_be : forall v r, 3 <= r < 256 -> rpow2 r = false -> v <> [] -> inb r v ->
  u_from_radix_digits_be radix v r = Ret (enc (be_value r v)).
Proof. intros. apply inst_from_radix_digits_be; auto using radix_params_std. Qed.
Print Assumptions C06_from_radix_digits_be.
Theorem C06_to_radix_digits_le : forall u r, 3 <= r < 256 -> rpow2 r = false ->
  canon u -> u <> [] -> u_to_radix_digits_le radix u r = Ret (le_digits r (val u)).
Proof. intros. apply inst_to_radix_digits_le; auto using radix_params_std, small_or_umul_holds. Qed.
Print Assumptions C06_to_radix_digits_le.

(* Non-vacuity: canonical multi-digit values, a non-power-of-two radix, an inexact power of two,
   a sign, an underscore; the hypotheses of the theorems above are satisfiable. *)
Example C06_nonvacuous :
  canonb [1; 2] = true /\
  u_to_str_radix radix [1; 2] 10 = Ret [51; 54; 56; 57; 51; 52; 56; 56; 49; 52; 55; 52; 49; 57; 49; 48; 51; 50; 51; 51] /\
  i_from_str_radix radix [45; 51; 54; 56; 57; 51; 52; 56; 56; 49; 52; 55; 52; 49; 57; 49; 48; 51; 50; 51; 95; 51] 10
    = Ret (POk (mkint Minus [1; 2])) /\
  u_to_radix_le radix [255] 8 = Ret [7; 7; 3] /\
  u_from_radix_be radix [3; 7; 7] 8 = Ret (Some [255]) /\
  u_from_str_radix radix [43; 95; 49] 10 = Ret (PErr PInvalid).
Proof. repeat split; vm_compute; reflexivity. Qed.

(* ---- added by the API audit (docs/API_COVERAGE.md): `{:?}` is `{}` with the same Formatter, for
   every flag / width / fill / alignment; the parsers' error value carries exactly the kind the
   specification assigns to the text (for ALL byte strings and radices), and the two messages differ. *)
From BigNum Require Import ExtraText ExtraTextProofs.
Theorem C06_fmt_debug_u : forall fl u, canon u ->
  u_fmt_debug radix fl u = spec_fmt FDisplay fl (val u).
Proof. exact u_fmt_debug_spec. Qed.
Print Assumptions C06_fmt_debug_u.
Theorem C06_fmt_debug_i : forall fl x, icanon x ->
  i_fmt_debug radix fl x = spec_fmt FDisplay fl (ival x).
Proof. exact i_fmt_debug_spec. Qed.
Print Assumptions C06_fmt_debug_i.
Theorem C06_parse_error_value : forall s r,
  u_from_str_radix_err radix s r = omap (fun x => err_text_of x) (spec_from_str false s r) /\
  i_from_str_radix_err radix s r = omap (fun x => err_text_of x) (spec_from_str true s r) /\
  parse_err_text PEmpty <> parse_err_text PInvalid.
Proof.
  intros; split; [apply u_from_str_radix_err_spec|split; [apply i_from_str_radix_err_spec|]].
  intros E. apply parse_err_text_inj in E. discriminate.
Qed.
Print Assumptions C06_parse_error_value.

(* BigInt::to_radix_be (the big-endian twin of C06_ito_radix_le had no theorem) *)
Theorem C06_ito_radix_be : forall x r, 2 <= r <= 256 -> icanon x ->
  i_to_radix_be radix x r = Ret (sg x, spec_to_radix_be (val (mag x)) r).
Proof.
  intros x r Hr Cx. unfold i_to_radix_be, ito_radix_be.
  change (to_radix_be (k_mul radix) (k_divrem radix) (k_divdig radix) (k_to_bits radix) (k_to_inexact radix) radix (mag x) r)
    with (u_to_radix_be radix (mag x) r).
  rewrite C06_to_radix_be by (auto; apply Cx). reflexivity.
Qed.
Print Assumptions C06_ito_radix_be.
