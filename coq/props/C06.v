(* C06 — text and radix conversions are exact, canonical and mutually inverse. *)
From BigNum Require Import Base BaseLemmas AddSub Radix RadixText RadixKernels RadixApi SpecRadix Extracted.
Open Scope Z_scope.

Example C06_nonvacuous :
  u_to_str_radix radix [255] 16 = Ret [102; 102].
Proof. vm_compute. reflexivity. Qed.
