(* C17 — the serialized form is the portable u32-digit format and round-trips exactly.
   Statements only; proofs live in proofs/SerdeProofs.v.  [le_digits (2^32) n] = the base-2^32
   digits of n, least significant first, without a high zero ([] for 0). *)
From BigNum Require Import Base BaseLemmas SpecBytes BytesLemmas Iter Bytes Serde SerdeProofs
  Extracted InstSerde.
Open Scope Z_scope.

(* The theorems are proved generically in the source-extracted decision points of the two
   serde.rs files and instantiated here at `Extracted.serde` (inst/InstSerde.v). *)
Local Notation SP := Extracted.serde.
Local Notation sok := serde_params_ok.

(** a BigUint serializes as exactly its base-2^32 digits with the exact declared length *)
Theorem C17_ser_biguint : forall x, canon x ->
  ser_biguint SP x = (Z.of_nat (length (le_digits (2 ^ 32) (val x))), le_digits (2 ^ 32) (val x)).
Proof. intros x; apply (ser_biguint_spec SP x sok). Qed.
Print Assumptions C17_ser_biguint.
Theorem C17_ser_declared_len : forall x, fst (ser_biguint SP x) = Z.of_nat (length (snd (ser_biguint SP x))).
Proof. intros x; apply (ser_biguint_declared_len SP x sok). Qed.
Print Assumptions C17_ser_declared_len.
Theorem C17_ser_no_trailing_zero : forall x, canon x ->
  snd (ser_biguint SP x) = [] \/ last (snd (ser_biguint SP x)) 0 <> 0.
Proof. intros x; apply (ser_biguint_no_trailing_zero SP x sok). Qed.
Print Assumptions C17_ser_no_trailing_zero.
Theorem C17_ser_zero : ser_biguint SP [] = (0, []).
Proof. reflexivity. Qed.
Print Assumptions C17_ser_zero.

(** a BigInt is the pair (sign as -1/0/1, that sequence) *)
Theorem C17_ser_bigint : forall x, icanon x ->
  ser_bigint SP x = (Z.sgn (ival x), spec_ser (Z.abs (ival x))).
Proof. intros x; apply (ser_bigint_spec SP x sok). Qed.
Print Assumptions C17_ser_bigint.

(** deserializing ANY element sequence under ANY size hint: elements that are not u32 are
    rejected; otherwise the canonical value Σ w_i 2^(32 i) — trailing zeros, odd lengths included *)
Theorem C17_de_biguint : forall hint w,
  de_biguint_tokens SP hint w =
  if forallb is_word w then Some (enc (le_value (2 ^ 32) w)) else None.
Proof.
  intros. rewrite de_biguint_tokens_spec by exact sok. unfold spec_de. destruct (forallb is_word w); reflexivity.
Qed.
Print Assumptions C17_de_biguint.
Theorem C17_de_biguint_value : forall w, inb (2 ^ 32) w -> de_biguint SP w = enc (le_value (2 ^ 32) w).
Proof. intros w; apply (de_biguint_spec SP w sok). Qed.
Print Assumptions C17_de_biguint_value.

(** (sign, sequence): sign values other than -1, 0, 1 are rejected; the value is sign * Σ,
    canonical (so (0, non-zero) and (+-1, zero) both give zero) *)
Theorem C17_de_bigint : forall v hint w,
  de_bigint SP v hint w =
  if (v =? -1) || (v =? 0) || (v =? 1) then
    if forallb is_word w then Some (ienc (v * le_value (2 ^ 32) w)) else None
  else None.
Proof.
  intros. rewrite de_bigint_spec by exact sok. unfold spec_ide, spec_de.
  destruct ((v =? -1) || (v =? 0) || (v =? 1)); [|reflexivity]. destruct (forallb is_word w); reflexivity.
Qed.
Print Assumptions C17_de_bigint.
Theorem C17_sign_rejected : forall v hint w, v <> -1 -> v <> 0 -> v <> 1 -> de_bigint SP v hint w = None.
Proof. intros v hint w; apply (de_bigint_rejects SP v hint w sok). Qed.
Print Assumptions C17_sign_rejected.
Theorem C17_sign_roundtrip : forall s, de_sign SP (ser_sign SP s) = Some s.
Proof. intros s; apply (de_sign_ser SP s sok). Qed.
Print Assumptions C17_sign_roundtrip.
Theorem C17_sign0_nonzero_is_zero : forall hint w, inb (2 ^ 32) w ->
  de_bigint SP 0 hint w = Some (mkint NoSign []).
Proof. intros hint w; apply (de_bigint_sign0 SP hint w sok). Qed.
Print Assumptions C17_sign0_nonzero_is_zero.
Theorem C17_signed_zero_is_zero : forall v hint w, v = 1 \/ v = -1 -> inb (2 ^ 32) w ->
  le_value (2 ^ 32) w = 0 -> de_bigint SP v hint w = Some (mkint NoSign []).
Proof. intros v hint w; apply (de_bigint_zero_mag SP v hint w sok). Qed.
Print Assumptions C17_signed_zero_is_zero.

(** round trips, for every value and every size hint *)
Theorem C17_roundtrip_biguint : forall x hint, canon x ->
  de_biguint_tokens SP hint (snd (ser_biguint SP x)) = Some x.
Proof. intros; apply de_ser_biguint_tokens; auto using sok. Qed.
Print Assumptions C17_roundtrip_biguint.
Theorem C17_roundtrip_bigint : forall x hint, icanon x ->
  de_bigint SP (fst (ser_bigint SP x)) hint (snd (snd (ser_bigint SP x))) = Some x.
Proof. intros; apply de_ser_bigint; auto using sok. Qed.
Print Assumptions C17_roundtrip_bigint.

(** size hints never influence the value *)
Theorem C17_hint_irrelevant : forall h1 h2 v w,
  snd (de_biguint_hinted SP h1 w) = snd (de_biguint_hinted SP h2 w) /\
  de_biguint_tokens SP h1 w = de_biguint_tokens SP h2 w /\
  de_bigint SP v h1 w = de_bigint SP v h2 w.
Proof.
  intros. destruct (de_hint_irrelevant SP h1 h2 w) as [H1 H2].
  split; [exact H1|split; [exact H2|apply de_bigint_hint_irrelevant]].
Qed.
Print Assumptions C17_hint_irrelevant.

(* Non-vacuity: a value whose top digit has a zero upper half (odd word count), trailing
   zeros and an odd tail on input, an inconsistent sign, a wrong hint. *)
Example C17_nonvacuous :
  canonb [4294967296 * 7 + 5; 9] = true /\
  ser_biguint SP [4294967296 * 7 + 5; 9] = (3, [5; 7; 9]) /\
  de_biguint_tokens SP (Some 1000000000000) [5; 7; 9; 0; 0] = Some [4294967296 * 7 + 5; 9] /\
  de_bigint SP 0 None [5; 7; 9] = Some (mkint NoSign []) /\
  de_bigint SP (-1) (Some 0) [0; 0; 0] = Some (mkint NoSign []) /\
  de_bigint SP 2 None [1] = None.
Proof. repeat split; vm_compute; reflexivity. Qed.
