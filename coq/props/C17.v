(* C17 — placeholder while the proofs are being written. *)
From BigNum Require Import Base BaseLemmas Iter Serde SpecBytes.
Open Scope Z_scope.
Example C17_nonvacuous : ser_biguint [4294967296 + 5; 7] = (3, [5; 1; 7]).
Proof. vm_compute. reflexivity. Qed.
