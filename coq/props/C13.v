(* C13 — GCD, LCM, Bezout coefficients and multiple-of helpers are exact.
   Statements only; proofs live in proofs/GcdProofs{,2,3}.v (generic in the source-extracted
   parameters under gcd_ok / addsub_ok, instantiated at Extracted.pgr_gcd / Extracted.addsub).
   gcd itself calls no big multiplication / division; lcm, Bezout and the multiple-of helpers
   call the REAL models [pgr_bmul] = Mul.umul Extracted.mul and [pgr_bdivrem] = Div.udivrem
   Extracted.div (proofs/PgrInst.v; exact by MulProofs5.umul_spec (C02) / DivProofsApi.udivrem_spec
   (C03)).  No hypothesis other than canonicity is left. *)
From BigNum Require Import Base BaseLemmas X86 AddSub AddSubProofs PgrLoop PgrLoopProofs Pow PowProofs
  Gcd SpecGcd GcdProofs GcdProofs2 GcdProofs3 Div Mul PgrInst Extracted InstAddSub InstPgr.
Open Scope Z_scope.

(* what the theorems below are about: the real models at the extracted parameters *)
Theorem C13_real_ops : pgr_bmul = Mul.umul Extracted.mul /\ pgr_bdivrem = Div.udivrem Extracted.div.
Proof. split; reflexivity. Qed.
Print Assumptions C13_real_ops.

Local Notation Hm := pgr_bmul_exact.
Local Notation Hd := pgr_bdivrem_exact.

(* Stein's binary gcd computes the non-negative greatest common divisor (never OutOfFuel,
   never an internal panic); gcd(0,0) = 0, gcd(a,0) = |a|. *)
Theorem C13_gcd : forall a b, canon a -> canon b ->
  ugcd addsub pgr_gcd a b = Ret (enc (Z.gcd (val a) (val b))).
Proof. intros. apply ugcd_spec; auto using addsub_params_ok, gcd_params_ok. Qed.
Print Assumptions C13_gcd.

Theorem C13_gcd_conventions :
  Z.gcd 0 0 = 0 /\ (forall a, Z.gcd a 0 = Z.abs a) /\ (forall a, Z.gcd 0 a = Z.abs a) /\
  (forall a b, 0 <= Z.gcd a b) /\
  (forall a b c, (c | a) -> (c | b) -> (c | Z.gcd a b)) /\
  (forall a b, (Z.gcd a b | a) /\ (Z.gcd a b | b)).
Proof.
  split; [reflexivity|]. split; [apply Z.gcd_0_r|]. split; [apply Z.gcd_0_l|].
  split; [apply Z.gcd_nonneg|]. split; [intros; apply Z.gcd_greatest; auto|].
  intros; split; [apply Z.gcd_divide_l|apply Z.gcd_divide_r].
Qed.
Print Assumptions C13_gcd_conventions.

(* the loop invariant behind C13_gcd: gcd(m,n) is preserved, n stays odd, the bit-length measure
   decreases, and with shift = min(tz a, tz b): gcd(a', b') * 2^shift = gcd(a,b) *)
Theorem C13_stein_inv : forall G,
  step_ok (stein_step addsub pgr_gcd) (stein_inv G) stein_mu (fun r => canon r /\ val r = G).
Proof. intros. apply stein_step_ok; auto using addsub_params_ok, gcd_params_ok. Qed.
Print Assumptions C13_stein_inv.
Theorem C13_stein_shift : forall a' b' ta tb, 0 <= ta -> 0 <= tb -> Z.odd a' = true -> Z.odd b' = true ->
  Z.gcd (a' * 2 ^ ta) (b' * 2 ^ tb) = Z.gcd a' b' * 2 ^ Z.min ta tb.
Proof. exact gcd_split_pow2. Qed.
Print Assumptions C13_stein_shift.

Theorem C13_igcd : forall x y, icanon x -> icanon y ->
  igcd addsub pgr_gcd x y = Ret (ienc (Z.gcd (ival x) (ival y))).
Proof. intros. apply igcd_spec; auto using addsub_params_ok, gcd_params_ok. Qed.
Print Assumptions C13_igcd.

(* lcm(a,b) = |a*b| / gcd(a,b), 0 if either is 0  (zlcm, SpecGcd.v) *)
Theorem C13_lcm :
  (forall a b, canon a -> canon b ->
     ulcm pgr_bmul pgr_bdivrem addsub pgr_gcd a b = Ret (enc (zlcm (val a) (val b)))) /\
  (forall x y, icanon x -> icanon y ->
     ilcm pgr_bmul pgr_bdivrem addsub pgr_gcd x y = Ret (ienc (zlcm (ival x) (ival y)))).
Proof.
  split; intros.
  - apply ulcm_spec; auto using Hm, Hd, addsub_params_ok, gcd_params_ok.
  - apply ilcm_spec; auto using Hm, Hd, addsub_params_ok, gcd_params_ok.
Qed.
Print Assumptions C13_lcm.

Theorem C13_gcd_lcm :
  (forall a b, canon a -> canon b ->
     ugcd_lcm pgr_bmul pgr_bdivrem addsub pgr_gcd a b =
     Ret (enc (Z.gcd (val a) (val b)), enc (zlcm (val a) (val b)))) /\
  (forall x y, icanon x -> icanon y ->
     igcd_lcm pgr_bmul pgr_bdivrem addsub pgr_gcd x y =
     Ret (ienc (Z.gcd (ival x) (ival y)), ienc (zlcm (ival x) (ival y)))).
Proof.
  split; intros.
  - apply ugcd_lcm_spec; auto using Hm, Hd, addsub_params_ok, gcd_params_ok.
  - apply igcd_lcm_spec; auto using Hm, Hd, addsub_params_ok, gcd_params_ok.
Qed.
Print Assumptions C13_gcd_lcm.

(* Bezout: extended_gcd (num-integer's default body run over the BigInt operators) returns
   canonical (g, x, y) with a*x + b*y = g = gcd(a,b) and g >= 0, for all signs *)
Theorem C13_egcd : forall a b, icanon a -> icanon b ->
  exists g x y,
    iextended_gcd pgr_bmul pgr_bdivrem addsub a b = Ret (ienc g, ienc x, ienc y) /\
    ival a * x + ival b * y = g /\ g = Z.gcd (ival a) (ival b) /\ 0 <= g.
Proof. intros. apply iextended_gcd_spec; auto using Hm, Hd, addsub_params_ok. Qed.
Print Assumptions C13_egcd.

(* ... and the coefficients are exactly those of the recurrence on Z (the driver's spec line) *)
Theorem C13_egcd_refines : forall a b, icanon a -> icanon b ->
  iextended_gcd pgr_bmul pgr_bdivrem addsub a b = omap ienc3 (spec_egcd (ival a) (ival b)) /\
  iextended_gcd_lcm pgr_bmul pgr_bdivrem addsub a b = omap ienc4 (spec_egcd_lcm (ival a) (ival b)).
Proof.
  intros. split.
  - apply iextended_gcd_refines; auto using Hm, Hd, addsub_params_ok.
  - apply iextended_gcd_lcm_refines; auto using Hm, Hd, addsub_params_ok.
Qed.
Print Assumptions C13_egcd_refines.

Theorem C13_spec_egcd_bezout : forall a b,
  exists g x y, spec_egcd a b = Ret (g, x, y) /\ egcd_ok a b g x y = true /\
                spec_egcd_lcm a b = Ret (g, x, y, zlcm a b).
Proof.
  intros a b. destruct (zegcd_bezout a b) as (g & x & y & E & H1 & H2 & H3).
  exists g, x, y. unfold spec_egcd, spec_egcd_lcm. rewrite E. cbn [bind].
  split; [reflexivity|]. split; [apply egcd_ok_of_bezout; auto|reflexivity].
Qed.
Print Assumptions C13_spec_egcd_bezout.

(* multiple-of helpers agree with their arithmetic definitions (floored modulus: Z.modulo);
   only zero is a multiple of zero; a zero divisor makes next/prev_multiple_of panic *)
Theorem C13_multiples_u : forall a b, canon a -> canon b ->
  uis_multiple_of pgr_bdivrem a b = spec_is_multiple_of (val a) (val b) /\
  unext_multiple_of pgr_bdivrem addsub a b = omap enc (spec_next_multiple_of (val a) (val b)) /\
  uprev_multiple_of pgr_bdivrem addsub a b = omap enc (spec_prev_multiple_of (val a) (val b)).
Proof.
  intros a b Ca Cb. split; [|split].
  - apply uis_multiple_of_spec; auto using Hd.
  - apply unext_multiple_of_spec; auto using Hd, addsub_params_ok.
  - apply uprev_multiple_of_spec; auto using Hd, addsub_params_ok.
Qed.
Print Assumptions C13_multiples_u.

Theorem C13_multiples_i : forall x y, icanon x -> icanon y ->
  iis_multiple_of pgr_bdivrem x y = spec_is_multiple_of (ival x) (ival y) /\
  inext_multiple_of pgr_bdivrem addsub x y = omap ienc (spec_next_multiple_of (ival x) (ival y)) /\
  iprev_multiple_of pgr_bdivrem addsub x y = omap ienc (spec_prev_multiple_of (ival x) (ival y)).
Proof.
  intros x y Cx Cy. split; [|split].
  - apply iis_multiple_of_spec; auto using Hd.
  - apply inext_multiple_of_spec; auto using Hd, addsub_params_ok.
  - apply iprev_multiple_of_spec; auto using Hd, addsub_params_ok.
Qed.
Print Assumptions C13_multiples_i.

Theorem C13_parity : (forall a, canon a -> pgr_is_even a = Z.even (val a) /\ pgr_is_odd a = Z.odd (val a)) /\
  (forall x, icanon x -> iis_even x = Z.even (ival x) /\ iis_odd x = Z.odd (ival x)).
Proof.
  split.
  - intros a Ca. split; [apply pgr_is_even_spec|apply pgr_is_odd_spec]; apply Ca.
  - intros x Cx. split; [apply iis_even_spec|apply iis_odd_spec]; auto.
Qed.
Print Assumptions C13_parity.

Theorem C13_inc_dec :
  (forall a, canon a -> uinc addsub a = Ret (enc (val a + 1)) /\
                        udec addsub a = omap enc (spec_udec (val a))) /\
  (forall x, icanon x -> iinc addsub x = Ret (ienc (ival x + 1)) /\
                         idec addsub x = Ret (ienc (ival x - 1))).
Proof.
  split.
  - intros a Ca. split; [apply uinc_spec|apply udec_spec]; auto using addsub_params_ok.
  - intros x Cx. split; [apply iinc_spec|apply idec_spec]; auto using addsub_params_ok.
Qed.
Print Assumptions C13_inc_dec.


(* the same, both types at once (kept under its historical name) *)
Theorem C13_multiples_closed :
  (forall a b, canon a -> canon b ->
    uis_multiple_of pgr_bdivrem a b = spec_is_multiple_of (val a) (val b) /\
    unext_multiple_of pgr_bdivrem addsub a b = omap enc (spec_next_multiple_of (val a) (val b)) /\
    uprev_multiple_of pgr_bdivrem addsub a b = omap enc (spec_prev_multiple_of (val a) (val b))) /\
  (forall x y, icanon x -> icanon y ->
    iis_multiple_of pgr_bdivrem x y = spec_is_multiple_of (ival x) (ival y) /\
    inext_multiple_of pgr_bdivrem addsub x y = omap ienc (spec_next_multiple_of (ival x) (ival y)) /\
    iprev_multiple_of pgr_bdivrem addsub x y = omap ienc (spec_prev_multiple_of (ival x) (ival y))).
Proof.
  split; intros.
  - apply C13_multiples_u; auto.
  - apply C13_multiples_i; auto.
Qed.
Print Assumptions C13_multiples_closed.

(* Non-vacuity (on the real multiplication and division models): a gcd with trailing zeros spanning a digit
   (gcd(3*2^65, 5*2^64+2^64) ...), a Bezout triple with mixed signs, a negative next multiple. *)
Example C13_nonvacuous :
  canonb [0; 6] = true /\ canonb [0; 0; 10] = true /\
  ugcd addsub pgr_gcd [0; 6] [0; 0; 10] = Ret [0; 2] /\
  iextended_gcd pgr_bmul pgr_bdivrem addsub (mkint Minus [12]) (mkint Plus [42]) =
    Ret (mkint Plus [6], mkint Plus [3], mkint Plus [1]) /\
  inext_multiple_of pgr_bdivrem addsub (mkint Minus [7]) (mkint Plus [3]) = Ret (mkint Minus [6]).
Proof.
  repeat split; vm_compute; reflexivity.
Qed.
