(* C15 — unsafe code never touches memory outside its buffers.
   Logic half of the property (see tools/props/C15.json for what is partial):
   (1) the asm templates as written in the source, for every block count, read and write only
       cells [0, 5*(size/blk)) of `a`, only read `b`, leave `b` unchanged and terminate;
   (2) at both call sites the pointers cover `size` cells: the model's bounds assertion
       (Internal 150) and length assertion (Internal 101) never fire;
   (3) `String::from_utf8_unchecked` in to_str_radix: for every canonical value and every radix
       2..=36 the emitted bytes are '0'..'9' / 'a'..'z' (plus one leading '-' for a negative
       BigInt), i.e. ASCII, hence valid UTF-8 (C15_to_str_ascii, C15_ito_str_ascii). *)
From BigNum Require Import Base BaseLemmas X86 AddSub SpecAddSub AddSubProofs AsmProofs Extracted InstAddSub.
From BigNum Require Import Div DivProofs DivProofsApi InstDiv Rand SpecRand RandProofs InstRand.
From BigNum Require Import SpecBytes Radix RadixText RadixKernels RadixApi SpecRadix RadixTextProofs
  RadixInst RadixAsciiLemmas InstRadix InstRadixMul.
Open Scope Z_scope.

Theorem C15_asm_add_bounds : forall a b size, wf a -> wf b ->
  0 <= size <= Z.of_nat (length a) -> size <= Z.of_nat (length b) -> size < B -> 1 <= size / ap_blk addsub ->
  let K := size / ap_blk addsub in
  let '(s', ok) := run (Z.to_nat K) (ap_add_prog addsub) (init_state (mem_of a) (mem_of b) K) in
  ok = true /\ 5 * K <= size /\
  Forall (acc_ok (5 * K)) (tr s') /\ (forall j, mb s' j = mem_of b j) /\
  (forall j, 5 * K <= j < Z.of_nat (length a) -> nth (Z.to_nat j) (seg (ma s') 0 (length a)) 0 = nth (Z.to_nat j) a 0).
Proof.
  intros a b size Wa Wb Hsa Hsb HsB HK.
  pose proof (C01_asm_add_gen := asm_add_correct).
  destruct (addsub_ok_inv addsub addsub_params_ok) as (Eb & Ep & _ & _). rewrite Eb in *. rewrite Ep.
  specialize (C01_asm_add_gen a b size Wa Wb Hsa Hsb HsB HK). cbv zeta in *.
  destruct (run (Z.to_nat (size / 5)) canon_add_prog (init_state (mem_of a) (mem_of b) (size / 5))) as [s' ok].
  destruct C01_asm_add_gen as (Hok & Hs & Hmb & Htr).
  assert (H5 : 5 * (size / 5) <= size) by (apply Z.mul_div_le; lia).
  repeat split; auto.
  intros j Hj. unfold schoolbook in Hs.
  replace (size / 5 =? 0) with false in Hs by (symmetry; apply Z.eqb_neq; lia).
  match type of Hs with context [assert_ ?bb _] =>
    replace bb with true in Hs by (symmetry; rewrite !andb_true_iff, !Z.leb_le; lia) end.
  cbn [assert_ bind] in Hs.
  set (nn := Z.to_nat (5 * (size / 5))) in *.
  assert (Hnn : (nn <= length a)%nat) by (unfold nn; lia).
  pose proof (adc_zip_length (firstn nn a) (firstn nn b) 0) as HL.
  destruct (adc_zip 0 (firstn nn a) (firstn nn b)) as [lo c].
  cbn [fst] in HL. rewrite firstn_length_le in HL by lia.
  injection Hs as Hs _ _. rewrite <- Hs.
  rewrite app_nth2 by (unfold nn in *; lia). rewrite HL, nth_skipn_add. f_equal. unfold nn. lia.
Qed.
Print Assumptions C15_asm_add_bounds.

Theorem C15_asm_sub_bounds : forall a b size, wf a -> wf b ->
  0 <= size <= Z.of_nat (length a) -> size <= Z.of_nat (length b) -> size < B -> 1 <= size / ap_blk addsub ->
  let K := size / ap_blk addsub in
  let '(s', ok) := run (Z.to_nat K) (ap_sub_prog addsub) (init_state (mem_of a) (mem_of b) K) in
  ok = true /\ 5 * K <= size /\
  Forall (acc_ok (5 * K)) (tr s') /\ (forall j, mb s' j = mem_of b j).
Proof.
  intros a b size Wa Wb Hsa Hsb HsB HK.
  destruct (addsub_ok_inv addsub addsub_params_ok) as (Eb & _ & Ep & _). rewrite Eb in *. rewrite Ep.
  pose proof (asm_sub_correct a b size Wa Wb Hsa Hsb HsB HK) as H. cbv zeta in *.
  destruct (run (Z.to_nat (size / 5)) canon_sub_prog (init_state (mem_of a) (mem_of b) (size / 5))) as [s' ok].
  destruct H as (Hok & Hs & Hmb & Htr).
  assert (H5 : 5 * (size / 5) <= size) by (apply Z.mul_div_le; lia).
  repeat split; auto.
Qed.
Print Assumptions C15_asm_sub_bounds.

(* Call sites: __add2 and sub2 hand the asm two pointers that both cover `size` cells, for
   every pair of operand lengths: the calls return (never Internal 150 / 101). *)
Theorem C15_add2_call_site : forall a b, wf a -> wf b -> (length b <= length a)%nat ->
  exists r c, add2c addsub a b = Ret (r, c) /\ length r = length a.
Proof.
  intros a b Wa Wb Hl.
  destruct (add2c_spec addsub a b addsub_params_ok Wa Wb Hl) as (r & c & E & _ & L & _).
  exists r, c. auto.
Qed.
Print Assumptions C15_add2_call_site.

Theorem C15_sub2_call_site : forall a b, wf a -> wf b ->
  (exists r, sub2 addsub a b = Ret r /\ length r = length a) \/ sub2 addsub a b = Panic SubUnderflow.
Proof.
  intros a b Wa Wb. destruct (sub2_spec addsub a b addsub_params_ok Wa Wb) as [Hge Hlt].
  destruct (Z_le_gt_dec (val b) (val a)) as [H|H].
  - left. destruct (Hge H) as (r & E & _ & L & _). exists r. auto.
  - right. apply Hlt. lia.
Qed.
Print Assumptions C15_sub2_call_site.

(* Hardware divide: `div_wide` faults (SIGFPE) unless hi < divisor.  The model carries that
   precondition as the live check `Internal 301`; division of any canonical operands by any
   non-zero canonical divisor returns, so the check never fires at any of its call sites
   (single-digit division, the Knuth-D trial quotient, rem_digit). *)
Theorem C15_div_wide_precondition : forall a b, canon a -> canon b -> val b <> 0 ->
  udivrem Extracted.div a b = Ret (enc (val a / val b), enc (val a mod val b)).
Proof.
  intros a b Ha Hb Hn. rewrite udivrem_spec by auto using div_params_ok.
  destruct (Z.eqb_spec (val b) 0); [contradiction|reflexivity].
Qed.
Print Assumptions C15_div_wide_precondition.

(* The u64 buffer viewed as u32 words in gen_biguint: for every bit size and every stream that
   holds enough words the generator returns (no index or length assertion of the model fires)
   a value below 2^n built from exactly nwords(n) words. *)
Theorem C15_rand_u32_view : forall n ws rest, 0 <= n -> words ws -> words rest ->
  Z.of_nat (length ws) = nwords n ->
  gen_biguint Extracted.rand n (ws ++ rest) = Ret (enc (cand n ws), rest) /\ 0 <= cand n ws < 2 ^ n.
Proof. intros; apply gen_biguint_words; auto using rand_params_ok. Qed.
Print Assumptions C15_rand_u32_view.

(* `to_str_radix` builds its String with `from_utf8_unchecked`: every byte it emits is an ASCII
   digit or lower-case letter — for every canonical value of any length and every legal radix
   (the premise of the radix theorems about operands of >= 64 digits is the multiplication
   theorem umul_spec of C02: InstRadixMul.small_or_umul_proved). *)
Theorem C15_to_str_ascii : forall u r, canon u -> 2 <= r <= 36 ->
  exists s, u_to_str_radix radix u r = Ret s /\
            Forall (fun c => 48 <= c <= 57 \/ 97 <= c <= 122) s.
Proof.
  intros u r Cu Hr.
  rewrite inst_to_str_radix by auto using radix_params_std, small_or_umul_proved.
  destruct (spec_to_str (val u) r) as [s| |] eqn:E.
  - exists s. split; [reflexivity|]. apply (to_str_alnum (val u) r s); [apply val_nonneg, Cu|exact E].
  - unfold spec_to_str, radix_in in E.
    replace ((2 <=? r) && (r <=? 36)) with true in E by (symmetry; apply andb_true_iff; split; apply Z.leb_le; lia).
    discriminate.
  - unfold spec_to_str in E. destruct (radix_in 2 36 r); discriminate.
Qed.
Print Assumptions C15_to_str_ascii.

(* BigInt: the same bytes, preceded by exactly one '-' (45) when the value is negative *)
Theorem C15_ito_str_ascii : forall x r, icanon x -> 2 <= r <= 36 ->
  exists s, i_to_str_radix radix x r = Ret s /\
            Forall (fun c => 48 <= c <= 57 \/ 97 <= c <= 122 \/ c = 45) s /\
            (0 <= ival x -> Forall (fun c => 48 <= c <= 57 \/ 97 <= c <= 122) s) /\
            (ival x < 0 -> exists t, s = 45 :: t /\ Forall (fun c => 48 <= c <= 57 \/ 97 <= c <= 122) t).
Proof.
  intros x r Cx Hr.
  rewrite inst_ito_str_radix by auto using radix_params_std, small_or_umul_proved.
  destruct (spec_to_str (ival x) r) as [s| |] eqn:E.
  - exists s. split; [reflexivity|]. split; [exact (to_str_ascii _ _ _ E)|]. split.
    + intros Hp. exact (to_str_alnum _ _ _ Hp E).
    + intros Hn. exact (to_str_neg _ _ _ Hn E).
  - unfold spec_to_str, radix_in in E.
    replace ((2 <=? r) && (r <=? 36)) with true in E by (symmetry; apply andb_true_iff; split; apply Z.leb_le; lia).
    discriminate.
  - unfold spec_to_str in E. destruct (radix_in 2 36 r); discriminate.
Qed.
Print Assumptions C15_ito_str_ascii.

Example C15_nonvacuous : wfb [1; 2; 3; 4; 5; 6] = true /\ 1 <= 6 / ap_blk addsub /\
  i_to_str_radix radix (mkint Minus [35; 1]) 36 = Ret [45; 51; 119; 53; 101; 49; 49; 50; 54; 52; 115; 103; 116; 102].
Proof. split; [|split]; vm_compute; [reflexivity|discriminate|reflexivity]. Qed.
