(* C20 — sub-quadratic multiplication cost (placeholder until the bank proofs land). *)
From BigNum Require Import Base BaseLemmas AddSub Mul MulCost Extracted.
Open Scope Z_scope.

Example C20_nonvacuous : cost mul (bank_a 40) (bank_b 40) = Ret 1200.
Proof. vm_compute. reflexivity. Qed.
