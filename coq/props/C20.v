(* C20 — multiplication cost grows sub-quadratically with operand size.
   The work unit is the property's: the sum of the row lengths passed to the multiply-accumulate
   row routine `mac_digit` with a non-zero multiplier (`add_work(b.len())` in /repo).
   [MulCost.umul_c] is the multiplication model of C02 returning (product, work);
   [MulCost.cost] is the work alone; [bank_cost mul n m] is the work of the product of the fixed
   dense LCG operands of n and m digits.
   - C20_erasure / C20_cost_defined: the instrumented model computes the same values as the C02
     model (which C02 proves exact), for ALL operands — the counter is well defined.
   - C20_quadratic: for ALL canonical operands the work is at most |a|·|b| (the third criterion,
     universally; proved by induction, no evaluation).
   - the bank: the kernel evaluates the bank products (each once, vm) and the criteria hold:
     cost(2n) <= 3.25 cost(n), unbalanced (and balanced) cost <= lx*ly — `bank_quick`
     (n = 256, 512, 1024; 256x511, 256x512, 512x1023, 512x1024) and `bank_big` (2048, 4096 incl.
     cost(4096) < 4096^2/4, 1024x2047, 1024x2048, 256x16384) in coq/slow/, see the end of this file.
   - Sizes 8192, 16384 and n x 64n for n >= 512 are out of the VM's reach; there the check
     compares the model's count with the implementation's counter exactly (driver vs hook)
     and decides the criteria on the implementation's counts (tools/gen/c20.py). *)
From BigNum Require Import Base BaseLemmas X86 AddSub AddSubProofs Mul MulCost
  MulProofs MulProofs5 MulCostProofs MulCostQuad Extracted InstMul InstMulCost.
Open Scope Z_scope.

Theorem C20_erasure : forall a b, umul mul a b = omap fst (umul_c mul a b).
Proof. intros; apply umul_erase. Qed.
Print Assumptions C20_erasure.

Theorem C20_cost_defined : forall a b, canon a -> canon b ->
  exists w, umul_c mul a b = Ret (enc (val a * val b), w) /\ cost mul a b = Ret w.
Proof. intros a b Ha Hb. apply cost_defined. apply umul_spec; auto using mul_params_ok. Qed.
Print Assumptions C20_cost_defined.

(** "Unbalanced products cost no more than the schoolbook count" — for ALL operands of any
    length and shape (not only the bank): the work of a product is at most |a|·|b|. *)
Theorem C20_quadratic : forall a b, canon a -> canon b ->
  exists w, umul_c mul a b = Ret (enc (val a * val b), w) /\ cost mul a b = Ret w /\
            0 <= w <= lenZ a * lenZ b.
Proof. intros; apply cost_quadratic; auto using cost_params_ok. Qed.
Print Assumptions C20_quadratic.

(* The bank (finite, decided by kernel evaluation) is NOT in this file, because the thorough
   tier re-checks this file with coqchk, which cannot redo the VM evaluation.  It is
   `bank_quick` in coq/slow/MulCostBank.v, compiled and assumption-checked by every `./check C20`:

   bank_quick :
     exists c256 c512 c1024 u1 u2 u3 u4,
       bank_cost mul 256 256 = Ret c256 /\ bank_cost mul 512 512 = Ret c512 /\
       bank_cost mul 1024 1024 = Ret c1024 /\
       bank_cost mul 256 511 = Ret u1 /\ bank_cost mul 256 512 = Ret u2 /\
       bank_cost mul 512 1023 = Ret u3 /\ bank_cost mul 512 1024 = Ret u4 /\
       4 * c512 <= 13 * c256 /\ 4 * c1024 <= 13 * c512 /\
       c256 <= 256 * 256 /\ c512 <= 512 * 512 /\ c1024 <= 1024 * 1024 /\
       u1 <= 256 * 511 /\ u2 <= 256 * 512 /\ u3 <= 512 * 1023 /\ u4 <= 512 * 1024.

   and `bank_big` in coq/slow/MulCostBankBig.v (thorough tier): 1024 -> 2048 -> 4096 doubling,
   4 * c4096 < 4096 * 4096, 1024 x 2047, 1024 x 2048, 256 x 16384. *)

(* Non-vacuity: the bank operands are canonical, dense, and the Karatsuba regime is counted
   (40 x 40 digits: three 20 x 20 long multiplications = 1200 digit products < 1600). *)
Example C20_nonvacuous :
  canonb (bank_a 40) = true /\ canonb (bank_b 40) = true /\ cost mul (bank_a 40) (bank_b 40) = Ret 1200.
Proof. split; [|split]; vm_compute; reflexivity. Qed.
