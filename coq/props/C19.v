(* C19 — sign, negation and identity helpers agree with the integer value.
   Statements only; proofs live in proofs/SignProofs.v (and AddSubProofs.v for negation). *)
From BigNum Require Import Base BaseLemmas AddSub SpecAddSub AddSubProofs Sign SpecSign SignProofs
  Extracted InstAddSub InstSign.
Open Scope Z_scope.

(* The theorems about abs, abs_sub, signum, is_positive, is_negative, is_zero, cmp, to_biguint,
   TryFrom and From<BigUint> are proved generically in the source-extracted arms / tests of those
   functions and instantiated here at `Extracted.signs` (inst/InstSign.v). *)
Local Notation SG := Extracted.signs.
Local Notation gok := sign_params_ok.

(** -x is the additive inverse (value, canonical form, and x + (-x) = 0 through the real adder). *)
Theorem C19_neg : forall x, icanon x -> ineg x = ienc (spec_neg (ival x)).
Proof. intros; apply ineg_spec; auto. Qed.
Print Assumptions C19_neg.

Theorem C19_neg_inverse : forall x, icanon x -> iadd addsub x (ineg x) = Ret (ienc 0).
Proof. intros; apply ineg_additive_inverse; auto using addsub_params_ok. Qed.
Print Assumptions C19_neg_inverse.

Theorem C19_abs : forall x, icanon x -> iabs SG x = ienc (spec_abs (ival x)).
Proof. intros; apply iabs_spec; auto using gok. Qed.
Print Assumptions C19_abs.

Theorem C19_signum : forall x, icanon x -> isignum SG x = ienc (spec_signum (ival x)).
Proof. intros; apply isignum_spec; auto using gok. Qed.
Print Assumptions C19_signum.

Theorem C19_is_positive : forall x, icanon x -> is_positive SG x = spec_is_positive (ival x).
Proof. intros; apply is_positive_spec; auto using gok. Qed.
Print Assumptions C19_is_positive.

Theorem C19_is_negative : forall x, icanon x -> is_negative SG x = spec_is_negative (ival x).
Proof. intros; apply is_negative_spec; auto using gok. Qed.
Print Assumptions C19_is_negative.

Theorem C19_sign : forall x, icanon x -> isign x = spec_sign (ival x).
Proof. intros; apply isign_spec; auto. Qed.
Print Assumptions C19_sign.

Theorem C19_magnitude : forall x, icanon x -> imagnitude x = enc (spec_magnitude (ival x)).
Proof. intros; apply imagnitude_spec; auto. Qed.
Print Assumptions C19_magnitude.

(** Ord for BigInt (used by abs_sub) is the numeric order. *)
Theorem C19_cmp : forall x y, icanon x -> icanon y -> icmp SG x y = spec_icmp (ival x) (ival y).
Proof. intros; apply icmp_spec; auto using gok. Qed.
Print Assumptions C19_cmp.

Theorem C19_abs_sub : forall x y, icanon x -> icanon y ->
  abs_sub SG addsub x y = omap ienc (spec_abs_sub (ival x) (ival y)).
Proof. intros; apply abs_sub_spec; auto using addsub_params_ok, gok. Qed.
Print Assumptions C19_abs_sub.

(** from_biguint on every (Sign, canonical magnitude) pair, consistent or not: the value is
    sign * magnitude and the result is canonical; in particular ... *)
Theorem C19_from_biguint : forall s m, canon m ->
  from_biguint s m = ienc (spec_from_biguint s (val m)).
Proof. intros; apply from_biguint_spec; auto. Qed.
Print Assumptions C19_from_biguint.

(** ... a NoSign request yields zero, a zero magnitude yields NoSign, ... *)
Theorem C19_from_biguint_nosign : forall m, from_biguint NoSign m = ienc 0.
Proof. intros; apply from_biguint_nosign. Qed.
Print Assumptions C19_from_biguint_nosign.

Theorem C19_from_biguint_zero_mag : forall s, from_biguint s [] = ienc 0 /\ sg (from_biguint s []) = NoSign.
Proof. intros; rewrite from_biguint_zero_mag; split; reflexivity. Qed.
Print Assumptions C19_from_biguint_zero_mag.

(** ... and into_parts / from_biguint are mutually inverse on canonical pairs. *)
Theorem C19_into_parts_from_biguint : forall s m, canon m -> s <> NoSign -> m <> [] ->
  into_parts (from_biguint s m) = (s, m).
Proof. intros; apply into_parts_from_biguint; auto. Qed.
Print Assumptions C19_into_parts_from_biguint.

Theorem C19_from_biguint_into_parts : forall x, icanon x ->
  from_biguint (fst (into_parts x)) (snd (into_parts x)) = x.
Proof. intros; apply from_biguint_into_parts; auto. Qed.
Print Assumptions C19_from_biguint_into_parts.

(** BigInt::new / from_slice / assign_from_slice over base-2^32 words (any high zeros). *)
Theorem C19_from_slice : forall s w, Forall word w ->
  i_from_slice s w = ienc (spec_from_biguint s (val32 w)).
Proof. intros; apply i_from_slice_spec; auto. Qed.
Print Assumptions C19_from_slice.

Theorem C19_assign_from_slice : forall x s w, Forall word w ->
  i_assign_from_slice x s w = ienc (spec_from_biguint s (val32 w)).
Proof. intros; apply i_assign_from_slice_spec; auto. Qed.
Print Assumptions C19_assign_from_slice.

(** to_biguint SG / ToBigUint / TryFrom<BigInt> succeed exactly for the non-negative values;
    to_bigint always succeeds. *)
Theorem C19_to_biguint : forall x, icanon x ->
  to_biguint SG x = option_map enc (spec_to_biguint (ival x)).
Proof. intros; apply to_biguint_spec; auto using gok. Qed.
Print Assumptions C19_to_biguint.

Theorem C19_to_biguint_trait : forall x, icanon x ->
  to_biguint_trait SG x = option_map enc (spec_to_biguint (ival x)).
Proof. intros; apply to_biguint_trait_spec; auto using gok. Qed.
Print Assumptions C19_to_biguint_trait.

Theorem C19_try_into_biguint : forall x, icanon x ->
  try_into_biguint SG x = option_map enc (spec_to_biguint (ival x)).
Proof. intros; apply try_into_biguint_spec; auto using gok. Qed.
Print Assumptions C19_try_into_biguint.

Theorem C19_to_bigint : forall m x, canon m -> icanon x ->
  u_to_bigint SG m = Some (ienc (val m)) /\ i_to_bigint x = Some (ienc (ival x)) /\
  u_to_biguint m = Some (enc (val m)) /\ ifrom_u SG m = ienc (val m).
Proof.
  intros; split; [apply u_to_bigint_spec; auto using gok|]. split; [apply i_to_bigint_spec; auto|].
  split; [apply u_to_biguint_spec; auto|apply ifrom_u_spec; auto using gok].
Qed.
Print Assumptions C19_to_bigint.

(** zero(), ZERO, default(), one(), set_zero, set_one for both types. *)
Theorem C19_identities : forall m x,
  uzero = enc 0 /\ uone = enc 1 /\ izero = ienc 0 /\ ione = ienc 1 /\
  uset_zero m = enc 0 /\ uset_one m = enc 1 /\ iset_zero x = ienc 0 /\ iset_one x = ienc 1.
Proof. intros; repeat split. Qed.
Print Assumptions C19_identities.

Theorem C19_is_zero_one : forall m x, canon m -> icanon x ->
  uis_zero m = spec_is_zero (val m) /\ uis_one m = spec_is_one (val m) /\
  iis_zero SG x = spec_is_zero (ival x) /\ iis_one x = spec_is_one (ival x).
Proof.
  intros; split; [apply uis_zero_spec; auto|]. split; [apply uis_one_spec; auto|].
  split; [apply iis_zero_spec; auto using gok|apply iis_one_spec; auto].
Qed.
Print Assumptions C19_is_zero_one.

(** The rule of signs (finite tables). *)
Theorem C19_sign_neg : forall s, sign_neg s = spec_sign_neg s /\ sign_z (sign_neg s) = - sign_z s.
Proof. intros; split; [apply sign_neg_spec|apply sign_neg_z]. Qed.
Print Assumptions C19_sign_neg.

Theorem C19_sign_mul : forall a b,
  sign_mul a b = spec_sign_mul a b /\ sign_z (sign_mul a b) = sign_z a * sign_z b.
Proof. intros; split; [apply sign_mul_spec|apply sign_mul_z]. Qed.
Print Assumptions C19_sign_mul.

(* Non-vacuity: canonical multi-digit values of both signs exist and the helpers act on them. *)
Example C19_nonvacuous :
  canonb [5; B - 1] = true /\
  iabs SG (mkint Minus [5; B - 1]) = mkint Plus [5; B - 1] /\
  abs_sub SG addsub (mkint Plus [5; B - 1]) (mkint Minus [B - 1]) = Ret (mkint Plus [4; 0; 1]) /\
  abs_sub SG addsub (mkint Minus [5; B - 1]) (mkint Minus [B - 1]) = Ret (mkint NoSign []) /\
  i_from_slice Minus [7; 0; 0; 1; 0; 0] = mkint Minus [7; 4294967296].
Proof. repeat split; vm_compute; reflexivity. Qed.

(* ---- added by the API audit (docs/API_COVERAGE.md): the derives of `enum Sign { Minus, NoSign, Plus }`:
   `==` and the order (cmp / partial_cmp / < <= > >=) are those of the sign value -1 / 0 / 1, and the
   Debug names are pairwise different. *)
From BigNum Require Import ExtraOrd ExtraOrdProofs.
Theorem C19_sign_derives : forall a b,
  sign_eq a b = (sign_z a =? sign_z b) /\
  ord_of (sign_partial_cmp a b) = zord (sign_z a) (sign_z b) /\
  (sign_debug a = sign_debug b -> a = b).
Proof. intros; split; [apply sign_eq_spec|split; [apply sign_ord_spec|apply sign_debug_inj]]. Qed.
Print Assumptions C19_sign_derives.
