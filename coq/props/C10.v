(* C10 — every overloaded operator form agrees with the reference-by-reference operation.

   FULL STATEMENT (target): for each of the 1286 operator impls of BigUint/BigInt (binary operators
   by value / by reference in any combination, compound assignment, a primitive scalar of any
   supported type on either side, scalar %= big, checked_*, Sum/Product), the Rust result (or panic)
   equals the ref-ref BigUint/BigInt operation on the losslessly converted operands.

   PROVED HERE (for all operand values, any answer of the capacity/len tests):
   * C10_all_forms_checked — every row of the table regenerated from the source on each run
     (tools/extractors/forms.py expands all forwarding/promotion macros) satisfies the decidable
     soundness condition check_form; the table has 1286 rows.
   * C10_forms_agree_partial — for every binary/assign row, the interpreter of its forwarding chain
     down to the hand-written leaf, with the leaf restated in FormsLeaves.v, yields the Z-level
     ref-ref semantics zsem (value AND panic cases: BigUint underflow, zero divisor, negative shift).
   * C10_checked_agree_partial, C10_folds_agree_partial — the same for checked_* and Sum/Product.
   PARTIAL because (i) the value-level behaviour of the BigUint big-big / scalar / shift / pow leaves
   and of the BigInt big-big leaves is a hypothesis (big_ops_ok: H_ubigbig, H_ibigbig,
   H_uadd_scalar, H_usub_scalar, H_umul_scalar, H_udivrem_scalar, H_scalar_usub, H_scalar_udivrem,
   H_ushift, H_upow_scalar, H_upow_big) to be discharged with the C01/C02/C03/C07/C12 theorems, and
   (ii) the tie between a row and the Rust impl it describes is the extractor plus the
   correspondence run (the harness calls each of the 1286 impls by its qualified trait path and
   compares in-process with the ref-ref result). *)
From Coq Require Import ZArith List Bool.
From BigNum Require Import Base X86 AddSub Forms FormsLeaves FormsProofs FormsLeavesProofs FormsAddSubLeaves Extracted InstAddSub InstForms.
Import ListNotations.
Open Scope Z_scope.

Theorem C10_all_forms_checked :
  forallb (check_form forms) forms = true /\ Z.of_nat (length forms) = 1286.
Proof. split; [exact C10_all_forms | apply C10_forms_count]. Qed.
Print Assumptions C10_all_forms_checked.

Theorem C10_forms_agree_partial :
  forall (p : big_ops) (orc : form -> Z -> Z -> bool), big_ops_ok p ->
  forall f, In f forms -> is_arith_role (f_role f) = true ->
  forall x y, in_oty (k_ty (f_lhs f)) x -> in_oty (k_ty (f_rhs f)) y ->
  eval_form (leaf_of p) forms orc f x y = zsem (fam f) (f_op f) x y.
Proof. exact forms_agree. Qed.
Print Assumptions C10_forms_agree_partial.

Theorem C10_checked_agree_partial :
  forall (p : big_ops) (orc : form -> Z -> Z -> bool), big_ops_ok p ->
  forall f, In f forms -> f_role f = RChecked ->
  forall x y, in_oty (OBig (fam f)) x -> in_oty (OBig (fam f)) y ->
  eval_checked (leaf_of p) forms orc (leafc_of p) f x y = checked_of (zsem (fam f) (f_op f) x y).
Proof. exact checked_agree. Qed.
Print Assumptions C10_checked_agree_partial.

Theorem C10_folds_agree_partial :
  forall (p : big_ops) (orc : form -> Z -> Z -> bool), big_ops_ok p ->
  forall f, In f forms -> f_role f = RFold ->
  exists b init, k_ty (f_lhs f) = OBig b /\ f_shape f = SFold init (f_op f) /\
    ((f_op f = OpAdd /\ init = 0) \/ (f_op f = OpMul /\ init = 1)) /\
    forall kt g l, lookup forms RBinop (f_op f) (kb b false) kt = Some g ->
      (b = FamU -> forall v, in_oty (k_ty kt) v -> 0 <= v) -> Forall (in_oty (k_ty kt)) l ->
      eval_fold (leaf_of p) forms orc f kt l =
      Ret (fold_left (match f_op f with OpAdd => Z.add | _ => Z.mul end) l init).
Proof. exact folds_agree. Qed.
Print Assumptions C10_folds_agree_partial.

(* generic soundness of the decidable condition, for ANY table and ANY reference semantics whose
   `commutative` operators commute *)
Theorem C10_form_sound :
  forall (sem : bigty -> opk -> Z -> Z -> outcome Z) (leaf : form -> Z -> Z -> outcome Z)
         (tbl : list form) (orc : form -> Z -> Z -> bool),
  (forall b o x y, commutative o = true -> sem b o x y = sem b o y x) ->
  (forall f x y, is_arith_role (f_role f) = true -> f_shape f = SLeaf -> known_leaf f = true ->
                 in_oty (k_ty (f_lhs f)) x -> in_oty (k_ty (f_rhs f)) y ->
                 leaf f x y = sem (fam f) (f_op f) x y) ->
  forall f, is_arith_role (f_role f) = true -> check_form tbl f = true ->
  forall x y, in_oty (k_ty (f_lhs f)) x -> in_oty (k_ty (f_rhs f)) y ->
  eval_form leaf tbl orc f x y = sem (fam f) (f_op f) x y.
Proof. exact form_sound. Qed.
Print Assumptions C10_form_sound.

(* scalar %= &BigUint for the 12 primitive types (the signed macro as fixed in /repo dc3abd4),
   including iN::MIN %= 2^(N-1) = 0 *)
Theorem C10_leaf_rem_assign :
  forall t s u, slo t <= s <= shi t -> 0 <= u -> srem_assign t s u = zsem FamU OpRem s u.
Proof. exact leaf_rem_assign_spec. Qed.
Print Assumptions C10_leaf_rem_assign.

(* the BigUint scalar add/sub leaves at DIGIT level (model/AddSub.v: AddAssign<u32|u64|u128>,
   SubAssign<u32|u64|u128>, Sub<BigUint> for u32|u64|u128, on the source-extracted parameters):
   this discharges H_uadd_scalar, H_usub_scalar, H_scalar_usub for the digit-level instance *)
Theorem C10_leaf_biguint_addsub_scalar :
  forall x s, 0 <= x -> 0 <= s < B * B ->
  uadd_s_val addsub x s = zsem FamU OpAdd x s /\
  usub_s_val addsub x s = zsem FamU OpSub x s /\
  s_usub_val s x = zsem FamU OpSub s x.
Proof.
  intros x s Hx Hs. pose proof addsub_params_ok as Hp. repeat split.
  - apply H_uadd_scalar_discharged; assumption.
  - apply H_usub_scalar_discharged; assumption.
  - apply H_scalar_usub_discharged; assumption.
Qed.
Print Assumptions C10_leaf_biguint_addsub_scalar.

(* non-vacuity: the hypotheses are satisfiable (big_ops_z_ok), and a concrete chain
   `&i8 - &BigInt` -> `i8 - BigInt` -> `i32 - BigInt` (leaf, checked_uabs dispatch) evaluates right *)
Example C10_nonvacuous :
  big_ops_ok big_ops_z /\
  exists g, lookup forms RBinop OpSub (ks Ti8 true) (kb FamI true) = Some g /\ In g forms /\
            is_arith_role (f_role g) = true /\ in_otyb (k_ty (f_lhs g)) (-128) = true /\
            eval_form (leaf_of big_ops_z) forms (fun _ _ _ => true) g (-128) (2 ^ 64 + 5) = Ret (- 2 ^ 64 - 133) /\
            srem_assign Ti8 (-128) 128 = Ret 0.
Proof.
  split; [exact big_ops_z_ok|].
  eexists; split; [vm_compute; reflexivity|].
  split; [|vm_compute; repeat split; reflexivity].
  (* In is decided by find: lookup returns an element of the list *)
  assert (L : lookup forms RBinop OpSub (ks Ti8 true) (kb FamI true) =
              Some {| f_role := RBinop; f_op := OpSub; f_lhs := ks Ti8 true; f_rhs := kb FamI true;
                      f_shape := SFwd RBinop OpSub (ax ASelf MDeref None) (ax AOther MClone None) |})
    by (vm_compute; reflexivity).
  unfold lookup in L. apply find_some in L. exact (proj1 L).
Qed.
