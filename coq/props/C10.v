(* C10 — every overloaded operator form agrees with the reference-by-reference operation.

   FULL STATEMENT (target): for each of the 1286 operator impls of BigUint/BigInt (binary operators
   by value / by reference in any combination, compound assignment, a primitive scalar of any
   supported type on either side, scalar %= big, checked_*, Sum/Product), the Rust result (or panic)
   equals the ref-ref BigUint/BigInt operation on the losslessly converted operands.

   PROVED HERE (for all operand values, any answer of the capacity/len tests), at the DIGIT-LEVEL
   models of the owning areas run on the canonical encodings of the operands
   ([big_ops_digit v], inst/InstFormsOps.v; [v] picks the by-value / assign body where the crate has
   two hand-written bodies for one operator):
   * C10_all_forms_checked — every row of the table regenerated from the source on each run
     (tools/extractors/forms.py expands all forwarding/promotion macros) satisfies the decidable
     soundness condition check_form; the table has 1286 rows.
   * C10_big_ops_discharged — the digit-level operations of C01 (add/sub), C02 (mul), C03 (div/rem),
     C07 (& | ^, shifts), C12 (pow, at bmul := Mul.umul) have the Z-level ref-ref value [zsem]:
     this is [big_ops_ok], formerly the hypothesis of the `_partial` theorems.
   * C10_forms_agree — for every binary/assign row, the interpreter of its forwarding chain down to
     the hand-written leaf, with the thin leaves restated in FormsLeaves.v over those digit-level
     operations, yields the Z-level ref-ref semantics zsem (value AND panic cases: BigUint
     underflow, zero divisor, negative shift, pow memory overflow).  For the two shift operators the
     statement carries the physical range of C07 ([shift_phys]: `<<` whose result would have >= 2^60
     digits is a capacity-overflow panic — C10_shl_overflow_all_forms shows EVERY form panics then;
     `>>` is stated, like C07_ushr, for vectors of fewer than 2^58 digits).
   * C10_forms_agree_ref — without any range condition, for ALL values: every form equals the
     reference ([sem_ref]: zsem, and for `<<`/`>>` the reference leaf itself).
   * C10_checked_agree, C10_folds_agree — the same for checked_* and Sum/Product (closed).
   What remains outside Coq: the tie between a row and the Rust impl it describes is the extractor
   plus the correspondence run (the harness calls each of the 1286 impls by its qualified trait path
   and compares in-process with the ref-ref result). *)
From Coq Require Import ZArith List Bool.
From BigNum Require Import Base X86 AddSub Forms FormsLeaves FormsProofs FormsLeavesProofs FormsAddSubLeaves Extracted InstAddSub InstForms InstFormsOps.
Import ListNotations.
Open Scope Z_scope.

Theorem C10_all_forms_checked :
  forallb (check_form forms) forms = true /\ Z.of_nat (length forms) = 1286.
Proof. split; [exact C10_all_forms | apply C10_forms_count]. Qed.
Print Assumptions C10_all_forms_checked.

(* the hypotheses of the former `_partial` theorems, discharged for the digit-level operations *)
Theorem C10_big_ops_discharged : forall v : bool, big_ops_ok (big_ops_digit v).
Proof. exact big_ops_digit_ok. Qed.
Print Assumptions C10_big_ops_discharged.

Theorem C10_forms_agree :
  forall (v : bool) (orc : form -> Z -> Z -> bool),
  forall f, In f forms -> is_arith_role (f_role f) = true ->
  forall x y, in_oty (k_ty (f_lhs f)) x -> in_oty (k_ty (f_rhs f)) y -> shift_phys (f_op f) x y ->
  eval_form (leaf_of (big_ops_digit v)) forms orc f x y = zsem (fam f) (f_op f) x y.
Proof. intros v orc. exact (forms_agree (big_ops_digit v) orc (big_ops_digit_ok v)). Qed.
Print Assumptions C10_forms_agree.

(* all values, no range condition: every form equals the reference (for `<<` / `>>` the reference
   leaf `biguint_shl/shr` resp. its BigInt sign wrapper, capacity-overflow panic included) *)
Theorem C10_forms_agree_ref :
  forall (v : bool) (orc : form -> Z -> Z -> bool),
  forall f, In f forms -> is_arith_role (f_role f) = true ->
  forall x y, in_oty (k_ty (f_lhs f)) x -> in_oty (k_ty (f_rhs f)) y ->
  eval_form (leaf_of (big_ops_digit v)) forms orc f x y = sem_ref (big_ops_digit v) (fam f) (f_op f) x y.
Proof. intros v orc. exact (forms_agree_ref (big_ops_digit v) orc (big_ops_digit_ok v)). Qed.
Print Assumptions C10_forms_agree_ref.

(* outside the physical range of `<<` every form panics with the capacity overflow *)
Theorem C10_shl_overflow_all_forms :
  forall (v : bool) (orc : form -> Z -> Z -> bool),
  forall f, In f forms -> is_arith_role (f_role f) = true -> f_op f = OpShl ->
  forall x k, in_oty (k_ty (f_lhs f)) x -> in_oty (k_ty (f_rhs f)) k -> 0 <= k -> shl_overflow x k = true ->
  eval_form (leaf_of (big_ops_digit v)) forms orc f x k = Panic MemOverflow.
Proof. intros v orc. exact (shl_overflow_all_forms v orc). Qed.
Print Assumptions C10_shl_overflow_all_forms.

Theorem C10_checked_agree :
  forall (v : bool) (orc : form -> Z -> Z -> bool),
  forall f, In f forms -> f_role f = RChecked ->
  forall x y, in_oty (OBig (fam f)) x -> in_oty (OBig (fam f)) y ->
  eval_checked (leaf_of (big_ops_digit v)) forms orc (leafc_of (big_ops_digit v)) f x y =
  checked_of (zsem (fam f) (f_op f) x y).
Proof. intros v orc. exact (checked_agree (big_ops_digit v) orc (big_ops_digit_ok v)). Qed.
Print Assumptions C10_checked_agree.

Theorem C10_folds_agree :
  forall (v : bool) (orc : form -> Z -> Z -> bool),
  forall f, In f forms -> f_role f = RFold ->
  exists b init, k_ty (f_lhs f) = OBig b /\ f_shape f = SFold init (f_op f) /\
    ((f_op f = OpAdd /\ init = 0) \/ (f_op f = OpMul /\ init = 1)) /\
    forall kt g l, lookup forms RBinop (f_op f) (kb b false) kt = Some g ->
      (b = FamU -> forall v, in_oty (k_ty kt) v -> 0 <= v) -> Forall (in_oty (k_ty kt)) l ->
      eval_fold (leaf_of (big_ops_digit v)) forms orc f kt l =
      Ret (fold_left (match f_op f with OpAdd => Z.add | _ => Z.mul end) l init).
Proof. intros v orc. exact (folds_agree (big_ops_digit v) orc (big_ops_digit_ok v)). Qed.
Print Assumptions C10_folds_agree.

(* the same three statements hold for ANY operations satisfying [big_ops_ok] — in particular for
   the Z-level instance [big_ops_z] the extracted driver runs (FormsLeaves.leaf_z) *)
Theorem C10_forms_agree_any_ops :
  forall (p : big_ops) (orc : form -> Z -> Z -> bool), big_ops_ok p ->
  forall f, In f forms -> is_arith_role (f_role f) = true ->
  forall x y, in_oty (k_ty (f_lhs f)) x -> in_oty (k_ty (f_rhs f)) y -> shift_phys (f_op f) x y ->
  eval_form (leaf_of p) forms orc f x y = zsem (fam f) (f_op f) x y.
Proof. exact forms_agree. Qed.
Print Assumptions C10_forms_agree_any_ops.

(* generic soundness of the decidable condition, for ANY table and ANY reference semantics whose
   `commutative` operators commute *)
Theorem C10_form_sound :
  forall (sem : bigty -> opk -> Z -> Z -> outcome Z) (leaf : form -> Z -> Z -> outcome Z)
         (tbl : list form) (orc : form -> Z -> Z -> bool),
  (forall b o x y, commutative o = true -> sem b o x y = sem b o y x) ->
  (forall f x y, is_arith_role (f_role f) = true -> f_shape f = SLeaf -> known_leaf f = true ->
                 in_oty (k_ty (f_lhs f)) x -> in_oty (k_ty (f_rhs f)) y ->
                 leaf f x y = sem (fam f) (f_op f) x y) ->
  forall f, is_arith_role (f_role f) = true -> check_form tbl f = true ->
  forall x y, in_oty (k_ty (f_lhs f)) x -> in_oty (k_ty (f_rhs f)) y ->
  eval_form leaf tbl orc f x y = sem (fam f) (f_op f) x y.
Proof. exact form_sound. Qed.
Print Assumptions C10_form_sound.

(* scalar %= &BigUint for the 12 primitive types (the signed macro as fixed in /repo dc3abd4),
   including iN::MIN %= 2^(N-1) = 0 *)
Theorem C10_leaf_rem_assign :
  forall t s u, slo t <= s <= shi t -> 0 <= u -> srem_assign t s u = zsem FamU OpRem s u.
Proof. exact leaf_rem_assign_spec. Qed.
Print Assumptions C10_leaf_rem_assign.

(* the BigUint scalar add/sub leaves at DIGIT level (model/AddSub.v: AddAssign<u32|u64|u128>,
   SubAssign<u32|u64|u128>, Sub<BigUint> for u32|u64|u128, on the source-extracted parameters):
   this discharges H_uadd_scalar, H_usub_scalar, H_scalar_usub for the digit-level instance *)
Theorem C10_leaf_biguint_addsub_scalar :
  forall x s, 0 <= x -> 0 <= s < B * B ->
  uadd_s_val addsub x s = zsem FamU OpAdd x s /\
  usub_s_val addsub x s = zsem FamU OpSub x s /\
  s_usub_val s x = zsem FamU OpSub s x.
Proof.
  intros x s Hx Hs. pose proof addsub_params_ok as Hp. repeat split.
  - apply H_uadd_scalar_discharged; assumption.
  - apply H_usub_scalar_discharged; assumption.
  - apply H_scalar_usub_discharged; assumption.
Qed.
Print Assumptions C10_leaf_biguint_addsub_scalar.

(* non-vacuity: the hypotheses are satisfiable (big_ops_z_ok), and a concrete chain
   `&i8 - &BigInt` -> `i8 - BigInt` -> `i32 - BigInt` (leaf, checked_uabs dispatch) evaluates right *)
Example C10_nonvacuous :
  eval_form (leaf_of (big_ops_digit false)) forms (fun _ _ _ => true)
    {| f_role := RBinop; f_op := OpSub; f_lhs := ks Ti8 true; f_rhs := kb FamI true;
       f_shape := SFwd RBinop OpSub (ax ASelf MDeref None) (ax AOther MClone None) |}
    (-128) (2 ^ 64 + 5) = Ret (- 2 ^ 64 - 133) /\
  big_ops_ok big_ops_z /\
  exists g, lookup forms RBinop OpSub (ks Ti8 true) (kb FamI true) = Some g /\ In g forms /\
            is_arith_role (f_role g) = true /\ in_otyb (k_ty (f_lhs g)) (-128) = true /\
            eval_form (leaf_of big_ops_z) forms (fun _ _ _ => true) g (-128) (2 ^ 64 + 5) = Ret (- 2 ^ 64 - 133) /\
            srem_assign Ti8 (-128) 128 = Ret 0.
Proof.
  split; [vm_compute; reflexivity|].
  split; [exact big_ops_z_ok|].
  eexists; split; [vm_compute; reflexivity|].
  split; [|vm_compute; repeat split; reflexivity].
  (* In is decided by find: lookup returns an element of the list *)
  assert (L : lookup forms RBinop OpSub (ks Ti8 true) (kb FamI true) =
              Some {| f_role := RBinop; f_op := OpSub; f_lhs := ks Ti8 true; f_rhs := kb FamI true;
                      f_shape := SFwd RBinop OpSub (ax ASelf MDeref None) (ax AOther MClone None) |})
    by (vm_compute; reflexivity).
  unfold lookup in L. apply find_some in L. exact (proj1 L).
Qed.
