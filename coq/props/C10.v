(* C10 — every overloaded operator form agrees with the reference-by-reference operation. *)
From BigNum Require Import Base Forms FormsLeaves Extracted InstForms.
Open Scope Z_scope.

Theorem C10_all_forms_checked : forallb (check_form forms) forms = true.
Proof. exact C10_all_forms. Qed.
Print Assumptions C10_all_forms_checked.
