(* C09 — byte and digit-vector import/export is exact, minimal and order-consistent.
   Statements only; proofs live in proofs/{BitDigitsProofs,BytesProofs,SignedBytesProofs,
   IterProofs}.v.  Notation: [inb b l] = every element of l is in [0,b); [le_value b l] =
   Σ l_i b^i; [le_digits b n] = the base-b digits of n, least significant first, without a
   high zero digit ([] for 0); bytes / u32 words / native digits are bases 256 / 2^32 / 2^64. *)
From BigNum Require Import Base BaseLemmas SpecBytes BytesLemmas BitDigits BitDigitsProofs
  Iter IterProofs Bytes BytesProofs SignedBytesProofs Extracted InstIter InstBytes.
Open Scope Z_scope.

(* The iterator theorems are proved generically in the source-extracted decision points of
   `U32Digits` and instantiated here at `Extracted.iter` (inst/InstIter.v). *)
Local Notation IP := Extracted.iter.
Local Notation iok := iter_params_ok.
(* ... and the byte import/export theorems in those of to_bytes_le / from_bytes_le / *_signed_bytes_*,
   instantiated at `Extracted.byteio` (inst/InstBytes.v). *)
Local Notation BP := Extracted.byteio.
Local Notation bok := bytes_params_ok.

(** ** the meaning of the specification functions themselves *)
Theorem C09_le_digits_meaning : forall b n, 1 < b -> 0 <= n ->
  inb b (le_digits b n) /\ strip (le_digits b n) = le_digits b n /\ le_value b (le_digits b n) = n.
Proof. apply le_digits_spec. Qed.
Print Assumptions C09_le_digits_meaning.

Theorem C09_le_digits_unique : forall b l, 1 < b -> inb b l -> strip l = l ->
  le_digits b (le_value b l) = l.
Proof. intros; apply le_digits_of_list; auto. Qed.
Print Assumptions C09_le_digits_unique.

(** the signed length is the least k >= 1 with -2^(8k-1) <= x < 2^(8k-1) *)
Theorem C09_signed_len_meaning : forall x,
  1 <= signed_len x /\ - 2 ^ (8 * signed_len x - 1) <= x < 2 ^ (8 * signed_len x - 1) /\
  forall j, 1 <= j -> - 2 ^ (8 * j - 1) <= x < 2 ^ (8 * j - 1) -> signed_len x <= j.
Proof.
  intros x. pose proof (signed_len_range x) as [H1 H2]. split; [exact H1|split; [exact H2|]].
  intros j. apply signed_len_minimal.
Qed.
Print Assumptions C09_signed_len_meaning.

(** ** export: bytes, u32 / u64 digit vectors *)
Theorem C09_to_bytes_le : forall u, canon u -> uto_bytes_le BP u = Ret (spec_to_bytes_le (val u)).
Proof. intros; apply uto_bytes_le_spec; auto using bok. Qed.
Print Assumptions C09_to_bytes_le.
Theorem C09_to_bytes_be : forall u, canon u -> uto_bytes_be BP u = Ret (spec_to_bytes_be (val u)).
Proof. intros; apply uto_bytes_be_spec; auto using bok. Qed.
Print Assumptions C09_to_bytes_be.
Theorem C09_to_u32_digits : forall u, canon u -> uto_u32_digits IP u = Ret (le_digits (2 ^ 32) (val u)).
Proof. intros u; apply (uto_u32_digits_spec IP u iok). Qed.
Print Assumptions C09_to_u32_digits.
Theorem C09_to_u64_digits : forall u, canon u -> uto_u64_digits u = le_digits (2 ^ 64) (val u).
Proof. apply uto_u64_digits_spec. Qed.
Print Assumptions C09_to_u64_digits.

Theorem C09_bigint_to_bytes_le : forall x, icanon x ->
  ito_bytes_le BP x = Ret (z_sign (ival x), spec_to_bytes_le (Z.abs (ival x))).
Proof. intros; apply ito_bytes_le_spec; auto using bok. Qed.
Print Assumptions C09_bigint_to_bytes_le.
Theorem C09_bigint_to_bytes_be : forall x, icanon x ->
  ito_bytes_be BP x = Ret (z_sign (ival x), spec_to_bytes_be (Z.abs (ival x))).
Proof. intros; apply ito_bytes_be_spec; auto using bok. Qed.
Print Assumptions C09_bigint_to_bytes_be.
Theorem C09_bigint_to_u32_digits : forall x, icanon x ->
  ito_u32_digits IP x = Ret (z_sign (ival x), le_digits (2 ^ 32) (Z.abs (ival x))).
Proof. intros x; apply (ito_u32_digits_spec IP x iok). Qed.
Print Assumptions C09_bigint_to_u32_digits.
Theorem C09_bigint_to_u64_digits : forall x, icanon x ->
  ito_u64_digits x = (z_sign (ival x), le_digits (2 ^ 64) (Z.abs (ival x))).
Proof. apply ito_u64_digits_spec. Qed.
Print Assumptions C09_bigint_to_u64_digits.

(** ** import: any byte / word sequence, with or without redundant padding *)
Theorem C09_from_bytes_le : forall bs, inb 256 bs -> ufrom_bytes_le BP bs = Ret (enc (le_value 256 bs)).
Proof. intros; apply ufrom_bytes_le_spec; auto using bok. Qed.
Print Assumptions C09_from_bytes_le.
Theorem C09_from_bytes_be : forall bs, inb 256 bs -> ufrom_bytes_be BP bs = Ret (enc (le_value 256 (rev bs))).
Proof. intros; apply ufrom_bytes_be_spec; auto using bok. Qed.
Print Assumptions C09_from_bytes_be.
Theorem C09_new : forall w, inb (2 ^ 32) w -> unew w = enc (le_value (2 ^ 32) w).
Proof. apply unew_spec. Qed.
Print Assumptions C09_new.
Theorem C09_from_slice : forall w, inb (2 ^ 32) w -> ufrom_slice w = enc (le_value (2 ^ 32) w).
Proof. apply ufrom_slice_spec. Qed.
Print Assumptions C09_from_slice.
Theorem C09_assign_from_slice : forall self w, inb (2 ^ 32) w ->
  uassign_from_slice self w = enc (le_value (2 ^ 32) w).
Proof. apply uassign_from_slice_spec. Qed.
Print Assumptions C09_assign_from_slice.
Theorem C09_bigint_new : forall s w, inb (2 ^ 32) w -> inew s w = ienc (sign_z s * le_value (2 ^ 32) w).
Proof. apply inew_spec. Qed.
Print Assumptions C09_bigint_new.
Theorem C09_bigint_from_slice : forall s w, inb (2 ^ 32) w ->
  ifrom_slice s w = ienc (sign_z s * le_value (2 ^ 32) w).
Proof. apply ifrom_slice_spec. Qed.
Print Assumptions C09_bigint_from_slice.
Theorem C09_bigint_assign_from_slice : forall self s w, inb (2 ^ 32) w ->
  iassign_from_slice self s w = ienc (sign_z s * le_value (2 ^ 32) w).
Proof. apply iassign_from_slice_spec. Qed.
Print Assumptions C09_bigint_assign_from_slice.
Theorem C09_bigint_from_bytes_le : forall s bs, inb 256 bs ->
  ifrom_bytes_le BP s bs = Ret (ienc (sign_z s * le_value 256 bs)).
Proof. intros; apply ifrom_bytes_le_spec; auto using bok. Qed.
Print Assumptions C09_bigint_from_bytes_le.
Theorem C09_bigint_from_bytes_be : forall s bs, inb 256 bs ->
  ifrom_bytes_be BP s bs = Ret (ienc (sign_z s * le_value 256 (rev bs))).
Proof. intros; apply ifrom_bytes_be_spec; auto using bok. Qed.
Print Assumptions C09_bigint_from_bytes_be.

(** ** signed bytes: shortest two's complement out, any sign-extended encoding in *)
Theorem C09_to_signed_bytes_le : forall x, icanon x ->
  to_signed_bytes_le BP x =
  Ret (le_digits_n (Z.to_nat (signed_len (ival x))) 256 (ival x mod 2 ^ (8 * signed_len (ival x)))).
Proof. intros; apply to_signed_bytes_le_spec; auto using bok. Qed.
Print Assumptions C09_to_signed_bytes_le.
Theorem C09_to_signed_bytes_be : forall x, icanon x ->
  to_signed_bytes_be BP x = Ret (rev (spec_to_signed_bytes_le (ival x))).
Proof. intros; apply to_signed_bytes_be_spec; auto using bok. Qed.
Print Assumptions C09_to_signed_bytes_be.
Theorem C09_from_signed_bytes_le : forall bs, inb 256 bs ->
  from_signed_bytes_le BP bs = Ret (ienc (spec_from_signed_bytes_le bs)).
Proof. intros; apply from_signed_bytes_le_spec; auto using bok. Qed.
Print Assumptions C09_from_signed_bytes_le.
Theorem C09_from_signed_bytes_be : forall bs, inb 256 bs ->
  from_signed_bytes_be BP bs = Ret (ienc (spec_from_signed_bytes_le (rev bs))).
Proof. intros; apply from_signed_bytes_be_spec; auto using bok. Qed.
Print Assumptions C09_from_signed_bytes_be.
Theorem C09_signed_bytes_roundtrip : forall x, icanon x ->
  (do l <- to_signed_bytes_le BP x; from_signed_bytes_le BP l) = Ret x.
Proof. intros; apply from_to_signed_bytes_le; auto using bok. Qed.
Print Assumptions C09_signed_bytes_roundtrip.

(** ** the digit iterators: a double-ended exact-size queue under ANY call list
   (next / next_back / nth k / len / size_hint, ended by last / count) *)
Theorem C09_iter_u32_any_interleaving : forall d cs, canon d ->
  it_run IP cs (it_new IP d) = dq_run cs (le_digits (2 ^ 32) (val d)).
Proof. intros; apply (iter32_spec IP); auto using iok. Qed.
Print Assumptions C09_iter_u32_any_interleaving.
Theorem C09_iter_u64_any_interleaving : forall d cs, canon d ->
  it64_run cs d = dq_run cs (le_digits (2 ^ 64) (val d)).
Proof. intros; apply iter64_spec; auto. Qed.
Print Assumptions C09_iter_u64_any_interleaving.

(** the refinement behind it: an invariant of all reachable states and one lemma per call *)
Theorem C09_iter_u32_invariant : forall d s, reachable IP d s -> inv s.
Proof. intros d s; apply (reachable_inv IP d s iok). Qed.
Print Assumptions C09_iter_u32_invariant.
Theorem C09_iter_u32_steps : forall s, inv s ->
  (let '(x, s') := it_next IP s in x = hd_error (abs s) /\ abs s' = tl (abs s) /\ inv s') /\
  (let '(x, s') := it_next_back IP s in x = last_opt (abs s) /\ abs s' = removelast (abs s) /\ inv s') /\
  (forall k, let '(x, s') := it_nth IP k s in
             x = hd_error (skipn k (abs s)) /\ abs s' = tl (skipn k (abs s)) /\ inv s') /\
  it_len IP s = Ret (Z.of_nat (length (abs s))) /\
  it_size_hint IP s = Ret (Z.of_nat (length (abs s)), Some (Z.of_nat (length (abs s)))) /\
  it_last IP s = last_opt (abs s) /\
  it_count IP s = Ret (Z.of_nat (length (abs s))).
Proof.
  intros s Hs. pose proof iok as Hok.
  split; [apply it_next_spec; auto|]. split; [apply it_next_back_spec; auto|].
  split; [intros k; apply it_nth_spec; auto|].
  split; [apply it_len_spec; auto|]. split; [apply it_size_hint_spec; auto|].
  split; [apply it_last_spec; auto|apply it_count_spec; auto].
Qed.
Print Assumptions C09_iter_u32_steps.
Theorem C09_iter_u32_initial : forall d, canon d ->
  inv (it_new IP d) /\ abs (it_new IP d) = le_digits (2 ^ 32) (val d).
Proof. intros d Hd. split; [apply inv_new; exact iok|apply abs_new; auto using iok]. Qed.
Print Assumptions C09_iter_u32_initial.
Theorem C09_iter_u32_fused : forall s, inv s -> abs s = [] ->
  fst (it_next IP s) = None /\ fst (it_next_back IP s) = None /\ it_len IP s = Ret 0 /\
  abs (snd (it_next IP s)) = [] /\ abs (snd (it_next_back IP s)) = [].
Proof. intros s; apply (it_fused IP s iok). Qed.
Print Assumptions C09_iter_u32_fused.

(** ** the bit-regrouping routines shared with the radix conversions (widths dividing 64) *)
Theorem C09_from_bitwise_digits_le : forall v bits, exact_width bits -> v <> [] -> inb (2 ^ bits) v ->
  from_bitwise_digits_le v bits = Ret (enc (le_value (2 ^ bits) v)).
Proof. apply from_bitwise_digits_le_spec. Qed.
Print Assumptions C09_from_bitwise_digits_le.
Theorem C09_to_bitwise_digits_le : forall u bits, exact_width bits -> canon u -> u <> [] ->
  to_bitwise_digits_le u bits = Ret (le_digits (2 ^ bits) (val u)).
Proof. apply to_bitwise_digits_le_spec. Qed.
Print Assumptions C09_to_bitwise_digits_le.

(** ... and the widths that do not divide 64 (3, 5, 6, 7: radices 8, 32, 64, 128) *)
Theorem C09_from_inexact_bitwise_digits_le : forall v bits, inexact_width bits -> v <> [] ->
  inb (2 ^ bits) v ->
  from_inexact_bitwise_digits_le v bits = Ret (enc (le_value (2 ^ bits) v)).
Proof. apply from_inexact_bitwise_digits_le_spec. Qed.
Print Assumptions C09_from_inexact_bitwise_digits_le.
Theorem C09_to_inexact_bitwise_digits_le : forall u bits, inexact_width bits -> canon u -> u <> [] ->
  to_inexact_bitwise_digits_le u bits = Ret (le_digits (2 ^ bits) (val u)).
Proof. apply to_inexact_bitwise_digits_le_spec. Qed.
Print Assumptions C09_to_inexact_bitwise_digits_le.

(* Non-vacuity: the hypotheses are satisfiable on non-trivial values that exercise the odd
   half-digit, the -2^(8k-1) exception and redundant padding. *)
Example C09_nonvacuous :
  canonb [5; 4294967296 * 7 + 3; 9] = true /\
  it_run IP [CNext; CBack; CLen; CNth 1; CBack; CNext; CNext; CLen; CCount] (it_new IP [5; 4294967296 * 7 + 3; 9])
    = [OItem (Some 5); OItem (Some 9); OLen 3; OItem (Some 3); OItem (Some 7); OItem None; OItem None; OLen 0; OLen 0] /\
  to_signed_bytes_le BP (mkint Minus [32768]) = Ret [0; 128] /\
  to_signed_bytes_le BP (mkint Minus [32769]) = Ret [255; 127; 255] /\
  from_signed_bytes_le BP [0; 128; 255; 255] = Ret (mkint Minus [32768]) /\
  unew [0; 1; 0; 0; 0] = [4294967296] /\
  to_inexact_bitwise_digits_le [18446744073709551615; 1] 3 =
    Ret [7; 7; 7; 7; 7; 7; 7; 7; 7; 7; 7; 7; 7; 7; 7; 7; 7; 7; 7; 7; 7; 3] /\
  from_inexact_bitwise_digits_le [7; 7; 7; 7; 7; 7; 7; 7; 7; 7; 7; 7; 7; 7; 7; 7; 7; 7; 7; 7; 7; 3; 0] 3 =
    Ret [18446744073709551615; 1].
Proof. repeat split; vm_compute; reflexivity. Qed.
