(* C09 — placeholder while the proofs are being written. *)
From BigNum Require Import Base BaseLemmas BitDigits Iter Bytes SpecBytes.
Open Scope Z_scope.
Example C09_nonvacuous : uto_bytes_le [258] = Ret [2; 1].
Proof. vm_compute. reflexivity. Qed.
